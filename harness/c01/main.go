// c01: conformance harness for BSP.tla / Trace_BSP.tla (property C01).
//
//	c01 random  -n N -out TRACE -res R             seeded random scenarios with schedule perturbation
//	c01 scripts -in FILE -out TRACE -res R         TLC behaviours / directed schedules replayed with gates
//
// Every scenario drives a real BatchSpanProcessor registered in a real TracerProvider (span.End is
// the real path into OnEnd) and records the API-level history plus the hook events as ndjson.
package main

import (
	"context"
	"encoding/json"
	"errors"
	"flag"
	"fmt"
	"math/rand"
	"os"
	"strings"
	"sync"
	"sync/atomic"
	"time"

	"go.opentelemetry.io/otel"
	sdktrace "go.opentelemetry.io/otel/sdk/trace"
	"go.opentelemetry.io/otel/sdk/verifh/vh"
	"go.opentelemetry.io/otel/trace"
)

type procKey struct{}

// procInfo travels in the ctx of ForceFlush / Shutdown calls: which harness process made the call, in
// which scenario (a goroutine leaked by an abandoned scenario must not speak for the current one).
type procInfo struct {
	name string
	sc   int
}

// Scenario is one configuration + workload (+ optional script).
type Scenario struct {
	Producers    int      `json:"producers"`
	SpansPer     int      `json:"spansPer"`
	QCap         int      `json:"qcap"`
	MaxBatch     int      `json:"maxbatch"`
	Blocking     bool     `json:"blocking"`
	Flushers     int      `json:"flushers"`
	FlushesPer   int      `json:"flushesPer"`
	Stoppers     int      `json:"stoppers"`
	BatchTimeout int      `json:"batchTimeoutUs"` // microseconds; 0 = one hour (timer never fires)
	ExportTOms   int      `json:"exportTimeoutMs"`
	ExpMode      string   `json:"expMode"` // "ok" | "mixed" (sleep / error / wait-for-deadline at random)
	Perturb      float64  `json:"perturb"`
	Script       []string `json:"script,omitempty"`
	Name         string   `json:"name,omitempty"`
	Kind         string   `json:"kind,omitempty"` // "batch" (default) | "simple" (SimpleSpanProcessor)
	Seed         int64    `json:"seed"`
}

type recExporter struct {
	tw      *vh.TraceWriter
	sc      int
	ids     map[trace.SpanID]int
	sched   *vh.Sched
	mode    string
	rng     *rand.Rand
	mu      sync.Mutex
	exports int64
}

func (e *recExporter) ExportSpans(ctx context.Context, spans []sdktrace.ReadOnlySpan) error {
	ids := make([]int, len(spans))
	for i, s := range spans {
		ids[i] = e.ids[s.SpanContext().SpanID()]
	}
	_, hasDL := ctx.Deadline()
	e.tw.Emit(map[string]any{"ev": "ExportBegin", "sc": e.sc, "ids": ids, "deadline": hasDL})
	atomic.AddInt64(&e.exports, 1)
	e.sched.Arrive("x@exp.begin")
	var err error
	if e.mode == "mixed" {
		e.mu.Lock()
		k := e.rng.Intn(8)
		d := time.Duration(e.rng.Intn(1500)) * time.Microsecond
		e.mu.Unlock()
		switch k {
		case 0, 1:
			time.Sleep(d)
		case 2:
			err = errors.New("export failed")
		case 3:
			if hasDL {
				<-ctx.Done() // exporter that only gives up at the export timeout
				err = ctx.Err()
			}
		}
	}
	e.tw.Emit(map[string]any{"ev": "ExportEnd", "sc": e.sc})
	return err
}

func (e *recExporter) Shutdown(context.Context) error {
	e.tw.Emit(map[string]any{"ev": "ExporterShutdown", "sc": e.sc})
	return nil
}

func errStr(err error) string {
	if err == nil {
		return ""
	}
	return err.Error()
}

// runScenario executes sc on the real code. It returns the names of goroutines still blocked after
// the grace period (blocking forever is C15's concern; here they are only reported).
func runScenario(scn int, sc Scenario, tw *vh.TraceWriter, res *vh.Result) {
	rng := rand.New(rand.NewSource(sc.Seed))
	sched := vh.NewSched(sc.Script, sc.Seed+7)
	sched.Perturb = sc.Perturb
	sched.Timeout = 100 * time.Millisecond
	ids := map[trace.SpanID]int{}
	owner := map[int]string{} // span id -> "p<i>:<k>"
	exp := &recExporter{tw: tw, sc: scn, ids: ids, sched: sched, mode: sc.ExpMode, rng: rand.New(rand.NewSource(sc.Seed + 1))}

	opts := []sdktrace.BatchSpanProcessorOption{
		sdktrace.WithMaxQueueSize(sc.QCap), sdktrace.WithMaxExportBatchSize(sc.MaxBatch),
		sdktrace.WithExportTimeout(time.Duration(sc.ExportTOms) * time.Millisecond),
	}
	if sc.BatchTimeout > 0 {
		opts = append(opts, sdktrace.WithBatchTimeout(time.Duration(sc.BatchTimeout)*time.Microsecond))
	} else {
		opts = append(opts, sdktrace.WithBatchTimeout(time.Hour))
	}
	if sc.Blocking {
		opts = append(opts, sdktrace.WithBlocking())
	}
	kind := sc.Kind
	if kind == "" {
		kind = "batch"
	}
	maxbatch := sc.MaxBatch
	if kind == "simple" {
		maxbatch = 1
	}
	tw.Emit(map[string]any{"ev": "Cfg", "sc": scn, "qcap": sc.QCap, "maxbatch": maxbatch, "blocking": sc.Blocking,
		"name": sc.Name, "kind": kind})

	var bsp sdktrace.SpanProcessor
	if kind == "simple" {
		bsp = sdktrace.NewSimpleSpanProcessor(exp)
	} else {
		bsp = sdktrace.NewBatchSpanProcessor(exp, opts...)
	}
	tp := sdktrace.NewTracerProvider(sdktrace.WithSpanProcessor(bsp), sdktrace.WithSampler(sdktrace.AlwaysSample()))
	tracer := tp.Tracer("c01")

	// pre-create the spans so that ids are known to the hook before any End
	spans := make([][]trace.Span, sc.Producers)
	next := 1
	for p := 0; p < sc.Producers; p++ {
		for k := 0; k < sc.SpansPer; k++ {
			_, s := tracer.Start(context.Background(), "s")
			ids[s.SpanContext().SpanID()] = next
			owner[next] = fmt.Sprintf("p%d:%d", p+1, k+1)
			next++
			spans[p] = append(spans[p], s)
		}
	}

	sdktrace.SetVerifHook(func(point string, args ...any) {
		switch point {
		case "bsp.onend.ignored", "bsp.onend.checked", "bsp.enq.sent", "bsp.enq.dropped",
			"bsp.worker.dequeued", "bsp.worker.appended", "bsp.drain.dequeued":
			ro, ok := args[0].(sdktrace.ReadOnlySpan)
			if !ok {
				return
			}
			id, known := ids[ro.SpanContext().SpanID()]
			if !known {
				return // flush marker or a span of another scenario
			}
			switch point {
			case "bsp.enq.dropped":
				total := 0
				if len(args) > 1 {
					if t, ok := args[1].(uint32); ok {
						total = int(t)
					}
				}
				tw.Emit(map[string]any{"ev": "Dropped", "sc": scn, "id": id, "total": total})
			case "bsp.onend.ignored":
				tw.Emit(map[string]any{"ev": "Ignored", "sc": scn, "id": id})
			}
			if point == "bsp.worker.dequeued" || point == "bsp.worker.appended" || point == "bsp.drain.dequeued" {
				sched.Arrive("w@" + point + ":" + owner[id])
			} else {
				sched.Arrive(owner[id] + "@" + point)
			}
		case "bsp.drain.empty":
			sched.Arrive("w@" + point)
		default: // ForceFlush / Shutdown points carry the caller's ctx
			if len(args) == 0 {
				return
			}
			ctx, ok := args[0].(context.Context)
			if !ok {
				return
			}
			pi, _ := ctx.Value(procKey{}).(procInfo)
			if pi.name == "" || pi.sc != scn {
				return
			}
			proc := pi.name
			if point == "bsp.ff.stopped" || point == "bsp.ff.stopch" {
				tw.Emit(map[string]any{"ev": "FFEarly", "sc": scn, "proc": proc})
			}
			sched.Arrive(proc + "@" + point)
		}
	})
	defer sdktrace.SetVerifHook(nil)

	var wg sync.WaitGroup
	var live sync.Map
	start := func(name string, f func()) {
		wg.Add(1)
		live.Store(name, true)
		go func() {
			defer wg.Done()
			defer live.Delete(name)
			f()
		}()
	}
	jitter := func(r *rand.Rand, maxUs int) {
		if sc.Script == nil && maxUs > 0 {
			if d := r.Intn(maxUs); d > 0 {
				time.Sleep(time.Duration(d) * time.Microsecond)
			}
		}
	}
	for p := 0; p < sc.Producers; p++ {
		p := p
		r := rand.New(rand.NewSource(rng.Int63()))
		start(fmt.Sprintf("p%d", p+1), func() {
			for k, s := range spans[p] {
				key := fmt.Sprintf("p%d:%d", p+1, k+1)
				id := ids[s.SpanContext().SpanID()]
				jitter(r, 300)
				sched.Arrive(key + "@call")
				tw.Emit(map[string]any{"ev": "Call", "sc": scn, "op": "End", "id": id})
				s.End()
				tw.Emit(map[string]any{"ev": "Ret", "sc": scn, "op": "End", "id": id})
				sched.Arrive(key + "@ret")
			}
		})
	}
	for f := 0; f < sc.Flushers; f++ {
		name := fmt.Sprintf("f%d", f+1)
		r := rand.New(rand.NewSource(rng.Int63()))
		start(name, func() {
			for j := 0; j < sc.FlushesPer; j++ {
				proc := name
				if sc.FlushesPer > 1 {
					proc = fmt.Sprintf("%s.%d", name, j+1)
				}
				ctx := context.WithValue(context.Background(), procKey{}, procInfo{proc, scn})
				jitter(r, 1500)
				sched.Arrive(proc + "@call")
				tw.Emit(map[string]any{"ev": "Call", "sc": scn, "op": "FF", "proc": proc})
				err := bsp.ForceFlush(ctx)
				tw.Emit(map[string]any{"ev": "Ret", "sc": scn, "op": "FF", "proc": proc, "err": errStr(err)})
				sched.Arrive(proc + "@ret")
			}
		})
	}
	for s := 0; s < sc.Stoppers; s++ {
		name := fmt.Sprintf("s%d", s+1)
		r := rand.New(rand.NewSource(rng.Int63()))
		start(name, func() {
			ctx := context.WithValue(context.Background(), procKey{}, procInfo{name, scn})
			jitter(r, 2500)
			sched.Arrive(name + "@call")
			tw.Emit(map[string]any{"ev": "Call", "sc": scn, "op": "SD", "proc": name})
			err := bsp.Shutdown(ctx)
			tw.Emit(map[string]any{"ev": "Ret", "sc": scn, "op": "SD", "proc": name, "err": errStr(err)})
			sched.Arrive(name + "@ret")
		})
	}
	done := make(chan struct{})
	go func() { wg.Wait(); close(done) }()
	grace := 600 * time.Millisecond
	if sc.Script != nil {
		grace = 3 * time.Second // gate waits add up
	}
	blocked := []string{}
	select {
	case <-done:
	case <-time.After(grace):
		live.Range(func(k, _ any) bool { blocked = append(blocked, k.(string)); return true })
		res.Count("scenarios_with_blocked_goroutines", 1)
	}
	followed, desync, remaining := sched.Stats()
	res.Count("script_steps_followed", int64(followed))
	res.Count("script_steps_desync", int64(desync+remaining))
	for _, k := range sched.Skipped {
		if i := strings.Index(k, "@"); i >= 0 {
			res.Count("desync@"+strings.SplitN(k[i+1:], ":", 2)[0], 1)
		}
	}
	res.Count("exports", atomic.LoadInt64(&exp.exports))
	// quiescent only if everybody returned; a late export by a leaked goroutine would otherwise be misjudged
	tw.Emit(map[string]any{"ev": "EndScenario", "sc": scn, "quiescent": len(blocked) == 0, "blocked": blocked})
	if len(blocked) > 0 {
		// let leaked goroutines not pollute the next scenario's hook; they only ever block on channels
		time.Sleep(2 * time.Millisecond)
	}
}

func randomScenario(r *rand.Rand) Scenario {
	pick := func(xs ...int) int { return xs[r.Intn(len(xs))] }
	sc := Scenario{
		Producers: 1 + r.Intn(4), SpansPer: 1 + r.Intn(6), QCap: pick(1, 2, 3, 8, 64), MaxBatch: pick(1, 2, 3, 8),
		Blocking: r.Intn(10) < 3, Flushers: r.Intn(3), FlushesPer: 1 + r.Intn(2), Stoppers: 1 + r.Intn(2),
		BatchTimeout: pick(0, 0, 200, 1000, 5000), ExportTOms: pick(0, 2, 30000), ExpMode: "ok",
		Perturb: []float64{0, 0.2, 0.6}[r.Intn(3)], Seed: r.Int63(),
	}
	if r.Intn(2) == 0 {
		sc.ExpMode = "mixed"
	}
	if r.Intn(6) == 0 {
		sc.Kind = "simple"
	}
	return sc
}

func main() {
	if len(os.Args) < 2 {
		fmt.Println("usage: c01 random|scripts ...")
		os.Exit(3)
	}
	fs := flag.NewFlagSet(os.Args[1], flag.ExitOnError)
	n := fs.Int("n", 200, "")
	in := fs.String("in", "", "")
	out := fs.String("out", "trace.ndjson", "")
	resF := fs.String("res", "result.json", "")
	fs.Parse(os.Args[2:])
	tw, err := vh.NewTraceWriter(*out)
	vh.Must(err)
	res := vh.NewResult()
	otel.SetErrorHandler(otel.ErrorHandlerFunc(func(error) {})) // exporter errors are scripted, not news
	switch os.Args[1] {
	case "random":
		r := rand.New(rand.NewSource(vh.Seed()))
		for i := 0; i < *n; i++ {
			sc := randomScenario(r)
			runScenario(i, sc, tw, res)
			res.Executed++
			if i < 2 {
				res.Sample(sc)
			}
		}
	case "scripts":
		b, err := os.ReadFile(*in)
		vh.Must(err)
		var scs []Scenario
		vh.Must(json.Unmarshal(b, &scs))
		for i, sc := range scs {
			if sc.Seed == 0 {
				sc.Seed = vh.Seed() + int64(i)
			}
			runScenario(i, sc, tw, res)
			res.Executed++
			if i < 2 {
				res.Sample(sc)
			}
		}
	default:
		os.Exit(3)
	}
	res.Evaluations = res.Executed
	vh.Must(tw.Close())
	res.Count("trace_lines", tw.N)
	vh.Must(res.Write(*resF))
}
