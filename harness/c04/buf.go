// c04 buf*: caller-owned attribute buffers travelling through several span calls
// (SpanBufModel.tla / SpanBuf.tla, property C04, class "caller memory is a value fixed at call time").
//
//	c04 bufreplay -edges F -lim JSON -rep N -out R   replay every SpanBuf edge with real Go slices
//	c04 bufrandom -n N -out TRACE -res R             random buffer programs -> ndjson for Trace_SpanBuf
//
// Go only executes and projects: a buffer of the model is one real []attribute.KeyValue that keeps
// its identity for the whole history (spare: make(_, 0, 8), every append / refill happens in place;
// tight: exact capacity, every growth is a fresh array); span calls receive that very slice
// (WithAttributes(buf...), Link{Attributes: buf}, SetAttributes(buf...)); caller writes are plain Go
// writes to it. What the exported span must then hold comes from the TLA+ successor state only.
package main

import (
	"context"
	"encoding/json"
	"errors"
	"flag"
	"fmt"
	"math/rand"
	"sort"
	"strings"

	"go.opentelemetry.io/otel/attribute"
	sdktrace "go.opentelemetry.io/otel/sdk/trace"
	"go.opentelemetry.io/otel/sdk/verifh/vh"
	"go.opentelemetry.io/otel/trace"
)

type BTok struct {
	K string `json:"k"`
	I int    `json:"i"`
}
type BBuf struct {
	C     []BTok `json:"c"`
	Spare bool   `json:"spare"`
}
type BLinkOp struct {
	Valid bool   `json:"valid"`
	TST   bool   `json:"tst"`
	B     string `json:"b"`
}
type BOp struct {
	Op    string    `json:"op"`
	B     string    `json:"b"`
	P     int       `json:"p"`
	Tok   BTok      `json:"tok"`
	Toks  []BTok    `json:"toks"`
	Name  string    `json:"name"`
	Opts  []string  `json:"opts"`
	Err   int       `json:"err"`
	Stack bool      `json:"stack"`
	Valid bool      `json:"valid"`
	TST   bool      `json:"tst"`
	AOpts []string  `json:"aopts"`
	Links []BLinkOp `json:"links"`
}

// MarshalJSON emits exactly the fields the TLA+ operation record of that kind has (never null).
func (o BOp) MarshalJSON() ([]byte, error) {
	m := map[string]any{"op": o.Op}
	ids := func(s []string) []string {
		if s == nil {
			return []string{}
		}
		return s
	}
	switch o.Op {
	case "CW":
		m["b"], m["p"], m["tok"] = o.B, o.P, o.Tok
	case "CA":
		m["b"], m["tok"] = o.B, o.Tok
	case "CR":
		m["b"] = o.B
		if o.Toks == nil {
			m["toks"] = []BTok{}
		} else {
			m["toks"] = o.Toks
		}
	case "SetAttributes":
		m["b"] = o.B
	case "AddEvent":
		m["name"], m["opts"] = o.Name, ids(o.Opts)
	case "RecordError":
		m["err"], m["stack"], m["opts"] = o.Err, o.Stack, ids(o.Opts)
	case "AddLink":
		m["valid"], m["tst"], m["b"] = o.Valid, o.TST, o.B
	case "Start":
		m["aopts"] = ids(o.AOpts)
		if o.Links == nil {
			m["links"] = []BLinkOp{}
		} else {
			m["links"] = o.Links
		}
	}
	return json.Marshal(m)
}

func (o BOp) isWrite() bool { return o.Op == "CW" || o.Op == "CA" || o.Op == "CR" }

type BAttr struct {
	K string `json:"k"`
	T string `json:"t"`
	X int    `json:"x"`
	Y int    `json:"y"`
}
type BEvent struct {
	Name string `json:"name"`
	TS   string `json:"ts"`
	Ks   []BTok `json:"ks"`
	Ks2  []BTok `json:"ks2,omitempty"`
	D    int    `json:"d"`
}
type BLink struct {
	Valid bool   `json:"valid"`
	TST   bool   `json:"tst"`
	Ks    []BTok `json:"ks"`
	D     int    `json:"d"`
}
type BState struct {
	Attrs     []BAttr  `json:"attrs"`
	Dropped   int      `json:"dropped"`
	Events    []BEvent `json:"events"`
	EvDropped int      `json:"evDropped"`
	Links     []BLink  `json:"links"`
	LkDropped int      `json:"lkDropped"`
	Ended     bool     `json:"ended"`
}

// the model's full state as printed in edges: only st and bufs are used
type BFull struct {
	St   BState          `json:"st"`
	Bufs map[string]BBuf `json:"bufs"`
}

type myErr2 struct{}

func (myErr2) Error() string { return "boom2" }

var bufErrs = map[int]error{1: errors.New("boom1"), 2: myErr2{}}
var bufErrType = map[string]int{"*errors.errorString": 1, "main.myErr2": 2}
var bufErrMsg = map[string]int{"boom1": 1, "boom2": 2}

func bkv(t BTok) attribute.KeyValue { return attribute.Int(t.K, t.I) }

const spareCap = 8

// bufWorld is the caller's memory: one real slice per model buffer.
type bufWorld struct {
	bufs   map[string][]attribute.KeyValue
	spare  map[string]bool
	optBuf []trace.EventOption // rep 1: the option slice itself is a re-used buffer with spare capacity
	rep    int
}

func newWorld(init map[string]BBuf, rep int) *bufWorld {
	w := &bufWorld{bufs: map[string][]attribute.KeyValue{}, spare: map[string]bool{}, rep: rep,
		optBuf: make([]trace.EventOption, 0, 8)}
	for id, b := range init {
		w.spare[id] = b.Spare
		var s []attribute.KeyValue
		if b.Spare {
			s = make([]attribute.KeyValue, 0, spareCap)
		} else {
			s = make([]attribute.KeyValue, 0, len(b.C))
		}
		for _, t := range b.C {
			s = append(s, bkv(t))
		}
		w.bufs[id] = s
	}
	return w
}

// grow returns a slice with room for n more elements, keeping the buffer's capacity class
func (w *bufWorld) grow(id string, s []attribute.KeyValue, n int) []attribute.KeyValue {
	if len(s)+n <= cap(s) && w.spare[id] {
		return s
	}
	c := len(s) + n
	if w.spare[id] {
		c += spareCap
	}
	ns := make([]attribute.KeyValue, len(s), c)
	copy(ns, s)
	return ns
}

func (w *bufWorld) write(op BOp) {
	switch op.Op {
	case "CW": // overwrite in place
		w.bufs[op.B][op.P-1] = bkv(op.Tok)
	case "CA": // append: in place when the buffer has spare capacity
		w.bufs[op.B] = append(w.grow(op.B, w.bufs[op.B], 1), bkv(op.Tok))
	case "CR": // re-slice to zero and refill (the usual "reuse the buffer" idiom)
		s := w.bufs[op.B][:0]
		if !w.spare[op.B] && len(op.Toks) > cap(s) {
			s = make([]attribute.KeyValue, 0, len(op.Toks))
		} else {
			s = w.grow(op.B, s, len(op.Toks))
		}
		for _, t := range op.Toks {
			s = append(s, bkv(t))
		}
		w.bufs[op.B] = s
	}
}

func (w *bufWorld) evOpts(ids []string) []trace.EventOption {
	var opts []trace.EventOption
	if w.rep%2 == 1 {
		opts = w.optBuf[:0]
	} else {
		opts = make([]trace.EventOption, 0, len(ids))
	}
	for _, id := range ids {
		opts = append(opts, trace.WithAttributes(w.bufs[id]...))
	}
	return opts
}

func (w *bufWorld) link(valid, tst bool, b string) trace.Link {
	cfg := trace.SpanContextConfig{}
	if valid {
		cfg = trace.SpanContextConfig{TraceID: trace.TraceID{1, 2, 3}, SpanID: trace.SpanID{4, 5, 6}, TraceFlags: trace.FlagsSampled}
	}
	if tst {
		cfg.TraceState = someTS
	}
	l := trace.Link{SpanContext: trace.NewSpanContext(cfg)}
	if b != "" {
		l.Attributes = w.bufs[b]
	}
	return l
}

func (w *bufWorld) startOpts(op BOp) []trace.SpanStartOption {
	var opts []trace.SpanStartOption
	lks := make([]trace.Link, 0, len(op.Links)+w.rep%2*4)
	for _, l := range op.Links {
		lks = append(lks, w.link(l.Valid, l.TST, l.B))
	}
	put := func() {
		if len(lks) > 0 {
			opts = append(opts, trace.WithLinks(lks...))
		}
	}
	if w.rep%2 == 1 {
		put()
	}
	for _, id := range op.AOpts {
		opts = append(opts, trace.WithAttributes(w.bufs[id]...))
	}
	if w.rep%2 == 0 {
		put()
	}
	return opts
}

func (w *bufWorld) call(span trace.Span, op BOp) {
	switch op.Op {
	case "SetAttributes":
		span.SetAttributes(w.bufs[op.B]...)
	case "AddEvent":
		span.AddEvent(op.Name, w.evOpts(op.Opts)...)
	case "RecordError":
		opts := w.evOpts(op.Opts)
		if op.Stack {
			opts = append(opts, trace.WithStackTrace(true))
		}
		span.RecordError(bufErrs[op.Err], opts...)
	case "AddLink":
		span.AddLink(w.link(op.Valid, op.TST, op.B))
	case "End":
		span.End()
	case "Start":
	default:
		panic("unknown buf op " + op.Op)
	}
}

func projToks(attrs []attribute.KeyValue) []BTok {
	out := []BTok{}
	for _, kv := range attrs {
		t := BTok{K: string(kv.Key), I: -1}
		switch t.K {
		case "exception.type":
			if id, ok := bufErrType[kv.Value.AsString()]; ok && kv.Value.Type() == attribute.STRING {
				t.I = id
			}
		case "exception.message":
			if id, ok := bufErrMsg[kv.Value.AsString()]; ok && kv.Value.Type() == attribute.STRING {
				t.I = id
			}
		case "exception.stacktrace":
			if kv.Value.Type() == attribute.STRING && len(kv.Value.AsString()) > 0 {
				t.I = 0
			}
		default:
			if kv.Value.Type() == attribute.INT64 {
				t.I = int(kv.Value.AsInt64())
			}
		}
		out = append(out, t)
	}
	return out
}

func projectB(ro sdktrace.ReadOnlySpan, ended bool) BState {
	st := BState{Attrs: []BAttr{}, Events: []BEvent{}, Links: []BLink{}, Ended: ended}
	for _, kv := range ro.Attributes() {
		a := BAttr{K: string(kv.Key), T: "i", X: -1, Y: -1}
		if kv.Value.Type() == attribute.INT64 {
			a.X, a.Y = int(kv.Value.AsInt64()), int(kv.Value.AsInt64())
		}
		st.Attrs = append(st.Attrs, a)
	}
	st.Dropped = ro.DroppedAttributes()
	for _, e := range ro.Events() {
		st.Events = append(st.Events, BEvent{Name: e.Name, Ks: projToks(e.Attributes), D: e.DroppedAttributeCount})
	}
	st.EvDropped = ro.DroppedEvents()
	for _, l := range ro.Links() {
		st.Links = append(st.Links, BLink{Valid: l.SpanContext.IsValid(), TST: l.SpanContext.TraceState().Len() > 0,
			Ks: projToks(l.Attributes), D: l.DroppedAttributeCount})
	}
	st.LkDropped = ro.DroppedLinks()
	return st
}

// runB executes ops (caller writes and span calls) on a fresh span and fresh buffers and returns
// the projection of the exported span, taken after the LAST op (so a write after End counts too).
func runB(lim Lim, init map[string]BBuf, ops []BOp, rep int) (st BState, panicked any) {
	defer func() {
		if r := recover(); r != nil {
			panicked = r
		}
	}()
	w := newWorld(init, rep)
	exp := &capExporter{}
	tp := sdktrace.NewTracerProvider(sdktrace.WithRawSpanLimits(lim.raw()), sdktrace.WithSyncer(exp),
		sdktrace.WithSampler(sdktrace.AlwaysSample()))
	var sopts []trace.SpanStartOption
	if len(ops) > 0 && ops[0].Op == "Start" {
		sopts = w.startOpts(ops[0])
		ops = ops[1:]
	}
	_, span := tp.Tracer("c04").Start(context.Background(), "n0", sopts...)
	ended := false
	for _, op := range ops {
		if op.isWrite() {
			w.write(op)
			continue
		}
		w.call(span, op)
		if op.Op == "End" {
			ended = true
		}
	}
	if !ended {
		span.End() // the export is the observation
	}
	if len(exp.spans) != 1 {
		panic(fmt.Sprintf("exported %d spans, want 1", len(exp.spans)))
	}
	return projectB(exp.spans[0], ended), nil
}

func toksEq(a, b []BTok) bool {
	if len(a) != len(b) {
		return false
	}
	for i := range a {
		if a[i] != b[i] {
			return false
		}
	}
	return true
}

// diffB: "" when the projection agrees with the model state (attributes as a map; either
// admissible order of RecordError's attribute groups).
func diffB(got, want BState) string {
	if len(got.Attrs) != len(want.Attrs) {
		return fmt.Sprintf("attribute count %d != %d", len(got.Attrs), len(want.Attrs))
	}
	gm := map[string]BAttr{}
	for _, a := range got.Attrs {
		if _, dup := gm[a.K]; dup {
			return "duplicate key " + a.K
		}
		gm[a.K] = a
	}
	for _, w := range want.Attrs {
		g, ok := gm[w.K]
		if !ok {
			return "missing key " + w.K
		}
		if g.X != w.X && g.X != w.Y {
			return "value of " + w.K
		}
	}
	if got.Dropped != want.Dropped {
		return fmt.Sprintf("droppedAttributes %d != %d", got.Dropped, want.Dropped)
	}
	if len(got.Events) != len(want.Events) || got.EvDropped != want.EvDropped {
		return "events"
	}
	for i, w := range want.Events {
		g := got.Events[i]
		if g.Name != w.Name || g.D != w.D || (!toksEq(g.Ks, w.Ks) && !toksEq(g.Ks, w.Ks2)) {
			return fmt.Sprintf("attributes of event %d", i)
		}
	}
	if len(got.Links) != len(want.Links) || got.LkDropped != want.LkDropped {
		return "links"
	}
	for i, w := range want.Links {
		g := got.Links[i]
		if g.Valid != w.Valid || g.TST != w.TST || g.D != w.D || !toksEq(g.Ks, w.Ks) {
			return fmt.Sprintf("attributes of link %d", i)
		}
	}
	return ""
}

func countBuf(res *vh.Result, pfx string, init map[string]BBuf, ops []BOp) {
	used := map[string]int{}
	wrote := false
	for _, op := range ops {
		var ids []string
		switch op.Op {
		case "CW", "CA", "CR":
			if used[op.B] > 0 {
				res.Count(pfx+"_write_"+op.Op+"_after_buffer_was_passed", 1)
				if init[op.B].Spare {
					res.Count(pfx+"_write_after_pass_spare", 1)
				}
			}
			wrote = true
			continue
		case "SetAttributes":
			ids = []string{op.B}
		case "AddEvent", "RecordError":
			ids = op.Opts
			if len(ids) > 1 {
				res.Count(pfx+"_call_with_several_buffer_options", 1)
			}
		case "AddLink":
			if op.B != "" {
				ids = []string{op.B}
			}
		case "Start":
			ids = append(ids, op.AOpts...)
			for _, l := range op.Links {
				if l.B != "" {
					ids = append(ids, l.B)
				}
			}
		}
		for _, id := range ids {
			if used[id] > 0 {
				res.Count(pfx+"_buffer_passed_again", 1)
				if wrote {
					res.Count(pfx+"_buffer_passed_again_after_write", 1)
				}
				break
			}
		}
		for _, id := range ids {
			used[id]++
		}
	}
}

func bufReplay(args []string) {
	fs := flag.NewFlagSet("bufreplay", flag.ExitOnError)
	edges := fs.String("edges", "", "")
	limJ := fs.String("lim", "", "")
	rep := fs.Int("rep", 0, "")
	out := fs.String("out", "result.json", "")
	fs.Parse(args)
	var lim Lim
	vh.Must(json.Unmarshal([]byte(*limJ), &lim))
	g, err := vh.LoadEdges(*edges)
	vh.Must(err)
	res := vh.NewResult()
	var init BFull
	vh.Must(json.Unmarshal(g.Edges[0].From, &init))
	quota := map[string]int{}
	for i, e := range g.Edges {
		res.Evaluations++
		pathRaw, ok := g.Path(i)
		if !ok {
			res.Inconcl(fmt.Sprintf("edge %d: source not reachable in BFS tree", i))
			continue
		}
		var ops []BOp
		for _, r := range append(pathRaw, e.Act) {
			var op BOp
			vh.Must(json.Unmarshal(r, &op))
			ops = append(ops, op)
		}
		var from, to BFull
		vh.Must(json.Unmarshal(e.From, &from))
		vh.Must(json.Unmarshal(e.To, &to))
		got, p := runB(lim, init.Bufs, ops, *rep)
		res.Executed++
		countBuf(res, "edges", init.Bufs, ops)
		if p != nil {
			res.AddMismatch(vh.Mismatch{Kind: "panic", Case: init.Bufs, Path: ops[:len(ops)-1], Act: ops[len(ops)-1], Detail: fmt.Sprint(p)})
			continue
		}
		d := diffB(got, to.St)
		if d == "" {
			continue
		}
		// attribute the deviation to the first step after which the export differs: if the source
		// state already deviates, the tree edge into it reports (and names its own last step)
		if len(ops) > 1 {
			if src, p2 := runB(lim, init.Bufs, ops[:len(ops)-1], *rep); p2 == nil && diffB(src, from.St) != "" {
				res.Count("edges_downstream_of_a_reported_deviation", 1)
				continue
			}
		}
		// vh.Result lists at most 200 mismatches: keep a quota per (exposing step, differing
		// component) so that a frequent (possibly known) deviation cannot crowd out another one
		qk := ops[len(ops)-1].Op + "/" + strings.TrimRight(d, "0123456789")
		if quota[qk]++; quota[qk] > 12 {
			res.Count("edges_mismatch_beyond_class_quota", 1)
			continue
		}
		res.AddMismatch(vh.Mismatch{Kind: "state", Case: init.Bufs, Path: ops[:len(ops)-1], Act: ops[len(ops)-1], Want: to.St, Got: got, Detail: d})
		if i%499 == 0 {
			res.Sample(map[string]any{"bufs": init.Bufs, "ops": ops, "to": to.St})
		}
	}
	if len(res.Samples) == 0 && len(g.Edges) > 0 {
		e := g.Edges[len(g.Edges)/2]
		res.Sample(map[string]any{"edge": json.RawMessage(e.Act), "bufs": init.Bufs})
	}
	vh.Must(res.Write(*out))
}

// ---------------------------------------------------------------- random buffer programs

func bufRandom(args []string) {
	fs := flag.NewFlagSet("bufrandom", flag.ExitOnError)
	n := fs.Int("n", 100, "")
	out := fs.String("out", "buftrace.ndjson", "")
	resF := fs.String("res", "bufrandom.json", "")
	fs.Parse(args)
	r := rand.New(rand.NewSource(vh.Seed()*7919 + 4))
	tw, err := vh.NewTraceWriter(*out)
	vh.Must(err)
	res := vh.NewResult()
	for sc := 0; sc < *n; sc++ {
		lim := randLim(r)
		if r.Intn(2) == 0 { // half of the programs without any limit in the way
			lim = Lim{AC: -1, VL: -1, EC: -1, LC: -1, PE: -1, PL: -1}
		}
		rep := r.Intn(2)
		fresh := 0
		next := func() BTok {
			fresh++
			return BTok{K: fmt.Sprintf("ea%d", r.Intn(4)), I: fresh}
		}
		nb := 2 + r.Intn(3)
		ids := make([]string, nb)
		init := map[string]BBuf{}
		cur := map[string]int{} // current length per buffer
		for i := range ids {
			ids[i] = fmt.Sprintf("b%d", i+1)
			b := BBuf{C: []BTok{}, Spare: r.Intn(3) > 0}
			for j, k := 0, r.Intn(4); j < k; j++ {
				b.C = append(b.C, next())
			}
			init[ids[i]] = b
			cur[ids[i]] = len(b.C)
		}
		pick := func() string { return ids[r.Intn(nb)] }
		picks := func(max int) []string {
			o := []string{}
			for j, k := 0, r.Intn(max+1); j < k; j++ {
				o = append(o, pick())
			}
			return o
		}
		start := BOp{Op: "Start", AOpts: []string{}, Links: []BLinkOp{}}
		if r.Intn(2) == 0 {
			start.AOpts = picks(2)
			for j, k := 0, r.Intn(4); j < k; j++ {
				l := BLinkOp{Valid: r.Intn(3) > 0, TST: r.Intn(4) == 0}
				if r.Intn(4) > 0 {
					l.B = pick()
				}
				start.Links = append(start.Links, l)
			}
		}
		nops := 3 + r.Intn(10)
		ops := []BOp{}
		for i := 0; i < nops; i++ {
			var op BOp
			switch r.Intn(12) {
			case 0, 1:
				op = BOp{Op: "CW", B: pick()}
				if cur[op.B] == 0 {
					op = BOp{Op: "CA", B: op.B, Tok: next()}
					cur[op.B]++
				} else {
					op.P = 1 + r.Intn(cur[op.B])
					op.Tok = next()
				}
			case 2:
				op = BOp{Op: "CA", B: pick(), Tok: next()}
				if cur[op.B] >= 5 {
					op = BOp{Op: "CR", B: op.B, Toks: []BTok{}}
					cur[op.B] = 0
				} else {
					cur[op.B]++
				}
			case 3:
				op = BOp{Op: "CR", B: pick(), Toks: []BTok{}}
				for j, k := 0, r.Intn(3); j < k; j++ {
					op.Toks = append(op.Toks, next())
				}
				cur[op.B] = len(op.Toks)
			case 4, 5:
				op = BOp{Op: "SetAttributes", B: pick()}
			case 6, 7:
				op = BOp{Op: "AddEvent", Name: "e1", Opts: picks(3)}
			case 8, 9:
				op = BOp{Op: "RecordError", Err: 1 + r.Intn(2), Stack: r.Intn(4) == 0, Opts: picks(2)}
			case 10:
				op = BOp{Op: "AddLink", Valid: r.Intn(3) > 0, TST: r.Intn(4) == 0}
				if r.Intn(4) > 0 {
					op.B = pick()
				}
			case 11:
				if r.Intn(3) == 0 {
					op = BOp{Op: "End"}
				} else {
					op = BOp{Op: "AddEvent", Name: "e1", Opts: []string{pick()}}
				}
			}
			ops = append(ops, op)
		}
		all := append([]BOp{start}, ops...)
		countBuf(res, "random", init, all)
		tw.Emit(map[string]any{"ev": "New", "sc": sc, "lim": lim, "bufs": init, "start": start, "rep": rep})
		for i := -1; i < len(ops); i++ { // first observation: the span right after Start
			got, p := runB(lim, init, all[:i+2], rep)
			res.Executed++
			if p != nil {
				res.AddMismatch(vh.Mismatch{Kind: "panic", Case: init, Path: all[:i+2], Detail: fmt.Sprint(p)})
				break
			}
			sort.Slice(got.Attrs, func(a, b int) bool { return got.Attrs[a].K < got.Attrs[b].K })
			step := []BOp{}
			if i >= 0 {
				step = append(step, ops[i])
			}
			tw.Emit(map[string]any{"ev": "Ops", "sc": sc, "ops": step, "obs": got})
		}
		res.Evaluations++
		if sc < 1 {
			res.Sample(map[string]any{"lim": lim, "bufs": init, "start": start, "ops": ops})
		}
	}
	vh.Must(tw.Close())
	res.Count("trace_lines", tw.N)
	vh.Must(res.Write(*resF))
}
