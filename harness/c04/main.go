// c04: conformance harness for SpanState.tla / SpanModel.tla (property C04).
//
//	c04 replay -edges F -lim JSON -rep N -out R   replay every TLC edge on a real span
//	c04 random -n N -out TRACE -res R            random span programs -> ndjson trace for TLC
package main

import (
	"context"
	"encoding/json"
	"errors"
	"flag"
	"fmt"
	"math/rand"
	"os"
	"sort"

	"go.opentelemetry.io/otel/attribute"
	"go.opentelemetry.io/otel/codes"
	sdktrace "go.opentelemetry.io/otel/sdk/trace"
	"go.opentelemetry.io/otel/sdk/verifh/vh"
	"go.opentelemetry.io/otel/trace"
)

type Lim struct {
	AC int `json:"ac"`
	VL int `json:"vl"`
	EC int `json:"ec"`
	LC int `json:"lc"`
	PE int `json:"pe"`
	PL int `json:"pl"`
}

func (l Lim) raw() sdktrace.SpanLimits {
	return sdktrace.SpanLimits{
		AttributeValueLengthLimit: l.VL, AttributeCountLimit: l.AC, EventCountLimit: l.EC,
		LinkCountLimit: l.LC, AttributePerEventCountLimit: l.PE, AttributePerLinkCountLimit: l.PL,
	}
}

// abstract attribute as in SpanModel.tla
type AAttr struct {
	K string     `json:"k"`
	T string     `json:"t"`
	X [][]string `json:"x"`
	Y [][]string `json:"y,omitempty"`
}

type Op struct {
	Op    string  `json:"op"`
	Attrs []AAttr `json:"attrs,omitempty"`
	Name  string  `json:"name"`
	N     int     `json:"n"`
	Valid bool    `json:"valid"`
	Code  string  `json:"code"`
	Desc  string  `json:"desc"`
}

type AEvent struct {
	Name string `json:"name"`
	N    int    `json:"n"`
	D    int    `json:"d"`
}
type ALink struct {
	Valid bool `json:"valid"`
	N     int  `json:"n"`
	D     int  `json:"d"`
}
type State struct {
	Attrs     []AAttr  `json:"attrs"`
	Dropped   int      `json:"dropped"`
	Events    []AEvent `json:"events"`
	EvDropped int      `json:"evDropped"`
	Links     []ALink  `json:"links"`
	LkDropped int      `json:"lkDropped"`
	Code      string   `json:"code"`
	Desc      string   `json:"desc"`
	Name      string   `json:"name"`
	Ended     bool     `json:"ended"`
}

type capExporter struct{ spans []sdktrace.ReadOnlySpan }

func (e *capExporter) ExportSpans(_ context.Context, s []sdktrace.ReadOnlySpan) error {
	e.spans = append(e.spans, s...)
	return nil
}
func (e *capExporter) Shutdown(context.Context) error { return nil }

// concrete value for an abstract attribute
func concreteKV(a AAttr, rep int) attribute.KeyValue {
	k := attribute.Key(a.K)
	switch a.T {
	case "s":
		return k.String(vh.Concretize(vh.TruncReps, a.X[0], rep))
	case "ss":
		v := make([]string, len(a.X))
		for i := range a.X {
			v[i] = vh.Concretize(vh.TruncReps, a.X[i], rep)
		}
		return k.StringSlice(v)
	case "i":
		return k.Int64(int64(len(a.X[0][0])) + 40)
	case "b":
		return k.Bool(true)
	case "f":
		return k.Float64(2.5)
	case "is":
		return k.Int64Slice([]int64{1, 2, 3})
	}
	panic("unknown abstract type " + a.T)
}

// abstract an exported attribute back; for non-string types the payload is echoed only if the
// value is exactly what concreteKV produced (so an altered value shows up as a mismatch)
func abstractKV(kv attribute.KeyValue, want *AAttr) AAttr {
	a := AAttr{K: string(kv.Key)}
	switch kv.Value.Type() {
	case attribute.STRING:
		a.T = "s"
		a.X = [][]string{vh.AbstractTrunc(kv.Value.AsString())}
	case attribute.STRINGSLICE:
		a.T = "ss"
		a.X = [][]string{}
		for _, s := range kv.Value.AsStringSlice() {
			a.X = append(a.X, vh.AbstractTrunc(s))
		}
	default:
		switch kv.Value.Type() {
		case attribute.INT64:
			a.T = "i"
		case attribute.BOOL:
			a.T = "b"
		case attribute.FLOAT64:
			a.T = "f"
		case attribute.INT64SLICE:
			a.T = "is"
		default:
			a.T = "?"
		}
		a.X = [][]string{{"?"}}
		if want != nil && want.T == a.T {
			if kv.Value == concreteKV(*want, 0).Value || kv.Value.Emit() == concreteKV(*want, 0).Value.Emit() {
				a.X = want.X
			}
		}
	}
	return a
}

var errBoom = errors.New("boom")

func evAttrs(n int) []attribute.KeyValue {
	out := make([]attribute.KeyValue, n)
	for i := range out {
		out[i] = attribute.Int(fmt.Sprintf("ea%d", i), i)
	}
	return out
}

var validSC = trace.NewSpanContext(trace.SpanContextConfig{
	TraceID: trace.TraceID{1, 2, 3}, SpanID: trace.SpanID{4, 5, 6}, TraceFlags: trace.FlagsSampled,
})

// apply performs one abstract operation on the real span; concrete strings use representative rep.
func apply(span trace.Span, op Op, rep int) {
	switch op.Op {
	case "SetAttributes":
		kvs := make([]attribute.KeyValue, len(op.Attrs))
		for i, a := range op.Attrs {
			kvs[i] = concreteKV(a, rep)
		}
		span.SetAttributes(kvs...)
	case "AddEvent":
		span.AddEvent(op.Name, trace.WithAttributes(evAttrs(op.N)...))
	case "RecordError":
		span.RecordError(errBoom, trace.WithAttributes(evAttrs(op.N)...))
	case "AddLink":
		l := trace.Link{Attributes: evAttrs(op.N)}
		if op.Valid {
			l.SpanContext = validSC
		}
		span.AddLink(l)
	case "SetStatus":
		var c codes.Code
		switch op.Code {
		case "Unset":
			c = codes.Unset
		case "Error":
			c = codes.Error
		case "Ok":
			c = codes.Ok
		}
		span.SetStatus(c, op.Desc)
	case "SetName":
		span.SetName(op.Name)
	case "End":
		span.End()
	default:
		panic("unknown op " + op.Op)
	}
}

func prefixCount(attrs []attribute.KeyValue) int {
	// number of kept attributes if they are exactly the first n offered (ea0..), else -1;
	// RecordError appends exception.type / exception.message after the caller's attributes
	n := 0
	for i, kv := range attrs {
		if string(kv.Key) == fmt.Sprintf("ea%d", i) && kv.Value.AsInt64() == int64(i) {
			n++
			continue
		}
		rest := attrs[i:]
		for j, r := range rest {
			want := []string{"exception.type", "exception.message"}
			if j >= len(want) || string(r.Key) != want[j] {
				return -1
			}
			n++
		}
		break
	}
	return n
}

// project the exported span onto the model's state space. offered maps key -> last offered
// abstract attribute (only used to echo non-string payloads).
func project(ro sdktrace.ReadOnlySpan, ended bool, offered map[string]AAttr) State {
	st := State{Attrs: []AAttr{}, Events: []AEvent{}, Links: []ALink{}, Ended: ended}
	for _, kv := range ro.Attributes() {
		var w *AAttr
		if o, ok := offered[string(kv.Key)]; ok {
			w = &o
		}
		st.Attrs = append(st.Attrs, abstractKV(kv, w))
	}
	st.Dropped = ro.DroppedAttributes()
	for _, e := range ro.Events() {
		st.Events = append(st.Events, AEvent{Name: e.Name, N: prefixCount(e.Attributes), D: e.DroppedAttributeCount})
	}
	st.EvDropped = ro.DroppedEvents()
	for _, l := range ro.Links() {
		st.Links = append(st.Links, ALink{Valid: l.SpanContext.IsValid(), N: prefixCount(l.Attributes), D: l.DroppedAttributeCount})
	}
	st.LkDropped = ro.DroppedLinks()
	switch ro.Status().Code {
	case codes.Unset:
		st.Code = "Unset"
	case codes.Error:
		st.Code = "Error"
	case codes.Ok:
		st.Code = "Ok"
	}
	st.Desc = ro.Status().Description
	st.Name = ro.Name()
	return st
}

// run executes ops on a fresh span under lim and returns the projection of the exported span.
// Calls after End are part of ops; if ops contain no End the span is ended to obtain the export.
func run(lim Lim, ops []Op, rep int) (st State, panicked any) {
	defer func() {
		if r := recover(); r != nil {
			panicked = r
		}
	}()
	exp := &capExporter{}
	tp := sdktrace.NewTracerProvider(sdktrace.WithRawSpanLimits(lim.raw()), sdktrace.WithSyncer(exp),
		sdktrace.WithSampler(sdktrace.AlwaysSample()))
	_, span := tp.Tracer("c04").Start(context.Background(), "n0")
	ended := false
	offered := map[string]AAttr{}
	for _, op := range ops {
		if op.Op == "SetAttributes" && !ended {
			for _, a := range op.Attrs {
				offered[a.K] = a
			}
		}
		apply(span, op, rep)
		if op.Op == "End" {
			ended = true
		}
	}
	if !ended {
		span.End()
	}
	if len(exp.spans) != 1 {
		panic(fmt.Sprintf("exported %d spans, want 1", len(exp.spans)))
	}
	return project(exp.spans[0], ended, offered), nil
}

func seqEq(a, b [][]string) bool {
	if len(a) != len(b) {
		return false
	}
	for i := range a {
		if len(a[i]) != len(b[i]) {
			return false
		}
		for j := range a[i] {
			if a[i][j] != b[i][j] {
				return false
			}
		}
	}
	return true
}

// diff compares the real projection with the model state (attribute MAP, not order; either of
// the two admissible truncation results). Returns "" when they agree.
func diff(got, want State) string {
	if len(got.Attrs) != len(want.Attrs) {
		return fmt.Sprintf("attribute count %d != %d", len(got.Attrs), len(want.Attrs))
	}
	gm := map[string]AAttr{}
	for _, a := range got.Attrs {
		if _, dup := gm[a.K]; dup {
			return "duplicate key " + a.K
		}
		gm[a.K] = a
	}
	for _, w := range want.Attrs {
		g, ok := gm[w.K]
		if !ok {
			return "missing key " + w.K
		}
		if g.T != w.T {
			return "type of " + w.K
		}
		if !seqEq(g.X, w.X) && !seqEq(g.X, w.Y) {
			return "value of " + w.K
		}
	}
	if got.Dropped != want.Dropped {
		return fmt.Sprintf("droppedAttributes %d != %d", got.Dropped, want.Dropped)
	}
	if fmt.Sprint(got.Events) != fmt.Sprint(want.Events) {
		return "events"
	}
	if got.EvDropped != want.EvDropped {
		return fmt.Sprintf("droppedEvents %d != %d", got.EvDropped, want.EvDropped)
	}
	if fmt.Sprint(got.Links) != fmt.Sprint(want.Links) {
		return "links"
	}
	if got.LkDropped != want.LkDropped {
		return fmt.Sprintf("droppedLinks %d != %d", got.LkDropped, want.LkDropped)
	}
	if got.Code != want.Code || got.Desc != want.Desc {
		return "status"
	}
	if got.Name != want.Name {
		return "name"
	}
	return ""
}

// caseSig is the minimal description of a failing case for known-finding matching.
func caseSig(lim Lim, ops []Op, why string) map[string]any {
	syms := map[string]bool{}
	for _, op := range ops {
		for _, a := range op.Attrs {
			for _, x := range a.X {
				for _, s := range x {
					syms[s] = true
				}
			}
		}
	}
	ks := []string{}
	for s := range syms {
		if s == "fffd" || s == "bad" {
			ks = append(ks, s)
		}
	}
	sort.Strings(ks)
	return map[string]any{"why": why, "special_symbols": fmt.Sprint(ks), "lim": lim, "nops": len(ops)}
}

func replay(args []string) {
	fs := flag.NewFlagSet("replay", flag.ExitOnError)
	edges := fs.String("edges", "", "")
	limJ := fs.String("lim", "", "")
	rep := fs.Int("rep", 0, "")
	out := fs.String("out", "result.json", "")
	sample := fs.Int("sample", 0, "replay only every k-th edge offset by seed (0 = all)")
	fs.Parse(args)
	var lim Lim
	vh.Must(json.Unmarshal([]byte(*limJ), &lim))
	g, err := vh.LoadEdges(*edges)
	vh.Must(err)
	res := vh.NewResult()
	for i, e := range g.Edges {
		res.Evaluations++
		if *sample > 1 && (int64(i)+vh.Seed())%int64(*sample) != 0 {
			continue
		}
		pathRaw, ok := g.Path(i)
		if !ok {
			res.Inconcl(fmt.Sprintf("edge %d: source not reachable in BFS tree", i))
			continue
		}
		var ops []Op
		for _, r := range append(pathRaw, e.Act) {
			var op Op
			vh.Must(json.Unmarshal(r, &op))
			ops = append(ops, op)
		}
		var want State
		vh.Must(json.Unmarshal(e.To, &want))
		got, p := run(lim, ops, *rep)
		res.Executed++
		if p != nil {
			res.AddMismatch(vh.Mismatch{Kind: "panic", Case: caseSig(lim, ops, "panic"), Path: ops, Detail: fmt.Sprint(p)})
			continue
		}
		if d := diff(got, want); d != "" {
			res.AddMismatch(vh.Mismatch{Kind: "state", Case: caseSig(lim, ops, d), Path: ops[:len(ops)-1], Act: ops[len(ops)-1], Want: want, Got: got, Detail: d})
		}
		if want.Dropped > 0 {
			res.Count("edges_with_dropped_attrs", 1)
		}
		if want.EvDropped > 0 || want.LkDropped > 0 {
			res.Count("edges_with_evicted", 1)
		}
		if i%997 == 0 {
			res.Sample(map[string]any{"ops": ops, "to": want})
		}
	}
	vh.Must(res.Write(*out))
}

// ---------------------------------------------------------------- random programs (code -> spec)

func randSyms(r *rand.Rand, maxLen int) []string {
	classes := []string{"a1", "a1", "a1", "m2", "m3", "m4", "fffd", "bad"}
	n := r.Intn(maxLen + 1)
	out := make([]string, n)
	for i := range out {
		out[i] = classes[r.Intn(len(classes))]
	}
	return out
}

func randAttr(r *rand.Rand, nkeys, maxLen int) AAttr {
	a := AAttr{}
	if r.Intn(12) == 0 {
		a.K = ""
	} else {
		a.K = fmt.Sprintf("k%d", r.Intn(nkeys))
	}
	switch r.Intn(8) {
	case 0:
		a.T, a.X = "i", [][]string{{"1"}}
	case 1:
		a.T, a.X = "b", [][]string{{"1"}}
	case 2:
		a.T, a.X = "f", [][]string{{"1"}}
	case 3:
		a.T, a.X = "is", [][]string{{"1"}}
	case 4:
		a.T = "ss"
		n := r.Intn(3)
		a.X = make([][]string, n)
		for i := range a.X {
			a.X[i] = randSyms(r, maxLen)
		}
	default:
		a.T, a.X = "s", [][]string{randSyms(r, maxLen)}
	}
	return a
}

func randLim(r *rand.Rand) Lim {
	pick := func(max int) int {
		switch r.Intn(5) {
		case 0:
			return -1
		case 1:
			return 0
		}
		return 1 + r.Intn(max)
	}
	return Lim{AC: pick(8), VL: pick(6), EC: pick(4), LC: pick(4), PE: pick(3), PL: pick(3)}
}

func random(args []string) {
	fs := flag.NewFlagSet("random", flag.ExitOnError)
	n := fs.Int("n", 200, "")
	out := fs.String("out", "trace.ndjson", "")
	resF := fs.String("res", "result.json", "")
	fs.Parse(args)
	r := rand.New(rand.NewSource(vh.Seed()))
	tw, err := vh.NewTraceWriter(*out)
	vh.Must(err)
	res := vh.NewResult()
	names := []string{"n1", "n2", "e1", "e2"}
	codesL := []string{"Unset", "Error", "Ok"}
	for sc := 0; sc < *n; sc++ {
		lim := randLim(r)
		rep := r.Intn(12)
		nops := 3 + r.Intn(20)
		nkeys := 2 + r.Intn(11)
		var ops []Op
		for i := 0; i < nops; i++ {
			var op Op
			switch r.Intn(12) {
			case 0, 1, 2, 3, 4:
				op.Op = "SetAttributes"
				k := 1 + r.Intn(5)
				for j := 0; j < k; j++ {
					op.Attrs = append(op.Attrs, randAttr(r, nkeys, 8))
				}
			case 5, 6:
				op = Op{Op: "AddEvent", Name: names[2+r.Intn(2)], N: r.Intn(5)}
			case 7:
				op = Op{Op: "RecordError", N: r.Intn(3)}
			case 8:
				op = Op{Op: "AddLink", Valid: r.Intn(3) > 0, N: r.Intn(5)}
			case 9:
				op = Op{Op: "SetStatus", Code: codesL[r.Intn(3)], Desc: []string{"", "d1", "d2"}[r.Intn(3)]}
			case 10:
				op = Op{Op: "SetName", Name: names[r.Intn(2)]}
			case 11:
				if r.Intn(3) == 0 {
					op = Op{Op: "End"}
				} else {
					op = Op{Op: "SetName", Name: names[r.Intn(2)]}
				}
			}
			ops = append(ops, op)
		}
		// one observation per prefix: the exported span after ops[:i+1] (fresh span each time)
		tw.Emit(map[string]any{"ev": "New", "sc": sc, "lim": lim})
		step := 1
		if nops > 8 {
			step = 1 + r.Intn(3)
		}
		last := 0
		for i := 0; i < nops; i++ {
			if (i+1)%step != 0 && i != nops-1 {
				continue
			}
			got, p := run(lim, ops[:i+1], rep)
			res.Executed++
			if p != nil {
				res.AddMismatch(vh.Mismatch{Kind: "panic", Case: caseSig(lim, ops[:i+1], "panic"), Path: ops[:i+1], Detail: fmt.Sprint(p)})
				break
			}
			sort.Slice(got.Attrs, func(a, b int) bool { return got.Attrs[a].K < got.Attrs[b].K })
			tw.Emit(map[string]any{"ev": "Ops", "sc": sc, "ops": ops[last : i+1], "obs": got, "rep": rep})
			last = i + 1
		}
		res.Evaluations++
		if sc < 2 {
			res.Sample(map[string]any{"lim": lim, "ops": ops})
		}
	}
	vh.Must(tw.Close())
	res.Count("trace_lines", tw.N)
	vh.Must(res.Write(*resF))
}

func main() {
	if len(os.Args) < 2 {
		fmt.Println("usage: c04 replay|random ...")
		os.Exit(3)
	}
	switch os.Args[1] {
	case "replay":
		replay(os.Args[2:])
	case "random":
		random(os.Args[2:])
	default:
		os.Exit(3)
	}
}
