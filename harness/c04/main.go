// c04: conformance harness for SpanState.tla / SpanModel.tla (property C04).
//
//	c04 replay -edges F -lim JSON -rep N -out R   replay every TLC edge on a real span
//	c04 random -n N -out TRACE -res R            random span programs -> ndjson trace for TLC
package main

import (
	"context"
	"encoding/json"
	"errors"
	"flag"
	"fmt"
	"math/rand"
	"os"
	"sort"
	"time"

	"go.opentelemetry.io/otel/attribute"
	"go.opentelemetry.io/otel/codes"
	sdktrace "go.opentelemetry.io/otel/sdk/trace"
	"go.opentelemetry.io/otel/sdk/verifh/vh"
	"go.opentelemetry.io/otel/trace"
)

type Lim struct {
	AC int `json:"ac"`
	VL int `json:"vl"`
	EC int `json:"ec"`
	LC int `json:"lc"`
	PE int `json:"pe"`
	PL int `json:"pl"`
}

func (l Lim) raw() sdktrace.SpanLimits {
	return sdktrace.SpanLimits{
		AttributeValueLengthLimit: l.VL, AttributeCountLimit: l.AC, EventCountLimit: l.EC,
		LinkCountLimit: l.LC, AttributePerEventCountLimit: l.PE, AttributePerLinkCountLimit: l.PL,
	}
}

// abstract attribute as in SpanModel.tla
type AAttr struct {
	K string     `json:"k"`
	T string     `json:"t"`
	X [][]string `json:"x"`
	Y [][]string `json:"y,omitempty"`
}

// link class as in SpanModel.tla: valid span context?, non-empty trace state?, number of attributes
type LinkOp struct {
	Valid bool `json:"valid"`
	TST   bool `json:"tst"`
	N     int  `json:"n"`
}

type Op struct {
	Op     string   `json:"op"`
	Attrs  []AAttr  `json:"attrs"`
	Links  []LinkOp `json:"links"`
	Name   string   `json:"name"`
	Keys   []string `json:"keys"`
	TS     string   `json:"ts"`
	Stack  bool     `json:"stack"`
	NilErr bool     `json:"nilerr"`
	N      int      `json:"n"`
	Valid  bool     `json:"valid"`
	TST    bool     `json:"tst"`
	Code   string   `json:"code"`
	Desc   string   `json:"desc"`
}

// MarshalJSON emits exactly the fields the TLA+ operation record of that kind has (uniform
// shapes, never null).
func (o Op) MarshalJSON() ([]byte, error) {
	m := map[string]any{"op": o.Op}
	nn := func(a []AAttr) []AAttr {
		if a == nil {
			return []AAttr{}
		}
		return a
	}
	keys := o.Keys
	if keys == nil {
		keys = []string{}
	}
	switch o.Op {
	case "Start":
		m["attrs"] = nn(o.Attrs)
		if o.Links == nil {
			m["links"] = []LinkOp{}
		} else {
			m["links"] = o.Links
		}
	case "SetAttributes":
		m["attrs"] = nn(o.Attrs)
	case "AddEvent":
		m["name"], m["ts"], m["keys"] = o.Name, o.TS, keys
	case "RecordError":
		m["nilerr"], m["stack"], m["ts"], m["keys"] = o.NilErr, o.Stack, o.TS, keys
	case "AddLink":
		m["valid"], m["tst"], m["n"] = o.Valid, o.TST, o.N
	case "SetStatus":
		m["code"], m["desc"] = o.Code, o.Desc
	case "SetName":
		m["name"] = o.Name
	}
	return json.Marshal(m)
}

// one kept event attribute: key and position in the caller's list (1-based; 0 for the
// attributes RecordError generates, -1 if the value is not the one that was offered)
type AKey struct {
	K string `json:"k"`
	I int    `json:"i"`
}
type AEvent struct {
	Name string `json:"name"`
	TS   string `json:"ts"`
	Ks   []AKey `json:"ks"`
	Ks2  []AKey `json:"ks2,omitempty"`
	D    int    `json:"d"`
}
type ALink struct {
	Valid bool `json:"valid"`
	TST   bool `json:"tst"`
	N     int  `json:"n"`
	D     int  `json:"d"`
}
type State struct {
	Attrs     []AAttr  `json:"attrs"`
	Dropped   int      `json:"dropped"`
	Events    []AEvent `json:"events"`
	EvDropped int      `json:"evDropped"`
	Links     []ALink  `json:"links"`
	LkDropped int      `json:"lkDropped"`
	Code      string   `json:"code"`
	Desc      string   `json:"desc"`
	Name      string   `json:"name"`
	Ended     bool     `json:"ended"`
}

type capExporter struct{ spans []sdktrace.ReadOnlySpan }

func (e *capExporter) ExportSpans(_ context.Context, s []sdktrace.ReadOnlySpan) error {
	e.spans = append(e.spans, s...)
	return nil
}
func (e *capExporter) Shutdown(context.Context) error { return nil }

// concrete value for an abstract attribute
func concreteKV(a AAttr, rep int) attribute.KeyValue {
	k := attribute.Key(a.K)
	switch a.T {
	case "s":
		return k.String(vh.Concretize(vh.TruncReps, a.X[0], rep))
	case "ss":
		v := make([]string, len(a.X))
		for i := range a.X {
			v[i] = vh.Concretize(vh.TruncReps, a.X[i], rep)
		}
		return k.StringSlice(v)
	case "i":
		return k.Int64(int64(len(a.X[0][0])) + 40)
	case "b":
		return k.Bool(true)
	case "f":
		return k.Float64(2.5)
	case "is":
		return k.Int64Slice([]int64{1, 2, 3})
	}
	panic("unknown abstract type " + a.T)
}

// abstract an exported attribute back; for non-string types the payload is echoed only if the
// value is exactly what concreteKV produced (so an altered value shows up as a mismatch)
func abstractKV(kv attribute.KeyValue, want *AAttr) AAttr {
	a := AAttr{K: string(kv.Key)}
	switch kv.Value.Type() {
	case attribute.STRING:
		a.T = "s"
		a.X = [][]string{vh.AbstractTrunc(kv.Value.AsString())}
	case attribute.STRINGSLICE:
		a.T = "ss"
		a.X = [][]string{}
		for _, s := range kv.Value.AsStringSlice() {
			a.X = append(a.X, vh.AbstractTrunc(s))
		}
	default:
		switch kv.Value.Type() {
		case attribute.INT64:
			a.T = "i"
		case attribute.BOOL:
			a.T = "b"
		case attribute.FLOAT64:
			a.T = "f"
		case attribute.INT64SLICE:
			a.T = "is"
		default:
			a.T = "?"
		}
		a.X = [][]string{{"?"}}
		if want != nil && want.T == a.T {
			if kv.Value == concreteKV(*want, 0).Value || kv.Value.Emit() == concreteKV(*want, 0).Value.Emit() {
				a.X = want.X
			}
		}
	}
	return a
}

var errBoom = errors.New("boom")

type myErr struct{}

func (myErr) Error() string { return "custom failure" }

// the error RecordError is called with and the exception.type / exception.message it must yield
func errFor(rep int) (error, string, string) {
	if rep%2 == 1 {
		return myErr{}, "main.myErr", "custom failure"
	}
	return errBoom, "*errors.errorString", "boom"
}

func evAttrs(n int) []attribute.KeyValue {
	out := make([]attribute.KeyValue, n)
	for i := range out {
		out[i] = attribute.Int(fmt.Sprintf("ea%d", i), i)
	}
	return out
}

var validSC = trace.NewSpanContext(trace.SpanContextConfig{
	TraceID: trace.TraceID{1, 2, 3}, SpanID: trace.SpanID{4, 5, 6}, TraceFlags: trace.FlagsSampled,
})

var someTS = func() trace.TraceState {
	ts, err := trace.ParseTraceState("vendor=v1")
	vh.Must(err)
	return ts
}()

var evTimes = map[string]time.Time{"t1": time.Unix(1000, 0), "t2": time.Unix(2000, 5)}

func concreteLink(l LinkOp) trace.Link {
	cfg := trace.SpanContextConfig{}
	if l.Valid {
		cfg = trace.SpanContextConfig{TraceID: trace.TraceID{1, 2, 3}, SpanID: trace.SpanID{4, 5, 6}, TraceFlags: trace.FlagsSampled}
	}
	if l.TST {
		cfg.TraceState = someTS
	}
	out := trace.Link{SpanContext: trace.NewSpanContext(cfg)}
	if l.N > 0 || l.Valid { // an ignorable link is the zero Link (nil attributes)
		out.Attributes = evAttrs(l.N)
	}
	return out
}

// eventOpts concretizes the options of AddEvent / RecordError: attribute j of the caller's list
// is Int(key, j) (1-based position); rep decides how the list is split over WithAttributes
// options (documented: successive options extend) and where the other options stand.
func eventOpts(op Op, rep int) []trace.EventOption {
	kvs := make([]attribute.KeyValue, len(op.Keys))
	for i, k := range op.Keys {
		kvs[i] = attribute.Int(k, i+1)
	}
	var opts []trace.EventOption
	var tail []trace.EventOption
	put := func(o trace.EventOption, front bool) {
		if front {
			opts = append(opts, o)
		} else {
			tail = append(tail, o)
		}
	}
	if t, ok := evTimes[op.TS]; ok {
		put(trace.WithTimestamp(t), rep%2 == 0)
	}
	if op.Stack {
		put(trace.WithStackTrace(true), rep%4 < 2)
	} else if rep%5 == 3 {
		put(trace.WithStackTrace(false), true)
	}
	switch rep % 3 {
	case 0:
		if len(kvs) > 0 || rep%2 == 0 {
			opts = append(opts, trace.WithAttributes(kvs...))
		}
	case 1:
		for _, kv := range kvs {
			opts = append(opts, trace.WithAttributes(kv))
		}
	case 2:
		h := len(kvs) / 2
		opts = append(opts, trace.WithAttributes(kvs[:h]...), trace.WithAttributes(kvs[h:]...))
	}
	return append(opts, tail...)
}

// startOpts concretizes Start(attrs, links) as SpanStartOptions (split over several options by rep).
func startOpts(op Op, rep int) []trace.SpanStartOption {
	kvs := make([]attribute.KeyValue, len(op.Attrs))
	for i, a := range op.Attrs {
		kvs[i] = concreteKV(a, rep)
	}
	lks := make([]trace.Link, len(op.Links))
	for i, l := range op.Links {
		lks[i] = concreteLink(l)
	}
	var opts []trace.SpanStartOption
	switch rep % 3 {
	case 0:
		if len(kvs) > 0 {
			opts = append(opts, trace.WithAttributes(kvs...))
		}
		if len(lks) > 0 {
			opts = append(opts, trace.WithLinks(lks...))
		}
	case 1:
		for _, l := range lks {
			opts = append(opts, trace.WithLinks(l))
		}
		for _, kv := range kvs {
			opts = append(opts, trace.WithAttributes(kv))
		}
	case 2:
		h, g := len(kvs)/2, len(lks)/2
		opts = append(opts, trace.WithAttributes(kvs[:h]...), trace.WithLinks(lks[:g]...),
			trace.WithSpanKind(trace.SpanKindServer), trace.WithLinks(lks[g:]...), trace.WithAttributes(kvs[h:]...))
	}
	return opts
}

// apply performs one abstract operation on the real span; concrete strings use representative rep.
func apply(span trace.Span, op Op, rep int) {
	switch op.Op {
	case "SetAttributes":
		kvs := make([]attribute.KeyValue, len(op.Attrs))
		for i, a := range op.Attrs {
			kvs[i] = concreteKV(a, rep)
		}
		span.SetAttributes(kvs...)
	case "AddEvent":
		span.AddEvent(op.Name, eventOpts(op, rep)...)
	case "RecordError":
		if op.NilErr {
			span.RecordError(nil, eventOpts(op, rep)...)
			return
		}
		e, _, _ := errFor(rep)
		span.RecordError(e, eventOpts(op, rep)...)
	case "AddLink":
		span.AddLink(concreteLink(LinkOp{Valid: op.Valid, TST: op.TST, N: op.N}))
	case "SetStatus":
		var c codes.Code
		switch op.Code {
		case "Unset":
			c = codes.Unset
		case "Error":
			c = codes.Error
		case "Ok":
			c = codes.Ok
		}
		span.SetStatus(c, op.Desc)
	case "SetName":
		span.SetName(op.Name)
	case "End":
		span.End()
	case "Peek":
		// read the live span through every ReadOnlySpan accessor (Attributes() de-duplicates in
		// place): observation must not change what is exported
		if ro, ok := span.(sdktrace.ReadOnlySpan); ok {
			_, _, _ = ro.Attributes(), ro.Events(), ro.Links()
			_, _, _ = ro.DroppedAttributes(), ro.DroppedEvents(), ro.DroppedLinks()
			_, _, _ = ro.Status(), ro.Name(), ro.EndTime()
		}
	case "Start":
		// a second Start on an existing span does not exist in the API: no-op (as in the model)
	default:
		panic("unknown op " + op.Op)
	}
}

// number of kept link attributes if they are exactly the first n offered (ea0..), else -1
func prefixCount(attrs []attribute.KeyValue) int {
	for i, kv := range attrs {
		if string(kv.Key) != fmt.Sprintf("ea%d", i) || kv.Value.Type() != attribute.INT64 || kv.Value.AsInt64() != int64(i) {
			return -1
		}
	}
	return len(attrs)
}

// kept event attributes as (key, position): the position is the value the harness gave the
// attribute; generated exception.* attributes have position 0 when their value is right (the
// stack trace is environment specific: any non-empty string), -1 otherwise.
func eventKeys(attrs []attribute.KeyValue, rep int) []AKey {
	out := []AKey{}
	_, wantType, wantMsg := errFor(rep)
	for _, kv := range attrs {
		k := AKey{K: string(kv.Key), I: -1}
		switch k.K {
		case "exception.type":
			if kv.Value.Type() == attribute.STRING && kv.Value.AsString() == wantType {
				k.I = 0
			}
		case "exception.message":
			if kv.Value.Type() == attribute.STRING && kv.Value.AsString() == wantMsg {
				k.I = 0
			}
		case "exception.stacktrace":
			if kv.Value.Type() == attribute.STRING && len(kv.Value.AsString()) > 0 {
				k.I = 0
			}
		default:
			if kv.Value.Type() == attribute.INT64 && kv.Value.AsInt64() > 0 {
				k.I = int(kv.Value.AsInt64())
			}
		}
		out = append(out, k)
	}
	return out
}

// project the exported span onto the model's state space. offered maps key -> last offered
// abstract attribute (only used to echo non-string payloads).
func project(ro sdktrace.ReadOnlySpan, ended bool, offered map[string]AAttr, rep int) State {
	st := State{Attrs: []AAttr{}, Events: []AEvent{}, Links: []ALink{}, Ended: ended}
	for _, kv := range ro.Attributes() {
		var w *AAttr
		if o, ok := offered[string(kv.Key)]; ok {
			w = &o
		}
		st.Attrs = append(st.Attrs, abstractKV(kv, w))
	}
	st.Dropped = ro.DroppedAttributes()
	for _, e := range ro.Events() {
		ts := ""
		for name, t := range evTimes {
			if e.Time.Equal(t) {
				ts = name
			}
		}
		if e.Time.IsZero() {
			ts = "zero"
		}
		st.Events = append(st.Events, AEvent{Name: e.Name, TS: ts, Ks: eventKeys(e.Attributes, rep), D: e.DroppedAttributeCount})
	}
	st.EvDropped = ro.DroppedEvents()
	for _, l := range ro.Links() {
		st.Links = append(st.Links, ALink{Valid: l.SpanContext.IsValid(), TST: l.SpanContext.TraceState().Len() > 0, N: prefixCount(l.Attributes), D: l.DroppedAttributeCount})
	}
	st.LkDropped = ro.DroppedLinks()
	switch ro.Status().Code {
	case codes.Unset:
		st.Code = "Unset"
	case codes.Error:
		st.Code = "Error"
	case codes.Ok:
		st.Code = "Ok"
	}
	st.Desc = ro.Status().Description
	st.Name = ro.Name()
	return st
}

// run executes ops on a fresh span under lim and returns the projection of the exported span.
// A leading Start operation carries the options the span is created with. Calls after End are
// part of ops; if ops contain no End the span is ended to obtain the export.
func run(lim Lim, ops []Op, rep int) (st State, panicked any) { return runP(lim, ops, rep, false) }

// runP: with peek the live span is read through every accessor after Start and after every call
// (reading is a no-op of the model, so the harness may do it anywhere).
func runP(lim Lim, ops []Op, rep int, peek bool) (st State, panicked any) {
	defer func() {
		if r := recover(); r != nil {
			panicked = r
		}
	}()
	exp := &capExporter{}
	tp := sdktrace.NewTracerProvider(sdktrace.WithRawSpanLimits(lim.raw()), sdktrace.WithSyncer(exp),
		sdktrace.WithSampler(sdktrace.AlwaysSample()))
	offered := map[string]AAttr{}
	var sopts []trace.SpanStartOption
	if len(ops) > 0 && ops[0].Op == "Start" {
		sopts = startOpts(ops[0], rep)
		for _, a := range ops[0].Attrs {
			offered[a.K] = a
		}
		ops = ops[1:]
	}
	_, span := tp.Tracer("c04").Start(context.Background(), "n0", sopts...)
	ended := false
	if peek {
		apply(span, Op{Op: "Peek"}, rep)
	}
	for _, op := range ops {
		if op.Op == "SetAttributes" && !ended {
			for _, a := range op.Attrs {
				offered[a.K] = a
			}
		}
		apply(span, op, rep)
		if peek {
			apply(span, Op{Op: "Peek"}, rep)
		}
		if op.Op == "End" {
			ended = true
		}
	}
	if !ended {
		span.End()
	}
	if len(exp.spans) != 1 {
		panic(fmt.Sprintf("exported %d spans, want 1", len(exp.spans)))
	}
	return project(exp.spans[0], ended, offered, rep), nil
}

func seqEq(a, b [][]string) bool {
	if len(a) != len(b) {
		return false
	}
	for i := range a {
		if len(a[i]) != len(b[i]) {
			return false
		}
		for j := range a[i] {
			if a[i][j] != b[i][j] {
				return false
			}
		}
	}
	return true
}

// diff compares the real projection with the model state (attribute MAP, not order; either of
// the two admissible truncation results). Returns "" when they agree.
func diff(got, want State) string {
	if len(got.Attrs) != len(want.Attrs) {
		return fmt.Sprintf("attribute count %d != %d", len(got.Attrs), len(want.Attrs))
	}
	gm := map[string]AAttr{}
	for _, a := range got.Attrs {
		if _, dup := gm[a.K]; dup {
			return "duplicate key " + a.K
		}
		gm[a.K] = a
	}
	for _, w := range want.Attrs {
		g, ok := gm[w.K]
		if !ok {
			return "missing key " + w.K
		}
		if g.T != w.T {
			return "type of " + w.K
		}
		if !seqEq(g.X, w.X) && !seqEq(g.X, w.Y) {
			return "value of " + w.K
		}
	}
	if got.Dropped != want.Dropped {
		return fmt.Sprintf("droppedAttributes %d != %d", got.Dropped, want.Dropped)
	}
	if len(got.Events) != len(want.Events) {
		return "events"
	}
	for i, w := range want.Events {
		g := got.Events[i]
		if g.Name != w.Name || g.TS != w.TS || g.D != w.D {
			return "events"
		}
		// either admissible order of the same attribute list (SpanModel: ks / ks2)
		if fmt.Sprint(g.Ks) != fmt.Sprint(w.Ks) && fmt.Sprint(g.Ks) != fmt.Sprint(w.Ks2) {
			return "events"
		}
	}
	if got.EvDropped != want.EvDropped {
		return fmt.Sprintf("droppedEvents %d != %d", got.EvDropped, want.EvDropped)
	}
	if fmt.Sprint(got.Links) != fmt.Sprint(want.Links) {
		return "links"
	}
	if got.LkDropped != want.LkDropped {
		return fmt.Sprintf("droppedLinks %d != %d", got.LkDropped, want.LkDropped)
	}
	if got.Code != want.Code || got.Desc != want.Desc {
		return "status"
	}
	if got.Name != want.Name {
		return "name"
	}
	return ""
}

// caseSig is the minimal description of a failing case for known-finding matching.
func caseSig(lim Lim, ops []Op, why string) map[string]any {
	syms := map[string]bool{}
	for _, op := range ops {
		for _, a := range op.Attrs {
			for _, x := range a.X {
				for _, s := range x {
					syms[s] = true
				}
			}
		}
	}
	ks := []string{}
	for s := range syms {
		if s == "fffd" || s == "bad" {
			ks = append(ks, s)
		}
	}
	sort.Strings(ks)
	return map[string]any{"why": why, "special_symbols": fmt.Sprint(ks), "lim": lim, "nops": len(ops)}
}

func replay(args []string) {
	fs := flag.NewFlagSet("replay", flag.ExitOnError)
	edges := fs.String("edges", "", "")
	limJ := fs.String("lim", "", "")
	rep := fs.Int("rep", 0, "")
	out := fs.String("out", "result.json", "")
	sample := fs.Int("sample", 0, "replay only every k-th edge offset by seed (0 = all)")
	peekEvery := fs.Int("peek", 3, "replay every k-th edge (offset by seed) a second time with accessor reads after every call (0 = never)")
	fs.Parse(args)
	var lim Lim
	vh.Must(json.Unmarshal([]byte(*limJ), &lim))
	g, err := vh.LoadEdges(*edges)
	vh.Must(err)
	res := vh.NewResult()
	for i, e := range g.Edges {
		res.Evaluations++
		if *sample > 1 && (int64(i)+vh.Seed())%int64(*sample) != 0 {
			continue
		}
		pathRaw, ok := g.Path(i)
		if !ok {
			res.Inconcl(fmt.Sprintf("edge %d: source not reachable in BFS tree", i))
			continue
		}
		var ops []Op
		for _, r := range append(pathRaw, e.Act) {
			var op Op
			vh.Must(json.Unmarshal(r, &op))
			ops = append(ops, op)
		}
		var want State
		vh.Must(json.Unmarshal(e.To, &want))
		got, p := run(lim, ops, *rep)
		res.Executed++
		if p != nil {
			res.AddMismatch(vh.Mismatch{Kind: "panic", Case: caseSig(lim, ops, "panic"), Path: ops, Detail: fmt.Sprint(p)})
			continue
		}
		if d := diff(got, want); d != "" {
			res.AddMismatch(vh.Mismatch{Kind: "state", Case: caseSig(lim, ops, d), Path: ops[:len(ops)-1], Act: ops[len(ops)-1], Want: want, Got: got, Detail: d})
		} else if *peekEvery > 0 && (int64(i)+vh.Seed())%int64(*peekEvery) == 0 {
			// every k-th edge a second time with the live span read after every call
			got, p = runP(lim, ops, *rep, true)
			res.Executed++
			res.Count("edges_replayed_with_peeks", 1)
			if p != nil {
				res.AddMismatch(vh.Mismatch{Kind: "panic", Case: caseSig(lim, ops, "panic"), Path: ops, Detail: "with peeks: " + fmt.Sprint(p)})
			} else if d := diff(got, want); d != "" {
				res.AddMismatch(vh.Mismatch{Kind: "state", Case: caseSig(lim, ops, d), Path: ops[:len(ops)-1], Act: ops[len(ops)-1], Want: want, Got: got, Detail: "with peeks after every call: " + d})
			}
		}
		if want.Dropped > 0 {
			res.Count("edges_with_dropped_attrs", 1)
		}
		if want.EvDropped > 0 || want.LkDropped > 0 {
			res.Count("edges_with_evicted", 1)
		}
		countRegimes(res, "edges", lim, ops)
		if i%997 == 0 {
			res.Sample(map[string]any{"ops": ops, "to": want})
		}
	}
	vh.Must(res.Write(*out))
}

// ---------------------------------------------------------------- random programs (code -> spec)

func randSyms(r *rand.Rand, maxLen int) []string {
	classes := []string{"a1", "a1", "a1", "m2", "m3", "m4", "fffd", "bad"}
	n := r.Intn(maxLen + 1)
	out := make([]string, n)
	for i := range out {
		out[i] = classes[r.Intn(len(classes))]
	}
	return out
}

func randAttr(r *rand.Rand, nkeys, maxLen int) AAttr {
	a := AAttr{}
	if r.Intn(12) == 0 {
		a.K = ""
	} else {
		a.K = fmt.Sprintf("k%d", r.Intn(nkeys))
	}
	switch r.Intn(8) {
	case 0:
		a.T, a.X = "i", [][]string{{"1"}}
	case 1:
		a.T, a.X = "b", [][]string{{"1"}}
	case 2:
		a.T, a.X = "f", [][]string{{"1"}}
	case 3:
		a.T, a.X = "is", [][]string{{"1"}}
	case 4:
		a.T = "ss"
		n := r.Intn(3)
		a.X = make([][]string, n)
		for i := range a.X {
			a.X[i] = randSyms(r, maxLen)
		}
	default:
		a.T, a.X = "s", [][]string{randSyms(r, maxLen)}
	}
	return a
}

func randLim(r *rand.Rand) Lim {
	pick := func(max int) int {
		switch r.Intn(5) {
		case 0:
			return -1 - r.Intn(3)*r.Intn(2) // any negative value means unlimited
		case 1:
			return 0
		}
		return 1 + r.Intn(max)
	}
	return Lim{AC: pick(8), VL: pick(6), EC: pick(4), LC: pick(4), PE: pick(3), PL: pick(3)}
}

// countRegimes counts the interesting input regimes a case reaches (vacuity guard).
func countRegimes(res *vh.Result, pfx string, lim Lim, ops []Op) {
	for i, op := range ops {
		switch op.Op {
		case "Start":
			if i != 0 {
				continue
			}
			if len(op.Attrs) > 0 {
				res.Count(pfx+"_start_attrs", 1)
			}
			ign, kept := 0, 0
			for _, l := range op.Links {
				if !l.Valid && !l.TST && l.N == 0 {
					ign++
				} else {
					kept++
				}
			}
			if len(op.Links) > 0 {
				res.Count(pfx+"_start_links", 1)
			}
			if ign > 0 && lim.LC > 0 && len(op.Links) > lim.LC {
				res.Count(pfx+"_start_links_overlimit_with_ignorable", 1)
			}
			if lim.LC >= 0 && kept > lim.LC {
				res.Count(pfx+"_start_links_evicting", 1)
			}
		case "RecordError":
			if op.NilErr {
				res.Count(pfx+"_recorderror_nil", 1)
				continue
			}
			if op.Stack {
				res.Count(pfx+"_recorderror_stack", 1)
				if lim.PE >= 0 && len(op.Keys)+3 > lim.PE {
					res.Count(pfx+"_recorderror_stack_cut_by_cap", 1)
				}
			}
		case "AddEvent":
			seen := map[string]bool{}
			for _, k := range op.Keys {
				if seen[k] {
					res.Count(pfx+"_event_duplicate_keys", 1)
					break
				}
				seen[k] = true
			}
			if op.TS != "" {
				res.Count(pfx+"_event_timestamp", 1)
			}
		case "Peek":
			res.Count(pfx+"_peek", 1)
		case "AddLink":
			if !op.Valid && (op.TST || op.N > 0) {
				res.Count(pfx+"_link_invalid_ctx_kept", 1)
			}
			if !op.Valid && !op.TST && op.N == 0 {
				res.Count(pfx+"_link_ignorable", 1)
			}
		}
	}
}

func randLink(r *rand.Rand) LinkOp {
	switch r.Intn(6) {
	case 0, 1:
		return LinkOp{} // ignorable
	case 2:
		return LinkOp{TST: true, N: r.Intn(2)}
	case 3:
		return LinkOp{N: 1 + r.Intn(4)}
	}
	return LinkOp{Valid: true, TST: r.Intn(4) == 0, N: r.Intn(5)}
}

func randKeys(r *rand.Rand, max int) []string {
	n := r.Intn(max + 1)
	out := make([]string, n)
	for i := range out {
		out[i] = fmt.Sprintf("ea%d", r.Intn(4))
	}
	return out
}

func random(args []string) {
	fs := flag.NewFlagSet("random", flag.ExitOnError)
	n := fs.Int("n", 200, "")
	out := fs.String("out", "trace.ndjson", "")
	resF := fs.String("res", "result.json", "")
	fs.Parse(args)
	r := rand.New(rand.NewSource(vh.Seed()))
	tw, err := vh.NewTraceWriter(*out)
	vh.Must(err)
	res := vh.NewResult()
	names := []string{"n1", "n2", "e1", "e2"}
	codesL := []string{"Unset", "Error", "Ok"}
	tss := []string{"", "", "t1", "t2"}
	for sc := 0; sc < *n; sc++ {
		lim := randLim(r)
		rep := r.Intn(12)
		nops := 3 + r.Intn(20)
		nkeys := 2 + r.Intn(11)
		start := Op{Op: "Start", Attrs: []AAttr{}, Links: []LinkOp{}}
		if r.Intn(3) > 0 {
			for j, k := 0, r.Intn(7); j < k; j++ {
				start.Attrs = append(start.Attrs, randAttr(r, nkeys, 8))
			}
			for j, k := 0, r.Intn(7); j < k; j++ {
				start.Links = append(start.Links, randLink(r))
			}
			nops = r.Intn(12)
		}
		var ops []Op
		for i := 0; i < nops; i++ {
			var op Op
			switch r.Intn(12) {
			case 0, 1, 2, 3, 4:
				op.Op = "SetAttributes"
				k := 1 + r.Intn(5)
				for j := 0; j < k; j++ {
					op.Attrs = append(op.Attrs, randAttr(r, nkeys, 8))
				}
			case 5, 6:
				op = Op{Op: "AddEvent", Name: names[2+r.Intn(2)], Keys: randKeys(r, 5), TS: tss[r.Intn(4)]}
			case 7:
				op = Op{Op: "RecordError", Keys: randKeys(r, 3), TS: tss[r.Intn(4)], Stack: r.Intn(2) == 0, NilErr: r.Intn(10) == 0}
				if op.NilErr {
					op = Op{Op: "RecordError", NilErr: true}
				}
			case 8:
				l := randLink(r)
				op = Op{Op: "AddLink", Valid: l.Valid, TST: l.TST, N: l.N}
			case 9:
				op = Op{Op: "SetStatus", Code: codesL[r.Intn(3)], Desc: []string{"", "d1", "d2"}[r.Intn(3)]}
			case 10:
				op = Op{Op: "SetName", Name: names[r.Intn(2)]}
			case 11:
				if r.Intn(3) == 0 {
					op = Op{Op: "End"}
				} else {
					op = Op{Op: "Peek"}
				}
			}
			ops = append(ops, op)
		}
		all := append([]Op{start}, ops...)
		countRegimes(res, "random", lim, all)
		// one observation per prefix: the exported span after Start + ops[:i+1] (fresh span each
		// time); the first observation is the span right after Start
		tw.Emit(map[string]any{"ev": "New", "sc": sc, "lim": lim, "start": start})
		step := 1
		if nops > 8 {
			step = 1 + r.Intn(3)
		}
		last := 0
		for i := -1; i < nops; i++ {
			if i >= 0 && (i+1)%step != 0 && i != nops-1 {
				continue
			}
			got, p := run(lim, all[:i+2], rep)
			res.Executed++
			if p != nil {
				res.AddMismatch(vh.Mismatch{Kind: "panic", Case: caseSig(lim, all[:i+2], "panic"), Path: all[:i+2], Detail: fmt.Sprint(p)})
				break
			}
			sort.Slice(got.Attrs, func(a, b int) bool { return got.Attrs[a].K < got.Attrs[b].K })
			obsOps := ops[last : i+1]
			if obsOps == nil {
				obsOps = []Op{}
			}
			tw.Emit(map[string]any{"ev": "Ops", "sc": sc, "ops": obsOps, "obs": got, "rep": rep})
			last = i + 1
		}
		res.Evaluations++
		if sc < 2 {
			res.Sample(map[string]any{"lim": lim, "start": start, "ops": ops})
		}
	}
	vh.Must(tw.Close())
	res.Count("trace_lines", tw.N)
	vh.Must(res.Write(*resF))
}

func main() {
	if len(os.Args) < 2 {
		fmt.Println("usage: c04 replay|random ...")
		os.Exit(3)
	}
	switch os.Args[1] {
	case "replay":
		replay(os.Args[2:])
	case "random":
		random(os.Args[2:])
	case "bufreplay": // buf.go: caller-owned buffers (SpanBuf.tla)
		bufReplay(os.Args[2:])
	case "bufrandom":
		bufRandom(os.Args[2:])
	default:
		os.Exit(3)
	}
}
