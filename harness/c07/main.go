// c07: conformance harness for specs/Histogram (property C07).
//
//	c07 probe                                               which named deviations does this tree have
//	c07 replay -kind expo|expl -edges F -cfg JSON -vals JSON -rep N -trace T -out R
//	        replay every TLC edge through the public metric API, compare the collected data
//	        point with the specification's successor; differing cases are written as a trace
//	        (New/Rec/Col lines) for TLC to judge against the contract
//	c07 random -n N -trace T -res R                         seeded random scenarios -> trace for TLC
//	c07 worlds -n N -trace T -res R -worlds W               seeded collection histories with re-used
//	        destinations (several readers / instruments / meters / attribute sets, see world.go)
//
// Every collection writes into a destination whose previous content is part of the scenario
// (specs/Histogram/HistOutput.tla: the reported point must not depend on it): fresh, the
// runner's own previous output, or the output of a donor provider (same aggregation kind with
// more / fewer / other-sign / emptied buckets, another kind, the other number type).
//
// Go only executes and projects: concrete float64/int64 measurements are abstracted to
// (sign, exact scale-20 bucket index, alternative index near an irrational boundary, rank,
// quantum multiple) with exact arithmetic (math/big); the expected result lives in TLA+.
package main

import (
	"context"
	"encoding/json"
	"flag"
	"fmt"
	"hash/fnv"
	"math"
	"math/big"
	"math/rand"
	"os"
	"runtime"
	"sort"

	"go.opentelemetry.io/otel"
	"go.opentelemetry.io/otel/attribute"
	"go.opentelemetry.io/otel/metric"
	sdkmetric "go.opentelemetry.io/otel/sdk/metric"
	"go.opentelemetry.io/otel/sdk/metric/metricdata"
	"go.opentelemetry.io/otel/sdk/verifh/vh"
)

// ---------------------------------------------------------------- exact arithmetic

const (
	bigPrec   = 512
	extraBits = 40
	nearBits  = 28 // |log2(v)*2^20 - boundary| < 2^-28  => float rounding may decide either way
	sumNone   = -(1 << 30)
)

var (
	bigOne = big.NewFloat(1)
	bigTwo = big.NewFloat(2)
)

// exactB20 returns, for a finite x > 0, the exact index b with 2^(b/2^20) < x <= 2^((b+1)/2^20),
// and alt: the neighbouring index if x is within 2^-nearBits (in index units) of an irrational
// boundary, else b. Exact powers of two lie ON a boundary and are decided exactly (alt = b).
// log2 is obtained digit by digit by repeated squaring of the mantissa (no library logarithm).
func exactB20(x *big.Float) (b, alt int64, pow2 bool) {
	mant := new(big.Float)
	exp := x.MantExp(mant) // x = mant * 2^exp, 0.5 <= mant < 1
	e := int64(exp - 1)
	m := new(big.Float).SetPrec(bigPrec)
	m.SetMantExp(mant, 1) // [1,2)
	if m.Cmp(bigOne) == 0 {
		return e*(1<<20) - 1, e*(1<<20) - 1, true
	}
	var f uint64
	for i := 0; i < 20+extraBits; i++ {
		m.Mul(m, m)
		f <<= 1
		if m.Cmp(bigTwo) >= 0 {
			f |= 1
			m.SetMantExp(m, -1)
		}
	}
	b = e*(1<<20) + int64(f>>extraBits)
	alt = b
	rem := f & (1<<extraBits - 1)
	win := uint64(1) << (extraBits - nearBits)
	if rem < win {
		alt = b - 1
	} else if rem >= 1<<extraBits-win {
		alt = b + 1
	}
	return b, alt, false
}

// Meas is one concrete measurement.
type Meas struct {
	F float64
	I int64
}

func (m Meas) exact(isInt bool) *big.Float {
	if isInt {
		return new(big.Float).SetPrec(64).SetInt64(m.I)
	}
	return new(big.Float).SetPrec(53).SetFloat64(m.F)
}

// asFloat is the float64 the SDK derives bucket placement from.
func (m Meas) asFloat(isInt bool) float64 {
	if isInt {
		return float64(m.I)
	}
	return m.F
}

// AVal is the abstract value of the specifications (ExpoModel / HistModel).
type AVal struct {
	Sg  int   `json:"sg"`
	B   int64 `json:"b"`
	Alt int64 `json:"alt"`
	R   int   `json:"r"`
	P   int   `json:"p"`
	K   int64 `json:"k"`
}

// midpoint of the scale-20 bucket b: 2^((b+0.5)/2^20)
func midpoint(b int64) float64 {
	e := b >> 20
	fr := (float64(b-e*(1<<20)) + 0.5) / (1 << 20)
	return math.Ldexp(math.Exp2(fr), int(e))
}

// ---------------------------------------------------------------- configuration / runner

// Cfg is the abstract configuration (goes into the New line) plus its concrete side.
type Cfg struct {
	Kind     string `json:"kind"`
	MaxSize  int    `json:"maxsize"`
	MaxScale int    `json:"maxscale"`
	Cum      bool   `json:"cum"`
	Quant    bool   `json:"quant"`
	Bounds   []int  `json:"bounds"` // ranks of the boundaries
	NoSum    bool   `json:"nosum"`    // the stream collects no sum (UpDownCounter / Gauge instrument)
	NoMinMax bool   `json:"nominmax"` // Aggregation...{NoMinMax: true}

	IsInt   bool      `json:"-"`
	FBounds []float64 `json:"-"` // concrete boundaries as configured (possibly unsorted? no: as given)
	QExp    int       `json:"-"` // float quantum 2^QExp
	QInt    int64     `json:"-"` // int quantum
	Class   string    `json:"-"`
	Gauge   bool      `json:"-"` // NoSum through a Gauge instead of an UpDownCounter

	// routes.go: the boundary list AS CONFIGURED (ranks, any order, duplicates), the route by which
	// the aggregation reaches the stream (HistModel!Routes; "" = the NewView mask of newRunner),
	// the ranks of the boundaries the reader falls back to when a route refuses the list
	CBounds  []int  `json:"cbounds,omitempty"`
	Route    string `json:"route,omitempty"`
	Fallback []int  `json:"fallback,omitempty"`
	refused  bool   // instrument creation returned an error (routes.go)
}

type errCounter struct{ n int }

func (e *errCounter) Handle(error) { e.n++ }

var handled = &errCounter{}

type Runner struct {
	cfg    *Cfg
	reader *sdkmetric.ManualReader
	mp     *sdkmetric.MeterProvider
	recF   func(context.Context, float64)
	recI   func(context.Context, int64)
	rm     metricdata.ResourceMetrics
	ncol   int
	salt   int // varies the donor shapes between scenarios
	ctx    context.Context
}

func aggOf(c *Cfg) sdkmetric.Aggregation {
	if c.Kind == "expo" {
		return sdkmetric.AggregationBase2ExponentialHistogram{MaxSize: int32(c.MaxSize), MaxScale: int32(c.MaxScale), NoMinMax: c.NoMinMax}
	}
	return sdkmetric.AggregationExplicitBucketHistogram{Boundaries: c.FBounds, NoMinMax: c.NoMinMax}
}

// instrumentFor creates the synchronous instrument of a stream: a histogram, or (streams that
// collect no sum) an up-down counter / gauge aggregated as a histogram by the view.
func instrumentFor(m metric.Meter, name string, isInt, noSum, gauge bool) (func(context.Context, float64), func(context.Context, int64)) {
	switch {
	case !noSum && isInt:
		h, err := m.Int64Histogram(name)
		vh.Must(err)
		return nil, func(ctx context.Context, v int64) { h.Record(ctx, v) }
	case !noSum:
		h, err := m.Float64Histogram(name)
		vh.Must(err)
		return func(ctx context.Context, v float64) { h.Record(ctx, v) }, nil
	case gauge && isInt:
		h, err := m.Int64Gauge(name)
		vh.Must(err)
		return nil, func(ctx context.Context, v int64) { h.Record(ctx, v) }
	case gauge:
		h, err := m.Float64Gauge(name)
		vh.Must(err)
		return func(ctx context.Context, v float64) { h.Record(ctx, v) }, nil
	case isInt:
		h, err := m.Int64UpDownCounter(name)
		vh.Must(err)
		return nil, func(ctx context.Context, v int64) { h.Add(ctx, v) }
	default:
		h, err := m.Float64UpDownCounter(name)
		vh.Must(err)
		return func(ctx context.Context, v float64) { h.Add(ctx, v) }, nil
	}
}

func newRunner(c *Cfg) *Runner {
	temp := metricdata.DeltaTemporality
	if c.Cum {
		temp = metricdata.CumulativeTemporality
	}
	r := &Runner{cfg: c, ctx: context.Background()}
	if c.Route != "" {
		return newRouteRunner(c, r, temp) // routes.go
	}
	r.reader = sdkmetric.NewManualReader(sdkmetric.WithTemporalitySelector(
		func(sdkmetric.InstrumentKind) metricdata.Temporality { return temp }))
	view := sdkmetric.NewView(sdkmetric.Instrument{Name: "h"}, sdkmetric.Stream{Aggregation: aggOf(c)})
	r.mp = sdkmetric.NewMeterProvider(sdkmetric.WithReader(r.reader), sdkmetric.WithView(view))
	r.recF, r.recI = instrumentFor(r.mp.Meter("c07"), "h", c.IsInt, c.NoSum, c.Gauge)
	return r
}

func (r *Runner) record(m Meas) {
	if r.cfg.IsInt {
		r.recI(r.ctx, m.I)
	} else {
		r.recF(r.ctx, m.F)
	}
}

func onlyAggregation(rm *metricdata.ResourceMetrics) (metricdata.Aggregation, string) {
	var found metricdata.Aggregation
	n := 0
	for _, sm := range rm.ScopeMetrics {
		for _, m := range sm.Metrics {
			n++
			found = m.Data
		}
	}
	if n > 1 {
		return found, fmt.Sprintf("%d metrics", n)
	}
	return found, "ok"
}

// collect collects into a destination of class d (HistOutput!ODestClasses): "fresh" memory, the
// runner's "own" previous destination as it is, or the output a donor provider left in the
// destination ("same": same aggregation kind and number type, other bucket layout; "other":
// another aggregation kind or number type). It returns the aggregation of instrument "h" (nil
// if nothing was reported), a shape note, and the description of what the destination held.
func (r *Runner) collect(d string) (metricdata.Aggregation, string, string) {
	r.ncol++
	desc := d
	switch d {
	case "own":
	case "same", "other":
		var rm *metricdata.ResourceMetrics
		rm, desc = donate(r.cfg, d, int(vh.Seed())*31+r.salt*13+r.ncol*7)
		r.rm = *rm
	default:
		r.rm = metricdata.ResourceMetrics{}
	}
	counters.Count("dest_"+desc, 1)
	if err := r.reader.Collect(r.ctx, &r.rm); err != nil {
		return nil, "collect error: " + err.Error(), desc
	}
	agg, shape := onlyAggregation(&r.rm)
	return agg, shape, desc
}

// ---------------------------------------------------------------- donors (previous occupants of a destination)

var donorAttr = [2]metric.MeasurementOption{
	metric.WithAttributes(attribute.Int("d", 0)), metric.WithAttributes(attribute.Int("d", 1)),
}

// donate returns a ResourceMetrics whose first slot was last written by ANOTHER provider (real
// SDK output, never hand-made memory): the concrete counterpart of HistOutput!OPrevH / OPrevE.
func donate(target *Cfg, class string, pick int) (*metricdata.ResourceMetrics, string) {
	ctx := context.Background()
	kind, isInt := target.Kind, target.IsInt
	shape := ""
	if class == "other" {
		switch pick % 4 {
		case 0:
			kind = map[string]string{"expo": "expl", "expl": "expo"}[kind]
			shape = "other:kind"
		case 1:
			isInt = !isInt
			shape = "other:num"
		case 2:
			kind, shape = "sum", "other:sum"
		default:
			kind, shape = "gauge", "other:gauge"
		}
	}
	var sub int
	if class == "same" {
		if kind == "expo" {
			sub = pick % 6
			shape = "same:" + [...]string{"more", "fewer", "neg-only", "pos-only", "emptied", "one-each"}[sub]
		} else {
			sub = pick % 3
			shape = "same:" + [...]string{"more", "fewer", "many"}[sub]
		}
	}
	delta := shape == "same:emptied"
	temp := metricdata.CumulativeTemporality
	if delta {
		temp = metricdata.DeltaTemporality
	}
	reader := sdkmetric.NewManualReader(sdkmetric.WithTemporalitySelector(
		func(sdkmetric.InstrumentKind) metricdata.Temporality { return temp }))
	var opts []sdkmetric.Option
	opts = append(opts, sdkmetric.WithReader(reader))
	nb := len(target.FBounds)
	switch kind {
	case "expo":
		opts = append(opts, sdkmetric.WithView(sdkmetric.NewView(sdkmetric.Instrument{Name: "donor"},
			sdkmetric.Stream{Aggregation: sdkmetric.AggregationBase2ExponentialHistogram{MaxSize: 160, MaxScale: 20}})))
	case "expl":
		var b []float64
		switch {
		case class != "same" || sub == 0:
			for i := 0; i < nb+3; i++ {
				b = append(b, float64(i))
			}
		case sub == 2:
			for i := 0; i < nb+20; i++ {
				b = append(b, float64(i))
			}
		}
		opts = append(opts, sdkmetric.WithView(sdkmetric.NewView(sdkmetric.Instrument{Name: "donor"},
			sdkmetric.Stream{Aggregation: sdkmetric.AggregationExplicitBucketHistogram{Boundaries: b}})))
	}
	mp := sdkmetric.NewMeterProvider(opts...)
	m := mp.Meter("donor")
	var rec func(v float64, a int)
	switch {
	case kind == "sum" && isInt:
		c, err := m.Int64Counter("donor")
		vh.Must(err)
		rec = func(v float64, a int) { c.Add(ctx, int64(math.Abs(v))+1, donorAttr[a]) }
	case kind == "sum":
		c, err := m.Float64Counter("donor")
		vh.Must(err)
		rec = func(v float64, a int) { c.Add(ctx, math.Abs(v)+1, donorAttr[a]) }
	case kind == "gauge" && isInt:
		c, err := m.Int64Gauge("donor")
		vh.Must(err)
		rec = func(v float64, a int) { c.Record(ctx, int64(v), donorAttr[a]) }
	case kind == "gauge":
		c, err := m.Float64Gauge("donor")
		vh.Must(err)
		rec = func(v float64, a int) { c.Record(ctx, v, donorAttr[a]) }
	case isInt:
		c, err := m.Int64Histogram("donor")
		vh.Must(err)
		rec = func(v float64, a int) { c.Record(ctx, int64(v), donorAttr[a]) }
	default:
		c, err := m.Float64Histogram("donor")
		vh.Must(err)
		rec = func(v float64, a int) { c.Record(ctx, v, donorAttr[a]) }
	}
	spread := func(sg float64) {
		// every small integer (explicit donors: one value per bucket) and a wide range (exponential
		// donors: many buckets at a low scale), two attribute sets = two data points
		for i := -1; i < nb+22; i++ {
			rec(sg*(float64(i)+0.5), i&1)
		}
		for _, v := range []float64{1, 1.5, 3, 100, 1e3, 1e6} {
			rec(sg*v, 0)
			rec(sg*v*7, 1)
		}
	}
	rm := &metricdata.ResourceMetrics{}
	switch shape {
	case "same:fewer":
		rec(1.5, 0)
	case "same:neg-only":
		spread(-1)
	case "same:pos-only":
		spread(1)
	case "same:one-each":
		rec(1.5, 0)
		rec(-1.5, 0)
		rec(0, 0)
	case "same:emptied":
		spread(1)
		spread(-1)
		vh.Must(reader.Collect(ctx, rm))
		rec(0, 0) // next delta cycle: only the zero bucket, both bucket slices emptied in place
		rec(0, 1)
	default:
		spread(1)
		spread(-1)
		rec(0, 0)
	}
	vh.Must(reader.Collect(ctx, rm))
	_ = mp.Shutdown(ctx)
	return rm, shape
}

// ---------------------------------------------------------------- scenario context (ranks, sums)

type ranked struct {
	x *big.Float
	r int
}

type ScenCtx struct {
	cfg   *Cfg
	table []ranked // sorted by x
	cur   []Meas   // measurements recorded into the current point
}

func (s *ScenCtx) rankOf(x *big.Float) int {
	i := sort.Search(len(s.table), func(i int) bool { return s.table[i].x.Cmp(x) >= 0 })
	if i < len(s.table) && s.table[i].x.Cmp(x) == 0 {
		return s.table[i].r
	}
	return -1
}

// buildRanks ranks all distinct exact values among xs (order-isomorphic abstraction).
func buildRanks(xs []*big.Float) []ranked {
	s := append([]*big.Float(nil), xs...)
	sort.Slice(s, func(i, j int) bool { return s[i].Cmp(s[j]) < 0 })
	var out []ranked
	for _, x := range s {
		if len(out) > 0 && out[len(out)-1].x.Cmp(x) == 0 {
			continue
		}
		out = append(out, ranked{x, len(out) + 1})
	}
	return out
}

// sumInfo projects a reported sum: exact quantum multiple (quantised scenarios) or, otherwise,
// whether it is the exact sum up to the worst-case rounding of ANY summation order
// ( |err| <= n * 2^-52 * sum|v_i| ); an int64 sum must be exact whenever it is representable.
func (s *ScenCtx) sumInfo(sumF float64, sumI int64) (sumq int64, sumok bool, skipped bool) {
	c := s.cfg
	if c.Quant {
		if c.IsInt {
			if sumI%c.QInt != 0 {
				return sumNone, true, false
			}
			q := sumI / c.QInt
			if q <= -(1<<30) || q >= 1<<30 {
				return sumNone, true, false
			}
			return q, true, false
		}
		if math.IsInf(sumF, 0) || math.IsNaN(sumF) {
			return sumNone, true, false
		}
		x := new(big.Float).SetPrec(2200).SetFloat64(sumF)
		if x.Sign() != 0 {
			x.SetMantExp(x, -c.QExp)
		}
		if !x.IsInt() {
			return sumNone, true, false
		}
		q, acc := x.Int64()
		if acc != big.Exact || q <= -(1<<30) || q >= 1<<30 {
			return sumNone, true, false
		}
		return q, true, false
	}
	if c.IsInt {
		ex := new(big.Int)
		for _, m := range s.cur {
			ex.Add(ex, big.NewInt(m.I))
		}
		if !ex.IsInt64() {
			return 0, true, true // not representable: the statement cannot apply
		}
		return 0, ex.Int64() == sumI, false
	}
	ex := new(big.Float).SetPrec(2300)
	abs := new(big.Float).SetPrec(2300)
	for _, m := range s.cur {
		v := new(big.Float).SetPrec(2300).SetFloat64(m.F)
		ex.Add(ex, v)
		abs.Add(abs, v.Abs(v))
	}
	if abs.Cmp(big.NewFloat(math.MaxFloat64)) >= 0 {
		return 0, true, true // a partial sum may overflow float64
	}
	if math.IsInf(sumF, 0) || math.IsNaN(sumF) {
		return 0, false, false
	}
	got := new(big.Float).SetPrec(2300).SetFloat64(sumF)
	diff := new(big.Float).SetPrec(2300).Sub(got, ex)
	diff.Abs(diff)
	tol := new(big.Float).SetPrec(2300).Mul(abs, big.NewFloat(float64(len(s.cur))))
	tol.SetMantExp(tol, -52)
	if len(s.cur) <= 1 {
		tol.SetInt64(0)
	}
	return 0, diff.Cmp(tol) <= 0, false
}

// ---------------------------------------------------------------- projections

// EObs is the projection of an ExponentialHistogramDataPoint onto ExpoModel's point.
type EObs struct {
	Present bool    `json:"present"`
	Scale   int     `json:"scale"`
	Poff    int     `json:"poff"`
	Pos     []int64 `json:"pos"`
	Noff    int     `json:"noff"`
	Neg     []int64 `json:"neg"`
	Zero    int64   `json:"zero"`
	Count   int64   `json:"count"`
	Min     int     `json:"min"`
	Max     int     `json:"max"`
	Sumq    int64   `json:"sumq"`
	Sumok   bool    `json:"sumok"`
	Sumz    bool    `json:"sumz"` // the reported sum is the zero value
	Shape   string  `json:"shape"`
}

// HObs is the projection of a HistogramDataPoint onto HistModel's point.
type HObs struct {
	Present  bool    `json:"present"`
	Nb       int     `json:"nb"`
	Boundsok bool    `json:"boundsok"`
	Counts   []int64 `json:"counts"`
	Count    int64   `json:"count"`
	Min      int     `json:"min"`
	Max      int     `json:"max"`
	Sumq     int64   `json:"sumq"`
	Sumok    bool    `json:"sumok"`
	Sumz     bool    `json:"sumz"`
	Shape    string  `json:"shape"`
	Bounds   []int   `json:"bounds"` // ranks of the boundaries AS REPORTED (-1: not a configured / fallback boundary)
}

func u2i(u []uint64) []int64 {
	out := make([]int64, len(u))
	for i, x := range u {
		if x > 1<<30 {
			x = 1 << 30
		}
		out[i] = int64(x)
	}
	return out
}

func capU(x uint64) int64 {
	if x > 1<<30 {
		return 1 << 30
	}
	return int64(x)
}

func exactN[N int64 | float64](v N) *big.Float {
	switch x := any(v).(type) {
	case int64:
		return new(big.Float).SetPrec(64).SetInt64(x)
	case float64:
		if math.IsNaN(x) {
			return new(big.Float).SetInf(false)
		}
		return new(big.Float).SetPrec(53).SetFloat64(x)
	}
	panic("unreachable")
}

func sumParts[N int64 | float64](v N) (float64, int64) {
	switch x := any(v).(type) {
	case int64:
		return 0, x
	case float64:
		return x, 0
	}
	panic("unreachable")
}

func extremaRank[N int64 | float64](s *ScenCtx, e metricdata.Extrema[N]) int {
	v, ok := e.Value()
	if !ok {
		return -2
	}
	return s.rankOf(exactN(v))
}

func wantTemp(c *Cfg) metricdata.Temporality {
	if c.Cum {
		return metricdata.CumulativeTemporality
	}
	return metricdata.DeltaTemporality
}

func absentE(shape string) EObs {
	return EObs{Pos: []int64{}, Neg: []int64{}, Min: -1, Max: -1, Sumok: true, Sumz: true, Shape: shape}
}

func projectExpoT[N int64 | float64](s *ScenCtx, h metricdata.ExponentialHistogram[N], shape string) EObs {
	if len(h.DataPoints) == 0 {
		return absentE(shape)
	}
	if len(h.DataPoints) != 1 {
		shape = fmt.Sprintf("%d data points", len(h.DataPoints))
	}
	return projectExpoDP(s, h.DataPoints[0], h.Temporality, shape)
}

func projectExpoDP[N int64 | float64](s *ScenCtx, dp metricdata.ExponentialHistogramDataPoint[N], temp metricdata.Temporality, shape string) EObs {
	if temp != wantTemp(s.cfg) {
		shape = "temporality"
	}
	if dp.ZeroThreshold != 0 {
		shape = "zero threshold"
	}
	o := EObs{Present: true, Scale: int(dp.Scale), Poff: int(dp.PositiveBucket.Offset), Pos: u2i(dp.PositiveBucket.Counts),
		Noff: int(dp.NegativeBucket.Offset), Neg: u2i(dp.NegativeBucket.Counts), Zero: capU(dp.ZeroCount), Count: capU(dp.Count),
		Min: extremaRank(s, dp.Min), Max: extremaRank(s, dp.Max), Shape: shape}
	if len(o.Pos) == 0 {
		o.Poff = 0
	}
	if len(o.Neg) == 0 {
		o.Noff = 0
	}
	sf, si := sumParts(dp.Sum)
	var skipped bool
	o.Sumq, o.Sumok, skipped = s.sumInfo(sf, si)
	o.Sumz = sf == 0 && si == 0
	if skipped {
		counters.Count("sum_check_skipped_unrepresentable", 1)
	}
	return o
}

func projectExpo(s *ScenCtx, agg metricdata.Aggregation, shape string) EObs {
	switch h := agg.(type) {
	case nil:
		if s.cfg.refused {
			shape = "rejected" // instrument creation returned an error (routes.go)
		}
		return absentE(shape)
	case metricdata.ExponentialHistogram[float64]:
		return projectExpoT(s, h, shape)
	case metricdata.ExponentialHistogram[int64]:
		return projectExpoT(s, h, shape)
	}
	if s.cfg.MaxScale < -10 || s.cfg.Route != "" {
		// (routes.go: another aggregation kind = the route refused the configuration; Trace_Hist decides if it may)
		// a maximum scale below the minimum is not a valid configuration: refusing it (the stream
		// then falls back to another aggregation) is a conforming answer
		return absentE("rejected")
	}
	return absentE(fmt.Sprintf("aggregation %T", agg))
}

func absentH(shape string) HObs {
	return HObs{Counts: []int64{}, Min: -1, Max: -1, Sumok: true, Sumz: true, Boundsok: true, Shape: shape, Bounds: []int{}}
}

func projectHistT[N int64 | float64](s *ScenCtx, h metricdata.Histogram[N], shape string) HObs {
	if len(h.DataPoints) == 0 {
		return absentH(shape)
	}
	if len(h.DataPoints) != 1 {
		shape = fmt.Sprintf("%d data points", len(h.DataPoints))
	}
	return projectHistDP(s, h.DataPoints[0], h.Temporality, shape)
}

func projectHistDP[N int64 | float64](s *ScenCtx, dp metricdata.HistogramDataPoint[N], temp metricdata.Temporality, shape string) HObs {
	if temp != wantTemp(s.cfg) {
		shape = "temporality"
	}
	want := append([]float64(nil), s.cfg.FBounds...)
	sort.Float64s(want)
	ok := len(want) == len(dp.Bounds)
	for i := 0; ok && i < len(want); i++ {
		ok = want[i] == dp.Bounds[i]
	}
	o := HObs{Present: true, Nb: len(dp.Bounds), Boundsok: ok, Counts: u2i(dp.BucketCounts), Count: capU(dp.Count),
		Min: extremaRank(s, dp.Min), Max: extremaRank(s, dp.Max), Shape: shape, Bounds: []int{}}
	for _, b := range dp.Bounds {
		o.Bounds = append(o.Bounds, s.rankOf(new(big.Float).SetPrec(53).SetFloat64(b)))
	}
	sf, si := sumParts(dp.Sum)
	var skipped bool
	o.Sumq, o.Sumok, skipped = s.sumInfo(sf, si)
	o.Sumz = sf == 0 && si == 0
	if skipped {
		counters.Count("sum_check_skipped_unrepresentable", 1)
	}
	return o
}

// ---------------------------------------------------------------- fingerprints (a reported point must not change)

func numBits[N int64 | float64](v N) uint64 {
	switch x := any(v).(type) {
	case int64:
		return uint64(x)
	case float64:
		return math.Float64bits(x)
	}
	panic("unreachable")
}

func extremaFP[N int64 | float64](e metricdata.Extrema[N]) string {
	v, ok := e.Value()
	if !ok {
		return "-"
	}
	return fmt.Sprintf("%x", numBits(v))
}

func hashFP(parts ...any) string {
	h := fnv.New64a()
	fmt.Fprint(h, parts...)
	return fmt.Sprintf("%016x", h.Sum64())
}

func fpHistDP[N int64 | float64](dp metricdata.HistogramDataPoint[N]) string {
	b := make([]uint64, len(dp.Bounds))
	for i, f := range dp.Bounds {
		b[i] = math.Float64bits(f)
	}
	return hashFP("H", dp.Count, "|", b, "|", dp.BucketCounts, "|", numBits(dp.Sum), "|", extremaFP(dp.Min), "|", extremaFP(dp.Max))
}

func fpExpoDP[N int64 | float64](dp metricdata.ExponentialHistogramDataPoint[N]) string {
	return hashFP("E", dp.Count, "|", dp.Scale, "|", dp.ZeroCount, "|", dp.PositiveBucket.Offset, dp.PositiveBucket.Counts, "|",
		dp.NegativeBucket.Offset, dp.NegativeBucket.Counts, "|", numBits(dp.Sum), "|", extremaFP(dp.Min), "|", extremaFP(dp.Max))
}

// fpAggregation fingerprints the single data point of a single-stream scenario.
func fpAggregation(agg metricdata.Aggregation) string {
	switch h := agg.(type) {
	case metricdata.Histogram[float64]:
		if len(h.DataPoints) > 0 {
			return fpHistDP(h.DataPoints[0])
		}
	case metricdata.Histogram[int64]:
		if len(h.DataPoints) > 0 {
			return fpHistDP(h.DataPoints[0])
		}
	case metricdata.ExponentialHistogram[float64]:
		if len(h.DataPoints) > 0 {
			return fpExpoDP(h.DataPoints[0])
		}
	case metricdata.ExponentialHistogram[int64]:
		if len(h.DataPoints) > 0 {
			return fpExpoDP(h.DataPoints[0])
		}
	}
	return "absent"
}

func projectHist(s *ScenCtx, agg metricdata.Aggregation, shape string) HObs {
	switch h := agg.(type) {
	case nil:
		if s.cfg.refused {
			shape = "rejected"
		}
		return absentH(shape)
	case metricdata.Histogram[float64]:
		return projectHistT(s, h, shape)
	case metricdata.Histogram[int64]:
		return projectHistT(s, h, shape)
	}
	if s.cfg.Route != "" {
		return absentH("rejected") // another aggregation kind: the route refused the configuration (Trace_Hist decides if it may)
	}
	return absentH(fmt.Sprintf("aggregation %T", agg))
}

var counters = vh.NewResult()

// sysMB is the memory this process obtained from the OS (the driver caps the address space far above it).
func sysMB() int64 {
	var ms runtime.MemStats
	runtime.ReadMemStats(&ms)
	return int64(ms.Sys >> 20)
}

// ---------------------------------------------------------------- progress file
//
// VERIF_PROGRESS names a file that always holds the scenario about to be executed. The driver
// runs the harness under an address-space limit: a measurement that makes the SDK allocate
// without bound (a broken size limit) kills the process from inside one Record call, and the
// driver then knows which scenario did it.
var (
	progressF   *os.File
	progressLen int
)

func progress(parts ...any) {
	if progressF == nil {
		if p := os.Getenv("VERIF_PROGRESS"); p != "" && progressLen == 0 {
			f, err := os.Create(p)
			vh.Must(err)
			progressF = f
		} else {
			progressLen = -1
			return
		}
	}
	b := []byte(fmt.Sprint(parts...))
	n := len(b)
	for len(b) < progressLen {
		b = append(b, ' ')
	}
	b = append(b, '\n')
	progressLen = n
	if len(b)-1 > progressLen {
		progressLen = len(b) - 1
	}
	progressF.WriteAt(b, 0)
}

// ---------------------------------------------------------------- scenario execution

// SOp is one step of a scenario: a measurement (with its abstract value) or a collect.
type SOp struct {
	Collect bool
	D       string // destination class of a collect (HistOutput!ODestClasses)
	M       Meas
	A       AVal
}

// execScenario runs ops on a fresh MeterProvider; every Collect (plus a final observing one if
// observe is set) yields a Col line. Returns the trace lines and the last observation.
func execScenario(sc int, c *Cfg, table []ranked, ops []SOp, observe string) (lines []map[string]any, obs []any, panicked any) {
	defer func() {
		if r := recover(); r != nil {
			panicked = r
		}
	}()
	if progressLen >= 0 {
		cj, _ := json.Marshal(c)
		progress("scenario ", sc, " observe=", observe, " cfg=", string(cj), " isint=", c.IsInt, " ops=", concList(ops))
	}
	s := &ScenCtx{cfg: c, table: table}
	run := newRunner(c)
	run.salt = sc
	lines = append(lines, map[string]any{"ev": "New", "sc": sc, "cfg": c})
	pending := []AVal{}
	flush := func() {
		if len(pending) > 0 {
			lines = append(lines, map[string]any{"ev": "Rec", "sc": sc, "vals": pending})
			pending = []AVal{}
		}
	}
	// destinations that were not handed to a collection again: the points reported into them
	// must stay what they were (Chk lines; the comparison is Trace_Hist's)
	type liveRM struct {
		rm   metricdata.ResourceMetrics
		k    int
		dest string
	}
	var live []liveRM
	ncol := 0
	check := func() {
		for _, lr := range live {
			agg, _ := onlyAggregation(&lr.rm)
			lines = append(lines, map[string]any{"ev": "Chk", "sc": sc, "k": lr.k, "fp": fpAggregation(agg), "dest": lr.dest})
			counters.Count("alias_checks", 1)
		}
		live = live[:0]
	}
	col := func(d string) {
		flush()
		if d == "own" {
			live = live[:0] // documented re-use: the previous report may change freely
		}
		agg, shape, desc := run.collect(d)
		check() // the previous report, after further measurements and a collection into other memory
		var last any
		if c.Kind == "expo" {
			last = projectExpo(s, agg, shape)
		} else {
			last = projectHist(s, agg, shape)
		}
		obs = append(obs, last)
		ncol++
		lines = append(lines, map[string]any{"ev": "Col", "sc": sc, "obs": last, "dest": desc, "fp": fpAggregation(agg)})
		live = append(live, liveRM{run.rm, ncol, desc})
		if !c.Cum {
			s.cur = s.cur[:0]
		}
	}
	for _, op := range ops {
		if op.Collect {
			col(op.D)
			continue
		}
		run.record(op.M)
		s.cur = append(s.cur, op.M)
		pending = append(pending, op.A)
	}
	if observe != "" {
		col(observe)
	} else {
		flush()
	}
	check()
	return lines, obs, nil
}

// abstractExpo computes the abstract value of a measurement for the exponential model. The SDK
// (and the OTel data model, whose bucket boundaries are doubles) places an int64 measurement by
// its float64 conversion: the abstraction does the same (documented assumption), while rank and
// sum use the exact integer.
func abstractExpo(m Meas, isInt bool) AVal {
	f := m.asFloat(isInt)
	a := AVal{}
	switch {
	case f == 0:
		return a
	case f > 0:
		a.Sg = 1
	default:
		a.Sg = -1
	}
	x := new(big.Float).SetPrec(53).SetFloat64(math.Abs(f))
	a.B, a.Alt, _ = exactB20(x)
	return a
}

// ---------------------------------------------------------------- replay (spec -> code)

type edgeAct struct {
	Op   string `json:"op"`
	I    int    `json:"i"`
	Path string `json:"path"`
	D    string `json:"d"` // destination class of a Collect
	Rt   string `json:"rt"` // route of a Configure (Histogram.tla)
}

var destClasses = []string{"fresh", "own", "same", "other"}

// observeClass picks the destination class of the observing collect that follows a replayed
// Collect edge (which names the class of its own collect; a Record edge is observed with every class).
func observeClass(i int) string { return destClasses[(i/2+int(vh.Seed()))%len(destClasses)] }

// obsKey identifies what TLC would be asked to judge: identical observation sequences of one
// edge under several destination classes are judged once.
func obsKey(lines []map[string]any) string {
	var parts []any
	for _, l := range lines {
		if l["ev"] == "Col" {
			parts = append(parts, l["obs"])
		}
	}
	b, _ := json.Marshal(parts)
	return fmt.Sprint(chkDiffers(lines)) + string(b)
}

type ePoint struct {
	Present bool    `json:"present"`
	Scale   int     `json:"scale"`
	Poff    int     `json:"poff"`
	Pos     []int64 `json:"pos"`
	Noff    int     `json:"noff"`
	Neg     []int64 `json:"neg"`
	Zero    int64   `json:"zero"`
	Count   int64   `json:"count"`
	Min     int     `json:"min"`
	Max     int     `json:"max"`
	Sumq    int64   `json:"sumq"`
}

type eState struct {
	Pt  ePoint `json:"pt"`
	Ipt ePoint `json:"ipt"`
}

func eqI(a, b []int64) bool {
	if len(a) != len(b) {
		return false
	}
	for i := range a {
		if a[i] != b[i] {
			return false
		}
	}
	return true
}

func expoEqual(o EObs, p ePoint, quant bool) bool {
	if o.Shape != "ok" {
		return false
	}
	if o.Present != p.Present || o.Scale != p.Scale || o.Poff != p.Poff || o.Noff != p.Noff || !eqI(o.Pos, p.Pos) ||
		!eqI(o.Neg, p.Neg) || o.Zero != p.Zero || o.Count != p.Count || o.Min != p.Min || o.Max != p.Max {
		return false
	}
	if quant {
		return o.Sumq == p.Sumq
	}
	return o.Sumok || (o.Sumz && p.Sumq == 0 && o.Sumq == 0)
}

// concretizeExpo maps an abstract value of the TLC constants to a float64.
//
//	rep 0: exact power of two for b = -1 mod 2^20 (the inclusive upper boundary), else bucket midpoint
//	rep 1: bucket midpoint always
//	rep 2: (only decidable exactly at scales <= 0, so only used when MaxScale <= 0) the float
//	       neighbours of the power-of-two boundaries: largest float below 2^e for b = -1 mod 2^20,
//	       smallest float above 2^e for b = 0 mod 2^20, else midpoint
func concretizeExpo(a AVal, rep int) float64 {
	if a.Sg == 0 {
		if rep == 1 {
			return math.Copysign(0, -1)
		}
		return 0
	}
	const U = 1 << 20
	mod := ((a.B % U) + U) % U
	var v float64
	switch {
	case rep == 0 && mod == U-1:
		v = math.Ldexp(1, int((a.B+1)>>20))
		if math.IsInf(v, 0) {
			v = midpoint(a.B) // top bucket: 2^1024 itself is not a float64 (and MaxFloat64 is too close to it to be decided)
		}
	case rep == 2 && mod == U-1:
		v = math.Nextafter(math.Ldexp(1, int((a.B+1)>>20)), 0)
		if v == 0 {
			v = math.Ldexp(1, int((a.B+1)>>20)) // below the smallest subnormal there is only zero
		}
	case rep == 2 && mod == 0:
		v = math.Nextafter(math.Ldexp(1, int(a.B>>20)), math.Inf(1))
	default:
		v = midpoint(a.B)
	}
	// the concrete value must really have the abstract index (and be decidable unless rep 2)
	b, alt, _ := exactB20(new(big.Float).SetPrec(53).SetFloat64(v))
	if b != a.B || (alt != b && rep != 2) {
		fmt.Fprintf(os.Stderr, "harness error: concretization of b=%d rep=%d gives %g with b=%d alt=%d\n", a.B, rep, v, b, alt)
		os.Exit(3)
	}
	return v * float64(a.Sg)
}

func replayExpo(g *vh.Graph, c *Cfg, vals []AVal, rep int, tw *vh.TraceWriter, res *vh.Result, sample int) {
	// concrete values and the rank table given by the constants
	conc := make([]Meas, len(vals))
	var table []ranked
	for i, a := range vals {
		conc[i] = Meas{F: concretizeExpo(a, rep)}
		table = append(table, ranked{conc[i].exact(false), a.R})
	}
	sort.Slice(table, func(i, j int) bool { return table[i].x.Cmp(table[j].x) < 0 })
	for i := 1; i < len(table); i++ {
		if table[i-1].x.Cmp(table[i].x) == 0 && table[i-1].r != table[i].r || table[i-1].r > table[i].r {
			fmt.Fprintln(os.Stderr, "harness error: ranks of the constants are not order-isomorphic to the concrete values")
			os.Exit(3)
		}
	}
	for i, e := range g.Edges {
		res.Evaluations++
		if sample > 1 && (int64(i)+vh.Seed())%int64(sample) != 0 {
			continue
		}
		pathRaw, ok := g.Path(i)
		if !ok {
			res.Inconcl(fmt.Sprintf("edge %d: source not reachable in BFS tree", i))
			continue
		}
		var ops []SOp
		var acts []edgeAct
		for _, r := range append(pathRaw, e.Act) {
			var a edgeAct
			vh.Must(json.Unmarshal(r, &a))
			acts = append(acts, a)
			if a.Op == "Collect" {
				ops = append(ops, SOp{Collect: true, D: a.D})
			} else {
				av := vals[a.I-1]
				av.P = av.R
				ops = append(ops, SOp{M: conc[a.I-1], A: av})
			}
		}
		var from, want eState
		vh.Must(json.Unmarshal(e.From, &from))
		vh.Must(json.Unmarshal(e.To, &want))
		lastAct := acts[len(acts)-1]
		classes := destClasses
		if lastAct.Op == "Collect" {
			classes = []string{observeClass(i)}
		}
		judged := map[string]bool{}
		var got EObs
		finals := map[string]bool{}
		for ci, cls := range classes {
			cc := *c
			cc.Gauge = (i+ci)%3 == 0
			lines, obs, p := execScenario(i*4+ci, &cc, table, ops, cls)
			res.Executed++
			res.Count("path_"+lastAct.Path, 1)
			if p != nil {
				res.AddMismatch(vh.Mismatch{Kind: "panic", Case: map[string]any{"sc": i, "dest": cls}, Path: acts, Detail: fmt.Sprint(p)})
				continue
			}
			got = obs[len(obs)-1].(EObs)
			if fb, _ := json.Marshal(got); true {
				finals[string(fb)] = true
			}
			if expoEqual(got, want.Ipt, false) {
				res.Count("equals_impl_shaped_state", 1)
			}
			if chkDiffers(lines) {
				res.Count("replayed_reports_changed_later", 1)
			}
			differs := !expoEqual(got, want.Pt, false) || chkDiffers(lines)
			if lastAct.Op == "Collect" && len(obs) >= 2 && !expoEqual(obs[len(obs)-2].(EObs), from.Pt, false) {
				differs = true // what the edge's own collect reported (a delta stream then forgets it)
			}
			if differs {
				res.Count("replayed_cases_differing_from_reference", 1)
				res.AddMismatch(vh.Mismatch{Kind: "refdiff", Case: map[string]any{"sc": i, "dest": cls}, Path: acts[:len(acts)-1], Act: lastAct,
					Want: want.Pt, Got: got, Detail: fmt.Sprintf("concrete values %v", concList(ops))})
				if k := obsKey(lines); !judged[k] {
					judged[k] = true
					for _, l := range lines {
						tw.Emit(l)
					}
				}
			}
		}
		if len(finals) > 1 {
			// information only: the contract, not this comparison, decides (HistOutput!ReportIndep on the real code)
			res.Count("edges_whose_report_depends_on_the_destination", 1)
		}
		if i%1499 == 0 {
			res.Sample(map[string]any{"ops": acts, "values": concList(ops), "to": want.Pt, "got": got})
		}
	}
}

// chkDiffers pre-filters a replayed scenario: does any later fingerprint of a reported point
// differ from the one taken when it was reported? (The verdict is Trace_Hist's.)
func chkDiffers(lines []map[string]any) bool {
	var fps []string
	for _, l := range lines {
		switch l["ev"] {
		case "Col":
			fps = append(fps, l["fp"].(string))
		case "Chk":
			if k := l["k"].(int); k < 1 || k > len(fps) || fps[k-1] != l["fp"].(string) {
				return true
			}
		}
	}
	return false
}

func concList(ops []SOp) []string {
	out := []string{}
	for _, o := range ops {
		if o.Collect {
			out = append(out, "collect:"+o.D)
		} else {
			out = append(out, fmt.Sprintf("%g/%d", o.M.F, o.M.I))
		}
	}
	return out
}

type hPoint struct {
	Present bool    `json:"present"`
	Nb      int     `json:"nb"`
	Counts  []int64 `json:"counts"`
	Count   int64   `json:"count"`
	Min     int     `json:"min"`
	Max     int     `json:"max"`
	Sumq    int64   `json:"sumq"`
}

type hState struct {
	Pt hPoint `json:"pt"`
}

func histEqual(o HObs, p hPoint, quant bool) bool {
	if o.Shape != "ok" || !o.Boundsok {
		return false
	}
	if o.Present != p.Present || !eqI(o.Counts, p.Counts) || o.Count != p.Count || o.Min != p.Min || o.Max != p.Max {
		return false
	}
	if o.Present && o.Nb != p.Nb {
		return false
	}
	if quant {
		return o.Sumq == p.Sumq
	}
	return o.Sumok
}

// irregular strictly increasing boundary values for the non-quantised explicit reps
var irregular = []float64{-1e300, -12345.678, -1.5, -1e-310, 0, 1e-310, 2.2250738585072014e-308, 0.1, 1, 7, 1 << 53, 1e10 * 1e10, 1.7976931348623157e308}

// concretizeExpl maps ranks to concrete boundaries / measurements. Boundaries have even ranks
// 2,4,..,2*nb; measurements have ranks 1..2*nb+1; k = r - (nb+1).
//
//	rep 0: float64, value = k               rep 1: float64, value = k * 2^-1070 (subnormal grid)
//	rep 2: float64, value = k * 2^1000      rep 3: int64, value = k     rep 4: int64, value = k * 2^40
//	rep 5/6: float64, irregular boundaries; a measurement between two boundaries is the float
//	         neighbour (Nextafter) of the lower (5) / upper (6) one; on a boundary it is the boundary
//	rep 7: as 5 with first boundary -Inf and last +Inf (measurement ranks 3..2nb-1 only)
func concretizeExpl(c *Cfg, nb int, r int, rep int, isBound bool) (Meas, bool) {
	k := int64(r - (nb + 1))
	switch rep {
	case 0:
		return Meas{F: float64(k)}, true
	case 1:
		return Meas{F: math.Ldexp(float64(k), -1070)}, true
	case 2:
		return Meas{F: math.Ldexp(float64(k), 1000)}, true
	case 3:
		return Meas{I: k}, true
	case 4:
		return Meas{I: k * (1 << 40)}, true
	}
	// irregular: choose nb boundaries centred in the table
	start := (len(irregular) - nb) / 2
	bound := func(j int) float64 { // j = 1..nb
		if rep == 7 && j == 1 {
			return math.Inf(-1)
		}
		if rep == 7 && j == nb {
			return math.Inf(1)
		}
		return irregular[start+j-1]
	}
	if r%2 == 0 {
		v := bound(r / 2)
		return Meas{F: v}, isBound || !math.IsInf(v, 0)
	}
	j := (r - 1) / 2 // between bound j and j+1
	var v float64
	switch {
	case j == 0:
		v = math.Nextafter(bound(1), math.Inf(-1))
	case j == nb:
		v = math.Nextafter(bound(nb), math.Inf(1))
	case rep == 6:
		v = math.Nextafter(bound(j+1), math.Inf(-1))
	default:
		v = math.Nextafter(bound(j), math.Inf(1))
	}
	return Meas{F: v}, !math.IsInf(v, 0) && !math.IsNaN(v)
}

type hVal struct {
	R int   `json:"r"`
	K int64 `json:"k"`
}

func replayExpl(g *vh.Graph, c *Cfg, vals []hVal, rep int, tw *vh.TraceWriter, res *vh.Result, sample int) {
	if c.CBounds == nil {
		c.CBounds = c.Bounds
	}
	distinct := map[int]bool{}
	for _, br := range c.CBounds {
		distinct[br] = true
	}
	nb := len(distinct) // the distinct boundaries have ranks 2, 4, .., 2*nb
	c.IsInt = rep == 3 || rep == 4
	c.Quant = rep <= 4
	switch rep {
	case 1:
		c.QExp = -1070
	case 2:
		c.QExp = 1000
	case 3:
		c.QInt = 1
	case 4:
		c.QInt = 1 << 40
	}
	var table []ranked
	c.FBounds = nil
	for _, br := range c.CBounds { // as configured: any order, duplicates
		m, _ := concretizeExpl(c, nb, br, rep, true)
		f := m.asFloat(c.IsInt)
		c.FBounds = append(c.FBounds, f)
		table = append(table, ranked{new(big.Float).SetPrec(53).SetFloat64(f), br})
	}
	conc := make([]Meas, len(vals))
	for i, v := range vals {
		m, ok := concretizeExpl(c, nb, v.R, rep, false)
		if !ok {
			fmt.Fprintf(os.Stderr, "harness error: rank %d has no finite concretization in rep %d\n", v.R, rep)
			os.Exit(3)
		}
		conc[i] = m
		table = append(table, ranked{m.exact(c.IsInt), v.R})
	}
	sort.SliceStable(table, func(i, j int) bool { return table[i].x.Cmp(table[j].x) < 0 })
	var dedup []ranked
	for _, t := range table {
		if len(dedup) > 0 && dedup[len(dedup)-1].x.Cmp(t.x) == 0 {
			if dedup[len(dedup)-1].r != t.r {
				fmt.Fprintln(os.Stderr, "harness error: two ranks for one concrete value")
				os.Exit(3)
			}
			continue
		}
		if len(dedup) > 0 && dedup[len(dedup)-1].r >= t.r {
			fmt.Fprintln(os.Stderr, "harness error: concretization not monotone in rank")
			os.Exit(3)
		}
		dedup = append(dedup, t)
	}
	for i, e := range g.Edges {
		res.Evaluations++
		if sample > 1 && (int64(i)+vh.Seed())%int64(sample) != 0 {
			continue
		}
		pathRaw, ok := g.Path(i)
		if !ok {
			res.Inconcl(fmt.Sprintf("edge %d: source not reachable in BFS tree", i))
			continue
		}
		var ops []SOp
		var acts []edgeAct
		route := c.Route
		for _, r := range append(pathRaw, e.Act) {
			var a edgeAct
			vh.Must(json.Unmarshal(r, &a))
			acts = append(acts, a)
			if a.Op == "Configure" {
				route = a.Rt
			} else if a.Op == "Collect" {
				ops = append(ops, SOp{Collect: true, D: a.D})
			} else {
				v := vals[a.I-1]
				av := AVal{R: v.R, P: v.R}
				if c.Quant {
					av.K = v.K
				}
				ops = append(ops, SOp{M: conc[a.I-1], A: av})
			}
		}
		var from, want hState
		vh.Must(json.Unmarshal(e.From, &from))
		vh.Must(json.Unmarshal(e.To, &want))
		lastAct := acts[len(acts)-1]
		classes := destClasses
		if lastAct.Op == "Collect" {
			classes = []string{observeClass(i)}
		}
		judged := map[string]bool{}
		var got HObs
		finals := map[string]bool{}
		for ci, cls := range classes {
			cc := *c
			cc.Gauge = (i+ci)%3 == 0
			cc.Route = route
			counters.Count("route_"+route, 1)
			lines, obs, p := execScenario(i*4+ci, &cc, dedup, ops, cls)
			res.Executed++
			if p != nil {
				res.AddMismatch(vh.Mismatch{Kind: "panic", Case: map[string]any{"sc": i, "dest": cls}, Path: acts, Detail: fmt.Sprint(p)})
				continue
			}
			got = obs[len(obs)-1].(HObs)
			if fb, _ := json.Marshal(got); true {
				finals[string(fb)] = true
			}
			if chkDiffers(lines) {
				res.Count("replayed_reports_changed_later", 1)
			}
			differs := !histEqual(got, want.Pt, c.Quant) || chkDiffers(lines)
			if lastAct.Op == "Collect" && len(obs) >= 2 && !histEqual(obs[len(obs)-2].(HObs), from.Pt, c.Quant) {
				differs = true // what the edge's own collect reported (a delta stream then forgets it)
			}
			if differs {
				res.Count("replayed_cases_differing_from_reference", 1)
				res.AddMismatch(vh.Mismatch{Kind: "refdiff", Case: map[string]any{"sc": i, "dest": cls}, Path: acts[:len(acts)-1], Act: lastAct,
					Want: want.Pt, Got: got, Detail: fmt.Sprintf("bounds %v values %v", c.FBounds, concList(ops))})
				if k := obsKey(lines); !judged[k] {
					judged[k] = true
					for _, l := range lines {
						tw.Emit(l)
					}
				}
			}
		}
		if len(finals) > 1 {
			res.Count("edges_whose_report_depends_on_the_destination", 1)
		}
		if i%1499 == 0 {
			res.Sample(map[string]any{"ops": acts, "bounds": fmt.Sprint(c.FBounds), "values": concList(ops), "to": want.Pt, "got": got})
		}
	}
}

func replay(args []string) {
	fs := flag.NewFlagSet("replay", flag.ExitOnError)
	kind := fs.String("kind", "expo", "")
	edges := fs.String("edges", "", "")
	cfgJ := fs.String("cfg", "", "")
	valsJ := fs.String("vals", "", "")
	rep := fs.Int("rep", 0, "")
	trace := fs.String("trace", "diff.ndjson", "")
	out := fs.String("out", "result.json", "")
	sample := fs.Int("sample", 0, "replay only every k-th edge offset by seed (0 = all)")
	fs.Parse(args)
	var c Cfg
	vh.Must(json.Unmarshal([]byte(*cfgJ), &c))
	if c.Bounds == nil {
		c.Bounds = []int{}
	}
	c.Kind = *kind
	g, err := vh.LoadEdges(*edges)
	vh.Must(err)
	tw, err := vh.NewTraceWriter(*trace)
	vh.Must(err)
	res := vh.NewResult()
	if *kind == "expo" {
		var vals []AVal
		vh.Must(json.Unmarshal([]byte(*valsJ), &vals))
		replayExpo(g, &c, vals, *rep, tw, res, *sample)
	} else {
		var vals []hVal
		vh.Must(json.Unmarshal([]byte(*valsJ), &vals))
		replayExpl(g, &c, vals, *rep, tw, res, *sample)
	}
	vh.Must(tw.Close())
	res.Count("diff_trace_lines", tw.N)
	res.Count("otel_errors_handled", int64(handled.n))
	for k, v := range counters.Counters {
		res.Count(k, v)
	}
	res.Count("harness_sys_mb", sysMB())
	vh.Must(res.Write(*out))
}

// ---------------------------------------------------------------- random scenarios (code -> spec)

func randFinite(r *rand.Rand) float64 {
	for {
		f := math.Float64frombits(r.Uint64())
		if !math.IsNaN(f) && !math.IsInf(f, 0) {
			return f
		}
	}
}

func pick[T any](r *rand.Rand, xs ...T) T { return xs[r.Intn(len(xs))] }

func randDest(r *rand.Rand) string { return pick(r, "fresh", "own", "own", "same", "same", "other") }

func sign(r *rand.Rand, negProb int) float64 {
	if r.Intn(100) < negProb {
		return -1
	}
	return 1
}

// genExpoValues produces the float measurements of one exponential scenario of the given class.
func genExpoValues(r *rand.Rand, class string, n int, c *Cfg) []Meas {
	out := make([]Meas, 0, n)
	negProb := pick(r, 0, 0, 10, 50, 100)
	add := func(f float64) {
		if math.IsNaN(f) || math.IsInf(f, 0) {
			return
		}
		out = append(out, Meas{F: f})
	}
	centre := math.Abs(randFinite(r))
	if centre < 1e-300 || centre > 1e300 {
		centre = pick(r, 1.0, 3.7, 1e-5, 123456.789, 1e100, 1e-100)
	}
	width := math.Ldexp(1, -r.Intn(24)) // half width in octaves
	narrow := func() float64 { return centre * math.Exp2((r.Float64()*2-1)*width) * sign(r, negProb) }
	nearLeft := 6
	for len(out) < n {
		switch class {
		case "wide":
			add(randFinite(r))
		case "narrow":
			add(narrow())
		case "pow2":
			e := r.Intn(1023+1074+1) - 1074
			if r.Intn(3) == 0 {
				e = pick(r, -1074, -1073, -1023, -1022, -1021, -1, 0, 1, 52, 53, 1022, 1023)
			}
			v := math.Ldexp(1, e)
			switch r.Intn(4) {
			case 0:
				v = math.Nextafter(v, 0)
			case 1:
				v = math.Nextafter(v, math.Inf(1))
			}
			if v == 0 {
				v = math.Ldexp(1, e)
			}
			add(v * sign(r, negProb))
		case "pow2narrow": // powers of two and neighbours within a few octaves: high scales stay possible
			e := -3 + r.Intn(7)
			v := math.Ldexp(1, e)
			switch r.Intn(5) {
			case 0:
				v = math.Nextafter(v, 0)
			case 1:
				v = math.Nextafter(v, math.Inf(1))
			case 2:
				v = v * (1 + r.Float64())
			}
			add(v * sign(r, negProb))
		case "near": // a few values within ulps of an irrational bucket boundary, rest narrow
			if nearLeft > 0 && r.Intn(3) == 0 {
				nearLeft--
				s := 1 + r.Intn(20)
				span := int64(1) << s
				k := r.Int63n(8*span) - 4*span
				v := math.Exp2(float64(k) / float64(span))
				for u := r.Intn(5) - 2; u != 0; {
					if u > 0 {
						v = math.Nextafter(v, math.Inf(1))
						u--
					} else {
						v = math.Nextafter(v, 0)
						u++
					}
				}
				centre, width = 1, 2
				add(v * sign(r, negProb))
			} else {
				centre, width = 1, 2
				add(narrow())
			}
		case "quant":
			add(math.Ldexp(float64(r.Intn(2001)-1000), c.QExp))
		case "underflow": // both sides of 1, subnormals, huge
			switch r.Intn(6) {
			case 0:
				add(r.Float64() * sign(r, negProb))
			case 1:
				add((1 + 100*r.Float64()) * sign(r, negProb))
			case 2:
				add(math.Ldexp(1+r.Float64(), -1030-r.Intn(44)) * sign(r, negProb))
			case 3:
				add(math.Ldexp(1+r.Float64(), 1000+r.Intn(23)) * sign(r, negProb))
			case 4:
				add(math.Ldexp(1, pick(r, -1074, -1025, -1024, -1023, -1, 0, 1, 1023)) * sign(r, negProb))
			default:
				add(randFinite(r))
			}
		case "subnormal":
			add(math.Float64frombits(r.Uint64()&(1<<52-1)|uint64(r.Intn(3))<<52) * sign(r, negProb))
		}
		if r.Intn(25) == 0 {
			add(pick(r, 0.0, math.Copysign(0, -1)))
		}
	}
	return out
}

func genIntValues(r *rand.Rand, class string, n int, c *Cfg) []Meas {
	out := make([]Meas, 0, n)
	neg := r.Intn(3) == 0
	for len(out) < n {
		var v int64
		switch class {
		case "int-small":
			v = int64(r.Intn(2001)-1000) * c.QInt
		case "int-wide":
			v = int64(r.Uint64()) >> uint(r.Intn(64))
			if !neg && v < 0 {
				v = -(v + 1)
			}
		case "int-pow2":
			e := uint(r.Intn(63))
			v = int64(1) << e
			v += int64(r.Intn(3) - 1)
			if neg && r.Intn(2) == 0 {
				v = -v
			}
		case "int-extreme":
			v = pick[int64](r, math.MaxInt64, math.MinInt64, math.MaxInt64-1, math.MinInt64+1, 1<<53, 1<<53+1, 1<<53-1, -(1 << 53), 0, 1, -1)
		}
		out = append(out, Meas{I: v})
	}
	return out
}

func randomExpo(r *rand.Rand, sc int, tw *vh.TraceWriter, res *vh.Result) {
	c := &Cfg{Kind: "expo", Cum: r.Intn(2) == 0, Bounds: []int{}}
	c.NoMinMax = r.Intn(8) == 0
	c.NoSum = r.Intn(8) == 0
	c.Gauge = r.Intn(2) == 0
	c.MaxSize = pick(r, 1, 1, 2, 2, 3, 4, 5, 8, 16, 20, 160)
	switch r.Intn(20) {
	case 0:
		c.MaxScale = pick(r, -11, -12, -15)
	case 1, 2, 3, 4, 5, 6:
		c.MaxScale = 20
	default:
		c.MaxScale = r.Intn(31) - 10
	}
	c.IsInt = r.Intn(6) == 0
	var class string
	if c.IsInt {
		class = pick(r, "int-small", "int-wide", "int-pow2", "int-extreme")
		if class == "int-small" {
			c.Quant = true
			c.QInt = pick(r, int64(1), 1, 1000, 1<<40)
		}
	} else {
		class = pick(r, "wide", "narrow", "narrow", "pow2", "pow2narrow", "near", "quant", "underflow", "subnormal")
		if class == "quant" {
			c.Quant = true
			c.QExp = pick(r, -1074, -1070, -1022, -500, -20, -1, 0, 3, 10, 500, 960)
		}
		if class == "underflow" {
			c.MaxSize = pick(r, 1, 1, 2)
		}
	}
	c.Class = class
	ncycles := 1 + r.Intn(3)
	var ops []SOp
	var all []Meas
	for cy := 0; cy < ncycles; cy++ {
		n := r.Intn(pick(r, 3, 8, 20, 60))
		var ms []Meas
		if c.IsInt {
			ms = genIntValues(r, class, n, c)
		} else {
			ms = genExpoValues(r, class, n, c)
		}
		for _, m := range ms {
			ops = append(ops, SOp{M: m})
		}
		all = append(all, ms...)
		ops = append(ops, SOp{Collect: true, D: randDest(r)})
	}
	// ranks (exact values) and abstract values
	xs := make([]*big.Float, len(all))
	for i, m := range all {
		xs[i] = m.exact(c.IsInt)
	}
	table := buildRanks(xs)
	s := &ScenCtx{table: table}
	for i := range ops {
		if ops[i].Collect {
			continue
		}
		m := ops[i].M
		a := abstractExpo(m, c.IsInt)
		a.R = s.rankOf(m.exact(c.IsInt))
		a.P = a.R
		if c.Quant {
			if c.IsInt {
				a.K = m.I / c.QInt
			} else {
				a.K = int64(math.Ldexp(m.F, -c.QExp))
			}
		}
		ops[i].A = a
		// regime counters (vacuity of the random driver)
		if a.Alt != a.B {
			res.Count("expo_values_near_irrational_boundary", 1)
		}
		if !c.IsInt && m.F != 0 && math.Abs(m.F) < 0x1p-1022 {
			res.Count("expo_values_subnormal", 1)
		}
		if fr, _ := math.Frexp(m.asFloat(c.IsInt)); math.Abs(fr) == 0.5 {
			res.Count("expo_values_exact_pow2", 1)
		}
		if a.Sg < 0 {
			res.Count("expo_values_negative", 1)
		}
		if a.Sg == 0 {
			res.Count("expo_values_zero", 1)
		}
		if c.IsInt && float64(m.I) != 0 && new(big.Float).SetFloat64(float64(m.I)).Cmp(m.exact(true)) != 0 {
			res.Count("int64_values_not_representable_as_float64", 1)
		}
	}
	before := handled.n
	lines, _, p := execScenario(sc, c, table, ops, "")
	res.Executed++
	res.Count("expo_scenarios", 1)
	res.Count("expo_class_"+class, 1)
	if c.MaxScale < -10 {
		res.Count("expo_scenarios_maxscale_below_min", 1)
	}
	if handled.n > before {
		res.Count("expo_scenarios_with_scale_underflow_error", 1)
	}
	if p != nil {
		res.AddMismatch(vh.Mismatch{Kind: "panic", Case: map[string]any{"sc": sc, "sub": "expo", "class": class, "cfg": c}, Detail: fmt.Sprint(p), Path: concList(ops)})
		return
	}
	for _, l := range lines {
		if l["ev"] == "New" {
			l["class"] = class
			l["isint"] = c.IsInt
			l["concrete"] = concList(ops)
		}
		if l["ev"] == "Col" {
			o := l["obs"].(EObs)
			if c.NoMinMax && o.Present {
				res.Count("expo_points_nominmax", 1)
			}
			if c.NoSum && o.Present {
				res.Count("expo_points_nosum", 1)
			}
			if o.Present && o.Scale < c.MaxScale {
				res.Count("expo_points_downscaled", 1)
			}
			if o.Present && (len(o.Pos) == c.MaxSize || len(o.Neg) == c.MaxSize) {
				res.Count("expo_points_window_full", 1)
			}
		}
		tw.Emit(l)
	}
	if sc < 2 {
		res.Sample(map[string]any{"cfg": c, "class": class, "values": concList(ops), "lines": lines[1:]})
	}
}

func randomExpl(r *rand.Rand, sc int, tw *vh.TraceWriter, res *vh.Result) {
	c := &Cfg{Kind: "expl", Cum: r.Intn(2) == 0, MaxSize: 1, MaxScale: 0}
	c.NoMinMax = r.Intn(8) == 0
	c.NoSum = r.Intn(8) == 0
	c.Gauge = r.Intn(2) == 0
	c.IsInt = r.Intn(4) == 0
	class := pick(r, "wide", "grid", "neighbours", "neighbours", "quant")
	nb := r.Intn(pick(r, 1, 4, 9, 16))
	bset := map[float64]bool{}
	var bounds []float64
	addB := func(f float64) {
		if f == 0 {
			f = 0 // fold -0
		}
		if math.IsNaN(f) || bset[f] {
			return
		}
		bset[f] = true
		bounds = append(bounds, f)
	}
	if class == "quant" {
		c.Quant = true
		if c.IsInt {
			c.QInt = pick(r, int64(1), 1000, 1<<40)
		} else {
			c.QExp = pick(r, -1074, -1070, -1022, -40, -1, 0, 7, 500, 960)
		}
	}
	q := func(k int) float64 {
		if c.IsInt {
			return float64(int64(k) * c.QInt)
		}
		return math.Ldexp(float64(k), c.QExp)
	}
	for tries := 0; len(bounds) < nb && tries < 100; tries++ {
		switch class {
		case "wide", "neighbours":
			if c.IsInt {
				addB(float64(int64(r.Uint64()) >> uint(r.Intn(64))))
			} else {
				addB(randFinite(r))
			}
		case "grid":
			addB(float64(r.Intn(41) - 20))
		case "quant":
			if c.IsInt || r.Intn(2) == 0 {
				addB(q(r.Intn(2001) - 1000))
			} else {
				addB(q(r.Intn(2001)-1000) + q(1)/2) // half-quantum boundaries (exact unless at the subnormal floor)
			}
		}
	}
	if class != "quant" && r.Intn(4) == 0 {
		addB(math.Inf(-1))
	}
	if class != "quant" && r.Intn(4) == 0 {
		addB(math.Inf(1))
	}
	if class != "quant" && r.Intn(6) == 0 {
		addB(0)
	}
	sort.Float64s(bounds)
	// the configured list must be strictly increasing; keep it sorted (the view rejects anything else)
	c.FBounds = bounds
	genVal := func() (Meas, bool) {
		if c.IsInt {
			var v int64
			switch class {
			case "quant":
				v = int64(r.Intn(2001)-1000) * c.QInt
			case "grid":
				v = int64(r.Intn(45) - 22)
			case "neighbours":
				if len(bounds) == 0 {
					v = int64(r.Uint64())
					break
				}
				b := bounds[r.Intn(len(bounds))]
				if math.IsInf(b, 0) || math.Abs(b) >= 0x1p63 {
					v = int64(r.Uint64())
					break
				}
				v = int64(b) + int64(r.Intn(3)-1)
			default:
				v = int64(r.Uint64()) >> uint(r.Intn(64))
			}
			return Meas{I: v}, true
		}
		var f float64
		switch class {
		case "quant":
			f = q(r.Intn(2001) - 1000)
		case "grid":
			f = float64(r.Intn(90)-45) / 2
		case "neighbours":
			if len(bounds) == 0 {
				f = randFinite(r)
				break
			}
			b := bounds[r.Intn(len(bounds))]
			switch r.Intn(3) {
			case 0:
				f = b
			case 1:
				f = math.Nextafter(b, math.Inf(1))
			default:
				f = math.Nextafter(b, math.Inf(-1))
			}
		default:
			f = randFinite(r)
		}
		if r.Intn(30) == 0 {
			f = pick(r, 0.0, math.Copysign(0, -1), math.MaxFloat64, -math.MaxFloat64, 4.9e-324, -4.9e-324)
			if class == "quant" {
				f = 0
			}
		}
		return Meas{F: f}, !math.IsInf(f, 0) && !math.IsNaN(f)
	}
	ncycles := 1 + r.Intn(3)
	var ops []SOp
	var all []Meas
	for cy := 0; cy < ncycles; cy++ {
		n := r.Intn(pick(r, 3, 8, 20, 60))
		for i := 0; i < n; i++ {
			m, ok := genVal()
			if !ok {
				continue
			}
			ops = append(ops, SOp{M: m})
			all = append(all, m)
		}
		ops = append(ops, SOp{Collect: true, D: randDest(r)})
	}
	var xs []*big.Float
	for _, b := range bounds {
		xs = append(xs, new(big.Float).SetPrec(53).SetFloat64(b))
	}
	for _, m := range all {
		xs = append(xs, m.exact(c.IsInt))
		if c.IsInt {
			xs = append(xs, new(big.Float).SetPrec(53).SetFloat64(float64(m.I)))
		}
	}
	table := buildRanks(xs)
	s := &ScenCtx{table: table}
	c.Bounds = []int{}
	for _, b := range bounds {
		c.Bounds = append(c.Bounds, s.rankOf(new(big.Float).SetPrec(53).SetFloat64(b)))
	}
	for i := range ops {
		if ops[i].Collect {
			continue
		}
		m := ops[i].M
		a := AVal{R: s.rankOf(m.exact(c.IsInt))}
		// placement of an int64 measurement is judged by its float64 conversion (see abstractExpo)
		a.P = s.rankOf(new(big.Float).SetPrec(53).SetFloat64(m.asFloat(c.IsInt)))
		if c.IsInt && a.P != a.R {
			res.Count("int64_values_not_representable_as_float64", 1)
			lo := sort.SearchInts(c.Bounds, min(a.P, a.R))
			hi := sort.SearchInts(c.Bounds, max(a.P, a.R))
			if lo != hi {
				res.Count("int64_rounding_crosses_a_boundary(tolerated)", 1)
			}
		}
		if c.Quant {
			if c.IsInt {
				a.K = m.I / c.QInt
			} else {
				a.K = int64(math.Ldexp(m.F, -c.QExp))
			}
		}
		for _, b := range c.Bounds {
			if b == a.R {
				res.Count("expl_values_on_a_boundary", 1)
			}
		}
		ops[i].A = a
	}
	lines, _, p := execScenario(sc, c, table, ops, "")
	res.Executed++
	res.Count("expl_scenarios", 1)
	res.Count("expl_class_"+class, 1)
	if p != nil {
		res.AddMismatch(vh.Mismatch{Kind: "panic", Case: map[string]any{"sc": sc, "sub": "expl", "class": class, "cfg": c}, Detail: fmt.Sprint(p), Path: concList(ops)})
		return
	}
	for _, l := range lines {
		if l["ev"] == "New" {
			l["class"] = class
			l["isint"] = c.IsInt
			l["concrete"] = concList(ops)
			l["fbounds"] = fmt.Sprint(bounds)
		}
		tw.Emit(l)
	}
	if sc < 4 && sc >= 2 {
		res.Sample(map[string]any{"cfg": c, "class": class, "bounds": fmt.Sprint(bounds), "values": concList(ops), "lines": lines[1:]})
	}
}

func random(args []string) {
	fs := flag.NewFlagSet("random", flag.ExitOnError)
	n := fs.Int("n", 300, "")
	trace := fs.String("trace", "trace.ndjson", "")
	resF := fs.String("res", "result.json", "")
	fs.Parse(args)
	r := rand.New(rand.NewSource(vh.Seed()*7919 + 13))
	tw, err := vh.NewTraceWriter(*trace)
	vh.Must(err)
	res := vh.NewResult()
	for sc := 0; sc < *n; sc++ {
		if sc%4 == 3 {
			randomExpl(r, sc, tw, res)
		} else {
			randomExpo(r, sc, tw, res)
		}
		res.Evaluations++
	}
	vh.Must(tw.Close())
	res.Count("trace_lines", tw.N)
	res.Count("otel_errors_handled", int64(handled.n))
	for k, v := range counters.Counters {
		res.Count(k, v)
	}
	res.Count("harness_sys_mb", sysMB())
	vh.Must(res.Write(*resF))
}

// ---------------------------------------------------------------- probe

// probe reports which named deviations of the specifications the tree under test exhibits, so
// that the implementation-shaped model is checked in the matching mode (FixD1).
func probe() {
	c := &Cfg{Kind: "expo", MaxSize: 1, MaxScale: 20, Cum: true, Bounds: []int{}}
	ops := []SOp{{M: Meas{F: 0.5}}, {M: Meas{F: 4}}}
	_, obs, p := execScenario(0, c, buildRanks([]*big.Float{big.NewFloat(0.5), big.NewFloat(4)}), ops, "fresh")
	var o EObs
	if len(obs) > 0 {
		o, _ = obs[len(obs)-1].(EObs)
	}
	var sum int64
	for _, x := range append(append([]int64{}, o.Pos...), o.Neg...) {
		sum += x
	}
	out := map[string]any{"d1_count_before_underflow_return": p == nil && o.Count != o.Zero+sum, "panic": fmt.Sprint(p), "obs": o}
	b, _ := json.Marshal(out)
	fmt.Println(string(b))
}

func main() {
	otel.SetErrorHandler(handled)
	if len(os.Args) < 2 {
		fmt.Println("usage: c07 probe|replay|random ...")
		os.Exit(3)
	}
	switch os.Args[1] {
	case "probe":
		probe()
	case "replay":
		replay(os.Args[2:])
	case "random":
		random(os.Args[2:])
	case "worlds":
		worlds(os.Args[2:])
	case "routes":
		routesCmd(os.Args[2:]) // routes.go
	default:
		os.Exit(3)
	}
}
