// routes.go: configuration ROUTES and boundary LISTS as input classes (HistModel.tla: Routes,
// ListClass, BoundsAdmitted, HistClausesL; Histogram.tla: Configure).
//
// An aggregation reaches a stream by one of several routes, and only some of them validate it:
//
//	view      sdkmetric.NewView(criteria, Stream{Aggregation: ...})            validates (err())
//	viewfunc  a hand-written func(Instrument) (Stream, bool)                    does NOT validate;
//	          pipeline.aggregateFunc hands Boundaries / MaxSize / MaxScale to aggregate.Builder as they are
//	          (so this route also stands for direct aggregate.Builder use, which a module outside
//	          sdk/metric cannot import)
//	selector  the reader's AggregationSelector                                  validates
//	advisory  metric.WithExplicitBucketBoundaries on the instrument             validates
//
// The boundary list is part of the scenario AS CONFIGURED (any order, duplicates, empty, one
// element); exponential parameters may lie outside their documented ranges. Go executes and
// projects (ranks of the boundaries as REPORTED); whether a point, a refusal or a fallback is
// admissible is decided by Trace_Hist.tla.
package main

import (
	"context"
	"flag"
	"fmt"
	"math"
	"math/big"
	"math/rand"
	"sort"

	"go.opentelemetry.io/otel/metric"
	sdkmetric "go.opentelemetry.io/otel/sdk/metric"
	"go.opentelemetry.io/otel/sdk/metric/metricdata"
	"go.opentelemetry.io/otel/sdk/verifh/vh"
)

var routeNames = []string{"view", "viewfunc", "selector", "advisory"}

// the reader's documented default boundaries for histogram instruments
// (sdkmetric.DefaultAggregationSelector): what a refusing route falls back to
var defaultBounds = []float64{0, 5, 10, 25, 50, 75, 100, 250, 500, 750, 1000, 2500, 5000, 7500, 10000}

func kindOfStream(c *Cfg) sdkmetric.InstrumentKind {
	switch {
	case !c.NoSum:
		return sdkmetric.InstrumentKindHistogram
	case c.Gauge:
		return sdkmetric.InstrumentKindGauge
	}
	return sdkmetric.InstrumentKindUpDownCounter
}

// newRouteRunner builds the provider of a scenario whose aggregation takes route c.Route.
func newRouteRunner(c *Cfg, r *Runner, temp metricdata.Temporality) *Runner {
	agg := aggOf(c)
	ropts := []sdkmetric.ManualReaderOption{sdkmetric.WithTemporalitySelector(
		func(sdkmetric.InstrumentKind) metricdata.Temporality { return temp })}
	var popts []sdkmetric.Option
	switch c.Route {
	case "view":
		popts = append(popts, sdkmetric.WithView(sdkmetric.NewView(sdkmetric.Instrument{Name: "h"}, sdkmetric.Stream{Aggregation: agg})))
	case "viewfunc":
		popts = append(popts, sdkmetric.WithView(func(i sdkmetric.Instrument) (sdkmetric.Stream, bool) {
			if i.Name != "h" {
				return sdkmetric.Stream{}, false
			}
			return sdkmetric.Stream{Name: i.Name, Description: i.Description, Unit: i.Unit, Aggregation: agg}, true
		}))
	case "selector":
		want := kindOfStream(c)
		ropts = append(ropts, sdkmetric.WithAggregationSelector(func(k sdkmetric.InstrumentKind) sdkmetric.Aggregation {
			if k == want {
				return agg
			}
			return sdkmetric.DefaultAggregationSelector(k)
		}))
	case "advisory":
		if c.Kind != "expl" || c.NoSum || c.NoMinMax {
			panic("harness error: the advisory route only carries explicit boundaries of a histogram instrument")
		}
	default:
		panic("harness error: unknown route " + c.Route)
	}
	r.reader = sdkmetric.NewManualReader(ropts...)
	r.mp = sdkmetric.NewMeterProvider(append(popts, sdkmetric.WithReader(r.reader))...)
	m := r.mp.Meter("c07")
	var err error
	switch {
	case c.Route == "advisory" && c.IsInt:
		var h metric.Int64Histogram
		h, err = m.Int64Histogram("h", metric.WithExplicitBucketBoundaries(c.FBounds...))
		r.recI = func(ctx context.Context, v int64) { h.Record(ctx, v) }
	case c.Route == "advisory":
		var h metric.Float64Histogram
		h, err = m.Float64Histogram("h", metric.WithExplicitBucketBoundaries(c.FBounds...))
		r.recF = func(ctx context.Context, v float64) { h.Record(ctx, v) }
	case !c.NoSum && c.IsInt:
		var h metric.Int64Histogram
		h, err = m.Int64Histogram("h")
		r.recI = func(ctx context.Context, v int64) { h.Record(ctx, v) }
	case !c.NoSum:
		var h metric.Float64Histogram
		h, err = m.Float64Histogram("h")
		r.recF = func(ctx context.Context, v float64) { h.Record(ctx, v) }
	case c.Gauge && c.IsInt:
		var h metric.Int64Gauge
		h, err = m.Int64Gauge("h")
		r.recI = func(ctx context.Context, v int64) { h.Record(ctx, v) }
	case c.Gauge:
		var h metric.Float64Gauge
		h, err = m.Float64Gauge("h")
		r.recF = func(ctx context.Context, v float64) { h.Record(ctx, v) }
	case c.IsInt:
		var h metric.Int64UpDownCounter
		h, err = m.Int64UpDownCounter("h")
		r.recI = func(ctx context.Context, v int64) { h.Add(ctx, v) }
	default:
		var h metric.Float64UpDownCounter
		h, err = m.Float64UpDownCounter("h")
		r.recF = func(ctx context.Context, v float64) { h.Add(ctx, v) }
	}
	if err != nil {
		c.refused = true // the SDK told the caller that it does not use the configuration
		counters.Count("route_creation_errors", 1)
	}
	return r
}

// ---------------------------------------------------------------- seeded scenarios: lists x routes (code -> spec)

// listOf arranges the distinct increasing boundaries bs into a configured list of the class.
func listOf(r *rand.Rand, class string, bs []float64) []float64 {
	out := append([]float64(nil), bs...)
	switch class {
	case "reversed":
		for i, j := 0, len(out)-1; i < j; i, j = i+1, j-1 {
			out[i], out[j] = out[j], out[i]
		}
	case "shuffled":
		for tries := 0; tries < 8; tries++ {
			r.Shuffle(len(out), func(i, j int) { out[i], out[j] = out[j], out[i] })
			if !sort.Float64sAreSorted(out) {
				break
			}
		}
	case "rotated": // increasing except for one descent (what a binary search tolerates longest)
		if len(out) > 1 {
			k := 1 + r.Intn(len(out)-1)
			out = append(append([]float64(nil), out[k:]...), out[:k]...)
		}
	case "duplicates": // still ordered
		if len(out) > 0 {
			k := r.Intn(len(out))
			out = append(out[:k+1], out[k:]...)
		}
	case "duplicates-unordered":
		if len(out) > 0 {
			out = append(out, out[r.Intn(len(out))])
			r.Shuffle(len(out), func(i, j int) { out[i], out[j] = out[j], out[i] })
		}
	}
	return out
}

func bf(f float64) *big.Float { return new(big.Float).SetPrec(53).SetFloat64(f) }

func randomList(r *rand.Rand, sc int, tw *vh.TraceWriter, res *vh.Result) {
	c := &Cfg{Kind: "expl", Cum: r.Intn(2) == 0, MaxSize: 1, MaxScale: 0}
	c.Route = routeNames[(sc/2)%len(routeNames)]
	if c.Route != "advisory" {
		c.NoMinMax = r.Intn(6) == 0
		c.NoSum = r.Intn(6) == 0
	}
	c.Gauge = r.Intn(2) == 0
	c.IsInt = r.Intn(3) == 0
	grid := c.IsInt || r.Intn(2) == 0
	lclass := pick(r, "increasing", "reversed", "shuffled", "rotated", "duplicates", "duplicates-unordered", "reversed", "shuffled")
	nb := pick(r, 0, 1, 2, 2, 3, 4, 5, 8, 15)
	set := map[float64]bool{}
	var bs []float64
	for tries := 0; len(bs) < nb && tries < 200; tries++ {
		var f float64
		switch {
		case grid && r.Intn(3) == 0:
			f = defaultBounds[r.Intn(len(defaultBounds))] + float64(r.Intn(3)-1)
		case grid:
			f = float64(r.Intn(61) - 30)
		case r.Intn(4) == 0:
			f = pick(r, math.Inf(-1), math.Inf(1), 0, 5, 1e-310, -1e300, 10000)
		default:
			f = randFinite(r)
		}
		if f == 0 {
			f = 0
		}
		if !set[f] {
			set[f] = true
			bs = append(bs, f)
		}
	}
	sort.Float64s(bs)
	c.FBounds = listOf(r, lclass, bs)
	if c.FBounds == nil {
		c.FBounds = []float64{}
	}
	if grid {
		c.Quant, c.QExp, c.QInt = true, 0, 1
	}
	around := append(append([]float64(nil), bs...), defaultBounds...)
	genVal := func() (Meas, bool) {
		b := around[r.Intn(len(around))]
		if c.IsInt {
			if math.IsInf(b, 0) || math.Abs(b) > 1e15 {
				b = 0
			}
			return Meas{I: int64(b) + int64(r.Intn(5)-2)}, true
		}
		var f float64
		switch {
		case grid:
			if math.IsInf(b, 0) || math.Abs(b) > 1e15 {
				b = 0
			}
			f = math.Trunc(b) + float64(r.Intn(5)-2)
		case r.Intn(4) == 0:
			f = randFinite(r)
		default:
			f = pick(r, b, math.Nextafter(b, math.Inf(1)), math.Nextafter(b, math.Inf(-1)))
		}
		return Meas{F: f}, !math.IsInf(f, 0) && !math.IsNaN(f)
	}
	var ops []SOp
	var all []Meas
	for cy, ncy := 0, 1+r.Intn(3); cy < ncy; cy++ {
		for i, n := 0, r.Intn(pick(r, 4, 10, 30)); i < n; i++ {
			if m, ok := genVal(); ok {
				ops = append(ops, SOp{M: m})
				all = append(all, m)
			}
		}
		ops = append(ops, SOp{Collect: true, D: randDest(r)})
	}
	var xs []*big.Float
	for _, b := range c.FBounds {
		xs = append(xs, bf(b))
	}
	for _, b := range defaultBounds {
		xs = append(xs, bf(b))
	}
	for _, m := range all {
		xs = append(xs, m.exact(c.IsInt), bf(m.asFloat(c.IsInt)))
	}
	table := buildRanks(xs)
	s := &ScenCtx{table: table}
	c.Bounds, c.CBounds, c.Fallback = []int{}, []int{}, []int{}
	for _, b := range bs {
		c.Bounds = append(c.Bounds, s.rankOf(bf(b)))
	}
	for _, b := range c.FBounds {
		c.CBounds = append(c.CBounds, s.rankOf(bf(b)))
	}
	if !c.NoSum { // a histogram instrument falls back to the default boundaries, other kinds to another aggregation
		for _, b := range defaultBounds {
			c.Fallback = append(c.Fallback, s.rankOf(bf(b)))
		}
	}
	for i := range ops {
		if ops[i].Collect {
			continue
		}
		m := ops[i].M
		a := AVal{R: s.rankOf(m.exact(c.IsInt)), P: s.rankOf(bf(m.asFloat(c.IsInt)))}
		if c.Quant {
			if c.IsInt {
				a.K = m.I
			} else {
				a.K = int64(m.F)
			}
		}
		ops[i].A = a
	}
	lines, _, p := execScenario(sc, c, table, ops, "")
	res.Executed++
	res.Count("list_scenarios", 1)
	res.Count("list_class_"+lclass, 1)
	res.Count("list_route_"+c.Route, 1)
	if p != nil {
		res.AddMismatch(vh.Mismatch{Kind: "panic", Case: map[string]any{"sc": sc, "sub": "expl", "route": c.Route, "list": lclass, "cfg": c},
			Detail: fmt.Sprint(p), Path: concList(ops)})
		return
	}
	for _, l := range lines {
		if l["ev"] == "New" {
			l["class"] = lclass
			l["isint"] = c.IsInt
			l["concrete"] = concList(ops)
			l["fbounds"] = fmt.Sprint(c.FBounds)
		}
		if l["ev"] == "Col" {
			o := l["obs"].(HObs)
			switch {
			case o.Shape == "rejected":
				res.Count("list_points_refused", 1)
			case o.Present && len(o.Bounds) == len(c.Fallback) && len(c.CBounds) != len(c.Fallback):
				res.Count("list_points_with_fallback_boundaries", 1)
			case o.Present && !sort.IntsAreSorted(c.CBounds):
				res.Count("list_points_from_unordered_list", 1)
			case o.Present:
				res.Count("list_points_from_ordered_list", 1)
			}
		}
		tw.Emit(l)
	}
	if sc%97 == 5 {
		res.Sample(map[string]any{"cfg": c, "list": lclass, "fbounds": fmt.Sprint(c.FBounds), "values": concList(ops), "lines": lines[1:]})
	}
}

func routesCmd(args []string) {
	fs := flag.NewFlagSet("routes", flag.ExitOnError)
	n := fs.Int("n", 300, "")
	trace := fs.String("trace", "routes.ndjson", "")
	resF := fs.String("res", "routes.json", "")
	fs.Parse(args)
	r := rand.New(rand.NewSource(vh.Seed()*104729 + 71))
	tw, err := vh.NewTraceWriter(*trace)
	vh.Must(err)
	res := vh.NewResult()
	for sc := 0; sc < *n; sc++ {
		if sc%4 == 3 {
			randomXExpo(r, sc, tw, res)
		} else {
			randomList(r, sc, tw, res)
		}
		res.Evaluations++
	}
	vh.Must(tw.Close())
	res.Count("trace_lines", tw.N)
	res.Count("otel_errors_handled", int64(handled.n))
	for k, v := range counters.Counters {
		res.Count(k, v)
	}
	res.Count("harness_sys_mb", sysMB())
	vh.Must(res.Write(*resF))
}

// ---------------------------------------------------------------- exponential parameters x routes

// randomXExpo: an exponential histogram whose (MaxSize, MaxScale) reach the stream by one of the
// routes, half of the time with a parameter outside its documented range (MaxScale in -10..20,
// MaxSize > 0). Trace_Hist admits a refusal (ExpoOutOfRange) or a point that satisfies every
// clause for the parameters clamped into their ranges.
func randomXExpo(r *rand.Rand, sc int, tw *vh.TraceWriter, res *vh.Result) {
	c := &Cfg{Kind: "expo", Cum: r.Intn(2) == 0, Bounds: []int{}}
	c.Route = routeNames[(sc/4)%3] // view, viewfunc, selector
	c.NoMinMax = r.Intn(6) == 0
	c.NoSum = r.Intn(6) == 0
	c.Gauge = r.Intn(2) == 0
	c.MaxSize = pick(r, 1, 2, 3, 4, 8, 160)
	c.MaxScale = r.Intn(31) - 10
	xclass := "in-range"
	if r.Intn(2) == 0 {
		xclass = pick(r, "maxscale>20", "maxscale<-10", "maxsize<=0", "maxsize-large")
		switch xclass {
		case "maxscale>20":
			c.MaxScale = pick(r, 21, 22, 25, 31, 32, 64, 100, math.MaxInt32)
		case "maxscale<-10":
			c.MaxScale = pick(r, -11, -12, -20, -31, -32, -64, -100, math.MinInt32)
		case "maxsize<=0":
			c.MaxSize = pick(r, 0, 0, -1, -5)
		default:
			c.MaxSize = 1000
		}
	}
	class := pick(r, "wide", "narrow", "narrow", "pow2")
	c.Class = class
	var ops []SOp
	var all []Meas
	for cy, ncy := 0, 1+r.Intn(2); cy < ncy; cy++ {
		ms := genExpoValues(r, class, r.Intn(pick(r, 3, 8, 20)), &Cfg{Kind: "expo", MaxSize: 4, MaxScale: 20})
		for _, m := range ms {
			ops = append(ops, SOp{M: m})
		}
		all = append(all, ms...)
		ops = append(ops, SOp{Collect: true, D: randDest(r)})
	}
	xs := make([]*big.Float, len(all))
	for i, m := range all {
		xs[i] = m.exact(false)
	}
	table := buildRanks(xs)
	s := &ScenCtx{table: table}
	for i := range ops {
		if ops[i].Collect {
			continue
		}
		a := abstractExpo(ops[i].M, false)
		a.R = s.rankOf(ops[i].M.exact(false))
		a.P = a.R
		ops[i].A = a
	}
	lines, _, p := execScenario(sc, c, table, ops, "")
	res.Executed++
	res.Count("xexpo_scenarios", 1)
	res.Count("xexpo_"+xclass, 1)
	res.Count("xexpo_route_"+c.Route, 1)
	if p != nil {
		res.AddMismatch(vh.Mismatch{Kind: "panic", Case: map[string]any{"sc": sc, "sub": "expo", "route": c.Route, "xclass": xclass, "cfg": c},
			Detail: fmt.Sprint(p), Path: concList(ops)})
		return
	}
	for _, l := range lines {
		if l["ev"] == "New" {
			l["class"] = class
			l["xclass"] = xclass
			l["isint"] = false
			l["concrete"] = concList(ops)
		}
		if l["ev"] == "Col" {
			if o := l["obs"].(EObs); o.Shape == "rejected" {
				res.Count("xexpo_points_refused", 1)
			} else if o.Present {
				res.Count("xexpo_points_"+xclass, 1)
			}
		}
		tw.Emit(l)
	}
}
