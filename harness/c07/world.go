// world.go: collection HISTORIES with re-used destinations (code -> spec, property C07).
//
// A world is one MeterProvider with 1..3 readers (manual readers and periodic readers with a
// capturing exporter; temporality and default aggregation chosen per instrument kind and per
// reader), 1..3 meters and 2..5 streams (int64 / float64 histograms, up-down counters and
// gauges aggregated as histograms = streams without a sum, a plain counter as a slot filler),
// each with 1..3 attribute sets. Aggregations (explicit boundaries of different lengths,
// exponential MaxSize / MaxScale, NoMinMax) come from a view (same for every reader) or from
// the reader's selector (different per reader). Cycles record into a random subset of the
// streams (delta streams report nothing in between, so slots shift; scopes are walked in map
// order, so they swap) and collect: into one of two ResourceMetrics shared by ALL readers,
// into fresh memory, or through the periodic reader's pool (ForceFlush -> Export).
//
// The history of every (reader, stream, attribute set) is de-interleaved into its own scenario
// of Trace_Hist.tla: every reported point is validated against the contract exactly like the
// points of the single-stream scenarios, the Col line says what the very slot held before
// (nothing / same kind with more, fewer, other-sign buckets / another kind / the other number
// type), and every point reported into a destination that is not handed to a collection again
// is fingerprinted again later (Chk): it must not have changed.
package main

import (
	"context"
	"encoding/json"
	"flag"
	"fmt"
	"math"
	"math/big"
	"math/rand"
	"os"
	"sort"
	"time"

	"go.opentelemetry.io/otel/attribute"
	"go.opentelemetry.io/otel/metric"
	sdkmetric "go.opentelemetry.io/otel/sdk/metric"
	"go.opentelemetry.io/otel/sdk/metric/metricdata"
	"go.opentelemetry.io/otel/sdk/verifh/vh"
)

type aggSpec struct {
	Kind     string    `json:"kind"` // "expo" | "expl"
	MaxSize  int       `json:"maxsize"`
	MaxScale int       `json:"maxscale"`
	NB       int       `json:"nb"` // wanted number of boundaries
	FBounds  []float64 `json:"-"`
	NoMinMax bool      `json:"nominmax"`
	Bounds   string    `json:"bounds"`
}

type streamSpec struct {
	Name  string   `json:"name"`
	Meter int      `json:"meter"`
	Inst  string   `json:"inst"` // hist | updown | gauge | counter (filler, default sum aggregation, not validated)
	IsInt bool     `json:"isint"`
	View  *aggSpec `json:"view"` // nil: the reader's aggregation selector decides
	NAttr int      `json:"nattr"`
	Class string   `json:"class"`
	Quant bool     `json:"quant"`
	QExp  int      `json:"qexp"`
	QInt  int64    `json:"qint"`

	vals  []Meas // every measurement of the world (for the rank table)
	table []ranked
}

type readerSpec struct {
	Periodic bool                `json:"periodic"`
	Cum      map[string]bool     `json:"cum"` // by instrument kind
	Agg      map[string]*aggSpec `json:"agg"` // by instrument kind (aggregation selector)

	col interface {
		Collect(context.Context, *metricdata.ResourceMetrics) error
	}
	pr *sdkmetric.PeriodicReader
}

type wop struct {
	Kind string // rec | col | flush
	S, A int
	M    Meas
	AV   AVal
	R    int
	Dest int // col: -1 fresh, 0.. shared destination
}

func (o wop) String() string {
	switch o.Kind {
	case "rec":
		return fmt.Sprintf("rec s%d a%d %g/%d", o.S, o.A, o.M.F, o.M.I)
	case "col":
		if o.Dest < 0 {
			return fmt.Sprintf("col r%d -> fresh", o.R)
		}
		return fmt.Sprintf("col r%d -> shared%d", o.R, o.Dest)
	}
	return fmt.Sprintf("flush r%d (pool)", o.R)
}

var instKinds = map[sdkmetric.InstrumentKind]string{
	sdkmetric.InstrumentKindHistogram: "hist", sdkmetric.InstrumentKindUpDownCounter: "updown",
	sdkmetric.InstrumentKindGauge: "gauge", sdkmetric.InstrumentKindCounter: "counter",
}

func (a *aggSpec) aggregation() sdkmetric.Aggregation {
	if a.Kind == "expo" {
		return sdkmetric.AggregationBase2ExponentialHistogram{MaxSize: int32(a.MaxSize), MaxScale: int32(a.MaxScale), NoMinMax: a.NoMinMax}
	}
	return sdkmetric.AggregationExplicitBucketHistogram{Boundaries: a.FBounds, NoMinMax: a.NoMinMax}
}

func randAgg(r *rand.Rand) *aggSpec {
	a := &aggSpec{NoMinMax: r.Intn(4) == 0}
	if r.Intn(2) == 0 {
		a.Kind = "expo"
		a.MaxSize = pick(r, 1, 2, 3, 4, 5, 8, 20, 160)
		a.MaxScale = pick(r, 20, 20, 20, 8, 3, 0, -3, -10)
	} else {
		a.Kind = "expl"
		a.MaxSize, a.MaxScale = 1, 0
		a.NB = pick(r, 0, 1, 2, 3, 5, 8, 15)
	}
	return a
}

// capExporter is the exporter of a periodic reader: selectors of its reader spec, Export hands
// the ResourceMetrics (pool memory) to the world.
type capExporter struct {
	rs       *readerSpec
	onExport func(*metricdata.ResourceMetrics)
}

func (e *capExporter) Temporality(k sdkmetric.InstrumentKind) metricdata.Temporality {
	return e.rs.temporality(k)
}
func (e *capExporter) Aggregation(k sdkmetric.InstrumentKind) sdkmetric.Aggregation {
	return e.rs.aggregation(k)
}
func (e *capExporter) Export(_ context.Context, rm *metricdata.ResourceMetrics) error {
	e.onExport(rm)
	return nil
}
func (e *capExporter) ForceFlush(context.Context) error { return nil }
func (e *capExporter) Shutdown(context.Context) error   { return nil }

func (rs *readerSpec) temporality(k sdkmetric.InstrumentKind) metricdata.Temporality {
	if cum, ok := rs.Cum[instKinds[k]]; ok && !cum {
		return metricdata.DeltaTemporality
	}
	return metricdata.CumulativeTemporality
}

func (rs *readerSpec) aggregation(k sdkmetric.InstrumentKind) sdkmetric.Aggregation {
	if a, ok := rs.Agg[instKinds[k]]; ok {
		return a.aggregation()
	}
	return sdkmetric.DefaultAggregationSelector(k)
}

// ---------------------------------------------------------------- what a destination slot held before

type dpShape struct{ p, n int } // explicit: p = len(BucketCounts), n = -1; exponential: len(pos), len(neg)

type metricShape struct {
	kind string // hist | expo | sum | gauge | none | other
	num  string // f | i
	dps  []dpShape
}

func shapeHist[N int64 | float64](h metricdata.Histogram[N]) []dpShape {
	var out []dpShape
	for _, dp := range h.DataPoints[:cap(h.DataPoints)] {
		out = append(out, dpShape{len(dp.BucketCounts), -1})
	}
	return out
}

func shapeExpo[N int64 | float64](h metricdata.ExponentialHistogram[N]) []dpShape {
	var out []dpShape
	for _, dp := range h.DataPoints[:cap(h.DataPoints)] {
		out = append(out, dpShape{len(dp.PositiveBucket.Counts), len(dp.NegativeBucket.Counts)})
	}
	return out
}

// snapshotRM records, over the full CAPACITY of every slice (that is what a collection may
// re-use), what kind of aggregation and how many buckets each slot holds.
func snapshotRM(rm *metricdata.ResourceMetrics) [][]metricShape {
	var out [][]metricShape
	for _, sm := range rm.ScopeMetrics[:cap(rm.ScopeMetrics)] {
		var row []metricShape
		for _, m := range sm.Metrics[:cap(sm.Metrics)] {
			ms := metricShape{kind: "other"}
			switch h := m.Data.(type) {
			case nil:
				ms.kind = "none"
			case metricdata.Histogram[float64]:
				ms = metricShape{"hist", "f", shapeHist(h)}
			case metricdata.Histogram[int64]:
				ms = metricShape{"hist", "i", shapeHist(h)}
			case metricdata.ExponentialHistogram[float64]:
				ms = metricShape{"expo", "f", shapeExpo(h)}
			case metricdata.ExponentialHistogram[int64]:
				ms = metricShape{"expo", "i", shapeExpo(h)}
			case metricdata.Sum[float64], metricdata.Sum[int64]:
				ms.kind = "sum"
			case metricdata.Gauge[float64], metricdata.Gauge[int64]:
				ms.kind = "gauge"
			}
			row = append(row, ms)
		}
		out = append(out, row)
	}
	return out
}

// occupant classifies the previous content of slot (i, j, k) relative to the point now there.
func occupant(prev [][]metricShape, i, j, k int, kind, num string, now dpShape) string {
	if i >= len(prev) || j >= len(prev[i]) {
		return "new-slot"
	}
	p := prev[i][j]
	switch {
	case p.kind == "none":
		return "empty-slot"
	case p.kind != kind:
		return "other-kind"
	case p.num != num:
		return "other-num"
	case k >= len(p.dps):
		return "same-kind-new-point"
	}
	o := p.dps[k]
	switch {
	case (o.p > 0 && now.p == 0) || (o.n > 0 && now.n == 0):
		return "other-sign"
	case o.p > now.p || o.n > now.n:
		return "more-buckets"
	case o.p < now.p || o.n < now.n:
		return "fewer-buckets"
	}
	return "same-shape"
}

// ---------------------------------------------------------------- locating and projecting one pair's point

type found struct {
	obs     any
	fp      string
	i, j, k int
	kind    string
	num     string
	shape   dpShape
	present bool
}

func attrIs(set attribute.Set, a int) bool {
	v, ok := set.Value("a")
	return ok && v.AsInt64() == int64(a)
}

func findHist[N int64 | float64](s *ScenCtx, h metricdata.Histogram[N], a int, isInt bool, shape string, f *found) {
	if (any(N(0)) == any(int64(0))) != isInt {
		shape = "number type"
	}
	n := 0
	for k, dp := range h.DataPoints {
		if attrIs(dp.Attributes, a) {
			n++
			f.k, f.present = k, true
			f.shape = dpShape{len(dp.BucketCounts), -1}
		}
	}
	if n == 0 {
		f.obs, f.fp = absentH(shape), "absent"
		return
	}
	if n > 1 {
		shape = "duplicate data point"
	}
	f.obs, f.fp = projectHistDP(s, h.DataPoints[f.k], h.Temporality, shape), fpHistDP(h.DataPoints[f.k])
}

func findExpo[N int64 | float64](s *ScenCtx, h metricdata.ExponentialHistogram[N], a int, isInt bool, shape string, f *found) {
	if (any(N(0)) == any(int64(0))) != isInt {
		shape = "number type"
	}
	n := 0
	for k, dp := range h.DataPoints {
		if attrIs(dp.Attributes, a) {
			n++
			f.k, f.present = k, true
			f.shape = dpShape{len(dp.PositiveBucket.Counts), len(dp.NegativeBucket.Counts)}
		}
	}
	if n == 0 {
		f.obs, f.fp = absentE(shape), "absent"
		return
	}
	if n > 1 {
		shape = "duplicate data point"
	}
	f.obs, f.fp = projectExpoDP(s, h.DataPoints[f.k], h.Temporality, shape), fpExpoDP(h.DataPoints[f.k])
}

// locate finds the point of (scope, metric name, attribute set a) in rm and projects it.
func locate(s *ScenCtx, rm *metricdata.ResourceMetrics, scope, name string, a int) found {
	f := found{i: -1, j: -1, k: -1}
	shape := "ok"
	var data metricdata.Aggregation
	n := 0
	for i, sm := range rm.ScopeMetrics {
		if sm.Scope.Name != scope {
			continue
		}
		for j, m := range sm.Metrics {
			if m.Name == name {
				n++
				f.i, f.j, data = i, j, m.Data
			}
		}
	}
	if n > 1 {
		shape = "duplicate metric"
	}
	expo := s.cfg.Kind == "expo"
	f.kind, f.num = map[bool]string{true: "expo", false: "hist"}[expo], map[bool]string{true: "i", false: "f"}[s.cfg.IsInt]
	switch h := data.(type) {
	case nil:
	case metricdata.Histogram[float64]:
		if !expo {
			findHist(s, h, a, s.cfg.IsInt, shape, &f)
			return f
		}
		shape = fmt.Sprintf("aggregation %T", data)
	case metricdata.Histogram[int64]:
		if !expo {
			findHist(s, h, a, s.cfg.IsInt, shape, &f)
			return f
		}
		shape = fmt.Sprintf("aggregation %T", data)
	case metricdata.ExponentialHistogram[float64]:
		if expo {
			findExpo(s, h, a, s.cfg.IsInt, shape, &f)
			return f
		}
		shape = fmt.Sprintf("aggregation %T", data)
	case metricdata.ExponentialHistogram[int64]:
		if expo {
			findExpo(s, h, a, s.cfg.IsInt, shape, &f)
			return f
		}
		shape = fmt.Sprintf("aggregation %T", data)
	default:
		shape = fmt.Sprintf("aggregation %T", data)
	}
	if expo {
		f.obs = absentE(shape)
	} else {
		f.obs = absentH(shape)
	}
	f.fp = "absent"
	return f
}

func (o EObs) shapeOK() bool { return o.Shape == "ok" }
func (o HObs) shapeOK() bool { return o.Shape == "ok" }

// ---------------------------------------------------------------- one world

type pairState struct {
	r, s, a int
	sctx    *ScenCtx
	lines   []map[string]any
	pending []AVal
	ncol    int
}

type liveRef struct {
	p    *pairState
	k    int
	fp   string
	dest string
}

type liveDest struct {
	rm   *metricdata.ResourceMetrics
	refs []liveRef
}

type worldDesc struct {
	World   int           `json:"world"`
	Meters  int           `json:"meters"`
	Streams []*streamSpec `json:"streams"`
	Readers []*readerSpec `json:"readers"`
	Ops     []string      `json:"ops"`
}

func foldZero(f float64) float64 {
	if f == 0 {
		return 0
	}
	return f
}

// chooseBounds fills the concrete boundaries of an explicit aggregation from the measurements
// of the streams it applies to (values themselves, their float neighbours, midpoints), so that
// the buckets are really populated; occasionally +-Inf ends and unrelated values.
func chooseBounds(r *rand.Rand, a *aggSpec, streams []*streamSpec) {
	if a.Kind != "expl" {
		return
	}
	var pool []float64
	quant := true
	for _, s := range streams {
		quant = quant && s.Quant
		for _, m := range s.vals {
			pool = append(pool, m.asFloat(s.IsInt))
		}
	}
	set := map[float64]bool{}
	for tries := 0; len(set) < a.NB && tries < 200; tries++ {
		var f float64
		switch {
		case len(pool) == 0 || (!quant && r.Intn(8) == 0):
			f = pick(r, float64(r.Intn(41)-20), randFinite(r), math.Inf(1), math.Inf(-1))
			if quant && len(pool) > 0 {
				continue
			}
		default:
			f = pool[r.Intn(len(pool))]
			switch r.Intn(4) {
			case 0:
				if !quant {
					f = math.Nextafter(f, math.Inf(1))
				}
			case 1:
				if !quant {
					f = math.Nextafter(f, math.Inf(-1))
				}
			case 2:
				g := pool[r.Intn(len(pool))]
				if m := f/2 + g/2; !quant || m*2 == f+g {
					f = m
				}
			}
		}
		if math.IsNaN(f) {
			continue
		}
		set[foldZero(f)] = true
	}
	a.FBounds = a.FBounds[:0]
	for f := range set {
		a.FBounds = append(a.FBounds, f)
	}
	sort.Float64s(a.FBounds)
	a.Bounds = fmt.Sprint(a.FBounds)
}

func aggFor(rs *readerSpec, s *streamSpec) *aggSpec {
	if s.View != nil {
		return s.View
	}
	return rs.Agg[s.Inst]
}

func runWorld(r *rand.Rand, w int, scBase *int, tw *vh.TraceWriter, res *vh.Result) (desc *worldDesc) {
	ctx := context.Background()
	// ------------------------------------------------------------ structure
	nMeters := pick(r, 1, 1, 2, 2, 3)
	nStreams := 2 + r.Intn(4)
	var streams []*streamSpec
	validated := 0
	for i := 0; i < nStreams; i++ {
		s := &streamSpec{Name: fmt.Sprintf("s%d", i), Meter: r.Intn(nMeters), NAttr: pick(r, 1, 1, 2, 3)}
		s.Inst = pick(r, "hist", "hist", "hist", "hist", "updown", "gauge", "counter")
		if i == nStreams-1 && validated == 0 {
			s.Inst = "hist"
		}
		s.IsInt = r.Intn(3) == 0
		if s.Inst != "counter" {
			validated++
			if r.Intn(2) == 0 {
				s.View = randAgg(r)
			}
		}
		if s.IsInt {
			s.Class = pick(r, "int-small", "int-small", "int-wide", "int-pow2")
			if s.Class == "int-small" {
				s.Quant, s.QInt = true, pick(r, int64(1), 1, 1000, 1<<40)
			}
		} else {
			s.Class = pick(r, "quant", "quant", "narrow", "pow2narrow", "wide", "underflow")
			if s.Class == "quant" {
				s.Quant, s.QExp = true, pick(r, -1074, -1022, -20, -1, 0, 0, 3, 500, 960)
			}
		}
		streams = append(streams, s)
	}
	nReaders := pick(r, 1, 1, 2, 2, 3)
	var readers []*readerSpec
	for i := 0; i < nReaders; i++ {
		rs := &readerSpec{Periodic: r.Intn(4) == 0, Cum: map[string]bool{}, Agg: map[string]*aggSpec{}}
		for _, k := range []string{"hist", "updown", "gauge", "counter"} {
			rs.Cum[k] = r.Intn(2) == 0
			if k != "counter" {
				rs.Agg[k] = randAgg(r)
			}
		}
		readers = append(readers, rs)
	}
	const nShared = 2
	// ------------------------------------------------------------ operations
	var ops []wop
	active := make([]int, nStreams)
	for i := range active {
		active[i] = pick(r, 30, 60, 90)
	}
	nCycles := 3 + r.Intn(6)
	for cy := 0; cy < nCycles; cy++ {
		for si, s := range streams {
			if r.Intn(100) >= active[si] {
				continue
			}
			for a := 0; a < s.NAttr; a++ {
				if r.Intn(10) >= 7 {
					continue
				}
				n := r.Intn(pick(r, 2, 4, 8)) + 1
				c := &Cfg{QExp: s.QExp, QInt: s.QInt, MaxSize: 2}
				var ms []Meas
				if s.IsInt {
					ms = genIntValues(r, s.Class, n, c)
				} else {
					ms = genExpoValues(r, s.Class, n, c)
				}
				for _, m := range ms {
					if s.Inst == "counter" { // monotonic filler: non-negative increments
						m = Meas{F: math.Mod(math.Abs(m.F), 1e6), I: (m.I >> 1) & 0xffff}
					}
					ops = append(ops, wop{Kind: "rec", S: si, A: a, M: m})
					s.vals = append(s.vals, m)
				}
			}
		}
		for k := 1 + r.Intn(3); k > 0; k-- {
			ri := r.Intn(nReaders)
			o := wop{Kind: "col", R: ri, Dest: pick(r, 0, 0, 0, 1, 1, -1)}
			if readers[ri].Periodic && r.Intn(3) != 0 {
				o.Kind = "flush"
			}
			ops = append(ops, o)
		}
	}
	// ------------------------------------------------------------ boundaries, rank tables, abstract values
	for _, s := range streams {
		if s.View != nil {
			chooseBounds(r, s.View, []*streamSpec{s})
		}
	}
	for _, rs := range readers {
		for _, k := range []string{"hist", "updown", "gauge"} {
			var apply []*streamSpec
			for _, s := range streams {
				if s.Inst == k && s.View == nil {
					apply = append(apply, s)
				}
			}
			chooseBounds(r, rs.Agg[k], apply)
		}
	}
	for _, s := range streams {
		if s.Inst == "counter" {
			continue
		}
		var xs []*big.Float
		for _, m := range s.vals {
			xs = append(xs, m.exact(s.IsInt))
			if s.IsInt {
				xs = append(xs, new(big.Float).SetPrec(53).SetFloat64(float64(m.I)))
			}
		}
		for _, rs := range readers {
			for _, b := range aggFor(rs, s).FBounds {
				xs = append(xs, new(big.Float).SetPrec(53).SetFloat64(b))
			}
		}
		s.table = buildRanks(xs)
	}
	for i := range ops {
		o := &ops[i]
		s := streams[o.S]
		if o.Kind != "rec" || s.Inst == "counter" {
			continue
		}
		t := &ScenCtx{table: s.table}
		a := abstractExpo(o.M, s.IsInt)
		a.R = t.rankOf(o.M.exact(s.IsInt))
		a.P = t.rankOf(new(big.Float).SetPrec(53).SetFloat64(o.M.asFloat(s.IsInt)))
		if s.Quant {
			if s.IsInt {
				a.K = o.M.I / s.QInt
			} else {
				a.K = int64(math.Ldexp(o.M.F, -s.QExp))
			}
		}
		o.AV = a
	}
	desc = &worldDesc{World: w, Meters: nMeters, Streams: streams, Readers: readers, Ops: []string{}}
	for _, o := range ops {
		desc.Ops = append(desc.Ops, o.String())
	}
	if progressLen >= 0 {
		dj, _ := json.Marshal(desc)
		progress("world ", w, " ", string(dj))
	}
	// ------------------------------------------------------------ pairs (one Trace_Hist scenario each)
	var pairs []*pairState
	byRS := map[[2]int][]*pairState{}
	for ri, rs := range readers {
		for si, s := range streams {
			if s.Inst == "counter" {
				continue
			}
			ag := aggFor(rs, s)
			for a := 0; a < s.NAttr; a++ {
				c := &Cfg{Kind: ag.Kind, MaxSize: ag.MaxSize, MaxScale: ag.MaxScale, Cum: rs.Cum[s.Inst], Quant: s.Quant,
					Bounds: []int{}, NoSum: s.Inst != "hist", NoMinMax: ag.NoMinMax, IsInt: s.IsInt, FBounds: ag.FBounds,
					QExp: s.QExp, QInt: s.QInt, Class: s.Class}
				t := &ScenCtx{cfg: c, table: s.table}
				if ag.Kind == "expl" {
					for _, b := range ag.FBounds {
						c.Bounds = append(c.Bounds, t.rankOf(new(big.Float).SetPrec(53).SetFloat64(b)))
					}
				}
				p := &pairState{r: ri, s: si, a: a, sctx: t, pending: []AVal{}}
				pairs = append(pairs, p)
				byRS[[2]int{ri, si}] = append(byRS[[2]int{ri, si}], p)
			}
		}
	}
	// ------------------------------------------------------------ the real provider
	closing := false
	var onExport func(ri int, rm *metricdata.ResourceMetrics)
	opts := []sdkmetric.Option{}
	for ri, rs := range readers {
		ri, rs := ri, rs
		if rs.Periodic {
			exp := &capExporter{rs: rs, onExport: func(rm *metricdata.ResourceMetrics) {
				if !closing {
					onExport(ri, rm)
				}
			}}
			rs.pr = sdkmetric.NewPeriodicReader(exp, sdkmetric.WithInterval(24*time.Hour), sdkmetric.WithTimeout(10*time.Minute))
			rs.col = rs.pr
			opts = append(opts, sdkmetric.WithReader(rs.pr))
		} else {
			mr := sdkmetric.NewManualReader(sdkmetric.WithTemporalitySelector(rs.temporality), sdkmetric.WithAggregationSelector(rs.aggregation))
			rs.col = mr
			opts = append(opts, sdkmetric.WithReader(mr))
		}
	}
	for _, s := range streams {
		if s.View != nil {
			opts = append(opts, sdkmetric.WithView(sdkmetric.NewView(sdkmetric.Instrument{Name: s.Name},
				sdkmetric.Stream{Aggregation: s.View.aggregation()})))
		}
	}
	mp := sdkmetric.NewMeterProvider(opts...)
	defer func() {
		closing = true
		_ = mp.Shutdown(ctx)
	}()
	attrOpt := [3]metric.MeasurementOption{metric.WithAttributes(attribute.Int("a", 0)), metric.WithAttributes(attribute.Int("a", 1)),
		metric.WithAttributes(attribute.Int("a", 2))}
	recs := make([]func(Meas, int), nStreams)
	for si, s := range streams {
		m := mp.Meter(fmt.Sprintf("m%d", s.Meter))
		if s.Inst == "counter" {
			if s.IsInt {
				c, err := m.Int64Counter(s.Name)
				vh.Must(err)
				recs[si] = func(v Meas, a int) { c.Add(ctx, v.I, attrOpt[a]) }
			} else {
				c, err := m.Float64Counter(s.Name)
				vh.Must(err)
				recs[si] = func(v Meas, a int) { c.Add(ctx, v.F, attrOpt[a]) }
			}
			continue
		}
		isInt := s.IsInt
		switch s.Inst {
		case "hist":
			if isInt {
				h, err := m.Int64Histogram(s.Name)
				vh.Must(err)
				recs[si] = func(v Meas, a int) { h.Record(ctx, v.I, attrOpt[a]) }
			} else {
				h, err := m.Float64Histogram(s.Name)
				vh.Must(err)
				recs[si] = func(v Meas, a int) { h.Record(ctx, v.F, attrOpt[a]) }
			}
		case "updown":
			if isInt {
				h, err := m.Int64UpDownCounter(s.Name)
				vh.Must(err)
				recs[si] = func(v Meas, a int) { h.Add(ctx, v.I, attrOpt[a]) }
			} else {
				h, err := m.Float64UpDownCounter(s.Name)
				vh.Must(err)
				recs[si] = func(v Meas, a int) { h.Add(ctx, v.F, attrOpt[a]) }
			}
		default:
			if isInt {
				h, err := m.Int64Gauge(s.Name)
				vh.Must(err)
				recs[si] = func(v Meas, a int) { h.Record(ctx, v.I, attrOpt[a]) }
			} else {
				h, err := m.Float64Gauge(s.Name)
				vh.Must(err)
				recs[si] = func(v Meas, a int) { h.Record(ctx, v.F, attrOpt[a]) }
			}
		}
	}
	// ------------------------------------------------------------ execution
	shared := make([]*metricdata.ResourceMetrics, nShared)
	lastUser := make([]int, nShared)
	for i := range shared {
		shared[i] = &metricdata.ResourceMetrics{}
		lastUser[i] = -1
	}
	var lives []*liveDest
	poolSnap := map[*metricdata.ResourceMetrics][][]metricShape{}
	desync := ""
	checkLive := func(ld *liveDest) {
		for _, lr := range ld.refs {
			s := streams[lr.p.s]
			f := locate(lr.p.sctx, ld.rm, fmt.Sprintf("m%d", s.Meter), s.Name, lr.p.a)
			if f.fp == "absent" && lr.fp == "absent" {
				continue // no point object was reported and none is there: nothing that could change
			}
			lr.p.lines = append(lr.p.lines, map[string]any{"ev": "Chk", "k": lr.k, "fp": f.fp, "dest": lr.dest})
			counters.Count("alias_checks", 1)
			if f.fp != lr.fp {
				counters.Count("alias_checks_differing", 1)
			}
		}
		ld.refs = nil
	}
	// observe projects every pair of reader ri out of rm (which the collection just filled)
	observe := func(ri int, rm *metricdata.ResourceMetrics, base string, prev [][]metricShape, track bool) {
		var ld *liveDest
		if track {
			ld = &liveDest{rm: rm}
			lives = append(lives, ld)
		}
		for si, s := range streams {
			for _, p := range byRS[[2]int{ri, si}] {
				if len(p.pending) > 0 {
					p.lines = append(p.lines, map[string]any{"ev": "Rec", "vals": p.pending})
					p.pending = []AVal{}
				}
				f := locate(p.sctx, rm, fmt.Sprintf("m%d", s.Meter), s.Name, p.a)
				if !f.present && len(p.sctx.cur) == 0 && f.obs.(interface{ shapeOK() bool }).shapeOK() {
					// nothing recorded into the point, nothing reported: a line would say nothing
					res.Count("world_idle_observations_not_logged", 1)
					continue
				}
				dest := base
				if f.present {
					if p.sctx.cfg.Kind == "expl" {
						f.shape.p = len(p.sctx.cfg.FBounds) + 1 // the number of buckets the stream needs
					}
					occ := occupant(prev, f.i, f.j, f.k, f.kind, f.num, f.shape)
					dest = base + ":" + occ
					res.Count("world_slot_"+occ, 1)
					res.Count("world_points", 1)
					res.Count("world_points_"+p.sctx.cfg.Kind+map[bool]string{true: "_cum", false: "_delta"}[p.sctx.cfg.Cum], 1)
					if p.sctx.cfg.NoMinMax {
						res.Count("world_points_nominmax", 1)
					}
					if p.sctx.cfg.NoSum {
						res.Count("world_points_nosum", 1)
					}
				}
				p.ncol++
				p.lines = append(p.lines, map[string]any{"ev": "Col", "obs": f.obs, "dest": dest, "fp": f.fp})
				if track {
					ld.refs = append(ld.refs, liveRef{p, p.ncol, f.fp, dest})
				}
				if !p.sctx.cfg.Cum {
					p.sctx.cur = p.sctx.cur[:0]
				}
			}
		}
	}
	onExport = func(ri int, rm *metricdata.ResourceMetrics) {
		prev, seen := poolSnap[rm]
		base := "pool"
		if seen {
			base = "pool-reused"
			res.Count("world_pool_destination_reused", 1)
		}
		observe(ri, rm, base, prev, false)
		poolSnap[rm] = snapshotRM(rm)
	}
	for _, o := range ops {
		switch o.Kind {
		case "rec":
			recs[o.S](o.M, o.A)
			for ri := range readers {
				for _, p := range byRS[[2]int{ri, o.S}] {
					if p.a == o.A {
						p.pending = append(p.pending, o.AV)
						p.sctx.cur = append(p.sctx.cur, o.M)
					}
				}
			}
		case "flush":
			if err := readers[o.R].pr.ForceFlush(ctx); err != nil {
				desync = "ForceFlush: " + err.Error()
			}
			res.Count("world_flushes", 1)
		case "col":
			rm := &metricdata.ResourceMetrics{}
			base := "fresh"
			if o.Dest >= 0 {
				rm = shared[o.Dest]
				switch lastUser[o.Dest] {
				case -1:
					base = "shared-first"
				case o.R:
					base = "reused"
				default:
					base = "reused-other-reader"
				}
				lastUser[o.Dest] = o.R
				// documented re-use: the points reported into this destination may change from now on;
				// last look at them before
				for _, ld := range lives {
					if ld.rm == rm {
						checkLive(ld)
					}
				}
			}
			prev := snapshotRM(rm)
			if err := readers[o.R].col.Collect(ctx, rm); err != nil {
				desync = "Collect: " + err.Error()
				break
			}
			res.Count("world_collects_"+base, 1)
			observe(o.R, rm, base, prev, true)
		}
		if desync != "" {
			break
		}
	}
	if desync != "" {
		res.Count("world_desync", 1)
		res.Inconcl(fmt.Sprintf("world %d: %s", w, desync))
		return desc
	}
	for _, ld := range lives {
		checkLive(ld)
	}
	// ------------------------------------------------------------ emit, one scenario per pair
	for _, p := range pairs {
		sc := *scBase
		*scBase++
		s := streams[p.s]
		tw.Emit(map[string]any{"ev": "New", "sc": sc, "cfg": p.sctx.cfg, "src": "worlds", "world": w,
			"pair": fmt.Sprintf("reader %d / stream %s (meter m%d, %s, int64=%v) / attribute set a=%d", p.r, s.Name, s.Meter, s.Inst, s.IsInt, p.a),
			"class": s.Class, "isint": s.IsInt, "fbounds": fmt.Sprint(p.sctx.cfg.FBounds)})
		for _, l := range p.lines {
			l["sc"] = sc
			tw.Emit(l)
		}
		res.Count("world_scenarios", 1)
	}
	return desc
}

func worlds(args []string) {
	fs := flag.NewFlagSet("worlds", flag.ExitOnError)
	n := fs.Int("n", 100, "")
	trace := fs.String("trace", "worlds.ndjson", "")
	resF := fs.String("res", "worlds-result.json", "")
	descF := fs.String("worlds", "worlds.json", "")
	batch := fs.Int64("batch", 0, "batch number (varies the random stream; one trace file per batch)")
	fs.Parse(args)
	r := rand.New(rand.NewSource(vh.Seed()*104729 + 71 + *batch*15485863))
	tw, err := vh.NewTraceWriter(*trace)
	vh.Must(err)
	res := vh.NewResult()
	sc := 0
	var descs []*worldDesc
	for w := 0; w < *n; w++ {
		func() {
			defer func() {
				if p := recover(); p != nil {
					res.AddMismatch(vh.Mismatch{Kind: "panic", Case: map[string]any{"world": w, "sub": "world"}, Detail: fmt.Sprint(p)})
				}
			}()
			descs = append(descs, runWorld(r, w, &sc, tw, res))
		}()
		res.Executed++
		res.Evaluations++
	}
	vh.Must(tw.Close())
	res.Count("trace_lines", tw.N)
	res.Count("otel_errors_handled", int64(handled.n))
	for k, v := range counters.Counters {
		res.Count(k, v)
	}
	res.Count("harness_sys_mb", sysMB())
	b, err := json.Marshal(descs)
	vh.Must(err)
	vh.Must(os.WriteFile(*descF, b, 0o644))
	vh.Must(res.Write(*resF))
}
