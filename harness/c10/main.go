// c10: conformance harness for SpanEnd.tla / Trace_SpanEnd.tla (property C10).
//
//	c10 probe                                      which instrumentation points of End fire, in which order (JSON)
//	c10 random  -n N -out TRACE -res R             seeded random scenarios with schedule perturbation
//	c10 scripts -in FILE -out TRACE -res R         TLC behaviours / directed schedules replayed with gates
//	    -impl N (random, scripts)                  the first N scenarios (-1: all) also record the implementation-level
//	                                               trace: pid per line, Gate lines, ICfg (Trace_SpanEndImpl.tla)
//
// Every scenario shares ONE real recording span (plus its children) between goroutines that call End,
// the mutators, IsRecording and child Start concurrently, with runtime/trace started or not (so that
// executionTracerTaskEnd is live or nil). Recording SpanProcessors count OnEnd per span, project the
// snapshot they are handed onto mutation tokens, keep it and read it again later. The API-level history
// and the hook events are recorded as ndjson; TLC judges it (Trace_SpanEnd.tla), never this program.
package main

import (
	"context"
	"encoding/json"
	"errors"
	"flag"
	"fmt"
	"io"
	"math/rand"
	"os"
	"regexp"
	"runtime"
	rt "runtime/trace"
	"sort"
	"strings"
	"sync"
	"sync/atomic"
	"time"

	"go.opentelemetry.io/otel"
	"go.opentelemetry.io/otel/attribute"
	"go.opentelemetry.io/otel/codes"
	sdktrace "go.opentelemetry.io/otel/sdk/trace"
	"go.opentelemetry.io/otel/sdk/verifh/vh"
	"go.opentelemetry.io/otel/trace"
)

// Scenario is one workload on one shared span (+ optional gate script).
type Scenario struct {
	Name         string   `json:"name,omitempty"`
	RT           bool     `json:"rt"`       // runtime/trace started before the span is started
	NProcs       int      `json:"nprocs"`   // registered recording processors
	Enders       int      `json:"enders"`   // goroutines calling End
	EndsPer      int      `json:"endsPer"`  // sequential End calls per ender (default 1)
	TS           bool     `json:"ts"`       // End(WithTimestamp(t_k)), k unique per call
	Muts         []string `json:"muts"`     // one mutator goroutine per entry: kind of its first call
	MutsPer      int      `json:"mutsPer"`  // calls per mutator (default 1); later calls use attrs/event/link/error
	Children     int      `json:"children"` // goroutines starting (and ending) a child span
	Readers      int      `json:"readers"`  // goroutines calling IsRecording
	ReadsPer     int      `json:"readsPer"`
	ETimers      int      `json:"etimers"`      // goroutines reading ReadWriteSpan.EndTime()
	Provs        int      `json:"provs"`        // goroutines using the provider concurrently (Tracer, Register/Unregister, ForceFlush)
	Regs         int      `json:"regs"`         // goroutines g<i> registering one more recording processor p<nprocs+i> each
	Zero         bool     `json:"zero"`         // Attribute/Event/LinkCountLimit = 0: a mutation is observable only through the dropped counters
	EndInOnStart bool     `json:"endInOnStart"` // processor p1 ends the shared span inside OnStart (before Start returns)
	Lim          int      `json:"lim"`          // >0: Event/Link/AttributeCountLimit = lim and lim events, links, attributes recorded beforehand (queues full)
	Panickers    int      `json:"panickers"`    // the first k enders call End as a deferred call during a panic (recover branch of End)
	RecordOnly   bool     `json:"recordOnly"`   // the sampler answers RecordOnly: recording, not sampled (Drop = non-recording: out of scope)
	Stoppers     int      `json:"stoppers"`     // goroutines s<i> calling TracerProvider.Shutdown
	Unregs       int      `json:"unregs"`       // goroutines u<i> calling UnregisterSpanProcessor(p1)
	ReentReg     bool     `json:"reentReg"`     // p1's Shutdown calls RegisterSpanProcessor (re-entrant use from a callback)
	WaitFor      int      `json:"waitFor"`      // the last k registrars are workers started by p1's Shutdown, which waits for them
	Perturb      float64  `json:"perturb"`
	Tight        bool     `json:"tight"` // no jitter: all goroutines spin on a barrier and make their first call together
	Script       []string `json:"script,omitempty"`
	Seed         int64    `json:"seed"`
	// Impl: record the implementation-level trace as well (Trace_SpanEndImpl.tla): every line of a process carries
	// the id of the CALL it belongs to (pid = one process of SpanEnd.tla), one Gate line per natural gate passed
	// (user code the SDK calls), one ICfg line naming the processes of the scenario.
	Impl bool `json:"impl"`
}

var tsBase = time.Date(2030, 1, 1, 0, 0, 0, 0, time.UTC)

// ---------------------------------------------------------------- goroutine identity
// End has no ctx argument, so the hook and the processors identify the calling harness process by
// goroutine id (harness side only; nothing in /repo knows about it).
func goid() uint64 {
	var buf [64]byte
	n := runtime.Stack(buf[:], false)
	var id uint64
	for _, c := range buf[len("goroutine "):n] {
		if c < '0' || c > '9' {
			break
		}
		id = id*10 + uint64(c-'0')
	}
	return id
}

type procInfo struct {
	name string
	st   *scState
	pid  string // the call of this goroutine that is under way (a process of SpanEnd.tla); only its own goroutine touches it
}

var (
	procs sync.Map                // goid -> *procInfo
	cur   atomic.Pointer[scState] // the running scenario; goroutines of abandoned scenarios are ignored
)

func me() *procInfo {
	v, ok := procs.Load(goid())
	if !ok {
		return nil
	}
	pi := v.(*procInfo)
	if pi.st != cur.Load() {
		return nil
	}
	return pi
}

// ---------------------------------------------------------------- scenario state
type kept struct {
	p      int
	span   int
	ro     sdktrace.ReadOnlySpan
	digest string
}

type scState struct {
	scn      int
	tw       *vh.TraceWriter
	sched    *vh.Sched
	scripted bool
	sc       Scenario
	live     sync.Map // names of the scenario's goroutines that have not finished
	lim      int
	endRets  atomic.Int64 // End calls on the shared span that have returned
	mu       sync.Mutex
	spans    map[trace.SpanID]int // span id -> small int (1 = the shared span, 10+k = children)
	ets      map[int][]time.Time  // span -> distinct implicit end times seen (index+100 = et id)
	kinds    map[int]string       // token -> mutation kind
	keep     []kept
	rw       map[int]sdktrace.ReadWriteSpan
	// outcome of the shared span, compared by the driver with the outcome TLC predicts for a replayed behaviour
	handed []int // per processor: OnEnd calls
	// implementation-level trace (sc.Impl)
	tokPid map[int]string // mutation token -> pid of the call that carries it
	tsPid  map[int]string // explicit end timestamp index -> pid of the End call that carries it
	nfull  int   // tokens wholly present in the last snapshot handed over
	child  int   // child count of that snapshot (-1: none yet)
}

// spawn runs f as a named process of the scenario (known to the hooks, the processors and the watchdog).
func (st *scState) spawn(name string, wg *sync.WaitGroup, f func(name string)) {
	st.live.Store(name, true)
	go func() {
		id := goid()
		procs.Store(id, &procInfo{name: name, st: st})
		defer wg.Done()
		defer st.live.Delete(name)
		defer procs.Delete(id)
		defer func() {
			if x := recover(); x != nil {
				st.emit(map[string]any{"ev": "Panic", "proc": name, "span": 1, "msg": fmt.Sprint(x)})
			}
		}()
		f(name)
	}()
}

// watch waits for wg. If the scenario has not finished after `bound` it takes two goroutine dumps 3 s apart:
// deadlock = nobody finished in between, every goroutine of the scenario is parked (not running / runnable) with
// the same stack in both, and at least one of them sits in sync.Mutex.Lock called from sdk/trace in both.
// Anything else that does not finish is inconclusive. `where` = for the goroutines blocked on such a lock the
// chain of API / callback frames, outermost first.
func (st *scState) watch(wg *sync.WaitGroup, bound, gap time.Duration, res *vh.Result) (stuck bool) {
	done := make(chan struct{})
	go func() { wg.Wait(); close(done) }()
	select {
	case <-done:
		return false
	case <-time.After(bound):
	}
	names := func() []string {
		out := []string{}
		st.live.Range(func(k, _ any) bool { out = append(out, k.(string)); return true })
		sort.Strings(out)
		return out
	}
	blocked := names()
	mine := map[string]bool{} // goroutines of THIS scenario (earlier abandoned ones stay blocked forever)
	procs.Range(func(k, v any) bool {
		if v.(*procInfo).st == st {
			mine[fmt.Sprintf("goroutine %d", k.(uint64))] = true
		}
		return true
	})
	dump, g1 := goroutines()
	time.Sleep(gap)
	_, g2 := goroutines()
	dead := strings.Join(names(), ",") == strings.Join(blocked, ",") && len(blocked) > 0
	nlock := 0
	where, mydump := []string{}, []string{}
	for id := range mine {
		a, ok1 := g1[id]
		b, ok2 := g2[id]
		if !ok1 || !ok2 {
			continue
		}
		if a.running || b.running || a.stack != b.stack {
			dead = false
		}
		if a.lockInSDK && b.lockInSDK {
			nlock++
		}
		if a.chain != "" {
			where = append(where, a.chain)
		}
		mydump = append(mydump, a.text)
	}
	dead = dead && nlock > 0
	sort.Strings(where)
	st.emit(map[string]any{"ev": "Stuck", "deadlock": dead, "procs": blocked, "where": strings.Join(where, " | ")})
	res.Count("scenarios_stuck", 1)
	res.Sample(map[string]any{"stuck_scenario": st.sc, "blocked": blocked, "where": where, "goroutines": strings.Join(mydump, "\n\n")})
	_ = dump
	return true
}

type gInfo struct {
	running   bool   // state is running / runnable / syscall
	lockInSDK bool   // parked in sync.Mutex.Lock called from sdk/trace
	stack     string // function names, innermost first
	chain     string // API and callback frames, outermost first: "UnregisterSpanProcessor>proc.Shutdown>Tracer"
	text      string
}

var frameRe = regexp.MustCompile(`(?m)^([^\s(][^\n]*)\(`)

func goroutines() (string, map[string]gInfo) {
	buf := make([]byte, 8<<20)
	dump := string(buf[:runtime.Stack(buf, true)])
	out := map[string]gInfo{}
	for _, g := range strings.Split(dump, "\n\n") {
		hdr := strings.SplitN(g, "\n", 2)[0]
		id := strings.SplitN(hdr, " [", 2)[0]
		state := ""
		if i := strings.Index(hdr, "["); i >= 0 {
			state = strings.SplitN(strings.TrimSuffix(hdr[i+1:], "]:"), ",", 2)[0]
		}
		var fns, chain []string
		for _, m := range frameRe.FindAllStringSubmatch(g, -1) {
			fn := m[1]
			if strings.HasPrefix(fn, "goroutine ") || strings.HasPrefix(fn, "created by") {
				continue
			}
			fns = append(fns, fn)
			short := fn[strings.LastIndex(fn, "/")+1:]
			switch {
			case strings.HasPrefix(short, "trace.(*TracerProvider)."):
				chain = append(chain, strings.TrimPrefix(short, "trace.(*TracerProvider)."))
			case strings.HasPrefix(short, "trace.(*tracer)."):
				chain = append(chain, "tracer."+strings.TrimPrefix(short, "trace.(*tracer)."))
			case strings.HasPrefix(short, "trace.(*recordingSpan)."):
				chain = append(chain, "span."+strings.TrimPrefix(short, "trace.(*recordingSpan)."))
			case strings.HasPrefix(short, "main.(*recProc).") || strings.HasPrefix(short, "main.(*reProc)."):
				chain = append(chain, "proc."+strings.SplitN(short[strings.Index(short, ").")+2:], ".", 2)[0])
			}
		}
		norm := chain[:0] // closures and repeated frames of one call collapse: Tracer.func1, Tracer -> Tracer
		for _, c := range chain {
			c = regexp.MustCompile(`(\.func\d+)+(\.\d+)*$`).ReplaceAllString(c, "")
			if c == "proc.run" { // helper of the re-entrant processor
				continue
			}
			if len(norm) == 0 || norm[len(norm)-1] != c {
				norm = append(norm, c)
			}
		}
		chain = norm
		for i, j := 0, len(chain)-1; i < j; i, j = i+1, j-1 {
			chain[i], chain[j] = chain[j], chain[i]
		}
		out[id] = gInfo{
			running:   state == "running" || state == "runnable" || state == "syscall",
			lockInSDK: strings.Contains(g, "sync.(*Mutex).Lock") && strings.Contains(g, "otel/sdk/trace."),
			stack:     strings.Join(fns, "<"),
			chain:     strings.Join(chain, ">"),
			text:      g,
		}
	}
	return dump, out
}

func (st *scState) emit(ev map[string]any) {
	ev["sc"] = st.scn
	st.tw.Emit(ev)
}

// with adds the pid of the call under way to a line of an implementation-level trace.
func (st *scState) with(pi *procInfo, ev map[string]any) map[string]any {
	if st.sc.Impl && pi != nil {
		ev["pid"] = pi.pid
	}
	return ev
}

// gateLine: one line per natural gate passed (user code the SDK calls), written by the calling goroutine inside
// that user code, i.e. while whatever lock the SDK holds around it is held.
func (st *scState) gateLine(pi *procInfo, point string) {
	if st.sc.Impl && pi != nil {
		st.emit(map[string]any{"ev": "Gate", "point": point, "proc": pi.name, "pid": pi.pid, "span": 1})
	}
}

// gate: strict two-phase gate ("x@g+" = arrived, "x@g" = released), see SpanEndSim.tla.
func (st *scState) gate(proc, point string) {
	k := proc + "@" + point
	st.arrive(k + "+")
	st.arrive(k)
}

// arrive: once a script has desynchronised (the real code took another path than the behaviour) the rest
// of it cannot be followed either; everybody then passes freely instead of timing out at every entry.
func (st *scState) arrive(key string) {
	if st.scripted {
		if _, desync, _ := st.sched.Stats(); desync > 0 {
			return
		}
	}
	st.sched.Arrive(key)
}

func (st *scState) spanNo(id trace.SpanID) (int, bool) {
	st.mu.Lock()
	defer st.mu.Unlock()
	n, ok := st.spans[id]
	return n, ok
}

func (st *scState) etID(span int, t time.Time) int {
	if t.IsZero() {
		return 0
	}
	if d := t.Sub(tsBase); d > 0 && d < 100*time.Second && d%time.Second == 0 {
		return int(d / time.Second)
	}
	st.mu.Lock()
	defer st.mu.Unlock()
	for i, x := range st.ets[span] {
		if x.Equal(t) {
			return 100 + i
		}
	}
	st.ets[span] = append(st.ets[span], t)
	return 100 + len(st.ets[span]) - 1
}

// ---------------------------------------------------------------- user code inside span methods = natural gates
// userGate is called from err.Error() (RecordError) and from the Error()/String() method of a recovered
// panic value (End deferred during a panic). Scripted: the two-phase gate. Random: perturbation, and half
// of the time it lets an End overtake: it waits (bounded, never a verdict) until one more End has returned.
func (st *scState) userGate(proc, point string, r *rand.Rand) {
	if st.scripted {
		st.gate(proc, point)
		return
	}
	st.arrive(proc + "@" + point)
	if r.Intn(2) == 0 {
		n := st.endRets.Load()
		for t0 := time.Now(); st.endRets.Load() == n && time.Since(t0) < 1500*time.Microsecond; {
			runtime.Gosched()
		}
	}
}

// gateErr is the error passed to RecordError: its Error method is user code that RecordError runs.
type gateErr struct {
	st   *scState
	proc string
	msg  string
	r    *rand.Rand
	once sync.Once
}

func (e *gateErr) Error() string {
	e.once.Do(func() { e.st.gateLine(me(), "err.Error"); e.st.userGate(e.proc, "err.Error", e.r) })
	return e.msg
}

// gatePanic / gatePanicS are panic values (an error / a fmt.Stringer): End formats them with fmt.Sprint.
type gatePanic struct {
	st   *scState
	proc string
	r    *rand.Rand
	once sync.Once
}

func (v *gatePanic) Error() string {
	v.once.Do(func() { v.st.gateLine(me(), "panic.Format"); v.st.userGate(v.proc, "panic.Format", v.r) })
	return "panic-" + v.proc
}

type gatePanicS struct{ g *gatePanic }

func (v gatePanicS) String() string { return v.g.Error() }

// ---------------------------------------------------------------- mutations and their projection
func tokKey(t int, part string) attribute.Key { return attribute.Key(fmt.Sprintf("t%d%s", t, part)) }

func linkSC(t int) trace.SpanContext {
	return trace.NewSpanContext(trace.SpanContextConfig{
		TraceID: trace.TraceID{0xEE, 1}, SpanID: trace.SpanID{0xEE, 0, 0, 0, 0, 0, byte(t >> 8), byte(t)},
	})
}

func prefillLink(k int) trace.SpanContext {
	return trace.NewSpanContext(trace.SpanContextConfig{TraceID: trace.TraceID{0xEF, 1}, SpanID: trace.SpanID{0xEF, 0, 0, 0, 0, 0, 0, byte(k)}})
}

func applyMutation(s trace.Span, kind string, t int) {
	a, b := tokKey(t, "a").Int(t), tokKey(t, "b").String("v")
	switch kind {
	case "attrs":
		s.SetAttributes(a, b)
	case "event":
		s.AddEvent(fmt.Sprintf("t%d", t), trace.WithAttributes(a, b))
	case "link":
		s.AddLink(trace.Link{SpanContext: linkSC(t), Attributes: []attribute.KeyValue{a, b}})
	case "status":
		s.SetStatus(codes.Error, fmt.Sprintf("t%d", t))
	case "name":
		s.SetName(fmt.Sprintf("t%d", t))
	case "error":
		s.RecordError(errors.New(fmt.Sprintf("t%d", t)))
	}
}

// proj is the projection of a snapshot onto what the contract talks about.
type proj struct {
	full, partial                  []int
	evmiss, evdrop, lkmiss, lkdrop int
}

func hasAB(kvs []attribute.KeyValue, t int) int {
	n := 0
	for _, kv := range kvs {
		if (kv.Key == tokKey(t, "a") && kv.Value.AsInt64() == int64(t)) || (kv.Key == tokKey(t, "b") && kv.Value.AsString() == "v") {
			n++
		}
	}
	return n
}

// project returns the tokens wholly present and the tokens partly present (or duplicated) in ro.
func project(ro sdktrace.ReadOnlySpan, kinds map[int]string, lim int) proj {
	full, partial := []int{}, []int{}
	attrs, events, links, status, name := ro.Attributes(), ro.Events(), ro.Links(), ro.Status(), ro.Name()
	for t, kind := range kinds {
		have, total := 0, 0
		switch kind {
		case "attrs":
			have, total = hasAB(attrs, t), 2
		case "event":
			total = 3
			for _, e := range events {
				if e.Name == fmt.Sprintf("t%d", t) {
					have += 1 + hasAB(e.Attributes, t)
				}
			}
		case "link":
			total = 3
			for _, l := range links {
				if l.SpanContext.SpanID() == linkSC(t).SpanID() {
					have += 1 + hasAB(l.Attributes, t)
				}
			}
		case "status":
			total = 2
			if status.Description == fmt.Sprintf("t%d", t) {
				have++
				if status.Code == codes.Error {
					have++
				}
			}
		case "name":
			total = 1
			if name == fmt.Sprintf("t%d", t) {
				have = 1
			}
		case "error", "uerror":
			total = 3
			for _, e := range events {
				msg, typ := false, false
				for _, kv := range e.Attributes {
					if kv.Key == "exception.message" && kv.Value.AsString() == fmt.Sprintf("t%d", t) {
						msg = true
					}
					if kv.Key == "exception.type" && kv.Value.AsString() != "" {
						typ = true
					}
				}
				if msg {
					have += 2
					if typ {
						have++
					}
				}
			}
		}
		switch {
		case have == total:
			full = append(full, t)
		case have != 0:
			partial = append(partial, t)
		}
	}
	sort.Ints(full)
	sort.Ints(partial)
	pr := proj{full: full, partial: partial}
	if lim > 0 { // which of the events / links recorded beforehand (the oldest entries of the FIFOs) are gone
		pr.evdrop, pr.lkdrop = ro.DroppedEvents(), ro.DroppedLinks()
		for k := 1; k <= lim; k++ {
			found := false
			for _, e := range events {
				found = found || e.Name == fmt.Sprintf("i%d", k)
			}
			if !found {
				pr.evmiss++
			}
			found = false
			for _, l := range links {
				found = found || l.SpanContext.SpanID() == prefillLink(k).SpanID()
			}
			if !found {
				pr.lkmiss++
			}
		}
	}
	return pr
}

func digest(ro sdktrace.ReadOnlySpan) string {
	var b strings.Builder
	kv := func(kvs []attribute.KeyValue) {
		ss := make([]string, len(kvs))
		for i, a := range kvs {
			ss[i] = string(a.Key) + "=" + a.Value.Emit()
		}
		sort.Strings(ss)
		fmt.Fprint(&b, ss)
	}
	fmt.Fprint(&b, ro.Name(), "|", ro.SpanContext().SpanID(), "|", ro.Parent().SpanID(), "|", ro.SpanKind(), "|",
		ro.StartTime().UnixNano(), "|", ro.EndTime().UnixNano(), "|", ro.Status().Code, ro.Status().Description, "|",
		ro.ChildSpanCount(), ro.DroppedAttributes(), ro.DroppedEvents(), ro.DroppedLinks(), "|")
	kv(ro.Attributes())
	for _, e := range ro.Events() {
		fmt.Fprint(&b, "E", e.Name, e.DroppedAttributeCount, e.Time.UnixNano())
		kv(e.Attributes)
	}
	for _, l := range ro.Links() {
		fmt.Fprint(&b, "L", l.SpanContext.SpanID(), l.DroppedAttributeCount)
		kv(l.Attributes)
	}
	return b.String()
}

// ---------------------------------------------------------------- scripted sampler
// decSampler answers RecordAndSample or RecordOnly for every span: a RecordOnly span is a recording span
// (it goes through every processor) whose trace flags lack the sampled bit.
type decSampler struct{ recordOnly bool }

func (d decSampler) ShouldSample(p sdktrace.SamplingParameters) sdktrace.SamplingResult {
	dec := sdktrace.RecordAndSample
	if d.recordOnly {
		dec = sdktrace.RecordOnly
	}
	return sdktrace.SamplingResult{Decision: dec, Tracestate: trace.SpanContextFromContext(p.ParentContext).TraceState()}
}
func (d decSampler) Description() string { return "decSampler" }

// ---------------------------------------------------------------- recording processor
type recProc struct {
	idx int
	tp  *sdktrace.TracerProvider // set for the processors of a scenario (callbacks may call back into the provider)
}

func (p *recProc) OnStart(_ context.Context, s sdktrace.ReadWriteSpan) {
	pi := me()
	if pi == nil || p.idx != 1 {
		return
	}
	st := pi.st
	st.mu.Lock()
	first := st.rw[0] == nil // the first span started in a scenario is the shared one
	if first {
		st.rw[0] = s
		st.spans[s.SpanContext().SpanID()] = 1
	}
	st.mu.Unlock()
	if first {
		pi.pid = "st"
		st.gateLine(pi, "proc.OnStart")
	}
	if first && st.sc.EndInOnStart { // a processor is allowed to end the span it is told about
		pi.pid = "e0"
		st.emit(st.with(pi, map[string]any{"ev": "Call", "op": "End", "proc": pi.name, "span": 1, "arg": 0}))
		s.End()
		st.endRets.Add(1)
		st.emit(st.with(pi, map[string]any{"ev": "Ret", "op": "End", "proc": pi.name, "span": 1, "arg": 0, "val": false}))
		pi.pid = "st"
	}
}

func (p *recProc) OnEnd(ro sdktrace.ReadOnlySpan) {
	pi := me()
	if pi == nil {
		return
	}
	st := pi.st
	span, ok := st.spanNo(ro.SpanContext().SpanID())
	if !ok {
		return
	}
	// read what is handed over first (a deep copy by value: digest + projection), then wait at the gate:
	// whatever changes the snapshot afterwards shows up in a later Reread
	// (a copy of the token table: `c10 panics` registers tokens while other calls are in flight, and a token is
	// registered before its call starts, so every token the snapshot can hold is in the copy)
	st.mu.Lock()
	kinds := make(map[int]string, len(st.kinds))
	for t, k := range st.kinds {
		kinds[t] = k
	}
	st.mu.Unlock()
	lim := st.lim
	if span != 1 {
		kinds, lim = nil, 0
	}
	d0, pr, et, child := digest(ro), project(ro, kinds, lim), st.etID(span, ro.EndTime()), ro.ChildSpanCount()
	if span == 1 {
		st.gate(pi.name, fmt.Sprintf("onend:p%d", p.idx))
	}
	ev := map[string]any{"ev": "OnEnd", "p": p.idx, "span": span, "proc": pi.name, "et": et,
		"full": pr.full, "partial": pr.partial, "child": child,
		"evmiss": pr.evmiss, "evdrop": pr.evdrop, "lkmiss": pr.lkmiss, "lkdrop": pr.lkdrop,
		"datt": ro.DroppedAttributes(), "dev": ro.DroppedEvents(), "dlk": ro.DroppedLinks()}
	if st.sc.Impl && span == 1 { // the calls whose tokens are wholly in the snapshot, the End call whose timestamp it carries
		fullp := []string{}
		st.mu.Lock()
		for _, t := range pr.full {
			fullp = append(fullp, st.tokPid[t])
		}
		ev["fullp"], ev["etp"] = fullp, st.tsPid[et]
		st.mu.Unlock()
		st.with(pi, ev)
	}
	st.emit(ev)
	st.mu.Lock()
	st.keep = append(st.keep, kept{p.idx, span, ro, d0})
	if span == 1 && p.idx <= len(st.handed) {
		st.handed[p.idx-1]++
		st.nfull, st.child = len(pr.full), child
	}
	st.mu.Unlock()
}

// Shutdown is user code the provider runs (natural gate x@proc.Shutdown, taken at p1 only); it may call back
// into the provider (reentReg) or wait for a worker that does (waitFor).
func (p *recProc) Shutdown(ctx context.Context) error {
	pi := me()
	if pi == nil || p.idx != 1 || p.tp == nil {
		return nil
	}
	st := pi.st
	st.gateLine(pi, "proc.Shutdown")
	st.gate(pi.name, "proc.Shutdown")
	if st.sc.ReentReg {
		p.tp.RegisterSpanProcessor(&recProc{idx: 97})
	}
	if strings.HasPrefix(pi.name, "s") {
		var wg sync.WaitGroup
		for k := st.sc.Regs - st.sc.WaitFor + 1; k <= st.sc.Regs; k++ {
			wg.Add(1)
			st.spawn(fmt.Sprintf("g%d", k), &wg, func(name string) {
				late := &recProc{idx: st.sc.NProcs + k}
				st.arrive(name + "@call")
				st.emit(map[string]any{"ev": "Call", "op": "Reg", "proc": name, "pid": name, "span": 0, "arg": late.idx})
				p.tp.RegisterSpanProcessor(late)
				st.emit(map[string]any{"ev": "Ret", "op": "Reg", "proc": name, "pid": name, "span": 0, "arg": late.idx, "val": false})
				st.arrive(name + "@ret+")
			})
		}
		done := make(chan struct{})
		go func() { wg.Wait(); close(done) }()
		select {
		case <-done:
		case <-ctx.Done():
		}
	}
	return nil
}
func (p *recProc) ForceFlush(context.Context) error { return nil }

func (st *scState) reread() {
	st.mu.Lock()
	ks := append([]kept(nil), st.keep...)
	st.mu.Unlock()
	for _, k := range ks {
		st.emit(map[string]any{"ev": "Reread", "p": k.p, "span": k.span, "same": digest(k.ro) == k.digest})
	}
}

// ---------------------------------------------------------------- runtime/trace switch
var rtOn bool

func setRT(on bool) {
	if on == rtOn {
		return
	}
	if on {
		vh.Must(rt.Start(io.Discard))
	} else {
		rt.Stop()
	}
	rtOn = on
}

var hookPoints = map[string]bool{"span.end.ignored": true, "span.end.checked": true, "span.end.taskended": true, "span.end.marked": true}

// ---------------------------------------------------------------- one scenario
func runScenario(scn int, sc Scenario, tw *vh.TraceWriter, res *vh.Result, hooks bool) (stuck bool) {
	if sc.Zero { // nothing is stored: no queues to fill, and End's own exception event would only blur the counters
		sc.Lim, sc.Panickers = 0, 0
	}
	if sc.EndInOnStart { // the span is ended before anything can be recorded on it beforehand
		sc.Lim = 0
	}
	setRT(sc.RT)
	rng := rand.New(rand.NewSource(sc.Seed))
	sched := vh.NewSched(sc.Script, sc.Seed+7)
	sched.Perturb = sc.Perturb
	sched.Timeout = 150 * time.Millisecond
	sched.MaxSleep = 60 * time.Microsecond
	sched.KeepLog = os.Getenv("VERIF_C10_DEBUG") != ""
	st := &scState{scn: scn, tw: tw, sched: sched, scripted: sc.Script != nil, sc: sc, lim: sc.Lim, spans: map[trace.SpanID]int{}, ets: map[int][]time.Time{},
		kinds: map[int]string{}, rw: map[int]sdktrace.ReadWriteSpan{}, handed: make([]int, sc.NProcs+sc.Regs), child: -1,
		tokPid: map[int]string{}, tsPid: map[int]string{}}
	cur.Store(st)
	st.emit(map[string]any{"ev": "Cfg", "rt": sc.RT, "nprocs": sc.NProcs, "hooks": hooks, "name": sc.Name, "lim": sc.Lim, "sampled": !sc.RecordOnly, "zero": sc.Zero,
		"impl": sc.Impl, "withstart": sc.EndInOnStart, "reentreg": sc.ReentReg})

	opts := []sdktrace.TracerProviderOption{sdktrace.WithSampler(decSampler{sc.RecordOnly})}
	rps := []*recProc{}
	if sc.Lim > 0 || sc.Zero {
		l := sdktrace.NewSpanLimits()
		l.EventCountLimit, l.LinkCountLimit, l.AttributeCountLimit = sc.Lim, sc.Lim, sc.Lim
		opts = append(opts, sdktrace.WithRawSpanLimits(l))
	}
	for i := 1; i <= sc.NProcs; i++ {
		rps = append(rps, &recProc{idx: i})
		opts = append(opts, sdktrace.WithSpanProcessor(rps[i-1]))
	}
	tp := sdktrace.NewTracerProvider(opts...)
	for _, rp := range rps {
		rp.tp = tp
	}
	tracer := tp.Tracer("c10")

	// Start (the processors' OnStart, runtimeTrace) and the calls that fill the queues run as a watched process
	// too: a processor may end the span inside OnStart, and nothing of that may block
	var span trace.Span
	var swg sync.WaitGroup
	swg.Add(1)
	st.spawn("main", &swg, func(string) {
		_, sp := tracer.Start(context.Background(), "shared")
		st.mu.Lock()
		st.spans[sp.SpanContext().SpanID()] = 1
		st.mu.Unlock()
		for k := 1; k <= sc.Lim; k++ { // the queues are at their limits before anybody starts
			sp.AddEvent(fmt.Sprintf("i%d", k))
			sp.AddLink(trace.Link{SpanContext: prefillLink(k)})
			sp.SetAttributes(attribute.Int(fmt.Sprintf("ia%d", k), k))
		}
		span = sp
	})
	if st.watch(&swg, 5*time.Second, 2*time.Second, res) {
		st.emit(map[string]any{"ev": "EndScenario", "quiescent": false, "name": sc.Name, "desync": 1,
			"handed": []int{}, "nfull": 0, "child": -1})
		return true
	}

	sdktrace.SetVerifHook(func(point string, args ...any) {
		if !hookPoints[point] || len(args) == 0 {
			return
		}
		pi := me()
		if pi == nil {
			return
		}
		s, ok := args[0].(interface{ SpanContext() trace.SpanContext })
		if !ok {
			return
		}
		n, ok := st.spanNo(s.SpanContext().SpanID())
		if !ok {
			return
		}
		ev := map[string]any{"ev": "Hook", "point": point, "proc": pi.name, "span": n}
		if n == 1 {
			st.with(pi, ev)
		}
		st.emit(ev)
		res.Count("hook@"+point, 1)
		if n == 1 {
			st.gate(pi.name, point)
		}
	})
	defer sdktrace.SetVerifHook(nil)

	var wg sync.WaitGroup
	begin := make(chan struct{})
	var nstarted, arrived int64
	start := func(name string, f func(r *rand.Rand)) {
		wg.Add(1)
		nstarted++
		st.live.Store(name, true)
		r := rand.New(rand.NewSource(rng.Int63()))
		go func() {
			pi := &procInfo{name: name, st: st}
			id := goid()
			procs.Store(id, pi)
			defer wg.Done()
			defer st.live.Delete(name)
			defer procs.Delete(id)
			defer func() {
				if x := recover(); x != nil {
					st.emit(map[string]any{"ev": "Panic", "proc": name, "span": 1, "msg": fmt.Sprint(x)})
				}
			}()
			<-begin
			if sc.Tight {
				atomic.AddInt64(&arrived, 1)
				for t0 := time.Now(); atomic.LoadInt64(&arrived) < atomic.LoadInt64(&nstarted) && time.Since(t0) < 2*time.Millisecond; {
				}
			}
			f(r)
		}()
	}
	// between the calls of one goroutine (random mode only): shake the phase
	jitter := func(r *rand.Rand) {
		if sc.Script != nil || sc.Tight {
			return
		}
		switch r.Intn(4) {
		case 0:
			runtime.Gosched()
		case 1:
			time.Sleep(time.Duration(r.Intn(80)) * time.Microsecond)
		}
	}
	// the processes of the scenario as SpanEnd.tla sees them: one per CALL (pid)
	icfg := map[string][]string{"enders": {}, "panickers": {}, "mutators": {}, "shared": {}, "usermut": {}, "evmut": {}, "zeromut": {},
		"children": {}, "readers": {}, "registrars": {}, "stoppers": {}, "unregs": {}, "waitfor": {}}
	if sc.EndInOnStart {
		icfg["enders"] = append(icfg["enders"], "e0")
	}
	call := func(name, pid, op string, span, arg int, f func() bool) {
		st.arrive(name + "@call")
		pi := me()
		if pi != nil {
			pi.pid = pid
		}
		ev := st.with(pi, map[string]any{"ev": "Call", "op": op, "proc": name, "span": span, "arg": arg})
		if op == "Mut" { // what the call adds to the dropped counters when every limit is 0
			w := [3]int{}
			if sc.Zero {
				w = map[string][3]int{"attrs": {2, 0, 0}, "event": {0, 1, 0}, "link": {0, 0, 1}, "error": {0, 1, 0}, "uerror": {0, 1, 0}}[st.kinds[arg]]
			}
			ev["wa"], ev["we"], ev["wl"] = w[0], w[1], w[2]
		}
		st.emit(ev)
		val := f()
		if op == "End" && span == 1 {
			st.endRets.Add(1)
		}
		st.emit(st.with(pi, map[string]any{"ev": "Ret", "op": op, "proc": name, "span": span, "arg": arg, "val": val}))
		st.arrive(name + "@ret+")
	}
	per := func(n int) int {
		if n <= 0 {
			return 1
		}
		return n
	}
	var tsCtr int64
	for i := 1; i <= sc.Enders; i++ {
		name := fmt.Sprintf("e%d", i)
		epid := func(k int) string {
			if i > sc.Panickers || k > 0 {
				return fmt.Sprintf("%s.%d", name, k+1)
			}
			return fmt.Sprintf("%s.%d.p", name, k+1)
		}
		for k := 0; k < per(sc.EndsPer); k++ {
			icfg["enders"] = append(icfg["enders"], epid(k))
			if i <= sc.Panickers && k == 0 {
				icfg["panickers"] = append(icfg["panickers"], epid(k))
			}
		}
		start(name, func(r *rand.Rand) {
			for k := 0; k < per(sc.EndsPer); k++ {
				jitter(r)
				arg := 0
				var o []trace.SpanEndOption
				if sc.TS {
					arg = int(atomic.AddInt64(&tsCtr, 1))
					o = append(o, trace.WithTimestamp(tsBase.Add(time.Duration(arg)*time.Second)))
					st.mu.Lock()
					st.tsPid[arg] = epid(k)
					st.mu.Unlock()
				}
				if i > sc.Panickers || k > 0 {
					call(name, epid(k), "End", 1, arg, func() bool { span.End(o...); return false })
					continue
				}
				// End as a deferred call during a real panic: its recover branch formats the panic value
				// (user code: the gate), adds an exception event, ends the span and panics again
				res.Count("ends_deferred_during_panic", 1)
				g := &gatePanic{st: st, proc: name, r: r}
				var pv any = g
				if r.Intn(2) == 0 {
					pv = gatePanicS{g}
				}
				if r.Intn(3) == 0 {
					o = append(o, trace.WithStackTrace(true))
				}
				call(name, epid(k), "End", 1, arg, func() bool {
					defer func() {
						if x := recover(); x != pv {
							panic(x) // not ours: a panic inside End
						}
					}()
					defer span.End(o...)
					panic(pv)
				})
			}
		})
	}
	tok := 0
	later := []string{"attrs", "event", "link", "error", "uerror"}
	for i, kind := range sc.Muts {
		name := fmt.Sprintf("m%d", i+1)
		toks, kinds := []int{}, []string{}
		for k := 0; k < per(sc.MutsPer); k++ {
			tok++
			kd := kind
			if k > 0 {
				kd = later[rng.Intn(len(later))]
			}
			toks, kinds = append(toks, tok), append(kinds, kd)
			st.kinds[tok] = kd
			// how SpanEnd.tla sees the call (the kind is part of the name: one name = one kind in every scenario)
			pid := fmt.Sprintf("%s.%d.%s", name, k+1, kd)
			if sc.Zero {
				pid += "0"
			}
			st.tokPid[tok] = pid
			icfg["mutators"] = append(icfg["mutators"], pid)
			switch {
			case sc.Zero && kd == "attrs": // observable only through the dropped-attributes counter
				icfg["zeromut"] = append(icfg["zeromut"], pid)
			case kd == "attrs": // the snapshot aliases the attribute array
				icfg["shared"] = append(icfg["shared"], pid)
			case (kd == "event" || kd == "error" || kd == "uerror") && !sc.Zero: // one entry of the event FIFO
				icfg["evmut"] = append(icfg["evmut"], pid)
			}
			if kd == "uerror" { // RecordError runs err.Error(): the gate
				icfg["usermut"] = append(icfg["usermut"], pid)
			}
		}
		start(name, func(r *rand.Rand) {
			for k := range toks {
				jitter(r)
				call(name, st.tokPid[toks[k]], "Mut", 1, toks[k], func() bool {
					if kinds[k] == "uerror" { // RecordError with an error whose Error method is a gate
						res.Count("recorderror_with_gate_error", 1)
						ge := &gateErr{st: st, proc: name, msg: fmt.Sprintf("t%d", toks[k]), r: r}
						if r.Intn(3) == 0 {
							span.RecordError(ge, trace.WithStackTrace(true))
						} else {
							span.RecordError(ge)
						}
						return false
					}
					applyMutation(span, kinds[k], toks[k])
					return false
				})
			}
		})
	}
	for i := 1; i <= sc.Children; i++ {
		name := fmt.Sprintf("c%d", i)
		cno := 10 + i
		icfg["children"] = append(icfg["children"], name+".1")
		start(name, func(r *rand.Rand) {
			jitter(r)
			var ch trace.Span
			call(name, name+".1", "Child", 1, cno, func() bool {
				_, ch = tracer.Start(trace.ContextWithSpan(context.Background(), span), "child")
				return false
			})
			st.mu.Lock()
			st.spans[ch.SpanContext().SpanID()] = cno
			st.mu.Unlock()
			if pi := me(); pi != nil {
				pi.pid = name + ".2" // the child's own End: another span, no process of SpanEnd.tla
			}
			st.emit(map[string]any{"ev": "Call", "op": "End", "proc": name, "span": cno, "arg": 0})
			ch.End()
			st.emit(map[string]any{"ev": "Ret", "op": "End", "proc": name, "span": cno, "arg": 0, "val": false})
		})
	}
	for i := 1; i <= sc.Readers; i++ {
		name := fmt.Sprintf("r%d", i)
		for k := 0; k < per(sc.ReadsPer); k++ {
			icfg["readers"] = append(icfg["readers"], fmt.Sprintf("%s.%d", name, k+1))
		}
		start(name, func(r *rand.Rand) {
			for k := 0; k < per(sc.ReadsPer); k++ {
				jitter(r)
				call(name, fmt.Sprintf("%s.%d", name, k+1), "IsRec", 1, 0, func() bool { return span.IsRecording() })
			}
		})
	}
	for i := 1; i <= sc.ETimers; i++ {
		name := fmt.Sprintf("t%d", i)
		for k := 0; k < per(sc.ReadsPer) && st.rw[0] != nil; k++ { // EndTime() = lock, read endTime, unlock: a reader
			icfg["readers"] = append(icfg["readers"], fmt.Sprintf("%s.%d", name, k+1))
		}
		start(name, func(r *rand.Rand) {
			for k := 0; k < per(sc.ReadsPer); k++ {
				jitter(r)
				st.mu.Lock()
				rw := st.rw[0]
				st.mu.Unlock()
				if rw == nil {
					return
				}
				st.arrive(name + "@call")
				pid := fmt.Sprintf("%s.%d", name, k+1)
				st.emit(map[string]any{"ev": "Call", "op": "ETime", "proc": name, "pid": pid, "span": 1, "arg": 0})
				et := st.etID(1, rw.EndTime())
				st.emit(map[string]any{"ev": "Ret", "op": "ETime", "proc": name, "pid": pid, "span": 1, "arg": et, "val": false})
				if r.Intn(2) == 0 {
					st.reread()
				}
			}
		})
	}
	for i := 1; i <= sc.Stoppers; i++ {
		name := fmt.Sprintf("s%d", i)
		icfg["stoppers"] = append(icfg["stoppers"], name+".1")
		start(name, func(r *rand.Rand) {
			jitter(r)
			call(name, name+".1", "SD", 0, 0, func() bool { _ = tp.Shutdown(context.Background()); return false })
		})
	}
	for i := 1; i <= sc.Unregs; i++ {
		name := fmt.Sprintf("u%d", i)
		icfg["unregs"] = append(icfg["unregs"], name+".1")
		start(name, func(r *rand.Rand) {
			jitter(r)
			call(name, name+".1", "Unreg", 0, 1, func() bool {
				if len(rps) > 0 {
					tp.UnregisterSpanProcessor(rps[0])
				}
				return false
			})
		})
	}
	for i := 1; i <= sc.Regs-sc.WaitFor; i++ {
		name := fmt.Sprintf("g%d", i)
		late := &recProc{idx: sc.NProcs + i}
		start(name, func(r *rand.Rand) {
			jitter(r)
			call(name, name, "Reg", 0, late.idx, func() bool { tp.RegisterSpanProcessor(late); return false })
		})
	}
	extra := &recProc{idx: 99} // registered / unregistered while the span is in use
	for i := 1; i <= min(sc.Provs, 1); i++ {
		name := fmt.Sprintf("v%d", i)
		start(name, func(r *rand.Rand) {
			// Unregistering a processor that is not registered is C15's subject (it removes another one):
			// this goroutine only unregisters what it registered itself, and is alone in doing so.
			registered := false
			for k, n := 0, 1+r.Intn(4); k < n; k++ {
				jitter(r)
				op := r.Intn(3)
				st.emit(map[string]any{"ev": "Call", "op": "Prov", "proc": name, "span": 0, "arg": op})
				switch op {
				case 0:
					_, o := tp.Tracer(fmt.Sprintf("c10-%d", r.Intn(3))).Start(context.Background(), "other")
					o.SetAttributes(attribute.Int("x", 1))
					o.End()
				case 1:
					if registered {
						tp.UnregisterSpanProcessor(extra)
					} else {
						tp.RegisterSpanProcessor(extra)
					}
					registered = !registered
				case 2:
					_ = tp.ForceFlush(context.Background())
				}
				st.emit(map[string]any{"ev": "Ret", "op": "Prov", "proc": name, "span": 0, "arg": op, "val": false})
			}
		})
	}
	if sc.Impl {
		for i := 1; i <= sc.Regs; i++ { // the i-th registrar registers processor p<nprocs+i>
			icfg["registrars"] = append(icfg["registrars"], fmt.Sprintf("g%d", i))
			if i > sc.Regs-sc.WaitFor {
				icfg["waitfor"] = append(icfg["waitfor"], fmt.Sprintf("g%d", i))
			}
		}
		ev := map[string]any{"ev": "ICfg", "provs": sc.Provs}
		for k, v := range icfg {
			ev[k] = v
		}
		st.emit(ev)
	}
	close(begin)
	// No operation of this scenario blocks on anything but span.mu, the provider's mutex and the gates
	// (each bounded by Sched.Timeout), so a scenario that has not finished after this bound while a
	// goroutine sits in sync.Mutex.Lock inside sdk/trace is a deadlock -- the subject of the property.
	bound := 20*time.Second + time.Duration(len(sc.Script))*sched.Timeout
	if sc.Stoppers+sc.Unregs > 0 { // tiny provider-level scenarios; a re-entrant deadlock is expected to be seen often
		bound = 3*time.Second + time.Duration(len(sc.Script))*sched.Timeout
	}
	await := func() bool { return st.watch(&wg, bound, 3*time.Second, res) }
	stuck = await()
	if !stuck {
		// every call has returned: read the end time, IsRecording and the kept snapshots once more
		// (as a process of its own: these reads take span.mu and are bounded like everything else)
		start("fin", func(*rand.Rand) {
			if rw := st.rw[0]; rw != nil && sc.Enders > 0 {
				st.emit(map[string]any{"ev": "Call", "op": "ETime", "proc": "fin", "span": 1, "arg": 0})
				st.emit(map[string]any{"ev": "Ret", "op": "ETime", "proc": "fin", "span": 1, "arg": st.etID(1, rw.EndTime()), "val": false})
			}
			st.emit(map[string]any{"ev": "Call", "op": "IsRec", "proc": "fin", "span": 1, "arg": 0})
			st.emit(map[string]any{"ev": "Ret", "op": "IsRec", "proc": "fin", "span": 1, "arg": 0, "val": span.IsRecording()})
			st.reread()
			if sc.Enders > 0 {
				// every mutator once more on the ended span (new keys and keys the snapshot holds), then
				// read every kept snapshot again: nothing may have changed
				st.emit(map[string]any{"ev": "Call", "op": "Post", "proc": "fin", "span": 1, "arg": 0})
				span.AddEvent("post", trace.WithAttributes(attribute.Int("post", 1)))
				span.AddLink(trace.Link{SpanContext: linkSC(9999), Attributes: []attribute.KeyValue{attribute.Int("post", 1)}})
				span.RecordError(errors.New("post"))
				span.SetAttributes(attribute.Int("post", 1), attribute.Int("ia1", -1), tokKey(1, "a").Int(-1), tokKey(1, "b").String("post"))
				span.SetStatus(codes.Error, "post")
				span.SetName("post")
				_, ch := tracer.Start(trace.ContextWithSpan(context.Background(), span), "post-child")
				ch.End()
				st.emit(map[string]any{"ev": "Ret", "op": "Post", "proc": "fin", "span": 1, "arg": 0, "val": false})
				st.reread()
			}
		})
		stuck = await()
	}
	followed, desync, remaining := sched.Stats()
	res.Count("script_steps_followed", int64(followed))
	res.Count("script_steps_desync", int64(desync+remaining))
	if sched.KeepLog && desync+remaining > 0 {
		fmt.Fprintf(os.Stderr, "DESYNC %s\n script=%q\n skipped=%q\n log=%q\n", sc.Name, sc.Script, sched.Skipped, sched.Log)
	}
	for _, k := range sched.Skipped {
		if i := strings.Index(k, "@"); i >= 0 {
			res.Count("desync@"+strings.SplitN(k[i+1:], ":", 2)[0], 1)
		}
	}
	st.mu.Lock()
	nk := len(st.keep)
	handed, nfull, child := append([]int{}, st.handed...), st.nfull, st.child
	st.mu.Unlock()
	res.Count("snapshots_kept", int64(nk))
	if sc.Lim > 0 {
		res.Count("scenarios_small_limits", 1)
	}
	if sc.RT {
		res.Count("scenarios_rt_on", 1)
	} else {
		res.Count("scenarios_rt_off", 1)
	}
	st.emit(map[string]any{"ev": "EndScenario", "quiescent": !stuck, "name": sc.Name, "desync": desync + remaining,
		"handed": handed, "nfull": nfull, "child": child})
	return stuck
}

func randomScenario(r *rand.Rand) Scenario {
	firsts := []string{"attrs", "event", "link", "error", "uerror", "uerror"}
	sc := Scenario{
		RT: r.Intn(3) != 0, NProcs: 1 + r.Intn(3), Enders: 1 + r.Intn(4), EndsPer: 1 + r.Intn(2), TS: r.Intn(2) == 0,
		MutsPer: 1 + r.Intn(3), Children: r.Intn(3), Readers: r.Intn(3), ReadsPer: 1 + r.Intn(3), ETimers: r.Intn(2),
		Perturb: []float64{0, 0.3, 0.7}[r.Intn(3)], Seed: r.Int63(), Muts: []string{}, Tight: r.Intn(3) == 0,
		Provs: r.Intn(3) / 2, Regs: r.Intn(4) / 2,
		Lim: []int{0, 0, 1, 2, 3}[r.Intn(5)], Panickers: r.Intn(3) / 2, RecordOnly: r.Intn(3) == 0,
		Zero: r.Intn(6) == 0, EndInOnStart: r.Intn(12) == 0,
	}
	for i, n := 0, r.Intn(4); i < n; i++ {
		sc.Muts = append(sc.Muts, firsts[r.Intn(len(firsts))])
	}
	// SetStatus / SetName overwrite each other: at most one token of each per scenario is projectable
	if r.Intn(2) == 0 {
		sc.Muts = append(sc.Muts, "status")
	}
	if r.Intn(2) == 0 {
		sc.Muts = append(sc.Muts, "name")
	}
	return sc
}

// countProc counts OnEnd calls and distinct end times of the span currently under stress (probe, bulk).
type countProc struct {
	child atomic.Int64
	n     atomic.Int64
	mu    sync.Mutex
	ets   []time.Time
}

func (p *countProc) OnStart(context.Context, sdktrace.ReadWriteSpan) {}
func (p *countProc) OnEnd(ro sdktrace.ReadOnlySpan) {
	if ro.Name() == "bc" { // a child of the span under stress
		return
	}
	p.child.Store(int64(ro.ChildSpanCount()))
	p.n.Add(1)
	et := ro.EndTime()
	p.mu.Lock()
	for _, x := range p.ets {
		if x.Equal(et) {
			p.mu.Unlock()
			return
		}
	}
	p.ets = append(p.ets, et)
	p.mu.Unlock()
}
func (p *countProc) Shutdown(context.Context) error   { return nil }
func (p *countProc) ForceFlush(context.Context) error { return nil }
func (p *countProc) take() (int, int) {
	p.mu.Lock()
	defer p.mu.Unlock()
	n, k := int(p.n.Swap(0)), len(p.ets)
	p.ets = p.ets[:0]
	return n, k
}

// probe reports (1) the order in which one End call fires the instrumentation points on the recording
// path = the shape of End, and (2) if there is a span.end.checked point (an unlock window), what the
// two-ender schedule "both reach span.end.checked, then one after the other proceeds" does: two
// deliveries = the window is unguarded ("window"), one = End re-checks after the relock ("recheck").
func probe() {
	setRT(true)
	points := []string{}
	var mu sync.Mutex
	sdktrace.SetVerifHook(func(point string, _ ...any) {
		mu.Lock()
		points = append(points, point)
		mu.Unlock()
	})
	tp := sdktrace.NewTracerProvider(sdktrace.WithSpanProcessor(&recProc{idx: 1}))
	_, s := tp.Tracer("probe").Start(context.Background(), "probe")
	s.End() // one call: the order of the points on the recording path is the shape of End
	sdktrace.SetVerifHook(nil)
	out := map[string]any{"points": points}
	hasWindow := false
	for _, p := range points {
		hasWindow = hasWindow || p == "span.end.checked"
	}
	if hasWindow {
		cp := &countProc{}
		tp := sdktrace.NewTracerProvider(sdktrace.WithSpanProcessor(cp))
		_, s := tp.Tracer("probe").Start(context.Background(), "probe2")
		var id [2]atomic.Uint64
		in := [2]chan struct{}{make(chan struct{}), make(chan struct{})}
		rel := [2]chan struct{}{make(chan struct{}), make(chan struct{})}
		done := [2]chan struct{}{make(chan struct{}), make(chan struct{})}
		sdktrace.SetVerifHook(func(point string, _ ...any) {
			if point != "span.end.checked" {
				return
			}
			g := goid()
			for i := range id {
				if id[i].Load() == g {
					close(in[i])
					<-rel[i]
				}
			}
		})
		ender := func(i int) {
			id[i].Store(goid())
			s.End()
			close(done[i])
		}
		wait := func(cs ...chan struct{}) bool { // any of cs within the bound
			t := time.After(10 * time.Second)
			for {
				for _, c := range cs {
					select {
					case <-c:
						return true
					default:
					}
				}
				select {
				case <-t:
					return false
				default:
					time.Sleep(50 * time.Microsecond)
				}
			}
		}
		reached := func(c chan struct{}) bool {
			select {
			case <-c:
				return true
			default:
				return false
			}
		}
		go ender(0)
		ok := wait(in[0], done[0])
		go ender(1)
		ok = wait(in[1], done[1]) && ok
		r0, r1 := reached(in[0]), reached(in[1])
		close(rel[0])
		ok = wait(done[0]) && ok
		close(rel[1])
		ok = wait(done[1]) && ok
		sdktrace.SetVerifHook(nil)
		n, _ := cp.take()
		out["two_enders"] = map[string]any{"completed": ok, "reached_window": []bool{r0, r1}, "delivered": n}
	}
	setRT(false)
	out["user_code"] = probeUserCode()
	out["provider"] = probeProvider()
	b, _ := json.Marshal(out)
	fmt.Println(string(b))
}

// probeErr / probePanic run f from inside the user code that RecordError / End's recover branch calls.
type probeErr struct{ f func() }

func (e *probeErr) Error() string { e.f(); return "probe" }

// probeUserCode reports, for RecordError (err.Error()) and for End deferred during a panic (formatting of
// the recovered value), whether span.mu is held while the user code runs ("locked") and, if it is not,
// whether the method re-checks isRecording afterwards: an End is run to completion inside the user code;
// "recheck" = the late exception event is not recorded / the span is delivered once, "norecheck" otherwise.
func probeUserCode() map[string]string {
	within := func(d time.Duration, f func()) bool {
		done := make(chan struct{})
		go func() { f(); close(done) }()
		select {
		case <-done:
			return true
		case <-time.After(d):
			return false
		}
	}
	newSpan := func() (*countProc, *recProc, trace.Span) {
		cp, rp := &countProc{}, &recProc{idx: 1}
		tp := sdktrace.NewTracerProvider(sdktrace.WithSpanProcessor(cp), sdktrace.WithSpanProcessor(rp))
		_, s := tp.Tracer("probe").Start(context.Background(), "probe-user")
		return cp, rp, s
	}
	panicEnd := func(s trace.Span, pv any) {
		defer func() { _ = recover() }()
		defer s.End()
		panic(pv)
	}
	res := map[string]string{}
	// RecordError
	_, _, s := newSpan()
	free := false
	s.RecordError(&probeErr{func() { free = within(500*time.Millisecond, func() { s.IsRecording() }) }})
	s.End()
	switch {
	case !free:
		res["mshape"] = "locked"
	default:
		var keep sdktrace.ReadOnlySpan
		cp, _, s := newSpan()
		_ = cp
		kp := &keepProc{}
		tp := sdktrace.NewTracerProvider(sdktrace.WithSpanProcessor(kp))
		_, s = tp.Tracer("probe").Start(context.Background(), "probe-user2")
		ended := false
		s.RecordError(&probeErr{func() { ended = within(5*time.Second, func() { s.End() }) }})
		keep = kp.ro
		late := false
		if rw, ok := s.(sdktrace.ReadWriteSpan); ok {
			late = len(rw.Events()) > 0
		}
		switch {
		case !ended || keep == nil:
			res["mshape"] = "unknown"
		case late:
			res["mshape"] = "norecheck"
		default:
			res["mshape"] = "recheck"
		}
	}
	// End deferred during a panic
	_, _, s = newSpan()
	free = false
	panicEnd(s, &probeErr{func() { free = within(500*time.Millisecond, func() { s.IsRecording() }) }})
	switch {
	case !free:
		res["pshape"] = "locked"
	default:
		cp, _, s := newSpan()
		ended := false
		panicEnd(s, &probeErr{func() { ended = within(5*time.Second, func() { s.End() }) }})
		n, _ := cp.take()
		switch {
		case !ended:
			res["pshape"] = "unknown"
		case n == 1:
			res["pshape"] = "recheck"
		default:
			res["pshape"] = "norecheck"
		}
	}
	return res
}

// probeProvider: does a RegisterSpanProcessor call made from inside a processor's Shutdown return while
// TracerProvider.Shutdown runs (the lock-free isShutdown pre-check), and does UnregisterSpanProcessor run the
// processor's Shutdown while holding the provider lock (a Tracer() call inside it then blocks)?
func probeProvider() map[string]any {
	try := func(via, act string) bool {
		st := &scState{sched: vh.NewSched(nil, 1)}
		rp := &reProc{st: st, other: &nopProc{}, cb: "Shutdown", act: act}
		tp := sdktrace.NewTracerProvider(sdktrace.WithSpanProcessor(rp))
		rp.tp = tp
		done := make(chan struct{})
		go func() {
			if via == "Shutdown" {
				_ = tp.Shutdown(context.Background())
			} else {
				tp.UnregisterSpanProcessor(rp)
			}
			close(done)
		}()
		select {
		case <-done:
			return true
		case <-time.After(1500 * time.Millisecond):
			return false
		}
	}
	unreg := "locked"
	if try("Unregister", "tracer") {
		unreg = "unlocked"
	}
	return map[string]any{"precheck": try("Shutdown", "register"), "unreg": unreg}
}

type keepProc struct {
	ro sdktrace.ReadOnlySpan
	d0 string
	n  int
}

func (p *keepProc) OnStart(context.Context, sdktrace.ReadWriteSpan) {}
func (p *keepProc) OnEnd(ro sdktrace.ReadOnlySpan)                  { p.ro, p.d0, p.n = ro, digest(ro), p.n+1 }
func (p *keepProc) Shutdown(context.Context) error                  { return nil }
func (p *keepProc) ForceFlush(context.Context) error                { return nil }

// bulk: hook-free volume stress. n spans, each ended by `enders` goroutines at once, runtime/trace
// started (a short tail without it), two counting processors; one summarised trace line per span,
// judged by the same contract (SpanEndContract.tla, event "Bulk").
func bulk(n, enders int, tw *vh.TraceWriter, res *vh.Result) {
	sdktrace.SetVerifHook(nil)
	cps := []*countProc{{}, {}}
	// two providers: every other span is RecordOnly (recording, not sampled)
	tracers := []trace.Tracer{}
	for _, ro := range []bool{false, true} {
		tp := sdktrace.NewTracerProvider(sdktrace.WithSpanProcessor(cps[0]), sdktrace.WithSpanProcessor(cps[1]), sdktrace.WithSampler(decSampler{ro}))
		tracers = append(tracers, tp.Tracer("c10-bulk"))
	}
	rng := rand.New(rand.NewSource(vh.Seed()))
	phase := func(sc, n int, rtOn bool) {
		setRT(rtOn)
		tw.Emit(map[string]any{"ev": "Cfg", "sc": sc, "rt": rtOn, "nprocs": 2, "hooks": false, "name": "bulk", "lim": 0, "sampled": true, "zero": false})
		var wg sync.WaitGroup
		for i := 0; i < n; i++ {
			tracer := tracers[i%2]
			ctx, s := tracer.Start(context.Background(), "b")
			if rng.Intn(2) == 0 {
				s.SetAttributes(attribute.Int("a", i), attribute.Int("a", i+1), attribute.Int("b", i))
			}
			children := 0
			if rng.Intn(4) == 0 { // children started (and ended) before the end: the count must be exact
				for children = 0; children < 1+i%2; children++ {
					_, c := tracer.Start(ctx, "bc")
					c.End()
				}
			}
			var flag atomic.Int32
			k := enders
			if rng.Intn(4) == 0 {
				k = 2 + rng.Intn(enders)
			}
			wg.Add(k)
			for e := 0; e < k; e++ {
				go func() {
					for spins := 0; flag.Load() == 0; spins++ { // start together; never spin unboundedly
						if spins > 200 {
							runtime.Gosched()
						}
					}
					s.End()
					wg.Done()
				}()
			}
			flag.Store(1)
			wg.Wait()
			handed := []int{}
			nets := 0
			for _, cp := range cps {
				c, d := cp.take()
				handed = append(handed, c)
				nets = max(nets, d)
			}
			if handed[0] > 1 || nets > 1 {
				res.Count("bulk_spans_delivered_more_than_once", 1)
			}
			tw.Emit(map[string]any{"ev": "Bulk", "sc": sc, "span": i, "enders": k, "handed": handed, "nets": nets, "rec": s.IsRecording(),
				"sampled": i%2 == 0, "children": children, "child": int(cps[0].child.Load())})
		}
		res.Count("bulk_spans", int64(n))
	}
	phase(0, n, true)
	phase(1, n/8, false)
	setRT(false)
	bulkMut(2, n, tw, res, rng)
	bulkZero(5, n/4, tw, res, rng)
}

// bulkZero: every limit is 0, so a mutation is observable only through the dropped counters. Hammer: 4
// goroutines x 5 calls (SetAttributes with 2 attributes, AddEvent, AddLink, RecordError) on one span. Even
// spans: all of them return, then End: the snapshot's counters must be EXACT (an unsynchronised counter loses
// updates). Odd spans: End races with them: the counters can only be smaller. Then every mutator is called
// once more on the ended span and the snapshot is read again.
func bulkZero(sc, n int, tw *vh.TraceWriter, res *vh.Result, rng *rand.Rand) {
	kp := &keepProc{}
	l := sdktrace.NewSpanLimits()
	l.EventCountLimit, l.LinkCountLimit, l.AttributeCountLimit = 0, 0, 0
	tp := sdktrace.NewTracerProvider(sdktrace.WithSpanProcessor(kp), sdktrace.WithRawSpanLimits(l))
	tracer := tp.Tracer("c10-bulkzero")
	tw.Emit(map[string]any{"ev": "Cfg", "sc": sc, "rt": false, "nprocs": 1, "hooks": false, "name": "bulkzero", "lim": 0, "sampled": true, "zero": true})
	var wg sync.WaitGroup
	for i := 0; i < n; i++ {
		_, s := tracer.Start(context.Background(), "b")
		kp.n, kp.ro = 0, nil
		var flag atomic.Int32
		var want [3]atomic.Int64
		race := i%2 == 1
		for g := 0; g < 4; g++ {
			wg.Add(1)
			seed := rng.Int63()
			go func() {
				defer wg.Done()
				r := rand.New(rand.NewSource(seed))
				for flag.Load() == 0 {
					runtime.Gosched()
				}
				for k := 0; k < 5; k++ {
					switch r.Intn(4) {
					case 0:
						s.SetAttributes(attribute.Int("a", k), attribute.Int("b", k))
						want[0].Add(2)
					case 1:
						s.AddEvent("e")
						want[1].Add(1)
					case 2:
						s.AddLink(trace.Link{SpanContext: linkSC(k + 1)})
						want[2].Add(1)
					case 3:
						s.RecordError(errors.New("x"))
						want[1].Add(1)
					}
				}
			}()
		}
		if race {
			wg.Add(1)
			go func() {
				defer wg.Done()
				for flag.Load() == 0 {
					runtime.Gosched()
				}
				s.End()
			}()
		}
		flag.Store(1)
		wg.Wait()
		s.End()
		ev := map[string]any{"ev": "Bulk3", "sc": sc, "span": i, "exact": !race, "handed": kp.n, "same": true,
			"want": []int64{want[0].Load(), want[1].Load(), want[2].Load()}, "got": []int{0, 0, 0}}
		if kp.ro != nil {
			ev["got"] = []int{kp.ro.DroppedAttributes(), kp.ro.DroppedEvents(), kp.ro.DroppedLinks()}
			s.SetAttributes(attribute.Int("post", 1))
			s.AddEvent("post")
			s.AddLink(trace.Link{SpanContext: linkSC(9)})
			s.RecordError(errors.New("post"))
			ev["same"] = digest(kp.ro) == kp.d0
		}
		tw.Emit(ev)
	}
	res.Count("bulkzero_spans", int64(n))
}

// bulkMut: hook-free volume stress of "mutator overtaken by End". Every span has its event / link /
// attribute storage at the limit (lim entries recorded beforehand); one End and one call of each of
// AddEvent, AddLink, SetAttributes (a key the span holds), RecordError start together. The processor
// keeps the snapshot with a digest; after everybody returned the snapshot is read again. One line per
// span; the contract judges it (snapshot-mutated, torn-mutation, delivered-twice, not-delivered).
func bulkMut(sc0, n int, tw *vh.TraceWriter, res *vh.Result, rng *rand.Rand) {
	for lim := 1; lim <= 3; lim++ {
		kp := &keepProc{}
		l := sdktrace.NewSpanLimits()
		l.EventCountLimit, l.LinkCountLimit, l.AttributeCountLimit = lim, lim, lim
		tp := sdktrace.NewTracerProvider(sdktrace.WithSpanProcessor(kp), sdktrace.WithRawSpanLimits(l))
		tracer := tp.Tracer("c10-bulkmut")
		tw.Emit(map[string]any{"ev": "Cfg", "sc": sc0 + lim - 1, "rt": false, "nprocs": 1, "hooks": false, "name": "bulkmut", "lim": lim, "sampled": true, "zero": false})
		var wg sync.WaitGroup
		for i := 0; i < 2*n/3; i++ {
			_, s := tracer.Start(context.Background(), "b")
			for k := 1; k <= lim; k++ {
				s.AddEvent(fmt.Sprintf("i%d", k))
				s.AddLink(trace.Link{SpanContext: prefillLink(k)})
				s.SetAttributes(attribute.Int(fmt.Sprintf("ia%d", k), k))
			}
			kp.n, kp.ro = 0, nil
			var flag atomic.Int32
			delay := rng.Intn(400) // End a little after the others: their recording checks are under way
			ops := []func(){
				func() {
					for k := 0; k < delay; k++ {
						_ = flag.Load()
					}
					s.End()
				},
			}
			for c := 0; c < 1; c++ {
				ops = append(ops,
					func() { s.AddEvent("late") },
					func() { s.AddLink(trace.Link{SpanContext: linkSC(7)}) },
					func() { s.SetAttributes(attribute.Int("ia1", -1)) },
					func() { s.RecordError(errors.New("late")) })
			}
			for c := 0; c < 3; c++ { // lock contention stretches everybody's way from a check to the next Lock
				ops = append(ops, func() {
					for k := 0; k < 40; k++ {
						s.IsRecording()
					}
				})
			}
			rng.Shuffle(len(ops), func(a, b int) { ops[a], ops[b] = ops[b], ops[a] })
			wg.Add(len(ops))
			for _, op := range ops {
				go func() {
					for spins := 0; flag.Load() == 0; spins++ {
						if spins > 200 {
							runtime.Gosched()
						}
					}
					op()
					wg.Done()
				}()
			}
			flag.Store(1)
			wg.Wait()
			ev := map[string]any{"ev": "Bulk2", "sc": sc0 + lim - 1, "span": i, "handed": kp.n, "same": true,
				"evmiss": 0, "evdrop": 0, "lkmiss": 0, "lkdrop": 0}
			if kp.ro != nil {
				pr := project(kp.ro, nil, lim)
				ev["same"] = digest(kp.ro) == kp.d0
				ev["evmiss"], ev["evdrop"], ev["lkmiss"], ev["lkdrop"] = pr.evmiss, pr.evdrop, pr.lkmiss, pr.lkdrop
				if ev["same"] == false {
					res.Count("bulkmut_snapshots_changed", 1)
				}
			}
			tw.Emit(ev)
		}
		res.Count("bulkmut_spans", int64(2*n/3))
	}
}

// ---------------------------------------------------------------- re-entrant processors
// Processor callbacks (OnStart, OnEnd, ForceFlush, Shutdown) are user code that may call back into the
// provider / tracer / span API. reProc performs one planned action inside one planned callback; the driver
// makes every callback happen (Shutdown once through TracerProvider.Shutdown, once through
// UnregisterSpanProcessor), alone and with other goroutines using the provider at the same time; a watchdog
// decides between finished / deadlock (all parked in SDK frames, two dumps) / inconclusive.
type reProc struct {
	st       *scState
	tp       *sdktrace.TracerProvider
	other    *nopProc
	cb, act  string
	busy     atomic.Bool
	done     atomic.Int64 // times the planned action ran to completion
	spawnWG  sync.WaitGroup
	nworkers atomic.Int64
	lives    sync.Map // span id -> ReadWriteSpan seen in OnStart
}

type nopProc struct{}

func (nopProc) OnStart(context.Context, sdktrace.ReadWriteSpan) {}
func (nopProc) OnEnd(sdktrace.ReadOnlySpan)                     {}
func (nopProc) Shutdown(context.Context) error                  { return nil }
func (nopProc) ForceFlush(context.Context) error                { return nil }

func (p *reProc) run(cb string, ctx context.Context, rw sdktrace.ReadWriteSpan, ro sdktrace.ReadOnlySpan) {
	if cb != p.cb || !p.busy.CompareAndSwap(false, true) { // not the planned callback, or nested inside our own action
		return
	}
	defer p.busy.Store(false)
	worker := func(f func()) { // a helper goroutine the callback waits for (honouring ctx)
		name := fmt.Sprintf("w%d", p.nworkers.Add(1))
		done := make(chan struct{})
		p.spawnWG.Add(1)
		p.st.spawn(name, &p.spawnWG, func(string) { f(); close(done) })
		select {
		case <-done:
		case <-ctx.Done():
		}
	}
	switch p.act {
	case "tracer":
		_, s := p.tp.Tracer("reent").Start(ctx, "reent")
		s.SetAttributes(attribute.Int("x", 1))
		s.End()
	case "register":
		p.tp.RegisterSpanProcessor(&nopProc{})
	case "unregister-self":
		p.tp.UnregisterSpanProcessor(p)
	case "unregister-other":
		p.tp.UnregisterSpanProcessor(p.other)
	case "forceflush":
		_ = p.tp.ForceFlush(ctx)
	case "shutdown":
		_ = p.tp.Shutdown(ctx)
	case "span": // the span being processed
		if rw != nil {
			rw.SetAttributes(attribute.Int("cb", 1))
			rw.AddEvent("cb")
			rw.SetName("cb")
			_, _, _, _ = rw.IsRecording(), rw.Attributes(), rw.Events(), rw.ChildSpanCount()
		}
		if ro != nil {
			_, _, _, _, _ = ro.Name(), ro.Attributes(), ro.Events(), ro.EndTime(), ro.ChildSpanCount()
			if v, ok := p.lives.Load(ro.SpanContext().SpanID()); ok { // the live span the processor kept from OnStart
				live := v.(sdktrace.ReadWriteSpan)
				_, _, _ = live.IsRecording(), live.EndTime(), live.Attributes()
				live.SetAttributes(attribute.Int("late", 1))
				live.End()
			}
		}
	case "self-end", "self-setname", "self-setattrs", "self-addevent", "self-recorderror", "self-setstatus":
		// the span the callback was called for (OnEnd: the ReadWriteSpan kept from OnStart)
		live := rw
		if live == nil && ro != nil {
			if v, ok := p.lives.Load(ro.SpanContext().SpanID()); ok {
				live = v.(sdktrace.ReadWriteSpan)
			}
		}
		if live == nil || live.Name() == "reent" {
			return
		}
		switch p.act {
		case "self-end":
			live.End()
		case "self-setname":
			live.SetName("cb")
		case "self-setattrs":
			live.SetAttributes(attribute.Int("cb", 1))
		case "self-addevent":
			live.AddEvent("cb")
		case "self-recorderror":
			live.RecordError(errors.New("cb"))
		case "self-setstatus":
			live.SetStatus(codes.Error, "cb")
		}
	case "worker-register":
		worker(func() { p.tp.RegisterSpanProcessor(&nopProc{}) })
	case "worker-unregister":
		worker(func() { p.tp.UnregisterSpanProcessor(p.other) })
	case "worker-tracer":
		worker(func() { _, s := p.tp.Tracer("reent").Start(context.Background(), "reent"); s.End() })
	}
	p.done.Add(1)
}

func (p *reProc) OnStart(ctx context.Context, s sdktrace.ReadWriteSpan) {
	if s.Name() != "reent" {
		p.lives.Store(s.SpanContext().SpanID(), s)
		p.run("OnStart", ctx, s, nil)
	}
}
func (p *reProc) OnEnd(s sdktrace.ReadOnlySpan) {
	if s.Name() != "reent" {
		p.run("OnEnd", context.Background(), nil, s)
	}
}
func (p *reProc) ForceFlush(ctx context.Context) error {
	p.run("ForceFlush", ctx, nil, nil)
	return nil
}
func (p *reProc) Shutdown(ctx context.Context) error { p.run("Shutdown", ctx, nil, nil); return nil }

func reentMatrix(tw *vh.TraceWriter, res *vh.Result, hooks bool) {
	sdktrace.SetVerifHook(nil)
	cbs := []string{"OnStart", "OnEnd", "ForceFlush", "Shutdown"}
	self := []string{"self-end", "self-setname", "self-setattrs", "self-addevent", "self-recorderror", "self-setstatus"}
	acts := append([]string{"tracer", "register", "unregister-self", "unregister-other", "forceflush", "shutdown", "span",
		"worker-register", "worker-unregister", "worker-tracer"}, self...)
	scn := 0
	deadly := map[string]bool{} // combinations seen to deadlock are not repeated with concurrent users
	for _, rtOn := range []bool{false, true} {
		setRT(rtOn) // with the execution tracer on, Start ends with runtimeTrace and End with the task end
		for _, conc := range []bool{false, true} {
			for _, cb := range cbs {
				for _, act := range acts {
					for _, via := range []string{"Shutdown", "Unregister"} {
						key := cb + "/" + act + "/" + via
						spanCell := (cb == "OnStart" || cb == "OnEnd") && (strings.HasPrefix(act, "self-") || act == "span" || act == "tracer")
						if (cb != "Shutdown" && via == "Unregister") || deadly[key] || (rtOn && !spanCell) ||
							(strings.HasPrefix(act, "self-") && cb != "OnStart" && cb != "OnEnd") {
							continue
						}
						name := fmt.Sprintf("reent:%s:%s:via-%s:conc=%v:rt=%v", cb, act, via, conc, rtOn)
						sc := Scenario{Name: name}
						st := &scState{scn: scn, tw: tw, sched: vh.NewSched(nil, 1), sc: sc, spans: map[trace.SpanID]int{},
							ets: map[int][]time.Time{}, kinds: map[int]string{}, rw: map[int]sdktrace.ReadWriteSpan{}}
						cur.Store(st)
						st.emit(map[string]any{"ev": "Cfg", "rt": rtOn, "nprocs": 0, "hooks": hooks, "name": name, "lim": 0, "sampled": true, "zero": false})
						st.scripted = false
						rp := &reProc{st: st, other: &nopProc{}, cb: cb, act: act}
						tp := sdktrace.NewTracerProvider(sdktrace.WithSpanProcessor(rp), sdktrace.WithSpanProcessor(rp.other),
							sdktrace.WithSampler(decSampler{scn%3 == 2}))
						rp.tp = tp
						var wg sync.WaitGroup
						wg.Add(1)
						st.spawn("d", &wg, func(string) {
							ctx, s := tp.Tracer("reent-driver").Start(context.Background(), "driven")
							s.SetName("driven") // the user's own calls on the span must return whatever the callbacks did
							_ = s.IsRecording()
							_, c := tp.Tracer("reent-driver").Start(ctx, "driven-child")
							c.End()
							s.End()
							s.End()
							_ = s.IsRecording()
							s.SetName("driven")
							_ = tp.ForceFlush(context.Background())
							if via == "Shutdown" {
								_ = tp.Shutdown(context.Background())
							} else {
								tp.UnregisterSpanProcessor(rp)
								_ = tp.Shutdown(context.Background())
							}
							rp.spawnWG.Wait()
						})
						if conc {
							for i := 0; i < 2; i++ {
								wg.Add(1)
								st.spawn(fmt.Sprintf("c%d", i), &wg, func(string) {
									for k := 0; k < 20; k++ {
										_, s := tp.Tracer(fmt.Sprintf("t%d", k%3)).Start(context.Background(), "reent")
										s.End()
										if k%5 == 0 {
											_ = tp.ForceFlush(context.Background())
										}
									}
								})
							}
						}
						if st.watch(&wg, 500*time.Millisecond, time.Second, res) {
							deadly[key] = true
						}
						if rp.done.Load() == 0 && !deadly[key] {
							res.Count("reent_action_never_ran", 1)
						}
						st.emit(map[string]any{"ev": "EndScenario", "quiescent": !deadly[key], "name": name, "desync": 0,
							"handed": []int{}, "nfull": 0, "child": -1})
						res.Executed++
						res.Count("reent_scenarios", 1)
						scn++
					}
				}
			}
		}
	}
	setRT(false)
}

func main() {
	if len(os.Args) < 2 {
		fmt.Println("usage: c10 probe|random|scripts|bulk|reent ...")
		os.Exit(3)
	}
	if os.Args[1] == "probe" {
		probe()
		return
	}
	fs := flag.NewFlagSet(os.Args[1], flag.ExitOnError)
	n := fs.Int("n", 200, "")
	in := fs.String("in", "", "")
	out := fs.String("out", "trace.ndjson", "")
	resF := fs.String("res", "result.json", "")
	hooks := fs.Bool("hooks", true, "the tree has the span.end.* instrumentation points")
	enders := fs.Int("enders", 4, "bulk: goroutines ending each span")
	impl := fs.Int("impl", 0, "record the implementation-level trace of the first N scenarios as well (-1: all)")
	fs.Parse(os.Args[2:])
	tw, err := vh.NewTraceWriter(*out)
	vh.Must(err)
	res := vh.NewResult()
	otel.SetErrorHandler(otel.ErrorHandlerFunc(func(error) {}))
	var scs []Scenario
	switch os.Args[1] {
	case "reent":
		reentMatrix(tw, res, *hooks)
	case "panics": // user code called by the SDK panics (panic.go, SpanPanic.tla)
		panicsMode(*n, *in, tw, res, *hooks)
	case "bulk":
		bulk(*n, *enders, tw, res)
		res.Executed = int64(*n + *n/8 + 2**n/3*3 + *n/4)
	case "random":
		r := rand.New(rand.NewSource(vh.Seed()))
		for i := 0; i < *n; i++ {
			scs = append(scs, randomScenario(r))
			scs[i].Impl = *impl < 0 || i < *impl
		}
		// few runtime/trace switches: all scenarios with tracing on first
		sort.SliceStable(scs, func(i, j int) bool { return scs[i].RT && !scs[j].RT })
	case "scripts":
		b, err := os.ReadFile(*in)
		vh.Must(err)
		vh.Must(json.Unmarshal(b, &scs))
		for i := range scs {
			if scs[i].Seed == 0 {
				scs[i].Seed = vh.Seed() + int64(i)
			}
			scs[i].Impl = *impl < 0 || i < *impl
		}
	default:
		os.Exit(3)
	}
	nstuck := 0
	for i, sc := range scs {
		if runScenario(i, sc, tw, res, *hooks) {
			nstuck++
		}
		res.Executed++
		if i < 2 {
			res.Sample(sc)
		}
		if nstuck >= 3 {
			res.Count("aborted_after_stuck_scenarios", 1)
			break
		}
	}
	setRT(false)
	res.Evaluations = res.Executed
	vh.Must(tw.Close())
	res.Count("trace_lines", tw.N)
	vh.Must(res.Write(*resF))
}
