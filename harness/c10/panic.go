// c10 panics: user code called by span / tracer / provider methods PANICS (SpanPanic.tla).
//
//	c10 panics -in FILE -out TRACE -res R     the scenarios TLC enumerated (BEHAVIOUR lines of MC_SpanPanic)
//	c10 panics -n N     -out TRACE -res R     seeded random scenarios of the same class (more callers, more ops)
//
// One handler goroutine h makes a call whose user code (the natural gate: err.Error() of RecordError, the
// Error()/String() of the value End's recover branch formats, SpanProcessor.OnEnd/OnStart/Shutdown/ForceFlush,
// Sampler, IDGenerator) returns or panics; the panic unwinds through the handler's deferred span.End and is
// recovered by the handler's caller (recovery middleware). Other goroutines call span / provider methods before
// the handler's call, while the handler is parked inside the user code, and after the handler has finished. The
// API-level history (Call / Ret / Unwind / UPanic / OnEnd / Reread / Stuck) is judged by TLC
// (Trace_SpanPanic.tla); the watchdog of main.go decides between finished / deadlock / inconclusive.
package main

import (
	"context"
	crand "crypto/rand"
	"encoding/json"
	"errors"
	"fmt"
	"math/rand"
	"os"
	"runtime"
	"strings"
	"sync"
	"sync/atomic"
	"time"

	"go.opentelemetry.io/otel/attribute"
	sdktrace "go.opentelemetry.io/otel/sdk/trace"
	"go.opentelemetry.io/otel/sdk/verifh/vh"
	"go.opentelemetry.io/otel/trace"
)

type PCaller struct {
	Name  string `json:"name"`
	Op    string `json:"op"`    // End | Mut | IsRec | Child | Reg | SD | Unreg | FF | RecErr
	Phase string `json:"phase"` // before | during | after
}

type PScenario struct {
	Name       string    `json:"name"`
	Gate       string    `json:"gate"`   // where the handler's user code runs
	Out        string    `json:"out"`    // ok | panic
	HDefer     bool      `json:"hdefer"` // the handler has `defer span.End()`
	RT         bool      `json:"rt"`
	RecordOnly bool      `json:"recordOnly"`
	Flavor     int       `json:"flavor"` // 0: panic(value), 1: runtime error (nil pointer dereference; index out of range while runtime/trace runs)
	Callers    []PCaller `json:"callers"`
	Seed       int64     `json:"seed"`
}

// userGate is the user code of the scenario: it runs once, in the handler's goroutine, at the scenario's gate.
type userGate struct {
	st      *scState
	ps      *PScenario
	fired   atomic.Bool // the user code has run
	raised  atomic.Bool // ... and panicked
	in      atomic.Value
	reached chan struct{}
	release chan struct{}
}

type userPanic struct{ g *userGate }

func (u userPanic) String() string { return "user panic at " + u.g.ps.Gate }

// hit is called by every user-supplied component; it is the gate only for the handler at the scenario's gate.
func (g *userGate) hit(gate string, p int) {
	if g == nil || g.ps.Gate != gate {
		return
	}
	pi := me()
	if pi == nil || pi.name != "h" || !g.fired.CompareAndSwap(false, true) {
		return
	}
	close(g.reached)
	select {
	case <-g.release:
	case <-time.After(10 * time.Second): // never a verdict: the driver always releases
	}
	if g.ps.Out != "panic" {
		return
	}
	g.raised.Store(true)
	g.st.emit(map[string]any{"ev": "UPanic", "proc": pi.name, "gate": gate, "p": p})
	if g.ps.Flavor == 1 && !g.ps.RT { // the classic typed-nil mistake: a method dereferences a nil receiver
		var q *PScenario
		_ = q.Name
	}
	if g.ps.Flavor == 1 {
		// While runtime/trace runs the runtime error is one the runtime raises by a call, not by a signal: with a
		// sigpanic frame on the stack the execution tracer's frame-pointer unwinder (runtime.fpTracebackPCs, go1.23)
		// now and then segfaults at the goroutine's next unpark and takes the whole harness down (about 1 run in
		// 100). To the SDK both are the same thing: a runtime.Error unwinding through its frames.
		_ = g.ps.Callers[len(g.ps.Callers)+p]
	}
	panic(userPanic{g})
}

// own: is x the panic the user code of this scenario raised?
func (g *userGate) own(x any) bool {
	if !g.raised.Load() {
		return false
	}
	if u, ok := x.(userPanic); ok {
		return u.g == g
	}
	if e, ok := x.(runtime.Error); ok && g.ps.Flavor == 1 {
		return strings.Contains(e.Error(), "nil pointer dereference") || strings.Contains(e.Error(), "index out of range")
	}
	return false
}

type pGateErr struct {
	g   *userGate
	msg string
}

func (e *pGateErr) Error() string { e.g.hit("err.Error", 0); return e.msg }

// pFmtPanic / pFmtPanicS: the value the handler panics with at gate panic.Format (an error / a fmt.Stringer).
type pFmtPanic struct{ g *userGate }

func (v *pFmtPanic) Error() string { v.g.hit("panic.Format", 0); return "handler panic" }

type pFmtPanicS struct{ v *pFmtPanic }

func (s pFmtPanicS) String() string { return s.v.Error() }

type panicProc struct {
	recProc
	g *userGate
}

func (p *panicProc) OnStart(ctx context.Context, s sdktrace.ReadWriteSpan) {
	p.recProc.OnStart(ctx, s)
	p.g.hit("proc.OnStart", 1)
}

func (p *panicProc) OnEnd(ro sdktrace.ReadOnlySpan) {
	p.recProc.OnEnd(ro) // the processor has been handed the span: logged before its own code goes wrong
	if ro.Name() == "shared" {
		p.g.hit("proc.OnEnd", 1)
	}
}

func (p *panicProc) Shutdown(context.Context) error {
	p.g.hit("proc.Shutdown", 1)
	p.g.hit("proc.Shutdown.unreg", 1)
	return nil
}

func (p *panicProc) ForceFlush(context.Context) error { p.g.hit("proc.ForceFlush", 1); return nil }

type pSampler struct {
	decSampler
	g *userGate
}

func (s pSampler) ShouldSample(p sdktrace.SamplingParameters) sdktrace.SamplingResult {
	s.g.hit("sampler", 0)
	return s.decSampler.ShouldSample(p)
}

type pIDGen struct{ g *userGate }

func (i pIDGen) NewIDs(context.Context) (trace.TraceID, trace.SpanID) {
	i.g.hit("idgen", 0)
	var t trace.TraceID
	var s trace.SpanID
	_, _ = crand.Read(t[:])
	_, _ = crand.Read(s[:])
	return t, s
}

func (i pIDGen) NewSpanID(context.Context, trace.TraceID) trace.SpanID {
	i.g.hit("idgen", 0)
	var s trace.SpanID
	_, _ = crand.Read(s[:])
	return s
}

func sameVal(a, b any) (eq bool) {
	defer func() { _ = recover() }() // uncomparable dynamic types
	return a == b
}

func mainOp(gate string) string {
	switch gate {
	case "err.Error":
		return "RecErr"
	case "panic.Format":
		return "Raise"
	case "proc.OnEnd":
		return "End"
	case "idgen", "sampler", "proc.OnStart":
		return "Child"
	case "proc.Shutdown":
		return "SD"
	case "proc.Shutdown.unreg":
		return "Unreg"
	}
	return "FF"
}

func runPanicScenario(scn int, ps PScenario, tw *vh.TraceWriter, res *vh.Result, hooks bool) (stuck bool) {
	sdktrace.SetVerifHook(nil)
	setRT(ps.RT)
	sc := Scenario{Name: ps.Name, RT: ps.RT, NProcs: 2, RecordOnly: ps.RecordOnly}
	st := &scState{scn: scn, tw: tw, sched: vh.NewSched(nil, ps.Seed+7), sc: sc, spans: map[trace.SpanID]int{}, ets: map[int][]time.Time{},
		kinds: map[int]string{}, rw: map[int]sdktrace.ReadWriteSpan{}, handed: make([]int, 12), child: -1}
	cur.Store(st)
	st.emit(map[string]any{"ev": "Cfg", "rt": ps.RT, "nprocs": 2, "hooks": hooks, "name": ps.Name, "lim": 0, "sampled": !ps.RecordOnly, "zero": false,
		"gate": ps.Gate, "out": ps.Out})
	ug := &userGate{st: st, ps: &ps, reached: make(chan struct{}), release: make(chan struct{})}
	p1, p2 := &panicProc{recProc: recProc{idx: 1}, g: ug}, &recProc{idx: 2}
	tp := sdktrace.NewTracerProvider(sdktrace.WithSampler(pSampler{decSampler{ps.RecordOnly}, ug}), sdktrace.WithIDGenerator(pIDGen{ug}),
		sdktrace.WithSpanProcessor(p1), sdktrace.WithSpanProcessor(p2))
	tracer := tp.Tracer("c10-panics")
	rng := rand.New(rand.NewSource(ps.Seed))

	var span trace.Span
	var swg sync.WaitGroup
	swg.Add(1)
	st.spawn("main", &swg, func(string) {
		_, sp := tracer.Start(context.Background(), "shared")
		st.mu.Lock()
		st.spans[sp.SpanContext().SpanID()] = 1
		st.mu.Unlock()
		span = sp
	})
	finish := func(stuck bool) bool {
		st.mu.Lock()
		handed, nfull, child := append([]int{}, st.handed...), st.nfull, st.child
		st.mu.Unlock()
		fired, raised := ug.fired.Load(), ug.raised.Load()
		res.Count("panics_scenarios", 1)
		if fired {
			res.Count("panics_gate_reached@"+ps.Gate, 1)
		}
		if raised {
			res.Count("panics_user_code_panicked@"+ps.Gate, 1)
		}
		st.emit(map[string]any{"ev": "EndScenario", "quiescent": !stuck, "name": ps.Name, "desync": 0, "handed": handed, "nfull": nfull,
			"child": child, "fired": fired, "raised": raised})
		return stuck
	}
	if st.watch(&swg, 5*time.Second, 2*time.Second, res) {
		return finish(true)
	}

	var tok int64
	cno, regNo := int64(10), int64(2)
	// one API call of process `name`, logged as Call, then Ret or -- when a panic leaves it -- Unwind (and the panic goes on)
	var do func(name, op string)
	do = func(name, op string) {
		spanNo, arg := 1, 0
		var f func() bool
		var post func()
		switch op {
		case "End":
			f = func() bool { span.End(); st.endRets.Add(1); return false }
		case "Mut":
			t := int(atomic.AddInt64(&tok, 1))
			st.mu.Lock()
			st.kinds[t] = "attrs"
			st.mu.Unlock()
			arg = t
			f = func() bool { applyMutation(span, "attrs", t); return false }
		case "RecErr":
			t := int(atomic.AddInt64(&tok, 1))
			st.mu.Lock()
			st.kinds[t] = "error"
			st.mu.Unlock()
			arg, op = t, "Mut"
			e := &pGateErr{g: ug, msg: fmt.Sprintf("t%d", t)}
			f = func() bool { span.RecordError(e); return false }
		case "IsRec":
			f = func() bool { return span.IsRecording() }
		case "Child":
			c := int(atomic.AddInt64(&cno, 1))
			arg = c
			f = func() bool {
				_, ch := tracer.Start(trace.ContextWithSpan(context.Background(), span), "child")
				st.mu.Lock()
				st.spans[ch.SpanContext().SpanID()] = c
				st.mu.Unlock()
				post = func() { // the child is ended outside the logged Start call
					st.emit(map[string]any{"ev": "Call", "op": "End", "proc": name, "span": c, "arg": 0})
					ch.End()
					st.emit(map[string]any{"ev": "Ret", "op": "End", "proc": name, "span": c, "arg": 0, "val": false})
				}
				return false
			}
		case "Reg":
			k := int(atomic.AddInt64(&regNo, 1)) // every registration is a processor of its own: p3, p4, ...
			spanNo, arg = 0, k
			f = func() bool { tp.RegisterSpanProcessor(&recProc{idx: k}); return false }
		case "SD":
			spanNo = 0
			f = func() bool { _ = tp.Shutdown(context.Background()); return false }
		case "Unreg":
			spanNo, arg = 0, 1
			f = func() bool { tp.UnregisterSpanProcessor(p1); return false }
		case "FF":
			spanNo, op = 0, "Prov"
			f = func() bool { _ = tp.ForceFlush(context.Background()); return false }
		default:
			return
		}
		st.emit(map[string]any{"ev": "Call", "op": op, "proc": name, "span": spanNo, "arg": arg, "wa": 0, "we": 0, "wl": 0})
		defer func() {
			if x := recover(); x != nil {
				st.emit(map[string]any{"ev": "Unwind", "op": op, "proc": name, "span": spanNo, "arg": arg, "own": ug.own(x), "msg": fmt.Sprint(x)})
				panic(x)
			}
		}()
		val := f()
		st.emit(map[string]any{"ev": "Ret", "op": op, "proc": name, "span": spanNo, "arg": arg, "val": val})
		if post != nil {
			post()
		}
	}

	var wg sync.WaitGroup
	hdone := make(chan struct{})
	handler := func(name string) {
		defer close(hdone)
		var ambient any
		defer func() { // the caller of the handler: recovery middleware
			if x := recover(); x != nil {
				res.Count("panics_recovered_by_middleware", 1)
				if !ug.own(x) && !sameVal(x, ambient) {
					st.emit(map[string]any{"ev": "Panic", "proc": name, "span": 1, "msg": fmt.Sprint(x)})
				}
			}
		}()
		if ps.HDefer {
			// deferred calls run last-in-first-out: log the call, End (called by the runtime itself, so that its
			// recover() sees the panic), log how it ended
			defer func() {
				x := recover()
				switch {
				case x == nil || sameVal(x, ambient): // returned / ended the span and continued the panic it was deferred in
					st.endRets.Add(1)
					st.emit(map[string]any{"ev": "Ret", "op": "End", "proc": name, "span": 1, "arg": 0, "val": x != nil})
				default:
					st.emit(map[string]any{"ev": "Unwind", "op": "End", "proc": name, "span": 1, "arg": 0, "own": ug.own(x), "msg": fmt.Sprint(x)})
				}
				if x != nil {
					panic(x)
				}
			}()
			defer span.End()
			defer func() {
				if x := recover(); x != nil {
					ambient = x
					st.emit(map[string]any{"ev": "Call", "op": "End", "proc": name, "span": 1, "arg": 0, "deferred": true})
					panic(x)
				}
				st.emit(map[string]any{"ev": "Call", "op": "End", "proc": name, "span": 1, "arg": 0, "deferred": true})
			}()
		}
		op := mainOp(ps.Gate)
		if op == "Raise" {
			v := &pFmtPanic{ug}
			if ps.Seed%2 == 0 {
				panic(pFmtPanicS{v})
			}
			panic(v)
		}
		do(name, op)
	}
	phase := func(ph string) []PCaller {
		out := []PCaller{}
		for _, c := range ps.Callers {
			if c.Phase == ph {
				out = append(out, c)
			}
		}
		return out
	}
	caller := func(c PCaller) {
		wg.Add(1)
		st.spawn(c.Name, &wg, func(name string) {
			defer func() { // a caller's own call never runs user code that panics: whatever comes out is the SDK's
				if x := recover(); x != nil {
					st.emit(map[string]any{"ev": "Panic", "proc": name, "span": 1, "msg": fmt.Sprint(x)})
				}
			}()
			do(name, c.Op)
		})
	}
	bound, gap := 2*time.Second, time.Second
	// ---- before
	for _, c := range phase("before") {
		caller(c)
		if st.watch(&wg, bound, gap, res) {
			return finish(true)
		}
	}
	// ---- the handler, up to its user code
	wg.Add(1)
	st.spawn("h", &wg, handler)
	select {
	case <-ug.reached:
	case <-hdone:
	case <-time.After(5 * time.Second):
	}
	// ---- during: the calls are made while the handler is inside the user code; they may have to wait for it
	during := phase("during")
	for _, c := range during {
		caller(c)
	}
	if len(during) > 0 {
		lim := time.Duration(50+rng.Intn(400)) * time.Microsecond
		for t0 := time.Now(); time.Since(t0) < lim; {
			n := 0
			for _, c := range during {
				if _, ok := st.live.Load(c.Name); ok {
					n++
				}
			}
			if n == 0 {
				break
			}
			runtime.Gosched()
		}
	}
	close(ug.release)
	select {
	case <-hdone:
	case <-time.After(bound):
	}
	// ---- after
	for _, c := range phase("after") {
		caller(c)
	}
	if st.watch(&wg, bound, gap, res) {
		return finish(true)
	}
	// every call is over: what do the span and the kept snapshots say now?
	wg.Add(1)
	st.spawn("fin", &wg, func(string) {
		st.emit(map[string]any{"ev": "Call", "op": "IsRec", "proc": "fin", "span": 1, "arg": 0})
		st.emit(map[string]any{"ev": "Ret", "op": "IsRec", "proc": "fin", "span": 1, "arg": 0, "val": span.IsRecording()})
		span.SetAttributes(attribute.Int("post", 1))
		span.AddEvent("post")
		span.RecordError(errors.New("post"))
		span.SetName("post")
		st.reread()
	})
	return finish(st.watch(&wg, bound, gap, res))
}

var pGates = []string{"err.Error", "panic.Format", "proc.OnEnd", "idgen", "sampler", "proc.OnStart", "proc.Shutdown", "proc.Shutdown.unreg", "proc.ForceFlush"}

func randomPanicScenario(r *rand.Rand, i int) PScenario {
	ops := []string{"End", "End", "Mut", "Mut", "IsRec", "Child", "RecErr", "Reg", "FF", "SD", "Unreg"}
	phases := []string{"before", "during", "during", "after", "after"}
	ps := PScenario{Name: fmt.Sprintf("rnd-%d", i), Gate: pGates[r.Intn(len(pGates))], Out: []string{"panic", "panic", "panic", "ok"}[r.Intn(4)],
		HDefer: r.Intn(3) != 0, RT: r.Intn(2) == 0, RecordOnly: r.Intn(4) == 0, Flavor: r.Intn(2), Seed: r.Int63()}
	if ps.Gate == "panic.Format" {
		ps.HDefer = true
	}
	for k, n := 0, 2+r.Intn(4); k < n; k++ {
		ps.Callers = append(ps.Callers, PCaller{Name: fmt.Sprintf("c%d", k+1), Op: ops[r.Intn(len(ops))], Phase: phases[r.Intn(len(phases))]})
	}
	return ps
}

func panicsMode(n int, in string, tw *vh.TraceWriter, res *vh.Result, hooks bool) {
	var pss []PScenario
	if in != "" {
		b, err := os.ReadFile(in)
		vh.Must(err)
		vh.Must(json.Unmarshal(b, &pss))
		for i := range pss {
			if pss[i].Seed == 0 {
				pss[i].Seed = vh.Seed() + int64(i)
			}
		}
	} else {
		r := rand.New(rand.NewSource(vh.Seed()))
		for i := 0; i < n; i++ {
			pss = append(pss, randomPanicScenario(r, i))
		}
	}
	// few runtime/trace switches
	rtFirst := []PScenario{}
	for _, on := range []bool{true, false} {
		for _, ps := range pss {
			if ps.RT == on {
				rtFirst = append(rtFirst, ps)
			}
		}
	}
	nstuck := 0
	for i, ps := range rtFirst {
		if runPanicScenario(i, ps, tw, res, hooks) {
			nstuck++
		}
		res.Executed++
		if i < 2 {
			res.Sample(ps)
		}
		if nstuck >= 4 { // every stuck scenario costs seconds of watchdog and leaks its goroutines
			res.Count("aborted_after_stuck_scenarios", 1)
			break
		}
	}
	setRT(false)
}
