package main

import (
	"flag"
	"fmt"
	"math/rand"
	"runtime"
	"sort"

	"go.opentelemetry.io/otel/attribute"
	"go.opentelemetry.io/otel/sdk/verifh/vh"
)

// ---------------------------------------------------------------- seeded random worlds

var kinds = []string{"Counter", "UpDownCounter", "Histogram", "Gauge", "ObsCounter", "ObsUpDownCounter", "ObsGauge"}

func defaultAgg(kind string) string {
	switch kind {
	case "Histogram":
		return "hist"
	case "Gauge", "ObsGauge":
		return "last"
	}
	return "sum"
}

// the SDK's default explicit boundaries (DefaultAggregationSelector), in float64
var defaultBounds = []float64{0, 5, 10, 25, 50, 75, 100, 250, 500, 750, 1000, 2500, 5000, 7500, 10000}

func scaled(b []float64, unit int64) []int64 {
	out := make([]int64, 0, len(b))
	for _, x := range b {
		out = append(out, int64(x)*unit)
	}
	return out
}

func pickBounds(rng *rand.Rand) []int64 {
	cands := []int64{-8, -4, 0, 4, 8, 12, 20, 40}
	out := []int64{}
	for _, c := range cands {
		if rng.Intn(3) == 0 {
			out = append(out, c)
		}
	}
	return out
}

func randomStream(rng *rand.Rand, kind string, float bool, name string, special bool) StreamSpec {
	sp := StreamSpec{Kind: kind, Float: float, Name: name}
	m := ModelCfg{Hb: []int64{}, Async: len(kind) > 3 && kind[:3] == "Obs", Keep: KeepCfg{All: true, Keys: []string{}},
		Res: ResCfg{Kind: "default", Bounds: []int64{}}}
	unit := sp.unit()
	// aggregation
	m.Agg = defaultAgg(kind)
	if rng.Intn(2) == 0 {
		sp.AggView = true
		opts := []string{"sum", "hist", "expo", "drop"}
		if kind == "Gauge" || kind == "ObsGauge" {
			opts = []string{"last", "hist", "expo", "drop"}
		}
		m.Agg = opts[rng.Intn(len(opts))]
		if rng.Intn(8) != 0 && m.Agg == "drop" {
			m.Agg = opts[rng.Intn(2)]
		}
	}
	switch m.Agg {
	case "hist":
		if sp.AggView {
			m.Hb = pickBounds(rng)
			if special && rng.Intn(2) == 0 {
				m.Hb = []int64{}
			}
		} else if kind == "Histogram" && rng.Intn(3) == 0 {
			sp.Advisory = true
			m.Hb = pickBounds(rng)
			if len(m.Hb) == 0 {
				sp.Advisory = false
			}
		}
		if !sp.AggView && !sp.Advisory {
			m.Hb = scaled(defaultBounds, unit)
		}
	case "expo":
		m.Maxsize = []int{2, 3, 4, 160}[rng.Intn(4)] // (MaxSize 1 underflows the scale: C07's subject)
	}
	// reservoir
	switch rng.Intn(6) {
	case 0, 1:
		ks := []int{1, 2, 3, 5, 8}
		if special {
			ks = []int{0, 0, 1}
		}
		m.Res = ResCfg{Kind: "fixed", K: ks[rng.Intn(len(ks))], Bounds: []int64{}}
	case 2:
		b := pickBounds(rng)
		if special && rng.Intn(2) == 0 {
			b = []int64{}
		}
		m.Res = ResCfg{Kind: "hist", Bounds: b}
	case 3:
		m.Res = ResCfg{Kind: "keepall", Bounds: []int64{}}
	}
	// attribute filter
	switch rng.Intn(5) {
	case 0, 1:
		keys := []string{}
		for _, k := range allKeys {
			if rng.Intn(2) == 0 {
				keys = append(keys, k)
			}
		}
		m.Keep = KeepCfg{All: false, Keys: keys}
		sp.KeepMode = []string{"allow", "deny", "func"}[rng.Intn(3)]
	case 2:
		m.Keep = KeepCfg{All: false, Keys: []string{"a"}}
		sp.KeepMode = "allow"
	}
	sp.Model = m
	return sp
}

func attrPool(rng *rand.Rand) [][]attribute.KeyValue {
	mk := func(k string, j int) attribute.KeyValue {
		switch k {
		case "a":
			return attribute.String("a", []string{"p", "q", "r"}[j%3])
		case "b":
			return attribute.Int("b", j%2)
		case "x":
			return attribute.Bool("x", j%2 == 0)
		default:
			if j%2 == 0 {
				return attribute.StringSlice("y", []string{"s", "t"})
			}
			return attribute.Float64("y", 1.5)
		}
	}
	pool := [][]attribute.KeyValue{{}}
	empty := attribute.NewSet()
	seenSets := map[attribute.Distinct]bool{empty.Equivalent(): true}
	for len(pool) < 9 {
		var as []attribute.KeyValue
		for _, k := range allKeys {
			if rng.Intn(5) < 3 {
				as = append(as, mk(k, rng.Intn(6)))
			}
		}
		rng.Shuffle(len(as), func(i, j int) { as[i], as[j] = as[j], as[i] })
		set := attribute.NewSet(as...)
		d := set.Equivalent()
		if seenSets[d] {
			continue
		}
		seenSets[d] = true
		pool = append(pool, as)
	}
	return pool
}

func randomValue(rng *rand.Rand, in *instrument, special bool) (int64, string) {
	neg := in.kind == "UpDownCounter" || in.kind == "Gauge" || in.kind == "Histogram" || in.kind == "ObsUpDownCounter" || in.kind == "ObsGauge"
	if in.float && in.kind != "Counter" && in.kind != "ObsCounter" {
		p := 40
		if special {
			p = 4
		}
		switch rng.Intn(p) {
		case 0:
			return 0, "nan"
		case 1:
			return 0, "pinf"
		case 2:
			if neg {
				return 0, "ninf"
			}
		}
	}
	vals := []int64{0, 1, 2, 3, 4, 5, 7, 8, 9, 12, 13, 20, 21, 40, 41, 100}
	v := vals[rng.Intn(len(vals))]
	if neg && rng.Intn(4) == 0 {
		v = -v
	}
	return v, "fin"
}

func randomCtx(rng *rand.Rand) string {
	switch rng.Intn(10) {
	case 0, 1, 2:
		return "none"
	case 3, 4:
		return "unsampled"
	}
	return "sampled"
}

func random(args []string) {
	fs := flag.NewFlagSet("random", flag.ExitOnError)
	n := fs.Int("n", 30, "")
	out := fs.String("out", "", "")
	resPath := fs.String("res", "", "")
	fs.Parse(args)
	tw, err := vh.NewTraceWriter(*out)
	vh.Must(err)
	res := vh.NewResult()
	seed := vh.Seed()
	for wi := 0; wi < *n; wi++ {
		rng := rand.New(rand.NewSource(seed*1000003 + int64(wi)))
		special := wi%5 == 4
		filter := []string{"on", "on", "trace", "trace", "off"}[rng.Intn(5)]
		how := []string{"option", "env", "envcase"}[rng.Intn(3)]
		if filter == "trace" {
			how = []string{"option", "env", "envcase", "default", "envbogus"}[rng.Intn(5)]
		}
		limit := 0
		if wi%6 == 3 {
			limit = 1 + rng.Intn(4) // cardinality limit: synchronous instruments, sequential histories (the order decides)
		}
		nr := 1 + rng.Intn(3)
		temps := make([]string, nr)
		for i := range temps {
			temps[i] = []string{"delta", "cumulative"}[rng.Intn(2)]
		}
		ni := 3 + rng.Intn(4)
		var specs []instSpec
		for i := 0; i < ni; i++ {
			kind := kinds[rng.Intn(len(kinds))]
			if i < len(kinds) && wi%3 == 0 {
				kind = kinds[(i+wi)%len(kinds)]
			}
			if limit > 0 {
				kind = kinds[rng.Intn(4)]
			}
			fl := rng.Intn(2) == 0
			is := instSpec{name: fmt.Sprintf("i%d", i), kind: kind, float: fl}
			ns := 1 + rng.Intn(2)
			for s := 0; s < ns; s++ {
				sp := randomStream(rng, kind, fl, fmt.Sprintf("i%d.s%d", i, s), special)
				if ns > 1 && sp.Advisory {
					sp.Advisory = false
					sp.Model.Hb = scaled(defaultBounds, sp.unit())
				}
				plain := sp.Model.Keep.All && sp.Model.Res.Kind == "default" && !sp.AggView && ns == 1
				if plain {
					sp.Name = "" // the implicit default stream carries the instrument's name
				}
				is.streams = append(is.streams, sp)
			}
			specs = append(specs, is)
		}
		guarded(res, map[string]any{"world": wi, "seed": seed, "filter": filter, "how": how, "limit": limit, "specs": specs}, func() {
			w := newWorld(wi, res, filter, how, temps, specs, uint64(seed)<<32|uint64(wi), limit)
			pool := attrPool(rng)
			var syncs []*instrument
			for _, in := range w.insts {
				if !in.async() {
					syncs = append(syncs, in)
				}
			}
			scheduleObs := func(r int) {
				for _, in := range w.insts {
					if !in.async() {
						continue
					}
					perm := rng.Perm(len(pool))
					for _, pi := range perm[:rng.Intn(5)] {
						v, cls := randomValue(rng, in, special)
						m := w.newMeas(pool[pi], v, cls, "none", 0)
						m.G = m.O
						w.measure(in, m, rng.Intn(8), []int{r})
						res.Count("observations", 1)
					}
				}
			}
			steps := 30 + rng.Intn(60)
			for st := 0; st < steps; st++ {
				x := rng.Intn(100)
				switch {
				case x < 62 && len(syncs) > 0:
					in := syncs[rng.Intn(len(syncs))]
					v, cls := randomValue(rng, in, special)
					m := w.newMeas(pool[rng.Intn(len(pool))], v, cls, randomCtx(rng), 0)
					m.G = m.O
					w.measure(in, m, rng.Intn(8), nil)
				case x < 70 && len(syncs) > 0:
					// burst on one attribute set: more offers than any reservoir holds
					in := syncs[rng.Intn(len(syncs))]
					as := pool[rng.Intn(len(pool))]
					nb := 6 + rng.Intn(2*runtime.NumCPU())
					for i := 0; i < nb; i++ {
						v, cls := randomValue(rng, in, false)
						m := w.newMeas(as, v, cls, randomCtx(rng), 0)
						m.G = m.O
						w.measure(in, m, rng.Intn(8), nil)
					}
					res.Count("bursts", 1)
				case x < 76 && len(syncs) > 0 && limit == 0:
					g := w.nextGroup() + 1_000_000
					nb := 2 + rng.Intn(7)
					var batch []struct {
						in *instrument
						m  *Meas
					}
					in := syncs[rng.Intn(len(syncs))]
					as := pool[rng.Intn(len(pool))]
					for i := 0; i < nb; i++ {
						if rng.Intn(3) == 0 {
							in = syncs[rng.Intn(len(syncs))]
						}
						if rng.Intn(3) == 0 {
							as = pool[rng.Intn(len(pool))]
						}
						v, cls := randomValue(rng, in, false)
						m := w.newMeas(as, v, cls, randomCtx(rng), g)
						batch = append(batch, struct {
							in *instrument
							m  *Meas
						}{in, m})
					}
					w.concurrent(batch)
				case x < 94:
					r := rng.Intn(len(w.readers))
					scheduleObs(r)
					w.collect(r)
				default:
					for _, r := range rng.Perm(len(w.readers)) {
						scheduleObs(r)
						w.collect(r)
					}
				}
			}
			for r := range w.readers {
				scheduleObs(r)
				w.collect(r)
			}
			w.flush(tw)
			// regimes reached (vacuity)
			for _, in := range w.insts {
				for _, s := range in.streams {
					m := s.spec.Model
					res.Count("streams_agg_"+m.Agg, 1)
					res.Count("streams_res_"+m.Res.Kind, 1)
					if !m.Keep.All {
						res.Count("streams_with_attribute_filter", 1)
					}
					if m.Res.Kind == "fixed" && m.Res.K == 0 {
						res.Count("streams_fixed_k0", 1)
					}
					if m.Res.Kind == "hist" && len(m.Res.Bounds) == 0 {
						res.Count("streams_hist_reservoir_empty_bounds", 1)
					}
					if s.spec.Advisory {
						res.Count("streams_advisory_bounds", 1)
					}
				}
				res.Count("instruments_"+in.kind, 1)
			}
			if limit > 0 {
				res.Count("worlds_with_cardinality_limit", 1)
			}
			res.Count("worlds_filter_"+filter, 1)
			res.Count("worlds_how_"+how, 1)
		})
		res.Executed++
		if wi < 2 {
			ks := make([]string, 0)
			for _, is := range specs {
				ks = append(ks, is.kind)
			}
			sort.Strings(ks)
			res.Sample(map[string]any{"world": wi, "filter": filter, "how": how, "readers": temps, "instruments": ks})
		}
	}
	directed(res, tw, seed, *n)
	res.Count("otel_errors", otelErrors.Load())
	res.Evaluations = res.Counters["cycles"]
	vh.Must(tw.Close())
	vh.Must(res.Write(*resPath))
}

// ---------------------------------------------------------------- directed edge cases ("no panic for ...")

// directed runs a few scripted worlds around degenerate reservoir parameters; each is an ordinary world
// (judged by Trace_Exemplar.tla like every other one), a panic of the SDK is reported with the case's name.
func directed(res *vh.Result, tw *vh.TraceWriter, seed int64, base int) {
	type dcase struct {
		name  string
		kind  string
		float bool
		res   ResCfg
		agg   string
		hb    []int64
		max   int // exponential histogram MaxSize
		burst int // measurements on one attribute set in one interval (beyond the default reservoir sizes)
	}
	cases := []dcase{
		{"fixed-negative-k", "Counter", false, ResCfg{Kind: "fixed", K: -1, Bounds: []int64{}}, "sum", nil, 0, 0},
		{"fixed-negative-k-histogram", "Histogram", true, ResCfg{Kind: "fixed", K: -3, Bounds: []int64{}}, "hist", []int64{4, 8}, 0, 0},
		{"fixed-zero-k", "Gauge", true, ResCfg{Kind: "fixed", K: 0, Bounds: []int64{}}, "last", nil, 0, 0},
		{"histogram-reservoir-no-bounds", "UpDownCounter", true, ResCfg{Kind: "hist", Bounds: []int64{}}, "sum", nil, 0, 0},
		{"histogram-aggregation-no-bounds", "Histogram", true, ResCfg{Kind: "default", Bounds: []int64{}}, "hist", []int64{}, 0, 0},
		// the default reservoir sizes: min(20, MaxSize) for exponential histograms, the number of CPUs otherwise
		{"default-size-expo-160", "Histogram", true, ResCfg{Kind: "default", Bounds: []int64{}}, "expo", nil, 160, 31},
		{"default-size-expo-4", "Histogram", false, ResCfg{Kind: "default", Bounds: []int64{}}, "expo", nil, 4, 9},
		{"default-size-ncpu", "Counter", false, ResCfg{Kind: "default", Bounds: []int64{}}, "sum", nil, 0, runtime.NumCPU() + 7},
	}
	for ci, c := range cases {
		for ti, temp := range []string{"delta", "cumulative"} {
			id := base + 10 + ci*2 + ti
			sp := StreamSpec{Kind: c.kind, Float: c.float, Name: "d." + c.name, AggView: true,
				Model: ModelCfg{Res: c.res, Agg: c.agg, Hb: c.hb, Maxsize: c.max, Keep: KeepCfg{All: true, Keys: []string{}}}}
			if sp.Model.Hb == nil {
				sp.Model.Hb = []int64{}
			}
			guarded(res, map[string]any{"directed": c.name, "temp": temp}, func() {
				w := newWorld(id, res, "on", "option", []string{temp},
					[]instSpec{{name: "i0", kind: c.kind, float: c.float, streams: []StreamSpec{sp}}}, uint64(seed)<<32|uint64(id), 0)
				in := w.insts[0]
				as := []attribute.KeyValue{attribute.String("a", "p")}
				vals := []struct {
					v   int64
					cls string
				}{{1, "fin"}, {4, "fin"}, {0, "nan"}, {9, "fin"}, {0, "pinf"}, {-3, "fin"}, {0, "ninf"}, {8, "fin"}}
				for round := 0; round < 2; round++ {
					for i, x := range vals {
						if !c.float && x.cls != "fin" || c.kind == "Counter" && x.v < 0 {
							continue
						}
						m := w.newMeas(as, x.v, x.cls, []string{"sampled", "none", "unsampled"}[i%3], 0)
						m.G = m.O
						w.measure(in, m, i, nil)
					}
					for i := 0; i < c.burst; i++ {
						m := w.newMeas(as, int64(4+i%5), "fin", "sampled", 0)
						m.G = m.O
						w.measure(in, m, i, nil)
					}
					w.collect(0)
				}
				w.flush(tw)
				res.Count("directed_worlds", 1)
			})
		}
	}
}
