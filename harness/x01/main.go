// x01: conformance harness for specs/Exemplar (specification growth X01: metric exemplars).
//
//	x01 replay -edges F -cfg JSON -out TRACE -res R [-sample K]   replay TLC Collect edges (history + collection)
//	x01 random -n N -out TRACE -res R                             seeded random worlds (all instrument kinds)
//
// Everything goes through the PUBLIC API: sdkmetric.NewMeterProvider with ManualReaders (delta via
// WithTemporalitySelector / cumulative), views (attribute filter, aggregation, ExemplarReservoirProviderSelector),
// WithExemplarFilter / OTEL_METRICS_EXEMPLAR_FILTER, span contexts via trace.ContextWithSpanContext.
// The harness only executes and projects.  Every measurement gets a unique order number that is
// encoded in the trace / span ID of its context and the harness remembers the window of its Measure /
// Observe call (monotonic clock of this process); a collected exemplar is projected onto
// [value, decoded IDs, FilteredAttributes, orders whose call window contains its Time, Time against the
// point's own StartTime / Time].  Trace_Exemplar.tla (TLC) holds every expectation.
package main

import (
	"context"
	"encoding/binary"
	"encoding/json"
	"flag"
	"fmt"
	"math"
	"os"
	"runtime"
	"runtime/debug"
	"sort"
	"strings"
	"sync"
	"sync/atomic"
	"time"

	"go.opentelemetry.io/otel"
	"go.opentelemetry.io/otel/attribute"
	"go.opentelemetry.io/otel/metric"
	sdkmetric "go.opentelemetry.io/otel/sdk/metric"
	"go.opentelemetry.io/otel/sdk/metric/exemplar"
	"go.opentelemetry.io/otel/sdk/metric/metricdata"
	"go.opentelemetry.io/otel/sdk/verifh/vh"
	"go.opentelemetry.io/otel/trace"
)

// ---------------------------------------------------------------- configuration (record C of the spec)

type KV struct {
	K string `json:"k"`
	V string `json:"v"`
}

type ResCfg struct {
	Kind   string  `json:"kind"` // default | fixed | hist | keepall
	K      int     `json:"k"`
	Bounds []int64 `json:"bounds"` // 1/unit
}

type KeepCfg struct {
	All  bool     `json:"all"`
	Keys []string `json:"keys"`
}

type ModelCfg struct {
	Filter  string  `json:"filter"` // on | off | trace
	Res     ResCfg  `json:"res"`
	Agg     string  `json:"agg"` // sum | last | hist | expo | drop
	Hb      []int64 `json:"hb"`
	Maxsize int     `json:"maxsize"`
	Ncpu    int     `json:"ncpu"`
	Keep    KeepCfg `json:"keep"`
	Async   bool    `json:"async"`
	Limit   int     `json:"limit"` // cardinality limit (OTEL_GO_X_CARDINALITY_LIMIT when the instruments are created), 0 = none
}

// StreamSpec adds what the model does not see: how the configuration is realised.
type StreamSpec struct {
	Model    ModelCfg `json:"model"`
	Kind     string   `json:"kind"`     // Counter UpDownCounter Histogram Gauge ObsCounter ObsUpDownCounter ObsGauge
	Float    bool     `json:"float"`    // float64 instrument recording v/4
	AggView  bool     `json:"aggview"`  // the view names the aggregation (otherwise the kind's default is relied on)
	KeepMode string   `json:"keepmode"` // allow | deny | func (how the attribute filter is written), "" when keep.all
	Advisory bool     `json:"advisory"` // histogram boundaries given as instrument advice instead of a view aggregation
	Name     string   `json:"name"`
}

func (s StreamSpec) unit() int64 {
	if s.Float {
		return 4
	}
	return 1
}

var allKeys = []string{"a", "b", "x", "y"}

// ---------------------------------------------------------------- measurements

type Meas struct {
	O   int    `json:"o"`
	G   int    `json:"g"`
	S   []KV   `json:"s"`
	V   int64  `json:"v"`
	Cls string `json:"cls"`
	C   string `json:"c"`

	attrs []attribute.KeyValue
	t0    map[int]time.Time // reader index (-1: synchronous call) -> window
	t1    map[int]time.Time
	mu    sync.Mutex
}

func (m *Meas) window(r int, a, b time.Time) {
	m.mu.Lock()
	m.t0[r], m.t1[r] = a, b
	m.mu.Unlock()
}

func kvOf(a attribute.KeyValue) KV {
	return KV{K: string(a.Key), V: a.Value.Type().String() + ":" + a.Value.Emit()}
}

func kvsOf(as []attribute.KeyValue) []KV {
	out := make([]KV, 0, len(as))
	for _, a := range as {
		out = append(out, kvOf(a))
	}
	sort.Slice(out, func(i, j int) bool { return out[i].K < out[j].K })
	return out
}

// ---------------------------------------------------------------- projection vocabulary

type Ex struct {
	V     int64  `json:"v"`
	Cls   string `json:"cls"`
	Sp    int64  `json:"sp"`
	Tr    int64  `json:"tr"`
	Fa    []KV   `json:"fa"`
	Pk    []KV   `json:"pk"`
	HasPk bool   `json:"haspk"`
	Cand  []int  `json:"cand"`
	Ge    bool   `json:"ge"`
	Le    bool   `json:"le"`
}

type Pt struct {
	Attrs []KV  `json:"attrs"`
	N     int64 `json:"n"`
	Nx    bool  `json:"nx"`
	Ex    []Ex  `json:"ex"`
}

const pkKey = "verif.pk"

// ---------------------------------------------------------------- user-supplied reservoir (keepall)

type provStats struct {
	prov atomic.Int64
	off  atomic.Int64
	coll atomic.Int64
}

type keepAll struct {
	st   *provStats
	pk   string
	held []exemplar.Exemplar
	mu   sync.Mutex
}

func (k *keepAll) Offer(ctx context.Context, t time.Time, v exemplar.Value, a []attribute.KeyValue) {
	k.st.off.Add(1)
	e := exemplar.Exemplar{Time: t, Value: v}
	e.FilteredAttributes = append(append([]attribute.KeyValue{}, a...), attribute.String(pkKey, k.pk))
	sc := trace.SpanContextFromContext(ctx)
	if sc.HasTraceID() {
		id := sc.TraceID()
		e.TraceID = id[:]
	}
	if sc.HasSpanID() {
		id := sc.SpanID()
		e.SpanID = id[:]
	}
	k.mu.Lock()
	k.held = append(k.held, e)
	k.mu.Unlock()
}

func (k *keepAll) Collect(dest *[]exemplar.Exemplar) {
	k.st.coll.Add(1)
	k.mu.Lock()
	*dest = append((*dest)[:0], k.held...)
	k.mu.Unlock()
}

func keepAllProvider(st *provStats) exemplar.ReservoirProvider {
	return func(attr attribute.Set) exemplar.Reservoir {
		st.prov.Add(1)
		b, _ := json.Marshal(kvsOf(attr.ToSlice()))
		return &keepAll{st: st, pk: string(b)}
	}
}

// ---------------------------------------------------------------- world

type stream struct {
	spec  StreamSpec
	inst  *instrument
	stats *provStats // nil unless a user reservoir is installed
}

type instrument struct {
	name    string
	kind    string
	float   bool
	streams []*stream
	log     []*Meas         // synchronous: every measurement in issue order
	pending map[int][]*Meas // asynchronous: reader -> observations to make in its next collection

	ci  metric.Int64Counter
	cf  metric.Float64Counter
	ui  metric.Int64UpDownCounter
	uf  metric.Float64UpDownCounter
	hi  metric.Int64Histogram
	hf  metric.Float64Histogram
	gi  metric.Int64Gauge
	gf  metric.Float64Gauge
	obI metric.Int64Observable
	obF metric.Float64Observable
}

func (in *instrument) async() bool { return strings.HasPrefix(in.kind, "Obs") }
func (in *instrument) unit() int64 {
	if in.float {
		return 4
	}
	return 1
}

type reader struct {
	rd     *sdkmetric.ManualReader
	temp   string
	cursor map[*instrument]int // synchronous instruments: index into log of the first measurement not yet collected
}

type world struct {
	id         int
	nonce      uint64
	filter     string
	filterHow  string
	mp         *sdkmetric.MeterProvider
	readers    []*reader
	insts      []*instrument
	order      int
	group      int
	collecting int
	lines      map[string][]map[string]any
	scOrder    []string
	res        *vh.Result
}

func (w *world) nextOrder() int { w.order++; return w.order }
func (w *world) nextGroup() int { w.group++; return w.group }

func (w *world) traceID(o int) trace.TraceID {
	var t trace.TraceID
	binary.BigEndian.PutUint64(t[:8], w.nonce)
	binary.BigEndian.PutUint64(t[8:], uint64(o))
	return t
}

func (w *world) spanID(o int) trace.SpanID {
	var s trace.SpanID
	binary.BigEndian.PutUint64(s[:], uint64(o))
	return s
}

func (w *world) decodeSpan(b []byte) int64 {
	if len(b) == 0 {
		return 0
	}
	if len(b) != 8 {
		return -1
	}
	v := binary.BigEndian.Uint64(b)
	if v == 0 || v > uint64(w.order) {
		return -1
	}
	return int64(v)
}

func (w *world) decodeTrace(b []byte) int64 {
	if len(b) == 0 {
		return 0
	}
	if len(b) != 16 || binary.BigEndian.Uint64(b[:8]) != w.nonce {
		return -1
	}
	v := binary.BigEndian.Uint64(b[8:])
	if v == 0 || v > uint64(w.order) {
		return -1
	}
	return int64(v)
}

func (w *world) ctxFor(m *Meas, variant int) context.Context {
	type key struct{}
	ctx := context.WithValue(context.Background(), key{}, m.O)
	if m.C == "none" {
		if variant%2 == 0 {
			return context.Background()
		}
		return ctx
	}
	cfg := trace.SpanContextConfig{TraceID: w.traceID(m.O), SpanID: w.spanID(m.O)}
	if m.C == "sampled" {
		cfg.TraceFlags = trace.FlagsSampled
		if variant%3 == 1 {
			cfg.TraceFlags |= 0x02 // other flag bits do not matter
		}
	}
	if variant%4 == 3 {
		cfg.Remote = true
	}
	return trace.ContextWithSpanContext(ctx, trace.NewSpanContext(cfg))
}

func realValue(v int64, cls string, unit int64) float64 {
	switch cls {
	case "nan":
		return math.NaN()
	case "pinf":
		return math.Inf(1)
	case "ninf":
		return math.Inf(-1)
	}
	return float64(v) / float64(unit)
}

func toUnits(f float64, unit int64) (int64, string) {
	switch {
	case math.IsNaN(f):
		return 0, "nan"
	case math.IsInf(f, 1):
		return 0, "pinf"
	case math.IsInf(f, -1):
		return 0, "ninf"
	}
	x := f * float64(unit)
	if x != math.Trunc(x) || math.Abs(x) > 1e9 {
		return 0, "inexact"
	}
	return int64(x), "fin"
}

// ---------------------------------------------------------------- building a world

func aggregationOf(sp StreamSpec) sdkmetric.Aggregation {
	u := float64(sp.unit())
	switch sp.Model.Agg {
	case "sum":
		return sdkmetric.AggregationSum{}
	case "last":
		return sdkmetric.AggregationLastValue{}
	case "drop":
		return sdkmetric.AggregationDrop{}
	case "hist":
		b := make([]float64, 0, len(sp.Model.Hb))
		for _, x := range sp.Model.Hb {
			b = append(b, float64(x)/u)
		}
		return sdkmetric.AggregationExplicitBucketHistogram{Boundaries: b}
	case "expo":
		return sdkmetric.AggregationBase2ExponentialHistogram{MaxSize: int32(sp.Model.Maxsize), MaxScale: 20}
	}
	return nil
}

func (w *world) selectorOf(s *stream) sdkmetric.ExemplarReservoirProviderSelector {
	r := s.spec.Model.Res
	u := float64(s.spec.unit())
	switch r.Kind {
	case "fixed":
		return func(sdkmetric.Aggregation) exemplar.ReservoirProvider { return exemplar.FixedSizeReservoirProvider(r.K) }
	case "hist":
		b := make([]float64, 0, len(r.Bounds))
		for i := len(r.Bounds) - 1; i >= 0; i-- { // handed over in descending order: the provider sorts
			b = append(b, float64(r.Bounds[i])/u)
		}
		return func(sdkmetric.Aggregation) exemplar.ReservoirProvider { return exemplar.HistogramReservoirProvider(b) }
	case "keepall":
		s.stats = &provStats{}
		st := s.stats
		return func(sdkmetric.Aggregation) exemplar.ReservoirProvider { return keepAllProvider(st) }
	}
	return nil
}

func filterOf(sp StreamSpec) attribute.Filter {
	k := sp.Model.Keep
	if k.All {
		return nil
	}
	keep := map[string]bool{}
	for _, x := range k.Keys {
		keep[x] = true
	}
	switch sp.KeepMode {
	case "deny":
		var deny []attribute.Key
		for _, x := range allKeys {
			if !keep[x] {
				deny = append(deny, attribute.Key(x))
			}
		}
		return attribute.NewDenyKeysFilter(deny...)
	case "func":
		return func(kv attribute.KeyValue) bool { return keep[string(kv.Key)] }
	}
	ks := make([]attribute.Key, 0, len(k.Keys))
	for _, x := range k.Keys {
		ks = append(ks, attribute.Key(x))
	}
	return attribute.NewAllowKeysFilter(ks...)
}

type instSpec struct {
	name    string
	kind    string
	float   bool
	streams []StreamSpec
}

func newWorld(id int, res *vh.Result, filter, how string, temps []string, specs []instSpec, nonce uint64, limit int) *world {
	w := &world{id: id, nonce: nonce | 1<<62, filter: filter, filterHow: how, res: res, lines: map[string][]map[string]any{}, collecting: -1}
	var opts []sdkmetric.Option
	for _, t := range temps {
		var rd *sdkmetric.ManualReader
		if t == "delta" {
			rd = sdkmetric.NewManualReader(sdkmetric.WithTemporalitySelector(func(sdkmetric.InstrumentKind) metricdata.Temporality {
				return metricdata.DeltaTemporality
			}))
		} else {
			rd = sdkmetric.NewManualReader()
		}
		w.readers = append(w.readers, &reader{rd: rd, temp: t, cursor: map[*instrument]int{}})
		opts = append(opts, sdkmetric.WithReader(rd))
	}
	for _, is := range specs {
		in := &instrument{name: is.name, kind: is.kind, float: is.float, pending: map[int][]*Meas{}}
		for _, sp := range is.streams {
			st := &stream{spec: sp, inst: in}
			in.streams = append(in.streams, st)
			m := sp.Model
			plain := m.Keep.All && m.Res.Kind == "default" && !sp.AggView && len(is.streams) == 1
			if plain {
				continue // no view at all: the implicit default stream
			}
			mask := sdkmetric.Stream{Name: sp.Name, AttributeFilter: filterOf(sp), ExemplarReservoirProviderSelector: w.selectorOf(st)}
			if sp.AggView {
				mask.Aggregation = aggregationOf(sp)
			}
			opts = append(opts, sdkmetric.WithView(sdkmetric.NewView(sdkmetric.Instrument{Name: is.name}, mask)))
		}
		w.insts = append(w.insts, in)
	}
	const env = "OTEL_METRICS_EXEMPLAR_FILTER"
	fl := map[string]exemplar.Filter{"on": exemplar.AlwaysOnFilter, "off": exemplar.AlwaysOffFilter, "trace": exemplar.TraceBasedFilter}[filter]
	switch how {
	case "option":
		opts = append(opts, sdkmetric.WithExemplarFilter(fl))
	case "env":
		os.Setenv(env, map[string]string{"on": "always_on", "off": "always_off", "trace": "trace_based"}[filter])
	case "envcase":
		os.Setenv(env, map[string]string{"on": "ALWAYS_ON", "off": "Always_Off", "trace": "Trace_Based"}[filter])
	case "envbogus": // an unknown value is ignored: the default (trace based) applies
		os.Setenv(env, "sometimes")
	case "default":
	}
	w.mp = sdkmetric.NewMeterProvider(opts...)
	os.Unsetenv(env)
	meter := w.mp.Meter("x01")
	if limit > 0 {
		os.Setenv("OTEL_GO_X_CARDINALITY_LIMIT", fmt.Sprint(limit))
	}
	for _, in := range w.insts {
		w.create(meter, in)
	}
	os.Unsetenv("OTEL_GO_X_CARDINALITY_LIMIT")
	for ri, r := range w.readers {
		for _, in := range w.insts {
			for si := range in.streams {
				sc := w.scKey(ri, in, si)
				w.scOrder = append(w.scOrder, sc)
				m := in.streams[si].spec.Model
				m.Ncpu = runtime.NumCPU()
				m.Filter = filter
				m.Limit = limit
				w.lines[sc] = append(w.lines[sc], map[string]any{"ev": "New", "sc": sc, "temp": r.temp, "C": m,
					"meta": map[string]any{"kind": in.kind, "float": in.float, "how": how, "stream": in.streams[si].spec.Name}})
			}
		}
	}
	return w
}

func (w *world) scKey(r int, in *instrument, si int) string {
	return fmt.Sprintf("w%d.r%d.%s.%d", w.id, r, in.name, si)
}

func (w *world) create(meter metric.Meter, in *instrument) {
	var advice []float64
	for _, s := range in.streams {
		if s.spec.Advisory {
			for _, x := range s.spec.Model.Hb {
				advice = append(advice, float64(x)/float64(in.unit()))
			}
		}
	}
	var err error
	switch in.kind {
	case "Counter":
		if in.float {
			in.cf, err = meter.Float64Counter(in.name)
		} else {
			in.ci, err = meter.Int64Counter(in.name)
		}
	case "UpDownCounter":
		if in.float {
			in.uf, err = meter.Float64UpDownCounter(in.name)
		} else {
			in.ui, err = meter.Int64UpDownCounter(in.name)
		}
	case "Histogram":
		if in.float {
			if advice != nil {
				in.hf, err = meter.Float64Histogram(in.name, metric.WithExplicitBucketBoundaries(advice...))
			} else {
				in.hf, err = meter.Float64Histogram(in.name)
			}
		} else {
			if advice != nil {
				in.hi, err = meter.Int64Histogram(in.name, metric.WithExplicitBucketBoundaries(advice...))
			} else {
				in.hi, err = meter.Int64Histogram(in.name)
			}
		}
	case "Gauge":
		if in.float {
			in.gf, err = meter.Float64Gauge(in.name)
		} else {
			in.gi, err = meter.Int64Gauge(in.name)
		}
	case "ObsCounter":
		if in.float {
			in.obF, err = meter.Float64ObservableCounter(in.name)
		} else {
			in.obI, err = meter.Int64ObservableCounter(in.name)
		}
	case "ObsUpDownCounter":
		if in.float {
			in.obF, err = meter.Float64ObservableUpDownCounter(in.name)
		} else {
			in.obI, err = meter.Int64ObservableUpDownCounter(in.name)
		}
	case "ObsGauge":
		if in.float {
			in.obF, err = meter.Float64ObservableGauge(in.name)
		} else {
			in.obI, err = meter.Int64ObservableGauge(in.name)
		}
	default:
		vh.Must(fmt.Errorf("unknown kind %q", in.kind))
	}
	vh.Must(err)
	if in.async() {
		var ob metric.Observable = in.obI
		if in.float {
			ob = in.obF
		}
		_, err = meter.RegisterCallback(func(ctx context.Context, o metric.Observer) error {
			r := w.collecting
			for _, m := range in.pending[r] {
				opt := metric.WithAttributes(m.attrs...)
				t0 := time.Now()
				if in.float {
					o.ObserveFloat64(in.obF, realValue(m.V, m.Cls, 4), opt)
				} else {
					o.ObserveInt64(in.obI, m.V, opt)
				}
				m.window(r, t0, time.Now())
			}
			return nil
		}, ob)
		vh.Must(err)
	}
}

// ---------------------------------------------------------------- measuring

func (w *world) newMeas(attrs []attribute.KeyValue, v int64, cls, c string, g int) *Meas {
	return &Meas{O: w.nextOrder(), G: g, S: kvsOf(attrs), V: v, Cls: cls, C: c, attrs: attrs,
		t0: map[int]time.Time{}, t1: map[int]time.Time{}}
}

// call makes the synchronous API call of m (window recorded around it).
func (w *world) call(in *instrument, m *Meas, variant int) {
	ctx := w.ctxFor(m, variant)
	var opt metric.MeasurementOption
	if variant%2 == 0 {
		opt = metric.WithAttributes(m.attrs...)
	} else {
		opt = metric.WithAttributeSet(attribute.NewSet(m.attrs...))
	}
	f := realValue(m.V, m.Cls, in.unit())
	t0 := time.Now()
	switch {
	case in.ci != nil:
		in.ci.Add(ctx, m.V, opt.(metric.AddOption))
	case in.cf != nil:
		in.cf.Add(ctx, f, opt.(metric.AddOption))
	case in.ui != nil:
		in.ui.Add(ctx, m.V, opt.(metric.AddOption))
	case in.uf != nil:
		in.uf.Add(ctx, f, opt.(metric.AddOption))
	case in.hi != nil:
		in.hi.Record(ctx, m.V, opt.(metric.RecordOption))
	case in.hf != nil:
		in.hf.Record(ctx, f, opt.(metric.RecordOption))
	case in.gi != nil:
		in.gi.Record(ctx, m.V, opt.(metric.RecordOption))
	case in.gf != nil:
		in.gf.Record(ctx, f, opt.(metric.RecordOption))
	}
	m.window(-1, t0, time.Now())
}

// measure: a sequential measurement (or, for an observable instrument, an observation scheduled for
// the next collection of the given readers).
func (w *world) measure(in *instrument, m *Meas, variant int, readers []int) {
	if in.async() {
		for _, r := range readers {
			in.pending[r] = append(in.pending[r], m)
		}
		return
	}
	in.log = append(in.log, m)
	w.call(in, m, variant)
	w.res.Count("measurements", 1)
}

// concurrent issues the measurements of one group from several goroutines at once.
func (w *world) concurrent(batch []struct {
	in *instrument
	m  *Meas
}) {
	var wg sync.WaitGroup
	var ready atomic.Int32
	n := int32(len(batch))
	for i := range batch {
		b := batch[i]
		b.in.log = append(b.in.log, b.m)
		wg.Add(1)
		go func(i int) {
			defer wg.Done()
			ready.Add(1)
			for ready.Load() < n {
				runtime.Gosched()
			}
			w.call(b.in, b.m, i)
		}(i)
	}
	wg.Wait()
	w.res.Count("concurrent_measurements", int64(n))
	w.res.Count("concurrent_batches", 1)
}

// ---------------------------------------------------------------- collecting and projecting

func exemplarsOf[N int64 | float64](es []metricdata.Exemplar[N]) []rawEx {
	out := make([]rawEx, 0, len(es))
	for _, e := range es {
		out = append(out, rawEx{val: float64(e.Value), ival: int64(e.Value), fa: e.FilteredAttributes, t: e.Time, sp: e.SpanID, tr: e.TraceID})
	}
	return out
}

type rawEx struct {
	val    float64
	ival   int64
	fa     []attribute.KeyValue
	t      time.Time
	sp, tr []byte
}

type rawPt struct {
	attrs       attribute.Set
	val         float64
	ival        int64
	isInt       bool
	start, time time.Time
	ex          []rawEx
}

func numPts[N int64 | float64](dps []metricdata.DataPoint[N]) []rawPt {
	var zero N
	_, isInt := any(zero).(int64)
	out := make([]rawPt, 0, len(dps))
	for _, d := range dps {
		out = append(out, rawPt{attrs: d.Attributes, val: float64(d.Value), ival: int64(d.Value), isInt: isInt, start: d.StartTime, time: d.Time, ex: exemplarsOf(d.Exemplars)})
	}
	return out
}

func histPts[N int64 | float64](dps []metricdata.HistogramDataPoint[N]) []rawPt {
	out := make([]rawPt, 0, len(dps))
	for _, d := range dps {
		out = append(out, rawPt{attrs: d.Attributes, ival: int64(d.Count), isInt: true, start: d.StartTime, time: d.Time, ex: exemplarsOf(d.Exemplars)})
	}
	return out
}

func expoPts[N int64 | float64](dps []metricdata.ExponentialHistogramDataPoint[N]) []rawPt {
	out := make([]rawPt, 0, len(dps))
	for _, d := range dps {
		out = append(out, rawPt{attrs: d.Attributes, ival: int64(d.Count), isInt: true, start: d.StartTime, time: d.Time, ex: exemplarsOf(d.Exemplars)})
	}
	return out
}

// rawPoints: count is TRUE when the point number is a count (histograms), FALSE for values.
func rawPoints(data metricdata.Aggregation) (pts []rawPt, count bool) {
	switch d := data.(type) {
	case metricdata.Sum[int64]:
		return numPts(d.DataPoints), false
	case metricdata.Sum[float64]:
		return numPts(d.DataPoints), false
	case metricdata.Gauge[int64]:
		return numPts(d.DataPoints), false
	case metricdata.Gauge[float64]:
		return numPts(d.DataPoints), false
	case metricdata.Histogram[int64]:
		return histPts(d.DataPoints), true
	case metricdata.Histogram[float64]:
		return histPts(d.DataPoints), true
	case metricdata.ExponentialHistogram[int64]:
		return expoPts(d.DataPoints), true
	case metricdata.ExponentialHistogram[float64]:
		return expoPts(d.DataPoints), true
	}
	return nil, false
}

func (w *world) project(r int, in *instrument, unit int64, ops []*Meas, known []*Meas, raw []rawPt, count bool) []Pt {
	win := -1
	if in.async() {
		win = r
	}
	pts := make([]Pt, 0, len(raw))
	for _, p := range raw {
		q := Pt{Attrs: kvsOf(p.attrs.ToSlice()), Ex: []Ex{}}
		switch {
		case count || p.isInt:
			q.N, q.Nx = p.ival, true
		default:
			v, cls := toUnits(p.val, unit)
			q.N, q.Nx = v, cls == "fin"
		}
		for _, e := range p.ex {
			x := Ex{Sp: w.decodeSpan(e.sp), Tr: w.decodeTrace(e.tr), Fa: []KV{}, Pk: []KV{}, Cand: []int{}}
			if in.float {
				x.V, x.Cls = toUnits(e.val, unit)
			} else {
				x.V, x.Cls = e.ival, "fin"
			}
			for _, a := range e.fa {
				if string(a.Key) == pkKey {
					x.HasPk = true
					json.Unmarshal([]byte(a.Value.AsString()), &x.Pk)
					continue
				}
				x.Fa = append(x.Fa, kvOf(a))
			}
			sort.Slice(x.Fa, func(i, j int) bool { return x.Fa[i].K < x.Fa[j].K })
			for _, m := range known {
				m.mu.Lock()
				t0, ok := m.t0[win]
				t1 := m.t1[win]
				m.mu.Unlock()
				if ok && !e.t.Before(t0) && !e.t.After(t1) {
					x.Cand = append(x.Cand, m.O)
				}
			}
			x.Ge = !e.t.Before(p.start)
			x.Le = !e.t.After(p.time)
			q.Ex = append(q.Ex, x)
			w.res.Count("exemplars", 1)
			if len(x.Fa) > 0 {
				w.res.Count("exemplars_with_filtered_attributes", 1)
			}
			if x.Sp > 0 {
				w.res.Count("exemplars_with_span", 1)
			}
		}
		pts = append(pts, q)
	}
	return pts
}

// history per (reader, stream) for the candidate windows: everything this reader has been given
type histKey struct {
	r  int
	in *instrument
}

var seen = map[histKey][]*Meas{}

func (w *world) collect(r int) {
	rd := w.readers[r]
	w.collecting = r
	var rm metricdata.ResourceMetrics
	err := rd.rd.Collect(context.Background(), &rm)
	w.collecting = -1
	if err != nil {
		w.res.Inconcl(fmt.Sprintf("world %d: Collect: %v", w.id, err))
	}
	byName := map[string]metricdata.Metrics{}
	dup := map[string]bool{}
	for _, sm := range rm.ScopeMetrics {
		for _, m := range sm.Metrics {
			if _, ok := byName[m.Name]; ok {
				dup[m.Name] = true
			}
			byName[m.Name] = m
		}
	}
	w.res.Count("collections", 1)
	for _, in := range w.insts {
		var ops []*Meas
		if in.async() {
			ops = in.pending[r]
			in.pending[r] = nil
		} else {
			ops = in.log[rd.cursor[in]:]
			rd.cursor[in] = len(in.log)
		}
		hk := histKey{r, in}
		seen[hk] = append(seen[hk], ops...)
		for si, s := range in.streams {
			name := s.spec.Name
			if name == "" {
				name = in.name
			}
			m, has := byName[name]
			delete(byName, name)
			var raw []rawPt
			var count bool
			if has {
				raw, count = rawPoints(m.Data)
			}
			line := map[string]any{"ev": "Cycle", "sc": w.scKey(r, in, si), "ops": opsOrEmpty(ops), "has": has, "nprov": -1, "noff": -1,
				"pts": w.project(r, in, in.unit(), ops, seen[hk], raw, count)}
			if s.stats != nil {
				line["nprov"], line["noff"] = s.stats.prov.Load(), s.stats.off.Load()
			}
			if dup[name] {
				w.res.Count("unknown_metrics", 1)
			}
			sc := w.scKey(r, in, si)
			w.lines[sc] = append(w.lines[sc], line)
			w.res.Count("cycles", 1)
			if has {
				w.res.Count("points_"+rd.temp, int64(len(raw)))
			}
		}
	}
	if len(byName) > 0 {
		w.res.Count("unknown_metrics", int64(len(byName)))
	}
}

func opsOrEmpty(ops []*Meas) []*Meas {
	if ops == nil {
		return []*Meas{}
	}
	return ops
}

func (w *world) flush(tw *vh.TraceWriter) {
	for _, sc := range w.scOrder {
		ls := w.lines[sc]
		if len(ls) < 2 {
			continue
		}
		for _, l := range ls {
			tw.Emit(l)
		}
		w.res.Count("stream_traces", 1)
	}
	w.mp.Shutdown(context.Background())
	for k := range seen {
		delete(seen, k)
	}
}

// guarded runs f; a panic of the SDK is a finding of its own ("no panic for ...").
func guarded(res *vh.Result, what any, f func()) {
	defer func() {
		if p := recover(); p != nil {
			res.AddMismatch(vh.Mismatch{Kind: "panic", Case: what, Detail: fmt.Sprintf("%v\n%s", p, debug.Stack())})
		}
	}()
	f()
}

// ---------------------------------------------------------------- replay of TLC edges

type pathEv struct {
	Op  string `json:"op"`
	O   int    `json:"o"`
	S   []KV   `json:"s"`
	V   int64  `json:"v"`
	Cls string `json:"cls"`
	C   string `json:"c"`
}

type edgeRec struct {
	Path []pathEv `json:"path"`
	Act  pathEv   `json:"act"`
}

func attrsOfPath(s []KV) []attribute.KeyValue {
	out := make([]attribute.KeyValue, 0, len(s))
	for _, kv := range s {
		out = append(out, attribute.String(kv.K, kv.V))
	}
	return out
}

func replay(args []string) {
	fs := flag.NewFlagSet("replay", flag.ExitOnError)
	edges := fs.String("edges", "", "")
	cfgJSON := fs.String("cfg", "", "")
	out := fs.String("out", "", "")
	resPath := fs.String("res", "", "")
	sample := fs.Int("sample", 1, "")
	reps := fs.Int("reps", 1, "")
	fs.Parse(args)
	var sp StreamSpec
	vh.Must(json.Unmarshal([]byte(*cfgJSON), &sp))
	data, err := os.ReadFile(*edges)
	vh.Must(err)
	tw, err := vh.NewTraceWriter(*out)
	vh.Must(err)
	res := vh.NewResult()
	seed := vh.Seed()
	hows := []string{"option", "env", "envcase"}
	if sp.Model.Filter == "trace" {
		hows = append(hows, "default", "envbogus")
	}
	done := map[string]bool{}
	idx := 0
	for _, line := range strings.Split(string(data), "\n") {
		if strings.TrimSpace(line) == "" {
			continue
		}
		var er edgeRec
		vh.Must(json.Unmarshal([]byte(line), &er))
		key := vh.Canon([]byte(line))
		if done[key] {
			continue // the same history, printed once per reservoir state of the implementation-shaped model
		}
		done[key] = true
		idx++
		if *sample > 1 && (int64(idx)+seed)%int64(*sample) != 0 {
			continue
		}
		for rep := 0; rep < *reps; rep++ {
			variant := idx + rep + int(seed)
			how := hows[variant%len(hows)]
			temps := []string{"delta", "cumulative"}
			if variant%2 == 1 {
				temps = []string{"cumulative", "delta"}
			}
			guarded(res, map[string]any{"edge": idx, "path": er.Path, "cfg": sp}, func() {
				w := newWorld(idx*8+rep, res, sp.Model.Filter, how, temps,
					[]instSpec{{name: "i0", kind: sp.Kind, float: sp.Float, streams: []StreamSpec{sp}}}, uint64(seed)<<32|uint64(idx), 0)
				in := w.insts[0]
				both := []int{0, 1}
				collectAll := func() {
					if variant%4 < 2 {
						w.collect(0)
						w.collect(1)
					} else {
						w.collect(1)
						w.collect(0)
					}
				}
				for i, ev := range er.Path {
					if ev.Op == "C" {
						collectAll()
						continue
					}
					m := w.newMeas(attrsOfPath(ev.S), ev.V, ev.Cls, ev.C, 0)
					m.G = m.O
					if m.O != ev.O {
						vh.Must(fmt.Errorf("edge %d: order %d of the path is measurement %d of the replay", idx, ev.O, m.O))
					}
					w.measure(in, m, variant+i, both)
				}
				collectAll()
				w.flush(tw)
			})
			res.Executed++
		}
		if idx%97 == 1 {
			res.Sample(map[string]any{"edge": idx, "path": er.Path})
		}
	}
	res.Count("distinct_histories", int64(idx))
	res.Count("otel_errors", otelErrors.Load())
	res.Evaluations = res.Counters["cycles"]
	vh.Must(tw.Close())
	vh.Must(res.Write(*resPath))
}

func main() {
	for _, k := range []string{"OTEL_GO_X_CARDINALITY_LIMIT", "OTEL_GO_X_EXEMPLAR", "OTEL_METRICS_EXEMPLAR_FILTER", "OTEL_GO_X_RESOURCE"} {
		os.Unsetenv(k)
	}
	otel.SetErrorHandler(errCounter{})
	if len(os.Args) < 2 {
		fmt.Println("usage: x01 replay|random ...")
		os.Exit(3)
	}
	switch os.Args[1] {
	case "replay":
		replay(os.Args[2:])
	case "random":
		random(os.Args[2:])
	default:
		os.Exit(3)
	}
}

var otelErrors atomic.Int64

type errCounter struct{}

func (errCounter) Handle(err error) {
	if otelErrors.Add(1) <= 3 {
		fmt.Fprintln(os.Stderr, "otel error:", err)
	}
}

