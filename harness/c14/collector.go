package main

// The scripted in-process loopback collector: one net/http server (three OTLP/HTTP paths) and one
// gRPC server implementing the three collector services. Every scenario gets its OWN loopback listener
// (served by the shared server), so it is identified by the local port of the connection and needs no
// header of its own: the configured headers (none / one / several) are part of what is verified.
// Its script says what to serve for attempt n.
// The collector logs Attempt{n, arrival, sha256(body)} and Resp{n, what is served, time just before
// the response is handed to the transport} into the scenario's recorder.

import (
	"bytes"
	"compress/gzip"
	"context"
	"crypto/sha256"
	"encoding/hex"
	"fmt"
	"io"
	"net"
	"net/http"
	"strconv"
	"sync"
	"sync/atomic"
	"time"

	collogpb "go.opentelemetry.io/proto/otlp/collector/logs/v1"
	colmetricpb "go.opentelemetry.io/proto/otlp/collector/metrics/v1"
	coltracepb "go.opentelemetry.io/proto/otlp/collector/trace/v1"
	"google.golang.org/genproto/googleapis/rpc/errdetails"
	"google.golang.org/grpc"
	"google.golang.org/grpc/codes"
	_ "google.golang.org/grpc/encoding/gzip"
	"google.golang.org/grpc/metadata"
	"google.golang.org/grpc/peer"
	"google.golang.org/grpc/stats"
	"google.golang.org/grpc/status"
	"google.golang.org/protobuf/proto"
	"google.golang.org/protobuf/types/known/durationpb"
)

// Item is what the collector does with one attempt.
type Item struct {
	Kind      string `json:"kind"`         // status | tmpnet | close | hold
	Code      int    `json:"code"`         // HTTP status / gRPC code
	Partial   bool   `json:"partial"`      // success carrying a partial-success message
	RI        bool   `json:"ri"`           // gRPC: status carries RetryInfo
	ThrUs     int64  `json:"thr_us"`       // server-supplied delay (HTTP Retry-After seconds / gRPC RetryInfo), 0 = none
	SlowUs    int64  `json:"slow_us"`      // delay before the response is served
	Stop      string `json:"stop"`         // hold only: "cancel" | "shutdown" issued while the request is held
	StopAfter string `json:"stopAfter"`    // "cancel" | "shutdown" issued after this response was sent (client evaluates / waits)
	StopDelay int64  `json:"stopDelay_us"` // delay of that stop after the response was handed to the transport
}

type registry struct {
	mu    sync.Mutex
	byID  map[string]*scenarioRun
	stray int64 // requests for unknown / finished scenarios
	base  time.Time
}

// portOf extracts the port of a listener / connection address.
func portOf(a net.Addr) string {
	if a == nil {
		return ""
	}
	_, p, err := net.SplitHostPort(a.String())
	if err != nil {
		return ""
	}
	return p
}

func (r *registry) get(id string) *scenarioRun {
	r.mu.Lock()
	defer r.mu.Unlock()
	return r.byID[id]
}

func (r *registry) put(id string, s *scenarioRun) {
	r.mu.Lock()
	r.byID[id] = s
	r.mu.Unlock()
}

func (r *registry) del(id string) {
	r.mu.Lock()
	delete(r.byID, id)
	r.mu.Unlock()
}

// floorUs / ceilUs: microseconds since the harness epoch. Attempt arrivals and returns are rounded up,
// everything else down, so that every zero-tolerance comparison of the contract errs on the side of the code.
func (r *registry) floorUs() int64 { return int64(time.Since(r.base) / time.Microsecond) }
func (r *registry) ceilUs() int64 {
	return int64((time.Since(r.base) + time.Microsecond - 1) / time.Microsecond)
}

func hashOf(b []byte) string {
	h := sha256.Sum256(b)
	return hex.EncodeToString(h[:8])
}

func marker(id int, n int) string   { return fmt.Sprintf("vmark-%d-%d;", id, n) }
func psMarker(id int, n int) string { return fmt.Sprintf("vps-%d-%d;", id, n) }

// ---------------------------------------------------------------------------------- HTTP

type httpCollector struct {
	reg  *registry
	srv  *http.Server
	addr string
}

func startHTTP(reg *registry) (*httpCollector, error) {
	c := &httpCollector{reg: reg}
	mux := http.NewServeMux()
	mux.HandleFunc("/v1/traces", func(w http.ResponseWriter, r *http.Request) { c.handle(w, r, "traces") })
	mux.HandleFunc("/v1/metrics", func(w http.ResponseWriter, r *http.Request) { c.handle(w, r, "metrics") })
	mux.HandleFunc("/v1/logs", func(w http.ResponseWriter, r *http.Request) { c.handle(w, r, "logs") })
	// scenarios with a proxy hook have their own transport: idle connections are closed from this side
	c.srv = &http.Server{Handler: mux, IdleTimeout: 2 * time.Second}
	// fail early if loopback listening does not work at all
	ln, err := net.Listen("tcp", "127.0.0.1:0")
	if err != nil {
		return nil, err
	}
	ln.Close()
	return c, nil
}

// listen opens the scenario's own listener and serves it with the shared server.
func (c *httpCollector) listen(s *scenarioRun) (string, func(), error) {
	ln, err := net.Listen("tcp", "127.0.0.1:0")
	if err != nil {
		return "", nil, err
	}
	port := portOf(ln.Addr())
	c.reg.put(port, s)
	go c.srv.Serve(ln)
	return ln.Addr().String(), func() { ln.Close(); c.reg.del(port) }, nil
}

func partialBody(signal string, msg string) []byte {
	var m proto.Message
	switch signal {
	case "traces":
		m = &coltracepb.ExportTraceServiceResponse{PartialSuccess: &coltracepb.ExportTracePartialSuccess{RejectedSpans: 1, ErrorMessage: msg}}
	case "metrics":
		m = &colmetricpb.ExportMetricsServiceResponse{PartialSuccess: &colmetricpb.ExportMetricsPartialSuccess{RejectedDataPoints: 1, ErrorMessage: msg}}
	default:
		m = &collogpb.ExportLogsServiceResponse{PartialSuccess: &collogpb.ExportLogsPartialSuccess{RejectedLogRecords: 1, ErrorMessage: msg}}
	}
	b, _ := proto.Marshal(m)
	return b
}

func emptyBody(signal string) []byte {
	var m proto.Message
	switch signal {
	case "traces":
		m = &coltracepb.ExportTraceServiceResponse{}
	case "metrics":
		m = &colmetricpb.ExportMetricsServiceResponse{}
	default:
		m = &collogpb.ExportLogsServiceResponse{}
	}
	b, _ := proto.Marshal(m)
	return b
}

func (c *httpCollector) handle(w http.ResponseWriter, r *http.Request, signal string) {
	la, _ := r.Context().Value(http.LocalAddrContextKey).(net.Addr)
	s := c.reg.get(portOf(la))
	raw, rerr := io.ReadAll(r.Body)
	if s == nil {
		atomic.AddInt64(&c.reg.stray, 1)
		w.WriteHeader(http.StatusGone)
		return
	}
	if rerr != nil {
		s.note("body read error: " + rerr.Error())
	}
	body := raw
	if r.Header.Get("Content-Encoding") == "gzip" {
		if zr, err := gzip.NewReader(bytes.NewReader(raw)); err == nil {
			if b, err := io.ReadAll(zr); err == nil {
				body = b
			}
		}
	}
	enc := r.Header.Get("Content-Encoding")
	if enc == "" {
		enc = "none"
	}
	hdr := 0
	for k, v := range s.hdr {
		if r.Header.Get(k) == v {
			hdr++
		}
	}
	n, it := s.arrive(hashOf(body), len(body), hdr, enc)
	switch it.Kind {
	case "hold":
		// the request is held while the scripted Cancel / Shutdown is issued; a client that abandons it is
		// recorded as served "hold"; one that keeps waiting (Shutdown that does not interrupt) is released with a success
		s.stop(it.Stop, n)
		select {
		case <-r.Context().Done():
			s.resp(n, it)
			return
		case <-time.After(s.release(it.Stop)):
			it = Item{Kind: "status", Code: http.StatusOK}
		}
	case "tmpnet", "hung":
		// the collector never answers: the client's per-attempt timeout must end the attempt (temporary network
		// error). Gone = the moment the collector saw the client abandon the request.
		s.resp(n, it)
		select {
		case <-r.Context().Done():
			s.emit("Gone", true, map[string]any{"n": n})
			s.after(n, it) // the client has given up on this attempt and is now waiting before the next one
			return
		case <-time.After(s.hungCap()):
			s.emit("Gone", true, map[string]any{"n": n})
			s.note("the client never abandoned the unanswered request")
			it = Item{Kind: "status", Code: http.StatusOK}
		}
	case "close":
		s.resp(n, it)
		if hj, ok := w.(http.Hijacker); ok {
			if conn, _, err := hj.Hijack(); err == nil {
				conn.Close()
				return
			}
		}
		s.note("hijack failed")
		return
	}
	if it.SlowUs > 0 {
		time.Sleep(time.Duration(it.SlowUs) * time.Microsecond)
	}
	if it.ThrUs > 0 {
		w.Header().Set("Retry-After", strconv.FormatInt(it.ThrUs/1_000_000, 10))
	}
	var out []byte
	if it.Code >= 200 && it.Code <= 299 {
		if it.Partial {
			w.Header().Set("Content-Type", "application/x-protobuf")
			out = partialBody(signal, psMarker(s.sc.ID, n))
		} else if n%2 == 0 && it.Code != http.StatusNoContent {
			w.Header().Set("Content-Type", "application/x-protobuf")
			out = emptyBody(signal)
		}
	} else {
		out = []byte(marker(s.sc.ID, n))
	}
	s.resp(n, it) // time taken before the response is handed to the transport
	w.WriteHeader(it.Code)
	if len(out) > 0 && it.Code != http.StatusNoContent {
		w.Write(out)
	}
	if f, ok := w.(http.Flusher); ok {
		f.Flush()
	}
	s.after(n, it)
}

// ---------------------------------------------------------------------------------- gRPC

type grpcCollector struct {
	reg  *registry
	srv  *grpc.Server
	addr string
}

type traceSvc struct {
	coltracepb.UnimplementedTraceServiceServer
	c *grpcCollector
}
type metricSvc struct {
	colmetricpb.UnimplementedMetricsServiceServer
	c *grpcCollector
}
type logSvc struct {
	collogpb.UnimplementedLogsServiceServer
	c *grpcCollector
}

type rpcInfoKey struct{}
type rpcInfo struct{ compression string }

// encWatch records the compression the client announced for an RPC (grpc-encoding is not exposed as metadata).
type encWatch struct{}

func (encWatch) TagRPC(ctx context.Context, _ *stats.RPCTagInfo) context.Context {
	return context.WithValue(ctx, rpcInfoKey{}, &rpcInfo{})
}

func (encWatch) HandleRPC(ctx context.Context, st stats.RPCStats) {
	if h, ok := st.(*stats.InHeader); ok {
		if ri, ok := ctx.Value(rpcInfoKey{}).(*rpcInfo); ok {
			ri.compression = h.Compression
		}
	}
}
func (encWatch) TagConn(ctx context.Context, _ *stats.ConnTagInfo) context.Context { return ctx }
func (encWatch) HandleConn(context.Context, stats.ConnStats)                       {}

func startGRPC(reg *registry) (*grpcCollector, error) {
	c := &grpcCollector{reg: reg, srv: grpc.NewServer(grpc.StatsHandler(encWatch{}))}
	coltracepb.RegisterTraceServiceServer(c.srv, &traceSvc{c: c})
	colmetricpb.RegisterMetricsServiceServer(c.srv, &metricSvc{c: c})
	collogpb.RegisterLogsServiceServer(c.srv, &logSvc{c: c})
	ln, err := net.Listen("tcp", "127.0.0.1:0")
	if err != nil {
		return nil, err
	}
	c.addr = ln.Addr().String()
	go c.srv.Serve(ln)
	return c, nil
}

func (c *grpcCollector) listen(s *scenarioRun) (string, func(), error) {
	ln, err := net.Listen("tcp", "127.0.0.1:0")
	if err != nil {
		return "", nil, err
	}
	port := portOf(ln.Addr())
	c.reg.put(port, s)
	go c.srv.Serve(ln)
	return ln.Addr().String(), func() { ln.Close(); c.reg.del(port) }, nil
}

// serve returns (partial marker or "", error) for one RPC.
func (c *grpcCollector) serve(ctx context.Context, req proto.Message) (string, error) {
	md, _ := metadata.FromIncomingContext(ctx)
	var la net.Addr
	if p, ok := peer.FromContext(ctx); ok {
		la = p.LocalAddr
	}
	s := c.reg.get(portOf(la))
	if s == nil {
		atomic.AddInt64(&c.reg.stray, 1)
		return "", status.Error(codes.Unknown, "unknown scenario")
	}
	b, err := proto.MarshalOptions{Deterministic: true}.Marshal(req)
	if err != nil {
		s.note("marshal: " + err.Error())
	}
	enc := "none"
	if ri, ok := ctx.Value(rpcInfoKey{}).(*rpcInfo); ok && ri.compression != "" {
		enc = ri.compression
	}
	hdr := 0
	for k, v := range s.hdr {
		if got := md.Get(k); len(got) == 1 && got[0] == v {
			hdr++
		}
	}
	n, it := s.arrive(hashOf(b), len(b), hdr, enc)
	switch it.Kind {
	case "hung", "tmpnet":
		// never answered: the export timeout (whole call for gRPC) must end it
		s.resp(n, Item{Kind: "hung"})
		select {
		case <-ctx.Done():
			s.emit("Gone", true, map[string]any{"n": n})
			s.after(n, it)
			return "", status.Error(codes.Unavailable, "hung")
		case <-time.After(s.hungCap()):
			s.emit("Gone", true, map[string]any{"n": n})
			s.note("the client never abandoned the unanswered request")
			it = Item{Kind: "status", Code: 0}
		}
	case "hold", "close":
		s.stop(it.Stop, n)
		select {
		case <-ctx.Done():
			s.resp(n, Item{Kind: "hold"})
			return "", status.Error(codes.Unavailable, "held")
		case <-time.After(s.release(it.Stop)):
			it = Item{Kind: "status", Code: 0}
		}
	}
	if it.SlowUs > 0 {
		time.Sleep(time.Duration(it.SlowUs) * time.Microsecond)
	}
	defer s.after(n, it)
	if it.Code == 0 {
		s.resp(n, it)
		if it.Partial {
			return psMarker(s.sc.ID, n), nil
		}
		return "", nil
	}
	st := status.New(codes.Code(it.Code), marker(s.sc.ID, n))
	if it.RI {
		if st2, err := st.WithDetails(&errdetails.RetryInfo{RetryDelay: durationpb.New(time.Duration(it.ThrUs) * time.Microsecond)}); err == nil {
			st = st2
		} else {
			s.note("WithDetails: " + err.Error())
		}
	}
	s.resp(n, it)
	return "", st.Err()
}

func (t *traceSvc) Export(ctx context.Context, req *coltracepb.ExportTraceServiceRequest) (*coltracepb.ExportTraceServiceResponse, error) {
	ps, err := t.c.serve(ctx, req)
	if err != nil {
		return nil, err
	}
	resp := &coltracepb.ExportTraceServiceResponse{}
	if ps != "" {
		resp.PartialSuccess = &coltracepb.ExportTracePartialSuccess{RejectedSpans: 1, ErrorMessage: ps}
	}
	return resp, nil
}

func (t *metricSvc) Export(ctx context.Context, req *colmetricpb.ExportMetricsServiceRequest) (*colmetricpb.ExportMetricsServiceResponse, error) {
	ps, err := t.c.serve(ctx, req)
	if err != nil {
		return nil, err
	}
	resp := &colmetricpb.ExportMetricsServiceResponse{}
	if ps != "" {
		resp.PartialSuccess = &colmetricpb.ExportMetricsPartialSuccess{RejectedDataPoints: 1, ErrorMessage: ps}
	}
	return resp, nil
}

func (t *logSvc) Export(ctx context.Context, req *collogpb.ExportLogsServiceRequest) (*collogpb.ExportLogsServiceResponse, error) {
	ps, err := t.c.serve(ctx, req)
	if err != nil {
		return nil, err
	}
	resp := &collogpb.ExportLogsServiceResponse{}
	if ps != "" {
		resp.PartialSuccess = &collogpb.ExportLogsPartialSuccess{RejectedLogRecords: 1, ErrorMessage: ps}
	}
	return resp, nil
}
