// c14: conformance harness for OtlpRetry.tla / OtlpRetryContract.tla (property C14).
//
//	c14 scripts -in SCENARIOS.json -out TRACE -res R [-par N]   run scenarios (TLC behaviours, directed) on the six real exporters
//	c14 random  -n N -out TRACE -res R [-par N]                 seeded random outcome scripts / configurations
//
// The harness only executes and records: a scripted loopback collector (collector.go) serves what the
// scenario says, the real exporter is driven through its public API, every observation goes to an
// ndjson trace (one contiguous block per scenario) that TLC validates against the contract.
package main

import (
	"context"
	"encoding/json"
	"errors"
	"flag"
	"fmt"
	"math/rand"
	"net/http"
	"net/http/httptrace"
	"net/url"
	"os"
	"regexp"
	"strconv"
	"sync"
	"sync/atomic"
	"time"

	"go.opentelemetry.io/otel"
	"go.opentelemetry.io/otel/sdk/verifh/vh"
)

type Want struct {
	Valid    bool `json:"valid"`
	Attempts int  `json:"attempts"`
	Err      bool `json:"err"`
	Handled  int  `json:"handled"`
	Clock    int  `json:"clock"` // model time (ticks) at the return
}

type Scenario struct {
	ID         int    `json:"id"`
	Name       string `json:"name"`
	Src        string `json:"src"`
	Exp        string `json:"exp"`
	Enabled    bool   `json:"enabled"`
	InitialUs  int64  `json:"initial_us"`
	MaxIntUs   int64  `json:"maxint_us"`
	MaxElUs    int64  `json:"maxel_us"`
	AttoUs     int64  `json:"atto_us"` // short per-attempt client timeout (scenarios with tmpnet items), 0 = 30 s
	TolUs      int64  `json:"tol_us"`
	TickUs     int64  `json:"tick_us"`
	Items      []Item `json:"items"`
	CtoUs      int64  `json:"cto_us"`     // small explicit export timeout of a gRPC exporter (bounds the whole call), 0 = none
	StopBefore string `json:"stopBefore"` // "cancel": context cancelled before the call
	SdCtx      string `json:"sdctx"`      // context handed to Shutdown: "bg" | "expired"
	X          XCfg   `json:"xcfg"`       // exporter options the contract must not depend on
	Grp        int    `json:"grp"`        // scenarios of one group differ in X only (0 = no group)
	DlUs       int64  `json:"dl_us"`      // deadline of the caller's context, armed right after the Call event (0 = none)
	Want       Want   `json:"want"`
}

// scenarioRun is the per-scenario recorder; events are appended under one lock, so their order is a
// real-time-consistent order of the Emit calls.
type scenarioRun struct {
	sc      Scenario
	reg     *registry
	mu      sync.Mutex
	events  []map[string]any
	n       int
	closed  bool
	cancel  context.CancelFunc
	exp     driven
	stopped bool
	hdr     map[string]string // configured headers that must arrive with every attempt
	notes   []string
	late    int
	sdDone  chan struct{}
	pending sync.WaitGroup // scripted stops not yet issued
}

func (s *scenarioRun) emitAt(ev string, t int64, kv map[string]any) {
	if kv == nil {
		kv = map[string]any{}
	}
	kv["ev"] = ev
	kv["sc"] = s.sc.ID
	kv["t"] = t
	s.events = append(s.events, kv)
}

func (s *scenarioRun) emit(ev string, ceil bool, kv map[string]any) {
	s.mu.Lock()
	defer s.mu.Unlock()
	if s.closed {
		s.late++
		return
	}
	t := s.reg.floorUs()
	if ceil {
		t = s.reg.ceilUs()
	}
	s.emitAt(ev, t, kv)
}

func (s *scenarioRun) note(msg string) {
	s.mu.Lock()
	if len(s.notes) < 10 {
		s.notes = append(s.notes, msg)
	}
	s.mu.Unlock()
}

// arrive logs the arrival of an attempt and returns its number and what to serve.
func (s *scenarioRun) arrive(hash string, size int, hdr int, enc string) (int, Item) {
	s.mu.Lock()
	defer s.mu.Unlock()
	s.n++
	n := s.n
	var it Item
	if n <= len(s.sc.Items) {
		it = s.sc.Items[n-1]
	} else {
		// beyond the script: plain success
		it = Item{Kind: "status", Code: 200}
		if protoOf(s.sc.Exp) == "grpc" {
			it.Code = 0
		}
	}
	if s.closed {
		s.late++
		return n, it
	}
	s.emitAt("Attempt", s.reg.ceilUs(), map[string]any{"n": n, "hash": hash, "size": size, "hdr": hdr, "enc": enc})
	return n, it
}

// netFault is a transport error that is temporary without being a time-out.
type netFault struct{ msg string }

func (e netFault) Error() string   { return e.msg }
func (e netFault) Temporary() bool { return true }
func (e netFault) Timeout() bool   { return false }

// proxy is the transport's proxy hook of an HTTP exporter: it runs once per round trip, before anything is sent.
// When the script says that this attempt fails in the transport it records the attempt (no payload is observable
// here: hash "-") and returns the fault; otherwise the request goes directly to the collector.
func (s *scenarioRun) proxy(req *http.Request) (*url.URL, error) {
	s.mu.Lock()
	next := s.n + 1
	if next > len(s.sc.Items) || (s.sc.Items[next-1].Kind != "tempnet" && s.sc.Items[next-1].Kind != "permnet") {
		s.mu.Unlock()
		return nil, nil
	}
	it := s.sc.Items[next-1]
	s.n = next
	enc := req.Header.Get("Content-Encoding")
	if enc == "" {
		enc = "none"
	}
	hdr := 0
	for k, v := range s.hdr {
		if req.Header.Get(k) == v {
			hdr++
		}
	}
	if !s.closed {
		s.emitAt("Attempt", s.reg.ceilUs(), map[string]any{"n": next, "hash": "-", "size": 0, "hdr": hdr, "enc": enc})
	}
	s.mu.Unlock()
	s.resp(next, it)
	s.after(next, it)
	msg := "injected transport fault " + marker(s.sc.ID, next)
	if it.Kind == "tempnet" {
		return nil, netFault{msg: msg}
	}
	return nil, errors.New(msg) // no Temporary method: a permanent error
}

func (s *scenarioRun) resp(n int, it Item) {
	s.emit("Resp", false, map[string]any{"n": n, "kind": it.Kind, "code": it.Code, "partial": it.Partial, "ri": it.RI, "thr": it.ThrUs})
}

// stop issues the scripted Cancel / exporter Shutdown; k is the attempt it was scripted for (0 = before the call).
func (s *scenarioRun) stop(kind string, k int) {
	s.mu.Lock()
	if s.stopped || kind == "" {
		s.mu.Unlock()
		return
	}
	s.stopped = true
	s.mu.Unlock()
	switch kind {
	case "cancel":
		s.emit("Cancel", false, map[string]any{"k": k})
		s.cancel()
	case "shutdown":
		sdctx := context.Background()
		if s.sc.SdCtx == "expired" {
			c, cancel := context.WithCancel(sdctx)
			cancel()
			sdctx = c
		}
		s.emit("ShutdownCall", false, map[string]any{"k": k})
		go func() {
			err := s.exp.Shutdown(sdctx)
			s.emit("ShutdownRet", false, map[string]any{"err": err != nil})
			close(s.sdDone)
		}()
	}
}

// release: how long a held request waits for the client to abandon it before it is answered after all.
func (s *scenarioRun) release(stopKind string) time.Duration {
	tol := time.Duration(s.sc.TolUs) * time.Microsecond
	if stopKind == "shutdown" {
		return tol + 500*time.Millisecond
	}
	return tol + 2*time.Second
}

// hungCap: how long an unanswered request waits for the client's timeout before it is answered after all.
func (s *scenarioRun) hungCap() time.Duration {
	to := s.sc.AttoUs
	if s.sc.CtoUs > to {
		to = s.sc.CtoUs
	}
	return time.Duration(to+s.sc.TolUs)*time.Microsecond + 1500*time.Millisecond
}

// after is called once a response has been handed to the transport.
func (s *scenarioRun) after(n int, it Item) {
	if it.StopAfter == "" {
		return
	}
	s.pending.Add(1)
	go func() {
		defer s.pending.Done()
		if it.StopDelay > 0 {
			time.Sleep(time.Duration(it.StopDelay) * time.Microsecond)
		}
		s.stop(it.StopAfter, n)
	}()
}

var (
	reMark = regexp.MustCompile(`vmark-(\d+)-(\d+);`)
	rePS   = regexp.MustCompile(`vps-(\d+)-(\d+);`)
)

type runner struct {
	reg       *registry
	hc        *httpCollector
	gc        *grpcCollector
	tw        *vh.TraceWriter
	res       *vh.Result
	twMu      sync.Mutex
	summaries []map[string]any
	sumMu     sync.Mutex
	otherErrs int64
}

// Handle is the global otel.ErrorHandler: partial-success reports carry the scenario's marker.
func (r *runner) Handle(err error) {
	if err == nil {
		return
	}
	m := rePS.FindStringSubmatch(err.Error())
	if m == nil {
		atomic.AddInt64(&r.otherErrs, 1)
		return
	}
	if s := r.reg.get("sc" + m[1]); s != nil {
		n, _ := strconv.Atoi(m[2])
		s.emit("Handled", false, map[string]any{"n": n})
	}
}

func orDefault(v, d int64) int64 {
	if v == 0 {
		return d
	}
	return v
}

func (r *runner) runScenario(sc Scenario) {
	s := &scenarioRun{sc: sc, reg: r.reg, sdDone: make(chan struct{}), hdr: headersFor(sc.ID, sc.X.Headers)}
	idStr := strconv.Itoa(sc.ID)
	rc := retryCfg{
		Enabled: sc.Enabled, Initial: time.Duration(sc.InitialUs) * time.Microsecond, MaxInt: time.Duration(sc.MaxIntUs) * time.Microsecond,
		MaxEl: time.Duration(sc.MaxElUs) * time.Microsecond,
	}
	// timeout: the scenario's small explicit one (per attempt for HTTP, whole call for gRPC), else an explicit
	// generous one, else none (the exporter's 10 s default)
	var timeout time.Duration
	switch {
	case sc.AttoUs > 0:
		timeout = time.Duration(sc.AttoUs) * time.Microsecond
	case sc.CtoUs > 0:
		timeout = time.Duration(sc.CtoUs) * time.Microsecond
	case sc.X.Timeout == "explicit":
		timeout = 30 * time.Second
	}
	var addr string
	var closeLn func()
	var err error
	if protoOf(sc.Exp) == "http" {
		addr, closeLn, err = r.hc.listen(s)
	} else {
		addr, closeLn, err = r.gc.listen(s)
	}
	if err != nil {
		r.res.Inconcl(fmt.Sprintf("scenario %d: cannot listen: %v", sc.ID, err))
		return
	}
	// transport faults (temporary but not a time-out / permanent) are injected through the exporter's WithProxy hook
	var pf proxyFunc
	if protoOf(sc.Exp) == "http" {
		for _, it := range sc.Items {
			if it.Kind == "tempnet" || it.Kind == "permnet" {
				pf = s.proxy
				break
			}
		}
	}
	exp, err := newDriven(sc.Exp, sc.ID, addr, sc.X, s.hdr, timeout, rc, pf)
	if err != nil {
		closeLn()
		r.res.Inconcl(fmt.Sprintf("scenario %d: cannot build exporter %s: %v", sc.ID, sc.Exp, err))
		return
	}
	s.exp = exp
	ctx, cancel := context.WithCancel(context.Background())
	s.cancel = cancel
	if protoOf(sc.Exp) == "http" {
		// client-side evidence that the response of the current attempt reached the client
		ctx = httptrace.WithClientTrace(ctx, &httptrace.ClientTrace{
			GotFirstResponseByte: func() { s.emit("Got", false, nil) },
		})
	}
	r.reg.put("sc"+idStr, s)
	enc := "none"
	if sc.X.Gzip {
		enc = "gzip"
	}
	atto, cto := sc.AttoUs, sc.CtoUs
	if protoOf(sc.Exp) == "grpc" {
		atto = 0
	} else {
		cto = 0
	}
	s.emit("Cfg", false, map[string]any{
		"proto": protoOf(sc.Exp), "signal": signalOf(sc.Exp), "exp": sc.Exp, "name": sc.Name, "src": sc.Src, "enabled": sc.Enabled,
		"initial": sc.InitialUs, "maxint": sc.MaxIntUs, "maxel": sc.MaxElUs, "atto": atto, "cto": cto, "tol": sc.TolUs, "tick": sc.TickUs,
		"nhdr": sc.X.Headers, "enc": enc, "env": sc.X.Env, "tmo": sc.X.Timeout, "grp": sc.Grp, "dl": sc.DlUs,
		"want": map[string]any{"valid": sc.Want.Valid, "attempts": sc.Want.Attempts, "err": sc.Want.Err, "handled": sc.Want.Handled, "clock": sc.Want.Clock},
	})
	if sc.StopBefore == "cancel" {
		s.stop("cancel", 0)
	}
	done := make(chan error, 1)
	s.emit("Call", false, nil)
	go func() {
		ctx := ctx
		if sc.DlUs > 0 { // armed after the Call event: the deadline is never earlier than Call.t + dl
			c, cc := context.WithTimeout(ctx, time.Duration(sc.DlUs)*time.Microsecond)
			defer cc()
			ctx = c
		}
		err := exp.Export(ctx)
		ref := 0
		msg := ""
		if err != nil {
			msg = err.Error()
			for _, m := range reMark.FindAllStringSubmatch(msg, -1) {
				if m[1] == idStr {
					ref, _ = strconv.Atoi(m[2])
				}
			}
			if len(msg) > 300 {
				msg = msg[:300]
			}
		}
		s.emit("Ret", true, map[string]any{"err": err != nil, "ref": ref, "msg": msg,
			"ctxerr": errors.Is(err, context.DeadlineExceeded) || errors.Is(err, context.Canceled)})
		done <- err
	}()
	watchdog := 25 * time.Second
	if sc.DlUs > 0 { // a call that is still running 3 s + tolerance after its caller's deadline does not return
		watchdog = time.Duration(sc.DlUs+sc.TolUs)*time.Microsecond + 3*time.Second
	}
	returned := true
	select {
	case <-done:
	case <-time.After(watchdog):
		returned = false
		s.emit("NoRet", false, nil)
		r.res.Count("no_return", 1)
	}
	s.pending.Wait() // a scripted stop that lost the race against the return is still recorded (as missed)
	// scripted Shutdown calls that serialise behind the export return now
	s.mu.Lock()
	wasStopped := s.stopped
	s.mu.Unlock()
	if wasStopped && returned {
		select {
		case <-s.sdDone:
		case <-time.After(20 * time.Millisecond):
		}
	}
	time.Sleep(5 * time.Millisecond) // linger: a stray attempt right after the return is still recorded
	s.emit("End", false, nil)
	s.mu.Lock()
	s.closed = true
	evs := s.events
	notes := s.notes
	attempts := s.n
	s.mu.Unlock()
	cancel()
	go func() {
		// cleanup (not recorded): release connections
		c, cc := context.WithTimeout(context.Background(), 2*time.Second)
		defer cc()
		_ = exp.Shutdown(c)
		time.Sleep(50 * time.Millisecond)
		r.reg.del("sc" + idStr)
		closeLn()
	}()
	r.twMu.Lock()
	for _, e := range evs {
		r.tw.Emit(e)
	}
	r.twMu.Unlock()
	r.res.Count("scenarios", 1)
	r.res.Count("exp_"+sc.Exp, 1)
	r.res.Count("src_"+sc.Src, 1)
	r.res.Count("attempts", int64(attempts))
	r.res.Count(fmt.Sprintf("xcfg_headers%d", sc.X.Headers), 1)
	if sc.X.Gzip {
		r.res.Count("xcfg_gzip", 1)
	}
	if sc.X.Env {
		r.res.Count("xcfg_env", 1)
	}
	r.res.Count("xcfg_timeout_"+sc.X.Timeout, 1)
	if sc.DlUs > 0 {
		r.res.Count("ctx_deadline", 1)
		if sc.Enabled && sc.MaxElUs == 0 {
			r.res.Count("ctx_deadline_unlimited_policy", 1)
		}
	}
	if attempts > len(sc.Items) {
		r.res.Count("attempts_beyond_script", int64(attempts-len(sc.Items)))
	}
	for _, it := range sc.Items {
		r.res.Count("item_"+it.Kind, 1)
		if it.ThrUs > 0 {
			r.res.Count("item_throttled", 1)
		}
		if it.Stop != "" || it.StopAfter != "" {
			r.res.Count("stop_"+it.Stop+it.StopAfter, 1)
		}
	}
	if len(notes) > 0 {
		r.res.Count("scenarios_with_notes", 1)
		r.res.Sample(map[string]any{"scenario": sc.ID, "notes": notes})
	}
	r.res.Sample(map[string]any{"scenario": sc, "events": evs})
	atomic.AddInt64(&r.res.Executed, 1)
}

func (r *runner) runAll(scs []Scenario, par int) {
	sem := make(chan struct{}, par)
	var wg sync.WaitGroup
	for _, sc := range scs {
		wg.Add(1)
		sem <- struct{}{}
		go func(sc Scenario) {
			defer wg.Done()
			defer func() { <-sem }()
			r.runScenario(sc)
		}(sc)
	}
	wg.Wait()
}

func main() {
	if len(os.Args) < 2 {
		fmt.Fprintln(os.Stderr, "usage: c14 scripts|random ...")
		os.Exit(3)
	}
	for _, k := range os.Environ() {
		if len(k) > 19 && k[:19] == "OTEL_EXPORTER_OTLP_" {
			for i := 0; i < len(k); i++ {
				if k[i] == '=' {
					os.Unsetenv(k[:i])
					break
				}
			}
		}
	}
	mode := os.Args[1]
	fs := flag.NewFlagSet(mode, flag.ExitOnError)
	in := fs.String("in", "", "scenario file (scripts mode)")
	out := fs.String("out", "trace.ndjson", "ndjson trace")
	resPath := fs.String("res", "res.json", "result file")
	n := fs.Int("n", 100, "number of random scenarios")
	par := fs.Int("par", 64, "scenarios in flight")
	idBase := fs.Int("idbase", 1, "first scenario id (random mode)")
	fs.Parse(os.Args[2:])

	res := vh.NewResult()
	reg := &registry{byID: map[string]*scenarioRun{}, base: time.Now()}
	hc, err := startHTTP(reg)
	if err != nil {
		res.Inconcl("cannot start HTTP collector: " + err.Error())
		vh.Must(res.Write(*resPath))
		os.Exit(0)
	}
	gc, err := startGRPC(reg)
	if err != nil {
		res.Inconcl("cannot start gRPC collector: " + err.Error())
		vh.Must(res.Write(*resPath))
		os.Exit(0)
	}
	tw, err := vh.NewTraceWriter(*out)
	vh.Must(err)
	r := &runner{reg: reg, hc: hc, gc: gc, tw: tw, res: res}
	otel.SetErrorHandler(otel.ErrorHandlerFunc(r.Handle))

	var scs []Scenario
	switch mode {
	case "scripts":
		b, err := os.ReadFile(*in)
		vh.Must(err)
		vh.Must(json.Unmarshal(b, &scs))
	case "random":
		rng := rand.New(rand.NewSource(vh.Seed()*7919 + 14))
		for i := 0; i < *n; i++ {
			scs = append(scs, randomScenario(rng, *idBase+i))
		}
		scs = append(scs, cfgValueScenarios(vh.Seed(), *idBase+*n, *n/5)...) // RetryConfig value classes (cfgvalues.go)
	default:
		fmt.Fprintln(os.Stderr, "unknown mode", mode)
		os.Exit(3)
	}
	r.runAll(scs, *par)
	res.Count("stray_requests", atomic.LoadInt64(&reg.stray))
	res.Count("other_handled_errors", atomic.LoadInt64(&r.otherErrs))
	vh.Must(tw.Close())
	vh.Must(res.Write(*resPath))
	gc.srv.Stop()
	hc.srv.Close()
}
