package main

// The six real OTLP exporters behind one interface, each built through its public options
// (WithEndpoint / WithInsecure / WithHeaders / WithRetry / WithTimeout) and fed one small payload.

import (
	"context"
	"fmt"
	"time"

	"go.opentelemetry.io/otel/attribute"
	"go.opentelemetry.io/otel/exporters/otlp/otlplog/otlploggrpc"
	"go.opentelemetry.io/otel/exporters/otlp/otlplog/otlploghttp"
	"go.opentelemetry.io/otel/exporters/otlp/otlpmetric/otlpmetricgrpc"
	"go.opentelemetry.io/otel/exporters/otlp/otlpmetric/otlpmetrichttp"
	"go.opentelemetry.io/otel/exporters/otlp/otlptrace/otlptracegrpc"
	"go.opentelemetry.io/otel/exporters/otlp/otlptrace/otlptracehttp"
	otellog "go.opentelemetry.io/otel/log"
	"go.opentelemetry.io/otel/sdk/instrumentation"
	sdklog "go.opentelemetry.io/otel/sdk/log"
	"go.opentelemetry.io/otel/sdk/metric/metricdata"
	"go.opentelemetry.io/otel/sdk/resource"
	sdktrace "go.opentelemetry.io/otel/sdk/trace"
	"go.opentelemetry.io/otel/sdk/trace/tracetest"
	"go.opentelemetry.io/otel/trace"
)

// driven is one real exporter plus the payload of this scenario.
type driven interface {
	Export(ctx context.Context) error
	Shutdown(ctx context.Context) error
}

type retryCfg struct {
	Enabled  bool
	Initial  time.Duration
	MaxInt   time.Duration
	MaxEl    time.Duration
	Timeout  time.Duration
	Compress bool
}

var exporterKinds = []string{"tracehttp", "tracegrpc", "metrichttp", "metricgrpc", "loghttp", "loggrpc"}

func protoOf(exp string) string {
	switch exp {
	case "tracehttp", "metrichttp", "loghttp":
		return "http"
	}
	return "grpc"
}

func signalOf(exp string) string {
	switch exp {
	case "tracehttp", "tracegrpc":
		return "traces"
	case "metrichttp", "metricgrpc":
		return "metrics"
	}
	return "logs"
}

type traceDriven struct {
	exp   sdktrace.SpanExporter
	spans []sdktrace.ReadOnlySpan
}

func (d *traceDriven) Export(ctx context.Context) error   { return d.exp.ExportSpans(ctx, d.spans) }
func (d *traceDriven) Shutdown(ctx context.Context) error { return d.exp.Shutdown(ctx) }

type metricExporter interface {
	Export(context.Context, *metricdata.ResourceMetrics) error
	Shutdown(context.Context) error
}

type metricDriven struct {
	exp metricExporter
	rm  *metricdata.ResourceMetrics
}

func (d *metricDriven) Export(ctx context.Context) error   { return d.exp.Export(ctx, d.rm) }
func (d *metricDriven) Shutdown(ctx context.Context) error { return d.exp.Shutdown(ctx) }

type logDriven struct {
	exp  sdklog.Exporter
	recs []sdklog.Record
}

func (d *logDriven) Export(ctx context.Context) error   { return d.exp.Export(ctx, d.recs) }
func (d *logDriven) Shutdown(ctx context.Context) error { return d.exp.Shutdown(ctx) }

func testResource(id int) *resource.Resource {
	return resource.NewSchemaless(attribute.String("service.name", "c14"), attribute.Int("scenario", id))
}

func spansFor(id int) []sdktrace.ReadOnlySpan {
	tid := trace.TraceID{1, 2, 3, 4, 5, 6, 7, 8, 9, 10, 11, 12, 13, 14, byte(id >> 8), byte(id)}
	sid := trace.SpanID{1, 2, 3, 4, 5, 6, byte(id >> 8), byte(id)}
	t0 := time.Unix(1700000000, 0)
	stubs := tracetest.SpanStubs{
		{
			Name:                 fmt.Sprintf("span-%d", id),
			SpanContext:          trace.NewSpanContext(trace.SpanContextConfig{TraceID: tid, SpanID: sid, TraceFlags: trace.FlagsSampled}),
			SpanKind:             trace.SpanKindClient,
			StartTime:            t0,
			EndTime:              t0.Add(time.Millisecond),
			Attributes:           []attribute.KeyValue{attribute.String("k", "v"), attribute.Int("i", id)},
			Resource:             testResource(id),
			InstrumentationScope: instrumentation.Scope{Name: "c14", Version: "v1"},
		},
		{
			Name:                 "second",
			SpanContext:          trace.NewSpanContext(trace.SpanContextConfig{TraceID: tid, SpanID: trace.SpanID{9, 9, 9, 9, 9, 9, 9, 9}, TraceFlags: trace.FlagsSampled}),
			StartTime:            t0,
			EndTime:              t0.Add(2 * time.Millisecond),
			Resource:             testResource(id),
			InstrumentationScope: instrumentation.Scope{Name: "c14", Version: "v1"},
		},
	}
	return stubs.Snapshots()
}

func metricsFor(id int) *metricdata.ResourceMetrics {
	t0 := time.Unix(1700000000, 0)
	return &metricdata.ResourceMetrics{
		Resource: testResource(id),
		ScopeMetrics: []metricdata.ScopeMetrics{{
			Scope: instrumentation.Scope{Name: "c14", Version: "v1"},
			Metrics: []metricdata.Metrics{{
				Name: fmt.Sprintf("m-%d", id),
				Data: metricdata.Sum[int64]{
					Temporality: metricdata.CumulativeTemporality, IsMonotonic: true,
					DataPoints: []metricdata.DataPoint[int64]{
						{Attributes: attribute.NewSet(attribute.String("k", "v")), StartTime: t0, Time: t0.Add(time.Second), Value: int64(id)},
						{Attributes: attribute.NewSet(attribute.String("k", "w")), StartTime: t0, Time: t0.Add(time.Second), Value: 7},
					},
				},
			}},
		}},
	}
}

// capture is a log processor that keeps clones of the emitted records (public way to obtain sdklog.Record values).
type capture struct{ recs []sdklog.Record }

func (c *capture) OnEmit(_ context.Context, r *sdklog.Record) error {
	c.recs = append(c.recs, r.Clone())
	return nil
}
func (c *capture) Shutdown(context.Context) error   { return nil }
func (c *capture) ForceFlush(context.Context) error { return nil }

func logsFor(id int) []sdklog.Record {
	c := &capture{}
	lp := sdklog.NewLoggerProvider(sdklog.WithProcessor(c), sdklog.WithResource(testResource(id)))
	l := lp.Logger("c14")
	for i := 0; i < 2; i++ {
		var r otellog.Record
		r.SetTimestamp(time.Unix(1700000000, int64(i)))
		r.SetSeverity(otellog.SeverityInfo)
		r.SetBody(otellog.StringValue(fmt.Sprintf("log-%d-%d", id, i)))
		r.AddAttributes(otellog.Int("i", i))
		l.Emit(context.Background(), r)
	}
	_ = lp.Shutdown(context.Background())
	return c.recs
}

// newDriven builds the real exporter `kind` pointed at the loopback collector.
func newDriven(kind string, id int, httpAddr, grpcAddr string, hdr map[string]string, rc retryCfg) (driven, error) {
	ctx := context.Background()
	switch kind {
	case "tracehttp":
		opts := []otlptracehttp.Option{
			otlptracehttp.WithEndpoint(httpAddr), otlptracehttp.WithInsecure(), otlptracehttp.WithHeaders(hdr),
			otlptracehttp.WithTimeout(rc.Timeout),
			otlptracehttp.WithRetry(otlptracehttp.RetryConfig{Enabled: rc.Enabled, InitialInterval: rc.Initial, MaxInterval: rc.MaxInt, MaxElapsedTime: rc.MaxEl}),
		}
		if rc.Compress {
			opts = append(opts, otlptracehttp.WithCompression(otlptracehttp.GzipCompression))
		}
		e, err := otlptracehttp.New(ctx, opts...)
		if err != nil {
			return nil, err
		}
		return &traceDriven{exp: e, spans: spansFor(id)}, nil
	case "tracegrpc":
		opts := []otlptracegrpc.Option{
			otlptracegrpc.WithEndpoint(grpcAddr), otlptracegrpc.WithInsecure(), otlptracegrpc.WithHeaders(hdr),
			otlptracegrpc.WithTimeout(rc.Timeout),
			otlptracegrpc.WithRetry(otlptracegrpc.RetryConfig{Enabled: rc.Enabled, InitialInterval: rc.Initial, MaxInterval: rc.MaxInt, MaxElapsedTime: rc.MaxEl}),
		}
		if rc.Compress {
			opts = append(opts, otlptracegrpc.WithCompressor("gzip"))
		}
		e, err := otlptracegrpc.New(ctx, opts...)
		if err != nil {
			return nil, err
		}
		return &traceDriven{exp: e, spans: spansFor(id)}, nil
	case "metrichttp":
		opts := []otlpmetrichttp.Option{
			otlpmetrichttp.WithEndpoint(httpAddr), otlpmetrichttp.WithInsecure(), otlpmetrichttp.WithHeaders(hdr),
			otlpmetrichttp.WithTimeout(rc.Timeout),
			otlpmetrichttp.WithRetry(otlpmetrichttp.RetryConfig{Enabled: rc.Enabled, InitialInterval: rc.Initial, MaxInterval: rc.MaxInt, MaxElapsedTime: rc.MaxEl}),
		}
		if rc.Compress {
			opts = append(opts, otlpmetrichttp.WithCompression(otlpmetrichttp.GzipCompression))
		}
		e, err := otlpmetrichttp.New(ctx, opts...)
		if err != nil {
			return nil, err
		}
		return &metricDriven{exp: e, rm: metricsFor(id)}, nil
	case "metricgrpc":
		opts := []otlpmetricgrpc.Option{
			otlpmetricgrpc.WithEndpoint(grpcAddr), otlpmetricgrpc.WithInsecure(), otlpmetricgrpc.WithHeaders(hdr),
			otlpmetricgrpc.WithTimeout(rc.Timeout),
			otlpmetricgrpc.WithRetry(otlpmetricgrpc.RetryConfig{Enabled: rc.Enabled, InitialInterval: rc.Initial, MaxInterval: rc.MaxInt, MaxElapsedTime: rc.MaxEl}),
		}
		if rc.Compress {
			opts = append(opts, otlpmetricgrpc.WithCompressor("gzip"))
		}
		e, err := otlpmetricgrpc.New(ctx, opts...)
		if err != nil {
			return nil, err
		}
		return &metricDriven{exp: e, rm: metricsFor(id)}, nil
	case "loghttp":
		opts := []otlploghttp.Option{
			otlploghttp.WithEndpoint(httpAddr), otlploghttp.WithInsecure(), otlploghttp.WithHeaders(hdr),
			otlploghttp.WithTimeout(rc.Timeout),
			otlploghttp.WithRetry(otlploghttp.RetryConfig{Enabled: rc.Enabled, InitialInterval: rc.Initial, MaxInterval: rc.MaxInt, MaxElapsedTime: rc.MaxEl}),
		}
		if rc.Compress {
			opts = append(opts, otlploghttp.WithCompression(otlploghttp.GzipCompression))
		}
		e, err := otlploghttp.New(ctx, opts...)
		if err != nil {
			return nil, err
		}
		return &logDriven{exp: e, recs: logsFor(id)}, nil
	case "loggrpc":
		opts := []otlploggrpc.Option{
			otlploggrpc.WithEndpoint(grpcAddr), otlploggrpc.WithInsecure(), otlploggrpc.WithHeaders(hdr),
			otlploggrpc.WithTimeout(rc.Timeout),
			otlploggrpc.WithRetry(otlploggrpc.RetryConfig{Enabled: rc.Enabled, InitialInterval: rc.Initial, MaxInterval: rc.MaxInt, MaxElapsedTime: rc.MaxEl}),
		}
		if rc.Compress {
			opts = append(opts, otlploggrpc.WithCompressor("gzip"))
		}
		e, err := otlploggrpc.New(ctx, opts...)
		if err != nil {
			return nil, err
		}
		return &logDriven{exp: e, recs: logsFor(id)}, nil
	}
	return nil, fmt.Errorf("unknown exporter kind %q", kind)
}
