package main

// The six real OTLP exporters behind one interface, each built through its public options
// (WithEndpoint / WithInsecure / WithHeaders / WithRetry / WithTimeout) and fed one small payload.

import (
	"context"
	"fmt"
	"net/http"
	"net/url"
	"os"
	"sort"
	"strings"
	"sync"
	"time"

	"go.opentelemetry.io/otel/attribute"
	"go.opentelemetry.io/otel/exporters/otlp/otlplog/otlploggrpc"
	"go.opentelemetry.io/otel/exporters/otlp/otlplog/otlploghttp"
	"go.opentelemetry.io/otel/exporters/otlp/otlpmetric/otlpmetricgrpc"
	"go.opentelemetry.io/otel/exporters/otlp/otlpmetric/otlpmetrichttp"
	"go.opentelemetry.io/otel/exporters/otlp/otlptrace/otlptracegrpc"
	"go.opentelemetry.io/otel/exporters/otlp/otlptrace/otlptracehttp"
	otellog "go.opentelemetry.io/otel/log"
	"go.opentelemetry.io/otel/sdk/instrumentation"
	sdklog "go.opentelemetry.io/otel/sdk/log"
	"go.opentelemetry.io/otel/sdk/metric/metricdata"
	"go.opentelemetry.io/otel/sdk/resource"
	sdktrace "go.opentelemetry.io/otel/sdk/trace"
	"go.opentelemetry.io/otel/sdk/trace/tracetest"
	"go.opentelemetry.io/otel/trace"
)

// driven is one real exporter plus the payload of this scenario.
type driven interface {
	Export(ctx context.Context) error
	Shutdown(ctx context.Context) error
}

type retryCfg struct {
	Enabled bool
	Initial time.Duration
	MaxInt  time.Duration
	MaxEl   time.Duration
}

// XCfg is the exporter-option dimension the contract must be independent of: how many headers are
// configured, compression, whether endpoint/headers/compression/timeout come from options or from the
// OTEL_EXPORTER_OTLP_* environment, and whether a timeout is given explicitly.
type XCfg struct {
	Headers int    `json:"headers"` // 0, 1 or 3 configured headers
	Gzip    bool   `json:"gzip"`
	Env     bool   `json:"env"`     // configured through the environment instead of options
	Timeout string `json:"timeout"` // "default" (no option) | "explicit"
}

// envMu serialises exporter construction when the process environment is used as configuration source.
var envMu sync.Mutex

func headersFor(id, n int) map[string]string {
	h := map[string]string{}
	for i := 1; i <= n; i++ {
		h[fmt.Sprintf("x-verif-h%d", i)] = fmt.Sprintf("s%d-%d", id, i)
	}
	return h
}

var exporterKinds = []string{"tracehttp", "tracegrpc", "metrichttp", "metricgrpc", "loghttp", "loggrpc"}

func protoOf(exp string) string {
	switch exp {
	case "tracehttp", "metrichttp", "loghttp":
		return "http"
	}
	return "grpc"
}

func signalOf(exp string) string {
	switch exp {
	case "tracehttp", "tracegrpc":
		return "traces"
	case "metrichttp", "metricgrpc":
		return "metrics"
	}
	return "logs"
}

type traceDriven struct {
	exp   sdktrace.SpanExporter
	spans []sdktrace.ReadOnlySpan
}

func (d *traceDriven) Export(ctx context.Context) error   { return d.exp.ExportSpans(ctx, d.spans) }
func (d *traceDriven) Shutdown(ctx context.Context) error { return d.exp.Shutdown(ctx) }

type metricExporter interface {
	Export(context.Context, *metricdata.ResourceMetrics) error
	Shutdown(context.Context) error
}

type metricDriven struct {
	exp metricExporter
	rm  *metricdata.ResourceMetrics
}

func (d *metricDriven) Export(ctx context.Context) error   { return d.exp.Export(ctx, d.rm) }
func (d *metricDriven) Shutdown(ctx context.Context) error { return d.exp.Shutdown(ctx) }

type logDriven struct {
	exp  sdklog.Exporter
	recs []sdklog.Record
}

func (d *logDriven) Export(ctx context.Context) error   { return d.exp.Export(ctx, d.recs) }
func (d *logDriven) Shutdown(ctx context.Context) error { return d.exp.Shutdown(ctx) }

func testResource(id int) *resource.Resource {
	return resource.NewSchemaless(attribute.String("service.name", "c14"), attribute.Int("scenario", id))
}

func spansFor(id int) []sdktrace.ReadOnlySpan {
	tid := trace.TraceID{1, 2, 3, 4, 5, 6, 7, 8, 9, 10, 11, 12, 13, 14, byte(id >> 8), byte(id)}
	sid := trace.SpanID{1, 2, 3, 4, 5, 6, byte(id >> 8), byte(id)}
	t0 := time.Unix(1700000000, 0)
	stubs := tracetest.SpanStubs{
		{
			Name:                 fmt.Sprintf("span-%d", id),
			SpanContext:          trace.NewSpanContext(trace.SpanContextConfig{TraceID: tid, SpanID: sid, TraceFlags: trace.FlagsSampled}),
			SpanKind:             trace.SpanKindClient,
			StartTime:            t0,
			EndTime:              t0.Add(time.Millisecond),
			Attributes:           []attribute.KeyValue{attribute.String("k", "v"), attribute.Int("i", id)},
			Resource:             testResource(id),
			InstrumentationScope: instrumentation.Scope{Name: "c14", Version: "v1"},
		},
		{
			Name:                 "second",
			SpanContext:          trace.NewSpanContext(trace.SpanContextConfig{TraceID: tid, SpanID: trace.SpanID{9, 9, 9, 9, 9, 9, 9, 9}, TraceFlags: trace.FlagsSampled}),
			StartTime:            t0,
			EndTime:              t0.Add(2 * time.Millisecond),
			Resource:             testResource(id),
			InstrumentationScope: instrumentation.Scope{Name: "c14", Version: "v1"},
		},
	}
	return stubs.Snapshots()
}

func metricsFor(id int) *metricdata.ResourceMetrics {
	t0 := time.Unix(1700000000, 0)
	return &metricdata.ResourceMetrics{
		Resource: testResource(id),
		ScopeMetrics: []metricdata.ScopeMetrics{{
			Scope: instrumentation.Scope{Name: "c14", Version: "v1"},
			Metrics: []metricdata.Metrics{{
				Name: fmt.Sprintf("m-%d", id),
				Data: metricdata.Sum[int64]{
					Temporality: metricdata.CumulativeTemporality, IsMonotonic: true,
					DataPoints: []metricdata.DataPoint[int64]{
						{Attributes: attribute.NewSet(attribute.String("k", "v")), StartTime: t0, Time: t0.Add(time.Second), Value: int64(id)},
						{Attributes: attribute.NewSet(attribute.String("k", "w")), StartTime: t0, Time: t0.Add(time.Second), Value: 7},
					},
				},
			}},
		}},
	}
}

// capture is a log processor that keeps clones of the emitted records (public way to obtain sdklog.Record values).
type capture struct{ recs []sdklog.Record }

func (c *capture) OnEmit(_ context.Context, r *sdklog.Record) error {
	c.recs = append(c.recs, r.Clone())
	return nil
}
func (c *capture) Shutdown(context.Context) error   { return nil }
func (c *capture) ForceFlush(context.Context) error { return nil }

func logsFor(id int) []sdklog.Record {
	c := &capture{}
	lp := sdklog.NewLoggerProvider(sdklog.WithProcessor(c), sdklog.WithResource(testResource(id)))
	l := lp.Logger("c14")
	for i := 0; i < 2; i++ {
		var r otellog.Record
		r.SetTimestamp(time.Unix(1700000000, int64(i)))
		r.SetSeverity(otellog.SeverityInfo)
		r.SetBody(otellog.StringValue(fmt.Sprintf("log-%d-%d", id, i)))
		r.AddAttributes(otellog.Int("i", i))
		l.Emit(context.Background(), r)
	}
	_ = lp.Shutdown(context.Background())
	return c.recs
}

// optSet adapts one exporter package's option constructors.
type optSet struct {
	endpoint func(string)
	insecure func()
	headers  func(map[string]string)
	gzip     func()
	timeout  func(time.Duration)
	retry    func(retryCfg)
	proxy    func(proxyFunc) // HTTP exporters only: the transport's proxy hook (used to inject transport faults)
	build    func() (driven, error)
}

// proxyFunc is the shape of the exporters' HTTPTransportProxyFunc.
type proxyFunc = func(*http.Request) (*url.URL, error)

func optsFor(kind string, id int) (*optSet, error) {
	ctx := context.Background()
	switch kind {
	case "tracehttp":
		var o []otlptracehttp.Option
		return &optSet{
			endpoint: func(a string) { o = append(o, otlptracehttp.WithEndpoint(a)) },
			insecure: func() { o = append(o, otlptracehttp.WithInsecure()) },
			headers:  func(h map[string]string) { o = append(o, otlptracehttp.WithHeaders(h)) },
			gzip:     func() { o = append(o, otlptracehttp.WithCompression(otlptracehttp.GzipCompression)) },
			timeout:  func(d time.Duration) { o = append(o, otlptracehttp.WithTimeout(d)) },
			proxy:    func(f proxyFunc) { o = append(o, otlptracehttp.WithProxy(f)) },
			retry: func(rc retryCfg) {
				o = append(o, otlptracehttp.WithRetry(otlptracehttp.RetryConfig{Enabled: rc.Enabled, InitialInterval: rc.Initial, MaxInterval: rc.MaxInt, MaxElapsedTime: rc.MaxEl}))
			},
			build: func() (driven, error) {
				e, err := otlptracehttp.New(ctx, o...)
				if err != nil {
					return nil, err
				}
				return &traceDriven{exp: e, spans: spansFor(id)}, nil
			},
		}, nil
	case "tracegrpc":
		var o []otlptracegrpc.Option
		return &optSet{
			endpoint: func(a string) { o = append(o, otlptracegrpc.WithEndpoint(a)) },
			insecure: func() { o = append(o, otlptracegrpc.WithInsecure()) },
			headers:  func(h map[string]string) { o = append(o, otlptracegrpc.WithHeaders(h)) },
			gzip:     func() { o = append(o, otlptracegrpc.WithCompressor("gzip")) },
			timeout:  func(d time.Duration) { o = append(o, otlptracegrpc.WithTimeout(d)) },
			retry: func(rc retryCfg) {
				o = append(o, otlptracegrpc.WithRetry(otlptracegrpc.RetryConfig{Enabled: rc.Enabled, InitialInterval: rc.Initial, MaxInterval: rc.MaxInt, MaxElapsedTime: rc.MaxEl}))
			},
			build: func() (driven, error) {
				e, err := otlptracegrpc.New(ctx, o...)
				if err != nil {
					return nil, err
				}
				return &traceDriven{exp: e, spans: spansFor(id)}, nil
			},
		}, nil
	case "metrichttp":
		var o []otlpmetrichttp.Option
		return &optSet{
			endpoint: func(a string) { o = append(o, otlpmetrichttp.WithEndpoint(a)) },
			insecure: func() { o = append(o, otlpmetrichttp.WithInsecure()) },
			headers:  func(h map[string]string) { o = append(o, otlpmetrichttp.WithHeaders(h)) },
			gzip:     func() { o = append(o, otlpmetrichttp.WithCompression(otlpmetrichttp.GzipCompression)) },
			timeout:  func(d time.Duration) { o = append(o, otlpmetrichttp.WithTimeout(d)) },
			proxy:    func(f proxyFunc) { o = append(o, otlpmetrichttp.WithProxy(f)) },
			retry: func(rc retryCfg) {
				o = append(o, otlpmetrichttp.WithRetry(otlpmetrichttp.RetryConfig{Enabled: rc.Enabled, InitialInterval: rc.Initial, MaxInterval: rc.MaxInt, MaxElapsedTime: rc.MaxEl}))
			},
			build: func() (driven, error) {
				e, err := otlpmetrichttp.New(ctx, o...)
				if err != nil {
					return nil, err
				}
				return &metricDriven{exp: e, rm: metricsFor(id)}, nil
			},
		}, nil
	case "metricgrpc":
		var o []otlpmetricgrpc.Option
		return &optSet{
			endpoint: func(a string) { o = append(o, otlpmetricgrpc.WithEndpoint(a)) },
			insecure: func() { o = append(o, otlpmetricgrpc.WithInsecure()) },
			headers:  func(h map[string]string) { o = append(o, otlpmetricgrpc.WithHeaders(h)) },
			gzip:     func() { o = append(o, otlpmetricgrpc.WithCompressor("gzip")) },
			timeout:  func(d time.Duration) { o = append(o, otlpmetricgrpc.WithTimeout(d)) },
			retry: func(rc retryCfg) {
				o = append(o, otlpmetricgrpc.WithRetry(otlpmetricgrpc.RetryConfig{Enabled: rc.Enabled, InitialInterval: rc.Initial, MaxInterval: rc.MaxInt, MaxElapsedTime: rc.MaxEl}))
			},
			build: func() (driven, error) {
				e, err := otlpmetricgrpc.New(ctx, o...)
				if err != nil {
					return nil, err
				}
				return &metricDriven{exp: e, rm: metricsFor(id)}, nil
			},
		}, nil
	case "loghttp":
		var o []otlploghttp.Option
		return &optSet{
			endpoint: func(a string) { o = append(o, otlploghttp.WithEndpoint(a)) },
			insecure: func() { o = append(o, otlploghttp.WithInsecure()) },
			headers:  func(h map[string]string) { o = append(o, otlploghttp.WithHeaders(h)) },
			gzip:     func() { o = append(o, otlploghttp.WithCompression(otlploghttp.GzipCompression)) },
			timeout:  func(d time.Duration) { o = append(o, otlploghttp.WithTimeout(d)) },
			proxy:    func(f proxyFunc) { o = append(o, otlploghttp.WithProxy(f)) },
			retry: func(rc retryCfg) {
				o = append(o, otlploghttp.WithRetry(otlploghttp.RetryConfig{Enabled: rc.Enabled, InitialInterval: rc.Initial, MaxInterval: rc.MaxInt, MaxElapsedTime: rc.MaxEl}))
			},
			build: func() (driven, error) {
				e, err := otlploghttp.New(ctx, o...)
				if err != nil {
					return nil, err
				}
				return &logDriven{exp: e, recs: logsFor(id)}, nil
			},
		}, nil
	case "loggrpc":
		var o []otlploggrpc.Option
		return &optSet{
			endpoint: func(a string) { o = append(o, otlploggrpc.WithEndpoint(a)) },
			insecure: func() { o = append(o, otlploggrpc.WithInsecure()) },
			headers:  func(h map[string]string) { o = append(o, otlploggrpc.WithHeaders(h)) },
			gzip:     func() { o = append(o, otlploggrpc.WithCompressor("gzip")) },
			timeout:  func(d time.Duration) { o = append(o, otlploggrpc.WithTimeout(d)) },
			retry: func(rc retryCfg) {
				o = append(o, otlploggrpc.WithRetry(otlploggrpc.RetryConfig{Enabled: rc.Enabled, InitialInterval: rc.Initial, MaxInterval: rc.MaxInt, MaxElapsedTime: rc.MaxEl}))
			},
			build: func() (driven, error) {
				e, err := otlploggrpc.New(ctx, o...)
				if err != nil {
					return nil, err
				}
				return &logDriven{exp: e, recs: logsFor(id)}, nil
			},
		}, nil
	}
	return nil, fmt.Errorf("unknown exporter kind %q", kind)
}

var envKeys = []string{"OTEL_EXPORTER_OTLP_ENDPOINT", "OTEL_EXPORTER_OTLP_HEADERS", "OTEL_EXPORTER_OTLP_COMPRESSION", "OTEL_EXPORTER_OTLP_TIMEOUT"}

// newDriven builds the real exporter `kind` pointed at addr (the scenario's own loopback listener) with the
// option set x; timeout 0 = the exporter's default. With x.Env everything except the retry configuration (which
// has no environment variable) is configured through OTEL_EXPORTER_OTLP_*.
func newDriven(kind string, id int, addr string, x XCfg, hdr map[string]string, timeout time.Duration, rc retryCfg, pf proxyFunc) (driven, error) {
	o, err := optsFor(kind, id)
	if err != nil {
		return nil, err
	}
	o.retry(rc)
	if pf != nil && o.proxy != nil {
		o.proxy(pf)
	}
	// every construction reads the process environment, so all of them are serialised: an exporter configured by
	// options must not see the variables of a concurrent environment-configured scenario
	envMu.Lock()
	defer envMu.Unlock()
	if !x.Env {
		o.endpoint(addr)
		o.insecure()
		if len(hdr) > 0 {
			o.headers(hdr)
		}
		if x.Gzip {
			o.gzip()
		}
		if timeout > 0 {
			o.timeout(timeout)
		}
		return o.build()
	}
	defer func() {
		for _, k := range envKeys {
			os.Unsetenv(k)
		}
	}()
	os.Setenv("OTEL_EXPORTER_OTLP_ENDPOINT", "http://"+addr) // the http scheme implies an insecure connection
	if len(hdr) > 0 {
		var kv []string
		for k, v := range hdr {
			kv = append(kv, k+"="+v)
		}
		sort.Strings(kv)
		os.Setenv("OTEL_EXPORTER_OTLP_HEADERS", strings.Join(kv, ","))
	}
	if x.Gzip {
		os.Setenv("OTEL_EXPORTER_OTLP_COMPRESSION", "gzip")
	}
	if timeout > 0 {
		os.Setenv("OTEL_EXPORTER_OTLP_TIMEOUT", fmt.Sprintf("%d", timeout.Milliseconds()))
	}
	return o.build()
}
