package main

// Seeded random scenarios (code -> spec direction): outcome scripts, codes and configurations beyond
// the bounds TLC enumerates. No expectation is computed here: the recorded trace is judged by the
// contract in TLA+ only (want.valid = false).

import "math/rand"

var httpCodesAll = []int{
	200, 200, 202, 204, 400, 401, 403, 404, 405, 408, 409, 410, 413, 415, 422, 425, 429, 429, 431, 500, 501, 502, 503, 503, 504, 505, 507, 511,
}

func pick[T any](rng *rand.Rand, xs []T) T { return xs[rng.Intn(len(xs))] }

func randomScenario(rng *rand.Rand, id int) Scenario {
	exp := exporterKinds[rng.Intn(len(exporterKinds))]
	http := protoOf(exp) == "http"
	sc := Scenario{
		ID: id, Src: "random", Exp: exp, Name: "random",
		Enabled:   rng.Intn(100) < 88,
		InitialUs: int64(1000 + rng.Intn(4000)),
		MaxIntUs:  int64(1000 + rng.Intn(7000)),
		MaxElUs:   pick(rng, []int64{0, 0, 0, 1, 20_000, 100_000, 400_000, 5_000_000, 60_000_000}),
		TolUs:     1_000_000,
		TickUs:    50_000,
		SdCtx:     pick(rng, []string{"bg", "expired"}),
		X: XCfg{Headers: pick(rng, []int{0, 1, 3}), Gzip: rng.Intn(100) < 35, Env: rng.Intn(100) < 35,
			Timeout: pick(rng, []string{"default", "explicit"})},
		Items: []Item{},
	}
	withTmp := http && rng.Intn(100) < 8
	if withTmp {
		sc.AttoUs = 400_000
	}
	// gRPC: a collector that never answers, bounded by a small explicit export timeout (whole call)
	withHung := !http && rng.Intn(100) < 8
	if withHung {
		sc.CtoUs = 300_000
		sc.MaxElUs = 0
	}
	withFault := http && rng.Intn(100) < 25      // transport faults injected through the proxy hook
	withRetryAfter := http && rng.Intn(100) < 12 // whole seconds: few of them
	length := 1 + rng.Intn(7)
	stopAt := -1
	stopKind := ""
	if rng.Intn(100) < 30 {
		stopAt = rng.Intn(length)
		stopKind = pick(rng, []string{"cancel", "cancel", "shutdown"})
	}
	if rng.Intn(100) < 3 {
		sc.StopBefore = "cancel"
		stopAt = -1
	}
	for i := 0; i < length; i++ {
		it := Item{Kind: "status"}
		last := i == length-1
		if http {
			switch {
			case withTmp && rng.Intn(100) < 35:
				it.Kind = "tmpnet"
			case rng.Intn(100) < 4:
				it.Kind = "close"
			case withFault && rng.Intn(100) < 30:
				it.Kind = pick(rng, []string{"tempnet", "tempnet", "permnet"})
			case !last && rng.Intn(100) < 75:
				it.Code = pick(rng, []int{429, 502, 503, 504})
			default:
				it.Code = pick(rng, httpCodesAll)
			}
			if it.Kind == "status" && it.Code >= 400 && rng.Intn(100) < 30 {
				// Retry-After may accompany any failure status; only the retryable ones may be retried
				if withRetryAfter {
					it.ThrUs = 1_000_000
				}
			}
			if it.Kind == "status" && it.Code >= 200 && it.Code < 300 && it.Code != 204 && rng.Intn(100) < 40 {
				it.Partial = true
			}
		} else {
			switch {
			case !last && rng.Intn(100) < 75:
				it.Code = pick(rng, []int{1, 4, 10, 11, 14, 15, 8})
				if it.Code == 8 {
					it.RI = true
				}
			default:
				it.Code = rng.Intn(17)
			}
			if it.Code != 0 && (it.RI || rng.Intn(100) < 35) {
				it.RI = true
				it.ThrUs = pick(rng, []int64{0, 5_000, 20_000, 35_000, 50_000, 80_000})
			}
			if it.Code == 8 && rng.Intn(100) < 50 {
				it.RI, it.ThrUs = false, 0
			}
			if it.Code == 0 && rng.Intn(100) < 40 {
				it.Partial = true
			}
			if withHung && (last || rng.Intn(100) < 25) {
				it = Item{Kind: "hung"}
			}
		}
		if it.Kind == "status" && rng.Intn(100) < 12 {
			it.SlowUs = int64(1000 + rng.Intn(30_000))
		}
		if withHung && it.ThrUs > 20_000 {
			it.ThrUs = 20_000 // keep the script inside the small call timeout
		}
		if i == stopAt {
			if rng.Intn(2) == 0 {
				it = Item{Kind: "hold", Stop: stopKind}
			} else {
				it.StopAfter = stopKind
			}
		}
		sc.Items = append(sc.Items, it)
		if it.Kind == "hold" || it.Kind == "hung" {
			break
		}
	}
	return sc
}
