package main

// RetryConfig VALUE classes as a scenario dimension (code -> spec): an enabled policy whose fields are zero
// (MaxElapsedTime 0 = no limit), tiny or huge, a collector that asks for a delay far beyond the library's default
// limit of one minute, and a caller whose context ends after a few hundred milliseconds. Nothing is expected here:
// the recorded trace is judged by the contract in TLA+ (gave-up-early / late-return-after-deadline / ...).

import "math/rand"

func cfgValueScenario(rng *rand.Rand, id int) Scenario {
	exp := exporterKinds[rng.Intn(len(exporterKinds))]
	http := protoOf(exp) == "http"
	sc := Scenario{
		ID: id, Src: "random", Exp: exp, Name: "cfgvalues", Enabled: true,
		InitialUs: pick(rng, []int64{0, 1, 1000, 3000, 300_000_000}),
		MaxIntUs:  pick(rng, []int64{0, 1, 2000, 400_000_000}),
		MaxElUs:   pick(rng, []int64{0, 0, 0, 1, 50_000, 100_000_000, 1_000_000_000}),
		DlUs:      int64(150_000 + rng.Intn(250_000)),
		TolUs:     1_000_000,
		TickUs:    50_000,
		SdCtx:     "expired",
		X: XCfg{Headers: pick(rng, []int{0, 1, 3}), Gzip: rng.Intn(100) < 35, Env: rng.Intn(100) < 35,
			Timeout: pick(rng, []string{"default", "explicit"})},
		Items: []Item{},
	}
	retryable := func() Item {
		if http {
			return Item{Kind: "status", Code: pick(rng, []int{429, 502, 503, 504})}
		}
		return Item{Kind: "status", Code: pick(rng, []int{1, 4, 10, 11, 14, 15})}
	}
	for i := rng.Intn(3); i > 0; i-- {
		sc.Items = append(sc.Items, retryable())
	}
	// the server-supplied delay: 61 s .. 10 min (whole seconds: Retry-After has no finer unit)
	big := retryable()
	big.ThrUs = int64(61+rng.Intn(540)) * 1_000_000
	if !http {
		big.RI = true
		if rng.Intn(3) == 0 {
			big.Code = 8
		}
	}
	sc.Items = append(sc.Items, big)
	ok := Item{Kind: "status", Code: 200}
	if !http {
		ok.Code = 0
	}
	sc.Items = append(sc.Items, ok)
	return sc
}

func cfgValueScenarios(seed int64, idBase, n int) []Scenario {
	rng := rand.New(rand.NewSource(seed*104729 + 1406))
	var out []Scenario
	for i := 0; i < n; i++ {
		out = append(out, cfgValueScenario(rng, idBase+i))
	}
	return out
}
