// c11: conformance harness for specs/Baggage (property C11).
//
//	c11 codec  -edges F -trace T -out R [-rep N]   replay every TLC edge of BaggageRT.tla (New / Parse)
//	c11 store  -edges F -out R [-rep N]            replay every TLC edge of BaggageStore.tla (edit machine)
//	c11 random -n N -trace T -res R                seeded random members / headers / edit scenarios -> ndjson
//
// The harness only EXECUTES the public API (baggage.New / NewMember(Raw) / NewKeyProperty /
// NewKeyValueProperty(Raw) / Parse / String / SetMember / DeleteMember / Members / Member / Len,
// baggage.ContextWithBaggage / FromContext / ContextWithoutBaggage, propagation.Baggage Inject / Extract)
// and PROJECTS what it observes onto the symbol classes of BaggageCodec.tla (lexHeader / abstractValue
// are pure lexers, concretize* their inverses).  Every verdict on codec cases is computed by TLC
// (Trace_Baggage.tla) from the recorded lines; for store edges the projected real state is compared with
// the successor state TLC printed.  Comparisons made here are only between two observations of the REAL
// code (re-parsed members byte-identical to the first parse, earlier snapshots unchanged).
package main

import (
	"bufio"
	"bytes"
	"context"
	"encoding/json"
	"flag"
	"fmt"
	"math/rand"
	"net/http"
	"os"
	"sort"
	"strings"
	"unicode/utf8"

	"go.opentelemetry.io/otel/baggage"
	"go.opentelemetry.io/otel/propagation"
	"go.opentelemetry.io/otel/sdk/verifh/vh"
)

// ---------------------------------------------------------------- abstract shapes (BaggageCodec.tla)

type Sym struct {
	C string `json:"c"`
	S string `json:"s"`
	N int    `json:"n"`
	D string `json:"d"`
}
type Run struct {
	C string `json:"c"`
	N int    `json:"n"`
	M int    `json:"m"`
}
type PropArg struct {
	Ks []Sym `json:"ks"`
	V  []Run `json:"v"`
	Hv bool  `json:"hv"`
}
type Arg struct {
	Ks []Sym     `json:"ks"`
	V  []Run     `json:"v"`
	P  []PropArg `json:"p"`
}
type PropObs struct {
	K  string `json:"k"`
	V  []Run  `json:"v"`
	Hv bool   `json:"hv"`
	Tk bool   `json:"tk"` // the key is a W3C token (lexical fact about the key bytes)
}
type MemObs struct {
	K  string    `json:"k"`
	V  []Run     `json:"v"`
	P  []PropObs `json:"p"`
	Tk bool      `json:"tk"`
}

// isToken: non-empty and only RFC 7230 tchars
func isToken(s string) bool {
	for i := 0; i < len(s); i++ {
		if !isTChar(s[i]) {
			return false
		}
	}
	return len(s) > 0
}

// ---------------------------------------------------------------- text quoting ({xx} for non-token bytes)

func isTChar(c byte) bool { // RFC 7230 tchar
	switch {
	case c >= 'a' && c <= 'z', c >= 'A' && c <= 'Z', c >= '0' && c <= '9':
		return true
	}
	return strings.IndexByte("!#$%&'*+-.^_`|~", c) >= 0
}

func quote(s string) string {
	var sb strings.Builder
	for i := 0; i < len(s); i++ {
		if isTChar(s[i]) {
			sb.WriteByte(s[i])
		} else {
			fmt.Fprintf(&sb, "{%02x}", s[i])
		}
	}
	return sb.String()
}

func unquote(s string) (string, error) {
	var sb strings.Builder
	for i := 0; i < len(s); i++ {
		if s[i] != '{' {
			sb.WriteByte(s[i])
			continue
		}
		if i+3 >= len(s) || s[i+3] != '}' {
			return "", fmt.Errorf("bad quoting in %q", s)
		}
		var b byte
		if _, err := fmt.Sscanf(s[i+1:i+3], "%02x", &b); err != nil {
			return "", fmt.Errorf("bad quoting in %q", s)
		}
		sb.WriteByte(b)
		i += 3
	}
	return sb.String(), nil
}

// ---------------------------------------------------------------- lexers (bytes -> symbol classes)

func isHex(c byte) bool {
	return c >= '0' && c <= '9' || c >= 'a' && c <= 'f' || c >= 'A' && c <= 'F'
}
func unhex(c byte) byte {
	switch {
	case c >= '0' && c <= '9':
		return c - '0'
	case c >= 'a' && c <= 'f':
		return c - 'a' + 10
	}
	return c - 'A' + 10
}

// class of a DECODED one-byte character
func asciiClass(c byte) string {
	switch c {
	case '%':
		return "pct"
	case '=':
		return "eq"
	case ' ':
		return "space"
	case ',':
		return "comma"
	case ';':
		return "semi"
	case '"':
		return "dquote"
	case '\\':
		return "bslash"
	}
	if c < 0x20 || c == 0x7f {
		return "ctl"
	}
	return "safe"
}

// class of a RAW header byte
func rawClass(c byte) string {
	switch {
	case c == '=':
		return "eq"
	case c == ',':
		return "comma"
	case c == ';':
		return "semi"
	case c == ' ' || c == '\t':
		return "sp"
	case c == '"':
		return "dq"
	case c == '\\':
		return "bs"
	case c < 0x20 || c == 0x7f:
		return "ctl"
	case c >= 0x80:
		return "hi"
	case isTChar(c): // '%' is handled by the caller
		return "tok"
	}
	return "v"
}

const maxText = 16 // symbols other than tok / enc / pc carry their text only when short

// lexHeader: header bytes -> symbols of BaggageCodec.tla in normal form (adjacent symbols of one
// class merged; "=" "," ";" and a bare "%" one symbol each).
func lexHeader(s string) []Sym {
	out := []Sym{}
	push := func(c, d, text string, n int) {
		if k := len(out) - 1; k >= 0 && out[k].C == c && out[k].D == d && c != "eq" && c != "comma" && c != "semi" && c != "pc" {
			out[k].N += n
			out[k].S += text
			return
		}
		out = append(out, Sym{C: c, S: text, N: n, D: d})
	}
	for i := 0; i < len(s); {
		c := s[i]
		if c == '%' {
			if !(i+2 < len(s) && isHex(s[i+1]) && isHex(s[i+2])) {
				push("pc", "", "%", 1)
				i++
				continue
			}
			// maximal run of percent triplets, decoded and split into characters
			j := i
			var dec []byte
			for j+2 < len(s) && s[j] == '%' && isHex(s[j+1]) && isHex(s[j+2]) {
				dec = append(dec, unhex(s[j+1])<<4|unhex(s[j+2]))
				j += 3
			}
			for k := 0; k < len(dec); {
				size, d := 1, ""
				if dec[k] < 0x80 {
					d = asciiClass(dec[k])
				} else {
					r, sz := utf8.DecodeRune(dec[k:])
					switch {
					case r == utf8.RuneError && sz == 1:
						d = "x"
					case r == utf8.RuneError:
						d, size = "ufffd", sz
					default:
						d, size = fmt.Sprintf("u%d", sz), sz
					}
				}
				push("enc", d, s[i+3*k:i+3*(k+size)], 1)
				k += size
			}
			i = j
			continue
		}
		cl := rawClass(c)
		if cl == "hi" {
			r, sz := utf8.DecodeRuneInString(s[i:])
			if r == utf8.RuneError && sz == 1 {
				push("hi", "x", quote(s[i:i+1]), 1)
			} else {
				push("hi", "u", quote(s[i:i+sz]), sz)
			}
			i += sz
			continue
		}
		push(cl, "", quote(s[i:i+1]), 1)
		i++
	}
	for k := range out {
		if c := out[k].C; c != "tok" && c != "enc" && c != "pc" && out[k].N > maxText {
			out[k].S = ""
		}
	}
	return out
}

// abstractValue: decoded (API side) string -> runs of character classes
func abstractValue(s string) []Run {
	out := []Run{}
	for i := 0; i < len(s); {
		r, sz := utf8.DecodeRuneInString(s[i:])
		var c string
		switch {
		case r == utf8.RuneError && sz == 1:
			c = "bad"
		case r == utf8.RuneError:
			c = "fffd"
		case sz == 1:
			c = asciiClass(s[i])
		case sz == 2:
			c = "nonascii2"
		case sz == 3:
			c = "m3"
		default:
			c = "nonbmp4"
		}
		if k := len(out) - 1; k >= 0 && out[k].C == c {
			out[k].N++
			out[k].M++
		} else {
			out = append(out, Run{C: c, N: 1, M: 1})
		}
		i += sz
	}
	return out
}

// ---------------------------------------------------------------- concretization (symbol classes -> bytes)

var encReps = map[string][]string{
	"safe": {"%41", "%7a", "%2F", "%30"}, "eq": {"%3D", "%3d"}, "pct": {"%25"}, "space": {"%20"}, "comma": {"%2C", "%2c"},
	"semi": {"%3B"}, "dquote": {"%22"}, "bslash": {"%5C", "%5c"}, "ctl": {"%00", "%09", "%7F", "%0A"},
	"x":  {"%FF", "%80", "%C0", "%fe"},
	"u2": {"%C3%A9", "%c3%9f"}, "u3": {"%E2%82%AC", "%E4%B8%96"}, "u4": {"%F0%9F%98%80", "%F0%9D%84%9E"}, "ufffd": {"%EF%BF%BD"},
}

const tokFill = "kZ~_-.!xyzGHIJ" // no hex digits: a bare "%" in front must stay bare
const vFill = "()/:<>?@[]{}"

func cyc(alpha string, n, rep int) string {
	b := make([]byte, n)
	for i := range b {
		b[i] = alpha[(rep+i)%len(alpha)]
	}
	return string(b)
}

func concretizeSym(x Sym, rep int) (string, error) {
	if x.S != "" {
		t, err := unquote(x.S)
		if err != nil {
			return "", err
		}
		want := x.N
		if x.C == "enc" {
			want = 3 * x.N * ubytes(x.D)
		}
		if len(t) != want {
			return "", fmt.Errorf("symbol %+v: text has %d bytes, want %d", x, len(t), want)
		}
		return t, nil
	}
	switch x.C {
	case "tok":
		return cyc(tokFill, x.N, rep), nil
	case "v":
		return cyc(vFill, x.N, rep), nil
	case "eq":
		return strings.Repeat("=", x.N), nil
	case "comma":
		return strings.Repeat(",", x.N), nil
	case "semi":
		return strings.Repeat(";", x.N), nil
	case "pc":
		return strings.Repeat("%", x.N), nil
	case "sp":
		return cyc("  \t ", x.N, rep), nil
	case "dq":
		return strings.Repeat("\"", x.N), nil
	case "bs":
		return strings.Repeat("\\", x.N), nil
	case "ctl":
		return cyc("\x01\x7f\x0a\x1f", x.N, rep), nil
	case "hi":
		if x.D == "x" {
			return strings.Repeat("\xff", x.N), nil
		}
		if x.N%2 == 0 {
			return strings.Repeat("é", x.N/2), nil
		}
	case "enc":
		reps := encReps[x.D]
		if len(reps) == 0 {
			break
		}
		if x.D == "x" { // one representative per run: a mix could assemble a valid character
			return strings.Repeat(reps[rep%len(reps)], x.N), nil
		}
		var sb strings.Builder
		for i := 0; i < x.N; i++ {
			sb.WriteString(reps[(rep+i)%len(reps)])
		}
		return sb.String(), nil
	}
	return "", fmt.Errorf("cannot concretize %+v", x)
}

func ubytes(d string) int {
	switch d {
	case "u2", "nonascii2":
		return 2
	case "u3", "ufffd", "m3", "fffd":
		return 3
	case "u4", "nonbmp4":
		return 4
	}
	return 1
}

func concretize(h []Sym, rep int) (string, error) {
	var sb strings.Builder
	for _, x := range h {
		t, err := concretizeSym(x, rep)
		if err != nil {
			return "", err
		}
		sb.WriteString(t)
	}
	return sb.String(), nil
}

// sameShape: two symbol sequences agree up to merging of adjacent symbols and literal text
func shape(h []Sym) string {
	var sb strings.Builder
	pc, pd, pn := "", "", 0
	flush := func() {
		if pn > 0 {
			fmt.Fprintf(&sb, "%s/%s/%d ", pc, pd, pn)
		}
	}
	for _, x := range h {
		if x.N == 0 {
			continue
		}
		d := x.D
		if x.C != "enc" && x.C != "hi" {
			d = ""
		}
		if x.C == pc && d == pd && x.C != "eq" && x.C != "comma" && x.C != "semi" && x.C != "pc" {
			pn += x.N
			continue
		}
		flush()
		pc, pd, pn = x.C, d, x.N
	}
	flush()
	return sb.String()
}

var runReps = map[string][]string{
	"safe": {"a", "Z", "0", "~", "(", ":", "@", "}", "k", "/", "!", "'"}, "eq": {"="}, "pct": {"%"}, "space": {" "}, "comma": {","},
	"semi": {";"}, "dquote": {"\""}, "bslash": {"\\"}, "ctl": {"\x00", "\t", "\x7f", "\n", "\r"},
	"nonascii2": {"é", "ß", "\u00a0"}, "m3": {"€", "世", "\u2028"}, "nonbmp4": {"😀", "𝄞"}, "fffd": {"\ufffd"},
	"bad": {"\xff", "\x80", "\xfe"},
}

func concretizeRuns(v []Run, rep int) (string, error) {
	var sb strings.Builder
	for _, r := range v {
		reps := runReps[r.C]
		if len(reps) == 0 {
			return "", fmt.Errorf("cannot concretize run %+v", r)
		}
		for i := 0; i < r.N; i++ {
			if r.C == "bad" {
				sb.WriteString(reps[rep%len(reps)])
			} else {
				sb.WriteString(reps[(rep+i)%len(reps)])
			}
		}
	}
	return sb.String(), nil
}

func runShape(v []Run) string {
	var sb strings.Builder
	pc, pn := "", 0
	for _, r := range v {
		if r.N == 0 {
			continue
		}
		if r.C == pc {
			pn += r.N
			continue
		}
		if pn > 0 {
			fmt.Fprintf(&sb, "%s/%d ", pc, pn)
		}
		pc, pn = r.C, r.N
	}
	if pn > 0 {
		fmt.Fprintf(&sb, "%s/%d ", pc, pn)
	}
	return sb.String()
}

// pctEncode: input for the constructors that take percent-encoded values (harness-side input preparation)
func pctEncode(s string, rep int) string {
	var sb strings.Builder
	for i := 0; i < len(s); i++ {
		c := s[i]
		cl := rawClass(c)
		if c != '%' && (cl == "tok" || cl == "v" || cl == "eq") {
			sb.WriteByte(c)
			continue
		}
		if rep%2 == 0 {
			fmt.Fprintf(&sb, "%%%02X", c)
		} else {
			fmt.Fprintf(&sb, "%%%02x", c)
		}
	}
	return sb.String()
}

// ---------------------------------------------------------------- projection of real values

func projProps(ps []baggage.Property) []PropObs {
	out := []PropObs{}
	for _, p := range ps {
		v, hv := p.Value()
		out = append(out, PropObs{K: quote(p.Key()), V: abstractValue(v), Hv: hv, Tk: isToken(p.Key())})
	}
	return out
}

func sameProps(a, b []baggage.Property) bool {
	if len(a) != len(b) {
		return false
	}
	for i := range a {
		av, ah := a[i].Value()
		bv, bh := b[i].Value()
		if a[i].Key() != b[i].Key() || av != bv || ah != bh {
			return false
		}
	}
	return true
}

func sortedMembers(b baggage.Baggage) []baggage.Member {
	ms := b.Members()
	sort.SliceStable(ms, func(i, j int) bool { return ms[i].Key() < ms[j].Key() })
	return ms
}

// projBag reads a baggage through every read path; coh = the read paths agree with each other
func projBag(b baggage.Baggage) (out []MemObs, coh bool) {
	out = []MemObs{}
	ms := sortedMembers(b)
	coh = len(ms) == b.Len()
	for _, m := range ms {
		out = append(out, MemObs{K: quote(m.Key()), V: abstractValue(m.Value()), P: projProps(m.Properties()), Tk: isToken(m.Key())})
		m2 := b.Member(m.Key())
		if m2.Key() != m.Key() || m2.Value() != m.Value() || !sameProps(m.Properties(), m2.Properties()) {
			coh = false
		}
	}
	return out, coh
}

// sameBags: two real baggages hold byte-for-byte the same members, values and properties
func sameBags(a, b baggage.Baggage) bool {
	if a.Len() != b.Len() {
		return false
	}
	for _, m := range a.Members() {
		m2 := b.Member(m.Key())
		if m2.Key() != m.Key() || m2.Value() != m.Value() || !sameProps(m.Properties(), m2.Properties()) {
			return false
		}
	}
	return true
}

func newCarrier(kind int) propagation.TextMapCarrier {
	if kind%2 == 1 {
		return propagation.HeaderCarrier(http.Header{})
	}
	return propagation.MapCarrier{}
}

// emptyBagObs: the fields of a returned baggage, for a call that returned none (uniform JSON shape)
func emptyBagObs(o map[string]any) {
	o["b"], o["coh"], o["ser"], o["serlen"], o["mlens"] = []MemObs{}, true, []Sym{}, 0, []int{}
	o["reok"], o["reb"], o["exact"] = false, []MemObs{}, false
	o["pok"], o["pb"], o["pexact"] = false, []MemObs{}, false
}

// obsBag: everything the statement says about a RETURNED baggage
func obsBag(o map[string]any, b baggage.Baggage, variant int) {
	ms, coh := projBag(b)
	s := b.String()
	mlens := []int{}
	for _, m := range sortedMembers(b) {
		mlens = append(mlens, len(m.String()))
	}
	o["b"], o["coh"], o["ser"], o["serlen"], o["mlens"] = ms, coh, lexHeader(s), len(s), mlens
	re, err := baggage.Parse(s)
	reb, _ := projBag(re)
	o["reok"], o["reb"], o["exact"] = err == nil, reb, err == nil && sameBags(b, re)
	// Inject -> Extract with the baggage propagator, into a context that holds another baggage
	other, _ := baggage.Parse("verif-other=1")
	car := newCarrier(variant)
	propagation.Baggage{}.Inject(baggage.ContextWithBaggage(context.Background(), b), car)
	parent := context.Background()
	if variant&2 != 0 {
		parent = baggage.ContextWithBaggage(parent, other)
	}
	got := baggage.FromContext(propagation.Baggage{}.Extract(parent, car))
	pb, _ := projBag(got)
	installed := car.Get("baggage") != "" && !(variant&2 != 0 && sameBags(got, other)) && !(variant&2 == 0 && got.Len() == 0)
	o["pok"] = installed || b.Len() == 0
	o["pb"], o["pexact"] = pb, sameBags(b, got)
	if b.Len() == 0 {
		// an empty baggage injects nothing; Extract leaves the parent as it is
		o["pb"], o["pexact"] = ms, len(car.Keys()) == 0
	}
}

// ---------------------------------------------------------------- executing codec cases

func recovered(f func()) (p any) {
	defer func() {
		if r := recover(); r != nil {
			p = r
		}
	}()
	f()
	return nil
}

// parseCase: baggage.Parse and Extract on header bytes hs
func parseCase(hs string, variant int) (line map[string]any, panicked any) {
	h := lexHeader(hs)
	o := map[string]any{}
	line = map[string]any{"ev": "Parse", "h": h, "hlen": len(hs), "obs": o, "variant": variant}
	panicked = recovered(func() {
		b, err := baggage.Parse(hs)
		o["ok"] = err == nil
		if err == nil {
			obsBag(o, b, variant)
		} else {
			emptyBagObs(o)
		}
		// the propagator's Extract sees the same header: it must install exactly what Parse returned,
		// or leave the parent context alone when Parse refuses
		car := newCarrier(variant)
		car.Set("baggage", hs)
		parent, _ := baggage.Parse("verif-parent=1")
		ctx := baggage.ContextWithBaggage(context.Background(), parent)
		got := baggage.FromContext(propagation.Baggage{}.Extract(ctx, car))
		if err == nil && hs != "" {
			o["xcoh"] = sameBags(got, b)
		} else {
			o["xcoh"] = sameBags(got, parent)
		}
	})
	return line, panicked
}

type built struct {
	m     baggage.Member
	ok    bool
	props []baggage.Property // the slice handed to the member constructor (caller-owned)
}

// buildMember runs the property and member constructors for one abstract argument
func buildMember(key, val string, props []struct {
	k, v string
	hv   bool
}, raw bool, rep int) built {
	ps := []baggage.Property{}
	ok := true
	for _, p := range props {
		var bp baggage.Property
		var err error
		switch {
		case !p.hv:
			bp, err = baggage.NewKeyProperty(p.k)
		case raw:
			bp, err = baggage.NewKeyValuePropertyRaw(p.k, p.v)
		default:
			bp, err = baggage.NewKeyValueProperty(p.k, pctEncode(p.v, rep))
		}
		if err != nil {
			ok = false
		}
		ps = append(ps, bp)
	}
	if !ok {
		return built{ok: false, props: ps}
	}
	var m baggage.Member
	var err error
	if raw {
		m, err = baggage.NewMemberRaw(key, val, ps...)
	} else {
		m, err = baggage.NewMember(key, pctEncode(val, rep), ps...)
	}
	return built{m: m, ok: err == nil, props: ps}
}

type concArg struct {
	key, val string
	props    []struct {
		k, v string
		hv   bool
	}
}

func concretizeArg(a Arg, rep int) (c concArg, err error) {
	if c.key, err = concretize(a.Ks, rep); err != nil {
		return
	}
	if c.val, err = concretizeRuns(a.V, rep); err != nil {
		return
	}
	if runShape(abstractValue(c.val)) != runShape(a.V) {
		return c, fmt.Errorf("value %v does not concretize faithfully", a.V)
	}
	if shape(lexHeader(c.key)) != shape(a.Ks) {
		return c, fmt.Errorf("key %v does not concretize faithfully", a.Ks)
	}
	for _, p := range a.P {
		var k, v string
		if k, err = concretize(p.Ks, rep+1); err != nil {
			return
		}
		if v, err = concretizeRuns(p.V, rep+1); err != nil {
			return
		}
		if runShape(abstractValue(v)) != runShape(p.V) || shape(lexHeader(k)) != shape(p.Ks) {
			return c, fmt.Errorf("property %v does not concretize faithfully", p)
		}
		c.props = append(c.props, struct {
			k, v string
			hv   bool
		}{k, v, p.Hv})
	}
	return c, nil
}

func abstractArg(c concArg) Arg {
	a := Arg{Ks: lexHeader(c.key), V: abstractValue(c.val), P: []PropArg{}}
	for _, p := range c.props {
		a.P = append(a.P, PropArg{Ks: lexHeader(p.k), V: abstractValue(p.v), Hv: p.hv})
	}
	return a
}

// newCase: member constructors + baggage.New on concrete arguments
func newCase(cs []concArg, raw bool, variant int) (line map[string]any, panicked any) {
	args := []Arg{}
	for _, c := range cs {
		args = append(args, abstractArg(c))
	}
	o := map[string]any{}
	line = map[string]any{"ev": "New", "args": args, "raw": raw, "obs": o, "variant": variant}
	panicked = recovered(func() {
		argok, alens := []bool{}, []int{}
		ms := []baggage.Member{}
		for _, c := range cs {
			bm := buildMember(c.key, c.val, c.props, raw, variant)
			argok = append(argok, bm.ok)
			alens = append(alens, len(bm.m.String()))
			ms = append(ms, bm.m)
		}
		o["argok"], o["alens"] = argok, alens
		b, err := baggage.New(ms...)
		o["ok"] = err == nil
		if err == nil {
			obsBag(o, b, variant)
		} else {
			emptyBagObs(o)
		}
	})
	return line, panicked
}

// ---------------------------------------------------------------- codec edge replay (spec -> code)

type rtEdge struct {
	Act struct {
		Op   string `json:"op"`
		H    []Sym  `json:"h"`
		Hlen int    `json:"hlen"`
		Args []Arg  `json:"args"`
		Lens []int  `json:"lens"`
	} `json:"act"`
	To struct {
		Out string   `json:"out"`
		Why string   `json:"why"`
		B   []MemObs `json:"b"`
	} `json:"to"`
}

func canonOf(v any) string {
	b, err := json.Marshal(v)
	vh.Must(err)
	return vh.Canon(b)
}

// normMembers: members as a map (sorted by key), runs merged; exact reports whether the
// specification's value has no tolerance (m = n everywhere)
func normMembers(ms []MemObs) (string, bool) {
	exact := true
	norm := func(v []Run) []Run {
		out := []Run{}
		for _, r := range v {
			if r.N == 0 {
				continue
			}
			if r.M != r.N {
				exact = false
			}
			if k := len(out) - 1; k >= 0 && out[k].C == r.C {
				out[k].N += r.N
			} else {
				out = append(out, Run{C: r.C, N: r.N, M: r.N})
			}
		}
		return out
	}
	cp := []MemObs{}
	for _, m := range ms {
		n := MemObs{K: m.K, V: norm(m.V), P: []PropObs{}, Tk: m.Tk}
		for _, p := range m.P {
			n.P = append(n.P, PropObs{K: p.K, V: norm(p.V), Hv: p.Hv, Tk: p.Tk})
		}
		cp = append(cp, n)
	}
	sort.SliceStable(cp, func(i, j int) bool { return cp[i].K < cp[j].K })
	return canonOf(cp), exact
}

func codec(args []string) {
	fs := flag.NewFlagSet("codec", flag.ExitOnError)
	edges := fs.String("edges", "", "")
	out := fs.String("out", "result.json", "")
	traceF := fs.String("trace", "trace.ndjson", "")
	rep := fs.Int("rep", 0, "")
	fs.Parse(args)
	f, err := os.Open(*edges)
	vh.Must(err)
	defer f.Close()
	res := vh.NewResult()
	tw, err := vh.NewTraceWriter(*traceF)
	vh.Must(err)
	sc := bufio.NewScanner(f)
	sc.Buffer(make([]byte, 1<<20), 1<<28)
	i := 0
	for sc.Scan() {
		ln := bytes.TrimSpace(sc.Bytes())
		if len(ln) == 0 {
			continue
		}
		var e rtEdge
		vh.Must(json.Unmarshal(ln, &e))
		i++
		res.Evaluations++
		r := *rep + i
		variant := r % 4
		var line map[string]any
		var p any
		switch e.Act.Op {
		case "Parse":
			hs, err := concretize(e.Act.H, r)
			if err != nil {
				res.Inconcl("edge " + fmt.Sprint(i) + ": " + err.Error())
				continue
			}
			if len(hs) != e.Act.Hlen || shape(lexHeader(hs)) != shape(e.Act.H) {
				// the symbols do not denote these bytes (e.g. "%" followed by two hex token characters)
				res.Count("edge_not_faithful", 1)
				continue
			}
			line, p = parseCase(hs, variant)
		case "New":
			cs := []concArg{}
			bad := false
			for _, a := range e.Act.Args {
				c, err := concretizeArg(a, r)
				if err != nil {
					res.Count("edge_not_faithful", 1)
					bad = true
					break
				}
				cs = append(cs, c)
			}
			if bad {
				continue
			}
			line, p = newCase(cs, r%3 != 0, variant)
		default:
			res.Inconcl("unknown edge op " + e.Act.Op)
			continue
		}
		res.Executed++
		res.Count("op_"+e.Act.Op, 1)
		res.Count("out_"+e.Act.Op+"_"+e.To.Out, 1)
		cse := map[string]any{"op": e.Act.Op, "out": e.To.Out, "why": e.To.Why}
		if p != nil {
			res.AddMismatch(vh.Mismatch{Kind: "panic", Case: cse, Act: line, Detail: fmt.Sprint(p)})
			continue
		}
		tw.Emit(line)
		// the successor state TLC printed: verdict and (for an accepted case) the members
		o := line["obs"].(map[string]any)
		ok := o["ok"].(bool)
		if e.Act.Op == "New" && canonOf(o["alens"]) != canonOf(e.Act.Lens) && (e.To.Out == "accept" || e.To.Out == "reject") {
			res.Count("lens_differ_from_canonical", 1) // another (longer) admissible encoding: judged by TLC from the trace only
		} else {
			switch {
			case e.To.Out == "accept" && !ok:
				res.AddMismatch(vh.Mismatch{Kind: "rejected", Case: cse, Act: line, Want: e.To})
			case (e.To.Out == "reject" || e.To.Out == "badarg") && ok:
				res.AddMismatch(vh.Mismatch{Kind: "accepted", Case: cse, Act: line, Want: e.To})
			case e.To.Out == "accept":
				want, exact := normMembers(e.To.B)
				got, _ := normMembers(o["b"].([]MemObs))
				if exact && want != got {
					res.AddMismatch(vh.Mismatch{Kind: "members", Case: cse, Act: line, Want: e.To, Got: o["b"]})
				}
			}
		}
		if ok {
			res.Count("returned_"+e.Act.Op, 1)
		}
		if i%2999 == 0 {
			res.Sample(map[string]any{"act": e.Act, "to": e.To, "obs_ok": ok})
		}
	}
	vh.Must(sc.Err())
	vh.Must(tw.Close())
	res.Count("trace_lines", tw.N)
	vh.Must(res.Write(*out))
}

// ---------------------------------------------------------------- the edit machine on the real package

type storeAct struct {
	Op   string `json:"op"`
	H    int    `json:"h"`
	C    int    `json:"c"`
	P    int    `json:"p"`
	K    string `json:"k"`
	Arg  *Arg   `json:"arg,omitempty"`
	Args []Arg  `json:"args,omitempty"`
	Hd   []Sym  `json:"hd,omitempty"`
}

type snapshot struct {
	ms    []baggage.Member     // slice returned by Members()
	props [][]baggage.Property // slices returned by Properties() of each of them
	dump  string               // what they read as when they were returned
	dead  bool                 // overwritten by the harness itself (Scribble)
}

func dumpSnap(ms []baggage.Member, props [][]baggage.Property) string {
	var sb strings.Builder
	for i, m := range ms {
		fmt.Fprintf(&sb, "%q=%q", m.Key(), m.Value())
		for _, p := range m.Properties() {
			v, hv := p.Value()
			fmt.Fprintf(&sb, ";%q=%q/%v", p.Key(), v, hv)
		}
		sb.WriteString("|")
		for _, p := range props[i] {
			v, hv := p.Value()
			fmt.Fprintf(&sb, ";%q=%q/%v", p.Key(), v, hv)
		}
		sb.WriteString("\n")
	}
	return sb.String()
}

type ctxKey int

type store struct {
	bags  []baggage.Baggage
	ctxs  []context.Context
	snaps []*snapshot                  // per handle
	given map[int][][]baggage.Property // per handle: property slices the harness passed to constructors
	rep   int
}

func newStore(rep int) *store {
	s := &store{rep: rep, given: map[int][][]baggage.Property{}}
	s.ctxs = []context.Context{context.Background()}
	s.pushBag(baggage.Baggage{}, nil)
	return s
}

func takeSnap(b baggage.Baggage) *snapshot {
	sn := &snapshot{ms: b.Members()}
	for _, m := range sn.ms {
		sn.props = append(sn.props, m.Properties())
	}
	sn.dump = dumpSnap(sn.ms, sn.props)
	return sn
}

func (s *store) pushBag(b baggage.Baggage, given [][]baggage.Property) {
	s.bags = append(s.bags, b)
	s.snaps = append(s.snaps, takeSnap(b))
	if given != nil {
		s.given[len(s.bags)-1] = given
	}
}

func (s *store) member(a Arg) (built, error) {
	c, err := concretizeArg(a, s.rep)
	if err != nil {
		return built{}, err
	}
	return buildMember(c.key, c.val, c.props, s.raw(c), s.rep), nil
}

// raw: which constructor family builds the member. Keys that are not tokens are only accepted by the Raw
// constructors (the encoded ones document that they refuse them), so those always take the Raw ones.
func (s *store) raw(c concArg) bool {
	if !isToken(c.key) {
		return true
	}
	for _, p := range c.props {
		if !isToken(p.k) {
			return true
		}
	}
	return s.rep%3 != 0
}

var junkProp, _ = baggage.NewKeyValuePropertyRaw("scribbled", "by;the,caller")
var junkMember, _ = baggage.NewMemberRaw("scribbled", "by the caller", junkProp)

// exec performs one abstract action of BaggageEdit.tla through the public API. hd/arg are given
// either abstractly (edges) or concretely (random driver).
func (s *store) exec(a storeAct, conc *concStoreAct) error {
	bag := func(h int) (baggage.Baggage, error) {
		if h < 1 || h > len(s.bags) {
			return baggage.Baggage{}, fmt.Errorf("no handle %d", h)
		}
		return s.bags[h-1], nil
	}
	ctxAt := func(c int) (context.Context, error) {
		if c < 1 || c > len(s.ctxs) {
			return nil, fmt.Errorf("no context %d", c)
		}
		return s.ctxs[c-1], nil
	}
	build := func(i int, abs Arg) (built, error) {
		if conc != nil {
			c := conc.args[i]
			return buildMember(c.key, c.val, c.props, s.raw(c), s.rep), nil
		}
		return s.member(abs)
	}
	switch a.Op {
	case "New":
		ms := []baggage.Member{}
		given := [][]baggage.Property{}
		for i, arg := range a.Args {
			bm, err := build(i, arg)
			if err != nil {
				return err
			}
			ms = append(ms, bm.m)
			given = append(given, bm.props)
		}
		b, err := baggage.New(ms...)
		if err == nil {
			s.pushBag(b, given)
		}
	case "SetMember":
		b, err := bag(a.H)
		if err != nil {
			return err
		}
		bm, err := build(0, *a.Arg)
		if err != nil {
			return err
		}
		nb, _ := b.SetMember(bm.m)
		s.pushBag(nb, [][]baggage.Property{bm.props})
	case "SetZero":
		b, err := bag(a.H)
		if err != nil {
			return err
		}
		nb, _ := b.SetMember(baggage.Member{})
		s.pushBag(nb, nil)
	case "DeleteMember":
		b, err := bag(a.H)
		if err != nil {
			return err
		}
		k, err := unquote(a.K)
		if err != nil {
			return err
		}
		s.pushBag(b.DeleteMember(k), nil)
	case "Parse":
		var hs string
		if conc != nil {
			hs = conc.hd
		} else {
			var err error
			if hs, err = concretize(a.Hd, s.rep); err != nil {
				return err
			}
			if shape(lexHeader(hs)) != shape(a.Hd) {
				return fmt.Errorf("header %v does not concretize faithfully", a.Hd)
			}
		}
		b, err := baggage.Parse(hs)
		if err == nil {
			s.pushBag(b, nil)
		}
	case "ToCtx":
		b, err := bag(a.H)
		if err != nil {
			return err
		}
		c, err := ctxAt(a.C)
		if err != nil {
			return err
		}
		s.ctxs = append(s.ctxs, baggage.ContextWithBaggage(c, b))
	case "FromCtx":
		c, err := ctxAt(a.C)
		if err != nil {
			return err
		}
		s.pushBag(baggage.FromContext(c), nil)
	case "ClearCtx":
		c, err := ctxAt(a.C)
		if err != nil {
			return err
		}
		s.ctxs = append(s.ctxs, baggage.ContextWithoutBaggage(c))
	case "Child":
		c, err := ctxAt(a.C)
		if err != nil {
			return err
		}
		s.ctxs = append(s.ctxs, context.WithValue(c, ctxKey(len(s.ctxs)), "child"))
	case "Propagate":
		c, err := ctxAt(a.C)
		if err != nil {
			return err
		}
		p, err := ctxAt(a.P)
		if err != nil {
			return err
		}
		car := newCarrier(s.rep + len(s.ctxs))
		propagation.Baggage{}.Inject(c, car)
		s.ctxs = append(s.ctxs, propagation.Baggage{}.Extract(p, car))
	case "Scribble":
		if a.H < 1 || a.H > len(s.bags) {
			return fmt.Errorf("no handle %d", a.H)
		}
		// the caller overwrites everything it was handed for this handle and everything it passed in
		sn := s.snaps[a.H-1]
		for i := range sn.ms {
			sn.ms[i] = junkMember
		}
		for _, ps := range sn.props {
			for j := range ps {
				ps[j] = junkProp
			}
		}
		sn.dead = true
		for _, ps := range s.given[a.H] {
			for j := range ps {
				ps[j] = junkProp
			}
		}
		// a fresh read of the same handle is snapshotted again
		s.snaps[a.H-1] = takeSnap(s.bags[a.H-1])
	default:
		return fmt.Errorf("unknown store op %q", a.Op)
	}
	return nil
}

type storeObs struct {
	Bags   [][]MemObs `json:"bags"`
	Ctxs   [][]MemObs `json:"ctxs"`
	Frozen bool       `json:"frozen"`
	Coh    bool       `json:"coh"`
}

// observe re-reads ALL live handles, contexts and previously returned slices
func (s *store) observe() storeObs {
	o := storeObs{Bags: [][]MemObs{}, Ctxs: [][]MemObs{}, Frozen: true, Coh: true}
	for _, b := range s.bags {
		ms, coh := projBag(b)
		o.Bags = append(o.Bags, ms)
		o.Coh = o.Coh && coh
	}
	for _, c := range s.ctxs {
		ms, coh := projBag(baggage.FromContext(c))
		o.Ctxs = append(o.Ctxs, ms)
		o.Coh = o.Coh && coh
	}
	for _, sn := range s.snaps {
		if !sn.dead && dumpSnap(sn.ms, sn.props) != sn.dump {
			o.Frozen = false
		}
	}
	return o
}

type storeState struct {
	Bags [][]MemObs `json:"bags"`
	Ctxs [][]MemObs `json:"ctxs"`
}

func normState(bags, ctxs [][]MemObs) (string, bool) {
	exact := true
	var sb strings.Builder
	for _, grp := range [][][]MemObs{bags, ctxs} {
		sb.WriteString("[")
		for _, b := range grp {
			t, ex := normMembers(b)
			exact = exact && ex
			sb.WriteString(t + ";")
		}
		sb.WriteString("]")
	}
	return sb.String(), exact
}

func storeReplay(args []string) {
	fs := flag.NewFlagSet("store", flag.ExitOnError)
	edges := fs.String("edges", "", "")
	out := fs.String("out", "result.json", "")
	rep := fs.Int("rep", 0, "")
	fs.Parse(args)
	g, err := vh.LoadEdges(*edges)
	vh.Must(err)
	res := vh.NewResult()
	for i, e := range g.Edges {
		res.Evaluations++
		pathRaw, ok := g.Path(i)
		if !ok {
			res.Inconcl(fmt.Sprintf("edge %d: source not reachable in BFS tree", i))
			continue
		}
		var ops []storeAct
		for _, r := range append(pathRaw, e.Act) {
			var a storeAct
			vh.Must(json.Unmarshal(r, &a))
			ops = append(ops, a)
		}
		var to, from storeState
		vh.Must(json.Unmarshal(e.To, &to))
		vh.Must(json.Unmarshal(e.From, &from))
		last := ops[len(ops)-1]
		cse := map[string]any{"op": last.Op}
		st := newStore(*rep + i)
		var obs, before storeObs
		frozen, coh := true, true
		var herr error
		p := recovered(func() {
			for j, a := range ops {
				if j == len(ops)-1 {
					before = st.observe()
				}
				if herr = st.exec(a, nil); herr != nil {
					return
				}
				// re-read everything after EVERY step of the path, not only at the end
				obs = st.observe()
				frozen = frozen && obs.Frozen
				coh = coh && obs.Coh
			}
		})
		if herr != nil {
			res.Inconcl(fmt.Sprintf("edge %d: %v", i, herr))
			continue
		}
		res.Executed++
		res.Count("op_"+last.Op, 1)
		// which regime of the documented semantics this edge exercises (read off the spec's source state)
		if (last.Op == "SetMember" || last.Op == "DeleteMember") && last.H >= 1 && last.H <= len(from.Bags) {
			qk := last.K
			if last.Op == "SetMember" {
				if key, err := concretize(last.Arg.Ks, 0); err == nil {
					qk = quote(key)
				}
			}
			held, tk := false, !strings.Contains(qk, "{")
			for _, m := range from.Bags[last.H-1] {
				held = held || m.K == qk
			}
			cls := map[bool]string{true: "token", false: "nontoken"}[tk]
			switch {
			case last.Op == "SetMember" && held:
				res.Count("store_replace_"+cls+"_key", 1)
			case last.Op == "SetMember":
				res.Count("store_add_"+cls+"_key", 1)
			case held:
				res.Count("store_delete_"+cls+"_present", 1)
			default:
				res.Count("store_delete_"+cls+"_absent", 1)
			}
		}
		if p != nil {
			res.AddMismatch(vh.Mismatch{Kind: "panic", Case: cse, Path: ops[:len(ops)-1], Act: last, Detail: fmt.Sprint(p)})
			continue
		}
		if len(ops) > 1 {
			// the source state was verified as the target of an earlier edge
			want, _ := normState(from.Bags, from.Ctxs)
			got, _ := normState(before.Bags, before.Ctxs)
			if want != got {
				res.Count("source_not_reached", 1)
				continue
			}
		}
		want, exact := normState(to.Bags, to.Ctxs)
		if !exact {
			res.Inconcl(fmt.Sprintf("edge %d: successor state with tolerance (m < n) is not supported by the store replay", i))
			continue
		}
		got, _ := normState(obs.Bags, obs.Ctxs)
		switch {
		case want != got:
			kind := "result"
			// which part differs: an index that existed before the call (immutability) or the new one
			wb, _ := normState(to.Bags[:len(from.Bags)], to.Ctxs[:len(from.Ctxs)])
			nb, nc := min(len(obs.Bags), len(from.Bags)), min(len(obs.Ctxs), len(from.Ctxs))
			gb, _ := normState(obs.Bags[:nb], obs.Ctxs[:nc])
			if wb != gb {
				kind = "receiver-or-copy-altered"
			}
			res.AddMismatch(vh.Mismatch{Kind: kind, Case: cse, Path: ops[:len(ops)-1], Act: last, Want: to, Got: obs})
		case !frozen:
			res.AddMismatch(vh.Mismatch{Kind: "returned-slice-altered", Case: cse, Path: ops[:len(ops)-1], Act: last, Got: obs})
		case !coh:
			res.AddMismatch(vh.Mismatch{Kind: "incoherent", Case: cse, Path: ops[:len(ops)-1], Act: last, Got: obs})
		}
		res.Count("handles_reread", int64(len(obs.Bags)+len(obs.Ctxs)))
		if i%997 == 0 {
			res.Sample(map[string]any{"ops": ops, "bags": len(obs.Bags), "ctxs": len(obs.Ctxs)})
		}
	}
	vh.Must(res.Write(*out))
}

// ---------------------------------------------------------------- random driver (code -> spec)

type concStoreAct struct {
	args []concArg
	hd   string
}

type gen struct {
	r   *rand.Rand
	res *vh.Result
}

func (g *gen) oneOf(xs ...int) int     { return xs[g.r.Intn(len(xs))] }
func (g *gen) pick(xs []string) string { return xs[g.r.Intn(len(xs))] }

const tokChars = "abcdefghijklmnopqrstuvwxyzABCDEFGHIJKLMNOPQRSTUVWXYZ0123456789!#$&'*+-.^_`|~"

var uglyChars = []string{
	" ", "\t", ",", ";", "=", "%", "\"", "\\", "\x00", "\x1f", "\x7f", "\n", "(", ")", "/", ":", "<", ">", "?", "@", "[", "]", "{", "}",
	"é", "ß", "\u00a0", "€", "世", "\u2028", "\ufffd", "😀", "𝄞", "%41", "%zz", "%2", "+",
}
var badBytes = []string{"\xff", "\x80", "\xc3", "\xe2\x82", "\xf0\x9f\x98", "\xed\xa0\x80", "\xc0\xaf"}

func (g *gen) token(n int) string {
	b := make([]byte, n)
	for i := range b {
		b[i] = tokChars[g.r.Intn(len(tokChars))]
	}
	return string(b)
}

// key: mostly tokens (what the statement calls valid keys), some others
func (g *gen) key() string {
	switch g.r.Intn(12) {
	case 0:
		g.res.Count("gen_key_nontoken", 1)
		return g.token(1+g.r.Intn(3)) + g.pick(uglyChars) + g.token(g.r.Intn(3))
	case 1:
		g.res.Count("gen_key_empty_or_invalid", 1)
		return g.pick([]string{"", "\xff", "k\x80"})
	case 2:
		g.res.Count("gen_key_percent", 1)
		return g.token(1+g.r.Intn(3)) + g.pick([]string{"%", "%41", "%C3%A9", "%zz"}) + g.token(g.r.Intn(2))
	}
	return g.token(1 + g.r.Intn(g.oneOf(1, 3, 8, 30)))
}

// value: any UTF-8 including delimiters, percent signs, spaces, non-BMP; sometimes invalid bytes
func (g *gen) value() string {
	var sb strings.Builder
	n := g.r.Intn(g.oneOf(1, 4, 12, 40))
	for i := 0; i < n; i++ {
		switch g.r.Intn(10) {
		case 0, 1, 2, 3:
			sb.WriteString(g.token(1 + g.r.Intn(4)))
		case 9:
			if g.r.Intn(4) == 0 {
				g.res.Count("gen_value_invalid_utf8", 1)
				sb.WriteString(g.pick(badBytes))
				continue
			}
			fallthrough
		default:
			sb.WriteString(g.pick(uglyChars))
		}
	}
	return sb.String()
}

func (g *gen) arg(tokenKeys bool) concArg {
	c := concArg{key: g.key(), val: g.value()}
	if tokenKeys {
		c.key = g.token(1 + g.r.Intn(4))
	}
	for n := g.oneOf(0, 0, 0, 1, 2, 3); n > 0; n-- {
		p := struct {
			k, v string
			hv   bool
		}{k: g.key(), hv: g.r.Intn(3) > 0}
		if tokenKeys {
			p.k = g.token(1 + g.r.Intn(3))
		}
		if p.hv {
			p.v = g.value()
		}
		c.props = append(c.props, p)
	}
	return c
}

// keys the Raw constructors accept although they are not W3C tokens (every same-class run <= 16 bytes, so
// that the lexer keeps their text)
var nonTokenKeys = []string{"ключ", "é", "k k", "a,b=c", "naïve", "k;p", "\"q\"", "键", "k\tk", "😀", "%zz k"}

func (g *gen) storeKey(n int) string {
	if g.r.Intn(3) == 0 {
		return g.pick(nonTokenKeys)
	}
	return g.token(1 + g.r.Intn(n))
}

// storeArg: a member for the edit scenarios: token and non-token keys (member and properties), any UTF-8 values
func (g *gen) storeArg() concArg {
	c := g.arg(true)
	c.key = g.storeKey(4)
	for i := range c.props {
		c.props[i].k = g.storeKey(3)
	}
	return c
}

// variant: the member `prev` with exactly one aspect changed (or none)
func (g *gen) variant(prev concArg) concArg {
	c := concArg{key: prev.key, val: prev.val}
	c.props = append(c.props, prev.props...)
	switch k := g.r.Intn(5); {
	case k == 0:
		c.val = g.value()
		g.res.Count("scn_replace_value", 1)
	case k == 1:
		c.props = g.storeArg().props
		g.res.Count("scn_replace_properties", 1)
	case k == 2 && len(c.props) > 0:
		i := g.r.Intn(len(c.props))
		c.props[i].v, c.props[i].hv = g.value(), true
		g.res.Count("scn_replace_property_value_only", 1)
	case k == 3:
		g.res.Count("scn_replace_identical", 1)
	default:
		c.val, c.props = g.value(), nil
		g.res.Count("scn_replace_value_drop_properties", 1)
	}
	return c
}

func (g *gen) ows() string { return g.pick([]string{"", "", "", " ", "\t", "  ", " \t "}) }

// encodeLoosely: a percent-encoding of s as some OTHER sender might produce it (more than the
// minimum is encoded, hex digits in either case)
func (g *gen) encodeLoosely(s string) string {
	var sb strings.Builder
	for i := 0; i < len(s); i++ {
		c := s[i]
		cl := rawClass(c)
		must := c == '%' || !(cl == "tok" || cl == "v" || cl == "eq")
		if must || g.r.Intn(8) == 0 {
			if g.r.Intn(2) == 0 {
				fmt.Fprintf(&sb, "%%%02X", c)
			} else {
				fmt.Fprintf(&sb, "%%%02x", c)
			}
		} else {
			sb.WriteByte(c)
		}
	}
	return sb.String()
}

// memberText: one grammatical list-member (with optional white space everywhere it is allowed)
func (g *gen) memberText(key string) string {
	s := g.ows() + key + g.ows() + "=" + g.ows() + g.encodeLoosely(g.value()) + g.ows()
	for n := g.oneOf(0, 0, 1, 2); n > 0; n-- {
		s += ";" + g.ows() + g.token(1+g.r.Intn(3)) + g.ows()
		if g.r.Intn(3) > 0 {
			s += "=" + g.ows() + g.encodeLoosely(g.value()) + g.ows()
		}
	}
	return s
}

func (g *gen) header() string {
	switch k := g.r.Intn(20); {
	case k == 0:
		g.res.Count("gen_hdr_random_bytes", 1)
		b := make([]byte, g.r.Intn(40))
		g.r.Read(b)
		return string(b)
	case k == 1:
		g.res.Count("gen_hdr_ugly_soup", 1)
		var sb strings.Builder
		for n := g.r.Intn(12); n > 0; n-- {
			if g.r.Intn(2) == 0 {
				sb.WriteString(g.token(1 + g.r.Intn(2)))
			} else {
				sb.WriteString(g.pick(append(uglyChars, badBytes...)))
			}
		}
		return sb.String()
	}
	n := g.oneOf(1, 1, 2, 3, 5)
	parts := []string{}
	keys := []string{}
	for i := 0; i < n; i++ {
		key := g.token(1 + g.r.Intn(3))
		if len(keys) > 0 && g.r.Intn(5) == 0 {
			key = keys[g.r.Intn(len(keys))]
			g.res.Count("gen_hdr_duplicate_key", 1)
		}
		keys = append(keys, key)
		parts = append(parts, g.memberText(key))
	}
	h := strings.Join(parts, ",")
	switch g.r.Intn(12) {
	case 0: // byte mutation
		g.res.Count("gen_hdr_mutated", 1)
		if len(h) > 0 {
			b := []byte(h)
			b[g.r.Intn(len(b))] = g.pick(append(uglyChars, badBytes...))[0]
			h = string(b)
		}
	case 1:
		g.res.Count("gen_hdr_odd_piece", 1)
		h += g.pick([]string{",", ";", ",,", "; ", ";;p", ",k", ",=v", ", ", ";=", "=", ";p=%ZZ", ";p q", "%"})
	}
	return h
}

func fill(n int, c string) string { return strings.Repeat(c, n) }

// boundaryHeaders: the families at the real limits
func (g *gen) boundaryHeaders() []string {
	var H []string
	members := func(n int, start int) []string {
		ms := []string{}
		for i := 0; i < n; i++ {
			ms = append(ms, fmt.Sprintf("f%d=%d", start+i, i%10))
		}
		return ms
	}
	for _, n := range []int{179, 180, 181} {
		H = append(H, strings.Join(members(n, 0), ","))
		H = append(H, strings.Join(append(members(n, 0), "f0=again"), ","))
		g.res.Count("gen_members_"+fmt.Sprint(n), 2)
	}
	H = append(H, strings.Join(append(members(180, 0), members(3, 0)...), ","))
	for _, n := range []int{4095, 4096, 4097} {
		c := g.pick([]string{"v", "(", "="})
		H = append(H, "k="+fill(n-2, c))
		H = append(H, "k="+fill(n-2-4, c)+";p=x")
		H = append(H, " k="+fill(n-3, c))
		H = append(H, "k=a,m="+fill(n-2, c)+",n=b")
		H = append(H, "k="+fill((n-2)/3, "%25")+fill((n-2)%3, "v"))
		g.res.Count("gen_member_bytes_"+fmt.Sprint(n), 5)
	}
	for _, n := range []int{8191, 8192, 8193} {
		a := 4090
		H = append(H, "k="+fill(a-2, "v")+",m="+fill(n-a-1-2, "w"))
		H = append(H, "k="+fill(a-2, "v")+", m="+fill(n-a-1-3, "w"))
		H = append(H, "k="+fill(4000, "v")+",m="+fill(4000, "w")+",n="+fill(n-8004-2-2, "x"))
		g.res.Count("gen_total_bytes_"+fmt.Sprint(n), 3)
	}
	// invalid UTF-8 that grows when repaired (3 header bytes -> U+FFFD -> 9 bytes)
	for _, n := range []int{454, 455, 456, 909, 910, 911, 1300, 2730} {
		H = append(H, "k="+fill(n, g.pick([]string{"%FF", "%80", "%c0"})))
		g.res.Count("gen_invalid_utf8_run", 1)
	}
	H = append(H, "k="+fill(455, "%FF")+",m="+fill(454, "%FF"))
	H = append(H, "k="+fill(455, "%FF")+",m="+fill(455, "%FF"))
	H = append(H, "k=a;p="+fill(500, "%FF"))
	H = append(H, "k="+fill(300, "%E2%82"))
	return H
}

func (g *gen) boundaryArgs() [][]concArg {
	var L [][]concArg
	kv := func(k, v string) concArg { return concArg{key: k, val: v} }
	for _, n := range []int{179, 180, 181} {
		l := []concArg{}
		for i := 0; i < n; i++ {
			l = append(l, kv(fmt.Sprintf("f%d", i), g.pick([]string{"", "v", "é"})))
		}
		L = append(L, l, append(append([]concArg{}, l...), kv("f0", "again")))
		g.res.Count("gen_new_members_"+fmt.Sprint(n), 2)
	}
	for _, n := range []int{4095, 4096, 4097, 5000} {
		L = append(L, []concArg{kv("k", fill(n-2, "v"))})
		L = append(L, []concArg{kv("k", "a"), kv("m", fill(n-2, "=")), kv("n", "b")})
		L = append(L, []concArg{{key: "k", val: "a", props: []struct {
			k, v string
			hv   bool
		}{{"p", fill(n-6, "v"), true}}}})
		L = append(L, []concArg{kv("k", fill((n-2)/3, g.pick([]string{" ", "%", ","}))+fill((n-2)%3, "v"))})
		L = append(L, []concArg{kv("k", fill((n-2)/6, "é")+fill((n-2)%6, "v"))})
		L = append(L, []concArg{kv("k", fill(n-2, "v")), kv("k", "short")}) // oversize member overwritten
		g.res.Count("gen_new_member_bytes_"+fmt.Sprint(n), 6)
	}
	for _, n := range []int{8191, 8192, 8193} {
		L = append(L, []concArg{kv("k", fill(4088, "v")), kv("m", fill(n-4090-1-2, "w"))})
		L = append(L, []concArg{kv("k", fill(4000, "v")), kv("m", fill(1333, ";")), kv("n", fill(n-4002-4001-2-2, "x"))})
		g.res.Count("gen_new_total_bytes_"+fmt.Sprint(n), 2)
	}
	return L
}

func (g *gen) smallHeader() (string, []string) {
	n := g.oneOf(1, 2, 3)
	parts, keys := []string{}, []string{}
	for i := 0; i < n; i++ {
		k := g.token(1 + g.r.Intn(2))
		keys = append(keys, k)
		s := k + "=" + g.encodeLoosely(g.value())
		if g.r.Intn(3) == 0 {
			s += ";" + g.token(1+g.r.Intn(2))
			if g.r.Intn(2) == 0 {
				s += "=" + g.encodeLoosely(g.value())
			}
		}
		parts = append(parts, s)
	}
	return strings.Join(parts, ","), keys
}

// scenario: one random edit history over handles and contexts, every step fully re-read
func (g *gen) scenario(tw *vh.TraceWriter, rep int) (panicked any, at any) {
	tw.Emit(map[string]any{"ev": "Reset"})
	st := newStore(rep)
	keys := []string{"k", "K"}
	last := map[string]concArg{}
	steps := g.oneOf(4, 8, 12, 20)
	big := g.r.Intn(12) == 0 // a baggage at the member limit, then edits beyond it
	for i := 0; i < steps; i++ {
		var a storeAct
		conc := &concStoreAct{}
		h, c := 1+g.r.Intn(len(st.bags)), 1+g.r.Intn(len(st.ctxs))
		if g.r.Intn(2) == 0 {
			h = len(st.bags) // prefer the newest value
		}
		switch k := g.r.Intn(14); {
		case i == 0 && big:
			n := g.oneOf(179, 180)
			for j := 0; j < n; j++ {
				conc.args = append(conc.args, concArg{key: fmt.Sprintf("f%d", j), val: g.pick([]string{"", "v", "é;"})})
			}
			a = storeAct{Op: "New"}
			g.res.Count("scn_big_baggage", 1)
		case k <= 3:
			ca := g.storeArg()
			if prev, ok := last[keys[g.r.Intn(len(keys))]]; ok && g.r.Intn(2) == 0 {
				// REPLACE a key set before: another value / other properties / one property value only / identical
				ca = g.variant(prev)
			}
			keys = append(keys, ca.key)
			last[ca.key] = ca
			conc.args = []concArg{ca}
			a = storeAct{Op: "SetMember", H: h}
			if !isToken(ca.key) {
				g.res.Count("scn_setmember_nontoken_key", 1)
			}
		case k == 4:
			a = storeAct{Op: "SetZero", H: h}
		case k <= 6:
			key := keys[g.r.Intn(len(keys))]
			if g.r.Intn(4) == 0 {
				key = g.pick([]string{"", "missing", "\xff", "k k"})
			}
			a = storeAct{Op: "DeleteMember", H: h, K: quote(key)}
		case k == 7:
			n := g.oneOf(0, 1, 2, 3)
			for j := 0; j < n; j++ {
				ca := g.storeArg()
				keys = append(keys, ca.key)
				last[ca.key] = ca
				conc.args = append(conc.args, ca)
			}
			a = storeAct{Op: "New"}
		case k == 8:
			hd, ks := g.smallHeader()
			keys = append(keys, ks...)
			conc.hd = hd
			a = storeAct{Op: "Parse"}
		case k == 9:
			a = storeAct{Op: "ToCtx", H: h, C: c}
		case k == 10:
			a = storeAct{Op: "FromCtx", C: c}
		case k == 11:
			a = storeAct{Op: g.pick([]string{"ClearCtx", "Child"}), C: c}
		case k == 12:
			a = storeAct{Op: "Propagate", C: c, P: 1 + g.r.Intn(len(st.ctxs))}
		default:
			a = storeAct{Op: "Scribble", H: h}
		}
		// the abstract action recorded for TLC
		rec := map[string]any{"op": a.Op, "h": a.H, "c": a.C, "p": a.P, "k": a.K}
		switch a.Op {
		case "New":
			args := []Arg{}
			for _, ca := range conc.args {
				args = append(args, abstractArg(ca))
			}
			rec["args"] = args
			a.Args = args
		case "SetMember":
			arg := abstractArg(conc.args[0])
			rec["arg"] = arg
			a.Arg = &arg
		case "Parse":
			rec["hd"] = lexHeader(conc.hd)
		}
		var herr error
		p := recovered(func() { herr = st.exec(a, conc) })
		if p != nil {
			return p, rec
		}
		if herr != nil {
			vh.Must(herr)
		}
		var obs storeObs
		if p := recovered(func() { obs = st.observe() }); p != nil {
			return p, rec
		}
		tw.Emit(map[string]any{"ev": "Op", "a": rec, "obs": obs})
		g.res.Count("scn_op_"+a.Op, 1)
		g.res.Count("scn_handles_reread", int64(len(obs.Bags)+len(obs.Ctxs)))
		if len(st.bags) > 0 && st.bags[len(st.bags)-1].Len() > 180 {
			g.res.Count("scn_baggage_beyond_180_by_edit", 1)
		}
	}
	return nil, nil
}

func random(args []string) {
	fs := flag.NewFlagSet("random", flag.ExitOnError)
	n := fs.Int("n", 300, "")
	out := fs.String("trace", "trace.ndjson", "")
	resF := fs.String("res", "result.json", "")
	fs.Parse(args)
	res := vh.NewResult()
	g := &gen{r: rand.New(rand.NewSource(vh.Seed()*1000003 + 11)), res: res}
	tw, err := vh.NewTraceWriter(*out)
	vh.Must(err)
	emit := func(line map[string]any, p any, what any) {
		res.Executed++
		if p != nil {
			res.AddMismatch(vh.Mismatch{Kind: "panic", Case: map[string]any{"op": line["ev"]}, Act: what, Detail: fmt.Sprint(p)})
			return
		}
		tw.Emit(line)
		o := line["obs"].(map[string]any)
		ev := line["ev"].(string)
		if o["ok"].(bool) {
			res.Count("obs_"+ev+"_returned", 1)
			if o["serlen"].(int) > 4000 {
				res.Count("obs_"+ev+"_returned_large", 1)
			}
		} else {
			res.Count("obs_"+ev+"_refused", 1)
		}
	}
	// boundary families at the real limits
	for i, h := range g.boundaryHeaders() {
		line, p := parseCase(h, i)
		emit(line, p, quote(h[:min(len(h), 200)]))
	}
	for i, l := range g.boundaryArgs() {
		line, p := newCase(l, i%3 != 0, i)
		emit(line, p, len(l))
	}
	for i := 0; i < *n; i++ {
		h := g.header()
		line, p := parseCase(h, i)
		emit(line, p, quote(h))
		if i == 3 {
			res.Sample(line)
		}
		// constructor inputs: 1..4 members, sometimes duplicates
		cs := []concArg{}
		for k := g.oneOf(1, 1, 2, 3, 4); k > 0; k-- {
			c := g.arg(g.r.Intn(3) > 0)
			if len(cs) > 0 && g.r.Intn(5) == 0 {
				c.key = cs[g.r.Intn(len(cs))].key
				res.Count("gen_new_duplicate_key", 1)
			}
			cs = append(cs, c)
		}
		line, p = newCase(cs, i%3 != 0, i)
		emit(line, p, cs)
		if i%2 == 0 {
			if p, at := g.scenario(tw, i); p != nil {
				res.AddMismatch(vh.Mismatch{Kind: "panic", Case: map[string]any{"op": "Op"}, Act: at, Detail: fmt.Sprint(p)})
			}
			res.Count("scenarios", 1)
		}
	}
	vh.Must(tw.Close())
	res.Count("trace_lines", tw.N)
	vh.Must(res.Write(*resF))
}

func main() {
	if len(os.Args) < 2 {
		fmt.Fprintln(os.Stderr, "usage: c11 codec|store|random ...")
		os.Exit(2)
	}
	switch os.Args[1] {
	case "codec":
		codec(os.Args[2:])
	case "store":
		storeReplay(os.Args[2:])
	case "random":
		random(os.Args[2:])
	default:
		fmt.Fprintln(os.Stderr, "unknown mode", os.Args[1])
		os.Exit(2)
	}
}
