-------------------------- MODULE LifecycleContract --------------------------
(* The C15 statement as a TOTAL monitor over API-observable events of one      *)
(* provider (trace, metric or log SDK) used from several goroutines.           *)
(*                                                                             *)
(* Events (one ndjson line each, ordered by one atomic sequence number taken   *)
(* in the harness: Call before the call, Ret after the return, component       *)
(* events inside the user-supplied component):                                 *)
(*   Cfg{prov, kinds: id -> kind, init: [ids]}                                 *)
(*   Call{k, op, c, item, ctx, rec, counted}   Ret{k, op, c, item, errc, noop, val} *)
(*     op: Register Unregister Shutdown ForceFlush Get Start End StartEnd Emit *)
(*         Add Collect;  k = unique call number; rec = the span is recording / *)
(*         the logger is an SDK logger; counted = the instrument is an SDK one *)
(*   Deliver{c, item, ph}   OnStart ("start") / OnEnd, OnEmit ("end") seen by c *)
(*   Export{c, items, val}  the exporter of c was handed items                 *)
(*   CompShutdown{c}  ExpShutdown{c}   Shutdown seen by the component / exporter*)
(*   Panic{k, op}  Hung{k, op, where}  Crash{}   EndScenario{quiescent}        *)
(*   InvalidExport{c, n}  the exporter of c was handed n entries that are not   *)
(*     ended spans (nil, or a value that is not a span at all)                  *)
(*   Fault{f}  the environment switches to fault mode f (logged before it takes *)
(*     effect): user-supplied components fail from now on -- processors' and    *)
(*     exporters' Shutdown / ForceFlush, observable callbacks, external         *)
(*     Producers, metric exporters.  The statement's clauses are unaffected:    *)
(*     every component and exporter is still shut down exactly once; only the   *)
(*     error class "fault" becomes an admissible return value.                  *)
(*                                                                             *)
(* Real-time order is only used in its sound direction: "A returned before B   *)
(* was called".  With concurrent calls a component is in one of three states:  *)
(* certainly registered (Must), possibly registered, certainly removed         *)
(* (Removed); deliveries are REQUIRED for components certainly registered      *)
(* during the whole call and ALLOWED for components possibly registered at     *)
(* some moment of it.  "After Shutdown has returned" (sdDone) = a Shutdown     *)
(* with a live context has returned and no Shutdown call is in flight.         *)
EXTENDS Naturals, Sequences, FiniteSets, TLC

Put(f, k, v) == [x \in (DOMAIN f) \cup {k} |-> IF x = k THEN v ELSE f[x]]
Drop(f, k) == [x \in (DOMAIN f) \ {k} |-> f[x]]
SeqSet(s) == {s[i] : i \in 1..Len(s)}
HasExporter(kind) == kind \in {"simple", "batch", "periodic"}
ItemOps == {"Start", "End", "StartEnd", "Emit"}
Phases(op) == CASE op = "Start" -> {"start"} [] op = "End" -> {"end"} [] op = "Emit" -> {"end"}
                [] op = "StartEnd" -> {"start", "end"} [] OTHER -> {}

Fresh(cfg) ==
  LET C == DOMAIN cfg.kinds
      I == SeqSet(cfg.init) IN
  [cfg |-> cfg,
   rc |-> [c \in C |-> c \in I],       \* Register(c) has been called
   rr |-> [c \in C |-> c \in I],       \* Register(c) has returned
   regOK |-> [c \in C |-> c \in I],    \* ... before any Shutdown call began: certainly effective
   loose |-> [c \in C |-> FALSE],      \* an Unregister(c) that may remove it has been called
   gone |-> [c \in C |-> FALSE],       \* certainly removed by an Unregister that has returned
   unregOpen |-> [c \in C |-> 0],
   shut |-> [c \in C |-> 0], xshut |-> [c \in C |-> 0],
   sdBegun |-> FALSE, sdOpen |-> 0, sdLiveRet |-> FALSE, sdDone |-> FALSE,
   \* input classes of the scenario so far (reported with every violation, used to tell the
   \* consequences of the listed known findings from anything else):
   unk |-> FALSE,                      \* an Unregister(c) was called while c was not certainly registered
   canc |-> FALSE,                     \* a Shutdown with an already-cancelled context was called
   faulted |-> FALSE,                  \* a fault mode has been switched on (components may return errors)
   calls |-> <<>>,                     \* k -> what was known when call k was made
   open |-> <<>>,                      \* item -> k of the call that currently handles it
   seen |-> {},                        \* <<item, phase, component>> delivered
   addLo |-> 0, addHi |-> 0]           \* counted Adds returned / called

Comps(m) == DOMAIN m.cfg.kinds
Must(m) == {c \in Comps(m) : m.rr[c] /\ m.regOK[c] /\ ~m.loose[c] /\ ~m.sdBegun}
Removed(m) == {c \in Comps(m) : m.gone[c]} \cup (IF m.sdDone THEN Comps(m) ELSE {})

V(kind, e, extra) == [kind |-> kind, op |-> (IF "op" \in DOMAIN e THEN e.op ELSE ""),
                      c |-> (IF "c" \in DOMAIN e THEN e.c ELSE ""), x |-> extra]

ErrViol(m, e, call) ==
  IF e.errc = "" THEN {}
  \* a context error needs a cancelled context -- or, metric SDK, a call that overlaps a Shutdown (made before a live
  \* Shutdown had returned): the periodic reader serves ForceFlush on its run loop, whose context Shutdown cancels;
  \* the statement only speaks about calls made after Shutdown has returned
  ELSE IF e.errc = "ctx"
    THEN (IF call.ctx \in {"cancelled", "expiring"} \/ (m.cfg.prov = "metric" /\ m.sdBegun /\ call.pre) THEN {}
          ELSE {V("undocumented-error", e, "ctx")})
  ELSE IF e.errc = "reader-shutdown"
    THEN (IF m.cfg.prov = "metric" /\ m.sdBegun THEN {} ELSE {V("undocumented-error", e, "reader-shutdown")})
  ELSE IF e.errc = "fault" THEN (IF m.faulted THEN {} ELSE {V("undocumented-error", e, "fault")})
  ELSE {V("undocumented-error", e, e.errc)}

(* components that must have been shut down once a live Shutdown has completed *)
ShutdownOwed(m) ==
  {V("shutdown-missing", [op |-> "Shutdown", c |-> c], m.cfg.kinds[c]) :
      c \in {c \in Comps(m) : m.rr[c] /\ m.regOK[c] /\ m.shut[c] = 0}}
  \cup {V("exporter-shutdown-missing", [op |-> "Shutdown", c |-> c], m.cfg.kinds[c]) :
      \* (a processor whose Shutdown was given a cancelled context may shut its exporter down in the background)
      c \in {c \in Comps(m) : ~m.canc /\ m.rr[c] /\ m.regOK[c] /\ HasExporter(m.cfg.kinds[c]) /\ m.xshut[c] = 0}}

OnCall(m, e) ==
  LET info == [op |-> e.op, c |-> e.c, item |-> e.item, ctx |-> e.ctx, rec |-> e.rec, counted |-> e.counted,
               pre |-> ~m.sdDone, must |-> Must(m), removed |-> Removed(m), lo |-> m.addLo,
               xs |-> {c \in Comps(m) : m.xshut[c] >= 1},   \* exporters whose Shutdown had been called by then
               def |-> (e.op = "Unregister" /\ e.c \in Comps(m) /\ m.rr[e.c] /\ m.regOK[e.c] /\ ~m.sdBegun),
               sole |-> (e.op = "Unregister" /\ e.c \in Must(m))]
      m1 == [m EXCEPT !.calls = Put(@, e.k, info)] IN
  CASE e.op = "Register" ->
         <<[m1 EXCEPT !.rc[e.c] = TRUE, !.loose[e.c] = (@ \/ m.unregOpen[e.c] > 0)], {}>>
    [] e.op = "Unregister" ->
         <<[m1 EXCEPT !.unregOpen[e.c] = @ + 1, !.loose[e.c] = (@ \/ m.rc[e.c]),
                      !.unk = (@ \/ ~(m.rr[e.c] /\ m.regOK[e.c] /\ ~m.loose[e.c]))], {}>>
    [] e.op = "Shutdown" ->
         <<[m1 EXCEPT !.sdBegun = TRUE, !.sdOpen = @ + 1, !.canc = (@ \/ e.ctx \in {"cancelled", "expiring"})], {}>>
    [] e.op \in ItemOps -> <<[m1 EXCEPT !.open = Put(@, e.item, e.k)], {}>>
    [] e.op = "Add" -> <<[m1 EXCEPT !.addHi = IF e.counted THEN @ + 1 ELSE @], {}>>
    [] OTHER -> <<m1, {}>>

OnRet(m, e) ==
  LET call == m.calls[e.k]
      m1 == [m EXCEPT !.calls = Drop(@, e.k)] IN
  CASE e.op = "Register" -> <<[m1 EXCEPT !.rr[e.c] = TRUE, !.regOK[e.c] = ~m.sdBegun], {}>>
    [] e.op = "Unregister" ->
         <<[m1 EXCEPT !.unregOpen[e.c] = @ - 1, !.gone[e.c] = (@ \/ call.def)],
           (IF call.sole /\ m.shut[e.c] # 1 THEN {V("unregister-without-shutdown", e, m.cfg.kinds[e.c])} ELSE {})
           \* (when a Shutdown with a done context ran concurrently it may have shut this component down and left the
           \* exporter's shutdown to a background goroutine: then only "never" is judged, at the end of the scenario)
           \cup (IF call.sole /\ HasExporter(m.cfg.kinds[e.c]) /\ (IF m.canc THEN m.xshut[e.c] > 1 ELSE m.xshut[e.c] # 1)
                   THEN {V("exporter-shutdown-missing", e, m.cfg.kinds[e.c])} ELSE {})>>
    [] e.op = "Shutdown" ->
         LET liveRet == m.sdLiveRet \/ call.ctx \notin {"cancelled", "expiring"}
             done == liveRet /\ m.sdOpen = 1
             m2 == [m1 EXCEPT !.sdOpen = @ - 1, !.sdLiveRet = liveRet, !.sdDone = (@ \/ done)] IN
         <<m2, ErrViol(m, e, call) \cup (IF done /\ ~m.sdDone THEN ShutdownOwed(m) ELSE {})>>
    [] e.op = "ForceFlush" -> <<m1, ErrViol(m, e, call)>>
    [] e.op = "Get" ->
         <<m1, (IF ~call.pre /\ ~e.noop THEN {V("not-noop-after-shutdown", e, "")} ELSE {})
               \cup (IF e.noop /\ ~m.sdBegun THEN {V("noop-before-shutdown", e, "")} ELSE {})>>
    [] e.op \in ItemOps ->
         LET required == IF call.rec THEN call.must \cap Must(m) ELSE {} IN
         <<[m1 EXCEPT !.open = Drop(@, e.item)],
           {V("not-delivered", [op |-> e.op, c |-> pr[1]], pr[2]) :
               pr \in {pr \in required \X Phases(e.op) : <<e.item, pr[2], pr[1]>> \notin m.seen}}>>
    [] e.op = "Add" -> <<[m1 EXCEPT !.addLo = IF call.counted THEN @ + 1 ELSE @], {}>>
    [] e.op = "Collect" ->
         <<m1,
           IF ~call.pre
             THEN (IF e.errc = "reader-shutdown" /\ e.val = 0 THEN {} ELSE {V("collect-after-shutdown", e, e.errc)})
           ELSE IF e.errc = "fault" /\ m.faulted THEN {}      \* a failing callback / producer is reported by Collect
           ELSE IF ~m.sdBegun
             THEN (IF e.errc = "" /\ call.lo <= e.val /\ e.val <= m.addHi THEN {} ELSE {V("collect-wrong", e, e.errc)})
           ELSE ErrViol(m, e, call)
                \cup (IF e.errc = "" /\ ~(call.lo <= e.val /\ e.val <= m.addHi) THEN {V("collect-wrong", e, "")} ELSE {})>>
    [] OTHER -> <<m1, {}>>

OnDeliver(m, e) ==
  LET isOpen == e.item \in DOMAIN m.open
      call == IF isOpen THEN m.calls[m.open[e.item]] ELSE [pre |-> TRUE, removed |-> {}]
      allowed == m.rc[e.c] /\ e.c \notin call.removed
      key == <<e.item, e.ph, e.c>> IN
  <<[m EXCEPT !.seen = @ \cup {key}],
    (IF m.cfg.prov = "trace" /\ ~isOpen THEN {V("delivery-outside-call", e, e.ph)} ELSE {})
    \cup (IF m.cfg.prov = "trace" /\ isOpen /\ ~allowed
            THEN {V(IF ~call.pre THEN "delivered-after-shutdown" ELSE "delivered-to-unregistered", e, m.cfg.kinds[e.c])}
            ELSE {})
    \cup (IF key \in m.seen THEN {V("delivered-twice", e, e.ph)} ELSE {})>>

OnExport(m, e) ==
  LET items == SeqSet(e.items)
      byItem == \E i \in items : i \in DOMAIN m.open /\ m.calls[m.open[i]].pre
      byCall == items = {} /\ \E k \in DOMAIN m.calls :
                  m.calls[k].pre /\ m.calls[k].op \in {"ForceFlush", "Collect", "Shutdown"} IN
  \* a Shutdown that was given a cancelled context may give up and leave the final export running in
  \* the background ("honors the cancellation"); the clause is judged when no such call was made
  \* WORK IN FLIGHT (InFlight.tla): whatever context Shutdown was given -- live, already cancelled, expiring -- and
  \* whatever it returned, the component WAITS FOR or CANCELS the work in progress inside it (an interval collection
  \* of the periodic reader's run loop, an export of a batch worker) BEFORE it shuts its exporter down: an Export that
  \* BEGINS after the Shutdown of that very exporter was called is "something more exported" by a component that is
  \* shut down, and an exporter used after its single Shutdown.  Not judged (the statement speaks of calls made after
  \* Shutdown): an export on behalf of an API call that is still open and was made before that exporter's Shutdown
  \* (an Emit / End racing the Shutdown, a ForceFlush / Collect / Shutdown in progress).
  LET xItem == \E i \in items : i \in DOMAIN m.open /\ e.c \notin m.calls[m.open[i]].xs
      xCall == items = {} /\ \E k \in DOMAIN m.calls :
                  e.c \notin m.calls[k].xs /\ m.calls[k].op \in {"ForceFlush", "Collect", "Shutdown"} IN
  <<m, (IF m.sdDone /\ ~m.canc /\ ~byItem /\ ~byCall THEN {V("export-after-shutdown", e, m.cfg.kinds[e.c])} ELSE {})
       \cup (IF m.xshut[e.c] >= 1 /\ ~xItem /\ ~xCall
               THEN {V("export-after-exporter-shutdown", e, m.cfg.kinds[e.c])} ELSE {})>>

Step(m, e) ==
  CASE e.ev = "Call" -> OnCall(m, e)
    [] e.ev = "Ret" -> OnRet(m, e)
    [] e.ev = "Deliver" -> OnDeliver(m, e)
    [] e.ev = "Export" -> OnExport(m, e)
    [] e.ev = "CompShutdown" ->
         <<[m EXCEPT !.shut[e.c] = @ + 1],
           (IF m.shut[e.c] >= 1 THEN {V("component-shutdown-twice", e, m.cfg.kinds[e.c])} ELSE {})
           \cup (IF m.sdOpen = 0 /\ m.unregOpen[e.c] = 0 THEN {V("shutdown-without-cause", e, m.cfg.kinds[e.c])} ELSE {})
           \cup (IF ~m.rc[e.c] THEN {V("shutdown-of-never-registered", e, m.cfg.kinds[e.c])} ELSE {})>>
    [] e.ev = "ExpShutdown" ->
         <<[m EXCEPT !.xshut[e.c] = @ + 1],
           IF m.xshut[e.c] >= 1 THEN {V("exporter-shutdown-twice", e, m.cfg.kinds[e.c])} ELSE {}>>
    [] e.ev = "InvalidExport" -> <<m, {V("exported-invalid-span", e, m.cfg.kinds[e.c])}>>
    [] e.ev = "Fault" -> <<[m EXCEPT !.faulted = (@ \/ e.f # "none")], {}>>
    [] e.ev = "Panic" -> <<m, {V("panic", e, e.where)}>>
    [] e.ev = "Hung" -> <<m, {V("hung", e, e.where)}>>
    [] e.ev = "Crash" -> <<m, {V("crash", e, e.where)}>>
    [] e.ev = "EndScenario" ->
         <<m, IF e.quiescent
              THEN {V("unregister-without-shutdown", [op |-> "Unregister", c |-> c], m.cfg.kinds[c]) :
                       c \in {c \in Comps(m) : m.gone[c] /\ m.shut[c] = 0}}
                   \* "each ... exporter is shut down exactly once however often Shutdown is called": a stock component
                   \* that was shut down -- with whatever context and error -- has had its exporter shut down by the time
                   \* everything has returned, a settle window has passed and a last Shutdown(live) was made (the harness
                   \* ends every scenario that way). Asynchronous completion is fine; never happening is not. (Twice is
                   \* exporter-shutdown-twice.)
                   \cup {V("exporter-shutdown-never", [op |-> "Shutdown", c |-> c], m.cfg.kinds[c]) :
                           c \in {c \in Comps(m) : m.sdDone /\ HasExporter(m.cfg.kinds[c]) /\ m.shut[c] >= 1 /\ m.xshut[c] = 0}}
              ELSE {}>>
    [] OTHER -> <<m, {}>>
=============================================================================
