SPECIFICATION FairSpec
CONSTANTS
  Callers <- MCCallers
  InitProcs <- MCInit
  CodeShape = @CODESHAPE@
  AllowKnown = @ALLOWKNOWN@
INVARIANTS AtMostOnce RegisteredMeansAlive DeliveredWasRegistered Contract Statement Stuck
PROPERTY Termination
CHECK_DEADLOCK FALSE
