SPECIFICATION FairSpec
CONSTANTS
  Callers <- MCCallers
  InitProcs <- MCInit
  CodeShape = @CODESHAPE@
  AllowKnown = @ALLOWKNOWN@
  Reent <- MCReent
  PreCheck = @PRECHECK@
INVARIANTS AtMostOnce RegisteredMeansAlive DeliveredWasRegistered Contract Statement Stuck
PROPERTY Termination
CHECK_DEADLOCK FALSE
