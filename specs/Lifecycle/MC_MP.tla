------------------------------- MODULE MC_MP -------------------------------
EXTENDS MPLifecycle
MCQ == @Q@
MCKinds == @KINDS@
MCSCtxs == @SCTXS@
MCFCtxs == @FCTXS@
MCFaults == @FAULTS@
=============================================================================
