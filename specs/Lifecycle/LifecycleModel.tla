--------------------------- MODULE LifecycleModel ---------------------------
(* Pure reference model of the provider lifecycle (C15) for the three SDK     *)
(* providers.  Transcribed from the property statement and the public docs,   *)
(* not from the code:                                                         *)
(*   - ended spans / emitted records reach exactly the registered components; *)
(*   - unregistering a processor that is not registered changes nothing;      *)
(*   - every processor / reader / exporter is shut down exactly once;         *)
(*   - after Shutdown the provider hands out no-ops, nothing more is          *)
(*     exported, later calls are no-ops or return the documented error;       *)
(*   - no call panics, crashes or hangs (the harness reports those as a state *)
(*     outside the model).                                                    *)
(* Where the statement is silent (calls made with an already-cancelled        *)
(* context, the error of a repeated MeterProvider.Shutdown ...) the model is  *)
(* a RELATION: XSucc(K, st, op) is the SET of admissible successor states, so *)
(* that a correct implementation may take any of them.                        *)
(*                                                                            *)
(* K maps a component id to its kind:                                         *)
(*   processors (trace, log): "rec" (user processor), "simple", "batch"       *)
(*       (stock processor around a recording exporter), "simplenil",          *)
(*       "batchnil" (stock processor around a nil exporter)                   *)
(*   readers (metric): "manual", "periodic" (around a recording exporter)     *)
EXTENDS Naturals, Sequences, FiniteSets

SeqToSet(s) == {s[i] : i \in 1..Len(s)}
Without(s, x) == SelectSeq(s, LAMBDA y : y # x)
NoOut == [err |-> "", noop |-> FALSE, val |-> 0]
HasExp(k) == k \in {"simple", "batch", "periodic"}
ErrAlts(S, E) == {[s EXCEPT !.out.err = e] : s \in S, e \in E}

(* ---------------------------------------------------------------- processors *)
(* fields: sd (Shutdown calls seen by the processor), xsd (by its exporter),  *)
(* beg/del (items seen by OnStart / OnEnd|OnEmit), exp (items handed to the   *)
(* exporter), pend (items queued inside a batch processor; not observable)    *)
ShutOne(K, st, p, flush) ==
  IF st.sd[p] > 0 THEN st
  ELSE [st EXCEPT !.sd[p] = 1,
                  !.xsd[p] = IF HasExp(K[p]) THEN 1 ELSE 0,
                  !.exp[p] = IF K[p] = "batch" /\ flush THEN @ \cup st.pend[p] ELSE @,
                  !.pend[p] = {}]
RECURSIVE ShutAll(_, _, _, _)
ShutAll(K, st, ps, flush) ==
  IF ps = <<>> THEN st ELSE ShutAll(K, ShutOne(K, st, Head(ps), flush), Tail(ps), flush)

DeliverOne(K, st, p, n) ==
  LET alive == st.sd[p] = 0 IN
  [st EXCEPT !.beg[p] = @ \cup {n}, !.del[p] = @ \cup {n},
             !.exp[p] = IF K[p] = "simple" /\ alive THEN @ \cup {n} ELSE @,
             !.pend[p] = IF K[p] = "batch" /\ alive THEN @ \cup {n} ELSE @]
RECURSIVE DeliverAll(_, _, _, _)
DeliverAll(K, st, ps, n) ==
  IF ps = <<>> THEN st ELSE DeliverAll(K, DeliverOne(K, st, Head(ps), n), Tail(ps), n)

FlushOne(K, st, p) ==
  IF K[p] = "batch" /\ st.sd[p] = 0
    THEN [st EXCEPT !.exp[p] = @ \cup st.pend[p], !.pend[p] = {}] ELSE st
RECURSIVE FlushAll(_, _, _)
FlushAll(K, st, ps) == IF ps = <<>> THEN st ELSE FlushAll(K, FlushOne(K, st, Head(ps)), Tail(ps))

(* ---------------------------------------------------------------- TracerProvider *)
TPEmpty(P, init) ==
  [procs |-> init, ever |-> SeqToSet(init), down |-> FALSE,
   sd |-> [p \in P |-> 0], xsd |-> [p \in P |-> 0],
   beg |-> [p \in P |-> {}], del |-> [p \in P |-> {}], exp |-> [p \in P |-> {}], pend |-> [p \in P |-> {}],
   n |-> 0, out |-> NoOut]

TPSucc(K, st, o) ==
  LET s0 == [st EXCEPT !.out = NoOut] IN
  CASE o.op = "Register" ->
         {IF st.down THEN s0 ELSE [s0 EXCEPT !.procs = Append(@, o.p), !.ever = @ \cup {o.p}]}
    [] o.op = "Unregister" ->
         IF o.p \notin SeqToSet(st.procs) THEN {s0}          \* not registered: changes nothing
         ELSE LET done == [ShutOne(K, s0, o.p, TRUE) EXCEPT !.procs = Without(@, o.p)] IN
              \* still registered although the provider is down: only after a Shutdown whose
              \* context was cancelled; the statement does not say which
              IF st.down THEN {s0, done} ELSE {done}
    [] o.op = "Shutdown" ->
         LET full(flush) == [ShutAll(K, s0, st.procs, flush) EXCEPT !.procs = <<>>, !.down = TRUE] IN
         IF o.ctx = "live" THEN {full(TRUE)}
         ELSE ErrAlts({full(TRUE), full(FALSE), [s0 EXCEPT !.down = TRUE]}, {"", "ctx"})
    [] o.op = "ForceFlush" ->
         IF o.ctx = "live" THEN {FlushAll(K, s0, st.procs)}
         ELSE ErrAlts({s0, FlushAll(K, s0, st.procs)}, {"", "ctx"})
    [] o.op = "Tracer" -> {[s0 EXCEPT !.out.noop = st.down]}
    [] o.op = "StartEnd" ->
         \* via = "old": a tracer obtained before any Shutdown; "new": obtained now
         LET n == st.n + 1
             targets == IF o.via = "new" /\ st.down THEN <<>> ELSE st.procs IN
         {[DeliverAll(K, s0, targets, n) EXCEPT !.n = n]}

TPOk(st) ==
  /\ \A p \in DOMAIN st.sd : st.sd[p] <= 1 /\ st.xsd[p] <= 1 /\ st.exp[p] \subseteq st.del[p]
  /\ \A p \in SeqToSet(st.procs) : st.sd[p] = 0        \* registered = alive
  /\ \A p \in st.ever \ SeqToSet(st.procs) : st.sd[p] = 1   \* left the provider = shut down once

(* ---------------------------------------------------------------- LoggerProvider *)
(* processors are fixed at construction (sequence Q)                           *)
LPEmpty(P) ==
  [down |-> FALSE, sd |-> [p \in P |-> 0], xsd |-> [p \in P |-> 0],
   beg |-> [p \in P |-> {}], del |-> [p \in P |-> {}], exp |-> [p \in P |-> {}], pend |-> [p \in P |-> {}],
   n |-> 0, out |-> NoOut]

LPSucc(K, Q, st, o) ==
  LET s0 == [st EXCEPT !.out = NoOut] IN
  CASE o.op = "Shutdown" ->
         LET full(flush) == [ShutAll(K, s0, Q, flush) EXCEPT !.down = TRUE] IN
         IF o.ctx = "live" THEN {full(TRUE)}
         ELSE ErrAlts({full(TRUE), full(FALSE), [s0 EXCEPT !.down = TRUE]}, {"", "ctx"})
    [] o.op = "ForceFlush" ->
         IF st.down THEN ErrAlts({s0}, IF o.ctx = "live" THEN {""} ELSE {"", "ctx"})
         ELSE IF o.ctx = "live" THEN {FlushAll(K, s0, Q)}
         ELSE ErrAlts({s0, FlushAll(K, s0, Q)}, {"", "ctx"})
    [] o.op = "Logger" -> {[s0 EXCEPT !.out.noop = st.down]}
    [] o.op = "Emit" ->
         \* after Shutdown: harmless no-op, nothing more is exported (deliveries to OnEmit after
         \* Shutdown are not constrained by the statement and are not part of the projection)
         LET n == st.n + 1 IN
         {[(IF st.down THEN s0 ELSE DeliverAll(K, s0, Q, n)) EXCEPT !.n = n]}

LPOk(st) == \A p \in DOMAIN st.sd : st.sd[p] <= 1 /\ st.xsd[p] <= 1 /\ st.exp[p] \subseteq st.del[p]

(* ---------------------------------------------------------------- MeterProvider *)
(* readers fixed at construction (sequence Q); total = sum added through SDK   *)
(* instruments while the provider was up; nexp[r] = Export calls seen by r's   *)
(* exporter, last[r] = the sum in its latest export                            *)
MPEmpty(R) ==
  [down |-> FALSE, sd |-> [r \in R |-> 0], xsd |-> [r \in R |-> 0],
   nexp |-> [r \in R |-> 0], last |-> [r \in R |-> 0], total |-> 0, out |-> NoOut]

MExport(K, st, r) == IF K[r] = "periodic" /\ st.sd[r] = 0
                       THEN [st EXCEPT !.nexp[r] = @ + 1, !.last[r] = st.total] ELSE st
RECURSIVE MExportAll(_, _, _)
MExportAll(K, st, rs) == IF rs = <<>> THEN st ELSE MExportAll(K, MExport(K, st, Head(rs)), Tail(rs))
MShutOne(K, st, r, flush) ==
  IF st.sd[r] > 0 THEN st
  ELSE LET s1 == IF flush THEN MExport(K, st, r) ELSE st IN
       [s1 EXCEPT !.sd[r] = 1, !.xsd[r] = IF HasExp(K[r]) THEN 1 ELSE 0]
RECURSIVE MShutAll(_, _, _, _)
MShutAll(K, st, rs, flush) ==
  IF rs = <<>> THEN st ELSE MShutAll(K, MShutOne(K, st, Head(rs), flush), Tail(rs), flush)

MPSucc(K, Q, st, o) ==
  LET s0 == [st EXCEPT !.out = NoOut] IN
  CASE o.op = "Shutdown" ->
         LET full(flush) == [MShutAll(K, s0, Q, flush) EXCEPT !.down = TRUE]
             AllShut == \A i \in 1..Len(Q) : st.sd[Q[i]] = 1 IN
         IF st.down /\ AllShut
           \* repeated call: harmless no-op or the documented ErrReaderShutdown
           THEN ErrAlts({s0}, {"", "reader-shutdown"} \cup (IF o.ctx = "live" THEN {} ELSE {"ctx"}))
         ELSE IF o.ctx = "live" THEN {full(TRUE)}
         ELSE ErrAlts({full(TRUE), full(FALSE), [s0 EXCEPT !.down = TRUE]}, {"", "ctx"})
    [] o.op = "ForceFlush" ->
         IF st.down THEN ErrAlts({s0}, {"", "reader-shutdown"} \cup (IF o.ctx = "live" THEN {} ELSE {"ctx"}))
         ELSE IF o.ctx = "live" THEN {MExportAll(K, s0, Q)}
         ELSE ErrAlts({s0, MExportAll(K, s0, Q)}, {"", "ctx"})
    [] o.op = "Meter" -> {[s0 EXCEPT !.out.noop = st.down]}
    [] o.op = "Add" ->
         \* via "old": instrument created before Shutdown; "new": meter + instrument obtained now
         {IF st.down THEN s0 ELSE [s0 EXCEPT !.total = @ + 1]}
    [] o.op = "Collect" ->
         IF st.sd[o.r] = 0 /\ ~st.down THEN {[s0 EXCEPT !.out.val = st.total]}
         ELSE IF st.sd[o.r] = 0 THEN ErrAlts({s0, [s0 EXCEPT !.out.val = st.total]}, {"", "reader-shutdown"})
         ELSE {[s0 EXCEPT !.out.err = "reader-shutdown"]}     \* documented: ErrReaderShutdown

MPOk(st) == \A r \in DOMAIN st.sd : st.sd[r] <= 1 /\ st.xsd[r] <= 1
=============================================================================
