--------------------------- MODULE LifecycleModel ---------------------------
(* Pure reference model of the provider lifecycle (C15) for the three SDK     *)
(* providers.  Transcribed from the property statement and the public docs,   *)
(* not from the code:                                                         *)
(*   - ended spans / emitted records reach exactly the registered components; *)
(*   - unregistering a processor that is not registered changes nothing;      *)
(*   - every processor / reader / exporter is shut down exactly once;         *)
(*   - after Shutdown the provider hands out no-ops, nothing more is          *)
(*     exported, later calls are no-ops or return the documented error;       *)
(*   - no call panics, crashes or hangs (the harness reports those as a state *)
(*     outside the model).                                                    *)
(* Where the statement is silent (calls made with an already-cancelled        *)
(* context, the error of a repeated MeterProvider.Shutdown ...) the model is  *)
(* a RELATION: XSucc(K, st, op) is the SET of admissible successor states, so *)
(* that a correct implementation may take any of them.                        *)
(*                                                                            *)
(* FAULTS.  st.fault is a switch of the environment (op "Fault"): while it is *)
(* on, the user-supplied components fail -- trace / log ("comp"): every        *)
(* processor's and exporter's Shutdown and ForceFlush return an error (after   *)
(* having done their part); metric: "callback" (an observable callback returns *)
(* an error in every collection), "producer" (an external Producer registered  *)
(* on every reader fails), "exporter" (Export / ForceFlush / Shutdown of the    *)
(* readers' exporters return errors).  The statement: whatever a component     *)
(* answers, every processor / reader / exporter is still shut down exactly     *)
(* once by a Shutdown with a live context, and later calls behave as after any *)
(* Shutdown.  Silent: which error the provider returns ("" or "fault"), and    *)
(* whether a flush / final collection that failed still exports (any subset).  *)
(*                                                                            *)
(* K maps a component id to its kind:                                         *)
(*   processors (trace, log): "rec" (user processor), "simple", "batch"       *)
(*       (stock processor around a recording exporter), "simplenil",          *)
(*       "batchnil" (stock processor around a nil exporter)                   *)
(*   readers (metric): "manual", "periodic" (around a recording exporter)     *)
EXTENDS Naturals, Sequences, FiniteSets

SeqToSet(s) == {s[i] : i \in 1..Len(s)}
Without(s, x) == SelectSeq(s, LAMBDA y : y # x)
NoOut == [err |-> "", noop |-> FALSE, val |-> 0]
HasExp(k) == k \in {"simple", "batch", "periodic"}
ErrAlts(S, E) == {[s EXCEPT !.out.err = e] : s \in S, e \in E}
FaultErr(st) == IF st.fault = "none" THEN {} ELSE {"fault"}

(* ---------------------------------------------------------------- processors *)
(* fields: sd (Shutdown calls seen by the processor), xsd (by its exporter),  *)
(* beg/del (items seen by OnStart / OnEnd|OnEmit), exp (items handed to the   *)
(* exporter), pend (items queued inside a batch processor; not observable)    *)
ShutOne(K, st, p, flush) ==
  IF st.sd[p] > 0 THEN st
  ELSE [st EXCEPT !.sd[p] = 1,
                  !.xsd[p] = IF HasExp(K[p]) THEN 1 ELSE 0,
                  !.exp[p] = IF K[p] = "batch" /\ flush THEN @ \cup st.pend[p] ELSE @,
                  !.pend[p] = {}]
RECURSIVE ShutAll(_, _, _, _)
ShutAll(K, st, ps, flush) ==
  IF ps = <<>> THEN st ELSE ShutAll(K, ShutOne(K, st, Head(ps), flush), Tail(ps), flush)

DeliverOne(K, st, p, n) ==
  LET alive == st.sd[p] = 0 IN
  [st EXCEPT !.beg[p] = @ \cup {n}, !.del[p] = @ \cup {n},
             !.exp[p] = IF K[p] = "simple" /\ alive THEN @ \cup {n} ELSE @,
             !.pend[p] = IF K[p] = "batch" /\ alive THEN @ \cup {n} ELSE @]
RECURSIVE DeliverAll(_, _, _, _)
DeliverAll(K, st, ps, n) ==
  IF ps = <<>> THEN st ELSE DeliverAll(K, DeliverOne(K, st, Head(ps), n), Tail(ps), n)

FlushOne(K, st, p) ==
  IF K[p] = "batch" /\ st.sd[p] = 0
    THEN [st EXCEPT !.exp[p] = @ \cup st.pend[p], !.pend[p] = {}] ELSE st
RECURSIVE FlushAll(_, _, _)
FlushAll(K, st, ps) == IF ps = <<>> THEN st ELSE FlushAll(K, FlushOne(K, st, Head(ps)), Tail(ps))
(* a flush that met a failing component: any subset of the processors was flushed *)
FlushAny(K, st, ps) == {FlushAll(K, st, SelectSeq(ps, LAMBDA p : p \in S)) : S \in SUBSET SeqToSet(ps)}

(* ---------------------------------------------------------------- TracerProvider *)
TPEmpty(P, init) ==
  [procs |-> init, ever |-> SeqToSet(init), down |-> FALSE,
   sd |-> [p \in P |-> 0], xsd |-> [p \in P |-> 0],
   beg |-> [p \in P |-> {}], del |-> [p \in P |-> {}], exp |-> [p \in P |-> {}], pend |-> [p \in P |-> {}],
   n |-> 0, fault |-> "none", out |-> NoOut]

TPSucc(K, st, o) ==
  LET s0 == [st EXCEPT !.out = NoOut] IN
  CASE o.op = "Fault" -> {[s0 EXCEPT !.fault = o.f]}
    [] o.op = "Register" ->
         {IF st.down THEN s0 ELSE [s0 EXCEPT !.procs = Append(@, o.p), !.ever = @ \cup {o.p}]}
    [] o.op = "Unregister" ->
         IF o.p \notin SeqToSet(st.procs) THEN {s0}          \* not registered: changes nothing
         ELSE LET done == [ShutOne(K, s0, o.p, TRUE) EXCEPT !.procs = Without(@, o.p)] IN
              \* still registered although the provider is down: only after a Shutdown whose
              \* context was cancelled; the statement does not say which
              IF st.down THEN {s0, done} ELSE {done}
    [] o.op = "Shutdown" ->
         LET full(flush) == [ShutAll(K, s0, st.procs, flush) EXCEPT !.procs = <<>>, !.down = TRUE] IN
         IF o.ctx = "live" THEN ErrAlts({full(TRUE)}, {""} \cup (IF st.procs = <<>> THEN {} ELSE FaultErr(st)))
         ELSE ErrAlts({full(TRUE), full(FALSE), [s0 EXCEPT !.down = TRUE]}, {"", "ctx"} \cup FaultErr(st))
    [] o.op = "ForceFlush" ->
         IF o.ctx = "live" /\ st.fault = "none" THEN {FlushAll(K, s0, st.procs)}
         ELSE IF o.ctx = "live" THEN ErrAlts(FlushAny(K, s0, st.procs), {""} \cup (IF st.procs = <<>> THEN {} ELSE {"fault"}))
         ELSE ErrAlts(IF st.fault = "none" THEN {s0, FlushAll(K, s0, st.procs)} ELSE FlushAny(K, s0, st.procs),
                      {"", "ctx"} \cup FaultErr(st))
    [] o.op = "Tracer" -> {[s0 EXCEPT !.out.noop = st.down]}
    [] o.op = "StartEnd" ->
         \* via = "old": a tracer obtained before any Shutdown; "new": obtained now
         LET n == st.n + 1
             targets == IF o.via = "new" /\ st.down THEN <<>> ELSE st.procs IN
         {[DeliverAll(K, s0, targets, n) EXCEPT !.n = n]}

TPOk(st) ==
  /\ \A p \in DOMAIN st.sd : st.sd[p] <= 1 /\ st.xsd[p] <= 1 /\ st.exp[p] \subseteq st.del[p]
  /\ \A p \in SeqToSet(st.procs) : st.sd[p] = 0        \* registered = alive
  /\ \A p \in st.ever \ SeqToSet(st.procs) : st.sd[p] = 1   \* left the provider = shut down once

(* ---------------------------------------------------------------- LoggerProvider *)
(* processors are fixed at construction (sequence Q)                           *)
LPEmpty(P) ==
  [down |-> FALSE, sd |-> [p \in P |-> 0], xsd |-> [p \in P |-> 0],
   beg |-> [p \in P |-> {}], del |-> [p \in P |-> {}], exp |-> [p \in P |-> {}], pend |-> [p \in P |-> {}],
   n |-> 0, fault |-> "none", out |-> NoOut]

LPSucc(K, Q, st, o) ==
  LET s0 == [st EXCEPT !.out = NoOut] IN
  CASE o.op = "Fault" -> {[s0 EXCEPT !.fault = o.f]}
    [] o.op = "Shutdown" ->
         LET full(flush) == [ShutAll(K, s0, Q, flush) EXCEPT !.down = TRUE]
             first == \E i \in 1..Len(Q) : st.sd[Q[i]] = 0 IN     \* some processor is shut down by this call
         IF o.ctx = "live" THEN ErrAlts({full(TRUE)}, {""} \cup (IF first THEN FaultErr(st) ELSE {}))
         ELSE ErrAlts({full(TRUE), full(FALSE), [s0 EXCEPT !.down = TRUE]}, {"", "ctx"} \cup FaultErr(st))
    [] o.op = "ForceFlush" ->
         IF st.down THEN ErrAlts({s0}, IF o.ctx = "live" THEN {""} ELSE {"", "ctx"})
         ELSE IF o.ctx = "live" /\ st.fault = "none" THEN {FlushAll(K, s0, Q)}
         ELSE IF o.ctx = "live" THEN ErrAlts(FlushAny(K, s0, Q), {"", "fault"})
         ELSE ErrAlts(IF st.fault = "none" THEN {s0, FlushAll(K, s0, Q)} ELSE FlushAny(K, s0, Q), {"", "ctx"} \cup FaultErr(st))
    [] o.op = "Logger" -> {[s0 EXCEPT !.out.noop = st.down]}
    [] o.op = "Emit" ->
         \* after Shutdown: harmless no-op, nothing more is exported (deliveries to OnEmit after
         \* Shutdown are not constrained by the statement and are not part of the projection)
         LET n == st.n + 1 IN
         {[(IF st.down THEN s0 ELSE DeliverAll(K, s0, Q, n)) EXCEPT !.n = n]}

LPOk(st) == \A p \in DOMAIN st.sd : st.sd[p] <= 1 /\ st.xsd[p] <= 1 /\ st.exp[p] \subseteq st.del[p]

(* ---------------------------------------------------------------- MeterProvider *)
(* readers fixed at construction (sequence Q); total = sum added through SDK   *)
(* instruments while the provider was up; nexp[r] = Export calls seen by r's   *)
(* exporter, last[r] = the sum in its latest export                            *)
MPEmpty(R) ==
  [down |-> FALSE, sd |-> [r \in R |-> 0], xsd |-> [r \in R |-> 0],
   nexp |-> [r \in R |-> 0], last |-> [r \in R |-> 0], total |-> 0, fault |-> "none", out |-> NoOut]

MExport(K, st, r) == IF K[r] = "periodic" /\ st.sd[r] = 0
                       THEN [st EXCEPT !.nexp[r] = @ + 1, !.last[r] = st.total] ELSE st
RECURSIVE MExportAll(_, _, _)
MExportAll(K, st, rs) == IF rs = <<>> THEN st ELSE MExportAll(K, MExport(K, st, Head(rs)), Tail(rs))
MShutOne(K, st, r, flush) ==
  IF st.sd[r] > 0 THEN st
  ELSE LET s1 == IF flush THEN MExport(K, st, r) ELSE st IN
       [s1 EXCEPT !.sd[r] = 1, !.xsd[r] = IF HasExp(K[r]) THEN 1 ELSE 0]
RECURSIVE MShutAll(_, _, _, _)
MShutAll(K, st, rs, flush) ==
  IF rs = <<>> THEN st ELSE MShutAll(K, MShutOne(K, st, Head(rs), flush), Tail(rs), flush)
(* a collection that meets a fault: whether the reader still hands (partial) data to its exporter is not *)
(* constrained -- any subset S of the readers exports; the shutting down itself is not negotiable        *)
RECURSIVE MShutSome(_, _, _, _)
MShutSome(K, st, rs, S) ==
  IF rs = <<>> THEN st ELSE MShutSome(K, MShutOne(K, st, Head(rs), Head(rs) \in S), Tail(rs), S)
MExportAny(K, st, rs) == {MExportAll(K, st, SelectSeq(rs, LAMBDA r : r \in S)) : S \in SUBSET SeqToSet(rs)}

MPSucc(K, Q, st, o) ==
  LET s0 == [st EXCEPT !.out = NoOut] IN
  CASE o.op = "Fault" -> {[s0 EXCEPT !.fault = o.f]}
    [] o.op = "Shutdown" ->
         LET full(flush) == [MShutAll(K, s0, Q, flush) EXCEPT !.down = TRUE]
             some == {[MShutSome(K, s0, Q, S) EXCEPT !.down = TRUE] : S \in SUBSET SeqToSet(Q)}
             AllShut == \A i \in 1..Len(Q) : st.sd[Q[i]] = 1 IN
         IF st.down /\ AllShut
           \* repeated call: harmless no-op or the documented ErrReaderShutdown
           THEN ErrAlts({s0}, {"", "reader-shutdown"} \cup (IF o.ctx = "live" THEN {} ELSE {"ctx"}))
         ELSE IF o.ctx = "live" /\ st.fault = "none" THEN {full(TRUE)}
         \* a fault in the final collection / in the exporter: every reader and exporter is shut down all the same
         ELSE IF o.ctx = "live" THEN ErrAlts(some, {"", "fault"})
         \* a ctx that is already done: each reader on its own may or may not get its final collection exported
         ELSE ErrAlts({full(TRUE), full(FALSE), [s0 EXCEPT !.down = TRUE]} \cup some, {"", "ctx"} \cup FaultErr(st))
    [] o.op = "ForceFlush" ->
         IF st.down THEN ErrAlts({s0}, {"", "reader-shutdown"} \cup (IF o.ctx = "live" THEN {} ELSE {"ctx"}))
         ELSE IF o.ctx = "live" /\ st.fault = "none" THEN {MExportAll(K, s0, Q)}
         ELSE IF o.ctx = "live" THEN ErrAlts(MExportAny(K, s0, Q), {"", "fault"})
         \* a ctx that is already done: every periodic reader's ForceFlush races its own run loop (Go select between the
         \* flush hand-over and ctx.Done), so ANY subset of the readers exports -- independently of each other
         ELSE ErrAlts(MExportAny(K, s0, Q), {"", "ctx"} \cup FaultErr(st))
    [] o.op = "Meter" -> {[s0 EXCEPT !.out.noop = st.down]}
    [] o.op = "Add" ->
         \* via "old": instrument created before Shutdown; "new": meter + instrument obtained now
         {IF st.down THEN s0 ELSE [s0 EXCEPT !.total = @ + 1]}
    [] o.op = "Collect" ->
         \* a failing callback / producer: Collect reports it; the data it returns next to the error is not constrained
         IF st.sd[o.r] = 0 /\ ~st.down /\ st.fault \in {"callback", "producer"}
           THEN {[s0 EXCEPT !.out.err = "fault", !.out.val = v] : v \in {0, st.total}}
         ELSE IF st.sd[o.r] = 0 /\ ~st.down THEN {[s0 EXCEPT !.out.val = st.total]}
         ELSE IF st.sd[o.r] = 0 THEN ErrAlts({s0, [s0 EXCEPT !.out.val = st.total]}, {"", "reader-shutdown"} \cup FaultErr(st))
         ELSE {[s0 EXCEPT !.out.err = "reader-shutdown"]}     \* documented: ErrReaderShutdown

MPOk(st) == \A r \in DOMAIN st.sd : st.sd[r] <= 1 /\ st.xsd[r] <= 1
(* whatever its components answer: a component that has been shut down has had its exporter shut down *)
ExporterShutWith(K, st) == \A c \in DOMAIN st.sd : st.sd[c] = 1 => st.xsd[c] = (IF HasExp(K[c]) THEN 1 ELSE 0)
=============================================================================
