---------------------------- MODULE TPLifecycle ----------------------------
(* Explorer over LifecycleModel!TPSucc for the trace SDK TracerProvider (C15). *)
(* TLC enumerates every call sequence up to MaxSteps over                      *)
(*   Register(p) (each processor at most once), Unregister(p) for EVERY p      *)
(*   (registered, never registered, already removed), Shutdown(ctx),           *)
(*   ForceFlush(ctx), Tracer(), StartEnd(via old|new tracer)                   *)
(* and prints every edge; harness/c15 replays each edge on a real              *)
(* TracerProvider and compares the projection of the real state.               *)
EXTENDS LifecycleModel, TLC, Json

CONSTANTS P,          \* processor ids
          Kinds,      \* id -> kind
          InitProcs,  \* processors passed to NewTracerProvider (sequence)
          SCtxs,      \* context kinds used for Shutdown  ("live", "cancelled")
          FCtxs,      \* context kinds used for ForceFlush
          MaxSteps, MaxSpans,
          Faults      \* fault modes the environment may switch to ({} = never a fault), see LifecycleModel

VARIABLES st, steps, act
vars == <<st, steps, act>>

OpSet(s) ==
  {[op |-> "Register", p |-> p] : p \in P \ s.ever}
  \cup {[op |-> "Unregister", p |-> p] : p \in P}
  \cup {[op |-> "Shutdown", ctx |-> c] : c \in SCtxs}
  \cup {[op |-> "ForceFlush", ctx |-> c] : c \in FCtxs}
  \cup {[op |-> "Tracer"]}
  \cup {[op |-> "Fault", f |-> f] : f \in (Faults \cup (IF Faults = {} THEN {} ELSE {"none"})) \ {s.fault}}
  \cup (IF s.n < MaxSpans THEN {[op |-> "StartEnd", via |-> v] : v \in {"old", "new"}} ELSE {})

Init == st = TPEmpty(P, InitProcs) /\ steps = 0 /\ act = [op |-> "Init"]
Next == /\ steps < MaxSteps
        /\ \E o \in OpSet(st) : \E s2 \in TPSucc(Kinds, st, o) :
              st' = s2 /\ act' = o /\ steps' = steps + 1
Spec == Init /\ [][Next]_vars

View == <<st, steps>>
EmitEdge == PrintT("EDGE " \o ToJson([from |-> st, act |-> act', to |-> st']))

(* the statement, on the model *)
Inv == TPOk(st) /\ ExporterShutWith(Kinds, st)
UnknownUnregisterIsStutter ==
  [][(act'.op = "Unregister" /\ act'.p \notin SeqToSet(st.procs)) =>
        [st' EXCEPT !.out = NoOut] = [st EXCEPT !.out = NoOut]]_vars
NothingAfterLiveShutdown ==
  [][(st.down /\ st.procs = <<>>) =>
        (st'.procs = <<>> /\ st'.sd = st.sd /\ st'.xsd = st.xsd /\ st'.exp = st.exp /\ st'.del = st.del)]_vars
LiveShutdownCompletes ==
  [][(act'.op = "Shutdown" /\ act'.ctx = "live") =>
        (st'.down /\ st'.procs = <<>> /\ \A p \in st'.ever : st'.sd[p] = 1)]_vars
ExactMembership ==
  [][(act'.op = "StartEnd" /\ ~(act'.via = "new" /\ st.down)) =>
        \A p \in P : (st'.n \in st'.del[p]) = (p \in SeqToSet(st.procs))]_vars
=============================================================================
