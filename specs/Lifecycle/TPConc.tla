------------------------------- MODULE TPConc -------------------------------
(* Implementation-shaped specification of the concurrent callers of the trace *)
(* SDK TracerProvider (C15): one action per critical section / linearization  *)
(* point of sdk/trace/provider.go.                                            *)
(*   Shutdown   : isShutdown pre-check | lock | CAS | per processor once.Do   *)
(*                (one step each) | store empty list, unlock                  *)
(*   Unregister : pre-check | lock | re-check, locate, once.Do, splice, store,*)
(*                unlock (one step: nobody can observe the inside, End reads   *)
(*                the list pointer atomically)                                *)
(*   Register   : pre-check | lock | re-check, append, store, unlock          *)
(*   End        : load the list pointer (snapshot) | deliver to the snapshot  *)
(* Monitor variables carry the statement: every processor that ever entered   *)
(* the list is shut down at most once, and exactly once after it left the     *)
(* list / after a Shutdown has returned; nobody blocks forever.               *)
(* Known deviation of the code (known_findings/C15.json), admitted only when  *)
(* AllowKnown: D5 = Unregister of a processor that is not in the list removes *)
(* the first processor without shutting it down (idx stays 0).                *)
(* RE-ENTRANT processors (Reent): a processor whose Shutdown callback calls    *)
(* back into the provider (Tracer / Register / Unregister / Shutdown) on the   *)
(* caller's goroutine, i.e. while that caller holds p.mu (sync.Mutex is not    *)
(* re-entrant).  The inner call starts with the lock-free isShutdown pre-check *)
(* (PreCheck; FALSE = the shape of the seeded change that removed it from      *)
(* Register / Unregister) and otherwise needs the mutex its own caller holds:  *)
(* it never gets it -- `Stuck`.  Under Shutdown the flag is already set, so    *)
(* the pre-check answers; under Unregister it is not (known finding            *)
(* C15-unregister-runs-processor-shutdown-under-provider-lock = C10-D4).       *)
(* The inner call's own effect on the list is not modelled (deadlock only).    *)
EXTENDS Naturals, Sequences, FiniteSets, TLC

CONSTANTS Callers,     \* caller id -> [op |-> "Shutdown"] | [op |-> "Unregister", p |-> ..] | [op |-> "Register", p |-> ..] | [op |-> "End"]
          InitProcs,   \* sequence of processors registered at construction
          CodeShape,   \* TRUE: Unregister behaves like the code (D5); FALSE: like the statement
          AllowKnown,
          Reent,       \* processor -> "none" | "Tracer" | "Register" | "Unregister" | "Shutdown": call made from its Shutdown
          PreCheck     \* TRUE: Register / Unregister begin with the lock-free isShutdown pre-check (the code)

VARIABLES list, isShutdown, mu, once, sd, pc, idx, snap, mon,
          back         \* caller -> <<re-entrant call of the processor it is shutting down, where it continues afterwards>>
vars == <<list, isShutdown, mu, once, sd, pc, idx, snap, mon, back>>

C == DOMAIN Callers
AllP == {InitProcs[i] : i \in 1..Len(InitProcs)} \cup {Callers[c].p : c \in {c \in C : Callers[c].op \in {"Register", "Unregister"}}}
SeqToSet(s) == {s[i] : i \in 1..Len(s)}
RemoveAt(s, i) == [j \in 1..(Len(s) - 1) |-> IF j < i THEN s[j] ELSE s[j + 1]]
LastIndex(s, p) == IF \E i \in 1..Len(s) : s[i] = p THEN CHOOSE i \in 1..Len(s) : s[i] = p /\ \A j \in (i + 1)..Len(s) : s[j] # p ELSE 0

Init == /\ list = InitProcs /\ isShutdown = FALSE /\ mu = "none" /\ once = {}
        /\ sd = [p \in AllP |-> 0] /\ pc = [c \in C |-> "start"] /\ idx = [c \in C |-> 1]
        /\ snap = [c \in C |-> <<>>] /\ back = [c \in C |-> <<"none", "none">>]
        /\ mon = [everIn |-> SeqToSet(InitProcs), sdReturned |-> FALSE, delivered |-> [c \in C |-> {}], bad |-> {}]

Go(c, l) == pc' = [pc EXCEPT ![c] = l]
Locked(c) == Callers[c].op \in {"Shutdown", "Unregister", "Register"}

Pre(c) == /\ pc[c] = "start" /\ Locked(c)
          /\ Go(c, IF isShutdown THEN "ret" ELSE "lock")
          /\ UNCHANGED <<list, isShutdown, mu, once, sd, idx, snap, mon, back>>
Lock(c) == /\ pc[c] = "lock" /\ mu = "none" /\ mu' = c /\ Go(c, "body")
           /\ UNCHANGED <<list, isShutdown, once, sd, idx, snap, mon, back>>

(* ---- re-entrant call made by processor p's Shutdown on caller c's goroutine *)
RE(p) == IF p \in DOMAIN Reent THEN Reent[p] ELSE "none"
HasPre(call) == call \in {"Shutdown", "Tracer"} \/ (call \in {"Register", "Unregister"} /\ PreCheck)
Inner(c) == /\ pc[c] = "inner"
            /\ IF HasPre(back[c][1]) /\ isShutdown
                 THEN Go(c, back[c][2])                  \* the pre-check answers without the mutex
                 ELSE Go(c, "innerlock")
            /\ UNCHANGED <<list, isShutdown, mu, once, sd, idx, snap, mon, back>>
InnerLock(c) == /\ pc[c] = "innerlock" /\ mu = "none"   \* never while c itself holds the mutex
                /\ Go(c, back[c][2])                     \* (lock, re-check, unlock: no effect modelled)
                /\ UNCHANGED <<list, isShutdown, mu, once, sd, idx, snap, mon, back>>
URel(c) == /\ pc[c] = "urel" /\ mu' = "none" /\ Go(c, "ret")
           /\ UNCHANGED <<list, isShutdown, once, sd, idx, snap, mon, back>>

(* ---- Shutdown *)
SCas(c) == /\ pc[c] = "body" /\ Callers[c].op = "Shutdown"
           /\ IF isShutdown THEN (mu' = "none" /\ Go(c, "ret") /\ UNCHANGED isShutdown)
                            ELSE (isShutdown' = TRUE /\ Go(c, "loop") /\ UNCHANGED mu)
           /\ UNCHANGED <<list, once, sd, idx, snap, mon, back>>
SLoop(c) == /\ pc[c] = "loop"
            /\ IF idx[c] <= Len(list)
                 THEN LET p == list[idx[c]] IN
                      /\ once' = once \cup {p}
                      /\ sd' = IF p \in once THEN sd ELSE [sd EXCEPT ![p] = @ + 1]
                      /\ idx' = [idx EXCEPT ![c] = @ + 1]
                      /\ IF p \notin once /\ RE(p) # "none"
                           THEN (Go(c, "inner") /\ back' = [back EXCEPT ![c] = <<RE(p), "loop">>])
                           ELSE UNCHANGED <<pc, back>>
                      /\ UNCHANGED <<list, mu>>
                 ELSE /\ list' = <<>> /\ mu' = "none" /\ Go(c, "ret")
                      /\ UNCHANGED <<once, sd, idx, back>>
            /\ UNCHANGED <<isShutdown, snap, mon>>

(* ---- Unregister *)
UBody(c) == /\ pc[c] = "body" /\ Callers[c].op = "Unregister"
            /\ LET p == Callers[c].p
                   i == LastIndex(list, p) IN
               IF isShutdown \/ list = <<>> THEN UNCHANGED <<list, once, sd, mon>>
               ELSE IF i # 0
                 THEN /\ once' = once \cup {p}
                      /\ sd' = IF p \in once THEN sd ELSE [sd EXCEPT ![p] = @ + 1]
                      /\ list' = RemoveAt(list, i) /\ UNCHANGED mon
               ELSE IF CodeShape
                 THEN /\ list' = RemoveAt(list, 1)      \* D5: idx stays 0, the first processor is spliced out
                      /\ mon' = [mon EXCEPT !.bad = @ \cup {"D5-unknown-unregister-removes-first"}]
                      /\ UNCHANGED <<once, sd>>
               ELSE UNCHANGED <<list, once, sd, mon>>
            /\ LET p == Callers[c].p IN
               IF ~isShutdown /\ LastIndex(list, p) # 0 /\ p \notin once /\ RE(p) # "none"
                 THEN (Go(c, "inner") /\ back' = [back EXCEPT ![c] = <<RE(p), "urel">>] /\ UNCHANGED mu)   \* sp.Shutdown under p.mu
                 ELSE (mu' = "none" /\ Go(c, "ret") /\ UNCHANGED back)
            /\ UNCHANGED <<isShutdown, idx, snap>>

(* ---- Register *)
RBody(c) == /\ pc[c] = "body" /\ Callers[c].op = "Register"
            /\ IF isShutdown THEN UNCHANGED <<list, mon>>
               ELSE /\ list' = Append(list, Callers[c].p)
                    /\ mon' = [mon EXCEPT !.everIn = @ \cup {Callers[c].p}]
            /\ mu' = "none" /\ Go(c, "ret")
            /\ UNCHANGED <<isShutdown, once, sd, idx, snap, back>>

(* ---- End (lock free) *)
ELoad(c) == /\ pc[c] = "start" /\ Callers[c].op = "End"
            /\ snap' = [snap EXCEPT ![c] = list] /\ Go(c, "deliver")
            /\ UNCHANGED <<list, isShutdown, mu, once, sd, idx, mon, back>>
EDeliver(c) == /\ pc[c] = "deliver"
               /\ mon' = [mon EXCEPT !.delivered[c] = SeqToSet(snap[c])] /\ Go(c, "ret")
               /\ UNCHANGED <<list, isShutdown, mu, once, sd, idx, snap, back>>

Ret(c) == /\ pc[c] = "ret" /\ Go(c, "done")
          /\ mon' = [mon EXCEPT !.sdReturned = (@ \/ (Callers[c].op = "Shutdown" /\ \A o \in C \ {c} :
                                                        Callers[o].op = "Shutdown" => pc[o] \in {"start", "done"}))]
          /\ UNCHANGED <<list, isShutdown, mu, once, sd, idx, snap, back>>

APre == \E c \in C : Pre(c)
ALock == \E c \in C : Lock(c)
ASCas == \E c \in C : SCas(c)
ASLoop == \E c \in C : SLoop(c)
AUBody == \E c \in C : UBody(c)
ARBody == \E c \in C : RBody(c)
AELoad == \E c \in C : ELoad(c)
AEDeliver == \E c \in C : EDeliver(c)
ARet == \E c \in C : Ret(c)
AInner == \E c \in C : Inner(c) \/ InnerLock(c) \/ URel(c)
Next == AInner \/ APre \/ ALock \/ ASCas \/ ASLoop \/ AUBody \/ ARBody \/ AELoad \/ AEDeliver \/ ARet
Spec == Init /\ [][Next]_vars
FairSpec == Spec /\ \A c \in C : WF_vars(Inner(c) \/ InnerLock(c) \/ URel(c) \/ Pre(c) \/ Lock(c) \/ SCas(c) \/ SLoop(c) \/ UBody(c) \/ RBody(c) \/ ELoad(c) \/ EDeliver(c) \/ Ret(c))

(* ---- the statement *)
AtMostOnce == \A p \in AllP : sd[p] <= 1
(* a processor that left the list was shut down, unless a Shutdown is still running *)
LeftMeansShut == (mu = "none") => \A p \in mon.everIn \ SeqToSet(list) : sd[p] = 1
RegisteredMeansAlive == (mu = "none" /\ ~isShutdown) => \A p \in SeqToSet(list) : sd[p] = 0
AfterShutdown == mon.sdReturned => (list = <<>> /\ \A p \in mon.everIn : sd[p] = 1)
DeliveredWasRegistered == \A c \in C : mon.delivered[c] \subseteq mon.everIn
Contract == mon.bad \subseteq (IF AllowKnown THEN {"D5-unknown-unregister-removes-first"} ELSE {})
(* with the deviation admitted its consequences are admitted too *)
Statement == (mon.bad = {}) => (LeftMeansShut /\ AfterShutdown)
AllDone == \A c \in C : pc[c] = "done"
Stuck == (~ENABLED Next) => AllDone
Termination == \A c \in C : (pc[c] # "start") ~> (pc[c] = "done")
=============================================================================
