----------------------------- MODULE MC_TPConc -----------------------------
EXTENDS TPConc
MCCallers == @CALLERS@
MCInit == @INIT@
MCReent == @REENT@
=============================================================================
