SPECIFICATION Spec
CONSTANTS
  Q <- MCQ
  Kinds <- MCKinds
  SCtxs <- MCSCtxs
  FCtxs <- MCFCtxs
  Faults <- MCFaults
  MaxSteps = @MAXSTEPS@
  MaxItems = @MAXITEMS@
VIEW View
ACTION_CONSTRAINT EmitEdge
INVARIANT Inv
PROPERTIES NothingExportedAfterShutdown LiveShutdownCompletes CollectAfterShutdownIsDocumentedError
CHECK_DEADLOCK FALSE
