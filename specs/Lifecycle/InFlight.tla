------------------------------ MODULE InFlight ------------------------------
(* WORK IN FLIGHT inside a stock component when its Shutdown arrives (C15).     *)
(*                                                                              *)
(* A stock component with an exporter has a WORKER of its own: the run loop of  *)
(* the PeriodicReader (interval collection: collecting -> exporting), the       *)
(* worker of the batch span processor, the poll / buffer goroutines of the log  *)
(* BatchProcessor; for the simple processors the "worker" is the End / Emit     *)
(* call that is exporting.  Shutdown may arrive, with any context -- live,      *)
(* already cancelled, expiring -- while the worker is in the middle of a        *)
(* collection or an export (user-supplied callbacks, Producers and exporters    *)
(* may take arbitrarily long: they are the natural gates of the harness).       *)
(*                                                                              *)
(* The statement: "each ... exporter is shut down exactly once" and "after      *)
(* Shutdown has returned ... nothing more is exported", for every context.      *)
(* A Shutdown whose context is done MAY return early (that is what the context  *)
(* is for); what it must not do is shut the exporter down while work that will  *)
(* still END IN AN EXPORT is in flight: Shutdown's obligation is to WAIT for    *)
(* the work in flight, or to CANCEL it (so that it no longer exports), BEFORE   *)
(* the exporter is shut down -- synchronously or from a goroutine it leaves     *)
(* behind.  NoLateExport: no Export begins after the exporter's Shutdown was    *)
(* called.  The same clause is judged on every recorded execution by            *)
(* LifecycleContract (export-after-exporter-shutdown).                          *)
(*                                                                              *)
(* Shape = "wait": the component as documented (the closer waits for the        *)
(* worker to exit).  Shape = "ctx-bounded": the wait for the worker is given up *)
(* when the context is done and the exporter is shut down all the same (the     *)
(* shape of a seeded change: "honor the caller's deadline") -- NoLateExport     *)
(* must FAIL there (model-level regression; checks/c15.py).                     *)
EXTENDS Naturals, Sequences, FiniteSets, TLC, Json

CONSTANT Shape          \* "wait" | "ctx-bounded"

Kinds == {"periodic", "batch", "simple"}
Ctxs == {"live", "done"}          \* done = already cancelled, or expiring while Shutdown waits

VARIABLES kind, ctx,    \* the configuration (chosen in Init: one TLC run covers the family)
          wpc,          \* worker: "idle" | "collecting" | "exporting" | "draining" | "exited"
          stop,         \* the worker was told to stop (run ctx cancelled / stopCh closed)
          queued,       \* telemetry queued behind the work in flight (batch kinds: 0..1)
          spc,          \* Shutdown caller: "none" | "waiting" | "returned"
          cpc,          \* closer (the part of Shutdown that shuts the exporter down; it may outlive the call when
                        \* the context is done): "none" | "waiting" | "final" | "done"
          xsd,          \* Shutdown calls the exporter has seen
          late          \* an Export began after the exporter's Shutdown was called
vars == <<kind, ctx, wpc, stop, queued, spc, cpc, xsd, late>>

Init == /\ kind \in Kinds /\ ctx \in Ctxs
        /\ wpc = "idle" /\ stop = FALSE /\ queued \in {0, 1} /\ spc = "none" /\ cpc = "none" /\ xsd = 0 /\ late = FALSE

HasCollection == kind = "periodic"
Export == late' = (late \/ xsd > 0)

(* ---- worker *)
Tick ==            \* interval tick / batch timeout / an End or Emit call reaching the simple processor
  /\ wpc = "idle" /\ ~stop
  /\ wpc' = (IF HasCollection THEN "collecting" ELSE "exporting")
  /\ (IF HasCollection THEN UNCHANGED late ELSE Export)
  /\ UNCHANGED <<kind, ctx, stop, queued, spc, cpc, xsd>>
Collected ==       \* the collection ends; under a cancelled run ctx it MAY be abandoned (callbacks re-check the
                   \* context) or go on to the export (external Producers do not)
  /\ wpc = "collecting"
  /\ \/ wpc' = "exporting" /\ Export
     \/ stop /\ wpc' = "idle" /\ UNCHANGED late
  /\ UNCHANGED <<kind, ctx, stop, queued, spc, cpc, xsd>>
Exported ==
  /\ wpc \in {"exporting", "draining"}
  /\ wpc' = (IF wpc = "draining" THEN "exited" ELSE "idle")
  /\ UNCHANGED <<kind, ctx, stop, queued, spc, cpc, xsd, late>>
WorkerStops ==     \* told to stop and idle: batch kinds export what is queued (drain), then exit
  /\ wpc = "idle" /\ stop
  /\ IF kind = "batch" /\ queued > 0
       THEN wpc' = "draining" /\ queued' = 0 /\ Export
       ELSE wpc' = "exited" /\ UNCHANGED <<queued, late>>
  /\ UNCHANGED <<kind, ctx, stop, spc, cpc, xsd>>

(* ---- Shutdown(ctx) *)
Call ==
  /\ spc = "none"
  /\ spc' = "waiting" /\ cpc' = "waiting" /\ stop' = TRUE
  /\ UNCHANGED <<kind, ctx, wpc, queued, xsd, late>>
CloserProceeds ==  \* the worker has exited -- or (ctx-bounded shape) the context is done
  /\ cpc = "waiting"
  /\ wpc = "exited" \/ (Shape = "ctx-bounded" /\ ctx = "done")
  /\ cpc' = "final"
  /\ UNCHANGED <<kind, ctx, wpc, stop, queued, spc, xsd, late>>
Final ==           \* periodic reader: Shutdown's own last collection + export, then the exporter's Shutdown
  /\ cpc = "final"
  /\ late' = (late \/ (HasCollection /\ xsd > 0))
  /\ xsd' = xsd + 1 /\ cpc' = "done"
  /\ UNCHANGED <<kind, ctx, wpc, stop, queued, spc>>
Return ==          \* the call returns when the closer is done -- or, its context being done, earlier
  /\ spc = "waiting"
  /\ cpc = "done" \/ ctx = "done"
  /\ spc' = "returned"
  /\ UNCHANGED <<kind, ctx, wpc, stop, queued, cpc, xsd, late>>

Next == Tick \/ Collected \/ Exported \/ WorkerStops \/ Call \/ CloserProceeds \/ Final \/ Return
Spec == Init /\ [][Next]_vars
FairSpec == Spec /\ WF_vars(Collected) /\ WF_vars(Exported) /\ WF_vars(WorkerStops) /\ WF_vars(Call)
                 /\ WF_vars(CloserProceeds) /\ WF_vars(Final) /\ WF_vars(Return)

NoLateExport == ~late
ExporterOnce == xsd <= 1
ShutAfterReturnLive == (spc = "returned" /\ ctx = "live") => xsd = 1
(* whatever the context: the call returns, and the exporter ends up shut down (exporter-shutdown-never) *)
Completes == <>(spc = "returned" /\ xsd = 1)

(* ---- the scenario family executed on the real components (`c15 inflight`): which user-supplied component holds the
   worker (natural gate), and the context Shutdown is given while it does *)
Cell(prov, k, gate, c) == [prov |-> prov, kind |-> k, gate |-> gate, ctx |-> c]
CtxKinds == {"live", "cancelled", "expiring"}
Cells == {Cell("metric", "periodic", g, c) : g \in {"callback", "producer", "exp.Export"}, c \in CtxKinds}
         \cup {Cell(p, k, "exp.Export", c) : p \in {"trace", "log"}, k \in {"batch", "simple"}, c \in CtxKinds}
Expect(c) == "no-export-after-exporter-shutdown"
ASSUME \A c \in Cells : PrintT("CELL " \o ToJson([cell |-> c, expect |-> Expect(c)]))
=============================================================================
