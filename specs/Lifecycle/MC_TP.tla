------------------------------- MODULE MC_TP -------------------------------
EXTENDS TPLifecycle
MCP == @P@
MCKinds == @KINDS@
MCInit == @INIT@
MCSCtxs == @SCTXS@
MCFCtxs == @FCTXS@
MCFaults == @FAULTS@
=============================================================================
