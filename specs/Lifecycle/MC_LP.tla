------------------------------- MODULE MC_LP -------------------------------
EXTENDS LPLifecycle
MCQ == @Q@
MCKinds == @KINDS@
MCSCtxs == @SCTXS@
MCFCtxs == @FCTXS@
MCFaults == @FAULTS@
=============================================================================
