SPECIFICATION FairSpec
CONSTANTS
  Shape = "@SHAPE@"
INVARIANTS NoLateExport ExporterOnce ShutAfterReturnLive
PROPERTY Completes
CHECK_DEADLOCK FALSE
