SPECIFICATION Spec
CONSTANTS
  P <- MCP
  Kinds <- MCKinds
  InitProcs <- MCInit
  SCtxs <- MCSCtxs
  FCtxs <- MCFCtxs
  Faults <- MCFaults
  MaxSteps = @MAXSTEPS@
  MaxSpans = @MAXSPANS@
VIEW View
ACTION_CONSTRAINT EmitEdge
INVARIANT Inv
PROPERTIES UnknownUnregisterIsStutter NothingAfterLiveShutdown LiveShutdownCompletes ExactMembership
CHECK_DEADLOCK FALSE
