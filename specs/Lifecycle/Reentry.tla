------------------------------ MODULE Reentry ------------------------------
(* Re-entrant components (C15): user-supplied processors, exporters, readers'   *)
(* exporters, observable callbacks and external Producers whose callback calls  *)
(* BACK into the provider that invoked it.  No concurrency is involved: the     *)
(* provider calls the component, the component calls the provider, on one       *)
(* goroutine (or on the SDK's own worker goroutine for exports).                *)
(*                                                                              *)
(* A cell = (provider, callback site, kind of the component, the API call that  *)
(* triggers the callback, the re-entrant call made from inside it).  TLC        *)
(* enumerates the matrix; harness/c15 (`c15 reent`) executes every cell on a     *)
(* real provider, records the nested Call/Ret and component events, and the     *)
(* trace is judged by LifecycleContract like any other execution.               *)
(*                                                                              *)
(* The statement: "No call in any such sequence panics, crashes the process or  *)
(* blocks forever".  So every cell RETURNS (Expect), and everything is still    *)
(* shut down exactly once.  The documentation supports the pattern explicitly   *)
(* (TracerProvider.Shutdown / Tracer: "prevents deadlocks in case of recursive  *)
(* shutdown", TestShutdownCallsTracerMethod).  Cells in which the re-entrant    *)
(* call, by its documented meaning, WAITS for the very activity it is made from *)
(* are not part of the matrix (ByDesign): ForceFlush / Shutdown "wait until all *)
(* telemetry is exported / all processors are shut down", so calling them from  *)
(* inside the export or the flush they wait for cannot return first.            *)
EXTENDS Naturals, Sequences, FiniteSets, TLC, Json

VARIABLE cell

Cell(prov, site, kind, trigger, call) == [prov |-> prov, site |-> site, kind |-> kind, trigger |-> trigger, call |-> call]
Cross(prov, sites, calls) == {Cell(prov, s[1], s[2], s[3], c) : s \in sites, c \in calls}

(* <<callback site, kind of the component it belongs to, triggering call>> *)
TraceSites == {<<"proc.Shutdown", "rec", "Shutdown">>, <<"proc.Shutdown", "rec", "Unregister">>,
               <<"proc.ForceFlush", "rec", "ForceFlush">>, <<"proc.OnStart", "rec", "StartEnd">>,
               <<"proc.OnEnd", "rec", "StartEnd">>,
               <<"exp.Export", "simple", "StartEnd">>, <<"exp.Export", "batch", "ForceFlush">>, <<"exp.Export", "batch", "Shutdown">>,
               <<"exp.Shutdown", "simple", "Shutdown">>, <<"exp.Shutdown", "simple", "Unregister">>,
               <<"exp.Shutdown", "batch", "Shutdown">>, <<"exp.Shutdown", "batch", "Unregister">>}
TraceCalls == {"Get", "Register", "UnregisterSelf", "UnregisterOther", "ForceFlush", "Shutdown", "StartEnd"}
LogSites == {<<"proc.Shutdown", "rec", "Shutdown">>, <<"proc.ForceFlush", "rec", "ForceFlush">>, <<"proc.OnEmit", "rec", "Emit">>,
             <<"exp.Export", "simple", "Emit">>, <<"exp.Export", "batch", "ForceFlush">>, <<"exp.Export", "batch", "Shutdown">>,
             <<"exp.Shutdown", "simple", "Shutdown">>, <<"exp.Shutdown", "batch", "Shutdown">>,
             <<"exp.ForceFlush", "batch", "ForceFlush">>}
LogCalls == {"Get", "ForceFlush", "Shutdown", "Emit"}
MetricSites == {<<"exp.Export", "periodic", "ForceFlush">>, <<"exp.Export", "periodic", "Shutdown">>,
                <<"exp.Shutdown", "periodic", "Shutdown">>, <<"exp.ForceFlush", "periodic", "ForceFlush">>,
                <<"callback", "manual", "Collect">>, <<"callback", "periodic", "ForceFlush">>, <<"callback", "periodic", "Shutdown">>,
                <<"producer", "manual", "Collect">>, <<"producer", "periodic", "ForceFlush">>, <<"producer", "periodic", "Shutdown">>}
MetricCalls == {"Get", "ForceFlush", "Shutdown", "Collect", "Add"}
(* TELEMETRY-PRODUCING re-entrant actions: the component's callback itself produces telemetry on the provider it     *)
(* belongs to, through a handle obtained EARLIER (a self-instrumented exporter: "closing the connection is traced"):  *)
(* starts and ends a span, emits a log record, records a measurement.  The item travels the ordinary path and reaches *)
(* the very component whose callback is running -- e.g. the OnEnd of the simple span processor whose Shutdown is       *)
(* waiting for its exporter's Shutdown.  Like every other cell it must RETURN (and the item, produced after the       *)
(* exporter's Shutdown was called, must not be exported: export-after-exporter-shutdown).                              *)
Telemetry == {"StartEnd", "Emit", "Add"}

Matrix == Cross("trace", TraceSites, TraceCalls) \cup Cross("log", LogSites, LogCalls) \cup Cross("metric", MetricSites, MetricCalls)

(* the re-entrant call waits, by its documented meaning, for the activity it is made from *)
InFlush(c) == c.site \in {"proc.ForceFlush", "exp.ForceFlush", "exp.Export", "callback", "producer"}
ByDesign(c) ==
  \/ c.call = "ForceFlush" /\ InFlush(c)                                  \* a flush from inside a flush / export / collection
  \/ c.call = "Shutdown" /\ InFlush(c)                                    \* Shutdown flushes first
  \/ c.call = "Collect" /\ c.site \in {"callback", "producer"}            \* a collection from inside a collection
  \/ c.call \in {"UnregisterSelf"} /\ c.site = "exp.Export"               \* Unregister shuts the processor down: waits for its export
  \* the simple processors hand every item to the exporter synchronously and never call Export concurrently (the
  \* exporter interfaces promise it): an item produced from inside that Export waits for the export it is produced from
  \/ c.call \in Telemetry /\ c.site = "exp.Export" /\ c.kind = "simple"

Cells == {c \in Matrix : ~ByDesign(c)}
Expect(c) == "returns"

Init == cell \in Cells /\ PrintT("CELL " \o ToJson([cell |-> cell, expect |-> Expect(cell)]))
Next == UNCHANGED cell
Spec == Init /\ [][Next]_cell
(* vacuity of the matrix itself *)
Covers == /\ \E c \in Cells : c.trigger = "Shutdown" /\ c.site = "proc.Shutdown" /\ c.call \in {"Register", "UnregisterSelf"}
          /\ \E c \in Cells : c.trigger = "Unregister" /\ c.site = "proc.Shutdown" /\ c.call = "Get"
          /\ \A k \in {"simple", "batch"} : \E c \in Cells : c.site = "exp.Shutdown" /\ c.kind = k /\ c.call = "StartEnd"
          /\ \E c \in Cells : c.prov = "log" /\ c.site = "exp.Shutdown" /\ c.call = "Emit"
          /\ \E c \in Cells : c.prov = "metric" /\ c.site = "exp.Shutdown" /\ c.call = "Add"
ASSUME Covers
=============================================================================
