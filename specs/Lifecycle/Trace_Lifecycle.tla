--------------------------- MODULE Trace_Lifecycle ---------------------------
(* code -> spec: every recorded line is one step of the contract monitor        *)
(* LifecycleContract.  A Cfg line starts a new scenario (fresh monitor); lines  *)
(* of an earlier, abandoned scenario (stragglers) are consumed and ignored.     *)
EXTENDS LifecycleContract, TraceKit, Integers
VARIABLES l, m, cur
vars == <<l, m, cur>>
NoCfg == [prov |-> "trace", kinds |-> [none |-> "rec"], init |-> <<>>]
Init == l = 1 /\ m = Fresh(NoCfg) /\ cur = -1
TStep == /\ l <= Len(Trace)
         /\ LET e == Trace[l] IN
            IF e.ev = "Cfg"
              THEN m' = Fresh([prov |-> e.prov, kinds |-> e.kinds, init |-> e.init]) /\ cur' = e.sc
              ELSE IF e.sc # cur
              THEN UNCHANGED <<m, cur>>
              ELSE LET r == Step(m, e) IN
                   /\ m' = r[1] /\ UNCHANGED cur
                   /\ \A v \in r[2] : Viol([line |-> l, sc |-> e.sc, v |-> v, prov |-> m.cfg.prov,
                                                unk |-> r[1].unk, canc |-> r[1].canc])
         /\ l' = l + 1
TDone == l = Len(Trace) + 1 /\ Accepted(l) /\ UNCHANGED vars
Next == TStep \/ TDone
Spec == Init /\ [][Next]_vars
=============================================================================
