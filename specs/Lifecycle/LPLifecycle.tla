---------------------------- MODULE LPLifecycle ----------------------------
(* Explorer over LifecycleModel!LPSucc for the log SDK LoggerProvider (C15).   *)
(* Processors are fixed at construction; calls: Shutdown(ctx), ForceFlush(ctx),*)
(* Logger(), Emit(via a logger obtained before Shutdown | obtained now).       *)
EXTENDS LifecycleModel, TLC, Json

CONSTANTS Q,          \* processors in registration order (sequence of ids)
          Kinds, SCtxs, FCtxs, MaxSteps, MaxItems,
          Faults      \* fault modes the environment may switch to ({} = never a fault), see LifecycleModel

VARIABLES st, steps, act
vars == <<st, steps, act>>

OpSet(s) ==
  {[op |-> "Shutdown", ctx |-> c] : c \in SCtxs}
  \cup {[op |-> "ForceFlush", ctx |-> c] : c \in FCtxs}
  \cup {[op |-> "Logger"]}
  \cup {[op |-> "Fault", f |-> f] : f \in (Faults \cup (IF Faults = {} THEN {} ELSE {"none"})) \ {s.fault}}
  \cup (IF s.n < MaxItems THEN {[op |-> "Emit", via |-> v] : v \in {"old", "new"}} ELSE {})

Init == st = LPEmpty(SeqToSet(Q)) /\ steps = 0 /\ act = [op |-> "Init"]
Next == /\ steps < MaxSteps
        /\ \E o \in OpSet(st) : \E s2 \in LPSucc(Kinds, Q, st, o) :
              st' = s2 /\ act' = o /\ steps' = steps + 1
Spec == Init /\ [][Next]_vars
View == <<st, steps>>
EmitEdge == PrintT("EDGE " \o ToJson([from |-> st, act |-> act', to |-> st']))

Inv == LPOk(st) /\ ExporterShutWith(Kinds, st)
NothingExportedAfterShutdown ==
  [][(st.down /\ \A p \in SeqToSet(Q) : st.sd[p] = 1) =>
        (st'.exp = st.exp /\ st'.sd = st.sd /\ st'.xsd = st.xsd)]_vars
LiveShutdownCompletes ==
  [][(act'.op = "Shutdown" /\ act'.ctx = "live") => (st'.down /\ \A p \in SeqToSet(Q) : st'.sd[p] = 1)]_vars
=============================================================================
