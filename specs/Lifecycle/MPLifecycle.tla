---------------------------- MODULE MPLifecycle ----------------------------
(* Explorer over LifecycleModel!MPSucc for the metric SDK MeterProvider (C15). *)
(* Readers are fixed at construction; calls: Shutdown(ctx), ForceFlush(ctx),   *)
(* Meter(), Add(via an instrument created before Shutdown | created now),      *)
(* Collect(r) on every reader.                                                 *)
EXTENDS LifecycleModel, TLC, Json

CONSTANTS Q,          \* readers in registration order (sequence of ids)
          Kinds, SCtxs, FCtxs, MaxSteps, MaxItems,
          Faults      \* fault modes the environment may switch to ({} = never a fault), see LifecycleModel

VARIABLES st, steps, act
vars == <<st, steps, act>>

OpSet(s) ==
  {[op |-> "Shutdown", ctx |-> c] : c \in SCtxs}
  \cup {[op |-> "ForceFlush", ctx |-> c] : c \in FCtxs}
  \cup {[op |-> "Meter"]}
  \cup {[op |-> "Fault", f |-> f] : f \in (Faults \cup (IF Faults = {} THEN {} ELSE {"none"})) \ {s.fault}}
  \cup {[op |-> "Collect", r |-> r] : r \in SeqToSet(Q)}
  \cup (IF s.total < MaxItems THEN {[op |-> "Add", via |-> v] : v \in {"old", "new"}} ELSE {})

Init == st = MPEmpty(SeqToSet(Q)) /\ steps = 0 /\ act = [op |-> "Init"]
Next == /\ steps < MaxSteps
        /\ \E o \in OpSet(st) : \E s2 \in MPSucc(Kinds, Q, st, o) :
              st' = s2 /\ act' = o /\ steps' = steps + 1
Spec == Init /\ [][Next]_vars
View == <<st, steps>>
EmitEdge == PrintT("EDGE " \o ToJson([from |-> st, act |-> act', to |-> st']))

Inv == MPOk(st) /\ ExporterShutWith(Kinds, st)
NothingExportedAfterShutdown ==
  [][(st.down /\ \A r \in SeqToSet(Q) : st.sd[r] = 1) =>
        (st'.nexp = st.nexp /\ st'.sd = st.sd /\ st'.xsd = st.xsd)]_vars
LiveShutdownCompletes ==
  [][(act'.op = "Shutdown" /\ act'.ctx = "live") => (st'.down /\ \A r \in SeqToSet(Q) : st'.sd[r] = 1)]_vars
CollectAfterShutdownIsDocumentedError ==
  [][(act'.op = "Collect" /\ st.sd[act'.r] = 1) => st'.out.err = "reader-shutdown"]_vars
=============================================================================
