---------------------------- MODULE OtlpGrouping ----------------------------
(* Explorer for C13: enumerates abstract batches, checks that the constructive  *)
(* Group(batch) of OtlpModel satisfies the declarative statement (every item     *)
(* exactly once, under its own resource and scope, one group per distinct key,  *)
(* order preserved, every field carried), and prints every edge (= one batch)   *)
(* so that the Go harness can push it through the REAL exporters.               *)
(*   Mode "group"   : all batches of <= MaxItems items over ResIdx x ScopeIdx;  *)
(*                    the field vector of position k is Variant(k) (pairwise    *)
(*                    distinct markers in every field)                          *)
(*   Mode "fields2" : every single-item batch whose field vector differs from   *)
(*                    the base vector in at most two fields (all value PAIRS)   *)
(*   Mode "fields1" : batches of <= MaxItems items, every vector one field away *)
(*                    from the base (leaks between neighbouring items)          *)
(*   Mode "sev"     : log records with every one of the 25 severity numbers     *)
EXTENDS OtlpModel, Pairwise, TLC, Json

CONSTANTS Sig, Mode, ResIdx, ScopeIdx, MaxItems

VARIABLES batch
vars == <<batch>>

-----------------------------------------------------------------------------
(* field domains: sequences, the first element is the base value *)
EvA == [name |-> "e1", time |-> "t2", attrs |-> "a8", d |-> "c1"]
EvB == [name |-> "e2", time |-> "tzero", attrs |-> "an", d |-> "c0"]
EvC == [name |-> "e0", time |-> "tpre", attrs |-> "abound", d |-> "cbig"]
EvD == [name |-> "e1", time |-> "t3", attrs |-> "ae", d |-> "cmax32"]
LkA == [idc |-> "plain", n |-> "k1", attrs |-> "a8", d |-> "c1", remote |-> "f", ts |-> "ts0"]
LkB == [idc |-> "hibit", n |-> "k2", attrs |-> "an", d |-> "c0", remote |-> "t", ts |-> "ts0"]
LkC == [idc |-> "plain", n |-> "k2", attrs |-> "a8b", d |-> "cbig", remote |-> "f", ts |-> "ts1"]
LkD == [idc |-> "zero", n |-> "k0", attrs |-> "a1", d |-> "c2", remote |-> "f", ts |-> "ts0"]

TraceDom ==
  [idc    |-> <<"plain", "hibit", "lowzero">>,
   name   |-> <<"n1", "n2", "n0", "nuni">>,
   kind   |-> <<"server", "client", "producer", "consumer", "internal", "unspecified">>,
   code   |-> <<"error", "ok", "unset">>,
   msg    |-> <<"m1", "m2", "m0">>,
   start  |-> <<"t1", "t2", "tzero", "tpre", "tepoch", "tfar">>,
   end    |-> <<"t2", "t3", "tzero", "tpre", "tfar">>,
   parent |-> <<"local", "remote", "none">>,
   ts     |-> <<"ts1", "ts0">>,
   attrs  |-> <<"a8", "a8b", "abound", "an", "ae">>,
   da     |-> <<"c1", "c0", "c2", "c3", "cbig", "cmax32">>,
   de     |-> <<"c2", "c0", "c3", "c1", "cbig", "cmax32">>,
   dl     |-> <<"c3", "c0", "c1", "c2", "cbig", "cmax32">>,
   events |-> << <<EvA>>, <<>>, <<EvA, EvB>>, <<EvC, EvD, EvA>> >>,
   links  |-> << <<LkA>>, <<>>, <<LkA, LkB>>, <<LkC>>, <<LkD>> >>]

ZipkinDom ==
  [idc    |-> <<"plain", "hibit", "lowzero">>,
   name   |-> <<"n1", "n2", "nuni", "nmix", "n0">>,
   kind   |-> <<"server", "client", "producer", "consumer", "internal", "unspecified">>,
   start  |-> <<"t1", "t2", "tsub", "t3">>,
   dur    |-> <<"d1ms", "d0", "dsub", "dround", "dbig", "d1us">>,
   parent |-> <<"local", "remote", "none">>,
   code   |-> <<"error", "ok", "unset">>,
   msg    |-> <<"m1", "m0", "m2">>]

LogDom ==
  [ts      |-> <<"t1", "t2", "tzero", "tpre", "tfar">>,
   obs     |-> <<"t2", "t3", "tzero", "tpre">>,
   sev     |-> <<"sev9", "sev0", "sev1", "sev14", "sev24", "sev17">>,
   sevtext |-> <<"st1", "st0">>,
   event   |-> <<"ev1", "ev0">>,
   body    |-> <<"bstr", "bempty", "bint", "bfloat", "bbool", "bbytes", "bslice", "bmap", "bnested",
                 "bdeep", "bemptyslice", "bemptymap", "bmapempty", "bnan", "bemptystr", "bbound">>,
   attrs   |-> <<"la7", "laid", "labare", "lamany", "laempty", "labound">>,
   dropped |-> <<"c0", "c1", "c2">>,
   ids     |-> <<"ids", "noids", "tidonly", "sidonly", "hibit">>,
   flags   |-> <<"f1", "f0">>]

SevAll == [i \in 1..25 |-> "sev" \o ToString(i - 1)]

XA == [fa |-> "a8", time |-> "t2", val |-> "v1", ids |-> "ids"]
XB == [fa |-> "an", time |-> "tzero", val |-> "vmax", ids |-> "noids"]
XC == [fa |-> "a1", time |-> "t3", val |-> "vmin", ids |-> "ids"]

(* compact metric vector: metric-level fields + the fields of its first data point *)
MetricDom ==
  [desc  |-> <<"d1", "d0">>,
   unit  |-> <<"u1", "u0">>,
   agg   |-> <<"sum", "gauge", "hist", "exphist", "summary">>,
   num   |-> <<"int", "float">>,
   temp  |-> <<"delta", "cumulative">>,
   mono  |-> <<"t", "f">>,
   ndp   |-> <<1, 0, 2, 3>>,
   da    |-> <<"dp1", "dp0", "dpbound">>,
   start |-> <<"t1", "tzero", "tpre", "t2">>,
   time  |-> <<"t2", "t3", "tzero", "tfar">>,
   val   |-> <<"v1", "v2", "v0", "vmax", "vmin", "vnan", "vinf", "vninf", "vnegzero">>,
   cnt   |-> <<"k5", "k0", "kmax">>,
   lay   |-> <<"L1", "L2", "L3", "L4"
               \* bucket COUNT LISTS with zeros in every position (OtlpModel!ZeroShape): a count list is carried
               \* position by position -- its length, every zero in it and the offset of the range are the layout
               , "L5", "L6", "L7", "L8">>,
   mm    |-> <<"mm1", "mm0", "mmmin", "mmx">>,
   ex    |-> << <<XA>>, <<>>, <<XA, XB>>, <<XC>> >>,
   q     |-> <<"q1", "q0", "qx">>]
DP2 == [da |-> "dp2", start |-> "t1", time |-> "t3", val |-> "v2", cnt |-> "k0", lay |-> "L2",
        mm |-> "mm0", ex |-> <<>>, q |-> "q0"]
DP3 == [da |-> "dp3", start |-> "tzero", time |-> "t2", val |-> "v0", cnt |-> "kmax", lay |-> "L3",
        mm |-> "mmmin", ex |-> <<XB>>, q |-> "qx"]

Dom(sig) == CASE sig = "trace" -> TraceDom [] sig = "zipkin" -> ZipkinDom
              [] sig = "log" -> LogDom [] sig = "metric" -> MetricDom

(* input combinations that do not exist (a float-only value in an int64 metric; *)
(* a log record with neither of the two carriers of the item id)                *)
FloatOnly == {"vnan", "vinf", "vninf", "vnegzero"}
Fix(sig, v) ==
  CASE sig = "metric" -> IF v.num = "int" /\ v.val \in FloatOnly THEN [v EXCEPT !.val = "vmax"] ELSE v
    [] sig = "log"    -> IF v.attrs = "labare" /\ v.sevtext = "st0" THEN [v EXCEPT !.sevtext = "st1"] ELSE v
    [] OTHER -> v

(* the item's field vector as it is handed to the harness *)
Expand(sig, v) ==
  IF sig # "metric" THEN v
  ELSE LET dp1 == [da |-> v.da, start |-> v.start, time |-> v.time, val |-> v.val, cnt |-> v.cnt,
                   lay |-> v.lay, mm |-> v.mm, ex |-> v.ex, q |-> v.q]
       IN [desc |-> v.desc, unit |-> v.unit, agg |-> v.agg, num |-> v.num, temp |-> v.temp, mono |-> v.mono,
           dps |-> SubSeq(<<dp1, DP2, DP3>>, 1, v.ndp)]

Choices(pos) ==
  CASE Mode = "group"   -> {Expand(Sig, Fix(Sig, Variant(Dom(Sig), pos)))}
    [] Mode = "fields2" -> {Expand(Sig, Fix(Sig, v)) : v \in Vary2(Dom(Sig))}
    [] Mode = "fields1" -> {Expand(Sig, Fix(Sig, v)) : v \in Vary1(Dom(Sig))}
    [] Mode = "sev"     -> {[Base(LogDom) EXCEPT !.sev = s] : s \in Range(SevAll) \cup {"sevout"}}

-----------------------------------------------------------------------------
Init == batch = <<>>
Add(it) == /\ Len(batch) < MaxItems
           /\ batch' = Append(batch, it)
Next == \E r \in ResIdx, s \in ScopeIdx, fv \in Choices(Len(batch) + 1) :
           Add([r |-> r, s |-> s, id |-> Len(batch) + 1, fv |-> fv])
Spec == Init /\ [][Next]_vars

View == batch
EmitEdge == PrintT("EDGE " \o ToJson([sig |-> Sig, mode |-> Mode, batch |-> batch']))

-----------------------------------------------------------------------------
(* model level: the constructive Group meets the declarative statement *)
G == Group(Sig, batch)
Keys == {<<RKey(Sig, batch[i].r), SKey(Sig, batch[i].s)>> : i \in 1..Len(batch)}
Faithful      == Violations(Sig, batch, G) = {}
OnePerKey     == /\ Cardinality(Triples(G)) = Cardinality(Keys)
                 /\ Cardinality({<<t[1], t[2]>> : t \in Triples(G)}) = Cardinality(Keys)
                 /\ Cardinality({G[i].rk : i \in 1..Len(G)}) = Len(G)
NoEmptyGroup  == \A t \in Triples(G) : t[3] # <<>>
AllItems      == Cardinality(Places(G)) = Len(batch)
SelfSame      == SameMessage(G, G)
Inv == Faithful /\ OnePerKey /\ NoEmptyGroup /\ AllItems /\ SelfSame
(* sensitivity of the statement itself: dropping the last item of a non-empty   *)
(* batch, or filing it under another resource, is a violation                   *)
Sensitive ==
  Len(batch) > 0 =>
    /\ Violations(Sig, batch, Group(Sig, SubSeq(batch, 1, Len(batch) - 1))) # {}
    /\ (Sig = "zipkin" \/
        Violations(Sig, batch, Group(Sig, [batch EXCEPT ![Len(batch)].r = IF @ = "R3" THEN "R1" ELSE "R3"])) # {})
=============================================================================
