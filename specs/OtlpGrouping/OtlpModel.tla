------------------------------ MODULE OtlpModel ------------------------------
(* Reference model of "exporters encode telemetry faithfully" (C13).             *)
(*                                                                               *)
(* A batch is a sequence of items [r, s, id, fv]: r / s are INDICES of resource  *)
(* and scope objects (several indices may denote equal-but-distinct objects),    *)
(* id = position in the batch, fv = vector of abstract field classes.            *)
(* Transcribed from the OTLP data model (opentelemetry-proto trace/metrics/logs  *)
(* v1, common/v1 AnyValue, resource/v1) and the Zipkin v2 JSON span model, not   *)
(* from the Go transform code:                                                   *)
(*   - a ResourceX message carries ONE resource (attributes + schema_url);       *)
(*     a ScopeX message carries ONE scope (name, version, attributes) + its own  *)
(*     schema_url; every item sits under the group of its own resource and scope *)
(*   - timestamps are fixed64 unix nanoseconds, 0 = unknown: instants that are   *)
(*     not representable (Go zero time, before 1970) can only be "unknown"       *)
(*   - dropped_*_count are uint32: larger counts saturate                        *)
(*   - nil and empty repeated fields are the same message                        *)
(*   - histogram sum/min/max are doubles, Summary has no exemplars/temporality   *)
EXTENDS Naturals, Sequences, FiniteSets

-----------------------------------------------------------------------------
(* Resource and scope objects.  The VALUE of an index is its key; two indices   *)
(* with the same key are equal-but-distinct objects and must share one group.   *)
ResKey ==
  [ R1 |-> [a |-> "ra1", u |-> "ru1"],
    R2 |-> [a |-> "ra1", u |-> "ru1"],    \* equal to R1, a distinct object
    R3 |-> [a |-> "ra2", u |-> "ru1"],    \* other attributes
    R4 |-> [a |-> "ra1", u |-> "ru2"],    \* same attributes, other schema URL
    R5 |-> [a |-> "ra0", u |-> "ru0"],    \* no attributes, no schema URL
    R6 |-> [a |-> "ra0", u |-> "ru1"],    \* no attributes but a schema URL
    R7 |-> [a |-> "ra0", u |-> "ru0"] ]   \* absent (nil) resource: equal to R5

ScopeKey ==
  [ S0 |-> [n |-> "sn0", v |-> "sv0", u |-> "su0", a |-> "sa0"],   \* the empty scope
    S1 |-> [n |-> "sn1", v |-> "sv1", u |-> "su1", a |-> "sa1"],
    S2 |-> [n |-> "sn1", v |-> "sv1", u |-> "su1", a |-> "sa1"],   \* equal to S1, distinct object
    S3 |-> [n |-> "sn1", v |-> "sv2", u |-> "su1", a |-> "sa1"],   \* version differs
    S4 |-> [n |-> "sn1", v |-> "sv1", u |-> "su2", a |-> "sa1"],   \* schema URL differs
    S5 |-> [n |-> "sn1", v |-> "sv1", u |-> "su1", a |-> "sa2"],   \* attributes differ
    S6 |-> [n |-> "sn2", v |-> "sv1", u |-> "su1", a |-> "sa1"],   \* name differs
    S7 |-> [n |-> "sn1", v |-> "sv0", u |-> "su0", a |-> "sa0"],   \* name only
    \* partially empty scopes: no name, but a version / a schema URL / attributes / all three
    S8  |-> [n |-> "sn0", v |-> "sv1", u |-> "su0", a |-> "sa0"],
    S9  |-> [n |-> "sn0", v |-> "sv0", u |-> "su1", a |-> "sa0"],
    S10 |-> [n |-> "sn0", v |-> "sv0", u |-> "su0", a |-> "sa1"],
    S11 |-> [n |-> "sn0", v |-> "sv1", u |-> "su1", a |-> "sa1"] ]

(* Zipkin has no groups: one flat list of span models *)
ZRes == [a |-> "-", u |-> "-"]
ZScope == [n |-> "-", v |-> "-", u |-> "-", a |-> "-"]

Signals == {"trace", "metric", "log", "zipkin"}
(* signals whose exporter receives a FLAT batch and therefore does the grouping  *)
(* itself; a metric exporter receives an already grouped ResourceMetrics         *)
GroupingSignals == {"trace", "log"}

RKey(sig, r) == IF sig = "zipkin" THEN ZRes ELSE ResKey[r]
SKey(sig, s) == IF sig = "zipkin" THEN ZScope ELSE ScopeKey[s]

-----------------------------------------------------------------------------
(* Leaf rules of the data model *)
NA == "-"
ExpT(t)   == IF t \in {"tzero", "tpre", "tepoch"} THEN "unix0" ELSE t
ExpC32(c) == IF c = "cbig" THEN "cmax32" ELSE c
ExpA(a)   == IF a = "ae" THEN "an" ELSE a
MapSeq(F(_), s) == [i \in 1..Len(s) |-> F(s[i])]
Range(s) == {s[i] : i \in 1..Len(s)}

(* ---- spans (trace/v1 Span) *)
ExpEvent(e) == [name |-> e.name, time |-> ExpT(e.time), attrs |-> ExpA(e.attrs), d |-> ExpC32(e.d)]
ExpLink(l)  == [idc |-> l.idc, n |-> l.n, attrs |-> ExpA(l.attrs), d |-> ExpC32(l.d),
                remote |-> l.remote, ts |-> l.ts]
ExpSpan(fv) ==
  [idc |-> fv.idc, name |-> fv.name, kind |-> fv.kind, code |-> fv.code, msg |-> fv.msg,
   start |-> ExpT(fv.start), end |-> ExpT(fv.end), parent |-> fv.parent, ts |-> fv.ts,
   attrs |-> ExpA(fv.attrs), da |-> ExpC32(fv.da), de |-> ExpC32(fv.de), dl |-> ExpC32(fv.dl),
   events |-> MapSeq(ExpEvent, fv.events), links |-> MapSeq(ExpLink, fv.links)]

(* ---- Zipkin v2 span: ids, parent, lower-case name, kind (INTERNAL and          *)
(* unspecified have no Zipkin kind), microsecond timestamp and duration           *)
ExpZKind(k)   == IF k \in {"internal", "unspecified"} THEN "zknone" ELSE k
ExpZName(n)   == IF n = "nmix" THEN "nmixlow" ELSE n
ExpZStart(t)  == IF t = "tsub" THEN "tsubr" ELSE t       \* rounded to the microsecond
ExpZDur(d)    == CASE d = "dsub" -> "d1us"                \* 0 < d < 1us is reported as 1us
                   [] d = "dround" -> "droundr"           \* rounded to the microsecond
                   [] OTHER -> d
ExpZParent(p) == IF p = "none" THEN "none" ELSE "p"      \* no remote flag in Zipkin
(* beyond the listed clause (OTel "Zipkin exporter" mapping): status -> tags       *)
(* otel.status_code / error, scope -> tags otel.scope.name / .version, resource    *)
(* service.name -> localEndpoint.serviceName (a default name when absent)          *)
ExpZipkin(it) ==
  LET fv == it.fv IN
  [idc |-> fv.idc, name |-> ExpZName(fv.name), kind |-> ExpZKind(fv.kind), start |-> ExpZStart(fv.start),
   dur |-> ExpZDur(fv.dur), parent |-> ExpZParent(fv.parent),
   code |-> fv.code,
   msg  |-> IF fv.code = "error" THEN fv.msg ELSE "noerr",
   svc  |-> ResKey[it.r].a,
   sn   |-> ScopeKey[it.s].n,
   sv   |-> IF ScopeKey[it.s].n = "sn0" THEN "sv0" ELSE ScopeKey[it.s].v]

(* ---- log records (logs/v1 LogRecord) *)
ExpLog(fv) ==
  [ts |-> ExpT(fv.ts), obs |-> ExpT(fv.obs), sev |-> fv.sev, sevtext |-> fv.sevtext, event |-> fv.event,
   body |-> fv.body, attrs |-> fv.attrs, dropped |-> ExpC32(fv.dropped), ids |-> fv.ids, flags |-> fv.flags]

(* ---- metrics (metrics/v1 Metric): which field exists for which aggregation *)
(* Bucket layout classes.  bucket_counts (explicit histogram) and the positive / *)
(* negative Buckets.bucket_counts (+ offset) of an exponential histogram are     *)
(* repeated fields that an exporter carries VERBATIM ("identical bucket          *)
(* layouts"): a zero count is a bucket, not padding.  ZeroShape gives, per       *)
(* class, where the count lists of the class hold zeros; classes L1..L4 vary     *)
(* bounds / scale / magnitudes, L5..L8 vary the zero pattern.  The expected      *)
(* layout of every class is the class itself (ExpDP.lay): no list may be         *)
(* shortened, padded, shifted or dropped on the way.                             *)
ZeroShape ==
  [ L1 |-> "none",     L2 |-> "nolayout", L3 |-> "leading", L4 |-> "none",
    L5 |-> "trailing",   \* lists END in zeros (and hold one inside): [1,0,2,0,0] / [5,0]; explicit [1,0,2,0]
    L6 |-> "leading",    \* lists START with zeros: [0,0,3] / [0,7]; explicit [0,0,3,4]
    L7 |-> "allzero",    \* only zeros, non-zero offsets: [0,0,0]@4 / [0]@-2; explicit [0,0,0,0]
    L8 |-> "empty" ]     \* EMPTY lists with non-zero offsets: []@7 / []@-7; explicit: bounds without counts
HistLike(agg) == agg \in {"hist", "exphist"}
ExpEx(num, x) == [fa |-> ExpA(x.fa), time |-> ExpT(x.time), val |-> x.val, ids |-> x.ids, num |-> num]
ExpDP(agg, num, dp) ==
  [da |-> dp.da, start |-> ExpT(dp.start), time |-> ExpT(dp.time), val |-> dp.val,
   num |-> IF agg \in {"gauge", "sum"} THEN num ELSE NA,      \* as_int / as_double
   cnt |-> IF agg \in {"gauge", "sum"} THEN NA ELSE dp.cnt,
   lay |-> IF HistLike(agg) THEN dp.lay ELSE NA,             \* bucket layout incl. scale, zero count/threshold
   mm  |-> IF HistLike(agg) THEN dp.mm ELSE NA,              \* optional min / max
   q   |-> IF agg = "summary" THEN dp.q ELSE NA,
   ex  |-> IF agg = "summary" THEN <<>> ELSE MapSeq(LAMBDA x : ExpEx(num, x), dp.ex)]
ExpMetric(fv) ==
  [desc |-> fv.desc, unit |-> fv.unit, agg |-> fv.agg,
   temp |-> IF fv.agg \in {"gauge", "summary"} THEN NA ELSE fv.temp,
   mono |-> IF fv.agg = "sum" THEN fv.mono ELSE NA,
   dps  |-> MapSeq(LAMBDA dp : ExpDP(fv.agg, IF fv.agg = "summary" THEN "float" ELSE fv.num, dp), fv.dps)]

ExpFV(sig, it) == CASE sig = "trace"  -> ExpSpan(it.fv)
                    [] sig = "zipkin" -> ExpZipkin(it)
                    [] sig = "log"    -> ExpLog(it.fv)
                    [] sig = "metric" -> ExpMetric(it.fv)
Expected(sig, it) == [id |-> it.id, fv |-> ExpFV(sig, it)]

(* data points of a metric are a collection (each carries its own attribute set) *)
(* a severity outside 0..24 ("sevout") is not a SeverityNumber of the data model: it may arrive as     *)
(* UNSPECIFIED or as the number itself                                                                *)
SameField(f, g, w) == CASE f = "dps" -> Len(g) = Len(w) /\ Range(g) = Range(w)
                        [] f = "sev" /\ w = "sevout" -> g \in {"sev0", "sevout"}
                        [] OTHER -> g = w

-----------------------------------------------------------------------------
(* Group(batch): the request the data model prescribes, constructively: walk    *)
(* the batch, open a resource group / scope group at the first item of a key,   *)
(* append every later item of the same key to it.                               *)
FirstIdx(seq, P(_)) ==
  IF \E i \in 1..Len(seq) : P(seq[i])
  THEN CHOOSE i \in 1..Len(seq) : P(seq[i]) /\ \A j \in 1..(i - 1) : ~P(seq[j])
  ELSE 0

AddItem(g, sig, it) ==
  LET rk == RKey(sig, it.r)
      sk == SKey(sig, it.s)
      x  == Expected(sig, it)
      ri == FirstIdx(g, LAMBDA rg : rg.rk = rk)
  IN IF ri = 0
     THEN Append(g, [rk |-> rk, scopes |-> <<[sk |-> sk, items |-> <<x>>]>>])
     ELSE LET si == FirstIdx(g[ri].scopes, LAMBDA sg : sg.sk = sk) IN
          IF si = 0
          THEN [g EXCEPT ![ri].scopes = Append(@, [sk |-> sk, items |-> <<x>>])]
          ELSE [g EXCEPT ![ri].scopes[si].items = Append(@, x)]

RECURSIVE GroupAcc(_, _, _)
GroupAcc(g, sig, batch) ==
  IF batch = <<>> THEN g ELSE GroupAcc(AddItem(g, sig, Head(batch)), sig, Tail(batch))
Group(sig, batch) == GroupAcc(<<>>, sig, batch)

-----------------------------------------------------------------------------
(* The statement, declaratively, over ANY decoded request `out` (a sequence of  *)
(* resource groups [rk, scopes], scopes a sequence of [sk, items], items a      *)
(* sequence of [id, fv]).  Order ACROSS groups is free; empty groups are free.  *)
(* Violations(sig, batch, out) is the set of broken clauses; {} = faithful.     *)
Places(out) ==
  UNION { UNION { { <<ri, si, ii>> : ii \in 1..Len(out[ri].scopes[si].items) }
                  : si \in 1..Len(out[ri].scopes) }
          : ri \in 1..Len(out) }
At(out, p) == out[p[1]].scopes[p[2]].items[p[3]]
PlacesOf(out, id) == {p \in Places(out) : At(out, p).id = id}
Ids(batch) == {batch[i].id : i \in 1..Len(batch)}

KeyDiff(sig, it, out, p) ==
  LET rk == out[p[1]].rk   sk == out[p[1]].scopes[p[2]].sk
      wr == RKey(sig, it.r) ws == SKey(sig, it.s)
  IN {<<"rk." \o f, wr[f], rk[f]>> : f \in {f \in DOMAIN wr : rk[f] # wr[f]}}
     \cup {<<"sk." \o f, ws[f], sk[f]>> : f \in {f \in DOMAIN ws : sk[f] # ws[f]}}

V_Missing(sig, batch, out) ==
  {[kind |-> "missing", id |-> batch[i].id, field |-> NA, want |-> NA, got |-> NA]
     : i \in {i \in 1..Len(batch) : PlacesOf(out, batch[i].id) = {}}}
V_Dup(sig, batch, out) ==
  {[kind |-> "duplicate", id |-> batch[i].id, field |-> NA, want |-> NA, got |-> NA]
     : i \in {i \in 1..Len(batch) : Cardinality(PlacesOf(out, batch[i].id)) > 1}}
V_Extra(sig, batch, out) ==
  {[kind |-> "extra", id |-> At(out, p).id, field |-> NA, want |-> NA, got |-> NA]
     : p \in {p \in Places(out) : At(out, p).id \notin Ids(batch)}}
(* under its own resource and scope *)
V_Misplaced(sig, batch, out) ==
  UNION {{[kind |-> "misplaced", id |-> batch[i].id, field |-> d[1], want |-> d[2], got |-> d[3]]
            : d \in UNION {KeyDiff(sig, batch[i], out, p) : p \in PlacesOf(out, batch[i].id)}}
         : i \in 1..Len(batch)}
(* order within a group (ids are batch positions); a Zipkin list is unordered *)
V_Order(sig, batch, out) ==
  IF sig = "zipkin" THEN {} ELSE
  {[kind |-> "order", id |-> At(out, p).id, field |-> NA, want |-> NA, got |-> NA]
     : p \in {p \in Places(out) : \E q \in Places(out) :
                 /\ q[1] = p[1] /\ q[2] = p[2] /\ q[3] < p[3]
                 /\ At(out, q).id > At(out, p).id}}
(* every field carried *)
V_FieldX(sig, batch, out, Mask(_)) ==
  UNION {UNION {LET w == Mask(ExpFV(sig, batch[i]))
                    g == At(out, p).fv
                IN {[kind |-> "field", id |-> batch[i].id, field |-> f,
                     want |-> w[f], got |-> IF f \in DOMAIN g THEN g[f] ELSE NA]
                      : f \in {f \in DOMAIN w : f \notin DOMAIN g \/ ~SameField(f, g[f], w[f])}}
                : p \in PlacesOf(out, batch[i].id)}
         : i \in 1..Len(batch)}
V_Field(sig, batch, out) == V_FieldX(sig, batch, out, LAMBDA x : x)
(* one group per distinct key (where the exporter does the grouping) *)
V_DupGroup(sig, batch, out) ==
  IF sig \notin GroupingSignals THEN {} ELSE
  {[kind |-> "dupgroup", id |-> 0, field |-> "resource", want |-> NA, got |-> NA]
     : x \in {x \in (1..Len(out)) \X (1..Len(out)) : x[1] < x[2] /\ out[x[1]].rk = out[x[2]].rk}}
  \cup UNION {{[kind |-> "dupgroup", id |-> 0, field |-> "scope", want |-> NA, got |-> NA]
                 : x \in {x \in (1..Len(out[ri].scopes)) \X (1..Len(out[ri].scopes)) :
                            x[1] < x[2] /\ out[ri].scopes[x[1]].sk = out[ri].scopes[x[2]].sk}}
              : ri \in 1..Len(out)}

Violations(sig, batch, out) ==
  V_Missing(sig, batch, out) \cup V_Dup(sig, batch, out) \cup V_Extra(sig, batch, out)
  \cup V_Misplaced(sig, batch, out) \cup V_Order(sig, batch, out) \cup V_Field(sig, batch, out)
  \cup V_DupGroup(sig, batch, out)

(* ---- a third "protocol": the stdout exporters print the SDK objects as JSON.  What that JSON does   *)
(* not carry is masked: the resource schema URL (all signals), int64 vs float64 of metric numbers.    *)
(* The list is flat (one group per item), so only the per-item clauses apply.                          *)
StdoutKeysNotCarried == {"rk.u"}
StdoutMask(sig, fv) ==
  IF sig # "metric" THEN fv
  ELSE [fv EXCEPT !.dps = MapSeq(LAMBDA dp : [dp EXCEPT !.num = NA,
                                                        !.ex = MapSeq(LAMBDA x : [x EXCEPT !.num = NA], @)], @),
                  \* the JSON does not tag the aggregation; without data points its shape is ambiguous
                  !.agg = CASE fv.dps = <<>> /\ HistLike(@) -> "histlike"
                            [] fv.dps = <<>> /\ @ \in {"gauge", "summary"} -> "gauge-or-summary"
                            [] OTHER -> @]
ItemViolations(sig, batch, out, Mask(_), keysNotCarried) ==
  V_Missing(sig, batch, out) \cup V_Dup(sig, batch, out) \cup V_Extra(sig, batch, out)
  \cup {v \in V_Misplaced(sig, batch, out) : v.field \notin keysNotCarried}
  \cup V_FieldX(sig, batch, out, Mask)
WireProtos == {"grpc", "http", "grpc-gzip", "http-gzip", "zipkin"}
Judge(sig, proto, batch, out) ==
  IF proto = "stdout"
  THEN ItemViolations(sig, batch, out, LAMBDA fv : StdoutMask(sig, fv), StdoutKeysNotCarried)
  ELSE Violations(sig, batch, out)

(* two decoded requests carry the same message (group order across resources free) *)
Triples(out) ==
  UNION {{<<out[ri].rk, out[ri].scopes[si].sk, out[ri].scopes[si].items>> : si \in 1..Len(out[ri].scopes)}
         : ri \in 1..Len(out)}
SameMessage(o1, o2) == Triples(o1) = Triples(o2) /\ Cardinality(Places(o1)) = Cardinality(Places(o2))
=============================================================================
