-------------------------- MODULE MC_OtlpGrouping --------------------------
EXTENDS OtlpGrouping
MCResIdx == @RES@
MCScopeIdx == @SCOPES@
=============================================================================
