SPECIFICATION Spec
CONSTANTS
  Sig = "@SIG@"
  Mode = "@MODE@"
  MaxItems = @MAXITEMS@
  ResIdx <- MCResIdx
  ScopeIdx <- MCScopeIdx
VIEW View
ACTION_CONSTRAINT EmitEdge
INVARIANT Inv
INVARIANT Sensitive
CHECK_DEADLOCK FALSE
