SPECIFICATION Spec
CONSTANTS
  Sig = "trace"
  Mode = "group"
  MaxItems = 0
  ResIdx = {}
  ScopeIdx = {}
CHECK_DEADLOCK FALSE
