------------------------------ MODULE Pairwise ------------------------------
(* Test-input combinatorics shared by the explorers: a domain D is a record of  *)
(* sequences (field -> admissible values, the first one is the base value).     *)
EXTENDS Naturals, Sequences
Base(D) == [f \in DOMAIN D |-> D[f][1]]
(* position k of a batch: pairwise-distinct markers in every field *)
Variant(D, k) == [f \in DOMAIN D |-> D[f][((k - 1) % Len(D[f])) + 1]]
(* every vector one field / at most two fields away from the base: all values, all value PAIRS *)
Vary1(D) == {[Base(D) EXCEPT ![f] = D[f][i]] : <<f, i>> \in {<<f, i>> \in (DOMAIN D) \X (1..40) : i <= Len(D[f])}}
Vary2(D) == {[v EXCEPT ![f] = D[f][i]] :
                <<v, f, i>> \in {<<v, f, i>> \in Vary1(D) \X (DOMAIN D) \X (1..40) : i <= Len(D[f])}}
=============================================================================
