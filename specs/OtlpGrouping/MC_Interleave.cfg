SPECIFICATION ISpec
CONSTANTS
  Sig = "log"
  Mode = "group"
  MaxItems = 2
  Shape = "@SHAPE@"
  ResIdx <- MCResIdx
  ScopeIdx <- MCScopeIdx
ACTION_CONSTRAINT IEmit
INVARIANT IInv
CHECK_DEADLOCK FALSE
