----------------------------- MODULE Interleave -----------------------------
(* C13, behaviour class "several exporter instances of one kind in one process  *)
(* whose exports interleave".  Two instances A and B of the same OTLP/HTTP      *)
(* exporter each export ONE batch of their own; a scripted collector answers    *)
(* attempt n of instance i with Script[i][n] (503 = retryable, 200 = accepted). *)
(* A history is a sequence of (instance, attempt) events                        *)
(*     arrive : the collector has read the request body of the attempt and      *)
(*              HOLDS the request (the export call is in flight)                *)
(*     answer : the collector answers the held request; after a 503 the         *)
(*              instance waits and sends the next attempt of the SAME export    *)
(* TLC enumerates every complete history (all interleavings: B exports while A  *)
(* is in flight / waits for its retry, two exports in flight, both retried) for *)
(* every signal, uncompressed and gzip, and prints it with the batch of every   *)
(* instance.  The statement: the request of EVERY attempt carries the payload   *)
(* of ITS OWN export ("decoding the OTLP protobuf produced by an exporter ...   *)
(* recovers every item exactly once ... identical ... bodies").  The harness    *)
(* executes the history on two REAL exporter instances and writes one trace     *)
(* line per received request {batch: Payload(its instance), outs: [decoded]};   *)
(* Trace_OtelSDK (OtlpModel!Violations) is the judge.                           *)
EXTENDS OtlpGrouping

CONSTANT Shape      \* "one": only A is retried;  "both": A and B are retried
VARIABLES sg, gz, st, att, hist
ivars == <<batch, sg, gz, st, att, hist>>

InstSet == {"A", "B"}
Script == [A |-> <<503, 200>>, B |-> IF Shape = "both" THEN <<503, 200>> ELSE <<200>>]

(* the batch of instance i: two items whose field vectors carry markers that    *)
(* are pairwise distinct between the instances                                  *)
Payload(sgn, i) ==
  LET k == IF i = "A" THEN 0 ELSE 2
      It(n) == [r |-> "R1", s |-> "S1", id |-> n, fv |-> Expand(sgn, Fix(sgn, Variant(Dom(sgn), k + n)))]
  IN <<It(1), It(2)>>

IInit == /\ batch = <<>> /\ sg \in {"trace", "metric", "log"} /\ gz \in {"f", "t"}
         /\ st = [i \in InstSet |-> "idle"] /\ att = [i \in InstSet |-> 0] /\ hist = <<>>
Arrive(i) == /\ st[i] \in {"idle", "backoff"}
             /\ st' = [st EXCEPT ![i] = "held"]
             /\ att' = [att EXCEPT ![i] = @ + 1]
             /\ hist' = Append(hist, [op |-> "arrive", inst |-> i, att |-> att[i] + 1, code |-> 0])
             /\ UNCHANGED <<batch, sg, gz>>
Answer(i) == /\ st[i] = "held"
             /\ LET c == Script[i][att[i]] IN
                  /\ st' = [st EXCEPT ![i] = IF c = 200 THEN "done" ELSE "backoff"]
                  /\ hist' = Append(hist, [op |-> "answer", inst |-> i, att |-> att[i], code |-> c])
             /\ UNCHANGED <<batch, sg, gz, att>>
INext == \E i \in InstSet : Arrive(i) \/ Answer(i)
ISpec == IInit /\ [][INext]_ivars

AllDone(s) == \A i \in InstSet : s[i] = "done"
IEmit == IF AllDone(st')
           THEN PrintT("EDGE " \o ToJson([sig |-> sg, mode |-> "interleave", gz |-> gz, hist |-> hist',
                                          exports |-> [i \in InstSet |-> Payload(sg, i)]]))
           ELSE TRUE

-----------------------------------------------------------------------------
(* model level.  The ideal collector log: attempt e of instance i carries       *)
(* Group(Payload(i)).  OwnPayload: that log meets the statement.  Aliased: a    *)
(* request that carries the OTHER instance's payload IS a violation, so the     *)
(* judge can see process-global state leaking between instances.  Once: when    *)
(* all exports returned, every instance has exactly one accepted attempt.       *)
Arrivals == {k \in 1..Len(hist) : hist[k].op = "arrive"}
OwnPayload == \A k \in Arrivals :
                 Violations(sg, Payload(sg, hist[k].inst), Group(sg, Payload(sg, hist[k].inst))) = {}
Aliased == \A i \in InstSet, j \in InstSet :
              i # j => Violations(sg, Payload(sg, i), Group(sg, Payload(sg, j))) # {}
Once == AllDone(st) =>
          \A i \in InstSet : Cardinality({k \in 1..Len(hist) : hist[k].op = "answer" /\ hist[k].inst = i
                                                                /\ hist[k].code = 200}) = 1
IInv == OwnPayload /\ Aliased /\ Once
=============================================================================
