----------------------------- MODULE OtlpTables -----------------------------
(* Prints the tables of the model (resource/scope keys, field domains) so that *)
(* the Go harness takes its vocabulary from the specification (single source). *)
EXTENDS OtlpGrouping
Tables == [res |-> ResKey, scopes |-> ScopeKey,
           dom |-> [trace |-> TraceDom, zipkin |-> ZipkinDom, log |-> LogDom,
                    metric |-> [MetricDom EXCEPT !.ndp = <<"1", "0", "2", "3">>]],
           sevall |-> SevAll]
ASSUME PrintT("TABLES " \o ToJson(Tables))
=============================================================================
