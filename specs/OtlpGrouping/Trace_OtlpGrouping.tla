------------------------- MODULE Trace_OtlpGrouping -------------------------
(* code -> spec (and the comparison half of spec -> code): every line is one    *)
(* abstract batch that went through the REAL exporters of one signal, with the  *)
(* projection of what the loopback collector decoded:                           *)
(*   {ev:"Batch", case, sig, batch:[{r,s,id,fv}],                               *)
(*    outs:[{proto:"grpc"|"http"|"grpc-gzip"|"http-gzip"|"zipkin",              *)
(*           groups:[{rk,scopes:[{sk,items}]}]}],                               *)
(*    same: <deterministic marshal of all requests is byte-equal>}              *)
(* The statement (OtlpModel!Violations) is evaluated on every decoded request;  *)
(* all transport variants of a signal (gRPC, HTTP, each also gzip-compressed)   *)
(* must carry the same message.                                                 *)
EXTENDS OtlpModel, TraceKit

VARIABLES l
vars == <<l>>

Init == l = 1

Check(t) ==
  /\ \A k \in 1..Len(t.outs) :
        \A v \in Judge(t.sig, t.outs[k].proto, t.batch, t.outs[k].groups) :
           Viol([line |-> l, case |-> t.case, sig |-> t.sig, proto |-> t.outs[k].proto, kind |-> v.kind,
                 id |-> v.id, field |-> v.field, want |-> v.want, got |-> v.got])
  /\ \A k \in 2..Len(t.outs) :
        (t.outs[k].proto \in WireProtos /\ ~SameMessage(t.outs[1].groups, t.outs[k].groups)) =>
           Viol([line |-> l, case |-> t.case, sig |-> t.sig, proto |-> "both", kind |-> "pair",
                 id |-> 0, field |-> t.outs[k].proto, want |-> NA, got |-> NA])
  /\ ~t.same =>
        Viol([line |-> l, case |-> t.case, sig |-> t.sig, proto |-> "both", kind |-> "bytes",
              id |-> 0, field |-> NA, want |-> NA, got |-> NA])

TBatch == /\ l <= Len(Trace) /\ Trace[l].ev = "Batch"
          /\ Check(Trace[l])
          /\ l' = l + 1

TDone == l = Len(Trace) + 1 /\ Accepted(l) /\ UNCHANGED vars

Next == TBatch \/ TDone
Spec == Init /\ [][Next]_vars

Inv == l \in 1..(Len(Trace) + 1)
=============================================================================
