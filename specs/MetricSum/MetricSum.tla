------------------------------ MODULE MetricSum ------------------------------
(* Implementation-shaped specification of synchronous sum aggregation under    *)
(* concurrent recording and collection (property C02).                         *)
(*   sdk/metric/instrument.go          int64Inst.aggregate: for each pipeline  *)
(*   sdk/metric/internal/aggregate/sum.go   valueMap.measure / sum.delta / sum.cumulative *)
(*   sdk/metric/pipeline.go            pipeline.produce (pipeline lock, compute functions) *)
(*   sdk/metric/manual_reader.go, periodic_reader.go   Collect, run, ForceFlush, Shutdown  *)
(*                                                                            *)
(* State: per reader pipeline r and stream s (instrument) one valueMap         *)
(* val[r][s] with its mutex vlock[r][s] and the start of the current interval; *)
(* the pipeline mutex plock[r]; the periodic reader's run loop, flushCh        *)
(* handshake, cancel flag and swapped producer (shut[r]).                      *)
(* One action per critical section:                                            *)
(*   Add     = RCall ; for each pipeline in order (RLock = lock+add ; RUnlock) ; RRet *)
(*   produce = PLock ; for each stream Comp (delta: copy+clear+move start in ONE       *)
(*             critical section / cumulative: copy) ; release with the last Comp       *)
(* The monitor variable mon is the state of the API-level contract             *)
(* (MetricSumContract!Step applied to the API events of the actions), so TLC   *)
(* checks exhaustively that the mechanism refines the contract -- and that the *)
(* contract raises no alarm on any interleaving of the correct mechanism.      *)
(* Variant # "ok" are deliberately broken mechanisms (TLC must find them):     *)
(*   "split"     delta copy and clear in two critical sections                 *)
(*   "noclear"   delta forgets to clear                                        *)
(*   "nostart"   delta does not move start                                     *)
(*   "firstonly" a measurement is applied to the first pipeline only           *)
(*   "nofinal"   periodic Shutdown skips the final collection                  *)
(*   "stopaterr" instrument resolution stops at the first reader that reports  *)
(*               an error: readers registered after it are never wired         *)
EXTENDS MetricSumContract, Integers

CONSTANTS RD,        \* reader name -> [temp, kind, wired]; wired = FALSE: instrument resolution fails for this reader
                     \* (resolver.Aggregators joins the error and carries on: the other readers are served)
          POrder,    \* sequence of reader names: order of the pipelines in instrument.measures
          Streams,   \* sequence of stream keys (one instrument/attribute set each)
          Plan,      \* recorder -> sequence of measurement ids <<key, i>>
          ColRd,     \* collector -> reader it calls Collect on
          NCol,      \* collections per collector
          FRd,       \* flusher -> (periodic) reader
          SRd,       \* stopper -> reader
          MaxTicks,  \* interval ticks per periodic reader
          Variant, Eager,
          CbErr,     \* TRUE: an observable callback may return an error during a collection (known deviation D1:
                     \* the periodic reader then drops the collected data instead of exporting it)
          Abort      \* "never" | "may" | "must": a run-loop collection whose ctx was cancelled by Shutdown is
                     \* abandoned before its compute functions (pipeline.produce checks ctx.Err() after the
                     \* observable callbacks; without callbacks it never is)

Recs == DOMAIN Plan
Cols == DOMAIN ColRd
Flushers == DOMAIN FRd
Stoppers == DOMAIN SRd
Readers == DOMAIN RD
Periodic == {r \in Readers : RD[r].kind = "periodic"}
Run(r) == "run_" \o r
Runs == {Run(r) : r \in Periodic}
RunRd(x) == CHOOSE r \in Periodic : Run(r) = x
Collecting == Cols \cup Runs \cup Stoppers          \* processes that can run produce
Procs == Recs \cup Collecting \cup Flushers
NS == Len(Streams)
SIdx(key) == CHOOSE s \in 1..NS : Streams[s] = key

VARIABLES val, vlock, start, clk, plock, shut, cancelled, ticks, serving,
          pc, ridx, rp, ck, crd, cs, buf, biv, pend, err, mon, bad
proto == <<val, vlock, start, clk, plock, shut, cancelled, ticks, serving, ridx, rp, ck, crd, cs, buf, biv, pend, err>>
vars == <<proto, pc, mon, bad>>

Init ==
  /\ val = [r \in Readers |-> [s \in 1..NS |-> {}]]
  /\ vlock = [r \in Readers |-> [s \in 1..NS |-> "none"]]
  /\ start = [r \in Readers |-> [s \in 1..NS |-> 0]]
  /\ clk = [r \in Readers |-> 0]
  /\ plock = [r \in Readers |-> "none"]
  /\ shut = [r \in Readers |-> FALSE]
  /\ cancelled = [r \in Readers |-> FALSE]
  /\ ticks = [r \in Readers |-> 0]
  /\ serving = [r \in Readers |-> "none"]
  /\ pc = [x \in Procs |-> IF x \in Runs THEN "select" ELSE "idle"]
  /\ ridx = [g \in Recs |-> 1] /\ rp = [g \in Recs |-> 1]
  /\ ck = [c \in Cols |-> 0]
  /\ crd = [x \in Collecting |-> IF x \in Cols THEN ColRd[x] ELSE IF x \in Runs THEN RunRd(x) ELSE SRd[x]]
  /\ cs = [x \in Collecting |-> 1]
  /\ buf = [x \in Collecting |-> {}] /\ biv = [x \in Collecting |-> {}]
  /\ pend = [x \in Collecting |-> {}]
  /\ err = [x \in Procs |-> ""]
  /\ mon = Fresh(RD) /\ bad = {}

Go(x, l) == pc' = [pc EXCEPT ![x] = l]
(* an API event: one step of the contract monitor *)
Obs(e) == LET r == Step(mon, e) IN mon' = r[1] /\ bad' = bad \cup {v.kind : v \in r[2]}
Quiet == UNCHANGED <<mon, bad>>
Cur(g) == Plan[g][ridx[g]]
(* the pipelines an instrument's measures fan out to, in registration order *)
FirstBad == IF \E p \in 1..Len(POrder) : ~RD[POrder[p]].wired
              THEN CHOOSE p \in 1..Len(POrder) : ~RD[POrder[p]].wired /\ \A q \in 1..(p - 1) : RD[POrder[q]].wired
              ELSE Len(POrder) + 1
Pipes == IF Variant = "stopaterr" THEN SubSeq(POrder, 1, FirstBad - 1)
         ELSE SelectSeq(POrder, LAMBDA r : RD[r].wired)
NP == IF Variant = "firstonly" THEN 1 ELSE Len(Pipes)

(* ------------------------------------------------------------ recorders *)
(* lock+add on pipeline rp[g]; the critical section is left by RUnlock (on the real code the exemplar *)
(* filter runs between the two, which is where the harness can hold the goroutine)                    *)
LockAdd(g, p) == LET r == Pipes[p]  s == SIdx(Key(Cur(g))) IN
  /\ vlock[r][s] = "none"
  /\ vlock' = [vlock EXCEPT ![r][s] = g]
  /\ val' = [val EXCEPT ![r][s] = @ \cup {Cur(g)}]
CanLock(g, p) == vlock[Pipes[p]][SIdx(Key(Cur(g)))] = "none"

RCall(g) == /\ pc[g] = "idle" /\ ridx[g] <= Len(Plan[g])
            /\ Obs([ev |-> "Call", op |-> "Add", id |-> Cur(g)])
            /\ IF NP = 0 THEN Go(g, "ret") /\ UNCHANGED <<val, vlock>>      \* wired to no reader at all
               ELSE IF Eager /\ CanLock(g, 1)
                 THEN LockAdd(g, 1) /\ Go(g, "held")
                 ELSE Go(g, "lock") /\ UNCHANGED <<val, vlock>>
            /\ UNCHANGED <<start, clk, plock, shut, cancelled, ticks, serving, ridx, rp, ck, crd, cs, buf, biv, pend, err>>
RLock(g) == /\ pc[g] = "lock" /\ LockAdd(g, rp[g]) /\ Go(g, "held") /\ Quiet
            /\ UNCHANGED <<start, clk, plock, shut, cancelled, ticks, serving, ridx, rp, ck, crd, cs, buf, biv, pend, err>>
RUnlock(g) == /\ pc[g] = "held"
              /\ LET r == Pipes[rp[g]]  s == SIdx(Key(Cur(g)))  un == [vlock EXCEPT ![r][s] = "none"] IN
                 IF rp[g] = NP
                   THEN vlock' = un /\ Go(g, "ret") /\ UNCHANGED <<val, rp>>
                   ELSE /\ rp' = [rp EXCEPT ![g] = @ + 1]
                        /\ IF Eager /\ CanLock(g, rp[g] + 1)
                             THEN LET r2 == Pipes[rp[g] + 1] IN
                                  /\ vlock' = [un EXCEPT ![r2][s] = g]
                                  /\ val' = [val EXCEPT ![r2][s] = @ \cup {Cur(g)}]
                                  /\ Go(g, "held")
                             ELSE vlock' = un /\ Go(g, "lock") /\ UNCHANGED val
              /\ Quiet
              /\ UNCHANGED <<start, clk, plock, shut, cancelled, ticks, serving, ridx, ck, crd, cs, buf, biv, pend, err>>
RRet(g) == /\ pc[g] = "ret"
           /\ Obs([ev |-> "Ret", op |-> "Add", id |-> Cur(g)])
           /\ ridx' = [ridx EXCEPT ![g] = @ + 1] /\ rp' = [rp EXCEPT ![g] = 1] /\ Go(g, "idle")
           /\ UNCHANGED <<val, vlock, start, clk, plock, shut, cancelled, ticks, serving, ck, crd, cs, buf, biv, pend, err>>

(* ------------------------------------------------------------ produce (shared by Collect, run loop, Shutdown) *)
AfterComp(x) == IF x \in Cols THEN "ret" ELSE "export"
PLock(x) == /\ pc[x] = "plock" /\ plock[crd[x]] = "none"
            /\ plock' = [plock EXCEPT ![crd[x]] = x]
            /\ cs' = [cs EXCEPT ![x] = 1] /\ buf' = [buf EXCEPT ![x] = {}] /\ biv' = [biv EXCEPT ![x] = {}]
            /\ Go(x, "comp") /\ Quiet
            /\ UNCHANGED <<val, vlock, start, clk, shut, cancelled, ticks, serving, ridx, rp, ck, crd, pend, err>>
(* streams cs[x]..hi are computed in this step (Eager: as far as the stream mutexes are free) *)
Hi(x) == LET r == crd[x]
             free == {j \in cs[x]..NS : \A s \in cs[x]..j : vlock[r][s] = "none"}
         IN IF Eager THEN (CHOOSE j \in free : \A k \in free : k <= j) ELSE cs[x]
Comp(x) ==
  /\ pc[x] = "comp" /\ pend[x] = {}
  /\ ~(x \in Runs /\ cs[x] = 1 /\ cancelled[crd[x]] /\ Abort = "must")
  /\ LET r == crd[x] IN
     /\ vlock[r][cs[x]] = "none"
     /\ LET hi == Hi(x)
            S == cs[x]..hi
            delta == RD[r].temp = "delta"
            T(s) == clk[r] + (s - cs[x]) + 1
        IN
        /\ buf' = [buf EXCEPT ![x] = @ \cup UNION {val[r][s] : s \in S}]
        /\ biv' = [biv EXCEPT ![x] = @ \cup {[inst |-> Streams[s], st |-> start[r][s], t |-> T(s)] : s \in {q \in S : val[r][q] # {}}}]
        /\ clk' = [clk EXCEPT ![r] = @ + (hi - cs[x]) + 1]
        /\ IF delta /\ Variant = "split"
             THEN \* copy only; the clear happens in a second critical section (Clear)
                  /\ pend' = [pend EXCEPT ![x] = S] /\ UNCHANGED <<val, start, cs, plock, pc>>
             ELSE /\ val' = [val EXCEPT ![r] = [s \in 1..NS |-> IF s \in S /\ delta /\ Variant # "noclear" THEN {} ELSE @[s]]]
                  /\ start' = [start EXCEPT ![r] = [s \in 1..NS |-> IF s \in S /\ delta /\ Variant # "nostart" THEN T(s) ELSE @[s]]]
                  /\ UNCHANGED pend
                  /\ IF hi = NS THEN plock' = [plock EXCEPT ![r] = "none"] /\ Go(x, AfterComp(x)) /\ UNCHANGED cs
                               ELSE cs' = [cs EXCEPT ![x] = hi + 1] /\ UNCHANGED <<plock, pc>>
  /\ Quiet
  /\ UNCHANGED <<vlock, shut, cancelled, ticks, serving, ridx, rp, ck, crd, err>>
(* only reachable with Variant = "split": the second critical section of the broken delta *)
Clear(x) ==
  /\ pc[x] = "comp" /\ pend[x] # {}
  /\ LET r == crd[x]  S == pend[x]  hi == CHOOSE j \in S : \A k \in S : k <= j IN
     /\ \A s \in S : vlock[r][s] = "none"
     /\ val' = [val EXCEPT ![r] = [s \in 1..NS |-> IF s \in S THEN {} ELSE @[s]]]
     /\ start' = [start EXCEPT ![r] = [s \in 1..NS |-> IF s \in S THEN clk[r] ELSE @[s]]]
     /\ pend' = [pend EXCEPT ![x] = {}]
     /\ IF hi = NS THEN plock' = [plock EXCEPT ![r] = "none"] /\ Go(x, AfterComp(x)) /\ UNCHANGED cs
                  ELSE cs' = [cs EXCEPT ![x] = hi + 1] /\ UNCHANGED <<plock, pc>>
  /\ Quiet
  /\ UNCHANGED <<vlock, clk, shut, cancelled, ticks, serving, ridx, rp, ck, crd, buf, biv, err>>

(* ------------------------------------------------------------ Collect callers *)
CCall(c) == /\ pc[c] = "idle" /\ ck[c] < NCol
            /\ Obs([ev |-> "Call", op |-> "Collect", proc |-> c, rd |-> ColRd[c]])
            /\ IF shut[ColRd[c]]         \* sdkProducer already swapped: ErrReaderShutdown, nothing collected
                 THEN /\ Go(c, "ret") /\ err' = [err EXCEPT ![c] = "shutdown"]
                      /\ buf' = [buf EXCEPT ![c] = {}] /\ biv' = [biv EXCEPT ![c] = {}] /\ UNCHANGED <<plock, cs>>
                 ELSE /\ err' = [err EXCEPT ![c] = ""]
                      /\ IF Eager /\ plock[ColRd[c]] = "none"
                           THEN /\ plock' = [plock EXCEPT ![ColRd[c]] = c] /\ cs' = [cs EXCEPT ![c] = 1]
                                /\ buf' = [buf EXCEPT ![c] = {}] /\ biv' = [biv EXCEPT ![c] = {}] /\ Go(c, "comp")
                           ELSE Go(c, "plock") /\ UNCHANGED <<plock, cs, buf, biv>>
            /\ UNCHANGED <<val, vlock, start, clk, shut, cancelled, ticks, serving, ridx, rp, ck, crd, pend>>
CRet(c) == /\ pc[c] = "ret"
           /\ Obs([ev |-> "Ret", op |-> "Collect", proc |-> c, rd |-> ColRd[c], err |-> err[c],
                   one |-> buf[c], dup |-> {}, bad |-> FALSE, iv |-> biv[c]])
           /\ ck' = [ck EXCEPT ![c] = @ + 1] /\ Go(c, "idle")
           /\ buf' = [buf EXCEPT ![c] = {}] /\ biv' = [biv EXCEPT ![c] = {}]
           /\ UNCHANGED <<val, vlock, start, clk, plock, shut, cancelled, ticks, serving, ridx, rp, crd, cs, pend, err>>

(* ------------------------------------------------------------ periodic reader: run loop *)
(* Go's select chooses among the ready cases: a tick or a flush request may still be served after cancel *)
Tick(x) == /\ pc[x] = "select" /\ ticks[RunRd(x)] < MaxTicks
           /\ ticks' = [ticks EXCEPT ![RunRd(x)] = @ + 1] /\ Go(x, "plock") /\ Quiet
           /\ UNCHANGED <<val, vlock, start, clk, plock, shut, cancelled, serving, ridx, rp, ck, crd, cs, buf, biv, pend, err>>
FlushRecv(x, f) == /\ pc[x] = "select" /\ pc[f] = "send" /\ FRd[f] = RunRd(x)
                   /\ serving' = [serving EXCEPT ![RunRd(x)] = f]
                   /\ pc' = [pc EXCEPT ![x] = "plock", ![f] = "wait"] /\ Quiet
                   /\ UNCHANGED <<val, vlock, start, clk, plock, shut, cancelled, ticks, ridx, rp, ck, crd, cs, buf, biv, pend, err>>
RunStop(x) == /\ pc[x] = "select" /\ cancelled[RunRd(x)] /\ Go(x, "done") /\ Quiet /\ UNCHANGED proto
RunAbort(x) == /\ pc[x] = "comp" /\ cs[x] = 1 /\ pend[x] = {} /\ cancelled[RunRd(x)] /\ Abort # "never"
               /\ plock' = [plock EXCEPT ![RunRd(x)] = "none"]
               /\ LET f == serving[RunRd(x)] IN
                  IF f = "none" THEN Go(x, "select") /\ UNCHANGED <<serving, err>>
                  ELSE /\ pc' = [pc EXCEPT ![x] = "select", ![f] = "ret"] /\ err' = [err EXCEPT ![f] = "other"]
                       /\ serving' = [serving EXCEPT ![RunRd(x)] = "none"]
               /\ Quiet
               /\ UNCHANGED <<val, vlock, start, clk, shut, cancelled, ticks, ridx, rp, ck, crd, cs, buf, biv, pend>>
RunExport(x) == /\ pc[x] = "export"
                /\ Obs([ev |-> "Export", rd |-> RunRd(x), src |-> "run", one |-> buf[x], dup |-> {}, bad |-> FALSE, iv |-> biv[x]])
                /\ LET f == serving[RunRd(x)] IN
                   IF f = "none" THEN Go(x, "select") /\ UNCHANGED serving
                   ELSE pc' = [pc EXCEPT ![x] = "select", ![f] = "ret"] /\ serving' = [serving EXCEPT ![RunRd(x)] = "none"]
                /\ buf' = [buf EXCEPT ![x] = {}] /\ biv' = [biv EXCEPT ![x] = {}]
                /\ UNCHANGED <<val, vlock, start, clk, plock, shut, cancelled, ticks, ridx, rp, ck, crd, cs, pend, err>>

(* D1: produce ran the compute functions but returns the callback's error: collectAndExport / Shutdown skip *)
(* the export (the data is gone); a Collect caller gets the data together with the error                   *)
DropOnCbErr(x) == /\ CbErr /\ x \in Runs \cup Stoppers /\ pc[x] = "export"
                  /\ Obs([ev |-> "CbErr", src |-> IF x \in Runs THEN "run" ELSE x])
                  /\ buf' = [buf EXCEPT ![x] = {}] /\ biv' = [biv EXCEPT ![x] = {}]
                  /\ IF x \in Stoppers
                       THEN Go(x, "ret") /\ err' = [err EXCEPT ![x] = "other"] /\ UNCHANGED serving
                       ELSE LET f == serving[RunRd(x)] IN
                            IF f = "none" THEN Go(x, "select") /\ UNCHANGED <<serving, err>>
                            ELSE /\ pc' = [pc EXCEPT ![x] = "select", ![f] = "ret"] /\ err' = [err EXCEPT ![f] = "other"]
                                 /\ serving' = [serving EXCEPT ![RunRd(x)] = "none"]
                  /\ UNCHANGED <<val, vlock, start, clk, plock, shut, cancelled, ticks, ridx, rp, ck, crd, cs, pend>>
PartialOnCbErr(c) == /\ CbErr /\ c \in Cols /\ pc[c] = "ret" /\ err[c] = ""
                     /\ Obs([ev |-> "CbErr", src |-> c]) /\ err' = [err EXCEPT ![c] = "partial"]
                     /\ UNCHANGED <<val, vlock, start, clk, plock, shut, cancelled, ticks, serving, ridx, rp, ck, crd, cs, buf, biv, pend, pc>>

(* ------------------------------------------------------------ ForceFlush *)
FCall(f) == /\ pc[f] = "idle" /\ Go(f, "send")
            /\ Obs([ev |-> "Call", op |-> "FF", proc |-> f, rd |-> FRd[f]]) /\ UNCHANGED proto
FGone(f) == /\ pc[f] = "send" /\ pc[Run(FRd[f])] = "done"      \* <-r.done: ErrReaderShutdown
            /\ err' = [err EXCEPT ![f] = "shutdown"] /\ Go(f, "ret") /\ Quiet
            /\ UNCHANGED <<val, vlock, start, clk, plock, shut, cancelled, ticks, serving, ridx, rp, ck, crd, cs, buf, biv, pend>>
FRet(f) == /\ pc[f] = "ret" /\ Go(f, "done")
           /\ Obs([ev |-> "Ret", op |-> "FF", proc |-> f, rd |-> FRd[f], err |-> err[f]]) /\ UNCHANGED proto

(* ------------------------------------------------------------ Shutdown (sync.Once per reader) *)
SCall(z) == /\ pc[z] = "idle"
            /\ Obs([ev |-> "Call", op |-> "SD", proc |-> z, rd |-> SRd[z]])
            /\ LET nxt == IF \E o \in Stoppers : o # z /\ SRd[o] = SRd[z] /\ pc[o] \notin {"idle", "oncewait"} THEN "oncewait"
                          ELSE IF RD[SRd[z]].kind = "periodic" THEN "cancel" ELSE "swap" IN
               IF Eager /\ nxt = "cancel"      \* r.cancel() follows the call at once
                 THEN Go(z, "waitdone") /\ cancelled' = [cancelled EXCEPT ![SRd[z]] = TRUE]
                 ELSE Go(z, nxt) /\ UNCHANGED cancelled
            /\ UNCHANGED <<val, vlock, start, clk, plock, shut, ticks, serving, ridx, rp, ck, crd, cs, buf, biv, pend, err>>
SCancel(z) == /\ pc[z] = "cancel" /\ cancelled' = [cancelled EXCEPT ![SRd[z]] = TRUE] /\ Go(z, "waitdone") /\ Quiet
              /\ UNCHANGED <<val, vlock, start, clk, plock, shut, ticks, serving, ridx, rp, ck, crd, cs, buf, biv, pend, err>>
SWaitDone(z) == /\ pc[z] = "waitdone" /\ pc[Run(SRd[z])] = "done" /\ Go(z, "swap") /\ Quiet /\ UNCHANGED proto
SSwap(z) == /\ pc[z] = "swap" /\ shut' = [shut EXCEPT ![SRd[z]] = TRUE]
            /\ Go(z, IF RD[SRd[z]].kind = "periodic" /\ Variant # "nofinal" THEN "plock" ELSE "ret") /\ Quiet
            /\ UNCHANGED <<val, vlock, start, clk, plock, cancelled, ticks, serving, ridx, rp, ck, crd, cs, buf, biv, pend, err>>
SExport(z) == /\ pc[z] = "export" /\ Go(z, "ret")
              /\ Obs([ev |-> "Export", rd |-> SRd[z], src |-> z, one |-> buf[z], dup |-> {}, bad |-> FALSE, iv |-> biv[z]])
              /\ buf' = [buf EXCEPT ![z] = {}] /\ biv' = [biv EXCEPT ![z] = {}]
              /\ UNCHANGED <<val, vlock, start, clk, plock, shut, cancelled, ticks, serving, ridx, rp, ck, crd, cs, pend, err>>
SOnceWait(z) == /\ pc[z] = "oncewait" /\ \E o \in Stoppers : o # z /\ SRd[o] = SRd[z] /\ pc[o] = "done"
                /\ err' = [err EXCEPT ![z] = "shutdown"] /\ Go(z, "ret") /\ Quiet
                /\ UNCHANGED <<val, vlock, start, clk, plock, shut, cancelled, ticks, serving, ridx, rp, ck, crd, cs, buf, biv, pend>>
SRet(z) == /\ pc[z] = "ret" /\ Go(z, "done")
           /\ Obs([ev |-> "Ret", op |-> "SD", proc |-> z, rd |-> SRd[z], err |-> err[z]]) /\ UNCHANGED proto

Next == \/ \E g \in Recs : RCall(g) \/ RLock(g) \/ RUnlock(g) \/ RRet(g)
        \/ \E x \in Collecting : PLock(x) \/ Comp(x) \/ Clear(x) \/ DropOnCbErr(x) \/ PartialOnCbErr(x)
        \/ \E c \in Cols : CCall(c) \/ CRet(c)
        \/ \E x \in Runs : Tick(x) \/ RunStop(x) \/ RunAbort(x) \/ RunExport(x) \/ \E f \in Flushers : FlushRecv(x, f)
        \/ \E f \in Flushers : FCall(f) \/ FGone(f) \/ FRet(f)
        \/ \E z \in Stoppers : SCall(z) \/ SCancel(z) \/ SWaitDone(z) \/ SSwap(z) \/ SExport(z) \/ SOnceWait(z) \/ SRet(z)

Spec == Init /\ [][Next]_vars
Fairness == /\ \A g \in Recs : WF_vars(RLock(g) \/ RUnlock(g) \/ RRet(g))
            /\ \A x \in Collecting : WF_vars(PLock(x) \/ Comp(x) \/ Clear(x))
            /\ \A c \in Cols : WF_vars(CRet(c))
            /\ \A x \in Runs : WF_vars(RunStop(x) \/ RunExport(x) \/ RunAbort(x)) /\ \A f \in Flushers : WF_vars(FlushRecv(x, f))
            /\ \A f \in Flushers : WF_vars(FGone(f) \/ FRet(f))
            /\ \A z \in Stoppers : WF_vars(SCancel(z) \/ SWaitDone(z) \/ SSwap(z) \/ SExport(z) \/ SOnceWait(z) \/ SRet(z))
FairSpec == Spec /\ Fairness

(* ------------------------------------------------------------ properties *)
Contract == bad \subseteq (IF CbErr THEN {"lost-after-callback-error"} ELSE {})
Strict == bad = {}
(* mutual exclusion / lock discipline of the mechanism itself *)
LocksOK == /\ \A r \in Readers : \A s \in 1..NS : vlock[r][s] \in Recs \cup {"none"}
           /\ \A r \in Readers : plock[r] = "none" \/ (pc[plock[r]] = "comp" /\ crd[plock[r]] = r)
           /\ \A g \in Recs : (pc[g] = "held") = (\E r \in Readers : \E s \in 1..NS : vlock[r][s] = g)
(* internal conservation (state-level, stronger than the API contract): every measurement applied to a  *)
(* delta pipeline is in the map, in a collector's buffer, or already reported -- exactly once           *)
Applied(g, p) == {Plan[g][i] : i \in 1..(ridx[g] - 1)}
                 \cup (IF ridx[g] <= Len(Plan[g]) /\ (rp[g] > p \/ (rp[g] = p /\ pc[g] \in {"held", "ret"}) \/ pc[g] = "ret")
                         THEN {Cur(g)} ELSE {})
InPipes(r) == \E p \in 1..Len(Pipes) : Pipes[p] = r
PIdx(r) == CHOOSE p \in 1..Len(Pipes) : Pipes[p] = r
Conserved ==
  \A r \in Readers : RD[r].temp = "delta" /\ InPipes(r) /\ PIdx(r) <= NP =>
    LET inmap == UNION {val[r][s] : s \in 1..NS}
        inbuf == UNION {buf[x] : x \in {y \in Collecting : crd[y] = r /\ pc[y] \in (IF y \in Cols THEN {"comp", "ret"} ELSE {"comp", "export"})}}
    IN /\ (UNION {Applied(g, PIdx(r)) : g \in Recs}) = inmap \cup inbuf \cup mon.covered[r]
       /\ inmap \cap inbuf = {} /\ inmap \cap mon.covered[r] = {} /\ inbuf \cap mon.covered[r] = {}
AllDone == /\ \A g \in Recs : pc[g] = "idle" /\ ridx[g] > Len(Plan[g])
           /\ \A c \in Cols : pc[c] = "idle" /\ ck[c] = NCol
           /\ \A f \in Flushers : pc[f] = "done"
           /\ \A z \in Stoppers : pc[z] = "done"
NoStuck == (~ENABLED Next) => AllDone
Termination == /\ \A g \in Recs : (pc[g] = "lock") ~> (pc[g] = "idle")
               /\ \A c \in Cols : (pc[c] \in {"plock", "comp"}) ~> (pc[c] = "idle")
               /\ \A f \in Flushers : (pc[f] = "send") ~> (pc[f] = "done")
               /\ \A z \in Stoppers : (pc[z] \notin {"idle", "done"}) ~> (pc[z] = "done")
=============================================================================
