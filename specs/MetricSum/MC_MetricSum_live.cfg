SPECIFICATION FairSpec
CONSTANTS
  RD <- MCRD
  POrder <- MCPOrder
  Streams <- MCStreams
  Plan <- MCPlan
  ColRd <- MCColRd
  FRd <- MCFRd
  SRd <- MCSRd
  NCol = @NCOL@
  MaxTicks = @MAXTICKS@
  Variant = "@VARIANT@"
  Eager = @EAGER@
  Abort = "@ABORT@"
  CbErr = @CBERR@
PROPERTIES Termination
CHECK_DEADLOCK FALSE
