--------------------------- MODULE MC_MetricSumSim ---------------------------
EXTENDS MetricSumSim
MCRD == @RD@
MCPOrder == @PORDER@
MCStreams == @STREAMS@
MCPlan == @PLAN@
MCColRd == @COLRD@
MCFRd == @FRD@
MCSRd == @SRD@
=============================================================================
