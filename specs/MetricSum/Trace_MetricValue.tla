-------------------------- MODULE Trace_MetricValue --------------------------
(* code -> spec for the value domain: every recorded line is one step of the    *)
(* statement's monitor (MetricValueContract).  Lines:                           *)
(*   [ev "Cfg", sc, sk: stream -> [inst, num, scale, ..], rd: reader -> [temp, kind]] *)
(*   [ev "Add", sc, s, v, back]      v = the model integer recorded (times the scale); back: v = minus the stream's total *)
(*   [ev "Collect", sc, r, via, got: stream -> model integer reported (absent = 0),   *)
(*                  bad: streams whose reported number is not a multiple of the scale] *)
(* The expected sums are Want(..) below -- never computed by the harness.        *)
EXTENDS MetricValueContract, TraceKit
VARIABLES l, mo, cf, cls
vars == <<l, mo, cf, cls>>

Temps(rd) == [r \in DOMAIN rd |-> rd[r].temp]
NoCls(sk) == [s \in DOMAIN sk |-> [neg |-> FALSE, zero |-> FALSE, pos |-> FALSE, back |-> FALSE]]
Seen(c, v, back) == [neg |-> c.neg \/ v < 0, zero |-> c.zero \/ v = 0, pos |-> c.pos \/ v > 0, back |-> c.back \/ back]

Init == l = 1 /\ mo = MFresh(<<>>, <<>>) /\ cf = [sc |-> -1, sk |-> <<>>, rd |-> <<>>] /\ cls = <<>>

Report(e, s, kind, want) ==
  Viol([line |-> l, sc |-> e.sc,
        v |-> [kind |-> kind, s |-> s, r |-> e.r, via |-> e.via, temp |-> cf.rd[e.r].temp, rkind |-> cf.rd[e.r].kind,
               inst |-> cf.sk[s].inst, num |-> cf.sk[s].num, scale |-> cf.sk[s].scale, want |-> want, got |-> e.got[s],
               neg |-> cls[s].neg, zero |-> cls[s].zero, pos |-> cls[s].pos, back |-> cls[s].back]])

TStep ==
  /\ l <= Len(Trace)
  /\ LET e == Trace[l] IN
     IF e.ev = "Cfg"
       THEN mo' = MFresh(e.sk, Temps(e.rd)) /\ cf' = [sc |-> e.sc, sk |-> e.sk, rd |-> e.rd] /\ cls' = NoCls(e.sk)
     ELSE IF e.sc # cf.sc \/ e.ev \notin {"Add", "Collect"}
       THEN UNCHANGED <<mo, cf, cls>>
     ELSE IF e.ev = "Add"
       THEN mo' = MAdd(mo, e.s, e.v) /\ cls' = [cls EXCEPT ![e.s] = Seen(@, e.v, e.back)] /\ UNCHANGED cf
     ELSE LET rd == Temps(cf.rd)
              want == Want(mo, rd, e.r)
              nd == NoDecrease(mo, cf.sk)
              fl == Floor(mo, rd, e.r)
              badset == {e.bad[i] : i \in 1..Len(e.bad)}
          IN /\ \A s \in DOMAIN want :
                  IF s \in badset THEN Report(e, s, "unrepresentable-sum", want[s])
                  ELSE IF e.got[s] # want[s]
                    THEN Report(e, s, IF nd[s] /\ e.got[s] < fl[s] THEN "monotonic-decreased" ELSE "sum-mismatch", want[s])
                  ELSE TRUE
             /\ \A b \in badset \ DOMAIN want :
                  Viol([line |-> l, sc |-> e.sc, v |-> [kind |-> "unrepresentable-sum", s |-> b, r |-> e.r, via |-> e.via]])
             /\ mo' = MCollect(mo, e.r)
             /\ UNCHANGED <<cf, cls>>
  /\ l' = l + 1
TDone == l = Len(Trace) + 1 /\ Accepted(l) /\ UNCHANGED vars
Next == TStep \/ TDone
Spec == Init /\ [][Next]_vars
=============================================================================
