SPECIFICATION Spec
CONSTANTS
  RD <- MCRD
  POrder <- MCPOrder
  Req <- MCReq
  CSeq <- MCCSeq
  Adds <- MCAdds
  ColRd <- MCColRd
  NCol = @NCOL@
  Variant = "@VARIANT@"
INVARIANTS Contract Wiring NoStuck
CHECK_DEADLOCK FALSE
