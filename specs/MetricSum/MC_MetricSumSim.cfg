SPECIFICATION SimSpec
CONSTANTS
  RD <- MCRD
  POrder <- MCPOrder
  Streams <- MCStreams
  Plan <- MCPlan
  ColRd <- MCColRd
  FRd <- MCFRd
  SRd <- MCSRd
  NCol = @NCOL@
  MaxTicks = 0
  Variant = "ok"
  Eager = TRUE
  Abort = "must"
  CbErr = FALSE
INVARIANTS Contract
CHECK_DEADLOCK FALSE
