----------------------------- MODULE MetricSumSim -----------------------------
(* spec -> code: TLC -simulate over MetricSum (Eager = TRUE) with a history of   *)
(* gate releases.  The gates are natural (user-supplied components, no hooks):   *)
(*   <g>:<n>@call   harness gate before the n-th Add of recorder g               *)
(*   <g>:<n>@f<p>   exemplar filter inside the p-th pipeline's stream mutex      *)
(*   <c>:<k>@call   harness gate before the k-th Collect of collector c          *)
(*   <x>@cb         observable callback inside the pipeline mutex, before the    *)
(*                  compute functions (x = <c>:<k> | run_<r> | <stopper>)        *)
(*   <x>@export     the exporter (run loop or Shutdown)                          *)
(*   <f>@call, <z>@call   harness gates before ForceFlush / Shutdown             *)
(* A real goroutine that has performed an action waits at the gate that follows  *)
(* it; each simulated action of process P appends the gate P is waiting at       *)
(* (last[P]) -- "release P now".  Steps with no gate in front (last = "") happen *)
(* at once (free-running goroutines have priority over gate releases, which is   *)
(* what happens on the real code: gates are held for tens of microseconds).      *)
(* Interval ticks cannot be gated: MaxTicks = 0.                                 *)
EXTENDS MetricSum, Json

VARIABLES hist, last, fin
svars == <<vars, hist, last, fin>>

GK(g) == g \o ":" \o ToString(ridx[g])
CK(c) == c \o ":" \o ToString(ck[c] + 1)
XK(x) == IF x \in Cols THEN CK(x) ELSE x
Rel(x, after) == /\ hist' = (IF last[x] = "" THEN hist ELSE Append(hist, last[x]))
                 /\ last' = [last EXCEPT ![x] = after]
                 /\ UNCHANGED fin
Keep == UNCHANGED <<hist, last, fin>>
(* the gate a recorder waits at after the step: inside pipeline rp' if it holds a stream mutex *)
RGate(g) == IF pc'[g] = "held" THEN GK(g) \o "@f" \o ToString(rp'[g]) ELSE ""

(* all actions of one process, with the gate bookkeeping *)
SimProc(x) ==
  \/ /\ x \in Recs
     /\ \/ RCall(x) /\ Rel(x, RGate(x))
        \/ RLock(x) /\ Rel(x, RGate(x))
        \/ RUnlock(x) /\ Rel(x, RGate(x))
        \/ RRet(x) /\ Rel(x, x \o ":" \o ToString(ridx[x] + 1) \o "@call")
  \/ /\ x \in Collecting
     /\ \/ PLock(x) /\ Rel(x, XK(x) \o "@cb")
        \/ Comp(x) /\ Rel(x, IF pc'[x] = "export" THEN x \o "@export" ELSE "")
  \/ /\ x \in Cols
     /\ \/ CCall(x) /\ Rel(x, IF pc'[x] = "comp" THEN CK(x) \o "@cb" ELSE "")
        \/ CRet(x) /\ Rel(x, x \o ":" \o ToString(ck[x] + 2) \o "@call")
  \/ /\ x \in Runs
     /\ \/ RunStop(x) /\ Rel(x, "")
        \/ RunExport(x) /\ Rel(x, "")
        \/ RunAbort(x) /\ Rel(x, "")
        \/ \E f \in Flushers : FlushRecv(x, f) /\ Keep
  \/ /\ x \in Flushers
     /\ \/ FCall(x) /\ Rel(x, "")
        \/ (FGone(x) \/ FRet(x)) /\ Keep
  \/ /\ x \in Stoppers
     /\ \/ SCall(x) /\ Rel(x, "")
        \/ (SCancel(x) \/ SWaitDone(x) \/ SSwap(x) \/ SOnceWait(x) \/ SRet(x)) /\ Keep
        \/ SExport(x) /\ Rel(x, "")
(* a goroutine that is not waiting at a gate runs on by itself: its steps come before any gate release *)
FreeEnabled == \E x \in Procs : last[x] = "" /\ ENABLED SimProc(x)
SimNext == \E x \in Procs : (last[x] = "" \/ ~FreeEnabled) /\ SimProc(x)

Finish == /\ ~fin /\ (AllDone \/ ~ENABLED Next)
          /\ PrintT("BEHAVIOUR " \o ToJson([script |-> hist, alldone |-> AllDone, bad |-> bad]))
          /\ fin' = TRUE /\ UNCHANGED <<vars, hist, last>>

SimInit == /\ Init /\ hist = <<>> /\ fin = FALSE
           /\ last = [x \in Procs |-> IF x \in Recs THEN x \o ":1@call"
                                      ELSE IF x \in Cols THEN x \o ":1@call"
                                      ELSE IF x \in Runs THEN "" ELSE x \o "@call"]
SimSpec == SimInit /\ [][(~fin /\ SimNext) \/ Finish]_svars
=============================================================================
