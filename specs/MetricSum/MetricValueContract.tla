------------------------- MODULE MetricValueContract -------------------------
(* The C02 statement over VALUES (see MetricValue.tla): pure operators, no      *)
(* constants; used by the exhaustive model (MetricValue.tla: the mechanism must *)
(* refine it, its answers are the expected results of the edge replay) and by   *)
(* the trace monitor (Trace_MetricValue.tla).                                   *)
EXTENDS Integers, Sequences, FiniteSets, TLC

RECURSIVE Pow4(_)
Pow4(k) == IF k = 0 THEN 1 ELSE 4 * Pow4(k - 1)
Mono(sk, s) == sk[s].inst \in {"counter", "ocounter"}
IsObs(sk, s) == sk[s].inst \in {"ocounter", "oupdown"}

(* ------------------------------------------------------------------ contract (the statement) *)
MFresh(sk, rd) == [tot |-> [s \in DOMAIN sk |-> 0],                                  \* sum of the measurements recorded
                   nonneg |-> [s \in DOMAIN sk |-> TRUE],                            \* every input so far was >= 0
                   rep |-> [r \in DOMAIN rd |-> [s \in DOMAIN sk |-> 0]]]            \* delta: sum of r's reports; cumulative: r's latest value
MAdd(mo, s, v) == [mo EXCEPT !.tot[s] = @ + v, !.nonneg[s] = @ /\ v >= 0]
(* what a collection of r must report now (a stream without a data point reports 0) *)
Want(mo, rd, r) == [s \in DOMAIN mo.tot |-> IF rd[r] = "delta" THEN mo.tot[s] - mo.rep[r][s] ELSE mo.tot[s]]
MCollect(mo, r) == [mo EXCEPT !.rep[r] = mo.tot]
(* "a monotonic sum never decreases when inputs are non-negative" *)
NoDecrease(mo, sk) == [s \in DOMAIN sk |-> Mono(sk, s) /\ mo.nonneg[s]]
Floor(mo, rd, r) == [s \in DOMAIN mo.tot |-> IF rd[r] = "delta" THEN 0 ELSE mo.rep[r][s]]
=============================================================================
