-------------------------- MODULE MetricSumContract --------------------------
(* The C02 statement as a TOTAL monitor over API-observable events.            *)
(*                                                                            *)
(* A measurement is identified by id = <<key, i>> (key = instrument|attribute  *)
(* set, i = index of the measurement in that stream; on the real code its      *)
(* value is +-4^i, so the base-4 digits of every reported sum give the         *)
(* multiplicity of every measurement -- decoded in Trace_MetricSum.tla).       *)
(* A *report* is what one collection of one reader hands out: the return of a  *)
(* Collect call, or a payload given to the exporter of a periodic reader       *)
(* (interval tick, ForceFlush, final collection of Shutdown).                  *)
(*                                                                            *)
(* Normalised events (records; fields beyond these are ignored):               *)
(*   [ev "Call"|"Ret", op "Add", id]                                           *)
(*   [ev "Call", op "Collect"|"FF"|"SD", proc, rd]                             *)
(*   [ev "Ret",  op "Collect", proc, rd, err, one, dup, bad, iv (, split)]     *)
(*   [ev "Ret",  op "FF"|"SD", proc, rd, err]                                  *)
(*   [ev "Export", rd, src, one, dup, bad, iv]  src = "run" | proc of Shutdown *)
(*   [ev "CbErr", src]   an observable callback returned an error (logged inside *)
(*                       the callback); Collect then returns err = "partial":    *)
(*                       the data is handed out together with the error          *)
(* err = "" means success.  one/dup = ids reported with multiplicity 1 / >= 2, *)
(* bad = the sum was not decodable, iv = {[inst, st, t]} reported intervals    *)
(* (ranks of the SDK's own timestamps; never the harness's clock).             *)
(* Only sound orderings are used: Call is recorded before the call, Ret after  *)
(* the return, Export inside the exporter, all with one atomic sequence.       *)
(* Every event is always accepted; Step returns the broken clauses.            *)
EXTENDS Naturals, Sequences, FiniteSets, TLC

Fresh(cfg) == [cfg |-> cfg,          \* rd -> [temp |-> "delta"|"cumulative", kind |-> "manual"|"periodic", wired |-> BOOLEAN (optional)]
               called |-> {},        \* ids whose Add has been called
               returned |-> {},      \* ids whose Add has returned
               covered |-> [r \in DOMAIN cfg |-> {}],   \* ids in completed reports of r
               reports |-> [r \in DOMAIN cfg |-> {}],   \* distinct completed reports of a cumulative r
               lastRun |-> [r \in DOMAIN cfg |-> {}],   \* last run-loop export of r
               iv |-> [r \in DOMAIN cfg |-> {}],        \* intervals reported by r
               snap |-> <<>>,        \* proc -> returned at its current Call
               csnap |-> <<>>,       \* proc -> covered[rd] at its current Call
               inflight |-> [r \in DOMAIN cfg |-> {}],  \* procs inside a Collect / Shutdown call on r
               owe |-> {},           \* [id, rd, via, J]: id must still be reported to rd by one of J
               runDone |-> [r \in DOMAIN cfg |-> FALSE], \* a Shutdown of r returned nil
               cberr |-> FALSE]      \* an observable callback returned an error during some collection

(* wired = the instruments resolved for this reader (instrument creation returns a usable instrument together with *)
(* an error when only some readers / views can be served); a reader for which resolution failed is unconstrained   *)
Wired(m, rd) == IF "wired" \in DOMAIN m.cfg[rd] THEN m.cfg[rd].wired ELSE TRUE
Put(f, k, v) == [x \in (DOMAIN f) \cup {k} |-> IF x = k THEN v ELSE f[x]]
Key(id) == id[1]
Keys(S) == {Key(x) : x \in S}

(* ---- clauses evaluated when a report R (= one \cup dup) of reader rd becomes visible *)
ReportViols(m, rd, R, e) ==
  LET temp == m.cfg[rd].temp IN
  (IF e.bad THEN {[kind |-> "undecodable-sum", rd |-> rd]} ELSE {})
  \cup (IF "split" \in DOMAIN e /\ e.split # {}     \* one stream (instrument identity, attribute set) in two data points
          THEN {[kind |-> "stream-reported-twice", rd |-> rd, keys |-> e.split]} ELSE {})
  \cup (IF e.dup # {} THEN {[kind |-> "double-counted", rd |-> rd, temp |-> temp, ids |-> e.dup]} ELSE {})
  \cup (IF R \ m.called # {} THEN {[kind |-> "phantom", rd |-> rd, ids |-> R \ m.called]} ELSE {})
  \cup (IF temp = "delta" /\ R \cap m.covered[rd] # {}
          THEN {[kind |-> "double-counted", rd |-> rd, temp |-> temp, ids |-> R \cap m.covered[rd]]} ELSE {})
  \cup (IF temp = "cumulative" /\ \E P \in m.reports[rd] : Keys(P \ R) \cap Keys(R \ P) # {}
          THEN {[kind |-> "cumulative-not-running-total", rd |-> rd]} ELSE {})
  \cup (IF \E x \in e.iv : x.st > x.t THEN {[kind |-> "interval-inverted", rd |-> rd]} ELSE {})
  \cup (IF temp = "delta" /\ \E x \in e.iv : \E y \in m.iv[rd] :
                                x.inst = y.inst /\ ~(x.st >= y.t \/ y.st >= x.t)
          THEN {[kind |-> "delta-intervals-overlap", rd |-> rd]} ELSE {})
  \cup (IF temp = "cumulative" /\ \E x \in e.iv : \E y \in m.iv[rd] : x.inst = y.inst /\ x.st # y.st
          THEN {[kind |-> "cumulative-start-moved", rd |-> rd]} ELSE {})

AddReport(m, rd, R, e) ==
  [m EXCEPT !.covered[rd] = @ \cup R,
            !.reports[rd] = IF m.cfg[rd].temp = "cumulative" THEN @ \cup {R} ELSE @,
            !.iv[rd] = @ \cup e.iv]

(* Known deviation of the code (known_findings/C02.json): when an observable callback returns an error,  *)
(* pipeline.produce still runs every compute function (delta maps cleared) but returns the error, and the *)
(* periodic reader then skips the export: the interval's measurements are never handed to the exporter.   *)
Lost(m, rd, via, id) == [kind |-> IF m.cberr THEN "lost-after-callback-error" ELSE "lost", rd |-> rd, via |-> via,
                         temp |-> m.cfg[rd].temp, rkind |-> m.cfg[rd].kind, id |-> id]

(* ---- debts: process j (a proc, or "run") finished a collection of rd; entries now covered are paid, *)
(* entries that nobody can pay any more are lost                                                       *)
Settle(m, rd, j) ==
  LET open == {o \in m.owe : ~(o.rd = rd /\ o.id \in m.covered[rd])}
      upd  == {IF o.rd = rd THEN [o EXCEPT !.J = @ \ {j}] ELSE o : o \in open}
      dead == {o \in upd : o.J = {}}
  IN <<[m EXCEPT !.owe = upd \ dead],
       {Lost(m, o.rd, o.via, o.id) : o \in dead}>>

(* ---- a successful Collect / ForceFlush / Shutdown of rd returned: everything whose Add had returned *)
(* before the call must be in a completed report of rd, or be owed by a collection still in flight     *)
Oblige(m, rd, proc, op) ==
  LET missing == m.snap[proc] \ m.covered[rd]
      J == (m.inflight[rd] \ {proc})
           \cup (IF op = "Collect" /\ m.cfg[rd].kind = "periodic" /\ ~m.runDone[rd] THEN {"run"} ELSE {})
  IN IF ~Wired(m, rd) THEN <<m, {}>>
     ELSE IF J = {}
       THEN <<m, {Lost(m, rd, op, x) : x \in missing}>>
       ELSE <<[m EXCEPT !.owe = @ \cup {[id |-> x, rd |-> rd, via |-> op, J |-> J] : x \in missing}], {}>>

Step(m, e) ==
  CASE e.ev = "Call" /\ e.op = "Add" -> <<[m EXCEPT !.called = @ \cup {e.id}], {}>>
    [] e.ev = "Ret" /\ e.op = "Add" -> <<[m EXCEPT !.returned = @ \cup {e.id}], {}>>
    [] e.ev = "Call" /\ e.op \in {"Collect", "SD"} ->
         <<[m EXCEPT !.snap = Put(@, e.proc, m.returned), !.csnap = Put(@, e.proc, m.covered[e.rd]),
                     !.inflight[e.rd] = @ \cup {e.proc}], {}>>
    [] e.ev = "Call" /\ e.op = "FF" -> <<[m EXCEPT !.snap = Put(@, e.proc, m.returned)], {}>>
    [] e.ev = "Ret" /\ e.op = "Collect" ->
         LET rd == e.rd
             R == e.one \cup e.dup
             m0 == [m EXCEPT !.inflight[rd] = @ \ {e.proc}, !.snap = Put(@, e.proc, {}), !.csnap = Put(@, e.proc, {})]
         IN IF e.err \notin {"", "partial"}
              THEN Settle(m0, rd, e.proc)
              ELSE LET v1 == ReportViols(m0, rd, R, e)
                             \cup (IF e.err = "" /\ Wired(m, rd) /\ m.cfg[rd].temp = "cumulative" /\ ~(m.snap[e.proc] \subseteq R)
                                     THEN {[kind |-> "cumulative-missed", rd |-> rd, ids |-> m.snap[e.proc] \ R]} ELSE {})
                             \cup (IF e.err = "" /\ m.cfg[rd].temp = "cumulative" /\ ~(m.csnap[e.proc] \subseteq R)
                                     THEN {[kind |-> "cumulative-decreased", rd |-> rd, ids |-> m.csnap[e.proc] \ R]} ELSE {})
                       m1 == AddReport(m0, rd, R, e)
                       s == Settle(m1, rd, e.proc)
                       o == IF e.err = "partial" THEN <<s[1], {}>>      \* data handed out with an error: no promise
                            ELSE Oblige([s[1] EXCEPT !.snap = m.snap], rd, e.proc, "Collect")
                   IN <<[o[1] EXCEPT !.snap = m0.snap], v1 \cup s[2] \cup o[2]>>
    [] e.ev = "Export" ->
         LET rd == e.rd
             R == e.one \cup e.dup
             v1 == ReportViols(m, rd, R, e)
                   \cup (IF m.runDone[rd] THEN {[kind |-> "export-after-shutdown", rd |-> rd]} ELSE {})
                   \cup (IF e.src = "run" /\ m.cfg[rd].temp = "cumulative" /\ ~(m.lastRun[rd] \subseteq R)
                           THEN {[kind |-> "cumulative-decreased", rd |-> rd, ids |-> m.lastRun[rd] \ R]} ELSE {})
             m1 == AddReport(m, rd, R, e)
             m2 == IF e.src = "run" THEN [m1 EXCEPT !.lastRun[rd] = R] ELSE m1
             s == IF e.src = "run" THEN Settle(m2, rd, "run") ELSE <<m2, {}>>
         IN <<s[1], v1 \cup s[2]>>
    [] e.ev = "Ret" /\ e.op = "FF" ->
         LET o == IF e.err # "" THEN <<m, {}>> ELSE Oblige(m, e.rd, e.proc, "FF")
         IN <<[o[1] EXCEPT !.snap = Put(@, e.proc, {})], o[2]>>
    [] e.ev = "Ret" /\ e.op = "SD" ->
         LET rd == e.rd
             m0 == [m EXCEPT !.inflight[rd] = @ \ {e.proc}, !.snap = Put(@, e.proc, {}), !.csnap = Put(@, e.proc, {})]
         IN IF e.err # "" \/ m.cfg[rd].kind = "manual"   \* a manual reader's Shutdown collects nothing
              THEN Settle(m0, rd, e.proc)
              ELSE LET m1 == [m0 EXCEPT !.runDone[rd] = TRUE]
                       s1 == Settle(m1, rd, e.proc)
                       s2 == Settle(s1[1], rd, "run")     \* the run loop ended before the final collection
                       o == Oblige([s2[1] EXCEPT !.snap = m.snap], rd, e.proc, "SD")
                   IN <<[o[1] EXCEPT !.snap = m0.snap], s1[2] \cup s2[2] \cup o[2]>>
    [] e.ev = "CbErr" -> <<[m EXCEPT !.cberr = TRUE], {}>>
    [] OTHER -> <<m, {}>>
=============================================================================
