---------------------------- MODULE MC_MetricSum ----------------------------
EXTENDS MetricSum
MCRD == @RD@
MCPOrder == @PORDER@
MCStreams == @STREAMS@
MCPlan == @PLAN@
MCColRd == @COLRD@
MCFRd == @FRD@
MCSRd == @SRD@
=============================================================================
