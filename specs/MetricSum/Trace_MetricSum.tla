--------------------------- MODULE Trace_MetricSum ---------------------------
(* code -> spec: every recorded line is one step of the contract monitor.       *)
(* Decoding lives here: a report carries, per stream key, the base-4 digits of  *)
(* the reported sum = multiplicity of measurement i (value +-4^i) in that sum.  *)
EXTENDS MetricSumContract, TraceKit, Integers
VARIABLES l, m, cur
vars == <<l, m, cur>>

Digits(e, lo, hi) ==
  UNION {{<<e.pts[j].k, i - 1>> : i \in {x \in 1..Len(e.pts[j].m) : e.pts[j].m[x] >= lo /\ e.pts[j].m[x] <= hi}} : j \in 1..Len(e.pts)}
(* the same measurement in two data points of one report is a double count as well *)
Twice(e) ==
  UNION {{<<e.pts[j].k, i - 1>> : i \in {x \in 1..Len(e.pts[j].m) : e.pts[j].m[x] >= 1}} \cap
         {<<e.pts[j2].k, i - 1>> : i \in {x \in 1..Len(e.pts[j2].m) : e.pts[j2].m[x] >= 1}}
         : <<j, j2>> \in {p \in (1..Len(e.pts)) \X (1..Len(e.pts)) : p[1] < p[2] /\ e.pts[p[1]].k = e.pts[p[2]].k}}
(* a stream key (instrument identity + attribute set) carried by two data points of one report *)
Split(e) == {e.pts[p[1]].k : p \in {q \in (1..Len(e.pts)) \X (1..Len(e.pts)) : q[1] < q[2] /\ e.pts[q[1]].k = e.pts[q[2]].k}}
Report(e) == [one |-> Digits(e, 1, 1) \ Twice(e), dup |-> Digits(e, 2, 3) \cup Twice(e), bad |-> e.bad,
              iv |-> {e.iv[j] : j \in 1..Len(e.iv)}, split |-> Split(e)]
Norm(e) ==
  IF e.ev \in {"Call", "Ret"} /\ e.op = "Add" THEN [ev |-> e.ev, op |-> "Add", id |-> <<e.k, e.i>>]
  ELSE IF e.ev = "Ret" /\ e.op = "Collect"
    THEN [ev |-> "Ret", op |-> "Collect", proc |-> e.proc, rd |-> e.rd, err |-> e.err] @@ Report(e)
  ELSE IF e.ev = "Export" THEN [ev |-> "Export", rd |-> e.rd, src |-> e.src] @@ Report(e)
  ELSE e

NoCfg == <<>>
Init == l = 1 /\ m = Fresh(NoCfg) /\ cur = -1
TStep == /\ l <= Len(Trace)
         /\ LET e == Trace[l] IN
            IF e.ev = "Cfg"
              THEN m' = Fresh(e.readers) /\ cur' = e.sc
              ELSE IF e.sc # cur \/ e.ev = "EndScenario"
              THEN UNCHANGED <<m, cur>>
              ELSE LET r == Step(m, Norm(e)) IN
                   /\ m' = r[1] /\ UNCHANGED cur
                   /\ \A v \in r[2] : Viol([line |-> l, sc |-> e.sc, v |-> v])
         /\ l' = l + 1
TDone == l = Len(Trace) + 1 /\ Accepted(l) /\ UNCHANGED vars
Next == TStep \/ TDone
Spec == Init /\ [][Next]_vars
=============================================================================
