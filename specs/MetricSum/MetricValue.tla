----------------------------- MODULE MetricValue -----------------------------
(* C02, the VALUE domain of measurements.                                      *)
(*                                                                            *)
(* MetricSum.tla decides WHICH measurements a report contains (ids under every *)
(* interleaving); this module decides WHAT they add up to when the values are  *)
(* negative, zero or positive, on monotonic and non-monotonic sums, recorded   *)
(* synchronously (Add) or observed by a callback, for delta and cumulative     *)
(* readers.  It is sequential (one collection point at a time): value errors   *)
(* need no race.                                                               *)
(*                                                                            *)
(* Statement, transcribed (contract part, MAdd..): for every stream the values a   *)
(* delta reader reports add up, over all its collections, to exactly the sum   *)
(* of the measurements recorded; the latest value of a cumulative reader is    *)
(* that running total; every reader sees every measurement.  The statement     *)
(* conditions ONLY the clause "a monotonic sum never decreases" on             *)
(* non-negative inputs: a negative increment on a Counter (the API asks for    *)
(* non-negative values, the SDK does not validate) is inside the quantifier    *)
(* and is summed like any other value.                                         *)
(*                                                                            *)
(* Measurement number k of a stream has the value c * 4^k with c in Signs      *)
(* (signed base-4 digits: any reported sum still tells which measurements it   *)
(* contains); the harness multiplies by a scale (1, 2^33, 2^-20, 2^600) per    *)
(* number type, so the model's integers cover int64 / float64, large and       *)
(* non-integral magnitudes exactly.                                            *)
(* An observable instrument: the application keeps its own total, the callback *)
(* observes it at every collection; "Add" on such a stream = the application's *)
(* total moves by v before the next collection.                                *)
EXTENDS MetricValueContract, Json
CONSTANTS SK,        \* stream key -> [inst |-> "counter"|"updown"|"ocounter"|"oupdown", ...]
          RD,        \* reader name -> "delta" | "cumulative"
          Signs,     \* subset of {-1, 0, 1}: the value classes offered
          MaxN,      \* measurements per stream
          MaxSteps,
          Variant    \* "ok" | deliberately wrong mechanisms TLC must find: "dropneg" | "clampdelta" | "resetobs" | "zeroobs"; "zeroskip" is equivalent
VARIABLES st, steps, act
vars == <<st, steps, act>>

(* ------------------------------------------------------------------ mechanism (sum.go / precomputedSum, per reader pipeline) *)
IFresh(sk, rd) == [m |-> [r \in DOMAIN rd |-> [s \in DOMAIN sk |-> 0]],     \* valueMap entry of the pipeline's sum aggregator
                   rp |-> [r \in DOMAIN rd |-> [s \in DOMAIN sk |-> 0]]]    \* precomputedSum.reported (delta of observables)
IAdd(im, sk, rd, s, v) ==
  IF IsObs(sk, s) THEN im                         \* the SDK learns it from the callback of the next collection
  ELSE IF Variant = "dropneg" /\ Mono(sk, s) /\ v < 0 THEN im
  ELSE IF Variant = "zeroskip" /\ v = 0 THEN im
  ELSE [im EXCEPT !.m = [r \in DOMAIN rd |-> [@[r] EXCEPT ![s] = @ + v]]]
IOut(im, sk, rd, r, app) ==
  [s \in DOMAIN sk |->
     LET raw == IF IsObs(sk, s) THEN (IF rd[r] = "delta" THEN (IF Variant = "zeroobs" /\ app[s] = 0 THEN 0 ELSE app[s] - im.rp[r][s]) ELSE app[s])
                ELSE im.m[r][s]
     IN IF Variant = "clampdelta" /\ rd[r] = "delta" /\ Mono(sk, s) /\ raw < 0 THEN 0
        ELSE IF Variant = "resetobs" /\ rd[r] = "delta" /\ IsObs(sk, s) /\ Mono(sk, s) /\ raw < 0 THEN app[s]   \* "counter reset"
        ELSE raw]
IAfter(im, sk, rd, r, app) ==
  IF rd[r] # "delta" THEN im
  ELSE [im EXCEPT !.m[r] = [s \in DOMAIN sk |-> 0],
                  !.rp[r] = [s \in DOMAIN sk |-> IF IsObs(sk, s) THEN app[s] ELSE @[s]]]   \* (zeroobs: 0 = forgotten, the same number)

(* ------------------------------------------------------------------ exhaustive exploration + edge export *)
Streams == DOMAIN SK
Readers == DOMAIN RD
Init == /\ st = [mo |-> MFresh(SK, RD), im |-> IFresh(SK, RD), n |-> [s \in Streams |-> 0]]
        /\ steps = 0
        /\ act = [op |-> "Init"]
Add(s, c) ==
  /\ st.n[s] < MaxN /\ steps < MaxSteps - 1
  /\ LET v == c * Pow4(st.n[s]) IN
     /\ st' = [mo |-> MAdd(st.mo, s, v), im |-> IAdd(st.im, SK, RD, s, v), n |-> [st.n EXCEPT ![s] = @ + 1]]
     /\ act' = [op |-> "Add", s |-> s, c |-> c, v |-> v, back |-> FALSE]
  /\ steps' = steps + 1
(* the running total returns to exactly zero (a queue length that drains, a correction that cancels everything): *)
(* the one value the signed digits cannot produce; a zero TOTAL is not a zero INCREMENT                           *)
Back(s) ==
  /\ st.n[s] < MaxN /\ steps < MaxSteps - 1 /\ st.mo.tot[s] # 0
  /\ LET v == 0 - st.mo.tot[s] IN
     /\ st' = [mo |-> MAdd(st.mo, s, v), im |-> IAdd(st.im, SK, RD, s, v), n |-> [st.n EXCEPT ![s] = @ + 1]]
     /\ act' = [op |-> "Add", s |-> s, c |-> 0, v |-> v, back |-> TRUE]
  /\ steps' = steps + 1
Collect(r) ==
  /\ steps < MaxSteps
  /\ st' = [st EXCEPT !.mo = MCollect(st.mo, r), !.im = IAfter(st.im, SK, RD, r, st.mo.tot)]
  /\ act' = [op |-> "Collect", r |-> r, temp |-> RD[r],
             out |-> Want(st.mo, RD, r),                       \* the statement's answer: what the real reader must report
             impl |-> IOut(st.im, SK, RD, r, st.mo.tot),       \* the mechanism's answer
             nd |-> NoDecrease(st.mo, SK), floor |-> Floor(st.mo, RD, r)]
  /\ steps' = steps + 1
Next == (\E s \in Streams, c \in Signs : Add(s, c)) \/ (\E s \in Streams : Back(s)) \/ (\E r \in Readers : Collect(r))
Spec == Init /\ [][Next]_vars

View == <<st, steps>>
EmitEdge == PrintT("EDGE " \o ToJson([from |-> st, act |-> act', to |-> st']))

(* the mechanism refines the statement: exact sums, for every value class *)
Conserved == act.op = "Collect" => act.impl = act.out
(* theorem of the statement (and therefore of a conserving mechanism): no decrease on non-negative inputs *)
MonoOK == act.op = "Collect" => \A s \in Streams : act.nd[s] => act.out[s] >= act.floor[s]
=============================================================================
