----------------------------- MODULE MetricIdent -----------------------------
(* Instrument identity (property C02, "every measurement is seen by every      *)
(* registered reader" per INSTRUMENT as the application sees it).              *)
(*   sdk/metric/meter.go      int64InstProvider.lookup / float64...: the meter's *)
(*                            instrument cache, one per number type, Lookup runs *)
(*                            the creation under the cache lock                  *)
(*   sdk/metric/pipeline.go   inserter.cachedAggregator (aggregator cache keyed  *)
(*                            by the full, normalised identity) and              *)
(*                            pipeline.addSync (registers the output side)       *)
(* Several instruments of one meter whose identities collide partially (same    *)
(* name, different number type / kind / unit / description) are DISTINCT        *)
(* streams that all keep exporting (the conflict is only logged); the fully     *)
(* identical request returns the same stream (measurements add up).  A request  *)
(* is wired pipeline by pipeline, so two goroutines requesting colliding        *)
(* instruments of different number types interleave; collections run in         *)
(* between.  Add and Collect are atomic here (their interleavings are           *)
(* MetricSum.tla's business); mon/bad is the same API contract.                 *)
(* The report of a collection is projected like the harness does: a data point  *)
(* of aggregator a appears under a's identity, i.e. measurement <<k, i>> held   *)
(* by a is decoded as <<key of a, i>>.                                          *)
(* Variant # "ok" (TLC must find each):                                         *)
(*   "addsync-nds"  addSync skips a stream whose (name, description, unit) is   *)
(*                  already registered: the later instrument is never reported  *)
(*   "cache-nokind" the aggregator cache ignores the instrument kind            *)
(*   "dupagg"       the identical request creates a second aggregator           *)
EXTENDS MetricSumContract, Integers

CONSTANTS RD, POrder,
          Req,       \* handle -> identity [nm, kind, num, unit, desc] requested by the application
          CSeq,      \* creator -> sequence of handles it requests, in order
          Adds,      \* recorder -> sequence of [h |-> handle, id |-> <<key, i>>]   (key = IdKey(Req[h]))
          ColRd, NCol, Variant

NH == Len(Req)
Creators == DOMAIN CSeq
Recs == DOMAIN Adds
Cols == DOMAIN ColRd
Readers == DOMAIN RD
Pipes == SelectSeq(POrder, LAMBDA r : RD[r].wired)
IdKey(q) == q.nm \o "/" \o q.kind \o "/" \o q.num \o "/" \o q.unit \o "/" \o q.desc

VARIABLES aggs,      \* sequence of identities: aggregator a (one valueMap per pipeline) was built for aggs[a]
          known,     \* reader -> aggregators in that pipeline's aggregator cache
          out,       \* reader -> aggregators whose compute function is registered (pipeline.aggregations)
          val,       \* reader -> aggregator -> ids held
          hm,        \* handle -> reader -> aggregator its measure function feeds (0 = none)
          ready,     \* handles returned to the application
          mlock,     \* number type -> creator inside that instrument cache's Lookup, or "none"
          cidx, cp, cnew, ridx, ck, mon, bad
vars == <<aggs, known, out, val, hm, ready, mlock, cidx, cp, cnew, ridx, ck, mon, bad>>

Init == /\ aggs = <<>>
        /\ known = [r \in Readers |-> {}] /\ out = [r \in Readers |-> {}]
        /\ val = [r \in Readers |-> <<>>]
        /\ hm = [h \in 1..NH |-> [r \in Readers |-> 0]]
        /\ ready = {} /\ mlock = [n \in {"int64", "float64"} |-> "none"]
        /\ cidx = [c \in Creators |-> 1] /\ cp = [c \in Creators |-> 0] /\ cnew = [c \in Creators |-> 0]
        /\ ridx = [g \in Recs |-> 1] /\ ck = [c \in Cols |-> 0]
        /\ mon = Fresh(RD) /\ bad = {}

Obs(e) == LET r == Step(mon, e) IN mon' = r[1] /\ bad' = bad \cup {v.kind : v \in r[2]}
Quiet == UNCHANGED <<mon, bad>>
CurH(c) == CSeq[c][cidx[c]]
SameAgg(q1, q2) == /\ q1.nm = q2.nm /\ q1.num = q2.num /\ q1.unit = q2.unit /\ q1.desc = q2.desc
                   /\ (Variant = "cache-nokind" \/ q1.kind = q2.kind)
SameNDU(q1, q2) == q1.nm = q2.nm /\ q1.unit = q2.unit /\ q1.desc = q2.desc

(* the instrument cache of the handle's number type: Lookup takes the lock; an identical request that is already *)
(* cached returns that instrument at once (same measure functions)                                              *)
CBegin(c) ==
  /\ cp[c] = 0 /\ cidx[c] <= Len(CSeq[c])
  /\ LET h == CurH(c)  q == Req[h] IN
     /\ mlock[q.num] = "none"
     /\ IF Variant # "dupagg" /\ \E h2 \in ready : Req[h2] = q
          THEN LET h2 == CHOOSE x \in ready : Req[x] = q IN
               /\ hm' = [hm EXCEPT ![h] = hm[h2]] /\ ready' = ready \cup {h}
               /\ cidx' = [cidx EXCEPT ![c] = @ + 1] /\ UNCHANGED <<mlock, cp, cnew, aggs, val>>
          ELSE /\ mlock' = [mlock EXCEPT ![q.num] = c] /\ cp' = [cp EXCEPT ![c] = 1]
               /\ cnew' = [cnew EXCEPT ![c] = Len(aggs) + 1]      \* the aggregator this request builds where no cache has one
               /\ aggs' = Append(aggs, q)
               /\ val' = [r \in Readers |-> Append(val[r], {})]
               /\ UNCHANGED <<hm, ready, cidx>>
  /\ Quiet /\ UNCHANGED <<known, out, ridx, ck>>
(* one pipeline: inserter.cachedAggregator -- cache hit: reuse; miss: build the aggregator and addSync its output *)
CStep(c) ==
  /\ cp[c] >= 1 /\ cp[c] <= Len(Pipes)
  /\ LET h == CurH(c)  q == Req[h]  r == Pipes[cp[c]]
         hit == {a \in known[r] : SameAgg(aggs[a], q)}
     IN IF hit # {} /\ Variant # "dupagg"
          THEN /\ hm' = [hm EXCEPT ![h][r] = CHOOSE a \in hit : TRUE] /\ UNCHANGED <<known, out>>
          ELSE /\ hm' = [hm EXCEPT ![h][r] = cnew[c]]
               /\ known' = [known EXCEPT ![r] = @ \cup {cnew[c]}]
               /\ out' = [out EXCEPT ![r] = IF Variant = "addsync-nds" /\ \E a \in out[r] : SameNDU(aggs[a], q)
                                               THEN @ ELSE @ \cup {cnew[c]}]
  /\ cp' = [cp EXCEPT ![c] = @ + 1]
  /\ Quiet /\ UNCHANGED <<aggs, val, ready, mlock, cidx, cnew, ridx, ck>>
CEnd(c) ==
  /\ cp[c] = Len(Pipes) + 1
  /\ ready' = ready \cup {CurH(c)} /\ mlock' = [mlock EXCEPT ![Req[CurH(c)].num] = "none"]
  /\ cp' = [cp EXCEPT ![c] = 0] /\ cidx' = [cidx EXCEPT ![c] = @ + 1]
  /\ Quiet /\ UNCHANGED <<aggs, known, out, val, hm, cnew, ridx, ck>>

(* Add through a returned handle: every measure function of the instrument *)
Add(g) ==
  /\ ridx[g] <= Len(Adds[g])
  /\ LET a == Adds[g][ridx[g]] IN
     /\ a.h \in ready
     /\ val' = [r \in Readers |-> IF hm[a.h][r] = 0 THEN val[r] ELSE [val[r] EXCEPT ![hm[a.h][r]] = @ \cup {a.id}]]
     /\ LET m1 == Step(mon, [ev |-> "Call", op |-> "Add", id |-> a.id])[1]
            s2 == Step(m1, [ev |-> "Ret", op |-> "Add", id |-> a.id])
        IN mon' = s2[1] /\ bad' = bad \cup {v.kind : v \in s2[2]}
  /\ ridx' = [ridx EXCEPT ![g] = @ + 1]
  /\ UNCHANGED <<aggs, known, out, hm, ready, mlock, cidx, cp, cnew, ck>>

(* Collect: the registered compute functions; projection by the reporting aggregator's identity *)
Collect(c) ==
  /\ ck[c] < NCol
  /\ LET r == ColRd[c]
         pts == UNION {{<<a, id>> : id \in val[r][a]} : a \in out[r]}
         Proj(p) == <<IdKey(aggs[p[1]]), p[2][2]>>
         seen == {Proj(p) : p \in pts}
         one == {x \in seen : Cardinality({p \in pts : Proj(p) = x}) = 1}
         split == {k \in {IdKey(aggs[a]) : a \in out[r]} :
                     Cardinality({a \in out[r] : IdKey(aggs[a]) = k /\ val[r][a] # {}}) > 1}
         m1 == Step(mon, [ev |-> "Call", op |-> "Collect", proc |-> c, rd |-> r])[1]
         s2 == Step(m1, [ev |-> "Ret", op |-> "Collect", proc |-> c, rd |-> r, err |-> "", one |-> one, dup |-> seen \ one,
                         bad |-> FALSE, iv |-> {}, split |-> split])
     IN /\ mon' = s2[1] /\ bad' = bad \cup {v.kind : v \in s2[2]}
        /\ val' = [val EXCEPT ![r] = [a \in 1..Len(aggs) |-> IF RD[r].temp = "delta" /\ a \in out[r] THEN {} ELSE @[a]]]
  /\ ck' = [ck EXCEPT ![c] = @ + 1]
  /\ UNCHANGED <<aggs, known, out, hm, ready, mlock, cidx, cp, cnew, ridx>>

Next == \/ \E c \in Creators : CBegin(c) \/ CStep(c) \/ CEnd(c)
        \/ \E g \in Recs : Add(g)
        \/ \E c \in Cols : Collect(c)
Spec == Init /\ [][Next]_vars

Contract == bad = {}
(* every returned handle feeds, in every wired pipeline, an aggregator of its own identity whose output is registered *)
Wiring == Variant = "ok" =>
            \A h \in ready : \A p \in 1..Len(Pipes) :
              LET a == hm[h][Pipes[p]] IN a # 0 /\ aggs[a] = Req[h] /\ a \in out[Pipes[p]]
AllDone == /\ \A c \in Creators : cidx[c] > Len(CSeq[c])
           /\ \A g \in Recs : ridx[g] > Len(Adds[g])
           /\ \A c \in Cols : ck[c] = NCol
NoStuck == (~ENABLED Next) => AllDone
=============================================================================
