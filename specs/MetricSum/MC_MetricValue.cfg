SPECIFICATION Spec
CONSTANTS
  SK <- MCSK
  RD <- MCRD
  Signs <- MCSigns
  MaxN = @MAXN@
  MaxSteps = @MAXSTEPS@
  Variant = "@VARIANT@"
VIEW View
ACTION_CONSTRAINT EmitEdge
INVARIANTS Conserved MonoOK
CHECK_DEADLOCK FALSE
