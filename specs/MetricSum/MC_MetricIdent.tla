---------------------------- MODULE MC_MetricIdent ----------------------------
EXTENDS MetricIdent
MCRD == @RD@
MCPOrder == @PORDER@
MCReq == @REQ@
MCCSeq == @CSEQ@
MCAdds == @ADDS@
MCColRd == @COLRD@
=============================================================================
