SPECIFICATION Spec
CONSTANTS
  Emitters <- MCEmitters
  Flushers <- MCFlushers
  Stoppers <- MCStoppers
  RecsPer = @RECSPER@
  QCap = @QCAP@
  Batch = @BATCH@
  BufSize = @BUFSIZE@
  Faults = @FAULTS@
  Ticker = @TICKER@
  CloneOnEmit = @CLONE@
  ChunkAbort = @ABORT@
  FixStopDone = @FIXA@
  FixClosed = @FIXB@
  Cancels <- MCCancels
  Admit <- MCAdmit
INVARIANTS NoDup ChunkBound QueueBound Contract DroppedCounted MuOK Stuck QuietAfterShutdown
CHECK_DEADLOCK FALSE
