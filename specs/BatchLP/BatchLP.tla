------------------------------- MODULE BatchLP -------------------------------
(* Implementation-shaped specification of the log BatchProcessor (C06).        *)
(* One action per critical section / linearization point of sdk/log/batch.go   *)
(* and sdk/log/exporter.go; see DESIGN.md Appendix A.3 and docs/notes/C06.md.   *)
(*                                                                             *)
(* Processes: emitters g (Logger.Emit -> OnEmit), the poll goroutine "poll",   *)
(* the single export goroutine "x" (exportSync: chunkExporter -> user          *)
(* exporter), flushers f (ForceFlush), stoppers s (Shutdown).                  *)
(* Locks: the queue mutex protects single atomic actions here (Enqueue,        *)
(* TryDequeue incl. the nested EnqueueExport, Flush); bufferExporter.inputMu   *)
(* is explicit because blocking sends and exporter Shutdown hold it while      *)
(* they wait.  A process that would wait for inputMu while holding the queue   *)
(* mutex is modelled as not having started its critical section yet (same      *)
(* observable behaviours: nothing times out on a lock).                        *)
(* Monitor variables (mon) observe only API-level facts and carry the          *)
(* contract; they never influence the protocol variables.                      *)
EXTENDS Naturals, Sequences, FiniteSets, TLC

CONSTANTS Emitters, RecsPer, QCap, Batch, BufSize, Flushers, Stoppers,
          Faults,       \* TRUE: the user exporter may fail an Export
          Ticker,       \* TRUE: the poll ticker may fire at any time
          CloneOnEmit,  \* TRUE: OnEmit enqueues r.Clone() (the code); FALSE: mutation "missing clone"
          ChunkAbort,   \* TRUE: chunkExporter may stop at the first failed chunk (the tree before fix c97476e, deviation D2)
          FixStopDone,  \* TRUE: sketched repair A (see "Sketched repairs" below); FALSE: the code as it is
          FixClosed,    \* TRUE: sketched repair B; FALSE: the code as it is
          Cancels,      \* callers (ForceFlush / Shutdown calls) whose context may be cancelled / expire at any moment
          Admit         \* set of named deviations admitted by Contract (Known = the code as it is; see below)

VARIABLES q,         \* ring queue contents, oldest first: sequence of [id, c]
          dropped,   \* q.dropped (overwrites since the poll goroutine last looked)
          trig,      \* pollTrigger holds a token
          kill,      \* pollKill closed
          stopped,   \* BatchProcessor.stopped
          input,     \* bufferExporter.input: sequence of [recs, resp] (recs = <<>>: flush marker)
          inputMu,   \* holder of bufferExporter.inputMu or "none"
          xstopped,  \* bufferExporter.stopped
          closed,    \* input closed
          resp,      \* response channel of a flusher / stopper: "none" | "ok" | "err"
          pc,        \* program counter of every process
          eidx,      \* emitter -> index of the record it is emitting
          plen,      \* qLen seen by the poll goroutine
          cur,       \* export request the export goroutine is working on
          sbatch,    \* records Shutdown took out with q.Flush()
          serr,      \* error Shutdown will return ("" | "err")
          caller,    \* id -> version of the caller's own record ("v0" at Emit, "v1" after it mutated it)
          qclosed,   \* repair B only: the queue refuses records (set by q.Flush() under the queue lock)
          stopDone,  \* repair A only: channel closed by the Shutdown that did the work, just before it returns
          cancelled, \* caller -> its context is done (cancelled or past its deadline)
          ferr,      \* flusher -> its ForceFlush is going to return an error (ctx.Err(), errPartialFlush)
          mon        \* monitor record
vars == <<q, dropped, trig, kill, stopped, input, inputMu, xstopped, closed, resp, pc, eidx, plen, cur, sbatch, serr, caller, qclosed, stopDone, cancelled, ferr, mon>>
proto == <<q, dropped, trig, kill, stopped, input, inputMu, xstopped, closed, resp, eidx, plen, cur, sbatch, serr, caller, qclosed, stopDone, cancelled, ferr>>

Ids == Emitters \X (1..RecsPer)
Procs == Emitters \cup Flushers \cup Stoppers \cup {"poll", "x"}
Callers == Flushers \cup Stoppers
NoItem == [recs |-> <<>>, resp |-> "none", err |-> FALSE]
Min(a, b) == IF a < b THEN a ELSE b
IdsOf(s) == {s[i].id : i \in 1..Len(s)}
Drop(s, n) == SubSeq(s, n + 1, Len(s))

(* initial values as a record: Trace_BatchLPImpl.tla re-initialises with it between recorded scenarios *)
I0 == [q |-> <<>>, dropped |-> 0, trig |-> FALSE, kill |-> FALSE, stopped |-> FALSE,
       input |-> <<>>, inputMu |-> "none", xstopped |-> FALSE, closed |-> FALSE,
       resp |-> [c \in Callers |-> "none"],
       pc |-> [p \in Procs |-> IF p = "poll" THEN "select" ELSE IF p = "x" THEN "recv" ELSE "idle"],
       eidx |-> [g \in Emitters |-> 1], plen |-> 0, cur |-> NoItem, sbatch |-> <<>>, serr |-> "",
       caller |-> [id \in Ids |-> "v0"], qclosed |-> FALSE, stopDone |-> FALSE,
       cancelled |-> [c \in Callers |-> FALSE], ferr |-> [f \in Flushers |-> FALSE],
       mon |-> [inflight |-> <<>>, handed |-> [id \in Ids |-> 0], last |-> [g \in Emitters |-> 0],
                overwritten |-> {}, ignored |-> {}, aborted |-> {}, sdheld |-> {}, returned |-> {}, flushed |-> FALSE, tooLate |-> {},
                snap |-> [c \in Callers |-> {}], early |-> [c \in Callers |-> "no"],
                shutRet |-> "no", logged |-> 0, bad |-> {}]]
Init ==
  /\ q = I0.q /\ dropped = I0.dropped /\ trig = I0.trig /\ kill = I0.kill /\ stopped = I0.stopped
  /\ input = I0.input /\ inputMu = I0.inputMu /\ xstopped = I0.xstopped /\ closed = I0.closed
  /\ resp = I0.resp /\ pc = I0.pc /\ eidx = I0.eidx /\ plen = I0.plen /\ cur = I0.cur /\ sbatch = I0.sbatch
  /\ serr = I0.serr /\ caller = I0.caller /\ qclosed = I0.qclosed /\ stopDone = I0.stopDone
  /\ cancelled = I0.cancelled /\ ferr = I0.ferr /\ mon = I0.mon

Go(p, l) == pc' = [pc EXCEPT ![p] = l]

(* ---------------------------------------------------------------- caller contexts *)
(* The context of a ForceFlush / Shutdown call is cancelled or runs past its deadline: at any moment, also before the  *)
(* call is made.  The statement promises nothing about delivery for a call that returns an error; everything           *)
(* unconditional (exactly once, order, chunk bound, exclusivity, content, nothing after a Shutdown that returned nil)   *)
(* still holds, and what an abandoned call has handed to the export buffer is still exported exactly once.             *)
Cancel(c) == /\ c \in Cancels /\ ~cancelled[c] /\ cancelled' = [cancelled EXCEPT ![c] = TRUE]
             /\ UNCHANGED <<q, dropped, trig, kill, stopped, input, inputMu, xstopped, closed, resp, pc, eidx, plen, cur, sbatch, serr, caller, qclosed, stopDone, ferr, mon>>

(* ---------------------------------------------------------------- emitters *)
ECall(g) == /\ pc[g] = "idle" /\ eidx[g] <= RecsPer /\ Go(g, "check") /\ UNCHANGED <<proto, mon>>
ECheck(g) == /\ pc[g] = "check"
             /\ IF stopped THEN (Go(g, "ret") /\ mon' = [mon EXCEPT !.ignored = @ \cup {<<g, eidx[g]>>}])
                           ELSE (Go(g, "enq") /\ UNCHANGED mon)
             /\ UNCHANGED proto
(* q.Enqueue(r.Clone()) under the queue lock: a full ring overwrites the OLDEST record.                  *)
(* Repair B: a queue that q.Flush() has closed refuses the record -- it is ignored knowingly, exactly   *)
(* like a record whose OnEmit found `stopped` set, instead of being stranded in the ring.               *)
EEnqueue(g) ==
  /\ pc[g] = "enq"
  /\ LET e == [id |-> <<g, eidx[g]>>, c |-> IF CloneOnEmit THEN "v0" ELSE "ref"]
         full == Len(q) = QCap
         q2 == IF full THEN Append(Tail(q), e) ELSE Append(q, e) IN
     IF FixClosed /\ qclosed
       THEN /\ mon' = [mon EXCEPT !.ignored = @ \cup {e.id}] /\ Go(g, "ret") /\ UNCHANGED <<q, dropped>>
       ELSE /\ q' = q2
            /\ dropped' = IF full THEN dropped + 1 ELSE dropped
            /\ mon' = [mon EXCEPT !.overwritten = IF full THEN @ \cup {Head(q).id} ELSE @,
                                   !.tooLate = IF mon.flushed THEN @ \cup {e.id} ELSE @]
            /\ Go(g, IF Len(q2) >= Batch THEN "trig" ELSE "ret")
  /\ UNCHANGED <<trig, kill, stopped, input, inputMu, xstopped, closed, resp, eidx, plen, cur, sbatch, serr, caller, qclosed, stopDone, cancelled, ferr>>
ETrigger(g) == /\ pc[g] = "trig" /\ trig' = TRUE /\ Go(g, "ret")    \* non-blocking send, capacity 1
               /\ UNCHANGED <<q, dropped, kill, stopped, input, inputMu, xstopped, closed, resp, eidx, plen, cur, sbatch, serr, caller, qclosed, stopDone, cancelled, ferr, mon>>
(* Emit returns; from now on the caller may change its own record (merged into this step) *)
ERet(g) == /\ pc[g] = "ret" /\ Go(g, "idle")
           /\ LET id == <<g, eidx[g]>> IN
              /\ mon' = [mon EXCEPT !.returned = @ \cup {id}]
              /\ caller' = [caller EXCEPT ![id] = "v1"]
           /\ eidx' = [eidx EXCEPT ![g] = @ + 1]
           /\ UNCHANGED <<q, dropped, trig, kill, stopped, input, inputMu, xstopped, closed, resp, plen, cur, sbatch, serr, qclosed, stopDone, cancelled, ferr>>

(* ---------------------------------------------------------------- poll goroutine *)
PollTick == /\ Ticker /\ pc["poll"] = "select" /\ Go("poll", "work") /\ UNCHANGED <<proto, mon>>
PollTrig == /\ pc["poll"] = "select" /\ trig /\ trig' = FALSE /\ Go("poll", "work")
            /\ UNCHANGED <<q, dropped, kill, stopped, input, inputMu, xstopped, closed, resp, eidx, plen, cur, sbatch, serr, caller, qclosed, stopDone, cancelled, ferr, mon>>
PollKill == /\ pc["poll"] = "select" /\ kill /\ Go("poll", "done") /\ UNCHANGED <<proto, mon>>
(* q.Dropped(): atomic swap of the overwrite counter, reported by the "dropped log records" warning.   *)
(* A separate step from Ready(): the recorded traces show overwrites (and buffer changes) between the *)
(* two (learnt from the implementation-level trace validation, see docs/notes/C06.md).                 *)
PollDropped == /\ pc["poll"] = "work" /\ Go("poll", "ready")
               /\ dropped' = 0 /\ mon' = [mon EXCEPT !.logged = @ + dropped]
               /\ UNCHANGED <<q, trig, kill, stopped, input, inputMu, xstopped, closed, resp, eidx, plen, cur, sbatch, serr, caller, qclosed, stopDone, cancelled, ferr>>
(* exporter.Ready() = the input channel is not full *)
PollReady == /\ pc["poll"] = "ready" /\ Go("poll", IF Len(input) < BufSize THEN "deq" ELSE "len") /\ UNCHANGED <<proto, mon>>
(* not ready: qLen = q.Len() under the queue lock -- a later moment than Ready(): a recorded trace shows the export  *)
(* goroutine emptying the buffer and an Enqueue between the two reads (found by Trace_BatchLPImpl.tla)               *)
PollLen == /\ pc["poll"] = "len" /\ plen' = Len(q) /\ Go("poll", "retrig")
           /\ UNCHANGED <<q, dropped, trig, kill, stopped, input, inputMu, xstopped, closed, resp, eidx, cur, sbatch, serr, caller, qclosed, stopDone, cancelled, ferr, mon>>
(* TryDequeue(buf[:Batch], EnqueueExport): copy out, offer to the buffer inside the queue lock, commit only on success *)
PollDequeue ==
  /\ pc["poll"] = "deq"
  /\ LET n == Min(Batch, Len(q)) IN
     IF n = 0 THEN UNCHANGED <<q, input>>                \* EnqueueExport(empty) = true without touching inputMu
     ELSE /\ inputMu = "none"
          /\ IF xstopped                                 \* only after a Shutdown whose context ended before the poll goroutine
               THEN q' = Drop(q, n) /\ UNCHANGED input    \* had exited: EnqueueExport says "true", the records are gone
               ELSE IF Len(input) >= BufSize
               THEN UNCHANGED <<q, input>>               \* buffer full: read pointer restored
               ELSE /\ input' = Append(input, [recs |-> SubSeq(q, 1, n), resp |-> "none"])
                    /\ q' = Drop(q, n)
  /\ plen' = Len(q') /\ Go("poll", "retrig")
  /\ UNCHANGED <<dropped, trig, kill, stopped, inputMu, xstopped, closed, resp, eidx, cur, sbatch, serr, caller, qclosed, stopDone, cancelled, ferr, mon>>
PollRetrig == /\ pc["poll"] = "retrig"
              /\ trig' = (trig \/ plen >= Batch) /\ plen' = 0 /\ Go("poll", "select")
              /\ UNCHANGED <<q, dropped, kill, stopped, input, inputMu, xstopped, closed, resp, eidx, cur, sbatch, serr, caller, qclosed, stopDone, cancelled, ferr, mon>>

(* ---------------------------------------------------------------- export goroutine (exportSync) *)
Respond(r, val) == IF r = "none" THEN resp ELSE [resp EXCEPT ![r] = val]
XRecv == /\ pc["x"] = "recv" /\ input # <<>>
         /\ input' = Tail(input)
         /\ IF Head(input).recs = <<>>
              THEN (resp' = Respond(Head(input).resp, "ok") /\ UNCHANGED <<pc, cur>>)     \* flush marker
              ELSE (cur' = [recs |-> Head(input).recs, resp |-> Head(input).resp, err |-> FALSE] /\ Go("x", "chunk") /\ UNCHANGED resp)
         /\ UNCHANGED <<q, dropped, trig, kill, stopped, inputMu, xstopped, closed, eidx, plen, sbatch, serr, caller, qclosed, stopDone, cancelled, ferr, mon>>
XDone == /\ pc["x"] = "recv" /\ input = <<>> /\ closed /\ Go("x", "done") /\ UNCHANGED <<proto, mon>>
Content(e) == IF e.c = "ref" THEN caller[e.id] ELSE e.c
Chunk == SubSeq(cur.recs, 1, Min(Batch, Len(cur.recs)))
(* records that arrive after a later record of the same emitter was already exported / inside one chunk *)
Late(m, ch) == {ch[i].id : i \in {k \in 1..Len(ch) : ch[k].id[2] < m.last[ch[k].id[1]]}}
Disorder(ch) == \E i \in 1..Len(ch) : \E j \in 1..(i - 1) : ch[j].id[1] = ch[i].id[1] /\ ch[j].id[2] > ch[i].id[2]
(* the user exporter's Export is entered with the next chunk *)
XBegin ==
  /\ pc["x"] = "chunk" /\ Go("x", "exporting")
  /\ LET ch == Chunk IN
     mon' = [mon EXCEPT
       !.inflight = ch,
       !.handed = [id \in Ids |-> @[id] + Cardinality({i \in 1..Len(ch) : ch[i].id = id})],
       !.last = [g \in Emitters |-> LET S == {ch[i].id[2] : i \in {k \in 1..Len(ch) : ch[k].id[1] = g}} IN
                                    IF S = {} THEN @[g] ELSE CHOOSE n \in S : \A k \in S : k <= n],
       !.bad = @ \cup (IF mon.inflight # <<>> THEN {"concurrent-export"} ELSE {})
                 \cup (IF Len(ch) > Batch THEN {"batch-too-large"} ELSE {})
                 \cup (IF mon.shutRet = "full" THEN {"export-after-shutdown"}
                       ELSE IF mon.shutRet = "early" THEN {"D1-export-after-early-shutdown-return"} ELSE {})
                 \cup (IF Disorder(ch) \/ ~(Late(mon, ch) \subseteq mon.sdheld) THEN {"out-of-order"}
                       ELSE IF Late(mon, ch) # {} THEN {"D6-final-flush-overtaken"} ELSE {})
                 \cup (IF \E i \in 1..Len(ch) : Content(ch[i]) # "v0" THEN {"content-changed"} ELSE {})]
  /\ UNCHANGED proto
(* Export returns.  ok: go on with the next chunk.  Error: the pinned chunkExporter stopped at the first  *)
(* failed chunk and the remaining chunks were never attempted (abort = TRUE, deviation D2, only with       *)
(* ChunkAbort); since fix c97476e it goes on and joins the errors (abort = FALSE).                          *)
XEnd(ok, abort) ==
  /\ pc["x"] = "exporting" /\ (ok => ~abort)
  /\ LET rest == Drop(cur.recs, Len(Chunk))
         failed == cur.err \/ ~ok IN
     IF rest # <<>> /\ ~abort
       THEN /\ cur' = [cur EXCEPT !.recs = rest, !.err = failed] /\ Go("x", "chunk")
            /\ mon' = [mon EXCEPT !.inflight = <<>>] /\ UNCHANGED resp
       ELSE /\ cur' = NoItem /\ Go("x", "recv")
            /\ resp' = Respond(cur.resp, IF failed THEN "err" ELSE "ok")
            /\ mon' = [mon EXCEPT !.inflight = <<>>, !.aborted = @ \cup IdsOf(rest)]
  /\ UNCHANGED <<q, dropped, trig, kill, stopped, input, inputMu, xstopped, closed, eidx, plen, sbatch, serr, caller, qclosed, stopDone, cancelled, ferr>>

(* ---------------------------------------------------------------- flushers *)
(* the record was enqueued after the final q.Flush(): it sits in the ring for good, or a ForceFlush that was  *)
(* past its check takes it out and EnqueueExport swallows it ("true") because the buffer has been stopped      *)
Stranded(id) == id \in mon.tooLate
Missing(S) == {id \in S : mon.handed[id] = 0 /\ id \notin mon.overwritten /\ id \notin mon.ignored}
(* why a record emitted before the ForceFlush call has not been handed over when it returns nil *)
FCause(f, id) == IF mon.early[f] = "processor" THEN "D1-flush-during-shutdown"
                 ELSE IF mon.early[f] = "exporter" THEN "D3-flush-exporter-stopped"
                 ELSE IF id \in mon.aborted THEN "D2-chunk-aborted"
                 ELSE IF id \in mon.sdheld THEN "D5-flush-overtakes-final-flush"
                 ELSE IF Stranded(id) THEN "D4-enqueue-after-final-flush"  \* only with repair A: seen by a ForceFlush that waited
                 ELSE "flush-missed"
SCause(s, id) == IF Stranded(id) THEN "D4-enqueue-after-final-flush"
                 ELSE IF mon.early[s] = "processor" THEN "D1-shutdown-during-shutdown"
                 ELSE IF id \in mon.aborted THEN "D2-chunk-aborted"
                 ELSE "shutdown-missed"
FCall(f) == /\ pc[f] = "idle" /\ Go(f, "check")
            /\ mon' = [mon EXCEPT !.snap[f] = mon.returned] /\ UNCHANGED proto
FCheck(f) == /\ pc[f] = "check"
             /\ IF stopped THEN (IF FixStopDone THEN (Go(f, "sdwait") /\ UNCHANGED mon)
                                                 ELSE (Go(f, "ret") /\ mon' = [mon EXCEPT !.early[f] = "processor"]))
                           ELSE (Go(f, "deq") /\ UNCHANGED mon)
             /\ UNCHANGED proto
(* the loop `for notFlushed()`: TryDequeue(buf[:q.cap], EnqueueExport) until it succeeds once (callers' *)
(* contexts never expire); a failed attempt changes nothing, so only the successful one is a step.       *)
FDequeue(f) ==
  /\ pc[f] = "deq"
  /\ \/ q = <<>> /\ UNCHANGED <<q, input>>                              \* EnqueueExport(empty) = true without touching inputMu
     \/ q # <<>> /\ inputMu = "none" /\ xstopped /\ q' = <<>> /\ UNCHANGED input   \* exporter stopped: "true", records gone
     \/ /\ q # <<>> /\ inputMu = "none" /\ ~xstopped /\ Len(input) < BufSize
        /\ input' = Append(input, [recs |-> q, resp |-> "none"]) /\ q' = <<>>
  /\ Go(f, "mlock")
  /\ UNCHANGED <<dropped, trig, kill, stopped, inputMu, xstopped, closed, resp, eidx, plen, cur, sbatch, serr, caller, qclosed, stopDone, cancelled, ferr, mon>>
(* a failed attempt (buffer full) is followed by ctxErr(ctx): a done context ends the loop with errPartialFlush; the     *)
(* marker is tried all the same.  (The first attempt is made whatever the context says.)                              *)
FGiveUp(f) == /\ pc[f] = "deq" /\ cancelled[f]
              /\ q # <<>> /\ inputMu = "none" /\ ~xstopped /\ Len(input) >= BufSize
              /\ ferr' = [ferr EXCEPT ![f] = TRUE] /\ Go(f, "mlock")
              /\ UNCHANGED <<q, dropped, trig, kill, stopped, input, inputMu, xstopped, closed, resp, eidx, plen, cur, sbatch, serr, caller, qclosed, stopDone, cancelled, mon>>
(* bufferExporter.ForceFlush -> enqueue(marker): lock inputMu, check stopped, blocking send, unlock *)
FMLock(f) == /\ pc[f] = "mlock" /\ inputMu = "none"
             /\ IF xstopped THEN (IF FixStopDone THEN (Go(f, "sdwait") /\ UNCHANGED <<mon, inputMu>>)
                                                  ELSE (Go(f, "ret") /\ mon' = [mon EXCEPT !.early[f] = "exporter"] /\ UNCHANGED inputMu))
                            ELSE (Go(f, "msend") /\ inputMu' = f /\ UNCHANGED mon)
             /\ UNCHANGED <<q, dropped, trig, kill, stopped, input, xstopped, closed, resp, eidx, plen, cur, sbatch, serr, caller, qclosed, stopDone, cancelled, ferr>>
FMSend(f) == /\ pc[f] = "msend" /\ Len(input) < BufSize
             /\ input' = Append(input, [recs |-> <<>>, resp |-> f]) /\ inputMu' = "none" /\ Go(f, "mwait")
             /\ UNCHANGED <<q, dropped, trig, kill, stopped, xstopped, closed, resp, eidx, plen, cur, sbatch, serr, caller, qclosed, stopDone, cancelled, ferr, mon>>
(* `select { case e.input <- data: case <-ctx.Done(): }` and `select { case <-resp: case <-ctx.Done(): }`: a done context  *)
(* may win (also when the other case is ready: Go chooses); the marker, if sent, stays in the channel                     *)
FMSendCancel(f) == /\ pc[f] = "msend" /\ cancelled[f] /\ inputMu' = "none" /\ ferr' = [ferr EXCEPT ![f] = TRUE] /\ Go(f, "ret")
                   /\ UNCHANGED <<q, dropped, trig, kill, stopped, input, xstopped, closed, resp, eidx, plen, cur, sbatch, serr, caller, qclosed, stopDone, cancelled, mon>>
FMWaitCancel(f) == /\ pc[f] = "mwait" /\ cancelled[f] /\ ferr' = [ferr EXCEPT ![f] = TRUE] /\ Go(f, "ret")
                   /\ UNCHANGED <<q, dropped, trig, kill, stopped, input, inputMu, xstopped, closed, resp, eidx, plen, cur, sbatch, serr, caller, qclosed, stopDone, cancelled, mon>>
(* marker answered, then the user exporter's ForceFlush.  Repair A: look at `stopped` once more *)
FMWait(f) == /\ pc[f] = "mwait" /\ resp[f] # "none" /\ Go(f, IF FixStopDone /\ stopped THEN "sdwait" ELSE "ret")
             /\ UNCHANGED <<proto, mon>>
(* repair A only: wait until the Shutdown that is doing the work has finished *)
FWaitDone(f) == /\ pc[f] = "sdwait" /\ stopDone /\ Go(f, "ret") /\ UNCHANGED <<proto, mon>>
FRet(f) == /\ pc[f] = "ret" /\ Go(f, "done")
           /\ mon' = [mon EXCEPT !.bad = @ \cup (IF ferr[f] THEN {} ELSE {FCause(f, id) : id \in Missing(mon.snap[f])})]   \* an error promises nothing
           /\ UNCHANGED proto

(* ---------------------------------------------------------------- stoppers *)
SCall(s) == /\ pc[s] = "idle" /\ Go(s, "swap")
            /\ mon' = [mon EXCEPT !.snap[s] = mon.returned] /\ UNCHANGED proto
SSwap(s) == /\ pc[s] = "swap"
            /\ IF stopped THEN (IF FixStopDone THEN (Go(s, "sdwait") /\ UNCHANGED <<mon, stopped>>)
                                                ELSE (Go(s, "ret") /\ mon' = [mon EXCEPT !.early[s] = "processor"] /\ UNCHANGED stopped))
                          ELSE (stopped' = TRUE /\ Go(s, "kill") /\ UNCHANGED mon)
            /\ UNCHANGED <<q, dropped, trig, kill, input, inputMu, xstopped, closed, resp, eidx, plen, cur, sbatch, serr, caller, qclosed, stopDone, cancelled, ferr>>
SKill(s) == /\ pc[s] = "kill" /\ kill' = TRUE /\ Go(s, "waitpoll")
            /\ UNCHANGED <<q, dropped, trig, stopped, input, inputMu, xstopped, closed, resp, eidx, plen, cur, sbatch, serr, caller, qclosed, stopDone, cancelled, ferr, mon>>
SWaitPoll(s) == /\ pc[s] = "waitpoll" /\ pc["poll"] = "done" /\ Go(s, "flush") /\ UNCHANGED <<proto, mon>>
(* `select { case <-b.pollDone: case <-ctx.Done(): return errors.Join(ctx.Err(), b.exporter.Shutdown(ctx)) }`: the final  *)
(* flush is skipped, whatever is queued stays there; the poll goroutine may still be on its way out                       *)
SWaitPollCancel(s) == /\ pc[s] = "waitpoll" /\ cancelled[s] /\ serr' = "err" /\ Go(s, "xshut")
                      /\ UNCHANGED <<q, dropped, trig, kill, stopped, input, inputMu, xstopped, closed, resp, eidx, plen, cur, sbatch, caller, qclosed, stopDone, cancelled, ferr, mon>>
(* exporter.Export(ctx, q.Flush()): Flush under the queue lock, then (unless empty) enqueue with a   *)
(* blocking send under inputMu and wait for the answer of the export goroutine                       *)
SFlush(s) == /\ pc[s] = "flush"
             /\ sbatch' = q /\ q' = <<>> /\ Go(s, IF q = <<>> THEN "xshut" ELSE "elock")
             /\ mon' = [mon EXCEPT !.sdheld = IdsOf(q), !.flushed = TRUE]
             /\ qclosed' = FixClosed                           \* repair B: Flush() closes the queue under its lock
             /\ UNCHANGED <<dropped, trig, kill, stopped, input, inputMu, xstopped, closed, resp, eidx, plen, cur, serr, caller, stopDone, cancelled, ferr>>
SELock(s) == /\ pc[s] = "elock" /\ inputMu = "none"
             /\ IF xstopped THEN (Go(s, "xshut") /\ UNCHANGED inputMu) ELSE (Go(s, "esend") /\ inputMu' = s)
             /\ UNCHANGED <<q, dropped, trig, kill, stopped, input, xstopped, closed, resp, eidx, plen, cur, sbatch, serr, caller, qclosed, stopDone, cancelled, ferr, mon>>
SESend(s) == /\ pc[s] = "esend" /\ Len(input) < BufSize
             /\ input' = Append(input, [recs |-> sbatch, resp |-> s]) /\ sbatch' = <<>> /\ inputMu' = "none" /\ Go(s, "ewait")
             /\ UNCHANGED <<q, dropped, trig, kill, stopped, xstopped, closed, resp, eidx, plen, cur, serr, caller, qclosed, stopDone, cancelled, ferr, mon>>
SEWait(s) == /\ pc[s] = "ewait" /\ resp[s] # "none"
             /\ serr' = (IF resp[s] = "err" THEN "err" ELSE "") /\ Go(s, "xshut")
             /\ UNCHANGED <<q, dropped, trig, kill, stopped, input, inputMu, xstopped, closed, resp, eidx, plen, cur, sbatch, caller, qclosed, stopDone, cancelled, ferr, mon>>
(* bufferExporter.Export gives up: before the send ("dropping %d records": they are lost with an error) or while waiting   *)
(* for the answer (the request stays in the buffer and is exported all the same)                                          *)
SESendCancel(s) == /\ pc[s] = "esend" /\ cancelled[s] /\ inputMu' = "none" /\ sbatch' = <<>> /\ serr' = "err" /\ Go(s, "xshut")
                   /\ UNCHANGED <<q, dropped, trig, kill, stopped, input, xstopped, closed, resp, eidx, plen, cur, caller, qclosed, stopDone, cancelled, ferr, mon>>
SEWaitCancel(s) == /\ pc[s] = "ewait" /\ cancelled[s] /\ serr' = "err" /\ Go(s, "xshut")
                   /\ UNCHANGED <<q, dropped, trig, kill, stopped, input, inputMu, xstopped, closed, resp, eidx, plen, cur, sbatch, caller, qclosed, stopDone, cancelled, ferr, mon>>
(* bufferExporter.Shutdown: swap stopped; lock inputMu; close(input); wait for the export goroutine; *)
(* user exporter Shutdown; unlock                                                                     *)
SXSwap(s) == /\ pc[s] = "xshut" /\ xstopped' = TRUE /\ Go(s, IF xstopped THEN "ret" ELSE "xlock")
             /\ stopDone' = (stopDone \/ (FixStopDone /\ xstopped))
             /\ UNCHANGED <<q, dropped, trig, kill, stopped, input, inputMu, closed, resp, eidx, plen, cur, sbatch, serr, caller, qclosed, cancelled, ferr, mon>>
SXLock(s) == /\ pc[s] = "xlock" /\ inputMu = "none" /\ inputMu' = s /\ closed' = TRUE /\ Go(s, "xwait")
             /\ UNCHANGED <<q, dropped, trig, kill, stopped, input, xstopped, resp, eidx, plen, cur, sbatch, serr, caller, qclosed, stopDone, cancelled, ferr, mon>>
SXWait(s) == /\ pc[s] = "xwait" /\ pc["x"] = "done" /\ inputMu' = "none" /\ Go(s, "ret")
             /\ stopDone' = FixStopDone                        \* repair A: close(stopDone) as the last thing Shutdown does
             /\ UNCHANGED <<q, dropped, trig, kill, stopped, input, xstopped, closed, resp, eidx, plen, cur, sbatch, serr, caller, qclosed, cancelled, ferr, mon>>
(* `select { case <-e.done: case <-ctx.Done(): return errors.Join(ctx.Err(), e.Exporter.Shutdown(ctx)) }`: the user       *)
(* exporter is shut down while the export goroutine may still be exporting what is buffered; Shutdown returns an error    *)
SXWaitCancel(s) == /\ pc[s] = "xwait" /\ cancelled[s] /\ inputMu' = "none" /\ serr' = "err" /\ Go(s, "ret")
                   /\ stopDone' = FixStopDone
                   /\ UNCHANGED <<q, dropped, trig, kill, stopped, input, xstopped, closed, resp, eidx, plen, cur, sbatch, caller, qclosed, cancelled, ferr, mon>>
(* repair A only: a Shutdown that found `stopped` set waits for the one doing the work *)
SWaitDone(s) == /\ pc[s] = "sdwait" /\ stopDone /\ Go(s, "ret") /\ UNCHANGED <<proto, mon>>
SRet(s) == /\ pc[s] = "ret" /\ Go(s, "done")
           /\ LET err == IF mon.early[s] = "no" THEN serr ELSE "" IN
              mon' = [mon EXCEPT
                 !.shutRet = IF err # "" THEN @ ELSE IF mon.early[s] = "no" THEN "full" ELSE IF @ = "no" THEN "early" ELSE @,
                 !.bad = @ \cup (IF err # "" THEN {} ELSE {SCause(s, id) : id \in Missing(mon.snap[s])})]
           /\ UNCHANGED proto

Next == \/ \E g \in Emitters : ECall(g) \/ ECheck(g) \/ EEnqueue(g) \/ ETrigger(g) \/ ERet(g)
        \/ PollTick \/ PollTrig \/ PollKill \/ PollDropped \/ PollReady \/ PollLen \/ PollDequeue \/ PollRetrig
        \/ XRecv \/ XDone \/ XBegin \/ XEnd(TRUE, FALSE) \/ (Faults /\ (XEnd(FALSE, FALSE) \/ (ChunkAbort /\ XEnd(FALSE, TRUE))))
        \/ \E f \in Flushers : FCall(f) \/ FCheck(f) \/ FDequeue(f) \/ FMLock(f) \/ FMSend(f) \/ FMWait(f) \/ FWaitDone(f) \/ FRet(f)
                               \/ FGiveUp(f) \/ FMSendCancel(f) \/ FMWaitCancel(f)
        \/ \E s \in Stoppers : SCall(s) \/ SSwap(s) \/ SKill(s) \/ SWaitPoll(s) \/ SFlush(s) \/ SELock(s) \/ SESend(s)
                               \/ SEWait(s) \/ SXSwap(s) \/ SXLock(s) \/ SXWait(s) \/ SWaitDone(s) \/ SRet(s)
                               \/ SWaitPollCancel(s) \/ SESendCancel(s) \/ SEWaitCancel(s) \/ SXWaitCancel(s)
        \/ \E c \in Callers : Cancel(c)

(* Go's select chooses at random among the ready cases: a closed pollKill is taken eventually even if the ticker *)
(* keeps firing (strong fairness); everything else only needs weak fairness.                                      *)
Fairness == /\ WF_vars(PollTrig \/ PollDropped \/ PollReady \/ PollLen \/ PollDequeue \/ PollRetrig) /\ SF_vars(PollKill)
            /\ WF_vars(XRecv \/ XDone \/ XBegin \/ XEnd(TRUE, FALSE))
            /\ \A g \in Emitters : WF_vars(ECheck(g) \/ EEnqueue(g) \/ ETrigger(g) \/ ERet(g))
            /\ \A f \in Flushers : WF_vars(FCheck(f) \/ FMLock(f) \/ FMSend(f) \/ FMWait(f) \/ FWaitDone(f) \/ FRet(f) \/ FMSendCancel(f) \/ FMWaitCancel(f))
                                     /\ SF_vars(FDequeue(f) \/ FGiveUp(f))
            /\ \A s \in Stoppers : WF_vars(SSwap(s) \/ SKill(s) \/ SWaitPoll(s) \/ SFlush(s) \/ SELock(s) \/ SESend(s)
                                           \/ SEWait(s) \/ SXSwap(s) \/ SXLock(s) \/ SXWait(s) \/ SWaitDone(s) \/ SRet(s)
                                           \/ SWaitPollCancel(s) \/ SESendCancel(s) \/ SEWaitCancel(s) \/ SXWaitCancel(s))
Spec == Init /\ [][Next]_vars
FairSpec == Spec /\ Fairness

(* ---------------------------------------------------------------- properties *)
NoDup == \A id \in Ids : mon.handed[id] <= 1
ChunkBound == Len(mon.inflight) <= Batch
QueueBound == Len(q) <= QCap /\ Len(input) <= BufSize
(* Known deviations of the code, each reproduced on the real implementation (known_findings/C06.json):      *)
(*  D1  ForceFlush (or a second Shutdown) that finds BatchProcessor.stopped set returns nil at once although *)
(*      records emitted before it was called have not been handed over yet by the running Shutdown.           *)
(*  D2  ForceFlush hands the whole queue over as ONE export request; chunkExporter stops at the first failed  *)
(*      chunk, the error goes to the global handler, the later chunks are never passed to the exporter and    *)
(*      ForceFlush still returns nil.                                                                         *)
(*  D3  ForceFlush that passed the stopped check finds bufferExporter.stopped set (Shutdown has swapped it     *)
(*      but not yet closed/drained the input) and returns nil while its records are still buffered.            *)
(*  D5  ForceFlush that passed the stopped check finds the queue empty because Shutdown's q.Flush() has just  *)
(*      taken the records out; its marker reaches the buffer before Shutdown's export request: nil too early. *)
(*  D6  same window as D5: a record enqueued after q.Flush() (its OnEmit had passed the stopped check) is      *)
(*      handed over by such a ForceFlush BEFORE the flushed records: per-emitter order broken.                 *)
(*  D4  a record whose OnEmit passed the stopped check before Shutdown swapped the flag is enqueued after the  *)
(*      final Flush: never exported; a later Shutdown call still returns nil.                                  *)
Known == {"D1-flush-during-shutdown", "D1-shutdown-during-shutdown", "D2-chunk-aborted",
          "D3-flush-exporter-stopped", "D4-enqueue-after-final-flush", "D5-flush-overtakes-final-flush",
          "D1-export-after-early-shutdown-return", "D6-final-flush-overtaken"}
Contract == mon.bad \subseteq Admit
(* Sketched repairs (constant switches, model only -- nothing of this is in /repo):                           *)
(*  A  FixStopDone: a `stopDone` channel closed by the Shutdown that won the `stopped` swap as its last step;  *)
(*     ForceFlush and Shutdown calls that see `stopped` set -- at their entry check, on errStopped from the    *)
(*     buffer, or when ForceFlush looks once more after its marker was answered -- wait for it (or their ctx)  *)
(*     instead of returning nil at once.                                                                      *)
(*  B  FixClosed: q.Flush() sets a `closed` flag under the queue lock; Enqueue refuses records once it is set  *)
(*     (the record is ignored knowingly, like one that found `stopped` set).                                  *)
(* checks/c06.py lets TLC decide which named deviations each removes (Admit = Known \ Removed must pass, and  *)
(* every deviation outside Removed must still be found) and whether every call still returns (Termination).  *)
(* every overwrite is counted: warned total + not yet reported = number of overwritten records *)
DroppedCounted == mon.logged + dropped = Cardinality(mon.overwritten)
MuOK == inputMu \in Callers \cup {"none"} /\ (closed => xstopped)
AllDone == /\ \A g \in Emitters : pc[g] = "idle" /\ eidx[g] > RecsPer
           /\ \A c \in Callers : pc[c] = "done"
Stuck == (~ENABLED Next) => AllDone
(* every call that was made eventually returns (calls themselves are the environment's choice) *)
Termination == /\ \A g \in Emitters : (pc[g] = "check") ~> (pc[g] = "idle")
               /\ \A f \in Flushers : (pc[f] = "check") ~> (pc[f] = "done")
               /\ \A s \in Stoppers : (pc[s] = "swap") ~> (pc[s] = "done")
(* after a Shutdown returned nil the pipeline is quiet for good *)
QuietAfterShutdown == mon.shutRet = "full" => (pc["x"] = "done" /\ pc["poll"] = "done" /\ input = <<>>)
=============================================================================
