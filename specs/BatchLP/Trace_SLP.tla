------------------------------ MODULE Trace_SLP ------------------------------
(* code -> spec for the log pipeline: every recorded line of harness/c06 `pipeline` *)
(* scenarios is one step of the total monitor SLPContract.                          *)
EXTENDS SLPContract, TraceKit, Integers
VARIABLES l, m, cur
vars == <<l, m, cur>>
NoCfg == [kinds |-> <<>>, thresh |-> <<>>, maxbatch |-> 0]
Init == l = 1 /\ m = Fresh(NoCfg) /\ cur = -1
TStep == /\ l <= Len(Trace)
         /\ LET e == Trace[l] IN
            IF e.ev = "Cfg"
              THEN m' = Fresh([kinds |-> e.kinds, thresh |-> e.thresh, maxbatch |-> e.maxbatch]) /\ cur' = e.sc
              ELSE IF e.sc # cur   \* straggler of an earlier scenario that was abandoned as non-quiescent
              THEN UNCHANGED <<m, cur>>
              ELSE LET r == Step(m, e) IN
                   /\ m' = r[1]
                   /\ cur' = IF e.ev = "EndScenario" /\ ~e.quiescent THEN -1 ELSE cur
                   /\ \A v \in r[2] : Viol([line |-> l, sc |-> e.sc, v |-> v])
         /\ l' = l + 1
TDone == l = Len(Trace) + 1 /\ Accepted(l) /\ UNCHANGED vars
Next == TStep \/ TDone
Spec == Init /\ [][Next]_vars
=============================================================================
