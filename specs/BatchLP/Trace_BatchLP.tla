---------------------------- MODULE Trace_BatchLP ----------------------------
(* code -> spec: every recorded line is one step of the contract monitor.       *)
EXTENDS BatchLPContract, TraceKit, Integers
VARIABLES l, m, cur
vars == <<l, m, cur>>
NoCfg == [qcap |-> 0, maxbatch |-> 0, bufsize |-> 0, hooks |-> FALSE, exact |-> FALSE]
Init == l = 1 /\ m = Fresh(NoCfg) /\ cur = -1
TStep == /\ l <= Len(Trace)
         /\ LET e == Trace[l] IN
            IF e.ev = "Cfg"
              THEN m' = Fresh([qcap |-> e.qcap, maxbatch |-> e.maxbatch, bufsize |-> e.bufsize, hooks |-> e.hooks, exact |-> e.hooks /\ e.untainted]) /\ cur' = e.sc
              ELSE IF e.sc # cur   \* straggler of an earlier scenario that was abandoned as non-quiescent
              THEN UNCHANGED <<m, cur>>
              ELSE LET r == Step(m, e) IN
                   /\ m' = r[1]
                   \* an abandoned (non-quiescent) scenario is not judged any further
                   /\ cur' = IF e.ev = "EndScenario" /\ ~e.quiescent THEN -1 ELSE cur
                   /\ \A v \in r[2] : Viol([line |-> l, sc |-> e.sc, v |-> v])
         /\ l' = l + 1
TDone == l = Len(Trace) + 1 /\ Accepted(l) /\ UNCHANGED vars
Next == TStep \/ TDone
Spec == Init /\ [][Next]_vars
=============================================================================
