SPECIFICATION FairSpec
CONSTANTS
  Emitters <- MCEmitters
  Flushers <- MCFlushers
  Stoppers <- MCStoppers
  Kinds <- MCKinds
  Thresh <- MCThresh
  RecsPer = @RECSPER@
  Mutation = "@MUTATION@"
  Admit <- MCAdmit
INVARIANTS NoDup
PROPERTIES Termination
CHECK_DEADLOCK FALSE
