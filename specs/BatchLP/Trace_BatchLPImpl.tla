------------------------- MODULE Trace_BatchLPImpl -------------------------
(* code -> spec, second level: the recorded hook-event trace of a real execution  *)
(* (Call/Ret, exporter events, the queue's under-lock events, one Pt line for     *)
(* every verif point a goroutine passed) must be explainable by the ACTIONS of    *)
(* the implementation-shaped spec BatchLP.tla itself, not only by the contract.   *)
(* TLC searches for the unlogged internal steps.                                  *)
(*                                                                                *)
(* Three kinds of lines:                                                          *)
(*  exact        the line is written atomically with the step (queue lock held:   *)
(*               Enq, QFlushed), before it (Call), after it with nothing of the   *)
(*               protocol in between (Ret), or the step only moves the monitor /  *)
(*               the exporter-side program counter (ExportBegin, ExportEnd,       *)
(*               ExporterFlush, ExporterShutdown): consuming the line IS the step.*)
(*  confirmation a Pt line is written by the goroutine AFTER the step it follows, *)
(*               with no lock held: other goroutines may have seen the step's     *)
(*               effect and logged their own lines first.  The step itself is     *)
(*               therefore silent; it leaves the expected line in pend[p], p does *)
(*               nothing else until that line has been consumed.  Deq (written    *)
(*               under the queue lock but AFTER the buffer, and so the export     *)
(*               goroutine, has seen the batch) and LogDropped are of this kind.  *)
(*  ignored      Ignored / Early / Offer (contract-level duplicates of Pt lines). *)
(* Every scenario of one file has the same constants (python groups them); they   *)
(* are read from the first Cfg line.  Acceptance: the cursor reaches the end      *)
(* (ACCEPTED n, TLCSet("exit")); otherwise TLC exhausts the search and the        *)
(* high-water mark TLCGet(1) is the first line no explanation reaches: model      *)
(* drift (evidence, never a verdict).  Run with -workers 1 and the StateDeque     *)
(* queue (depth first).                                                           *)
EXTENDS BatchLP, TraceKit

VARIABLES l,      \* cursor: next line of Trace
          pend    \* proc -> sequence of lines it owes (confirmations), oldest first
tvars == <<vars, l, pend>>

C0 == Trace[1]
TrEmitters == {"g" \o ToString(i) : i \in 1..C0.emitters}
TrFlushers == {C0.flushers[i] : i \in 1..Len(C0.flushers)}
TrStoppers == {C0.stoppers[i] : i \in 1..Len(C0.stoppers)}
TrRecsPer == C0.recsPer
TrQCap == C0.qcap
TrBatch == C0.maxbatch
TrBufSize == C0.bufsize
TrCancels == TrFlushers \cup TrStoppers      \* a context ends exactly where the trace has a Cancel line

E == Trace[l]
Gid(n) == <<"g" \o ToString(n \div 1000), n % 1000>>
GidSeq(ids) == [i \in 1..Len(ids) |-> Gid(ids[i])]
IdSeq(s) == [i \in 1..Len(s) |-> s[i].id]
P(pt) == [pt |-> pt, ids |-> <<>>]
PD(ids) == [pt |-> "deq", ids |-> ids]
NoPend == [p \in Procs |-> <<>>]

HW(n) == IF n > TLCGet(1) THEN TLCSet(1, n) ELSE TRUE
Adv == l' = l + 1 /\ HW(l + 1)
(* a silent step of p / a step of p that is the current line; `after` = the lines p owes afterwards *)
Sil(p, after) == pend[p] = <<>> /\ pend' = [pend EXCEPT ![p] = after] /\ l' = l
Lin(p, after) == pend[p] = <<>> /\ pend' = [pend EXCEPT ![p] = after] /\ Adv
Confirm(p, line) == /\ pend[p] # <<>> /\ Head(pend[p]) = line
                    /\ pend' = [pend EXCEPT ![p] = Tail(@)] /\ Adv /\ UNCHANGED vars

(* ---------------------------------------------------------------- exact lines *)
LCall == /\ E.ev = "Call"
         /\ CASE E.op = "Emit" -> LET g == "g" \o ToString(E.g) IN g \in Emitters /\ eidx[g] = E.k /\ ECall(g) /\ Lin(g, <<>>)
              [] E.op = "FF" -> E.proc \in Flushers /\ FCall(E.proc) /\ Lin(E.proc, <<>>)
              [] E.op = "SD" -> E.proc \in Stoppers /\ SCall(E.proc) /\ Lin(E.proc, <<>>)
              [] OTHER -> FALSE
LRet == /\ E.ev = "Ret"
        /\ CASE E.op = "Emit" -> LET id == Gid(E.id) IN id[1] \in Emitters /\ eidx[id[1]] = id[2] /\ ERet(id[1]) /\ Lin(id[1], <<>>)
             [] E.op = "FF" -> E.proc \in Flushers /\ (E.err # "") = ferr[E.proc] /\ FRet(E.proc) /\ Lin(E.proc, <<>>)
             [] E.op = "SD" -> /\ E.proc \in Stoppers
                               /\ (E.err = "") = (IF mon.early[E.proc] = "no" THEN serr = "" ELSE TRUE)
                               /\ SRet(E.proc) /\ Lin(E.proc, <<>>)
             [] OTHER -> FALSE
LEnq == /\ E.ev = "Enq"
        /\ LET id == Gid(E.id) g == id[1] IN
           /\ g \in Emitters /\ eidx[g] = id[2]
           /\ E.full = (Len(q) = QCap) /\ (E.full => Head(q).id = Gid(E.over))
           /\ EEnqueue(g) /\ Lin(g, IF pc'[g] = "trig" THEN <<>> ELSE <<P("blp.onemit.enqueued")>>)
LQFlushed == /\ E.ev = "QFlushed" /\ IdSeq(q) = GidSeq(E.ids)
             /\ \E s \in Stoppers : SFlush(s) /\ Lin(s, <<P(IF q = <<>> THEN "blp.sd.flushed" ELSE "blp.xexp.called")>>)
LExportBegin == /\ E.ev = "ExportBegin" /\ pc["x"] = "chunk" /\ IdSeq(Chunk) = GidSeq(E.ids) /\ XBegin /\ Lin("x", <<>>)
LExportEnd == /\ E.ev = "ExportEnd"
              /\ \E ab \in (IF ChunkAbort /\ E.err # "" THEN {FALSE, TRUE} ELSE {FALSE}) : XEnd(E.err = "", ab)
              /\ Lin("x", <<>>)
LExporterFlush == E.ev = "ExporterFlush" /\ E.proc \in Flushers /\ FMWait(E.proc) /\ Lin(E.proc, <<>>)
LExporterShutdown == E.ev = "ExporterShutdown" /\ E.proc \in Stoppers /\ (SXWait(E.proc) \/ SXWaitCancel(E.proc)) /\ Lin(E.proc, <<>>)
(* written by the harness BEFORE it cancels the context (or creates it with a deadline): whoever sees it done logs later *)
LCancel == E.ev = "Cancel" /\ E.proc \in Callers /\ Cancel(E.proc) /\ Adv /\ UNCHANGED pend

(* ---------------------------------------------------------------- confirmation lines *)
LPt == /\ E.ev = "Pt" /\ E.proc \in Procs
       /\ (E.point = "blp.poll.dequeued" => plen = E.n)     \* the qLen the poll goroutine computed
       /\ Confirm(E.proc, P(E.point))
LDeq == E.ev = "Deq" /\ \E p \in Flushers \cup {"poll"} : Confirm(p, PD(GidSeq(E.ids)))
LLogDropped == E.ev = "LogDropped" /\ Confirm("poll", P("log.dropped." \o ToString(E.n)))

(* ---------------------------------------------------------------- bookkeeping lines *)
LSkip == /\ \/ E.ev \in {"Ignored", "Early", "Offer"}
            \/ E.ev \in {"ExporterFlush", "ExporterShutdown"} /\ E.proc \notin Callers   \* call of an abandoned scenario
         /\ Adv /\ UNCHANGED <<vars, pend>>
LEnd == /\ E.ev = "EndScenario"
        /\ (E.quiescent => AllDone)          \* every call of the real run returned: so it has in the model
        /\ PrintT("IMPLEND " \o ToJson([sc |-> E.sc, bad |-> mon.bad, line |-> l]))
        /\ Adv /\ UNCHANGED <<vars, pend>>
LCfg == /\ E.ev = "Cfg"
        /\ q' = I0.q /\ dropped' = I0.dropped /\ trig' = I0.trig /\ kill' = I0.kill /\ stopped' = I0.stopped
        /\ input' = I0.input /\ inputMu' = I0.inputMu /\ xstopped' = I0.xstopped /\ closed' = I0.closed
        /\ resp' = I0.resp /\ pc' = I0.pc /\ eidx' = I0.eidx /\ plen' = I0.plen /\ cur' = I0.cur /\ sbatch' = I0.sbatch
        /\ serr' = I0.serr /\ caller' = I0.caller /\ qclosed' = I0.qclosed /\ stopDone' = I0.stopDone
        /\ cancelled' = I0.cancelled /\ ferr' = I0.ferr /\ mon' = I0.mon
        /\ pend' = NoPend /\ Adv

(* ---------------------------------------------------------------- silent steps *)
SEm(g) == \/ ECheck(g) /\ Sil(g, <<P(IF stopped THEN "blp.onemit.ignored" ELSE "blp.onemit.checked")>>)
          \/ ETrigger(g) /\ Sil(g, <<P("blp.onemit.enqueued")>>)
SPoll == \/ (PollTick \/ PollTrig) /\ Sil("poll", <<P("blp.poll.woke")>>)
         \/ PollKill /\ Sil("poll", <<>>)
         \/ PollDropped /\ Sil("poll", IF dropped > 0 /\ C0.untainted THEN <<P("log.dropped." \o ToString(dropped))>> ELSE <<>>)
         \/ PollReady /\ Sil("poll", <<>>)
         \/ PollLen /\ Sil("poll", <<P("blp.poll.dequeued")>>)
         \/ PollDequeue /\ Sil("poll", (IF Len(q') < Len(q) THEN <<PD(IdSeq(SubSeq(q, 1, Len(q) - Len(q'))))>> ELSE <<>>)
                                       \o <<P("blp.poll.dequeued")>>)
         \/ PollRetrig /\ Sil("poll", <<>>)
SX == (XRecv \/ XDone) /\ Sil("x", <<>>)
SFl(f) == \/ FCheck(f) /\ Sil(f, <<P(IF stopped THEN "blp.ff.stopped" ELSE "blp.ff.checked")>>)
          \/ FDequeue(f) /\ Sil(f, (IF q # <<>> THEN <<PD(IdSeq(q))>> ELSE <<>>) \o <<P("blp.ff.dequeued")>>)
          \/ FMLock(f) /\ Sil(f, IF xstopped THEN <<P("blp.xff.stopped")>> ELSE <<>>)
          \/ FMSend(f) /\ Sil(f, <<>>)
          \/ FGiveUp(f) /\ Sil(f, <<P("blp.ff.dequeued")>>)
          \/ (FMSendCancel(f) \/ FMWaitCancel(f)) /\ Sil(f, <<>>)
SSt(s) == \/ SSwap(s) /\ Sil(s, <<P(IF stopped THEN "blp.sd.already" ELSE "blp.sd.swapped")>>)
          \/ SKill(s) /\ Sil(s, <<>>)
          \/ SWaitPoll(s) /\ Sil(s, <<P("blp.sd.polldone")>>)
          \/ SELock(s) /\ Sil(s, IF xstopped THEN <<P("blp.sd.flushed")>> ELSE <<>>)
          \/ SESend(s) /\ Sil(s, <<>>)
          \/ SEWait(s) /\ Sil(s, <<P("blp.sd.flushed")>>)
          \/ SXSwap(s) /\ Sil(s, IF xstopped THEN <<>> ELSE <<P("blp.xsd.swapped")>>)
          \/ SXLock(s) /\ Sil(s, <<>>)
          \/ SWaitPollCancel(s) /\ Sil(s, <<>>)
          \/ (SESendCancel(s) \/ SEWaitCancel(s)) /\ Sil(s, <<P("blp.sd.flushed")>>)
Silent == \/ \E g \in Emitters : SEm(g)
          \/ SPoll \/ SX
          \/ \E f \in Flushers : SFl(f)
          \/ \E s \in Stoppers : SSt(s)

TInit == Init /\ l = 1 /\ pend = NoPend /\ TLCSet(1, 1)
TStep == /\ l <= Len(Trace)
         /\ \/ LCall \/ LRet \/ LEnq \/ LQFlushed \/ LExportBegin \/ LExportEnd \/ LExporterFlush \/ LExporterShutdown
            \/ LPt \/ LDeq \/ LLogDropped \/ LSkip \/ LEnd \/ LCfg \/ LCancel
            \/ Silent
TDone == l = Len(Trace) + 1 /\ Accepted(l) /\ TLCSet("exit", TRUE) /\ UNCHANGED tvars
TSpec == TInit /\ [][TStep \/ TDone]_tvars
(* evaluated when TLC finished without reaching the end: the first line no explanation gets past *)
TPost == PrintT("HWM " \o ToString(TLCGet(1)))
=============================================================================
