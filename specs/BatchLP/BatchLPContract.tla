--------------------------- MODULE BatchLPContract ---------------------------
(* The C06 statement as a total monitor over API-observable events: Call/Ret of    *)
(* Emit / ForceFlush / Shutdown (one atomic sequence number taken in the harness), *)
(* what the recording exporter sees (ExportBegin with ids and content digests,     *)
(* ExportEnd, ExporterFlush, ExporterShutdown), the SDK's "dropped log records"    *)
(* warning, plus -- when the tree has the verif hooks (cfg.hooks) -- the queue's   *)
(* linearization events logged under its lock (Enq with the overwritten record,    *)
(* Offer, Deq, QFlushed), Ignored (OnEmit found the processor stopped) and Early (a       *)
(* ForceFlush / Shutdown took a "stopped" exit).  Without hooks the monitor uses   *)
(* sound over-approximations of "overwritten" and "ignored" computed from the      *)
(* Call/Ret order alone.  Every event is always accepted; broken clauses are       *)
(* returned as a set of records.                                                   *)
EXTENDS Naturals, Sequences, FiniteSets, TLC

Fresh(cfg) == [cfg |-> cfg,
               emitted |-> <<>>,      \* id -> [g, k, digest, before]   (Call Emit)
               nCalled |-> 0,         \* Emit calls so far
               nRet |-> 0,            \* Emit returns so far
               returned |-> {},       \* ids whose Emit has returned
               raced |-> {},          \* ids whose Emit returned after some Shutdown call had begun
               handed |-> {},         \* ids passed to the exporter
               last |-> <<>>,         \* emitter -> largest index passed to the exporter
               overwritten |-> {},    \* ids overwritten in the ring (hook)
               ignored |-> {},        \* ids that found the processor stopped (hook)
               inq |-> <<>>,          \* ring contents, oldest first (hook events, queue-lock order)
               batchOf |-> <<>>,      \* id -> number of the dequeue / flush that took it out (hook)
               nbatch |-> 0,
               curIds |-> {},         \* ids of the chunk being exported
               failedIds |-> {},      \* ids of chunks whose Export returned an error
               sdheld |-> {},         \* ids Shutdown took out with q.Flush() (hook)
               flushed |-> FALSE,     \* the final q.Flush() has happened (hook; an empty one is only recorded when cfg.exact)
               tooLate |-> {},        \* ids enqueued after it (hook)
               expErr |-> FALSE,      \* some Export has returned an error
               inflight |-> FALSE,    \* an Export call is running
               snap |-> <<>>,         \* proc -> returned at the time of its ForceFlush / Shutdown call
               early |-> <<>>,        \* proc -> "processor" | "exporter": took a stopped exit (hook)
               sdCalls |-> 0,         \* Shutdown calls begun
               firstSD |-> "",        \* proc of the first Shutdown call
               shutRet |-> "no",      \* "no" | "early" (only stopped-exit Shutdowns returned nil) | "full"
               expShut |-> FALSE,     \* exporter.Shutdown was called by a Shutdown whose context had not ended
               expShutAny |-> FALSE,  \* exporter.Shutdown was called at all
               cancelled |-> {},      \* procs whose context has ended (Cancel is logged before the harness cancels)
               handedB |-> <<>>,      \* batches handed to the export buffer and not yet fully exported: sequences of ids (hook)
               lastOffer |-> <<>>,    \* the batch TryDequeue offered last (hook)
               pre |-> <<>>,          \* ids of lastOffer seen at the exporter BEFORE the Deq line of that dequeue was written
               logged |-> 0]          \* sum of the "dropped log records" warnings

Put(f, k, v) == [x \in (DOMAIN f) \cup {k} |-> IF x = k THEN v ELSE f[x]]
Get(f, k, d) == IF k \in DOMAIN f THEN f[k] ELSE d
SeqToSet(s) == {s[i] : i \in 1..Len(s)}
Without(s, S) == SelectSeq(s, LAMBDA x : x \notin S)
Known(m, id) == id \in DOMAIN m.emitted
IsPrefix(a, b) == Len(a) <= Len(b) /\ SubSeq(b, 1, Len(a)) = a
DropN(s, n) == SubSeq(s, n + 1, Len(s))
(* What is handed to the export buffer -- by the poll goroutine, by a ForceFlush (also one that then gives up because    *)
(* its context ended: the batch stays parked in the buffer) or by Shutdown -- is what the exporter gets, record for       *)
(* record, in chunks: an Export call must be the beginning of what is left of ONE handed-over batch.  (The Deq line is    *)
(* written after the buffer has the batch, so its first chunks may be seen at the exporter first: `pre`.)                *)
Matching(m, ids) == {i \in 1..Len(m.handedB) : IsPrefix(ids, m.handedB[i])}
TakeChunk(m, ids) ==
  LET I == Matching(m, ids) IN
  IF I # {} THEN LET i == CHOOSE x \in I : \A y \in I : x <= y
                     rest == DropN(m.handedB[i], Len(ids)) IN
                 [m EXCEPT !.handedB = IF rest = <<>> THEN SubSeq(@, 1, i - 1) \o SubSeq(@, i + 1, Len(@))
                                       ELSE [@ EXCEPT ![i] = rest]]
  ELSE IF IsPrefix(m.pre \o ids, m.lastOffer) THEN [m EXCEPT !.pre = @ \o ids]
  ELSE m
NotAsHanded(m, ids) == m.cfg.hooks /\ ids # <<>> /\ Matching(m, ids) = {} /\ ~IsPrefix(m.pre \o ids, m.lastOffer)

(* hook-free: id can only have been overwritten if at least qcap other Emit calls may have enqueued after it *)
MayOverwritten(m, id) == Known(m, id) /\ m.nCalled - m.emitted[id].before - 1 >= m.cfg.qcap
Missing(m, S) == IF m.cfg.hooks THEN ((S \ m.handed) \ m.overwritten) \ m.ignored
                 ELSE {id \in (S \ m.handed) \ m.raced : ~MayOverwritten(m, id)}
(* id was handed to the buffer in the same request as a chunk that failed (batch numbers come from Offer / QFlushed,    *)
(* which are logged before the export goroutine can see the request)                                                    *)
Aborted(m, id) == id \in DOMAIN m.batchOf /\ \E f \in m.failedIds \cap DOMAIN m.batchOf : m.batchOf[f] = m.batchOf[id]

(* id was enqueued after the final q.Flush() (it is stranded in the ring, or a ForceFlush that was past its check took it   *)
(* out and the stopped buffer swallowed it).  Exact when every Flush() is recorded; otherwise (a goroutine of an abandoned  *)
(* scenario may be around, empty flushes are not attributed) the older over-approximation: its Emit returned after a         *)
(* Shutdown call had begun and the final flush did not take it.                                                             *)
TooLate(m, id) == IF m.cfg.exact THEN id \in m.tooLate ELSE id \in m.raced /\ id \notin m.sdheld
FCause(m, p, id) ==
  IF m.cfg.hooks
    THEN IF Get(m.early, p, "no") = "processor" THEN "flush-missed-during-shutdown"
         ELSE IF Get(m.early, p, "no") = "exporter" THEN "flush-missed-exporter-stopped"
         ELSE IF Aborted(m, id) THEN "missed-chunk-aborted"
         ELSE IF id \in m.sdheld THEN "flush-missed-held-by-shutdown"
         ELSE "flush-missed"
    ELSE IF m.sdCalls > 0 THEN "hookfree-flush-missed-shutdown-concurrent"
         ELSE IF m.expErr THEN "hookfree-missed-after-export-error"
         ELSE "flush-missed"
SCause(m, p, id, first) ==
  IF m.cfg.hooks
    THEN IF TooLate(m, id) THEN "shutdown-missed-raced"   \* enqueued after the final flush
         ELSE IF Get(m.early, p, "no") = "processor" THEN "shutdown-missed-during-shutdown"
         ELSE IF Aborted(m, id) THEN "missed-chunk-aborted"
         ELSE "shutdown-missed"
    ELSE IF ~first THEN "hookfree-shutdown-missed-not-first"
         ELSE IF m.expErr THEN "hookfree-missed-after-export-error"
         ELSE "shutdown-missed"
ByCause(p, M, C(_)) == {[kind |-> c, proc |-> p, missing |-> {id \in M : C(id) = c}] : c \in {C(id) : id \in M}}

(* per-emitter order of one Export call against what was exported before *)
Owner(m, id) == IF Known(m, id) THEN m.emitted[id] ELSE [g |-> 0, k |-> 0, digest |-> "", before |-> 0]
Late(m, ids) == {ids[i] : i \in {j \in 1..Len(ids) : Owner(m, ids[j]).k < Get(m.last, Owner(m, ids[j]).g, 0)}}
Disorder(m, ids) == \E i \in 1..Len(ids) : \E j \in 1..(i - 1) :
                       Owner(m, ids[j]).g = Owner(m, ids[i]).g /\ Owner(m, ids[j]).k > Owner(m, ids[i]).k
NewLast(m, ids) == LET gs == {Owner(m, ids[i]).g : i \in 1..Len(ids)} IN
                   [g \in (DOMAIN m.last) \cup gs |->
                      LET S == {Owner(m, ids[i]).k : i \in {j \in 1..Len(ids) : Owner(m, ids[j]).g = g}} \cup {Get(m.last, g, 0)}
                      IN CHOOSE n \in S : \A x \in S : x <= n]

(* Step(m, e) = <<next monitor state, set of violated clauses (records)>> *)
Step(m, e) ==
  CASE e.ev = "Call" /\ e.op = "Emit" ->
         <<[m EXCEPT !.emitted = Put(@, e.id, [g |-> e.g, k |-> e.k, digest |-> e.digest, before |-> m.nRet]),
                     !.nCalled = @ + 1],
           IF Known(m, e.id) THEN {[kind |-> "harness-duplicate-id", id |-> e.id]} ELSE {}>>
    [] e.ev = "Ret" /\ e.op = "Emit" ->
         <<[m EXCEPT !.returned = @ \cup {e.id}, !.nRet = @ + 1,
                     !.raced = IF m.sdCalls > 0 THEN @ \cup {e.id} ELSE @], {}>>
    [] e.ev = "Call" /\ e.op = "FF" -> <<[m EXCEPT !.snap = Put(@, e.proc, m.returned)], {}>>
    [] e.ev = "Call" /\ e.op = "SD" ->
         <<[m EXCEPT !.snap = Put(@, e.proc, m.returned), !.sdCalls = @ + 1,
                     !.firstSD = IF m.sdCalls = 0 THEN e.proc ELSE @], {}>>
    [] e.ev = "Early" ->
         <<[m EXCEPT !.early = Put(@, e.proc, e.where)],
           IF m.sdCalls > 0 THEN {} ELSE {[kind |-> "stopped-exit-without-shutdown", proc |-> e.proc]}>>
    [] e.ev = "Ignored" ->
         <<[m EXCEPT !.ignored = @ \cup {e.id}],
           IF m.sdCalls > 0 THEN {} ELSE {[kind |-> "ignored-without-shutdown", id |-> e.id]}>>
    [] e.ev = "Enq" ->       \* under the queue lock: e.full = ring was full, e.over = the record written over
         <<[m EXCEPT !.inq = Append(IF e.full THEN Without(@, {e.over}) ELSE @, e.id),
                     !.overwritten = IF e.full THEN @ \cup {e.over} ELSE @,
                     !.tooLate = IF m.flushed THEN @ \cup {e.id} ELSE @],
           (IF e.full /\ (m.inq = <<>> \/ Len(m.inq) # m.cfg.qcap)
              THEN {[kind |-> "overwrote-below-capacity", id |-> e.id, len |-> Len(m.inq)]} ELSE {})
           \cup (IF e.full /\ m.inq # <<>> /\ e.over # Head(m.inq)
                   THEN {[kind |-> "overwrote-not-oldest", over |-> e.over, oldest |-> Head(m.inq)]} ELSE {})
           \cup (IF ~e.full /\ Len(m.inq) >= m.cfg.qcap
                   THEN {[kind |-> "queue-above-capacity", id |-> e.id, len |-> Len(m.inq)]} ELSE {})
           \cup (IF e.id \in m.ignored THEN {[kind |-> "enqueued-an-ignored-record", id |-> e.id]} ELSE {})>>
    [] e.ev = "Offer" ->     \* under the queue lock, before the buffer sees them: records TryDequeue copied out and offers
         LET ids == SeqToSet(e.ids) n == m.nbatch + 1 IN
         <<[m EXCEPT !.nbatch = n, !.batchOf = [x \in (DOMAIN @) \cup ids |-> IF x \in ids THEN n ELSE @[x]], !.lastOffer = e.ids],
           IF Len(e.ids) > Len(m.inq) \/ SubSeq(m.inq, 1, Len(e.ids)) # e.ids
             THEN {[kind |-> "dequeue-not-fifo", ids |-> e.ids, queue |-> m.inq]} ELSE {}>>
    [] e.ev \in {"Deq", "QFlushed"} ->   \* under the queue lock: records taken out (TryDequeue accepted / Flush)
         LET ids == SeqToSet(e.ids) n == m.nbatch + 1 IN
         <<[m EXCEPT !.inq = Without(@, ids),
                     !.nbatch = IF e.ev = "QFlushed" THEN n ELSE @,
                     !.batchOf = IF e.ev = "QFlushed" THEN [x \in (DOMAIN @) \cup ids |-> IF x \in ids THEN n ELSE @[x]] ELSE @,
                     !.sdheld = IF e.ev = "QFlushed" THEN @ \cup ids ELSE @,
                     !.flushed = (@ \/ e.ev = "QFlushed"),
                     !.handedB = IF e.ids = <<>> \/ (e.ev = "Deq" /\ Len(m.pre) >= Len(e.ids)) THEN @
                                 ELSE Append(@, IF e.ev = "Deq" THEN DropN(e.ids, Len(m.pre)) ELSE e.ids),
                     !.pre = IF e.ev = "Deq" THEN <<>> ELSE @],
           (IF Len(e.ids) > Len(m.inq) \/ SubSeq(m.inq, 1, Len(e.ids)) # e.ids
              THEN {[kind |-> "dequeue-not-fifo", ids |-> e.ids, queue |-> m.inq]} ELSE {})
           \cup (IF e.ev = "QFlushed" /\ Len(e.ids) # Len(m.inq) THEN {[kind |-> "flush-left-records", queue |-> m.inq]} ELSE {})
           \cup (IF e.ev = "Deq" /\ ~IsPrefix(m.pre, e.ids)
                   THEN {[kind |-> "exported-not-as-handed-over", ids |-> m.pre, dequeued |-> e.ids]} ELSE {})>>
    [] e.ev = "ExportBegin" ->
         LET ids == SeqToSet(e.ids) late == Late(m, e.ids) IN
         <<[TakeChunk(m, e.ids) EXCEPT !.handed = @ \cup ids, !.inflight = TRUE, !.last = NewLast(m, e.ids),
                     !.curIds = ids],
           (IF ids \cap m.handed # {} \/ Cardinality(ids) # Len(e.ids)
              THEN {[kind |-> "exported-twice", ids |-> (ids \cap m.handed)]} ELSE {})
           \cup (IF Len(e.ids) > m.cfg.maxbatch THEN {[kind |-> "batch-too-large", n |-> Len(e.ids)]} ELSE {})
           \cup (IF e.ids = <<>> THEN {[kind |-> "empty-export"]} ELSE {})
           \cup (IF NotAsHanded(m, e.ids)
                   THEN {[kind |-> "exported-not-as-handed-over", ids |-> e.ids,
                          pending |-> [i \in 1..(IF Len(m.handedB) < 3 THEN Len(m.handedB) ELSE 3) |-> m.handedB[i]]]} ELSE {})
           \cup (IF m.inflight THEN {[kind |-> "concurrent-export"]} ELSE {})
           \cup (IF m.shutRet = "full" \/ m.expShut THEN {[kind |-> "export-after-shutdown"]}
                 ELSE IF m.shutRet = "early" THEN {[kind |-> "export-after-early-shutdown-return"]} ELSE {})
           \cup (IF \E id \in ids : ~Known(m, id) THEN {[kind |-> "exported-unknown-record", ids |-> {id \in ids : ~Known(m, id)}]} ELSE {})
           \cup (IF ids \cap (m.overwritten \cup m.ignored) # {}
                   THEN {[kind |-> "exported-an-overwritten-or-ignored-record", ids |-> ids \cap (m.overwritten \cup m.ignored)]} ELSE {})
           \cup {[kind |-> "content-changed", id |-> e.ids[i]] : i \in {j \in 1..Len(e.ids) : Known(m, e.ids[j]) /\ e.digests[j] # m.emitted[e.ids[j]].digest}}
           \cup (IF Disorder(m, e.ids) THEN {[kind |-> "out-of-order", ids |-> e.ids]}
                 ELSE IF late = {} THEN {}
                 ELSE IF m.cfg.hooks /\ late \subseteq m.sdheld THEN {[kind |-> "final-flush-overtaken", late |-> late]}
                 ELSE IF ~m.cfg.hooks /\ m.sdCalls > 0 THEN {[kind |-> "hookfree-out-of-order-shutdown-concurrent", late |-> late]}
                 ELSE {[kind |-> "out-of-order", ids |-> e.ids, late |-> late]})>>
    [] e.ev = "ExportEnd" ->
         <<[m EXCEPT !.inflight = FALSE, !.expErr = (@ \/ e.err # ""),
                     !.failedIds = IF e.err # "" THEN @ \cup m.curIds ELSE @, !.curIds = {}],
           IF m.inflight THEN {} ELSE {[kind |-> "export-end-without-begin"]}>>
    [] e.ev = "ExporterShutdown" ->
         \* a Shutdown whose context has ended does not wait for the export goroutine (bufferExporter.Shutdown: `case <-ctx.Done()`);
         \* it returns an error, so nothing is promised about exports that follow (the Exporter interface allows the overlap)
         LET forced == e.proc \in m.cancelled IN
         <<[m EXCEPT !.expShut = (@ \/ ~forced), !.expShutAny = TRUE],
           (IF m.expShutAny THEN {[kind |-> "exporter-shutdown-twice"]} ELSE {})
           \cup (IF ~m.inflight THEN {}
                 ELSE IF forced THEN {[kind |-> "obs-exporter-shutdown-during-export-context-ended"]}
                 ELSE {[kind |-> "exporter-shutdown-during-export"]})>>
    [] e.ev = "Cancel" -> <<[m EXCEPT !.cancelled = @ \cup {e.proc}], {}>>
    [] e.ev = "Ret" /\ e.op = "FF" ->
         LET M == Missing(m, Get(m.snap, e.proc, {})) IN
         <<m, IF e.err = "" THEN ByCause(e.proc, M, LAMBDA id : FCause(m, e.proc, id)) ELSE {}>>
    [] e.ev = "Ret" /\ e.op = "SD" ->
         LET M == Missing(m, Get(m.snap, e.proc, {}))
             \* hook-free: the order of the Call lines is not the order of the swaps -- with several Shutdown calls begun nobody
             \* can tell which one did the work, so none of them counts as the full one (the exporter's own Shutdown still does)
             sole == e.proc = m.firstSD /\ m.sdCalls = 1
             stoppedExit == IF m.cfg.hooks THEN Get(m.early, e.proc, "no") # "no" ELSE ~sole IN
         <<[m EXCEPT !.shutRet = IF e.err # "" THEN @ ELSE IF ~stoppedExit THEN "full" ELSE IF @ = "no" THEN "early" ELSE @],
           (IF e.err = "" THEN ByCause(e.proc, M, LAMBDA id : SCause(m, e.proc, id, sole)) ELSE {})
           \* "Shutdown flushes queued log records and shuts down the decorated exporter": the call that did the work -- whatever it
           \* returns, also when its context ended on the way -- has called the exporter's Shutdown
           \cup (IF m.cfg.hooks /\ ~stoppedExit /\ ~m.expShutAny THEN {[kind |-> "exporter-not-shut-down", proc |-> e.proc]} ELSE {})>>
    [] e.ev = "LogDropped" ->
         <<[m EXCEPT !.logged = @ + e.n],
           IF m.cfg.hooks /\ m.logged + e.n > Cardinality(m.overwritten)
             THEN {[kind |-> "dropped-overcounted", logged |-> m.logged + e.n, overwritten |-> Cardinality(m.overwritten)]} ELSE {}>>
    [] e.ev = "EndScenario" ->
         <<m, (IF e.quiescent /\ m.cfg.hooks /\ m.shutRet = "full" /\ ~(SeqToSet(m.inq) \subseteq m.raced)
                 THEN {[kind |-> "records-left-in-queue-after-shutdown", ids |-> SeqToSet(m.inq) \ m.raced]} ELSE {})
              \cup (IF e.quiescent /\ m.cfg.hooks /\ m.pre # <<>>
                      THEN {[kind |-> "exported-not-as-handed-over", ids |-> m.pre, never |-> "dequeued"]} ELSE {})>>
    [] OTHER -> <<m, {}>>
=============================================================================
