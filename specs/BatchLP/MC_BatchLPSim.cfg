SPECIFICATION SimSpec
CONSTANTS
  Emitters <- MCEmitters
  Flushers <- MCFlushers
  Stoppers <- MCStoppers
  RecsPer = @RECSPER@
  QCap = @QCAP@
  Batch = @BATCH@
  BufSize = @BUFSIZE@
  Faults = @FAULTS@
  Ticker = FALSE
  CloneOnEmit = TRUE
  ChunkAbort = FALSE
  FixStopDone = FALSE
  FixClosed = FALSE
  Cancels <- MCCancels
  Admit <- Known
CHECK_DEADLOCK FALSE
