SPECIFICATION FairSpec
CONSTANTS
  Emitters <- MCEmitters
  Flushers <- MCFlushers
  Stoppers <- MCStoppers
  RecsPer = @RECSPER@
  QCap = @QCAP@
  Batch = @BATCH@
  BufSize = @BUFSIZE@
  Faults = @FAULTS@
  Ticker = @TICKER@
  CloneOnEmit = @CLONE@
  ChunkAbort = @ABORT@
  FixStopDone = @FIXA@
  FixClosed = @FIXB@
  Cancels <- MCCancels
  Admit <- MCAdmit
PROPERTIES Termination
CHECK_DEADLOCK FALSE
