-------------------------------- MODULE SLP --------------------------------
(* Growth of the C06 family: the log pipeline around the batch processor.       *)
(*  - LoggerProvider fan-out (sdk/log/logger.go Emit, provider.go): one record   *)
(*    per Emit, handed BY POINTER to every registered processor in registration  *)
(*    order; Emit is ignored once the provider's `stopped` flag is set (fix      *)
(*    b340635); Shutdown swaps the flag and shuts the processors down in order;  *)
(*    ForceFlush returns nil at once when the flag is set.                       *)
(*  - SimpleProcessor (simple.go): OnEmit copies the record BY VALUE and calls   *)
(*    the exporter synchronously under its mutex; Shutdown / ForceFlush forward  *)
(*    to the exporter WITHOUT the mutex.                                         *)
(*  - the Processor interface documents what is shared (processor.go): "The SDK  *)
(*    invokes the processors sequentially in the same order as they were         *)
(*    registered ... Implementations may synchronously modify the record so that *)
(*    the changes are visible in the next registered processor ... asynchronous  *)
(*    processing may cause race conditions.  Use Record.Clone".  So the view of   *)
(*    processor i is: the caller's content plus the modifications of the         *)
(*    processors registered BEFORE i, and nothing done later (by a later         *)
(*    processor or by the caller) -- a synchronous exporter gets that for free,   *)
(*    an asynchronous one (the batch processor) only because it clones.          *)
(*  - the batch processor is abstract here (a FIFO drained by one worker that    *)
(*    exports one record at a time; ForceFlush / Shutdown wait until it is       *)
(*    drained): its internals and its shutdown races are BatchLP.tla's subject.  *)
(*  - Logger.Enabled: len(processors) > len(filterProcessors) || anyEnabled.      *)
(* Kinds[i] \in {"mut", "simple", "batch", "filter"}: a processor that modifies   *)
(* the record synchronously, a SimpleProcessor, a BatchProcessor, a              *)
(* FilterProcessor (Thresh[i] = the lowest severity it says it processes).       *)
(* Mutation: "none" = the code; the others are seeded defects that TLC must find  *)
(* ("nomutex", "skipsecond", "nostopcheck", "noclone").                           *)
EXTENDS Naturals, Sequences, FiniteSets, TLC

CONSTANTS Emitters, RecsPer, Kinds, Thresh, Flushers, Stoppers, Mutation, Admit

VARIABLES pstopped,  \* LoggerProvider.stopped
          mu,        \* position -> holder of that SimpleProcessor's mutex or "none"
          bq,        \* position -> queue of the (abstract) batch processor: [id, ref, c]
          bstopped,  \* position -> that batch processor has been told to shut down
          wpc, wcur, \* position -> its worker: "idle" | "exporting", the record being exported
          xshut,     \* position -> the exporter behind it has been shut down
          content,   \* id -> the live record of that Emit: positions of the modifying processors that have touched it
          pc, pi,    \* process -> label, position of the processor it is dealing with
          eidx, mon
vars == <<pstopped, mu, bq, bstopped, wpc, wcur, xshut, content, pc, pi, eidx, mon>>

N == Len(Kinds)
Pos == 1..N
Simple == {i \in Pos : Kinds[i] = "simple"}
BatchP == {i \in Pos : Kinds[i] = "batch"}
Exporting == Simple \cup BatchP
Filters == {i \in Pos : Kinds[i] = "filter"}
Ids == Emitters \X (1..RecsPer)
Callers == Flushers \cup Stoppers
Procs == Emitters \cup Callers
NoRec == [id |-> <<"", 0>>, ref |-> FALSE, c |-> <<>>]
(* what the exporter at position i must see: the modifications of the processors registered before it, in order *)
ExpectAt(i) == SelectSeq([j \in Pos |-> j], LAMBDA j : j < i /\ Kinds[j] = "mut")

Init == /\ pstopped = FALSE /\ mu = [i \in Pos |-> "none"] /\ bq = [i \in Pos |-> <<>>]
        /\ bstopped = [i \in Pos |-> FALSE] /\ wpc = [i \in Pos |-> "idle"] /\ wcur = [i \in Pos |-> NoRec]
        /\ xshut = [i \in Pos |-> FALSE] /\ content = [id \in Ids |-> <<>>]
        /\ pc = [p \in Procs |-> "idle"] /\ pi = [p \in Procs |-> 0] /\ eidx = [g \in Emitters |-> 1]
        /\ mon = [handed |-> [i \in Pos |-> [id \in Ids |-> 0]], inflight |-> [i \in Pos |-> 0],
                  last |-> [i \in Pos |-> [g \in Emitters |-> 0]], returned |-> {}, ignored |-> {}, late |-> {},
                  snap |-> [c \in Callers |-> {}], early |-> [c \in Callers |-> FALSE], sdRet |-> FALSE, bad |-> {}]
Go(p, l) == pc' = [pc EXCEPT ![p] = l]
(* the fan-out loop `for _, p := range processors` *)
NextPos(i) == IF Mutation = "skipsecond" /\ i + 1 = 2 THEN 3 ELSE i + 1
FirstPos == 1

(* the exporter at position i is entered with record id whose content is c *)
BeginExport(i, id, c, m) ==
  [m EXCEPT !.handed[i][id] = @ + 1, !.inflight[i] = @ + 1,
            !.last[i][id[1]] = IF id[2] > @ THEN id[2] ELSE @,
            !.bad = @ \cup (IF m.inflight[i] > 0 THEN {"concurrent-export"} ELSE {})
                      \cup (IF m.handed[i][id] > 0 THEN {"exported-twice"} ELSE {})
                      \cup (IF c # ExpectAt(i) THEN {"content-mismatch"} ELSE {})
                      \cup (IF id[2] < m.last[i][id[1]] THEN {"out-of-order"} ELSE {})
                      \cup (IF ~m.sdRet \/ id \in m.late THEN {}          \* a late Emit is judged where it is processed
                            ELSE IF Kinds[i] = "batch" THEN {"export-after-shutdown"}
                            ELSE {"O1-simple-export-after-shutdown-raced"})]

(* ---------------------------------------------------------------- Logger.Emit *)
Id(g) == <<g, eidx[g]>>
ECall(g) == /\ pc[g] = "idle" /\ eidx[g] <= RecsPer /\ Go(g, "check")
            /\ mon' = [mon EXCEPT !.late = IF mon.sdRet THEN @ \cup {Id(g)} ELSE @]
            /\ UNCHANGED <<pstopped, mu, bq, bstopped, wpc, wcur, xshut, content, pi, eidx>>
ECheck(g) == /\ pc[g] = "check"
             /\ IF pstopped /\ Mutation # "nostopcheck"
                  THEN Go(g, "ret") /\ mon' = [mon EXCEPT !.ignored = @ \cup {Id(g)}] /\ UNCHANGED pi
                  ELSE Go(g, "proc") /\ pi' = [pi EXCEPT ![g] = FirstPos] /\ UNCHANGED mon
             /\ UNCHANGED <<pstopped, mu, bq, bstopped, wpc, wcur, xshut, content, eidx>>
(* p.OnEmit(ctx, &newRecord) of the next processor *)
EProc(g) ==
  /\ pc[g] = "proc"
  /\ LET i == pi[g] id == Id(g)
         m1 == IF id \in mon.late THEN [mon EXCEPT !.bad = @ \cup {"processed-after-shutdown"}] ELSE mon IN
     IF i > N THEN Go(g, "ret") /\ UNCHANGED <<content, bq, pi, mon>>
     ELSE /\ mon' = m1
          /\ CASE Kinds[i] = "mut" -> /\ content' = [content EXCEPT ![id] = Append(@, i)]
                                       /\ pi' = [pi EXCEPT ![g] = NextPos(i)] /\ UNCHANGED <<bq, pc>>
               [] Kinds[i] = "filter" -> pi' = [pi EXCEPT ![g] = NextPos(i)] /\ UNCHANGED <<content, bq, pc>>
               [] Kinds[i] = "batch" ->      \* OnEmit: stopped? else Enqueue(r.Clone())
                    /\ bq' = IF bstopped[i] THEN bq
                             ELSE [bq EXCEPT ![i] = Append(@, [id |-> id, ref |-> Mutation = "noclone", c |-> content[id]])]
                    /\ pi' = [pi EXCEPT ![g] = NextPos(i)] /\ UNCHANGED <<content, pc>>
               [] Kinds[i] = "simple" -> Go(g, "slock") /\ UNCHANGED <<content, bq, pi>>
  /\ UNCHANGED <<pstopped, mu, bstopped, wpc, wcur, xshut, eidx>>
(* SimpleProcessor.OnEmit: s.mu.Lock(); records[0] = *r; exporter.Export *)
SLock(g) == /\ pc[g] = "slock"
            /\ LET i == pi[g] IN
               /\ Mutation = "nomutex" \/ mu[i] = "none"
               /\ mu' = IF Mutation = "nomutex" THEN mu ELSE [mu EXCEPT ![i] = g]
               /\ mon' = BeginExport(i, Id(g), content[Id(g)], mon)
            /\ Go(g, "sexp")
            /\ UNCHANGED <<pstopped, bq, bstopped, wpc, wcur, xshut, content, pi, eidx>>
SExpEnd(g) == /\ pc[g] = "sexp" /\ Go(g, "proc")
              /\ LET i == pi[g] IN
                 /\ mu' = IF mu[i] = g THEN [mu EXCEPT ![i] = "none"] ELSE mu
                 /\ mon' = [mon EXCEPT !.inflight[i] = @ - 1]
                 /\ pi' = [pi EXCEPT ![g] = NextPos(i)]
              /\ UNCHANGED <<pstopped, bq, bstopped, wpc, wcur, xshut, content, eidx>>
(* Emit returns: every SimpleProcessor has exported the record (synchronous), unless the provider ignored it *)
ERet(g) == /\ pc[g] = "ret" /\ Go(g, "idle")
           /\ LET id == Id(g) IN
              mon' = [mon EXCEPT !.returned = @ \cup {id},
                        !.bad = @ \cup (IF id \notin mon.ignored /\ \E i \in Simple : mon.handed[i][id] = 0
                                          THEN {"simple-not-exported-at-return"} ELSE {})]
           /\ eidx' = [eidx EXCEPT ![g] = @ + 1]
           /\ UNCHANGED <<pstopped, mu, bq, bstopped, wpc, wcur, xshut, content, pi>>

(* ---------------------------------------------------------------- worker of the abstract batch processor at i *)
WBegin(i) == /\ wpc[i] = "idle" /\ bq[i] # <<>>
             /\ LET e == Head(bq[i]) IN
                /\ wcur' = [wcur EXCEPT ![i] = e] /\ bq' = [bq EXCEPT ![i] = Tail(@)]
                /\ mon' = BeginExport(i, e.id, IF e.ref THEN content[e.id] ELSE e.c, mon)
             /\ wpc' = [wpc EXCEPT ![i] = "exporting"]
             /\ UNCHANGED <<pstopped, mu, bstopped, xshut, content, pc, pi, eidx>>
WEnd(i) == /\ wpc[i] = "exporting" /\ wpc' = [wpc EXCEPT ![i] = "idle"] /\ wcur' = [wcur EXCEPT ![i] = NoRec]
           /\ mon' = [mon EXCEPT !.inflight[i] = @ - 1]
           /\ UNCHANGED <<pstopped, mu, bq, bstopped, xshut, content, pc, pi, eidx>>
Drained(i) == bq[i] = <<>> /\ wpc[i] = "idle"

(* ---------------------------------------------------------------- LoggerProvider.ForceFlush *)
Missing(S) == {id \in S \ mon.ignored : \E i \in Exporting : mon.handed[i][id] = 0}
FCall(f) == /\ pc[f] = "idle" /\ Go(f, "check") /\ mon' = [mon EXCEPT !.snap[f] = mon.returned]
            /\ UNCHANGED <<pstopped, mu, bq, bstopped, wpc, wcur, xshut, content, pi, eidx>>
FCheck(f) == /\ pc[f] = "check"
             /\ IF pstopped THEN Go(f, "ret") /\ mon' = [mon EXCEPT !.early[f] = TRUE] /\ UNCHANGED pi
                            ELSE Go(f, "proc") /\ pi' = [pi EXCEPT ![f] = 1] /\ UNCHANGED mon
             /\ UNCHANGED <<pstopped, mu, bq, bstopped, wpc, wcur, xshut, content, eidx>>
FProc(f) == /\ pc[f] = "proc"
            /\ LET i == pi[f] IN
               IF i > N THEN Go(f, "ret") /\ UNCHANGED pi
               ELSE /\ (Kinds[i] = "batch" => Drained(i))       \* the batch processor's ForceFlush waits
                    /\ pi' = [pi EXCEPT ![f] = i + 1] /\ UNCHANGED pc
            /\ UNCHANGED <<pstopped, mu, bq, bstopped, wpc, wcur, xshut, content, eidx, mon>>
FRet(f) == /\ pc[f] = "ret" /\ Go(f, "done")
           /\ mon' = [mon EXCEPT !.bad = @ \cup (IF Missing(mon.snap[f]) = {} THEN {}
                                                 ELSE IF mon.early[f] THEN {"O2-provider-flush-during-shutdown"} ELSE {"flush-missed"})]
           /\ UNCHANGED <<pstopped, mu, bq, bstopped, wpc, wcur, xshut, content, pi, eidx>>

(* ---------------------------------------------------------------- LoggerProvider.Shutdown *)
SCall(s) == /\ pc[s] = "idle" /\ Go(s, "swap") /\ mon' = [mon EXCEPT !.snap[s] = mon.returned]
            /\ UNCHANGED <<pstopped, mu, bq, bstopped, wpc, wcur, xshut, content, pi, eidx>>
SSwap(s) == /\ pc[s] = "swap"
            /\ IF pstopped THEN Go(s, "ret") /\ mon' = [mon EXCEPT !.early[s] = TRUE] /\ UNCHANGED <<pi, pstopped>>
                           ELSE pstopped' = TRUE /\ Go(s, "proc") /\ pi' = [pi EXCEPT ![s] = 1] /\ UNCHANGED mon
            /\ UNCHANGED <<mu, bq, bstopped, wpc, wcur, xshut, content, eidx>>
SProc(s) == /\ pc[s] = "proc"
            /\ LET i == pi[s] IN
               IF i > N THEN Go(s, "ret") /\ UNCHANGED <<pi, bstopped, xshut, mon>>
               ELSE CASE Kinds[i] = "batch" -> /\ bstopped' = [bstopped EXCEPT ![i] = TRUE] /\ Go(s, "bwait")
                                                /\ UNCHANGED <<pi, xshut, mon>>
                      [] Kinds[i] = "simple" ->     \* SimpleProcessor.Shutdown: exporter.Shutdown, no mutex
                           /\ xshut' = [xshut EXCEPT ![i] = TRUE] /\ pi' = [pi EXCEPT ![s] = i + 1]
                           /\ mon' = [mon EXCEPT !.bad = @ \cup (IF mon.inflight[i] > 0 THEN {"O3-exporter-shutdown-during-export"} ELSE {})]
                           /\ UNCHANGED <<pc, bstopped>>
                      [] OTHER -> pi' = [pi EXCEPT ![s] = i + 1] /\ UNCHANGED <<pc, bstopped, xshut, mon>>
            /\ UNCHANGED <<pstopped, mu, bq, wpc, wcur, content, eidx>>
SBWait(s) == /\ pc[s] = "bwait" /\ Drained(pi[s]) /\ Go(s, "proc")
             /\ xshut' = [xshut EXCEPT ![pi[s]] = TRUE] /\ pi' = [pi EXCEPT ![s] = @ + 1]
             /\ UNCHANGED <<pstopped, mu, bq, bstopped, wpc, wcur, content, eidx, mon>>
SRet(s) == /\ pc[s] = "ret" /\ Go(s, "done")
           /\ mon' = [mon EXCEPT !.sdRet = (@ \/ ~mon.early[s]),
                                 !.bad = @ \cup (IF Missing(mon.snap[s]) = {} THEN {}
                                                 ELSE IF mon.early[s] THEN {"O4-second-shutdown-returns-early"} ELSE {"shutdown-missed"})]
           /\ UNCHANGED <<pstopped, mu, bq, bstopped, wpc, wcur, xshut, content, pi, eidx>>

Next == \/ \E g \in Emitters : ECall(g) \/ ECheck(g) \/ EProc(g) \/ SLock(g) \/ SExpEnd(g) \/ ERet(g)
        \/ \E i \in BatchP : WBegin(i) \/ WEnd(i)
        \/ \E f \in Flushers : FCall(f) \/ FCheck(f) \/ FProc(f) \/ FRet(f)
        \/ \E s \in Stoppers : SCall(s) \/ SSwap(s) \/ SProc(s) \/ SBWait(s) \/ SRet(s)
Spec == Init /\ [][Next]_vars
FairSpec == /\ Spec
            /\ \A g \in Emitters : WF_vars(ECheck(g) \/ EProc(g) \/ SLock(g) \/ SExpEnd(g) \/ ERet(g))
            /\ \A i \in BatchP : WF_vars(WBegin(i) \/ WEnd(i))
            /\ \A f \in Flushers : WF_vars(FCheck(f) \/ FProc(f) \/ FRet(f))
            /\ \A s \in Stoppers : WF_vars(SSwap(s) \/ SProc(s) \/ SBWait(s) \/ SRet(s))

(* ---------------------------------------------------------------- properties *)
(* Observations admitted for the code as it is (the documentation promises nothing else; evidence only):        *)
(*  O1 an Emit that passed the provider's stopped check before Shutdown swapped it reaches a SimpleProcessor     *)
(*     after Shutdown has returned: Export is called on an exporter that has been shut down (the Exporter        *)
(*     interface says such calls "should perform no operation", so the SDK is allowed to make them).              *)
(*  O2 LoggerProvider.ForceFlush returns nil at once while a Shutdown is running (same shape as BatchLP's D1).    *)
(*  O3 SimpleProcessor.Shutdown calls exporter.Shutdown without the mutex: concurrently with a running Export     *)
(*     ("Shutdown may be called concurrently with itself or with other methods").                                 *)
(*  O4 a second LoggerProvider.Shutdown returns nil at once while the first is still working.                    *)
Observed == {"O1-simple-export-after-shutdown-raced", "O2-provider-flush-during-shutdown",
             "O3-exporter-shutdown-during-export", "O4-second-shutdown-returns-early"}
Contract == mon.bad \subseteq Admit
NoDup == \A i \in Pos, id \in Ids : mon.handed[i][id] <= 1
Exclusive == \A i \in Pos : mon.inflight[i] <= 1
MuOK == \A i \in Pos : mu[i] # "none" => (Kinds[i] = "simple" /\ pc[mu[i]] = "sexp" /\ pi[mu[i]] = i)
(* Logger.Enabled as coded (len(processors) > len(fltrProcessors) || anyEnabled) against the documentation      *)
(* ("returns false if all the registered Processors implement FilterProcessor and they all return false")       *)
Sevs == {1, 2, 3}
EnabledImpl(sev) == Cardinality(Pos) > Cardinality(Filters) \/ \E i \in Filters : Thresh[i] <= sev
EnabledDoc(sev) == ~((\A i \in Pos : Kinds[i] = "filter") /\ (\A i \in Filters : ~(Thresh[i] <= sev)))
EnabledOK == \A sev \in Sevs : EnabledImpl(sev) = EnabledDoc(sev)
AllDone == /\ \A g \in Emitters : pc[g] = "idle" /\ eidx[g] > RecsPer
           /\ \A c \in Callers : pc[c] = "done"
Stuck == (~ENABLED Next) => AllDone
Termination == /\ \A g \in Emitters : (pc[g] = "check") ~> (pc[g] = "idle")
               /\ \A c \in Callers : (pc[c] \in {"check", "swap"}) ~> (pc[c] = "done")
=============================================================================
