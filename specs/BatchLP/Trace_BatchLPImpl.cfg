SPECIFICATION TSpec
CONSTANTS
  Emitters <- TrEmitters
  Flushers <- TrFlushers
  Stoppers <- TrStoppers
  RecsPer <- TrRecsPer
  QCap <- TrQCap
  Batch <- TrBatch
  BufSize <- TrBufSize
  Faults = TRUE
  Ticker = TRUE
  CloneOnEmit = TRUE
  ChunkAbort = FALSE
  FixStopDone = FALSE
  FixClosed = FALSE
  Cancels <- TrCancels
  Admit <- Known
POSTCONDITION TPost
CHECK_DEADLOCK FALSE
