------------------------------ MODULE MC_BatchLP ------------------------------
EXTENDS BatchLP
MCEmitters == @EMITTERS@
MCFlushers == @FLUSHERS@
MCStoppers == @STOPPERS@
MCCancels == @CANCELS@
MCAdmit == @ADMIT@
=============================================================================
