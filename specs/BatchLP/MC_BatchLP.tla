------------------------------ MODULE MC_BatchLP ------------------------------
EXTENDS BatchLP
MCEmitters == @EMITTERS@
MCFlushers == @FLUSHERS@
MCStoppers == @STOPPERS@
MCAdmit == @ADMIT@
=============================================================================
