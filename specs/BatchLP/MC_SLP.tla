------------------------------- MODULE MC_SLP -------------------------------
EXTENDS SLP
MCEmitters == @EMITTERS@
MCFlushers == @FLUSHERS@
MCStoppers == @STOPPERS@
MCKinds == @KINDS@
MCThresh == @THRESH@
MCAdmit == @ADMIT@
=============================================================================
