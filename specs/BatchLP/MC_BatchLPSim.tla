---------------------------- MODULE MC_BatchLPSim ----------------------------
EXTENDS BatchLPSim
MCEmitters == @EMITTERS@
MCFlushers == @FLUSHERS@
MCStoppers == @STOPPERS@
MCCancels == @CANCELS@
=============================================================================
