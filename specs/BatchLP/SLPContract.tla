----------------------------- MODULE SLPContract -----------------------------
(* The log pipeline's contract as a total monitor over API-observable events of *)
(* a LoggerProvider with several processors (harness/c06 `pipeline` mode):      *)
(* Call/Ret of Logger.Emit / LoggerProvider.ForceFlush / Shutdown, what the      *)
(* recording exporter behind each SimpleProcessor / BatchProcessor sees          *)
(* (ExportBegin/End with its position `exp`, ids and content digests,            *)
(* ExporterShutdown), what the harness' own processors see (Mut: a modifying     *)
(* processor, with the digest AFTER its modification; Seen: a filter processor), *)
(* and the answers of Logger.Enabled.  Same vocabulary of clauses as             *)
(* BatchLPContract, per exporter: exactly once, per-goroutine order,             *)
(* exclusivity, bounded batches, nothing after Shutdown returned, and the view   *)
(* rule of the Processor interface (sdk/log/processor.go): the exporter at       *)
(* position p sees the caller's content at Emit plus the modifications made by   *)
(* the processors registered BEFORE p -- and nothing done later by a processor   *)
(* registered after p or by the caller.                                          *)
(* Where the documentation is silent the monitor only observes (kinds "obs-*",   *)
(* never a verdict): everything that overlaps a Shutdown call at provider level  *)
(* (ForceFlush / second Shutdown returning at once, a raced Emit reaching a      *)
(* SimpleProcessor after Shutdown returned, exporter.Shutdown during an Export   *)
(* of a SimpleProcessor -- allowed by the Exporter interface).                   *)
EXTENDS Naturals, Sequences, FiniteSets, TLC

Fresh(cfg) == [cfg |-> cfg,
               emitted |-> <<>>,     \* id -> [g, k, digest]
               returned |-> {},      \* ids whose Emit has returned
               late |-> {},          \* ids whose Emit was CALLED after the (first) Shutdown had returned
               mut |-> <<>>,         \* id -> sequence of [pos, digest]: modifications in the order they happened
               seen |-> <<>>,        \* id -> positions of the synchronous processors that have had the record
               handed |-> [p \in 1..Len(cfg.kinds) |-> {}],
               inflight |-> [p \in 1..Len(cfg.kinds) |-> FALSE],
               last |-> [p \in 1..Len(cfg.kinds) |-> <<>>],     \* emitter -> largest index exported there
               expShut |-> [p \in 1..Len(cfg.kinds) |-> FALSE],
               snap |-> <<>>, sdCalls |-> 0, firstSD |-> "", sdFull |-> FALSE]

Put(f, k, v) == [x \in (DOMAIN f) \cup {k} |-> IF x = k THEN v ELSE f[x]]
Get(f, k, d) == IF k \in DOMAIN f THEN f[k] ELSE d
SeqToSet(s) == {s[i] : i \in 1..Len(s)}
Known(m, id) == id \in DOMAIN m.emitted
Pos(m) == 1..Len(m.cfg.kinds)
Kind(m, p) == IF p \in Pos(m) THEN m.cfg.kinds[p] ELSE "?"
Exporting(m) == {p \in Pos(m) : m.cfg.kinds[p] \in {"simple", "batch"}}
Sync(m) == {p \in Pos(m) : m.cfg.kinds[p] \in {"simple", "mut", "filter"}}
MaxSet(S, d) == IF S = {} THEN d ELSE CHOOSE n \in S : \A x \in S : x <= n

(* the view rule: digest after the last modification made by a processor registered before p *)
Expect(m, id, p) == LET M == SelectSeq(Get(m.mut, id, <<>>), LAMBDA e : e.pos < p) IN
                    IF M = <<>> THEN m.emitted[id].digest ELSE M[Len(M)].digest
Owner(m, id) == IF Known(m, id) THEN m.emitted[id] ELSE [g |-> 0, k |-> 0, digest |-> ""]
(* a synchronous processor at position p gets record id: positions must come in registration order *)
SeenAt(m, id, p) == [m EXCEPT !.seen = Put(@, id, Get(@, id, {}) \cup {p})]
OrderViol(m, id, p) == IF \E x \in Get(m.seen, id, {}) : x >= p
                         THEN {[kind |-> "fanout-order", id |-> id, pos |-> p, before |-> Get(m.seen, id, {})]} ELSE {}
LateViol(m, id, p) == IF id \in m.late THEN {[kind |-> "processed-after-shutdown", id |-> id, pos |-> p]} ELSE {}
MissingAt(m, S) == {[pos |-> p, ids |-> S \ m.handed[p]] : p \in {x \in Exporting(m) : S \ m.handed[x] # {}}}
EnabledWant(m, sev) == LET F == {p \in Pos(m) : m.cfg.kinds[p] = "filter"} IN
                       Cardinality(Pos(m)) > Cardinality(F) \/ \E p \in F : m.cfg.thresh[p] <= sev

Step(m, e) ==
  CASE e.ev = "Call" /\ e.op = "Emit" ->
         <<[m EXCEPT !.emitted = Put(@, e.id, [g |-> e.g, k |-> e.k, digest |-> e.digest]),
                     !.late = IF m.sdFull THEN @ \cup {e.id} ELSE @],
           IF Known(m, e.id) THEN {[kind |-> "harness-duplicate-id", id |-> e.id]} ELSE {}>>
    [] e.ev = "Ret" /\ e.op = "Emit" ->
         <<[m EXCEPT !.returned = @ \cup {e.id}],
           \* no Shutdown call has begun: every synchronous processor has had the record, every SimpleProcessor has exported it
           IF m.sdCalls > 0 \/ ~Known(m, e.id) THEN {}
           ELSE (LET S == {p \in Pos(m) : m.cfg.kinds[p] = "simple" /\ e.id \notin m.handed[p]} IN
                 IF S = {} THEN {} ELSE {[kind |-> "simple-not-exported-at-return", id |-> e.id, pos |-> S]})
                \cup (LET S == {p \in Pos(m) : m.cfg.kinds[p] \in {"mut", "filter"} /\ p \notin Get(m.seen, e.id, {})} IN
                      IF S = {} THEN {} ELSE {[kind |-> "processor-skipped", id |-> e.id, pos |-> S]})>>
    [] e.ev = "Mut" ->       \* the modifying processor at e.pos has changed the record; e.digest = its content now
         <<[SeenAt(m, e.id, e.pos) EXCEPT !.mut = Put(@, e.id, Append(Get(@, e.id, <<>>), [pos |-> e.pos, digest |-> e.digest]))],
           OrderViol(m, e.id, e.pos) \cup LateViol(m, e.id, e.pos)>>
    [] e.ev = "Seen" ->      \* a filter processor's OnEmit was called
         <<SeenAt(m, e.id, e.pos), OrderViol(m, e.id, e.pos) \cup LateViol(m, e.id, e.pos)>>
    [] e.ev = "ExportBegin" ->
         LET p == e.exp ids == SeqToSet(e.ids) simple == Kind(m, p) = "simple"
             late == {e.ids[i] : i \in {j \in 1..Len(e.ids) : Owner(m, e.ids[j]).k < Get(m.last[p], Owner(m, e.ids[j]).g, 0)}}
             m1 == [m EXCEPT !.handed[p] = @ \cup ids, !.inflight[p] = TRUE,
                             !.last[p] = LET gs == {Owner(m, x).g : x \in ids} IN
                                         [g \in (DOMAIN @) \cup gs |-> MaxSet({Owner(m, x).k : x \in {y \in ids : Owner(m, y).g = g}} \cup {Get(@, g, 0)}, 0)]]
             m2 == IF simple /\ Len(e.ids) = 1 THEN SeenAt(m1, e.ids[1], p) ELSE m1 IN
         <<m2,
           (IF ids \cap m.handed[p] # {} \/ Cardinality(ids) # Len(e.ids)
              THEN {[kind |-> "exported-twice", exp |-> p, ids |-> ids \cap m.handed[p]]} ELSE {})
           \cup (IF m.inflight[p] THEN {[kind |-> "concurrent-export", exp |-> p]} ELSE {})
           \cup (IF e.ids = <<>> THEN {[kind |-> "empty-export", exp |-> p]} ELSE {})
           \cup (IF simple /\ Len(e.ids) # 1 THEN {[kind |-> "simple-batch-size", exp |-> p, n |-> Len(e.ids)]} ELSE {})
           \cup (IF ~simple /\ Len(e.ids) > m.cfg.maxbatch THEN {[kind |-> "batch-too-large", exp |-> p, n |-> Len(e.ids)]} ELSE {})
           \cup (IF \E id \in ids : ~Known(m, id) THEN {[kind |-> "exported-unknown-record", exp |-> p]} ELSE {})
           \cup {[kind |-> "content-mismatch", exp |-> p, id |-> e.ids[i]] :
                   i \in {j \in 1..Len(e.ids) : Known(m, e.ids[j]) /\ e.digests[j] # Expect(m, e.ids[j], p)}}
           \cup (IF late # {} \/ \E i \in 1..Len(e.ids) : \E j \in 1..(i - 1) :
                        Owner(m, e.ids[j]).g = Owner(m, e.ids[i]).g /\ Owner(m, e.ids[j]).k > Owner(m, e.ids[i]).k
                   THEN {[kind |-> "out-of-order", exp |-> p, ids |-> e.ids]} ELSE {})
           \cup UNION {LateViol(m, id, p) : id \in ids}
           \cup (IF simple /\ Len(e.ids) = 1 THEN OrderViol(m, e.ids[1], p) ELSE {})
           \cup (IF ~m.sdFull \/ ids \subseteq m.late THEN {}
                 ELSE IF simple THEN {[kind |-> "obs-simple-export-after-shutdown-raced", exp |-> p]}
                 ELSE {[kind |-> "export-after-shutdown", exp |-> p, ids |-> ids \ m.late]})>>
    [] e.ev = "ExportEnd" ->
         <<[m EXCEPT !.inflight[e.exp] = FALSE],
           IF m.inflight[e.exp] THEN {} ELSE {[kind |-> "export-end-without-begin", exp |-> e.exp]}>>
    [] e.ev = "ExporterShutdown" ->
         <<[m EXCEPT !.expShut[e.exp] = TRUE],
           (IF m.expShut[e.exp] THEN {[kind |-> "exporter-shutdown-twice", exp |-> e.exp]} ELSE {})
           \cup (IF ~m.inflight[e.exp] THEN {}
                 ELSE IF Kind(m, e.exp) = "simple" THEN {[kind |-> "obs-exporter-shutdown-during-export", exp |-> e.exp]}
                 ELSE {[kind |-> "exporter-shutdown-during-export", exp |-> e.exp]})>>
    [] e.ev = "Call" /\ e.op = "FF" -> <<[m EXCEPT !.snap = Put(@, e.proc, m.returned)], {}>>
    [] e.ev = "Call" /\ e.op = "SD" ->
         <<[m EXCEPT !.snap = Put(@, e.proc, m.returned), !.sdCalls = @ + 1, !.firstSD = IF m.sdCalls = 0 THEN e.proc ELSE @], {}>>
    [] e.ev = "Ret" /\ e.op = "FF" ->
         LET M == MissingAt(m, Get(m.snap, e.proc, {})) IN
         <<m, IF e.err # "" \/ M = {} THEN {}
              ELSE IF m.sdCalls > 0 THEN {[kind |-> "obs-flush-during-shutdown", proc |-> e.proc]}
              ELSE {[kind |-> "flush-missed", proc |-> e.proc, missing |-> M]}>>
    [] e.ev = "Ret" /\ e.op = "SD" ->
         LET M == MissingAt(m, Get(m.snap, e.proc, {})) first == e.proc = m.firstSD IN
         <<[m EXCEPT !.sdFull = (@ \/ first)],
           IF e.err # "" \/ M = {} THEN {}
           ELSE IF ~first THEN {[kind |-> "obs-second-shutdown-returns-early", proc |-> e.proc]}
           ELSE {[kind |-> "shutdown-missed", proc |-> e.proc, missing |-> M]}>>
    [] e.ev = "Enabled" ->
         <<m, IF e.result = EnabledWant(m, e.sev) \/ (m.sdCalls > 0 /\ ~e.result) THEN {}
              ELSE {[kind |-> "enabled-wrong", sev |-> e.sev, got |-> e.result]}>>
    [] OTHER -> <<m, {}>>
=============================================================================
