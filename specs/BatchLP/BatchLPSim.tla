------------------------------ MODULE BatchLPSim ------------------------------
(* spec -> code: TLC -simulate over BatchLP with a history of gate releases.       *)
(* A real goroutine that has performed an action waits at the instrumentation      *)
(* point that follows it (a verif hook of sdk/log, the user exporter's Export /    *)
(* ForceFlush / Shutdown, or the harness gate before a call) until the scheduler   *)
(* lets it pass; what it does next is its next action.  Each simulated action of   *)
(* process P therefore appends the key of the gate P is waiting at (last[P]) --    *)
(* "release P now" -- and, if P reaches another gate G after the action, the       *)
(* arrival marker "G+" ("nobody else moves before P got there"), and records G.    *)
(* The Go harness replays the key sequence with vh.Sched.  Steps without a gate    *)
(* in front of them (last = "") cannot be steered and happen when the Go scheduler *)
(* pleases; the poll ticker is not gateable (Go's select chooses): Ticker = FALSE  *)
(* here and the harness sets a one hour interval.  xres is the scripted result of  *)
(* the n-th Export call of the user exporter.                                      *)
EXTENDS BatchLP, Json

VARIABLES hist, xres, last, fin
svars == <<vars, hist, xres, last, fin>>

EK(g) == g \o ":" \o ToString(eidx[g])
EKn(g) == g \o ":" \o ToString(eidx[g] + 1)
Step(p, after) == /\ hist' = hist \o (IF last[p] = "" THEN <<>> ELSE <<last[p]>>) \o (IF after = "" THEN <<>> ELSE <<after \o "+">>)
                  /\ last' = [last EXCEPT ![p] = after]
                  /\ UNCHANGED <<fin, xres>>
Keep == UNCHANGED <<hist, xres, last, fin>>

SimNext ==
  \/ \E g \in Emitters :
        \/ ECall(g) /\ Keep
        \/ ECheck(g) /\ Step(g, EK(g) \o (IF stopped THEN "@blp.onemit.ignored" ELSE "@blp.onemit.checked"))
        \/ EEnqueue(g) /\ Step(g, IF pc'[g] = "trig" THEN "" ELSE EK(g) \o "@blp.onemit.enqueued")
        \/ ETrigger(g) /\ Step(g, EK(g) \o "@blp.onemit.enqueued")
        \/ ERet(g) /\ Step(g, IF eidx[g] < RecsPer THEN EKn(g) \o "@call" ELSE "")
  \/ PollTrig /\ Step("poll", "poll@blp.poll.woke")
  \/ PollKill /\ Step("poll", "")
  \/ PollDropped /\ Step("poll", "")
  \/ PollReady /\ Step("poll", "")
  \/ PollLen /\ Step("poll", "poll@blp.poll.dequeued")
  \/ PollDequeue /\ Step("poll", "poll@blp.poll.dequeued")
  \/ PollRetrig /\ Step("poll", "")
  \/ XRecv /\ Step("x", "")
  \/ XDone /\ Step("x", "")
  \/ XBegin /\ Step("x", "x@exp.begin")
  \/ \E ok \in BOOLEAN, abort \in BOOLEAN : /\ (ok \/ Faults) /\ (abort => ChunkAbort) /\ XEnd(ok, abort)
                         /\ hist' = Append(hist, "x@exp.begin") /\ last' = [last EXCEPT !["x"] = ""]
                         /\ xres' = Append(xres, IF ok THEN "ok" ELSE "err") /\ UNCHANGED fin
  \/ \E f \in Flushers :
        \/ FCall(f) /\ Keep
        \/ FCheck(f) /\ Step(f, f \o (IF stopped THEN "@blp.ff.stopped" ELSE "@blp.ff.checked"))
        \/ FDequeue(f) /\ Step(f, f \o "@blp.ff.dequeued")
        \/ FMLock(f) /\ Step(f, IF xstopped THEN f \o "@blp.xff.stopped" ELSE "")
        \/ FMSend(f) /\ Step(f, "")
        \/ FMWait(f) /\ Step(f, f \o "@exp.flush")
        \/ FRet(f) /\ Step(f, f \o "@ret")
        \/ FGiveUp(f) /\ Step(f, f \o "@blp.ff.dequeued")
        \/ FMSendCancel(f) /\ Step(f, "")
        \/ FMWaitCancel(f) /\ Step(f, "")
  \/ \E s \in Stoppers :
        \/ SCall(s) /\ Keep
        \/ SSwap(s) /\ Step(s, s \o (IF stopped THEN "@blp.sd.already" ELSE "@blp.sd.swapped"))
        \/ SKill(s) /\ Step(s, "")
        \/ SWaitPoll(s) /\ Step(s, s \o "@blp.sd.polldone")
        \/ SFlush(s) /\ Step(s, s \o (IF q = <<>> THEN "@blp.sd.flushed" ELSE "@blp.xexp.called"))
        \/ SELock(s) /\ Step(s, IF xstopped THEN s \o "@blp.sd.flushed" ELSE "")
        \/ SESend(s) /\ Step(s, "")
        \/ SEWait(s) /\ Step(s, s \o "@blp.sd.flushed")
        \/ SXSwap(s) /\ Step(s, IF xstopped THEN "" ELSE s \o "@blp.xsd.swapped")
        \/ SXLock(s) /\ Step(s, "")
        \/ SXWait(s) /\ Step(s, s \o "@exp.shutdown")
        \/ SRet(s) /\ Step(s, s \o "@ret")
        \/ SWaitPollCancel(s) /\ Step(s, "")
        \/ SESendCancel(s) /\ Step(s, s \o "@blp.sd.flushed")
        \/ SEWaitCancel(s) /\ Step(s, s \o "@blp.sd.flushed")
        \/ SXWaitCancel(s) /\ Step(s, s \o "@exp.shutdown")
  \* the harness' canceller goroutine of caller c waits at "<c>@cancel" from the start of the scenario
  \/ \E c \in Callers : Cancel(c) /\ hist' = Append(hist, c \o "@cancel") /\ UNCHANGED <<xres, last, fin>>

Finish == /\ ~fin /\ (AllDone \/ ~ENABLED Next)
          /\ PrintT("BEHAVIOUR " \o ToJson([script |-> hist, xres |-> xres, alldone |-> AllDone, bad |-> mon.bad]))
          /\ fin' = TRUE /\ UNCHANGED <<vars, hist, xres, last>>

SimInit == /\ Init /\ hist = <<>> /\ xres = <<>> /\ fin = FALSE
           /\ last = [p \in Procs |-> IF p \in Emitters THEN p \o ":1@call"
                                      ELSE IF p \in {"poll", "x"} THEN "" ELSE p \o "@call"]
SimSpec == SimInit /\ [][(~fin /\ SimNext) \/ Finish]_svars
=============================================================================
