SPECIFICATION Spec
CONSTANTS
  Emitters <- MCEmitters
  Flushers <- MCFlushers
  Stoppers <- MCStoppers
  Kinds <- MCKinds
  Thresh <- MCThresh
  RecsPer = @RECSPER@
  Mutation = "@MUTATION@"
  Admit <- MCAdmit
INVARIANTS NoDup Exclusive MuOK Contract EnabledOK Stuck
CHECK_DEADLOCK FALSE
