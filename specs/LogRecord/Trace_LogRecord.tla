--------------------------- MODULE Trace_LogRecord ---------------------------
(* code -> spec: validates transitions observed on REAL sdk/log records against   *)
(* LogModel.  One line per step:                                                   *)
(*   New  {sc, lim, op (Emit), post}   a record obtained through Logger.Emit       *)
(*   Step {sc, op, post}               one edit of r or c; pre = previous post     *)
(*   Edge {lim, from, act, to, pre, post}  one TLC edge replayed on the real code  *)
(*        (spec -> code): from/to are the spec's states, pre/post the projections  *)
(*        of the real records before / after the edge's call                       *)
(* Checks per line: the conformance relation StepKind (transition-local, so a      *)
(* known deviation does not mask the rest of the scenario) and, per scenario, the  *)
(* statement's accounting  count + dropped = offered (+ named nested term)          *)
(* evaluated directly on the observations.                                          *)
EXTENDS LogModel, TraceKit

VARIABLES l, lim, cur, acct, acctOK
vars == <<l, lim, cur, acct, acctOK>>

ObsRec(live) == [live |-> live, attrs |-> <<>>, dropped |-> 0, n |-> 0]
ObsEmpty == [r |-> ObsRec(TRUE), c |-> ObsRec(FALSE)]
A0 == [offered |-> 0, nu |-> 0]
Acct0 == [r |-> A0, c |-> A0]

(* which kind of value the first offending key carries (finding classification) *)
BadVT(L, pre, op, post) ==
  LET t == op.tgt
      u == DedupLast(ListOf(op, pre[t]))
      bad == {k \in Keys(post[t].attrs) \cap Keys(u) : ~ValOK(L.vl, ValueOf(u, k), ValueOf(post[t].attrs, k))}
      ts == {ValueOf(u, k).t : k \in bad}
  IN IF "s" \in ts THEN "s" ELSE IF "sl" \in ts THEN "sl" ELSE IF "m" \in ts THEN "m" ELSE "-"

Check(L, pre, op, post, sc, ev) ==
  LET k == StepKind({}, L, pre, op, post) IN
  k # "" => Viol([line |-> l, sc |-> sc, ev |-> ev, kind |-> k, dev |-> Explain(L, pre, op, post),
                  vt |-> (IF k \in {"value-overwrite", "value-new"} THEN BadVT(L, pre, op, post) ELSE "-"),
                  lim |-> L, op |-> op, pre |-> pre, got |-> post,
                  want |-> (IF op.op = "Clone" THEN [attrs |-> pre[op.tgt].attrs, dropped |-> pre[op.tgt].dropped]
                            ELSE LET m == ApplyRec({}, L, pre[op.tgt], op) IN [attrs |-> m.attrs, dropped |-> m.dropped])])

NextAcct(a, pre, op) ==
  LET t == op.tgt IN
  IF op.op = "Clone" THEN [a EXCEPT ![Other(t)] = a[t]]
  ELSE LET list == ListOf(op, pre[t]) IN
       IF IsSet(op) THEN [a EXCEPT ![t] = [offered |-> Len(list), nu |-> NUpperList(list)]]
       ELSE [a EXCEPT ![t] = [offered |-> @.offered + Len(list), nu |-> @.nu + NUpperList(list)]]

AcctHolds(a, post) ==
  \A x \in {"r", "c"} : post[x].live =>
     (post[x].n + post[x].dropped) \in a[x].offered..(a[x].offered + a[x].nu)

CheckAcct(a, post, sc, was) ==
  (was /\ ~AcctHolds(a, post)) =>
     Viol([line |-> l, sc |-> sc, ev |-> "Acct", kind |-> "accounting", dev |-> "none", vt |-> "-",
           lim |-> lim, acct |-> a, got |-> post])

Init == l = 1 /\ lim = [ac |-> -1, vl |-> -1] /\ cur = ObsEmpty /\ acct = Acct0 /\ acctOK = TRUE

TNew == /\ l <= Len(Trace) /\ Trace[l].ev = "New"
        /\ LET e == Trace[l]  a == NextAcct(Acct0, ObsEmpty, e.op) IN
           /\ Check(e.lim, ObsEmpty, e.op, e.post, e.sc, "New")
           /\ CheckAcct(a, e.post, e.sc, TRUE)
           /\ lim' = e.lim /\ cur' = e.post /\ acct' = a /\ acctOK' = AcctHolds(a, e.post)
        /\ l' = l + 1

TStep == /\ l <= Len(Trace) /\ Trace[l].ev = "Step"
         /\ LET e == Trace[l]  a == NextAcct(acct, cur, e.op) IN
            /\ Check(lim, cur, e.op, e.post, e.sc, "Step")
            /\ CheckAcct(a, e.post, e.sc, acctOK)
            /\ cur' = e.post /\ acct' = a /\ acctOK' = (acctOK /\ AcctHolds(a, e.post))
         /\ l' = l + 1 /\ UNCHANGED lim

(* a replayed TLC edge: the recorded edge must be an edge of the specification    *)
(* (integrity of the binding), and the real transition must conform                *)
TEdge == /\ l <= Len(Trace) /\ Trace[l].ev = "Edge"
         /\ LET e == Trace[l] IN
            /\ (e.to # ApplyOp({}, e.lim, e.from, e.act)) =>
                  Viol([line |-> l, sc |-> e.i, ev |-> "Edge", kind |-> "integrity", dev |-> "none", vt |-> "-",
                        lim |-> e.lim, op |-> e.act, got |-> e.to])
            /\ Check(e.lim, e.pre, e.act, e.post, e.i, "Edge")
         /\ l' = l + 1 /\ UNCHANGED <<lim, cur, acct, acctOK>>

TDone == l = Len(Trace) + 1 /\ Accepted(l) /\ UNCHANGED vars

Next == TNew \/ TStep \/ TEdge \/ TDone
Spec == Init /\ [][Next]_vars
=============================================================================
