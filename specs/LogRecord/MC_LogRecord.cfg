SPECIFICATION Spec
CONSTANTS
  Lim <- MCLim
  Lists <- MCLists
  EmitLists <- MCEmitLists
  OpKinds <- MCOpKinds
  Dev <- MCDev
  MaxSteps = @MAXSTEPS@
  EmitOnly = @EMITONLY@
VIEW View
ACTION_CONSTRAINT EmitEdge
INVARIANT Inv
PROPERTIES TargetProps CloneProps SelfConformant
CHECK_DEADLOCK FALSE
