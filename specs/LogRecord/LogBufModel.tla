---------------------------- MODULE LogBufModel ----------------------------
(* C17, behaviour class "caller-owned memory is a VALUE fixed at call time".      *)
(*                                                                                 *)
(* SetAttributes / AddAttributes take a variadic []log.KeyValue.  A caller that    *)
(* spreads a slice (`r.SetAttributes(buf...)`) hands the SDK its own backing       *)
(* array.  Nothing in the statement or in the documentation of the two methods     *)
(* transfers ownership, so the statement's clauses ("holds each key at most once   *)
(* with the value supplied last", count + dropped = offered, "a cloned record      *)
(* shares no mutable state") must hold for histories in which ONE backing array    *)
(* travels through several calls and records and is written by its owner between   *)
(* the calls.  The expected result is value semantics:                             *)
(*   - the attributes a call offers are the contents the CALLER put into the       *)
(*     passed window of the buffer (mem, below) at the moment of the call;         *)
(*   - a caller write / refill / append changes no record;                         *)
(*   - a call on one record changes no other record.                               *)
(*                                                                                 *)
(*  mem  = [buffer id -> sequence of cells (KV)]   the caller's backing arrays,    *)
(*         length = capacity.  A call passes the prefix buf[:n]  (n < capacity =   *)
(*         capacity class "spare cells behind the passed slice", n = capacity =    *)
(*         "full").  `append(buf[:n], kv)` within the capacity is the write of     *)
(*         cell n+1; beyond the capacity Go re-allocates (no shared memory, not    *)
(*         modelled).                                                              *)
(*  op   = [op, tgt, attrs, buf, n, cell]  uniform record:                         *)
(*         Add/Set  buf = ""  : literal variadic call (fresh memory), attrs given  *)
(*         Add/Set  buf = b   : r.Add/SetAttributes(b[:n]...)                      *)
(*         Clone / Reapply    : as in LogModel                                     *)
(*         Emit               : slot tgt is replaced by a record newly emitted     *)
(*                              with attrs (the former one is forgotten)           *)
(*         Write   buf, cell, attrs = <<kv>>   b[cell-1] = kv                      *)
(*         Refill  buf, attrs                  b = append(b[:0], attrs...)         *)
(* Nested slice / map values: log.SliceValue / log.MapValue document "the passed   *)
(* slice must not be changed after it is passed", so caller writes INTO nested     *)
(* arrays are outside the contract; re-using the same nested value for several     *)
(* calls / records is inside (cells keep their values across calls).               *)
EXTENDS LogModel

BufOps == {"Write", "Refill"}
CallOps == {"Add", "Set"}

BOp(o, t, l, b, n, c) == [op |-> o, tgt |-> t, attrs |-> l, buf |-> b, n |-> n, cell |-> c]

(* what the caller supplies with the call *)
OpAttrs(m, op) ==
  IF op.op \in CallOps /\ op.buf # "" THEN SubSeq(m[op.buf], 1, op.n) ELSE op.attrs
Plain(m, op) == [op |-> op.op, tgt |-> op.tgt, attrs |-> OpAttrs(m, op)]

MemNext(m, op) ==
  IF op.op = "Write" THEN [m EXCEPT ![op.buf] = [@ EXCEPT ![op.cell] = op.attrs[1]]]
  ELSE IF op.op = "Refill"
       THEN [m EXCEPT ![op.buf] = op.attrs \o SubSeq(@, Len(op.attrs) + 1, Len(@))]
  ELSE m

(* value semantics: records depend on the buffer only through OpAttrs at call time *)
RecNext(D, L, s, m, op) ==
  IF op.op \in BufOps THEN s
  ELSE IF op.op = "Emit"
       THEN [s EXCEPT ![op.tgt] = ApplyFull(D, L, EmptyRec, Plain(m, op))]
  ELSE ApplyOp(D, L, s, Plain(m, op))

-----------------------------------------------------------------------------
(* conformance of an observed real transition; pre/post = projections of the two  *)
(* real records, m = the caller's view of its buffers before the step              *)
ObsFresh == [live |-> TRUE, attrs |-> <<>>, dropped |-> 0, n |-> 0]

BufStepKind(L, pre, m, op, post) ==
  IF op.op \in BufOps
  THEN (IF ~SameObs(post.r, pre.r) \/ ~SameObs(post.c, pre.c) THEN "record-changed-by-caller-write" ELSE "")
  ELSE IF op.op = "Emit"
       THEN StepKind({}, L, [pre EXCEPT ![op.tgt] = ObsFresh], Plain(m, op), post)
  ELSE StepKind({}, L, pre, Plain(m, op), post)

(* classification of a rejected step by the way the caller's memory is involved:  *)
(*  caller-write        a write of the caller to its own buffer changed a record   *)
(*  call-on-other       a call on one record changed the other record              *)
(*  buffer-rewritten    the target holds what the buffer REALLY contained at the   *)
(*                      call (real = projection of the real array) but that is not *)
(*                      what the caller had put there: the SDK wrote into the      *)
(*                      caller's array during an earlier call                      *)
(*  -                   no memory involvement recognisable                         *)
BufClass(L, pre, m, op, real, post) ==
  LET k == BufStepKind(L, pre, m, op, post) IN
  IF k = "record-changed-by-caller-write" THEN "caller-write"
  ELSE IF k = "other-record" THEN "call-on-other"
  ELSE IF op.op \in CallOps /\ op.buf # "" /\ real # OpAttrs(m, op)
          /\ StepKind({}, L, pre, [op |-> op.op, tgt |-> op.tgt, attrs |-> real], post) = ""
       THEN "buffer-rewritten"
  ELSE "-"

(* which of the two records a caller write changed *)
Changed(pre, post) == IF ~SameObs(post.r, pre.r) THEN "r" ELSE IF ~SameObs(post.c, pre.c) THEN "c" ELSE "-"
=============================================================================
