----------------------------- MODULE Truncate -----------------------------
(* String truncation as the C04 / C17 statements put it, over symbol classes.   *)
(* A string is a sequence of symbols; each symbol is one character (or one      *)
(* invalid byte):                                                               *)
(*   a1 m2 m3 m4 : valid characters of 1..4 bytes;  fffd : a VALID U+FFFD (3    *)
(*   bytes);  bad : one byte that is not part of any valid encoding.            *)
(* "cut to at most that many characters, never splitting a character and        *)
(*  discarding invalid bytes" -- transcribed from the statement, not the code.  *)
EXTENDS Naturals, Sequences

Symbols == {"a1", "m2", "m3", "m4", "fffd", "bad"}
BytesOf(c) == CASE c = "a1" -> 1 [] c = "m2" -> 2 [] c = "m3" -> 3 [] c = "m4" -> 4
                [] c = "fffd" -> 3 [] c = "bad" -> 1

RECURSIVE ByteLen(_)
ByteLen(s) == IF s = <<>> THEN 0 ELSE BytesOf(Head(s)) + ByteLen(Tail(s))

RECURSIVE ValidOnly(_)
ValidOnly(s) == IF s = <<>> THEN <<>>
                ELSE IF Head(s) = "bad" THEN ValidOnly(Tail(s))
                ELSE <<Head(s)>> \o ValidOnly(Tail(s))

Prefix(s, n) == IF Len(s) <= n THEN s ELSE SubSeq(s, 1, n)

(* Canonical result: what a conforming implementation returns.  Where the       *)
(* statement leaves a choice (a string that is NOT longer than the limit but    *)
(* contains invalid bytes may be kept as is or cleaned) Trunc mirrors the       *)
(* code's documented choice and TruncAlt is the other admissible answer.        *)
Trunc(limit, s) ==
  IF limit < 0 THEN s
  ELSE IF ByteLen(s) <= limit THEN s
  ELSE Prefix(ValidOnly(s), limit)

TruncAlt(limit, s) ==
  IF limit < 0 THEN s
  ELSE IF Len(s) <= limit THEN s          \* not longer than limit characters: unchanged is fine too
  ELSE Prefix(ValidOnly(s), limit)

(* The statement, as a predicate on any result r for input s.                   *)
TruncOK(limit, s, r) ==
  \/ limit < 0 /\ r = s
  \/ limit >= 0 /\ Len(s) <= limit /\ r \in {s, ValidOnly(s)}
  \/ limit >= 0 /\ Len(s) > limit /\ r = Prefix(ValidOnly(s), limit)
=============================================================================
