----------------------------- MODULE MC_LogBuf -----------------------------
EXTENDS LogBuf
MCLim == @LIM@
MCInitMem == @INITMEM@
MCBufCalls == @BUFCALLS@
MCLitCalls == @LITCALLS@
MCWrites == @WRITES@
MCRefills == @REFILLS@
MCClones == @CLONES@
MCDev == @DEV@
=============================================================================
