----------------------------- MODULE LogRecord -----------------------------
(* State machine over LogModel for exhaustive exploration by TLC (C17).          *)
(* A log record r obtained from Logger.Emit (limits copied from the provider)    *)
(* and its clone c are edited by AddAttributes / SetAttributes / Clone /         *)
(* Reapply (= SetAttributes of everything the record holds).  Every explored     *)
(* edge is printed (EDGE json) and replayed on the real SDK.                     *)
EXTENDS LogModel, TLC, Json

CONSTANTS Lim,        \* [ac |-> .., vl |-> ..]
          Lists,      \* set of attribute lists a call may pass
          EmitLists,  \* set of attribute lists the emitted API record may carry (first step only)
          OpKinds,    \* subset of {"Add","Set","Clone","Reapply"}
          MaxSteps,
          EmitOnly,   \* TRUE: the first step is always the emission (Emit op), never a direct edit
          Dev         \* named deviations switched on (main configs: {})

VARIABLES st, steps, act
vars == <<st, steps, act>>

Live(s) == {t \in {"r", "c"} : s[t].live}

OpSet(s, n) ==
  (IF n = 0 THEN {[op |-> "Emit", tgt |-> "r", attrs |-> l] : l \in EmitLists} ELSE {})
  \cup (IF "Add" \in OpKinds /\ (n > 0 \/ ~EmitOnly) THEN {[op |-> "Add", tgt |-> t, attrs |-> l] : t \in Live(s), l \in Lists} ELSE {})
  \cup (IF "Set" \in OpKinds /\ (n > 0 \/ ~EmitOnly) THEN {[op |-> "Set", tgt |-> t, attrs |-> l] : t \in Live(s), l \in Lists} ELSE {})
  \cup (IF "Clone" \in OpKinds /\ (n > 0 \/ ~EmitOnly) THEN {[op |-> "Clone", tgt |-> t, attrs |-> <<>>] : t \in Live(s)} ELSE {})
  \cup (IF "Reapply" \in OpKinds /\ (n > 0 \/ ~EmitOnly) THEN {[op |-> "Reapply", tgt |-> t, attrs |-> <<>>] : t \in Live(s)} ELSE {})

Init == st = [r |-> EmptyRec, c |-> NoRec] /\ steps = 0 /\ act = [op |-> "Init", tgt |-> "r", attrs |-> <<>>]
Step(o) == /\ steps < MaxSteps
           /\ st' = ApplyOp(Dev, Lim, st, o)
           /\ steps' = steps + 1
           /\ act' = o
Next == \E o \in OpSet(st, steps) : Step(o)
Spec == Init /\ [][Next]_vars

View == <<st, steps>>
EmitEdge == PrintT("EDGE " \o ToJson([from |-> st, act |-> act', to |-> st']))

-----------------------------------------------------------------------------
(* the statement, on the model *)
RecInv(rec) == rec.live => /\ RecKeysUnique(rec) /\ RecCountBound(Lim, rec)
                           /\ RecLengthBound(Lim, rec) /\ RecAccounting(rec)
Inv == RecInv(st.r) /\ RecInv(st.c)

(* action properties: earliest keys kept, last value wins, clone independence *)
TargetProps ==
  [][act'.op \in {"Emit", "Add", "Set", "Reapply"} =>
       LET t == act'.tgt IN
       /\ EarliestKept(Lim, st[t], act', st'[t])
       /\ LastWins(Lim, st[t], act', st'[t])
       /\ st'[Other(t)] = st[Other(t)]]_vars
CloneProps ==
  [][act'.op = "Clone" => st'[Other(act'.tgt)] = st[act'.tgt] /\ st'[act'.tgt] = st[act'.tgt]]_vars
(* the conformance relation accepts the model's own transitions (keeps the two   *)
(* formulations -- function and relation -- from drifting apart)                  *)
Obs(rec) == [live |-> rec.live, attrs |-> rec.attrs, dropped |-> rec.dropped, n |-> Len(rec.attrs)]
ObsSt(s) == [r |-> Obs(s.r), c |-> Obs(s.c)]
SelfConformant == [][StepKind(Dev, Lim, ObsSt(st), act', ObsSt(st')) = ""]_vars
=============================================================================
