---------------------------- MODULE Trace_LogBuf ----------------------------
(* code -> spec for the caller-memory class (LogBufModel): validates what REAL    *)
(* sdk/log records did in histories where real backing arrays are shared between  *)
(* calls, records and the caller.  One line per step:                              *)
(*   BNew  {sc, lim, mem, post, rmem}  two records emitted (empty) by one provider;*)
(*                                     mem = the caller's buffers as it filled     *)
(*                                     them, rmem = projection of the REAL arrays  *)
(*   BStep {sc, op, post, rmem, chk, last [, from, act, to]}   one step; post =    *)
(*         projections of both records, rmem = the real arrays AFTER the step.     *)
(*         Replayed TLC edges of LogBuf.tla are logged as one scenario per edge    *)
(*         (the path with chk = FALSE: each path step is the own step of another   *)
(*         edge; the edge's step with last = TRUE and the spec's from/act/to).     *)
(* The caller's view of its memory (mem) is advanced by the SPEC (MemNext) from    *)
(* the caller's own writes only: what the SDK does to the arrays never enters it.  *)
(* The real arrays are followed only to ATTRIBUTE a rejected call (taint): which   *)
(* kind of step made the real array differ from what the caller wrote --           *)
(*   in-call     a call that was passed this very array rewrote it,                *)
(*   after-call  a step that was NOT passed the array wrote into it (a record      *)
(*               kept a reference to the caller's array beyond the call).          *)
EXTENDS LogBufModel, TraceKit

VARIABLES l, lim, cur, mem, rmem, taint, acct, acctOK
vars == <<l, lim, cur, mem, rmem, taint, acct, acctOK>>

A0 == [offered |-> 0, nu |-> 0]
Acct0 == [r |-> A0, c |-> A0]
Fresh2 == [r |-> ObsFresh, c |-> ObsFresh]

CapClass(m, op) == IF op.op \in CallOps /\ op.buf # ""
                   THEN (IF op.n < Len(m[op.buf]) THEN "spare" ELSE "full") ELSE "-"
(* more than the 5 inline slots offered after de-duplication? *)
Over5(m, op) == IF op.op \in CallOps THEN Len(DedupLast(OpAttrs(m, op))) > 5 ELSE FALSE

(* the real window a buffer call passes *)
RealOf(rm, op) == IF op.op \in CallOps /\ op.buf # "" THEN SubSeq(rm[op.buf], 1, op.n) ELSE <<>>
Bufs(m) == DOMAIN m
(* did the SDK write into array b during this step?  (a caller write to b is the caller's own) *)
SdkWrote(op, b, before, after) == ~(op.op \in BufOps /\ op.buf = b) /\ after[b] # before[b]
TaintNext(tn, op, before, after) ==
  [b \in Bufs(before) |->
     IF tn[b] = "after-call" THEN "after-call"
     ELSE IF SdkWrote(op, b, before, after)
          THEN (IF op.op \in CallOps /\ op.buf = b THEN "in-call" ELSE "after-call")
     ELSE tn[b]]

Check(L, pre, m, op, real, tn, post, sc, ev) ==
  LET k == BufStepKind(L, pre, m, op, post)
      cl == BufClass(L, pre, m, op, real, post) IN
  k # "" => Viol([line |-> l, sc |-> sc, ev |-> ev, kind |-> k, cls |-> cl,
                  how |-> (IF cl = "buffer-rewritten" THEN tn[op.buf] ELSE "-"),
                  \* named deviation of LogModel that explains the step (the count-limit-0 finding shows up here too)
                  dev |-> (IF op.op \in BufOps THEN "none"
                           ELSE Explain(L, IF op.op = "Emit" THEN [pre EXCEPT ![op.tgt] = ObsFresh] ELSE pre, Plain(m, op), post)),
                  chg |-> (IF op.op \in BufOps THEN Changed(pre, post) ELSE "-"),
                  cap |-> CapClass(m, op), over5 |-> Over5(m, op),
                  lim |-> L, op |-> op, supplied |-> OpAttrs(m, op), real |-> real, pre |-> pre, got |-> post,
                  want |-> (IF op.op \in BufOps \/ op.op = "Clone" THEN pre
                            ELSE LET p == IF op.op = "Emit" THEN ObsFresh ELSE pre[op.tgt]
                                     w == ApplyRec({}, L, p, Plain(m, op))
                                 IN [attrs |-> w.attrs, dropped |-> w.dropped])])

NextAcct(a, pre, m, op) ==
  LET t == op.tgt IN
  IF op.op \in BufOps THEN a
  ELSE IF op.op = "Clone" THEN [a EXCEPT ![Other(t)] = a[t]]
  ELSE LET list == ListOf(Plain(m, op), pre[t]) IN
       IF IsSet(op) \/ op.op = "Emit" THEN [a EXCEPT ![t] = [offered |-> Len(list), nu |-> NUpperList(list)]]
       ELSE [a EXCEPT ![t] = [offered |-> @.offered + Len(list), nu |-> @.nu + NUpperList(list)]]

AcctHolds(a, post) ==
  \A x \in {"r", "c"} : post[x].live =>
     (post[x].n + post[x].dropped) \in a[x].offered..(a[x].offered + a[x].nu)

CheckAcct(a, post, sc, was, op) ==
  (was /\ ~AcctHolds(a, post)) =>
     Viol([line |-> l, sc |-> sc, ev |-> "Acct", kind |-> "accounting", cls |-> "-", how |-> "-", dev |-> "none", chg |-> "-", cap |-> "-",
           over5 |-> FALSE, lim |-> lim, op |-> op, acct |-> a, got |-> post])

Init == /\ l = 1 /\ lim = [ac |-> -1, vl |-> -1] /\ cur = Fresh2 /\ mem = <<>> /\ rmem = <<>> /\ taint = <<>>
        /\ acct = Acct0 /\ acctOK = TRUE

TNew == /\ l <= Len(Trace) /\ Trace[l].ev = "BNew"
        /\ LET e == Trace[l] IN
           /\ (e.post # Fresh2) =>
                 Viol([line |-> l, sc |-> e.sc, ev |-> "BNew", kind |-> "new", cls |-> "-", how |-> "-", dev |-> "none", chg |-> "-",
                       cap |-> "-", over5 |-> FALSE, lim |-> e.lim, got |-> e.post])
           /\ lim' = e.lim /\ cur' = e.post /\ mem' = e.mem /\ rmem' = e.rmem
           /\ taint' = [b \in Bufs(e.mem) |-> "none"]
           /\ acct' = Acct0 /\ acctOK' = (e.post = Fresh2)
        /\ l' = l + 1

(* the accounting clause is evaluated while every step so far conformed (a rejected *)
(* step is reported by itself; what follows it has no defined accounting)            *)
TStep == /\ l <= Len(Trace) /\ Trace[l].ev = "BStep"
         /\ LET e == Trace[l]
                a == NextAcct(acct, cur, mem, e.op)
                ok == BufStepKind(lim, cur, mem, e.op, e.post) = "" IN
            /\ e.chk => Check(lim, cur, mem, e.op, RealOf(rmem, e.op), taint, e.post, e.sc, "BStep")
            /\ (e.chk /\ ok) => CheckAcct(a, e.post, e.sc, acctOK, e.op)
            \* a replayed TLC edge must be an edge of the specification (integrity of the binding)
            /\ (e.last /\ (e.act # e.op \/ e.from.mem # mem
                           \/ e.to # [st |-> RecNext({}, lim, e.from.st, e.from.mem, e.act), mem |-> MemNext(e.from.mem, e.act)])) =>
                  Viol([line |-> l, sc |-> e.sc, ev |-> "BEdge", kind |-> "integrity", cls |-> "-", how |-> "-", dev |-> "none", chg |-> "-",
                        cap |-> "-", over5 |-> FALSE, lim |-> lim, op |-> e.op, got |-> e.to])
            /\ cur' = e.post /\ mem' = MemNext(mem, e.op) /\ rmem' = e.rmem
            /\ taint' = TaintNext(taint, e.op, rmem, e.rmem)
            /\ acct' = a /\ acctOK' = (acctOK /\ ok /\ AcctHolds(a, e.post))
         /\ l' = l + 1 /\ UNCHANGED lim

TDone == l = Len(Trace) + 1 /\ Accepted(l) /\ UNCHANGED vars

Next == TNew \/ TStep \/ TDone
Spec == Init /\ [][Next]_vars
=============================================================================
