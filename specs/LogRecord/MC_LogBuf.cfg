SPECIFICATION Spec
CONSTANTS
  Lim <- MCLim
  InitMem <- MCInitMem
  BufCalls <- MCBufCalls
  LitCalls <- MCLitCalls
  Writes <- MCWrites
  Refills <- MCRefills
  Clones <- MCClones
  Dev <- MCDev
  MaxSteps = @MAXSTEPS@
VIEW View
ACTION_CONSTRAINT EmitEdge
INVARIANT Inv
PROPERTIES CallerWritesChangeNothing CallsReadTheBufferAtCallTime SelfConformant
CHECK_DEADLOCK FALSE
