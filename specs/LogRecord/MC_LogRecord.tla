--------------------------- MODULE MC_LogRecord ---------------------------
EXTENDS LogRecord
MCLim == @LIM@
MCLists == @LISTS@
MCEmitLists == @EMITLISTS@
MCOpKinds == @OPKINDS@
MCDev == @DEV@
=============================================================================
