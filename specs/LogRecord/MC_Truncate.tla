---------------------------- MODULE MC_Truncate ----------------------------
(* Model-level theorem, checked by TLC as an ASSUME over all symbol strings of  *)
(* length <= MaxLen and limits -1..MaxLen+1: the canonical Trunc and its        *)
(* alternative both satisfy the statement predicate TruncOK, the result is a    *)
(* subsequence-prefix of the valid characters and never longer than the limit.  *)
EXTENDS Truncate, Integers, TLC
MaxLen == @MAXLEN@
Strs == UNION {[1..n -> Symbols] : n \in 0..MaxLen}
ASSUME \A s \in Strs : \A lim \in -1..(MaxLen + 1) :
          /\ TruncOK(lim, s, Trunc(lim, s))
          /\ TruncOK(lim, s, TruncAlt(lim, s))
          /\ (lim >= 0 /\ Len(s) > lim => Len(Trunc(lim, s)) <= lim /\ "bad" \notin {Trunc(lim, s)[i] : i \in 1..Len(Trunc(lim, s))})
VARIABLE x
Init == x = 0
Next == UNCHANGED x
Spec == Init /\ [][Next]_x
=============================================================================
