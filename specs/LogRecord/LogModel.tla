------------------------------ MODULE LogModel ------------------------------
(* Reference model of the attribute store of an SDK log record (C17),            *)
(* transcribed from the property statement and the public documentation of       *)
(* sdk/log (Record.AddAttributes / SetAttributes / Clone, WithAttributeCountLimit,*)
(* WithAttributeValueLengthLimit) -- not from the code.                          *)
(*                                                                               *)
(*  value  v  = [t, s, e]   t = "s"  string, s = sequence of Truncate symbols    *)
(*                          t = "i"  any non-string scalar, s = <<tag>> (opaque) *)
(*                          t = "sl" slice, e = <<[k |-> "", v |-> elem], ...>>  *)
(*                          t = "m"  map,   e = <<[k |-> key, v |-> val], ...>>  *)
(*  record r  = [live, attrs, dropped, ...]  attrs = sequence of [k, v] in the   *)
(*              order the keys were first admitted                               *)
(*  limits L  = [ac, vl]   ac: attribute count (negative = unlimited, 0 = none   *)
(*              recorded -- doc of WithAttributeCountLimit), vl: characters per  *)
(*              string value (negative = unlimited)                              *)
(*                                                                               *)
(* D is a set of NAMED DEVIATIONS (behaviour the code is known / suspected to    *)
(* have and the statement forbids).  D = {} is the intended behaviour; the other *)
(* values are only used to classify a mismatch observed on the real code and to  *)
(* demonstrate that TLC finds the deviation on the model.                        *)
EXTENDS Naturals, Integers, Sequences, FiniteSets, Truncate

DevNames == {"OverwriteRaw", "ZeroCountUnlimited", "SharedNested"}

KV(k, v)  == [k |-> k, v |-> v]
Str(s)    == [t |-> "s", s |-> s, e |-> <<>>]
Scal(tag) == [t |-> "i", s |-> <<tag>>, e |-> <<>>]
RECURSIVE SlKids(_)
SlKids(vs) == IF vs = <<>> THEN <<>> ELSE <<KV("", Head(vs))>> \o SlKids(Tail(vs))
Sl(vs)    == [t |-> "sl", s |-> <<>>, e |-> SlKids(vs)]
Mp(kvs)   == [t |-> "m", s |-> <<>>, e |-> kvs]

Keys(kvs) == {kvs[i].k : i \in 1..Len(kvs)}
UniqueKeys(kvs) == \A i, j \in 1..Len(kvs) : kvs[i].k = kvs[j].k => i = j
IndexOf(kvs, k) == IF \E i \in 1..Len(kvs) : kvs[i].k = k
                   THEN CHOOSE i \in 1..Len(kvs) : kvs[i].k = k ELSE 0
ValueOf(kvs, k) == kvs[IndexOf(kvs, k)].v

(* "each key at most once with the value supplied last", position = first offer *)
RECURSIVE DedupAcc(_, _)
DedupAcc(acc, list) ==
  IF list = <<>> THEN acc
  ELSE LET a == Head(list)  i == IndexOf(acc, a.k) IN
       DedupAcc(IF i = 0 THEN Append(acc, a) ELSE [acc EXCEPT ![i] = a], Tail(list))
DedupLast(list) == DedupAcc(<<>>, list)

(* canonical stored form of a value: strings cut at every depth, nested maps     *)
(* de-duplicated (last wins)                                                     *)
RECURSIVE LimitVal(_, _), LimitKids(_, _)
LimitVal(vl, v) ==
  CASE v.t = "s"  -> [v EXCEPT !.s = Trunc(vl, v.s)]
    [] v.t = "sl" -> [v EXCEPT !.e = LimitKids(vl, v.e)]
    [] v.t = "m"  -> [v EXCEPT !.e = LimitKids(vl, DedupLast(v.e))]
    [] OTHER      -> v
LimitKids(vl, kids) ==
  IF kids = <<>> THEN <<>>
  ELSE <<KV(Head(kids).k, LimitVal(vl, Head(kids).v))>> \o LimitKids(vl, Tail(kids))

(* NAMED EXTRA TERM of the dropped count: nested-map entries removed while       *)
(* storing v (the statement's accounting speaks of attributes only; the code     *)
(* adds this term).  NDrop = what canonical storing removes, NUpper = every      *)
(* duplicate at every depth (upper bound of what any implementation can remove). *)
RECURSIVE NDrop(_), NDropKids(_), NUpper(_), NUpperKids(_)
NDrop(v) == CASE v.t = "m"  -> LET d == DedupLast(v.e) IN (Len(v.e) - Len(d)) + NDropKids(d)
              [] v.t = "sl" -> NDropKids(v.e)
              [] OTHER      -> 0
NDropKids(kids) == IF kids = <<>> THEN 0 ELSE NDrop(Head(kids).v) + NDropKids(Tail(kids))
NUpper(v) == CASE v.t = "m"  -> (Len(v.e) - Len(DedupLast(v.e))) + NUpperKids(v.e)
               [] v.t = "sl" -> NUpperKids(v.e)
               [] OTHER      -> 0
NUpperKids(kids) == IF kids = <<>> THEN 0 ELSE NUpper(Head(kids).v) + NUpperKids(Tail(kids))

(* every string at every depth holds at most vl characters *)
RECURSIVE DeepLenOK(_, _)
DeepLenOK(vl, v) ==
  CASE v.t = "s"           -> vl < 0 \/ Len(v.s) <= vl
    [] v.t \in {"sl", "m"} -> \A i \in 1..Len(v.e) : DeepLenOK(vl, v.e[i].v)
    [] OTHER               -> TRUE

-----------------------------------------------------------------------------
(* the store *)
EmptyRec == [live |-> TRUE,  attrs |-> <<>>, dropped |-> 0, offered |-> 0, nu |-> 0]
NoRec    == [live |-> FALSE, attrs |-> <<>>, dropped |-> 0, offered |-> 0, nu |-> 0]

EffAC(D, L) == IF L.ac = 0 /\ "ZeroCountUnlimited" \in D THEN -1 ELSE L.ac
Room(D, L, n) == EffAC(D, L) < 0 \/ n < EffAC(D, L)

(* one offered attribute: existing key -> overwritten (counts as one dropped:    *)
(* count + dropped = offered), new key -> admitted while there is room, else     *)
(* dropped.  Works on any record with fields attrs, dropped.                     *)
Offer(D, L, m, a) ==
  LET i == IndexOf(m.attrs, a.k) IN
  IF i # 0 THEN
     (IF "OverwriteRaw" \in D
      THEN [m EXCEPT !.attrs[i].v = a.v, !.dropped = @ + 1]
      ELSE [m EXCEPT !.attrs[i].v = LimitVal(L.vl, a.v), !.dropped = @ + 1 + NDrop(a.v)])
  ELSE IF Room(D, L, Len(m.attrs))
       THEN [m EXCEPT !.attrs = Append(@, KV(a.k, LimitVal(L.vl, a.v))), !.dropped = @ + NDrop(a.v)]
       ELSE [m EXCEPT !.dropped = @ + 1]

RECURSIVE OfferAll(_, _, _, _)
OfferAll(D, L, m, list) ==
  IF list = <<>> THEN m ELSE OfferAll(D, L, Offer(D, L, m, Head(list)), Tail(list))

AddD(D, L, m, list) ==
  LET u == DedupLast(list) IN OfferAll(D, L, [m EXCEPT !.dropped = @ + (Len(list) - Len(u))], u)
SetD(D, L, m, list) == AddD(D, L, [m EXCEPT !.attrs = <<>>, !.dropped = 0], list)

(* Logger.Emit hands the API record's attributes to the new record one by one    *)
(* (duplicates in the API record are therefore overwrites)                       *)
RECURSIVE EmitD(_, _, _, _)
EmitD(D, L, m, list) ==
  IF list = <<>> THEN m ELSE EmitD(D, L, AddD(D, L, m, <<Head(list)>>), Tail(list))

IsSet(op) == op.op \in {"Set", "Reapply"}
(* Reapply = SetAttributes(everything WalkAttributes yields), a processor idiom *)
ListOf(op, rec) == IF op.op = "Reapply" THEN rec.attrs ELSE op.attrs
NUpperList(list) == NUpperKids(list)

(* observable part of the successor of one record *)
ApplyRec(D, L, rec, op) ==
  IF IsSet(op) THEN SetD(D, L, rec, ListOf(op, rec))
  ELSE IF op.op = "Emit" THEN EmitD(D, L, rec, ListOf(op, rec))
  ELSE AddD(D, L, rec, ListOf(op, rec))

(* with the history variables of the statement's accounting (per SetAttributes epoch) *)
ApplyFull(D, L, rec, op) ==
  LET list == ListOf(op, rec)  m == ApplyRec(D, L, rec, op) IN
  IF IsSet(op) THEN [m EXCEPT !.offered = Len(list), !.nu = NUpperList(list)]
  ELSE [m EXCEPT !.offered = @ + Len(list), !.nu = @ + NUpperList(list)]

Other(t) == IF t = "r" THEN "c" ELSE "r"
(* whole state = [r |-> record, c |-> its clone (or NoRec)]; Clone(tgt) replaces the other one *)
ApplyOp(D, L, s, op) ==
  IF op.op = "Clone" THEN [s EXCEPT ![Other(op.tgt)] = s[op.tgt]]
  ELSE [s EXCEPT ![op.tgt] = ApplyFull(D, L, s[op.tgt], op)]

-----------------------------------------------------------------------------
(* The statement as predicates on a model record *)
RecKeysUnique(rec) == UniqueKeys(rec.attrs)
RecCountBound(L, rec) == L.ac >= 0 => Len(rec.attrs) <= L.ac
RecLengthBound(L, rec) == \A i \in 1..Len(rec.attrs) : DeepLenOK(L.vl, rec.attrs[i].v)
RecAccounting(rec) == (Len(rec.attrs) + rec.dropped) \in rec.offered..(rec.offered + rec.nu)

(* "earliest keys retained", stated without the fold: the held keys after a call *)
(* are the held keys before it followed by the first new keys offered, as many   *)
(* as there is room for                                                           *)
NewKeysOf(preAttrs, list) == SelectSeq(DedupLast(list), LAMBDA a : a.k \notin Keys(preAttrs))
PrefixN(s, n) == IF n < 0 \/ Len(s) <= n THEN s ELSE SubSeq(s, 1, n)
KeySeq(kvs) == [i \in 1..Len(kvs) |-> kvs[i].k]
EarliestKept(L, pre, op, post) ==
  LET list == ListOf(op, pre)
      base == IF IsSet(op) THEN <<>> ELSE pre.attrs
      nk == NewKeysOf(base, list)
      room == IF L.ac < 0 THEN -1 ELSE (IF L.ac > Len(base) THEN L.ac - Len(base) ELSE 0)
  IN KeySeq(post.attrs) = KeySeq(base) \o KeySeq(PrefixN(nk, room))
LastWins(L, pre, op, post) ==
  LET u == DedupLast(ListOf(op, pre)) IN
  \A k \in Keys(post.attrs) \cap Keys(u) : ValueOf(post.attrs, k) = LimitVal(L.vl, ValueOf(u, k))

-----------------------------------------------------------------------------
(* CONFORMANCE RELATION between an observed real transition (pre, op, post) and  *)
(* the model.  pre/post are projections of real records [live, attrs, dropped,   *)
(* n]; everything the statement leaves open is admitted:                          *)
(*  - attribute order is not compared (attribute MAP + which keys are held),      *)
(*  - a string not longer than the limit may be kept as is or cleaned (TruncOK),  *)
(*  - nested maps may be stored de-duplicated (any order) or as offered,          *)
(*  - dropped may include any part of the nested-duplicate term.                  *)
RECURSIVE ValOK(_, _, _), KidsSeqOK(_, _, _)
MapOK(vl, d, o) ==
  /\ Len(o) = Len(d) /\ UniqueKeys(o)
  /\ \A i \in 1..Len(d) : \E j \in 1..Len(o) : o[j].k = d[i].k /\ ValOK(vl, d[i].v, o[j].v)
KidsSeqOK(vl, off, obs) ==
  /\ Len(obs) = Len(off)
  /\ \A i \in 1..Len(off) : obs[i].k = off[i].k /\ ValOK(vl, off[i].v, obs[i].v)
ValOK(vl, off, obs) ==
  /\ obs.t = off.t
  /\ CASE off.t = "s"  -> TruncOK(vl, off.s, obs.s) /\ obs.e = <<>>
       [] off.t = "sl" -> obs.s = off.s /\ KidsSeqOK(vl, off.e, obs.e)
       [] off.t = "m"  -> obs.s = off.s /\ (MapOK(vl, DedupLast(off.e), obs.e) \/ KidsSeqOK(vl, off.e, obs.e))
       [] OTHER        -> obs = off

(* "" when the target record's transition conforms, else the first failing clause *)
TargetKind(D, L, pre, op, post) ==
  LET list == ListOf(op, pre)
      m == ApplyRec(D, L, pre, op)
      u == DedupLast(list)
      preAttrs == IF IsSet(op) THEN <<>> ELSE pre.attrs
      preDropped == IF IsSet(op) THEN 0 ELSE pre.dropped
      base == preDropped + Len(list) - (Len(m.attrs) - Len(preAttrs))
      held == Keys(post.attrs)
      \* keys whose value is stored by overwriting an attribute the record already holds
      ow == IF op.op = "Emit" THEN {k \in Keys(list) : Cardinality({i \in 1..Len(list) : list[i].k = k}) >= 2}
            ELSE Keys(u) \cap Keys(preAttrs)
  IN
  IF ~post.live THEN "live"
  ELSE IF ~UniqueKeys(post.attrs) \/ held # Keys(m.attrs) THEN "keys"
  ELSE IF post.n # Len(post.attrs) THEN "len"
  ELSE IF \E k \in held \ Keys(u) : ValueOf(post.attrs, k) # ValueOf(preAttrs, k) THEN "frame"
  ELSE IF \E k \in (held \cap Keys(u)) \cap ow :
             (IF "OverwriteRaw" \in D THEN ValueOf(post.attrs, k) # ValueOf(u, k)
              ELSE ~ValOK(L.vl, ValueOf(u, k), ValueOf(post.attrs, k))) THEN "value-overwrite"
  ELSE IF \E k \in (held \cap Keys(u)) \ ow :
             ~ValOK(L.vl, ValueOf(u, k), ValueOf(post.attrs, k)) THEN "value-new"
  ELSE IF post.dropped \notin base..(base + NUpperList(list)) THEN "dropped"
  ELSE ""

(* the record that was NOT the target of the call must not change ("shares no    *)
(* mutable state"); deviation SharedNested: only values of slice / map kind differ *)
OtherOK(D, pre, post) ==
  \/ post = pre
  \/ /\ "SharedNested" \in D
     /\ post.live = pre.live /\ post.dropped = pre.dropped /\ post.n = pre.n
     /\ Len(post.attrs) = Len(pre.attrs)
     /\ \A i \in 1..Len(pre.attrs) :
           /\ post.attrs[i].k = pre.attrs[i].k
           /\ \/ post.attrs[i].v = pre.attrs[i].v
              \/ (post.attrs[i].v.t = pre.attrs[i].v.t /\ pre.attrs[i].v.t \in {"sl", "m"})

SameObs(a, b) == a.live = b.live /\ a.attrs = b.attrs /\ a.dropped = b.dropped /\ a.n = b.n

StepKind(D, L, pre, op, post) ==
  LET t == op.tgt  o == Other(op.tgt) IN
  IF ~pre[t].live THEN "dead-target"
  ELSE IF op.op = "Clone"
       THEN (IF ~(SameObs(post[o], pre[t]) /\ post[o].n = Len(post[o].attrs)) THEN "clone"
             ELSE IF post[t] # pre[t] THEN "other-record" ELSE "")
  ELSE LET k == TargetKind(D, L, pre[t], op, post[t]) IN
       IF k # "" THEN k ELSE IF ~OtherOK(D, pre[o], post[o]) THEN "other-record" ELSE ""

(* which named deviation (if any) explains a transition the intended model rejects *)
Explain(L, pre, op, post) ==
  IF StepKind({"OverwriteRaw"}, L, pre, op, post) = "" THEN "OverwriteRaw"
  ELSE IF StepKind({"ZeroCountUnlimited"}, L, pre, op, post) = "" THEN "ZeroCountUnlimited"
  ELSE IF StepKind({"OverwriteRaw", "ZeroCountUnlimited"}, L, pre, op, post) = "" THEN "OverwriteRaw+ZeroCountUnlimited"
  ELSE IF StepKind({"SharedNested"}, L, pre, op, post) = "" THEN "SharedNested"
  ELSE IF StepKind({"SharedNested", "ZeroCountUnlimited"}, L, pre, op, post) = "" THEN "SharedNested+ZeroCountUnlimited"
  ELSE "none"
=============================================================================
