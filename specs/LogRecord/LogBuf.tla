------------------------------- MODULE LogBuf -------------------------------
(* State machine over LogBufModel for exhaustive exploration by TLC (C17):        *)
(* two records r, c emitted through one provider, and the caller's buffers mem.   *)
(* Calls pass literal lists or prefixes of a buffer; between the calls the caller *)
(* overwrites cells, appends behind a passed prefix, refills a buffer; records    *)
(* are cloned.  Every edge is printed and replayed on the real SDK with REAL      *)
(* shared backing arrays.                                                         *)
EXTENDS LogBufModel, TLC, Json

CONSTANTS Lim,
          InitMem,    \* [buffer id |-> sequence of cells]
          BufCalls,   \* set of [op, buf, n]      calls r/c.op(buf[:n]...)
          LitCalls,   \* set of [op, attrs]       literal variadic calls
          Writes,     \* set of [buf, cell, kv]
          Refills,    \* set of [buf, attrs]
          Clones,     \* subset of {"r","c"}: records that may be cloned (replacing the other one)
          MaxSteps,
          Dev

VARIABLES st, mem, steps, act
vars == <<st, mem, steps, act>>

OpSet ==
  {BOp(x.op, t, <<>>, x.buf, x.n, 0) : x \in BufCalls, t \in {"r", "c"}}
  \cup {BOp(x.op, t, x.attrs, "", 0, 0) : x \in LitCalls, t \in {"r", "c"}}
  \cup {BOp("Clone", t, <<>>, "", 0, 0) : t \in Clones}
  \cup {BOp("Write", "r", <<x.kv>>, x.buf, 0, x.cell) : x \in Writes}
  \cup {BOp("Refill", "r", x.attrs, x.buf, 0, 0) : x \in Refills}

Init == /\ st = [r |-> EmptyRec, c |-> EmptyRec] /\ mem = InitMem /\ steps = 0
        /\ act = BOp("Init", "r", <<>>, "", 0, 0)
Step(o) == /\ steps < MaxSteps
           /\ st' = RecNext(Dev, Lim, st, mem, o)
           /\ mem' = MemNext(mem, o)
           /\ steps' = steps + 1
           /\ act' = o
Next == \E o \in OpSet : Step(o)
Spec == Init /\ [][Next]_vars

View == <<st, mem, steps>>
EmitEdge == PrintT("EDGE " \o ToJson([from |-> [st |-> st, mem |-> mem], act |-> act',
                                      to |-> [st |-> st', mem |-> mem']]))

-----------------------------------------------------------------------------
RecInv(rec) == rec.live => /\ RecKeysUnique(rec) /\ RecCountBound(Lim, rec)
                           /\ RecLengthBound(Lim, rec) /\ RecAccounting(rec)
Inv == RecInv(st.r) /\ RecInv(st.c)

(* value semantics, as action properties of the model itself *)
CallerWritesChangeNothing == [][act'.op \in BufOps => st' = st]_vars
CallsReadTheBufferAtCallTime ==
  [][act'.op \in CallOps =>
       LET t == act'.tgt IN
       /\ EarliestKept(Lim, st[t], Plain(mem, act'), st'[t])
       /\ LastWins(Lim, st[t], Plain(mem, act'), st'[t])
       /\ st'[Other(t)] = st[Other(t)]
       /\ mem' = mem]_vars
Obs(rec) == [live |-> rec.live, attrs |-> rec.attrs, dropped |-> rec.dropped, n |-> Len(rec.attrs)]
ObsSt(s) == [r |-> Obs(s.r), c |-> Obs(s.c)]
SelfConformant == [][BufStepKind(Lim, ObsSt(st), mem, act', ObsSt(st')) = ""]_vars
=============================================================================
