SPECIFICATION Spec
CONSTANTS
  Lim <- MCLim
  Lists <- MCLists
  EmitLists <- MCEmitLists
  OpKinds <- MCOpKinds
  Dev <- MCDev
  MaxSteps = @MAXSTEPS@
  EmitOnly = @EMITONLY@
VIEW View
INVARIANT Inv
CHECK_DEADLOCK FALSE
