SPECIFICATION Spec
CONSTANTS
  Keys <- MCKeys
  Configs <- MCConfigs
  Sets <- MCSets
  MaxSteps = @MAXSTEPS@
VIEW View
ACTION_CONSTRAINT EmitEdge
INVARIANT Inv
CHECK_DEADLOCK FALSE
