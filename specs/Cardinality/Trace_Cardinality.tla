-------------------------- MODULE Trace_Cardinality --------------------------
(* code -> spec: validates collections recorded from real MeterProviders        *)
(* against CardModel.  Lines: Setup{sc,cfg} starts a scenario (fresh provider   *)
(* with cfg.readers readers built from cfg); Cycle{sc,r,ops,obs} = the          *)
(* measurements made since the previous line, in arrival order, followed by a   *)
(* collection of reader r and the projection of what that reader collected      *)
(* (collections of different readers interleave in trace order).                *)
(* Two independent judgements per cycle: (1) obs = Report of the operational    *)
(* model for reader r; (2) the clauses of the statement evaluated directly on   *)
(* obs (bound, single exact overflow set, conservation against running totals   *)
(* of what reader r's aggregators were fed).                                    *)
(* A Setup whose configuration lies outside the modelled domain (InDomain) is   *)
(* reported as SKIP and its cycles are consumed without judgement.              *)
EXTENDS CardModel, TraceKit, FiniteSetsExt

VARIABLES l, cfg, tab, fm, ss, fed, skip
vars == <<l, cfg, tab, fm, ss, fed, skip>>

NoCfg == [limit |-> 0, readers |-> <<>>, insts |-> <<>>, views |-> <<>>]
Init == l = 1 /\ cfg = NoCfg /\ tab = <<>> /\ fm = <<>> /\ ss = <<>> /\ fed = <<>> /\ skip = FALSE

TSetup == /\ l <= Len(Trace) /\ Trace[l].ev = "Setup"
          /\ cfg' = Trace[l].cfg
          /\ skip' = ~InDomain(cfg')
          /\ tab' = IF skip' THEN <<>> ELSE [r \in 1..Len(cfg'.readers) |-> Table(cfg', cfg'.readers[r])]
          /\ fm' = IF skip' THEN <<>> ELSE [r \in 1..Len(cfg'.readers) |-> FeedMap(cfg', cfg'.readers[r], tab'[r])]
          /\ ss' = [r \in 1..Len(tab') |-> [t \in 1..Len(tab'[r]) |-> NewAgg]]
          /\ fed' = [r \in 1..Len(tab') |-> [t \in 1..Len(tab'[r]) |-> [n |-> 0, s |-> 0]]]
          /\ (skip' => PrintT("SKIP " \o ToJson([line |-> l, sc |-> Trace[l].sc])))
          /\ l' = l + 1

(* observation as sets; a repeated metric or a repeated point makes it differ from any model value *)
ObsMetric(g) == [name |-> g.name, desc |-> g.desc, unit |-> g.unit, sn |-> g.sn, sv |-> g.sv, su |-> g.su, num |-> g.num,
                 agg |-> g.agg, temp |-> g.temp, mono |-> g.mono, pts |-> Rng(g.pts)]
ObsSet(obs) == {ObsMetric(obs[j]) : j \in 1..Len(obs)}
NoDup(obs) == /\ Cardinality(ObsSet(obs)) = Len(obs)
              /\ \A j \in 1..Len(obs) : Cardinality(Rng(obs[j].pts)) = Len(obs[j].pts)

(* running totals of what each aggregator of reader r was fed since its last reset *)
AddFed(r, f, ops) == FoldLeft(LAMBDA acc, o : [t \in 1..Len(tab[r]) |->
                                 IF t \in fm[r][o.i] THEN [n |-> acc[t].n + 1, s |-> acc[t].s + o.v] ELSE acc[t]], f, ops)
ResetFed(r, f) == [t \in 1..Len(tab[r]) |->
                     IF Mode(tab[r][t].agg, tab[r][t].kind) \in {"psum", "plast"} \/ cfg.readers[r].temp = "delta"
                     THEN [n |-> 0, s |-> 0] ELSE f[t]]

(* statement clauses evaluated on the real observation alone *)
BoundObs(obs) == \A j \in 1..Len(obs) :
   /\ (cfg.limit > 0 => Len(obs[j].pts) <= cfg.limit)
   /\ Cardinality({x \in 1..Len(obs[j].pts) : obs[j].pts[x].ovf}) <= (IF cfg.limit > 0 THEN 1 ELSE 0)
ConservedObs(r, obs, f) == \A t \in 1..Len(tab[r]) :
   LET st == tab[r][t]
       m == Mode(st.agg, st.kind)
       G == {j \in 1..Len(obs) : MKey(obs[j]) = RKey(st)}
       tot(fld) == MapThenSumSet(LAMBDA j : MapThenSumSet(LAMBDA x : obs[j].pts[x][fld], 1..Len(obs[j].pts)), G)
   IN /\ (m = "drop" => G = {})
      /\ (m # "drop" /\ f[t].n = 0 => G = {})
      /\ (m # "drop" /\ f[t].n > 0 => Cardinality(G) = 1)
      /\ (m = "hist" => tot("n") = f[t].n)
      /\ ((m = "sum" \/ (m = "psum" /\ cfg.readers[r].temp = "cumulative") \/ (m = "hist" /\ HasSum(st.kind))) => tot("s") = f[t].s)

TCycle == /\ l <= Len(Trace) /\ Trace[l].ev = "Cycle" /\ ~skip
          /\ LET ops == Trace[l].ops
                 obs == Trace[l].obs
                 r == Trace[l].r
                 m == [q \in 1..Len(tab) |-> ApplyAll(cfg.limit, tab[q], fm[q], ss[q], ops)]
                 want == Report(cfg.readers[r].temp, tab[r], m[r])
                 f == [q \in 1..Len(tab) |-> AddFed(q, fed[q], ops)]
             IN /\ ss' = [m EXCEPT ![r] = Reset(cfg.readers[r].temp, tab[r], m[r])]
                /\ fed' = [f EXCEPT ![r] = ResetFed(r, f[r])]
                /\ (~(NoDup(obs) /\ ObsSet(obs) = want) =>
                      Viol([line |-> l, sc |-> Trace[l].sc, r |-> r, kind |-> "state", want |-> want, got |-> obs]))
                /\ (~BoundObs(obs) => Viol([line |-> l, sc |-> Trace[l].sc, r |-> r, kind |-> "bound", got |-> obs]))
                /\ (~ConservedObs(r, obs, f[r]) => Viol([line |-> l, sc |-> Trace[l].sc, r |-> r, kind |-> "conserve", fed |-> f[r], got |-> obs]))
          /\ l' = l + 1 /\ UNCHANGED <<cfg, tab, fm, skip>>

(* Par{sc,pre,par,post,obs} (single reader): pre sequentially, then the          *)
(* measurements par CONCURRENTLY (one goroutine each, every one a different      *)
(* attribute set not seen before, equal values), then post sequentially, then   *)
(* one collection at quiescence.  Every aggregator serialises its measurements, *)
(* so some serial order must explain obs; with fresh distinct sets and equal     *)
(* values the outcome only depends on which of them came first.                  *)
Without(s, k) == [j \in 1..(Len(s) - 1) |-> IF j < k THEN s[j] ELSE s[j + 1]]
TPar == /\ l <= Len(Trace) /\ Trace[l].ev = "Par" /\ ~skip
        /\ LET pre == Trace[l].pre
               par == Trace[l].par
               post == Trace[l].post
               obs == Trace[l].obs
               tmp == cfg.readers[1].temp
               order(k) == pre \o <<par[k]>> \o Without(par, k) \o post
               mod(k) == ApplyAll(cfg.limit, tab[1], fm[1], ss[1], order(k))
               ok == {k \in 1..Len(par) : ObsSet(obs) = Report(tmp, tab[1], mod(k))}
               pick == IF ok # {} THEN CHOOSE k \in ok : TRUE ELSE 1
               f == AddFed(1, fed[1], pre \o par \o post)
           IN /\ ss' = [ss EXCEPT ![1] = Reset(tmp, tab[1], mod(pick))]
              /\ fed' = [fed EXCEPT ![1] = ResetFed(1, f)]
              /\ (~(NoDup(obs) /\ ok # {}) =>
                    Viol([line |-> l, sc |-> Trace[l].sc, r |-> 1, kind |-> "state", want |-> Report(tmp, tab[1], mod(1)), got |-> obs]))
              /\ (~BoundObs(obs) => Viol([line |-> l, sc |-> Trace[l].sc, r |-> 1, kind |-> "bound", got |-> obs]))
              /\ (~ConservedObs(1, obs, f) => Viol([line |-> l, sc |-> Trace[l].sc, r |-> 1, kind |-> "conserve", fed |-> f, got |-> obs]))
        /\ l' = l + 1 /\ UNCHANGED <<cfg, tab, fm, skip>>

(* Pair{sc,pre,ops,obs1,obs2} (single reader): pre = synchronous measurements   *)
(* made once; two goroutines collect the same reader at once while the           *)
(* callbacks make the observations ops at EVERY invocation.  Collections of one  *)
(* reader are serialised: one of the two serial orders must explain the pair.    *)
TPair == /\ l <= Len(Trace) /\ Trace[l].ev = "Pair" /\ ~skip
         /\ LET tmp == cfg.readers[1].temp
                m1 == ApplyAll(cfg.limit, tab[1], fm[1], ss[1], Trace[l].pre \o Trace[l].ops)
                w1 == Report(tmp, tab[1], m1)
                m2 == ApplyAll(cfg.limit, tab[1], fm[1], Reset(tmp, tab[1], m1), Trace[l].ops)
                w2 == Report(tmp, tab[1], m2)
                o1 == Trace[l].obs1
                o2 == Trace[l].obs2
            IN /\ ss' = [ss EXCEPT ![1] = Reset(tmp, tab[1], m2)]
               /\ (~(/\ NoDup(o1) /\ NoDup(o2)
                     /\ \/ (ObsSet(o1) = w1 /\ ObsSet(o2) = w2)
                        \/ (ObsSet(o2) = w1 /\ ObsSet(o1) = w2)) =>
                     Viol([line |-> l, sc |-> Trace[l].sc, r |-> 1, kind |-> "overlap", want |-> w1, got |-> o1, want2 |-> w2, got2 |-> o2]))
               /\ (~(BoundObs(o1) /\ BoundObs(o2)) => Viol([line |-> l, sc |-> Trace[l].sc, r |-> 1, kind |-> "bound", got |-> o1 \o o2]))
         /\ l' = l + 1 /\ UNCHANGED <<cfg, tab, fm, fed, skip>>

TSkipped == /\ l <= Len(Trace) /\ Trace[l].ev \in {"Cycle", "Par", "Pair"} /\ skip
            /\ l' = l + 1 /\ UNCHANGED <<cfg, tab, fm, ss, fed, skip>>

TDone == l = Len(Trace) + 1 /\ Accepted(l) /\ UNCHANGED vars

Next == TSetup \/ TCycle \/ TPar \/ TPair \/ TSkipped \/ TDone
Spec == Init /\ [][Next]_vars

(* the model-side statement holds at every step of every real trace *)
Inv == \A r \in 1..Len(tab) : \A t \in 1..Len(tab[r]) : Mode(tab[r][t].agg, tab[r][t].kind) # "drop" =>
          /\ (cfg.limit > 0 => Cardinality(ss[r][t].cells) <= cfg.limit)
          /\ Cardinality({x \in ss[r][t].cells : x.ovf}) <= 1
=============================================================================
