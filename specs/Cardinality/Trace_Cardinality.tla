-------------------------- MODULE Trace_Cardinality --------------------------
(* code -> spec: validates collections recorded from real MeterProviders        *)
(* against CardModel.  Lines: Setup{sc,cfg} starts a scenario (fresh provider   *)
(* with cfg.readers readers built from cfg); Cycle{sc,r,ops,obs} = the          *)
(* measurements made since the previous line, in arrival order, followed by a   *)
(* collection of reader r and the projection of what that reader collected      *)
(* (collections of different readers interleave in trace order).                *)
(* Two independent judgements per cycle: (1) obs = Report of the operational    *)
(* model for reader r; (2) the clauses of the statement evaluated directly on   *)
(* obs (bound, single exact overflow set, conservation against running totals   *)
(* of what reader r's aggregators were fed).                                    *)
(* A Setup whose configuration lies outside the modelled domain (InDomain) is   *)
(* reported as SKIP and its cycles are consumed without judgement.              *)
EXTENDS CardModel, TraceKit, FiniteSetsExt

VARIABLES l, cfg, tab, fm, ss, fed, skip
vars == <<l, cfg, tab, fm, ss, fed, skip>>

NoCfg == [limit |-> 0, readers |-> <<>>, insts |-> <<>>, views |-> <<>>]
Init == l = 1 /\ cfg = NoCfg /\ tab = <<>> /\ fm = <<>> /\ ss = <<>> /\ fed = <<>> /\ skip = FALSE

TSetup == /\ l <= Len(Trace) /\ Trace[l].ev = "Setup"
          /\ cfg' = Trace[l].cfg
          /\ skip' = ~InDomain(cfg')
          /\ tab' = IF skip' THEN <<>> ELSE [r \in 1..Len(cfg'.readers) |-> Table(cfg', cfg'.readers[r])]
          /\ fm' = IF skip' THEN <<>> ELSE [r \in 1..Len(cfg'.readers) |-> FeedMap(cfg', cfg'.readers[r], tab'[r])]
          /\ ss' = [r \in 1..Len(tab') |-> [t \in 1..Len(tab'[r]) |-> NewAgg]]
          /\ fed' = [r \in 1..Len(tab') |-> [t \in 1..Len(tab'[r]) |-> [n |-> 0, s |-> 0]]]
          /\ (skip' => PrintT("SKIP " \o ToJson([line |-> l, sc |-> Trace[l].sc])))
          /\ l' = l + 1

(* observation as sets; a repeated metric or a repeated point makes it differ from any model value *)
ObsMetric(g) == [name |-> g.name, desc |-> g.desc, unit |-> g.unit, sn |-> g.sn, sv |-> g.sv, su |-> g.su, num |-> g.num,
                 agg |-> g.agg, temp |-> g.temp, mono |-> g.mono, pts |-> Rng(g.pts)]
ObsSet(obs) == {ObsMetric(obs[j]) : j \in 1..Len(obs)}
NoDup(obs) == /\ Cardinality(ObsSet(obs)) = Len(obs)
              /\ \A j \in 1..Len(obs) : Cardinality(Rng(obs[j].pts)) = Len(obs[j].pts)

(* running totals of what each aggregator of reader r was fed since its last reset *)
AddFed(r, f, ops) == FoldLeft(LAMBDA acc, o : [t \in 1..Len(tab[r]) |->
                                 IF t \in fm[r][o.i] THEN [n |-> acc[t].n + 1, s |-> acc[t].s + o.v] ELSE acc[t]], f, ops)
ResetFed(r, f) == [t \in 1..Len(tab[r]) |->
                     IF Mode(tab[r][t].agg, tab[r][t].kind) \in {"psum", "plast"} \/ cfg.readers[r].temp = "delta"
                     THEN [n |-> 0, s |-> 0] ELSE f[t]]

(* statement clauses evaluated on the real observation alone *)
BoundObs(obs) == \A j \in 1..Len(obs) :
   /\ (cfg.limit > 0 => Len(obs[j].pts) <= cfg.limit)
   /\ Cardinality({x \in 1..Len(obs[j].pts) : obs[j].pts[x].ovf}) <= (IF cfg.limit > 0 THEN 1 ELSE 0)
ConservedObs(r, obs, f) == \A t \in 1..Len(tab[r]) :
   LET st == tab[r][t]
       m == Mode(st.agg, st.kind)
       G == {j \in 1..Len(obs) : MKey(obs[j]) = RKey(st)}
       tot(fld) == MapThenSumSet(LAMBDA j : MapThenSumSet(LAMBDA x : obs[j].pts[x][fld], 1..Len(obs[j].pts)), G)
   IN /\ (m = "drop" => G = {})
      /\ (m # "drop" /\ f[t].n = 0 => G = {})
      /\ (m # "drop" /\ f[t].n > 0 => Cardinality(G) = 1)
      /\ (m = "hist" => tot("n") = f[t].n)
      /\ ((m = "sum" \/ (m = "psum" /\ cfg.readers[r].temp = "cumulative") \/ (m = "hist" /\ HasSum(st.kind))) => tot("s") = f[t].s)

TCycle == /\ l <= Len(Trace) /\ Trace[l].ev = "Cycle" /\ ~skip
          /\ LET ops == Trace[l].ops
                 obs == Trace[l].obs
                 r == Trace[l].r
                 m == [q \in 1..Len(tab) |-> ApplyAll(cfg.limit, tab[q], fm[q], ss[q], ops)]
                 want == Report(cfg.readers[r].temp, tab[r], m[r])
                 f == [q \in 1..Len(tab) |-> AddFed(q, fed[q], ops)]
             IN /\ ss' = [m EXCEPT ![r] = Reset(cfg.readers[r].temp, tab[r], m[r])]
                /\ fed' = [f EXCEPT ![r] = ResetFed(r, f[r])]
                /\ (~(NoDup(obs) /\ ObsSet(obs) = want) =>
                      Viol([line |-> l, sc |-> Trace[l].sc, r |-> r, kind |-> "state", want |-> want, got |-> obs]))
                /\ (~BoundObs(obs) => Viol([line |-> l, sc |-> Trace[l].sc, r |-> r, kind |-> "bound", got |-> obs]))
                /\ (~ConservedObs(r, obs, f[r]) => Viol([line |-> l, sc |-> Trace[l].sc, r |-> r, kind |-> "conserve", fed |-> f[r], got |-> obs]))
          /\ l' = l + 1 /\ UNCHANGED <<cfg, tab, fm, skip>>

TSkipped == /\ l <= Len(Trace) /\ Trace[l].ev = "Cycle" /\ skip
            /\ l' = l + 1 /\ UNCHANGED <<cfg, tab, fm, ss, fed, skip>>

TDone == l = Len(Trace) + 1 /\ Accepted(l) /\ UNCHANGED vars

Next == TSetup \/ TCycle \/ TSkipped \/ TDone
Spec == Init /\ [][Next]_vars

(* the model-side statement holds at every step of every real trace *)
Inv == \A r \in 1..Len(tab) : \A t \in 1..Len(tab[r]) : Mode(tab[r][t].agg, tab[r][t].kind) # "drop" =>
          /\ (cfg.limit > 0 => Cardinality(ss[r][t].cells) <= cfg.limit)
          /\ Cardinality({x \in ss[r][t].cells : x.ovf}) <= 1
=============================================================================
