-------------------------- MODULE Trace_Cardinality --------------------------
(* code -> spec: validates collections recorded from real MeterProviders        *)
(* against CardModel.  Lines: Setup{sc,cfg} starts a scenario (fresh provider   *)
(* built from cfg); Cycle{sc,ops,obs} = the measurements of one collection      *)
(* cycle in arrival order and the projection of what the reader collected.      *)
(* Two independent judgements per cycle: (1) obs = Report of the operational    *)
(* model; (2) the clauses of the statement evaluated directly on obs (bound,    *)
(* single exact overflow set, conservation against running totals of the ops).  *)
EXTENDS CardModel, TraceKit, FiniteSetsExt

VARIABLES l, cfg, tab, fm, ss, fed, skip
vars == <<l, cfg, tab, fm, ss, fed, skip>>

NoCfg == [limit |-> 0, temp |-> "delta", insts |-> <<>>, views |-> <<>>]
Init == l = 1 /\ cfg = NoCfg /\ tab = <<>> /\ fm = <<>> /\ ss = <<>> /\ fed = <<>> /\ skip = FALSE

TSetup == /\ l <= Len(Trace) /\ Trace[l].ev = "Setup"
          /\ cfg' = Trace[l].cfg
          /\ skip' = ~InDomain(cfg')
          /\ tab' = IF skip' THEN <<>> ELSE Table(cfg')
          /\ fm' = IF skip' THEN <<>> ELSE FeedMap(cfg', tab')
          /\ ss' = [t \in 1..Len(tab') |-> NewAgg]
          /\ fed' = [t \in 1..Len(tab') |-> [n |-> 0, s |-> 0]]
          /\ (skip' => PrintT("SKIP " \o ToJson([line |-> l, sc |-> Trace[l].sc])))
          /\ l' = l + 1

(* observation as sets; a repeated metric or a repeated point makes it differ from any model value *)
ObsMetric(g) == [name |-> g.name, desc |-> g.desc, unit |-> g.unit, sn |-> g.sn, sv |-> g.sv, su |-> g.su, num |-> g.num, agg |-> g.agg, temp |-> g.temp, mono |-> g.mono, pts |-> Rng(g.pts)]
ObsSet(obs) == {ObsMetric(obs[j]) : j \in 1..Len(obs)}
NoDup(obs) == /\ Cardinality(ObsSet(obs)) = Len(obs)
              /\ \A j \in 1..Len(obs) : Cardinality(Rng(obs[j].pts)) = Len(obs[j].pts)

(* running totals of what each aggregator was fed since its last reset *)
AddFed(f, ops) == FoldLeft(LAMBDA acc, o : [t \in 1..Len(tab) |->
                              IF t \in fm[o.i] THEN [n |-> acc[t].n + 1, s |-> acc[t].s + o.v] ELSE acc[t]], f, ops)
ResetFed(f) == [t \in 1..Len(tab) |->
                  IF Mode(tab[t].agg, tab[t].kind) \in {"psum", "plast"} \/ cfg.temp = "delta" THEN [n |-> 0, s |-> 0] ELSE f[t]]

(* statement clauses evaluated on the real observation alone *)
BoundObs(obs) == \A j \in 1..Len(obs) :
   /\ (cfg.limit > 0 => Len(obs[j].pts) <= cfg.limit)
   /\ Cardinality({x \in 1..Len(obs[j].pts) : obs[j].pts[x].ovf}) <= (IF cfg.limit > 0 THEN 1 ELSE 0)
ConservedObs(obs, f) == \A t \in 1..Len(tab) :
   LET m == Mode(tab[t].agg, tab[t].kind)
       G == {j \in 1..Len(obs) : MKey(obs[j]) = RKey(tab[t])}
       tot(fld) == MapThenSumSet(LAMBDA j : MapThenSumSet(LAMBDA x : obs[j].pts[x][fld], 1..Len(obs[j].pts)), G)
   IN /\ (m = "drop" => G = {})
      /\ (m # "drop" /\ f[t].n = 0 => G = {})
      /\ (m # "drop" /\ f[t].n > 0 => Cardinality(G) = 1)
      /\ (m = "hist" => tot("n") = f[t].n)
      /\ ((m = "sum" \/ (m = "psum" /\ cfg.temp = "cumulative") \/ (m = "hist" /\ HasSum(tab[t].kind))) => tot("s") = f[t].s)

TCycle == /\ l <= Len(Trace) /\ Trace[l].ev = "Cycle" /\ ~skip
          /\ LET ops == Trace[l].ops
                 obs == Trace[l].obs
                 m == ApplyAll(cfg, tab, fm, ss, ops)
                 want == Report(cfg, tab, m)
                 f == AddFed(fed, ops)
             IN /\ ss' = Reset(cfg, tab, m)
                /\ fed' = ResetFed(f)
                /\ (~(NoDup(obs) /\ ObsSet(obs) = want) =>
                      Viol([line |-> l, sc |-> Trace[l].sc, kind |-> "state", want |-> want, got |-> obs]))
                /\ (~BoundObs(obs) => Viol([line |-> l, sc |-> Trace[l].sc, kind |-> "bound", got |-> obs]))
                /\ (~ConservedObs(obs, f) => Viol([line |-> l, sc |-> Trace[l].sc, kind |-> "conserve", fed |-> f, got |-> obs]))
          /\ l' = l + 1 /\ UNCHANGED <<cfg, tab, fm, skip>>

TSkipped == /\ l <= Len(Trace) /\ Trace[l].ev = "Cycle" /\ skip
            /\ l' = l + 1 /\ UNCHANGED <<cfg, tab, fm, ss, fed, skip>>

TDone == l = Len(Trace) + 1 /\ Accepted(l) /\ UNCHANGED vars

Next == TSetup \/ TCycle \/ TSkipped \/ TDone
Spec == Init /\ [][Next]_vars

(* the model-side statement holds at every step of every real trace *)
Inv == \A t \in 1..Len(tab) : Mode(tab[t].agg, tab[t].kind) # "drop" =>
          /\ (cfg.limit > 0 => Cardinality(ss[t].cells) <= cfg.limit)
          /\ Cardinality({x \in ss[t].cells : x.ovf}) <= 1
=============================================================================
