SPECIFICATION HSpec
CONSTANTS
  Keys <- MCKeys
  Configs <- MCConfigs
  Sets <- MCSets
  MaxSteps = @MAXSTEPS@
VIEW HView
INVARIANT HInv
CHECK_DEADLOCK FALSE
