---------------------------- MODULE CardLimitConc ----------------------------
(* Implementation-shaped model of ONE aggregator with cardinality limit L under *)
(* concurrent first measurements of different new attribute sets (C12: "no      *)
(* instrument ever reports more than L attribute sets", for all interleavings). *)
(* A measurement of a NEW set is two steps: the limiter decision (keep identity *)
(* iff fewer than L-1 sets are held, else overflow) and the insertion.  The     *)
(* contract: the decision is made on the state the insertion sees (both in one  *)
(* critical section).  Relock = TRUE is the named deviation D1 "lock released   *)
(* between decision and insertion, decision not repeated" (demonstrated to      *)
(* break the bound by the NoAtomic configuration).                              *)
EXTENDS Integers, FiniteSets

CONSTANTS Procs,    \* goroutines, each first-recording its own fresh attribute set
          L,        \* cardinality limit (> 0)
          Held,     \* distinct sets already held
          Relock    \* deviation D1

VARIABLES cells,    \* attribute sets held with their identity
          ovf,      \* the overflow point exists
          lock,     \* 0 or the goroutine inside the critical section
          pc, dec
vars == <<cells, ovf, lock, pc, dec>>

Decision == IF Cardinality(cells) < L - 1 THEN "own" ELSE "ovf"

Init == /\ cells = {-i : i \in 1..Held} /\ ovf = FALSE /\ lock = 0
        /\ pc = [p \in Procs |-> "start"] /\ dec = [p \in Procs |-> "none"]
Acquire(p) == pc[p] = "start" /\ lock = 0 /\ lock' = p /\ pc' = [pc EXCEPT ![p] = "decide"] /\ UNCHANGED <<cells, ovf, dec>>
Decide(p) == /\ pc[p] = "decide" /\ dec' = [dec EXCEPT ![p] = Decision]
             /\ pc' = [pc EXCEPT ![p] = IF Relock THEN "unlocked" ELSE "insert"]
             /\ lock' = IF Relock THEN 0 ELSE lock
             /\ UNCHANGED <<cells, ovf>>
Reacquire(p) == pc[p] = "unlocked" /\ lock = 0 /\ lock' = p /\ pc' = [pc EXCEPT ![p] = "insert"] /\ UNCHANGED <<cells, ovf, dec>>
Insert(p) == /\ pc[p] = "insert"
             /\ cells' = IF dec[p] = "own" THEN cells \cup {p} ELSE cells
             /\ ovf' = (ovf \/ dec[p] = "ovf")
             /\ lock' = 0 /\ pc' = [pc EXCEPT ![p] = "done"] /\ UNCHANGED dec
Next == \E p \in Procs : Acquire(p) \/ Decide(p) \/ Reacquire(p) \/ Insert(p)
Spec == Init /\ [][Next]_vars

Bound == /\ Cardinality(cells) <= (IF L - 1 > Held THEN L - 1 ELSE Held)
         /\ (Held <= L - 1 => Cardinality(cells) + (IF ovf THEN 1 ELSE 0) <= L)
(* the decision an insertion acts on is the decision on the state it sees *)
DecisionAtInsert == \A p \in Procs : pc[p] = "insert" => dec[p] = Decision
(* nothing lost: every finished goroutine is either held or folded into overflow *)
Conserved == \A p \in Procs : pc[p] = "done" => (p \in cells \/ ovf)
Inv == Bound /\ DecisionAtInsert /\ Conserved
=============================================================================
