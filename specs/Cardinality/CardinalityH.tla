---------------------------- MODULE CardinalityH ----------------------------
(* The statement of C12 in declarative form, checked by TLC against the        *)
(* operational model for every history (history variables make every state a   *)
(* distinct operation sequence, so this module is explored without edge        *)
(* printing).  log = the measurements made since Setup, in order, each with    *)
(* the aggregators its instrument feeds per reader (instruments that feed the  *)
(* same aggregators are not distinguished); mark[r] =                          *)
(* length of log at reader r's last collection (pmark[r]: at the one before);  *)
(* hist[r][t] = measurements delivered to aggregator t of reader r since its   *)
(* last reset (lifetime for cumulative synchronous streams, cycle otherwise);  *)
(* phist[r][t] = the preceding cycle of a pre-computed sum under delta.        *)
EXTENDS Cardinality, FiniteSetsExt

VARIABLES hist, phist, log, mark, pmark
hvars == <<c, ss, steps, act, hist, phist, log, mark, pmark>>

(* declarative cells: distinct filtered sets in arrival order; a set keeps its *)
(* identity iff it is among the first L-1; all others form the overflow point  *)
Decl(lim, st, h) ==
  LET m == Mode(st.agg, st.kind)
      N == Len(h)
      fs == [j \in 1..N |-> Filtered(st.filt, h[j].attrs)]
      kept == IF lim <= 0 THEN {fs[j] : j \in 1..N}
              ELSE {fs[j] : j \in {x \in 1..N : Cardinality({fs[y] : y \in 1..x}) <= lim - 1}}
      keyOf(j) == IF fs[j] \in kept THEN [ovf |-> FALSE, attrs |-> fs[j]] ELSE OvfKey
      idx(key) == {j \in 1..N : keyOf(j) = key}
      cell(key) == LET I == idx(key) IN
                   Shape(m, [ovf |-> key.ovf, attrs |-> key.attrs, n |-> Cardinality(I),
                             s |-> MapThenSumSet(LAMBDA j : h[j].v, I),
                             l |-> h[Max(I)].v,
                             mn |-> Min({h[j].v : j \in I}), mx |-> Max({h[j].v : j \in I})])
  IN {cell(key) : key \in {keyOf(j) : j \in 1..N}}

(* views, declaratively (per configuration and reader, independent of Table /   *)
(* Feeds order): an instrument feeds exactly one aggregator per DISTINCT        *)
(* identity among the streams of its matching views (the default stream when    *)
(* none matches), and nothing else; aggregator identities are pairwise          *)
(* distinct; an instrument selected by no view gets the READER's aggregation    *)
(* for its kind, no filter, its own unit and description; a view without an     *)
(* aggregation gets the reader's, AggregationDefault the SDK default            *)
Matching(cf, i) == {x \in 1..Len(cf.views) : Match(cf.views[x], i)}
Wanted(cf, rd, i) == IF Matching(cf, i) = {} THEN {Id(DefaultStream(i, rd))}
                     ELSE {Id(StreamOf(cf.views[x], i, rd)) : x \in Matching(cf, i)}
ViewsDecl(k) ==
  LET cf == CfgTab[k] IN
  \A r \in 1..NR(k) :
    LET tab == Tabs[k][r]
        rd == cf.readers[r]
    IN /\ \A x, y \in 1..Len(tab) : Id(tab[x]) = Id(tab[y]) => x = y
       /\ \A j \in 1..Len(cf.insts) :
            LET i == cf.insts[j] IN
            /\ {Id(tab[t]) : t \in FMaps[k][r][j]} = Wanted(cf, rd, i)
            /\ Cardinality(FMaps[k][r][j]) = Cardinality(Wanted(cf, rd, i))
            /\ (Matching(cf, i) = {} =>
                  \A t \in FMaps[k][r][j] : /\ tab[t].agg = ReaderAgg(rd, i.kind)
                                            /\ ~tab[t].filt.on /\ tab[t].unit = i.unit /\ tab[t].desc = i.desc)
            /\ \A x \in Matching(cf, i) : \E t \in FMaps[k][r][j] :
                  /\ Id(tab[t]) = Id(StreamOf(cf.views[x], i, rd))
                  /\ (cf.views[x].agg = "" => tab[t].agg = ReaderAgg(rd, i.kind))
                  /\ (cf.views[x].agg = "default" => tab[t].agg = DefaultAgg(i.kind))
                  /\ (cf.views[x].agg \notin {"", "default"} => tab[t].agg = cf.views[x].agg)
       /\ \A t \in 1..Len(tab) : \E j \in 1..Len(cf.insts) : t \in FMaps[k][r][j]
ASSUME \A k \in 1..NCfg : ViewsDecl(k)

HInit == Init /\ hist = <<>> /\ phist = <<>> /\ log = <<>> /\ mark = <<>> /\ pmark = <<>>
PerCycle(r, t) == Mode(Tab(r)[t].agg, Tab(r)[t].kind) \in {"psum", "plast"} \/ Temp(r) = "delta"
(* the part of the log no live aggregator can depend on any more is forgotten  *)
(* (nothing, as soon as one live stream accumulates over its lifetime)          *)
KeepAll == \E q \in Rds : \E t \in Live(q) : ~PerCycle(q, t)
NeedsMark(q) == \E t \in Live(q) : PerCycle(q, t)
NeedsPMark(q) == \E t \in Live(q) : Mode(Tab(q)[t].agg, Tab(q)[t].kind) = "psum" /\ Temp(q) = "delta"
HNext == /\ Next
         /\ CASE act'.op = "S" -> (/\ hist' = [r \in 1..Len(ss') |-> [t \in 1..Len(ss'[r]) |-> <<>>]]
                                   /\ phist' = hist' /\ log' = <<>>
                                   /\ mark' = [r \in 1..Len(ss') |-> 0] /\ pmark' = mark')
              [] act'.op = "M" -> (/\ hist' = [r \in Rds |-> [t \in 1..Len(Tab(r)) |->
                                                IF t \in FMaps[c][r][act'.i]
                                                THEN Append(hist[r][t], [attrs |-> act'.attrs, v |-> act'.v]) ELSE hist[r][t]]]
                                   /\ log' = Append(log, [f |-> [q \in Rds |-> FMaps[c][q][act'.i]], attrs |-> act'.attrs, v |-> act'.v])
                                   /\ UNCHANGED <<phist, mark, pmark>>)
              [] act'.op = "C" -> (LET r == act'.r IN
                                   /\ hist' = [hist EXCEPT ![r] = [t \in 1..Len(Tab(r)) |->
                                                IF PerCycle(r, t) THEN <<>> ELSE hist[r][t]]]
                                   /\ phist' = [phist EXCEPT ![r] = [t \in 1..Len(Tab(r)) |->
                                                IF Mode(Tab(r)[t].agg, Tab(r)[t].kind) = "psum" /\ Temp(r) = "delta"
                                                THEN hist[r][t] ELSE <<>>]]
                                   /\ LET mk == [mark EXCEPT ![r] = Len(log)]
                                          pm == [pmark EXCEPT ![r] = mark[r]]
                                          base == IF KeepAll THEN 0
                                                  ELSE Min({Len(log)} \cup {mk[q] : q \in {x \in Rds : NeedsMark(x)}}
                                                                     \cup {pm[q] : q \in {x \in Rds : NeedsPMark(x)}})
                                      IN /\ log' = SubSeq(log, base + 1, Len(log))
                                         /\ mark' = [q \in Rds |-> IF NeedsMark(q) THEN mk[q] - base ELSE 0]
                                         /\ pmark' = [q \in Rds |-> IF NeedsPMark(q) THEN pm[q] - base ELSE 0])
HSpec == HInit /\ [][HNext]_hvars
HView == <<c, ss, hist, phist, log, mark, pmark>>

(* every reader's matching streams receive every measurement exactly once, in   *)
(* order, whatever the other readers collected in between: what aggregator t of *)
(* reader r holds is the part of the global log since r's own last collection   *)
(* (since Setup for cumulative synchronous streams) made on instruments that    *)
(* feed t                                                                       *)
Part(r, t, from, to) ==
  LET idx == SelectSeq([j \in 1..(to - from) |-> from + j], LAMBDA j : t \in log[j].f[r])
  IN [x \in 1..Len(idx) |-> [attrs |-> log[idx[x]].attrs, v |-> log[idx[x]].v]]
Delivered == c # 0 => \A r \in Rds : \A t \in Live(r) :
   /\ hist[r][t] = Part(r, t, IF PerCycle(r, t) THEN mark[r] ELSE 0, Len(log))
   /\ ((Mode(Tab(r)[t].agg, Tab(r)[t].kind) = "psum" /\ Temp(r) = "delta") => phist[r][t] = Part(r, t, pmark[r], mark[r]))
(* operational cells = declarative cells, for every history *)
DeclEq == c # 0 => \A r \in Rds : \A t \in Live(r) : ss[r][t].cells = Decl(L, Tab(r)[t], hist[r][t])
(* typed values: measurements whose FILTERED sets print alike but differ in the  *)
(* type of a value are different streams - without a limit each is reported     *)
(* under its own set with its own count; measurements whose filtered sets are   *)
(* equal (the filter removed the key that differed) are added together          *)
TypedApart == c # 0 => \A r \in Rds : \A t \in Live(r) :
   LET st == Tab(r)[t]
       h == hist[r][t]
       F(j) == Filtered(st.filt, h[j].attrs)
   IN L <= 0 => \A j \in 1..Len(h) :
        \E x \in ss[r][t].cells :
           /\ ~x.ovf /\ x.attrs = F(j)
           /\ (Mode(st.agg, st.kind) = "hist" => x.n = Cardinality({y \in 1..Len(h) : F(y) = F(j)}))
           /\ \A y \in 1..Len(h) : TextTwins(F(y), F(j)) => \E z \in ss[r][t].cells : z # x /\ ~z.ovf /\ z.attrs = F(y)
(* nothing lost, nothing duplicated: counts and sums of all delivered measurements *)
Conserved == c # 0 => \A r \in Rds : \A t \in Live(r) :
   LET m == Mode(Tab(r)[t].agg, Tab(r)[t].kind)
       h == hist[r][t]
   IN /\ (m = "hist" => MapThenSumSet(LAMBDA x : x.n, ss[r][t].cells) = Len(h))
      /\ (m \in {"sum", "psum", "hist"} =>
            MapThenSumSet(LAMBDA x : x.s, ss[r][t].cells) = MapThenSumSet(LAMBDA j : h[j].v, 1..Len(h)))
(* reported values: a point per cell; pre-computed sums under delta report the *)
(* change against the same reported set of the preceding cycle (0 if absent)   *)
PrevDecl(r, t, x) == LET P == Decl(L, Tab(r)[t], phist[r][t]) IN
                     IF \E p \in P : SameKey(p, x) THEN (CHOOSE p \in P : SameKey(p, x)).s ELSE 0
ReportDecl == c # 0 => \A r \in Rds : \A t \in Live(r) :
   LET st == Tab(r)[t]
       m == Mode(st.agg, st.kind)
       M == {mm \in Rep(r) : MKey(mm) = RKey(st)}
   IN IF hist[r][t] = <<>> THEN M = {}
      ELSE /\ Cardinality(M) = 1
           /\ LET mm == CHOOSE mm \in M : TRUE IN
              /\ Cardinality(mm.pts) = Cardinality(ss[r][t].cells)
              /\ \A x \in ss[r][t].cells : \E p \in mm.pts :
                   /\ SameKey(p, x)
                   /\ (m = "sum" => p.s = x.s)
                   /\ (m = "psum" => p.s = x.s - (IF Temp(r) = "delta" THEN PrevDecl(r, t, x) ELSE 0))
                   /\ (m \in {"last", "plast"} => p.l = x.l)
                   /\ (m = "hist" => (p.n = x.n /\ p.mn = x.mn /\ p.mx = x.mx /\ p.s = IF HasSum(st.kind) THEN x.s ELSE 0))
(* conservation as seen by each reader: cumulative pre-computed and all         *)
(* synchronous streams report exactly the total of what they were fed           *)
ReportedTotal == c # 0 => \A r \in Rds : \A mm \in Rep(r) :
   \A t \in Live(r) : RKey(Tab(r)[t]) = MKey(mm) =>
      LET m == Mode(Tab(r)[t].agg, Tab(r)[t].kind)
          h == hist[r][t]
      IN /\ (m = "hist" => MapThenSumSet(LAMBDA p : p.n, mm.pts) = Len(h))
         /\ ((m = "sum" \/ (m = "psum" /\ Temp(r) = "cumulative") \/ (m = "hist" /\ HasSum(Tab(r)[t].kind))) =>
               MapThenSumSet(LAMBDA p : p.s, mm.pts) = MapThenSumSet(LAMBDA j : h[j].v, 1..Len(h)))
(* every reported metric belongs to exactly one stream of that reader *)
ReportOwned == c # 0 => \A r \in Rds : \A mm \in Rep(r) : Cardinality({t \in Live(r) : RKey(Tab(r)[t]) = MKey(mm)}) = 1
HInv == Inv /\ Delivered /\ DeclEq /\ ReportOwned /\ Conserved /\ ReportDecl /\ ReportedTotal /\ TypedApart
=============================================================================
