---------------------------- MODULE CardinalityH ----------------------------
(* The statement of C12 in declarative form, checked by TLC against the        *)
(* operational model for every history (history variables make every state a   *)
(* distinct operation sequence, so this module is explored without edge        *)
(* printing).  hist[t] = measurements delivered to aggregator t since its last *)
(* reset (lifetime for cumulative synchronous streams, cycle otherwise);       *)
(* phist[t] = the preceding cycle of a pre-computed sum under delta.           *)
EXTENDS Cardinality, FiniteSetsExt

VARIABLES hist, phist
hvars == <<c, ss, steps, act, hist, phist>>

(* declarative cells: distinct filtered sets in arrival order; a set keeps its *)
(* identity iff it is among the first L-1; all others form the overflow point  *)
Decl(lim, st, h) ==
  LET m == Mode(st.agg, st.kind)
      N == Len(h)
      fs == [j \in 1..N |-> Filtered(st.filt, h[j].attrs)]
      kept == IF lim <= 0 THEN {fs[j] : j \in 1..N}
              ELSE {fs[j] : j \in {x \in 1..N : Cardinality({fs[y] : y \in 1..x}) <= lim - 1}}
      keyOf(j) == IF fs[j] \in kept THEN [ovf |-> FALSE, attrs |-> fs[j]] ELSE OvfKey
      idx(key) == {j \in 1..N : keyOf(j) = key}
      cell(key) == LET I == idx(key) IN
                   Shape(m, [ovf |-> key.ovf, attrs |-> key.attrs, n |-> Cardinality(I),
                             s |-> MapThenSumSet(LAMBDA j : h[j].v, I),
                             l |-> h[Max(I)].v,
                             mn |-> Min({h[j].v : j \in I}), mx |-> Max({h[j].v : j \in I})])
  IN {cell(key) : key \in {keyOf(j) : j \in 1..N}}

(* views, declaratively (per configuration, independent of Table/Feeds order):  *)
(* an instrument feeds exactly one aggregator per DISTINCT identity among the    *)
(* streams of its matching views (the default stream when none matches), and    *)
(* nothing else; aggregator identities are pairwise distinct; an instrument     *)
(* selected by no view is untouched by every view                               *)
Matching(cf, i) == {x \in 1..Len(cf.views) : Match(cf.views[x], i)}
Wanted(cf, i) == IF Matching(cf, i) = {} THEN {Id(DefaultStream(i))}
                 ELSE {Id(StreamOf(cf.views[x], i)) : x \in Matching(cf, i)}
ViewsDecl(k) ==
  LET cf == CfgTab[k]
      tab == Tabs[k]
  IN /\ \A x, y \in 1..Len(tab) : Id(tab[x]) = Id(tab[y]) => x = y
     /\ \A j \in 1..Len(cf.insts) :
          /\ {Id(tab[t]) : t \in FMaps[k][j]} = Wanted(cf, cf.insts[j])
          /\ Cardinality(FMaps[k][j]) = Cardinality(Wanted(cf, cf.insts[j]))
          /\ (Matching(cf, cf.insts[j]) = {} =>
                \A t \in FMaps[k][j] : tab[t].agg = DefaultAgg(cf.insts[j].kind) /\ ~tab[t].filt.on
                                        /\ tab[t].unit = cf.insts[j].unit /\ tab[t].desc = cf.insts[j].desc)
     /\ \A t \in 1..Len(tab) : \E j \in 1..Len(cf.insts) : t \in FMaps[k][j]
ASSUME \A k \in 1..NCfg : ViewsDecl(k)

HInit == Init /\ hist = <<>> /\ phist = <<>>
HNext == /\ Next
         /\ CASE act'.op = "S" -> (hist' = [t \in 1..Len(ss') |-> <<>>] /\ phist' = hist')
              [] act'.op = "M" -> (/\ hist' = [t \in 1..Len(Tab) |->
                                                IF t \in FMaps[c][act'.i]
                                                THEN Append(hist[t], [attrs |-> act'.attrs, v |-> act'.v]) ELSE hist[t]]
                                   /\ UNCHANGED phist)
              [] act'.op = "C" -> (/\ hist' = [t \in 1..Len(Tab) |->
                                                LET m == Mode(Tab[t].agg, Tab[t].kind) IN
                                                IF m \in {"psum", "plast"} \/ Cfg.temp = "delta" THEN <<>> ELSE hist[t]]
                                   /\ phist' = [t \in 1..Len(Tab) |->
                                                IF Mode(Tab[t].agg, Tab[t].kind) = "psum" /\ Cfg.temp = "delta"
                                                THEN hist[t] ELSE <<>>])
HSpec == HInit /\ [][HNext]_hvars
HView == <<c, ss, hist, phist>>

(* operational cells = declarative cells, for every history *)
DeclEq == c # 0 => \A t \in Live : ss[t].cells = Decl(L, Tab[t], hist[t])
(* nothing lost, nothing duplicated: counts and sums of all delivered measurements *)
Conserved == c # 0 => \A t \in Live :
   LET m == Mode(Tab[t].agg, Tab[t].kind) IN
   /\ (m = "hist" => MapThenSumSet(LAMBDA x : x.n, ss[t].cells) = Len(hist[t]))
   /\ (m \in {"sum", "psum", "hist"} =>
         MapThenSumSet(LAMBDA x : x.s, ss[t].cells) = MapThenSumSet(LAMBDA j : hist[t][j].v, 1..Len(hist[t])))
(* reported values: a point per cell; pre-computed sums under delta report the *)
(* change against the same reported set of the preceding cycle (0 if absent)   *)
PrevDecl(t, x) == LET P == Decl(L, Tab[t], phist[t]) IN
                  IF \E p \in P : SameKey(p, x) THEN (CHOOSE p \in P : SameKey(p, x)).s ELSE 0
ReportDecl == c # 0 => \A t \in Live :
   LET m == Mode(Tab[t].agg, Tab[t].kind)
       M == {mm \in Report(Cfg, Tab, ss) : MKey(mm) = RKey(Tab[t])}
   IN IF hist[t] = <<>> THEN M = {}
      ELSE /\ Cardinality(M) = 1
           /\ LET mm == CHOOSE mm \in M : TRUE IN
              /\ Cardinality(mm.pts) = Cardinality(ss[t].cells)
              /\ \A x \in ss[t].cells : \E p \in mm.pts :
                   /\ SameKey(p, x)
                   /\ (m = "sum" => p.s = x.s)
                   /\ (m = "psum" => p.s = x.s - (IF Cfg.temp = "delta" THEN PrevDecl(t, x) ELSE 0))
                   /\ (m \in {"last", "plast"} => p.l = x.l)
                   /\ (m = "hist" => (p.n = x.n /\ p.mn = x.mn /\ p.mx = x.mx /\ p.s = IF HasSum(Tab[t].kind) THEN x.s ELSE 0))
(* conservation as seen by the reader: cumulative pre-computed and all          *)
(* synchronous streams report exactly the total of what they were fed           *)
ReportedTotal == c # 0 => \A mm \in Report(Cfg, Tab, ss) :
   \A t \in Live : RKey(Tab[t]) = MKey(mm) =>
      LET m == Mode(Tab[t].agg, Tab[t].kind) IN
      /\ (m = "hist" => MapThenSumSet(LAMBDA p : p.n, mm.pts) = Len(hist[t]))
      /\ ((m = "sum" \/ (m = "psum" /\ Cfg.temp = "cumulative") \/ (m = "hist" /\ HasSum(Tab[t].kind))) =>
            MapThenSumSet(LAMBDA p : p.s, mm.pts) = MapThenSumSet(LAMBDA j : hist[t][j].v, 1..Len(hist[t])))
(* every reported metric belongs to exactly one stream *)
ReportOwned == c # 0 => \A mm \in Report(Cfg, Tab, ss) : Cardinality({t \in Live : RKey(Tab[t]) = MKey(mm)}) = 1
HInv == Inv /\ DeclEq /\ ReportOwned /\ Conserved /\ ReportDecl /\ ReportedTotal
=============================================================================
