SPECIFICATION Spec
CONSTANTS
  Keys <- MCKeys
INVARIANT Inv
CHECK_DEADLOCK FALSE
