----------------------------- MODULE Cardinality -----------------------------
(* State machine over CardModel for exhaustive exploration by TLC (C12).       *)
(* Setup(k) builds a provider for configuration Configs[k]; Measure records    *)
(* one value under one attribute set on one instrument (for asynchronous       *)
(* instruments: one observation made by the callback of the next collection of *)
(* each reader); Collect(r) is one collection cycle of reader r.  Every        *)
(* explored edge is printed (EDGE json) and replayed through the public API of *)
(* the real SDK; `peek[r]` is what a collection by reader r issued in that     *)
(* state must return.                                                          *)
EXTENDS CardModel, TLC, Json

CONSTANTS Configs,    \* sequence of configurations
          Sets,       \* attribute sets measurements may carry
          MaxSteps    \* bound on Measure/Collect steps after Setup

VARIABLES c,          \* 0 = nothing built yet, else index into Configs
          ss,         \* ss[r][t]: aggregator state of reader r per entry of its Table
          steps, act
vars == <<c, ss, steps, act>>

(* TLC re-evaluates a constant that is overridden by a definition (Configs <-    *)
(* MCConfigs) at every reference; constant-level definitions of this module are *)
(* evaluated once, so everything below goes through these tables               *)
CfgTab == TLCEval(Configs)
SetTab == TLCEval(Sets)
NCfg == Len(CfgTab)
ASSUME \A k \in 1..NCfg : InDomain(CfgTab[k])

(* views, streams and identities are resolved once per configuration and reader *)
(* (constant level definitions are evaluated once by TLC; TLCEval turns the     *)
(* lazily evaluated function constructors into tables)                         *)
NR(k) == Len(CfgTab[k].readers)
Tabs == TLCEval([k \in 1..NCfg |-> TLCEval([r \in 1..NR(k) |-> TLCEval(Table(CfgTab[k], CfgTab[k].readers[r]))])])
FMaps == TLCEval([k \in 1..NCfg |-> TLCEval([r \in 1..NR(k) |->
                    TLCEval([i \in 1..Len(CfgTab[k].insts) |->
                               TLCEval(Feeds(CfgTab[k], CfgTab[k].readers[r], Tabs[k][r], i))])])])
Cfg == CfgTab[c]
Rds == 1..NR(c)
Tab(r) == Tabs[c][r]
Temp(r) == Cfg.readers[r].temp
ValsOf(kind) == IF kind \in {"updown", "oupdown"} THEN {-1, 2} ELSE {1, 2}

Init == c = 0 /\ ss = <<>> /\ steps = 0 /\ act = [op |-> "Init"]

Setup(k) == /\ c = 0
            /\ c' = k
            /\ ss' = [r \in 1..NR(k) |-> [t \in 1..Len(Tabs[k][r]) |-> NewAgg]]
            /\ steps' = 0
            /\ act' = [op |-> "S", cfg |-> CfgTab[k]]

(* one measurement (for an observable: one observation its callback makes at    *)
(* the next collection of each reader) reaches the matching streams of EVERY    *)
(* reader exactly once                                                          *)
Measure(i, a, v) == /\ steps < MaxSteps
                    /\ ss' = [r \in Rds |-> ApplyF(Cfg.limit, Tab(r), FMaps[c][r][i], ss[r], a, v)]
                    /\ steps' = steps + 1
                    /\ act' = [op |-> "M", i |-> i, attrs |-> a, v |-> v]
                    /\ UNCHANGED c

(* reader r collects: only its own aggregators are reported and reset; the      *)
(* collections of different readers interleave arbitrarily                      *)
Collect(r) == /\ steps < MaxSteps
              /\ ss' = [ss EXCEPT ![r] = Reset(Temp(r), Tab(r), ss[r])]
              /\ steps' = steps + 1
              /\ act' = [op |-> "C", r |-> r]
              /\ UNCHANGED c

Next == \/ \E k \in 1..NCfg : Setup(k)
        \/ (c # 0 /\ \E i \in 1..Len(Cfg.insts), a \in SetTab : \E v \in ValsOf(Cfg.insts[i].kind) : Measure(i, a, v))
        \/ (c # 0 /\ \E r \in Rds : Collect(r))
Spec == Init /\ [][Next]_vars

View == <<c, ss>>
(* peek[r] = what a collection by reader r issued in this state must return *)
Peek(k, s) == [r \in 1..NR(k) |-> Report(CfgTab[k].readers[r].temp, Tabs[k][r], s[r])]
Proj(k, s) == [c |-> k, ss |-> s, peek |-> IF k = 0 THEN <<>> ELSE Peek(k, s)]
EmitEdge == PrintT("EDGE " \o ToJson([from |-> Proj(c, ss), act |-> act', to |-> Proj(c', ss')]))

-----------------------------------------------------------------------------
(* the statement on every reachable model state *)
L == Cfg.limit
Live(r) == {t \in 1..Len(Tab(r)) : Mode(Tab(r)[t].agg, Tab(r)[t].kind) # "drop"}
Rep(r) == Report(Temp(r), Tab(r), ss[r])
Bound == c # 0 => \A r \in Rds : \A t \in Live(r) :
            LET cs == ss[r][t].cells IN
            /\ (L > 0 => Cardinality(cs) <= L)
            /\ (L > 0 => Cardinality({x \in cs : ~x.ovf}) <= L - 1)
            /\ Cardinality({x \in cs : x.ovf}) <= 1
            /\ \A x \in cs : x.ovf => (x.attrs = NoAttrs /\ L > 0)
            /\ \A x, y \in cs : (x.ovf = y.ovf /\ x.attrs = y.attrs) => x = y
ReportBound == c # 0 => \A r \in Rds : \A m \in Rep(r) : (L > 0 => Cardinality(m.pts) <= L) /\ m.pts # {}
DropSilent == c # 0 => \A r \in Rds : \A m \in Rep(r) : m.agg # "drop"
Inv == Bound /\ ReportBound /\ DropSilent
=============================================================================
