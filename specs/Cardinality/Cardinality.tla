----------------------------- MODULE Cardinality -----------------------------
(* State machine over CardModel for exhaustive exploration by TLC (C12).       *)
(* Setup(k) builds a provider for configuration Configs[k]; Measure records    *)
(* one value under one attribute set on one instrument (for asynchronous       *)
(* instruments: one observation made by the callback of the next collection);  *)
(* Collect is one collection cycle of the reader.  Every explored edge is      *)
(* printed (EDGE json) and replayed through the public API of the real SDK;    *)
(* `peek` is what a collection issued in that state must return.               *)
EXTENDS CardModel, TLC, Json

CONSTANTS Configs,    \* sequence of configurations
          Sets,       \* attribute sets measurements may carry
          MaxSteps    \* bound on Measure/Collect steps after Setup

VARIABLES c,          \* 0 = nothing built yet, else index into Configs
          ss,         \* aggregator state per entry of Table(Configs[c])
          steps, act
vars == <<c, ss, steps, act>>

(* TLC re-evaluates a constant that is overridden by a definition (Configs <-    *)
(* MCConfigs) at every reference; constant-level definitions of this module are *)
(* evaluated once, so everything below goes through these tables               *)
CfgTab == TLCEval(Configs)
SetTab == TLCEval(Sets)
NCfg == Len(CfgTab)
ASSUME \A k \in 1..NCfg : InDomain(CfgTab[k])

(* views, streams and identities are resolved once per configuration (constant *)
(* level definitions are evaluated once by TLC; TLCEval turns the lazily        *)
(* evaluated function constructors into tables)                                *)
Tabs == TLCEval([k \in 1..NCfg |-> TLCEval(Table(CfgTab[k]))])
FMaps == TLCEval([k \in 1..NCfg |->
                    TLCEval([i \in 1..Len(CfgTab[k].insts) |-> TLCEval(Feeds(CfgTab[k], Tabs[k], i))])])
Cfg == CfgTab[c]
Tab == Tabs[c]
ValsOf(kind) == IF kind \in {"updown", "oupdown"} THEN {-1, 2} ELSE {1, 2}

Init == c = 0 /\ ss = <<>> /\ steps = 0 /\ act = [op |-> "Init"]

Setup(k) == /\ c = 0
            /\ c' = k
            /\ ss' = [t \in 1..Len(Tabs[k]) |-> NewAgg]
            /\ steps' = 0
            /\ act' = [op |-> "S", cfg |-> CfgTab[k]]

Measure(i, a, v) == /\ steps < MaxSteps
                    /\ ss' = ApplyF(Cfg.limit, Tab, FMaps[c][i], ss, a, v)
                    /\ steps' = steps + 1
                    /\ act' = [op |-> "M", i |-> i, attrs |-> a, v |-> v]
                    /\ UNCHANGED c

Collect == /\ steps < MaxSteps
           /\ ss' = Reset(Cfg, Tab, ss)
           /\ steps' = steps + 1
           /\ act' = [op |-> "C"]
           /\ UNCHANGED c

Next == \/ \E k \in 1..NCfg : Setup(k)
        \/ (c # 0 /\ \E i \in 1..Len(Cfg.insts), a \in SetTab : \E v \in ValsOf(Cfg.insts[i].kind) : Measure(i, a, v))
        \/ (c # 0 /\ Collect)
Spec == Init /\ [][Next]_vars

View == <<c, ss>>
Proj(k, s) == [c |-> k, ss |-> s, peek |-> IF k = 0 THEN {} ELSE Report(CfgTab[k], Tabs[k], s)]
EmitEdge == PrintT("EDGE " \o ToJson([from |-> Proj(c, ss), act |-> act', to |-> Proj(c', ss')]))

-----------------------------------------------------------------------------
(* the statement on every reachable model state *)
L == Cfg.limit
Live == {t \in 1..Len(Tab) : Mode(Tab[t].agg, Tab[t].kind) # "drop"}
Bound == c # 0 => \A t \in Live :
            /\ (L > 0 => Cardinality(ss[t].cells) <= L)
            /\ (L > 0 => Cardinality({x \in ss[t].cells : ~x.ovf}) <= L - 1)
            /\ Cardinality({x \in ss[t].cells : x.ovf}) <= 1
            /\ \A x \in ss[t].cells : x.ovf => (x.attrs = NoAttrs /\ L > 0)
            /\ \A x, y \in ss[t].cells : (x.ovf = y.ovf /\ x.attrs = y.attrs) => x = y
ReportBound == c # 0 => \A m \in Report(Cfg, Tab, ss) : (L > 0 => Cardinality(m.pts) <= L) /\ m.pts # {}
DropSilent == c # 0 => \A m \in Report(Cfg, Tab, ss) : m.agg # "drop"
Inv == Bound /\ ReportBound /\ DropSilent
=============================================================================
