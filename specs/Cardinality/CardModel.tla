------------------------------ MODULE CardModel ------------------------------
(* Reference model of one metric pipeline (C12): instruments, views (instrument *)
(* selection criteria, rename, re-aggregate, attribute filter, drop), stream   *)
(* identity and the aggregator cache, the cardinality limit with its overflow  *)
(* attribute set, delta / cumulative collection.  Transcribed from the         *)
(* property statement, the doc comments of sdkmetric.Instrument / Stream /     *)
(* NewView and the OTel metrics SDK specification (sections View, Duplicate    *)
(* instrument registration, Cardinality limits, Aggregations), not from the Go *)
(* code.  Pure operators only; Cardinality.tla is the state machine TLC        *)
(* explores, CardinalityH.tla adds the declarative statement,                  *)
(* Trace_Cardinality.tla validates real executions.                            *)
(*                                                                            *)
(* attribute set : function Keys -> Nat, 0 = key absent                       *)
(* cfg  : [limit, readers : Seq Reader, insts : Seq Inst, views : Seq View]     *)
(* Reader : [temp, sel]  sel = the reader's aggregation selector, a record     *)
(*         kind -> "" (default) | drop | sum | last | hist | expo.  Every      *)
(*         reader owns its own aggregators; the views are shared               *)
(* Inst : [name, kind, num, unit, desc, sn, sv, su, cb]   (sn/sv/su = name,    *)
(*         version and schema URL of the instrumentation scope = the Meter;    *)
(*         cb = how an observable gets its callback: "opt" (WithXCallback) or  *)
(*         "reg" (Meter.RegisterCallback), "" for synchronous instruments;     *)
(*         the statement does not distinguish them)                            *)
(* View : selection criteria, "" = not given:                                  *)
(*           mname (exact name or pattern with * and ?), mkind, munit, mdesc,  *)
(*           msn, msv, msu                                                     *)
(*        stream mask, "" = keep the instrument's: name, unit, desc;           *)
(*           agg ("" | default | drop | sum | last | hist | expo),             *)
(*           filt [on, keep : Seq key]                                         *)
EXTENDS Integers, Sequences, FiniteSets, SequencesExt

CONSTANT Keys

NoAttrs == [k \in Keys |-> 0]
Rng(s) == {s[i] : i \in DOMAIN s}
Norm(a) == [k \in Keys |-> a[k]]
NoFilter == [on |-> FALSE, keep |-> <<>>]
KeepSet(f) == {f.keep[i] : i \in DOMAIN f.keep}
(* Attribute VALUES are typed: a value is (type, textual form).  Values >= 1000 *)
(* spell that out, v = 1000 * type + n:                                        *)
(*   type 1 int n   2 string "n"   3 float64 n   4 one-element int slice [n]   *)
(*        5 string "[n]"   6 bool (n = 1 true, n = 2 false)   7 string "true"  *)
(*        / "false"                                                            *)
(* Values 1..999 are untyped tokens (one representation per run, chosen by the *)
(* harness).  Types 1-3, 4-5 and 6-7 print alike (VText) but are DIFFERENT      *)
(* values: "streams that become identical" means the same key -> typed value    *)
(* mapping, i.e. equality of the functions below - never equality of what an    *)
(* encoder or fmt prints.  SameText / TextTwins name the class: sets a # b      *)
(* whose values print alike under every key.                                   *)
Typed(v) == v >= 1000
VType(v) == v \div 1000
TextClass(t) == CASE t \in {1, 2, 3} -> "scalar" [] t \in {4, 5} -> "list" [] OTHER -> "bool"
VText(v) == IF ~Typed(v) THEN <<"token", v>> ELSE <<TextClass(VType(v)), v % 1000>>
SameText(a, b) == \A k \in Keys : VText(a[k]) = VText(b[k])
TextTwins(a, b) == a # b /\ SameText(a, b)
(* a view's attribute filter reports a measurement under its filtered set *)
Filtered(f, a) == IF f.on THEN [k \in Keys |-> IF k \in KeepSet(f) THEN a[k] ELSE 0] ELSE Norm(a)

-----------------------------------------------------------------------------
(* kinds, aggregations *)
SumKinds == {"counter", "updown", "ocounter", "oupdown"}
DefaultAgg(kind) == CASE kind \in SumKinds -> "sum"
                      [] kind = "histogram" -> "hist"
                      [] kind \in {"gauge", "ogauge"} -> "last"
IsObs(kind) == kind \in {"ocounter", "oupdown", "ogauge"}
(* WithAggregationSelector: the reader chooses the aggregation by instrument    *)
(* kind unless a matching view passes one explicitly; AggregationDefault in a   *)
(* view "ensures the default is used" whatever the reader selects               *)
ReaderAgg(rd, kind) == IF rd.sel[kind] \in {"", "default"} THEN DefaultAgg(kind) ELSE rd.sel[kind]
Resolve(agg, kind, rd) == CASE agg = "" -> ReaderAgg(rd, kind)
                            [] agg = "default" -> DefaultAgg(kind)
                            [] OTHER -> agg
(* how the aggregator of a stream behaves over collection cycles:              *)
(*   sum/last/hist : synchronous style, kept for the lifetime when cumulative, *)
(*                   reset by every delta collection                           *)
(*   psum/plast    : asynchronous (pre-computed) style: every cycle reports    *)
(*                   what that cycle's callbacks observed                      *)
Mode(agg, kind) == CASE agg = "drop" -> "drop"
                     [] agg = "sum" /\ kind \in {"ocounter", "oupdown"} -> "psum"
                     [] agg = "sum" -> "sum"
                     [] agg = "last" /\ kind = "ogauge" -> "plast"
                     [] agg = "last" -> "last"
                     [] agg \in {"hist", "expo"} -> "hist"
Compatible(agg, kind) == CASE agg = "sum" -> kind \notin {"gauge", "ogauge"}
                           [] agg = "last" -> kind \in {"gauge", "ogauge"}
                           [] OTHER -> TRUE
(* histogram sum is not collected for instruments that may record negatives *)
HasSum(kind) == kind \in {"counter", "histogram", "ocounter"}
Mono(kind) == kind \in {"counter", "histogram", "ocounter"}

-----------------------------------------------------------------------------
(* strings are sequences of characters: names are matched and compared        *)
(* character by character                                                      *)
Ch(s, j) == SubSeq(s, j, j)
Rest(s) == SubSeq(s, 2, Len(s))
U2L == [A |-> "a", B |-> "b", C |-> "c", D |-> "d", E |-> "e", F |-> "f", G |-> "g", H |-> "h", I |-> "i",
        J |-> "j", K |-> "k", L |-> "l", M |-> "m", N |-> "n", O |-> "o", P |-> "p", Q |-> "q", R |-> "r",
        S |-> "s", T |-> "t", U |-> "u", V |-> "v", W |-> "w", X |-> "x", Y |-> "y", Z |-> "z"]
RECURSIVE Lower(_)
Lower(s) == IF Len(s) = 0 THEN ""
            ELSE (IF Ch(s, 1) \in DOMAIN U2L THEN U2L[Ch(s, 1)] ELSE Ch(s, 1)) \o Lower(Rest(s))
(* NewView: "The Name field of criteria supports wildcard pattern matching.    *)
(* The * wildcard is recognized as matching zero or more characters, and ? is  *)
(* recognized as matching exactly one character."  Without a wildcard this is  *)
(* equality.                                                                   *)
RECURSIVE Glob(_, _)
Glob(p, s) == IF Len(p) = 0 THEN Len(s) = 0
              ELSE IF Ch(p, 1) = "*" THEN Glob(Rest(p), s) \/ (Len(s) > 0 /\ Glob(p, Rest(s)))
              ELSE /\ Len(s) > 0
                   /\ (Ch(p, 1) = "?" \/ Ch(p, 1) = Ch(s, 1))
                   /\ Glob(Rest(p), Rest(s))
HasWild(p) == \E j \in 1..Len(p) : Ch(p, j) \in {"*", "?"}

-----------------------------------------------------------------------------
(* views -> streams -> aggregators (stream identity cache) *)
(* NewView: "The returned View will only apply mask if all non-zero-value      *)
(* fields of criteria match the corresponding Instrument passed to the view.   *)
(* If no criteria are provided ... a view that matches no instruments is       *)
(* returned."  SDK specification: the criteria are additive (name, type, unit, *)
(* meter name, meter version, meter schema URL).                               *)
NoCriteria(v) == /\ v.mname = "" /\ v.mkind = "" /\ v.munit = "" /\ v.mdesc = ""
                 /\ v.msn = "" /\ v.msv = "" /\ v.msu = ""
Match(v, i) == /\ ~NoCriteria(v)
               /\ (v.mname = "" \/ Glob(v.mname, i.name))
               /\ v.mkind \in {"", i.kind}
               /\ v.munit \in {"", i.unit}
               /\ v.mdesc \in {"", i.desc}
               /\ v.msn \in {"", i.sn}
               /\ v.msv \in {"", i.sv}
               /\ v.msu \in {"", i.su}
(* "The Stream mask only applies updates for non-zero-value fields. By default *)
(* the Instrument the View matches against will be use for the Name,           *)
(* Description, and Unit of the returned Stream and no Aggregation or          *)
(* AttributeFilter are set."                                                   *)
NonZero(x, alt) == IF x = "" THEN alt ELSE x
StreamOf(v, i, rd) == [name |-> NonZero(v.name, i.name), lname |-> Lower(NonZero(v.name, i.name)), desc |-> NonZero(v.desc, i.desc), unit |-> NonZero(v.unit, i.unit),
                   kind |-> i.kind, num |-> i.num, sn |-> i.sn, sv |-> i.sv, su |-> i.su,
                   agg |-> Resolve(v.agg, i.kind, rd), filt |-> v.filt]
DefaultStream(i, rd) == [name |-> i.name, lname |-> Lower(i.name), desc |-> i.desc, unit |-> i.unit,
                     kind |-> i.kind, num |-> i.num, sn |-> i.sn, sv |-> i.sv, su |-> i.su,
                     agg |-> ReaderAgg(rd, i.kind), filt |-> NoFilter]
(* every matching view yields a stream; no match -> the default stream *)
InstStreams(cfg, rd, i) ==
  LET m == SelectSeq(cfg.views, LAMBDA v : Match(v, i))
  IN IF Len(m) = 0 THEN <<DefaultStream(i, rd)>> ELSE [j \in 1..Len(m) |-> StreamOf(m[j], i, rd)]
(* identity of a stream inside one Meter: names are case-insensitive; streams  *)
(* (lname = the name in lower case, computed once per stream); streams         *)
(* with one identity are one stream (one aggregator, every measurement counted *)
(* once); streams that differ in any identifying field are distinct streams    *)
(* that are all exported, also when they share the name (the SDK only warns)   *)
Id(s) == [name |-> s.lname, desc |-> s.desc, unit |-> s.unit, kind |-> s.kind, num |-> s.num,
          sn |-> s.sn, sv |-> s.sv, su |-> s.su]
(* what identifies a reported metric for a reader (a collected metric does not *)
(* carry the instrument kind)                                                  *)
RKey(s) == [name |-> s.lname, desc |-> s.desc, unit |-> s.unit, num |-> s.num, agg |-> s.agg,
            sn |-> s.sn, sv |-> s.sv, su |-> s.su]
Dedup(seq) == FoldLeft(LAMBDA acc, s : IF \E j \in 1..Len(acc) : Id(acc[j]) = Id(s) THEN acc ELSE Append(acc, s),
                       <<>>, seq)
AllStreams(cfg, rd) == FlattenSeq([j \in 1..Len(cfg.insts) |-> InstStreams(cfg, rd, cfg.insts[j])])
(* per reader: one aggregator per stream identity, in order of creation *)
Table(cfg, rd) == Dedup(AllStreams(cfg, rd))
(* aggregators of reader rd fed by instrument number i: each identity once (no duplication) *)
Feeds(cfg, rd, tab, i) == {t \in 1..Len(tab) : \E s \in Rng(InstStreams(cfg, rd, cfg.insts[i])) : Id(s) = Id(tab[t])}
(* configurations on which statement, documentation and SDK specification are  *)
(* silent (or allow several behaviours) are kept out of every driver:          *)
(*  - two streams with one identity but different aggregation or filter        *)
(*  - aggregations an instrument kind cannot use                               *)
(*  - two distinct streams a reader could not tell apart (differ in kind only) *)
(*  - a renaming view that selects by wildcard (the SDK "MAY fail fast")       *)
(*  - a name criterion that matches an instrument only up to letter case       *)
(*  - instruments without a name / Meter name, or with wildcard characters     *)
(*  - observables that share an aggregator although they are different         *)
(*    instruments must report through one multi-instrument callback ("reg"):    *)
(*    the order of observations of separate callbacks is not specified          *)
InDomainR(cfg, rd) ==
  LET all == AllStreams(cfg, rd)
  IN /\ \A x, y \in 1..Len(all) : Id(all[x]) = Id(all[y]) =>
            (all[x].agg = all[y].agg /\ all[x].filt.on = all[y].filt.on /\ KeepSet(all[x].filt) = KeepSet(all[y].filt))
     /\ \A x \in 1..Len(all) : Compatible(all[x].agg, all[x].kind)
     /\ \A x, y \in 1..Len(all) : RKey(all[x]) = RKey(all[y]) => Id(all[x]) = Id(all[y])
     /\ \A x, y \in 1..Len(cfg.insts) :
          LET ix == cfg.insts[x]
              iy == cfg.insts[y]
          IN (ix # iy /\ IsObs(ix.kind) /\ IsObs(iy.kind)
              /\ \E s \in Rng(InstStreams(cfg, rd, ix)), u \in Rng(InstStreams(cfg, rd, iy)) : Id(s) = Id(u))
             => (ix.cb = "reg" /\ iy.cb = "reg")
InDomain(cfg) ==
     /\ Len(cfg.readers) >= 1
     /\ \A r \in 1..Len(cfg.readers) : InDomainR(cfg, cfg.readers[r])
     /\ \A x \in 1..Len(cfg.views) : HasWild(cfg.views[x].mname) => cfg.views[x].name = ""
     /\ \A x \in 1..Len(cfg.views), y \in 1..Len(cfg.insts) :
            (cfg.views[x].mname # "" /\ Glob(Lower(cfg.views[x].mname), Lower(cfg.insts[y].name)))
               => Glob(cfg.views[x].mname, cfg.insts[y].name)
     /\ \A y \in 1..Len(cfg.insts) :
            /\ cfg.insts[y].name # "" /\ cfg.insts[y].sn # "" /\ ~HasWild(cfg.insts[y].name)
            /\ cfg.insts[y].cb \in (IF IsObs(cfg.insts[y].kind) THEN {"opt", "reg"} ELSE {""})

-----------------------------------------------------------------------------
(* one aggregator: a set of cells, at most one per reported attribute set *)
OvfKey == [ovf |-> TRUE, attrs |-> NoAttrs]
SameKey(c, key) == c.ovf = key.ovf /\ c.attrs = key.attrs
(* the cardinality limit: the first L-1 distinct sets keep their identity,     *)
(* everything else is recorded under otel.metric.overflow=true                 *)
Admit(L, cells, a) ==
  IF \/ L <= 0
     \/ \E c \in cells : ~c.ovf /\ c.attrs = a
     \/ Cardinality({c \in cells : ~c.ovf}) < L - 1
  THEN [ovf |-> FALSE, attrs |-> a] ELSE OvfKey
(* a cell tracks only what its aggregation reports: sums the sum, last-value  *)
(* the last value, histograms count, sum, min and max                          *)
Shape(m, c) == CASE m \in {"sum", "psum"} -> [c EXCEPT !.n = 0, !.l = 0, !.mn = 0, !.mx = 0]
                 [] m \in {"last", "plast"} -> [c EXCEPT !.n = 0, !.s = 0, !.mn = 0, !.mx = 0]
                 [] m = "hist" -> [c EXCEPT !.l = 0]
Upd(m, cells, key, v) ==
  IF \E c \in cells : SameKey(c, key)
  THEN {IF SameKey(c, key)
        THEN Shape(m, [c EXCEPT !.n = @ + 1, !.s = @ + v, !.l = v,
                                !.mn = IF v < @ THEN v ELSE @, !.mx = IF v > @ THEN v ELSE @])
        ELSE c : c \in cells}
  ELSE cells \cup {Shape(m, [ovf |-> key.ovf, attrs |-> key.attrs, n |-> 1, s |-> v, l |-> v, mn |-> v, mx |-> v])}

NewAgg == [cells |-> {}, prev |-> {}]
(* filter first, then the limit on the filtered (= reported) sets *)
Feed(L, st, ag, a, v) ==
  IF Mode(st.agg, st.kind) = "drop" THEN ag
  ELSE LET fa == Filtered(st.filt, a)
       IN [ag EXCEPT !.cells = Upd(Mode(st.agg, st.kind), @, Admit(L, ag.cells, fa), v)]

PrevS(prev, c) == IF \E p \in prev : SameKey(p, c) THEN (CHOOSE p \in prev : SameKey(p, c)).s ELSE 0
Pt(st, temp, ag, c) ==
  LET m == Mode(st.agg, st.kind)
      z == [ovf |-> c.ovf, attrs |-> c.attrs, n |-> 0, s |-> 0, l |-> 0, mn |-> 0, mx |-> 0]
  IN CASE m = "sum" -> [z EXCEPT !.s = c.s]
       [] m = "psum" -> [z EXCEPT !.s = IF temp = "delta" THEN c.s - PrevS(ag.prev, c) ELSE c.s]
       [] m \in {"last", "plast"} -> [z EXCEPT !.l = c.l]
       [] m = "hist" -> [z EXCEPT !.n = c.n, !.s = IF HasSum(st.kind) THEN c.s ELSE 0, !.mn = c.mn, !.mx = c.mx]
MetricOf(st, temp, ag) ==
  [name |-> st.lname, desc |-> st.desc, unit |-> st.unit, sn |-> st.sn, sv |-> st.sv, su |-> st.su,
   num |-> st.num, agg |-> st.agg,
   temp |-> IF st.agg = "last" THEN "" ELSE temp,
   mono |-> (st.agg = "sum" /\ Mono(st.kind)),
   pts |-> {Pt(st, temp, ag, c) : c \in ag.cells}]
(* the reported metric(s) of stream st among a set / the key of a reported metric *)
MKey(m) == [name |-> m.name, desc |-> m.desc, unit |-> m.unit, num |-> m.num, agg |-> m.agg,
            sn |-> m.sn, sv |-> m.sv, su |-> m.su]
(* what a collection returns: every stream that holds data; drop reports nothing *)
Report(temp, tab, ss) ==
  {MetricOf(tab[t], temp, ss[t]) : t \in {u \in 1..Len(tab) : Mode(tab[u].agg, tab[u].kind) # "drop" /\ ss[u].cells # {}}}
AfterCollect(st, temp, ag) ==
  LET m == Mode(st.agg, st.kind)
  IN CASE m \in {"sum", "last", "hist"} -> IF temp = "delta" THEN NewAgg ELSE ag
       [] m = "psum" -> [cells |-> {}, prev |-> IF temp = "delta"
                                                 THEN {[ovf |-> c.ovf, attrs |-> c.attrs, s |-> c.s] : c \in ag.cells}
                                                 ELSE {}]
       [] m = "plast" -> NewAgg
       [] m = "drop" -> ag
Reset(temp, tab, ss) == [t \in 1..Len(tab) |-> AfterCollect(tab[t], temp, ss[t])]

(* one measurement on instrument i: delivered once to every aggregator it feeds *)
ApplyF(lim, tab, fd, ss, a, v) ==
  [t \in 1..Len(tab) |-> IF t \in fd THEN Feed(lim, tab[t], ss[t], a, v) ELSE ss[t]]
FeedMap(cfg, rd, tab) == [i \in 1..Len(cfg.insts) |-> Feeds(cfg, rd, tab, i)]
ApplyAll(lim, tab, fm, ss, ops) ==
  FoldLeft(LAMBDA acc, o : ApplyF(lim, tab, fm[o.i], acc, o.attrs, o.v), ss, ops)
=============================================================================
