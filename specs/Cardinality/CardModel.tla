------------------------------ MODULE CardModel ------------------------------
(* Reference model of one metric pipeline (C12): instruments, views (match,   *)
(* rename, re-aggregate, attribute filter, drop), the stream identity cache,  *)
(* the cardinality limit with its overflow attribute set, delta / cumulative  *)
(* collection.  Transcribed from the property statement and the OTel metrics  *)
(* SDK specification (sections View, Cardinality limits, Aggregations), not   *)
(* from the Go code.  Pure operators only; Cardinality.tla is the state       *)
(* machine TLC explores, CardinalityH.tla adds the declarative statement,     *)
(* Trace_Cardinality.tla validates real executions.                           *)
(*                                                                            *)
(* attribute set : function Keys -> Nat, 0 = key absent                       *)
(* cfg  : [limit, temp, insts : Seq [name,kind,num], views : Seq View]        *)
(* View : [mname ("" | "*" | instrument name), mkind ("" | kind),             *)
(*         name ("" = keep), agg ("" | default | drop | sum | last | hist |   *)
(*         expo), filt [on, keep : Seq key]]                                  *)
EXTENDS Integers, Sequences, FiniteSets, SequencesExt

CONSTANT Keys

NoAttrs == [k \in Keys |-> 0]
Rng(s) == {s[i] : i \in DOMAIN s}
Norm(a) == [k \in Keys |-> a[k]]
NoFilter == [on |-> FALSE, keep |-> <<>>]
KeepSet(f) == {f.keep[i] : i \in DOMAIN f.keep}
(* a view's attribute filter reports a measurement under its filtered set *)
Filtered(f, a) == IF f.on THEN [k \in Keys |-> IF k \in KeepSet(f) THEN a[k] ELSE 0] ELSE Norm(a)

-----------------------------------------------------------------------------
(* kinds, aggregations *)
SumKinds == {"counter", "updown", "ocounter", "oupdown"}
DefaultAgg(kind) == CASE kind \in SumKinds -> "sum"
                      [] kind = "histogram" -> "hist"
                      [] kind \in {"gauge", "ogauge"} -> "last"
Resolve(agg, kind) == IF agg \in {"", "default"} THEN DefaultAgg(kind) ELSE agg
(* how the aggregator of a stream behaves over collection cycles:              *)
(*   sum/last/hist : synchronous style, kept for the lifetime when cumulative, *)
(*                   reset by every delta collection                           *)
(*   psum/plast    : asynchronous (pre-computed) style: every cycle reports    *)
(*                   what that cycle's callbacks observed                      *)
Mode(agg, kind) == CASE agg = "drop" -> "drop"
                     [] agg = "sum" /\ kind \in {"ocounter", "oupdown"} -> "psum"
                     [] agg = "sum" -> "sum"
                     [] agg = "last" /\ kind = "ogauge" -> "plast"
                     [] agg = "last" -> "last"
                     [] agg \in {"hist", "expo"} -> "hist"
Compatible(agg, kind) == CASE agg = "sum" -> kind \notin {"gauge", "ogauge"}
                           [] agg = "last" -> kind \in {"gauge", "ogauge"}
                           [] OTHER -> TRUE
(* histogram sum is not collected for instruments that may record negatives *)
HasSum(kind) == kind \in {"counter", "histogram", "ocounter"}
Mono(kind) == kind \in {"counter", "histogram", "ocounter"}

-----------------------------------------------------------------------------
(* views -> streams -> aggregators (stream identity cache) *)
Match(v, i) == /\ ~(v.mname = "" /\ v.mkind = "")          \* empty criteria match nothing
               /\ v.mname \in {"", "*", i.name}
               /\ v.mkind \in {"", i.kind}
StreamOf(v, i) == [name |-> IF v.name = "" THEN i.name ELSE v.name, kind |-> i.kind, num |-> i.num,
                   agg |-> Resolve(v.agg, i.kind), filt |-> v.filt]
DefaultStream(i) == [name |-> i.name, kind |-> i.kind, num |-> i.num, agg |-> DefaultAgg(i.kind),
                     filt |-> NoFilter]
(* every matching view yields a stream; no match -> the default stream *)
InstStreams(cfg, i) ==
  LET m == SelectSeq(cfg.views, LAMBDA v : Match(v, i))
  IN IF Len(m) = 0 THEN <<DefaultStream(i)>> ELSE [j \in 1..Len(m) |-> StreamOf(m[j], i)]
Id(s) == [name |-> s.name, kind |-> s.kind, num |-> s.num]
Dedup(seq) == FoldLeft(LAMBDA acc, s : IF \E j \in 1..Len(acc) : Id(acc[j]) = Id(s) THEN acc ELSE Append(acc, s),
                       <<>>, seq)
(* one aggregator per stream identity, in order of creation *)
Table(cfg) == Dedup(FlattenSeq([j \in 1..Len(cfg.insts) |-> InstStreams(cfg, cfg.insts[j])]))
(* aggregators fed by instrument number i: each identity once (no duplication) *)
Feeds(cfg, tab, i) == {t \in 1..Len(tab) : \E s \in Rng(InstStreams(cfg, cfg.insts[i])) : Id(s) = Id(tab[t])}
(* configurations on which statement and SDK specification are silent are kept  *)
(* out of every driver: two streams with one identity but different aggregation *)
(* or filter, and aggregations an instrument kind cannot use                    *)
ConflictFree(cfg) ==
  LET all == FlattenSeq([j \in 1..Len(cfg.insts) |-> InstStreams(cfg, cfg.insts[j])])
  IN /\ \A x, y \in 1..Len(all) : Id(all[x]) = Id(all[y]) =>
            (all[x].agg = all[y].agg /\ all[x].filt.on = all[y].filt.on /\ KeepSet(all[x].filt) = KeepSet(all[y].filt))
     /\ \A x \in 1..Len(all) : Compatible(all[x].agg, all[x].kind)
     /\ \A x, y \in 1..Len(cfg.insts) : (x # y /\ cfg.insts[x].name = cfg.insts[y].name) =>
            (cfg.insts[x].kind = cfg.insts[y].kind /\ cfg.insts[x].num = cfg.insts[y].num)

-----------------------------------------------------------------------------
(* one aggregator: a set of cells, at most one per reported attribute set *)
OvfKey == [ovf |-> TRUE, attrs |-> NoAttrs]
SameKey(c, key) == c.ovf = key.ovf /\ c.attrs = key.attrs
(* the cardinality limit: the first L-1 distinct sets keep their identity,     *)
(* everything else is recorded under otel.metric.overflow=true                 *)
Admit(L, cells, a) ==
  IF \/ L <= 0
     \/ \E c \in cells : ~c.ovf /\ c.attrs = a
     \/ Cardinality({c \in cells : ~c.ovf}) < L - 1
  THEN [ovf |-> FALSE, attrs |-> a] ELSE OvfKey
(* a cell tracks only what its aggregation reports: sums the sum, last-value  *)
(* the last value, histograms count, sum, min and max                          *)
Shape(m, c) == CASE m \in {"sum", "psum"} -> [c EXCEPT !.n = 0, !.l = 0, !.mn = 0, !.mx = 0]
                 [] m \in {"last", "plast"} -> [c EXCEPT !.n = 0, !.s = 0, !.mn = 0, !.mx = 0]
                 [] m = "hist" -> [c EXCEPT !.l = 0]
Upd(m, cells, key, v) ==
  IF \E c \in cells : SameKey(c, key)
  THEN {IF SameKey(c, key)
        THEN Shape(m, [c EXCEPT !.n = @ + 1, !.s = @ + v, !.l = v,
                                !.mn = IF v < @ THEN v ELSE @, !.mx = IF v > @ THEN v ELSE @])
        ELSE c : c \in cells}
  ELSE cells \cup {Shape(m, [ovf |-> key.ovf, attrs |-> key.attrs, n |-> 1, s |-> v, l |-> v, mn |-> v, mx |-> v])}

NewAgg == [cells |-> {}, prev |-> {}]
(* filter first, then the limit on the filtered (= reported) sets *)
Feed(L, st, ag, a, v) ==
  IF Mode(st.agg, st.kind) = "drop" THEN ag
  ELSE LET fa == Filtered(st.filt, a)
       IN [ag EXCEPT !.cells = Upd(Mode(st.agg, st.kind), @, Admit(L, ag.cells, fa), v)]

PrevS(prev, c) == IF \E p \in prev : SameKey(p, c) THEN (CHOOSE p \in prev : SameKey(p, c)).s ELSE 0
Pt(st, temp, ag, c) ==
  LET m == Mode(st.agg, st.kind)
      z == [ovf |-> c.ovf, attrs |-> c.attrs, n |-> 0, s |-> 0, l |-> 0, mn |-> 0, mx |-> 0]
  IN CASE m = "sum" -> [z EXCEPT !.s = c.s]
       [] m = "psum" -> [z EXCEPT !.s = IF temp = "delta" THEN c.s - PrevS(ag.prev, c) ELSE c.s]
       [] m \in {"last", "plast"} -> [z EXCEPT !.l = c.l]
       [] m = "hist" -> [z EXCEPT !.n = c.n, !.s = IF HasSum(st.kind) THEN c.s ELSE 0, !.mn = c.mn, !.mx = c.mx]
MetricOf(st, temp, ag) ==
  [name |-> st.name, num |-> st.num, agg |-> st.agg,
   temp |-> IF st.agg = "last" THEN "" ELSE temp,
   mono |-> (st.agg = "sum" /\ Mono(st.kind)),
   pts |-> {Pt(st, temp, ag, c) : c \in ag.cells}]
(* what a collection returns: every stream that holds data; drop reports nothing *)
Report(cfg, tab, ss) ==
  {MetricOf(tab[t], cfg.temp, ss[t]) : t \in {u \in 1..Len(tab) : Mode(tab[u].agg, tab[u].kind) # "drop" /\ ss[u].cells # {}}}
AfterCollect(st, temp, ag) ==
  LET m == Mode(st.agg, st.kind)
  IN CASE m \in {"sum", "last", "hist"} -> IF temp = "delta" THEN NewAgg ELSE ag
       [] m = "psum" -> [cells |-> {}, prev |-> IF temp = "delta"
                                                 THEN {[ovf |-> c.ovf, attrs |-> c.attrs, s |-> c.s] : c \in ag.cells}
                                                 ELSE {}]
       [] m = "plast" -> NewAgg
       [] m = "drop" -> ag
Reset(cfg, tab, ss) == [t \in 1..Len(tab) |-> AfterCollect(tab[t], cfg.temp, ss[t])]

(* one measurement on instrument i: delivered once to every aggregator it feeds *)
ApplyF(lim, tab, fd, ss, a, v) ==
  [t \in 1..Len(tab) |-> IF t \in fd THEN Feed(lim, tab[t], ss[t], a, v) ELSE ss[t]]
ApplyM(cfg, tab, ss, i, a, v) == ApplyF(cfg.limit, tab, Feeds(cfg, tab, i), ss, a, v)
FeedMap(cfg, tab) == [i \in 1..Len(cfg.insts) |-> Feeds(cfg, tab, i)]
ApplyAll(cfg, tab, fm, ss, ops) ==
  FoldLeft(LAMBDA acc, o : ApplyF(cfg.limit, tab, fm[o.i], acc, o.attrs, o.v), ss, ops)
=============================================================================
