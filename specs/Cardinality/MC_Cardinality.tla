--------------------------- MODULE MC_Cardinality ---------------------------
EXTENDS Cardinality
MCKeys == @KEYS@
MCConfigs == @CONFIGS@
MCSets == @SETS@
=============================================================================
