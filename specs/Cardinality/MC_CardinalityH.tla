--------------------------- MODULE MC_CardinalityH ---------------------------
EXTENDS CardinalityH
MCKeys == @KEYS@
MCConfigs == @CONFIGS@
MCSets == @SETS@
=============================================================================
