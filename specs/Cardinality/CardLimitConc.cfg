SPECIFICATION Spec
CONSTANTS
  Procs = {1, 2, 3}
  L = @L@
  Held = @HELD@
  Relock = @RELOCK@
INVARIANT Inv
CHECK_DEADLOCK FALSE
