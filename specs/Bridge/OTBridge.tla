------------------------------ MODULE OTBridge ------------------------------
(* State machine over BridgeModel (part A, OpenTracing bridge) for exhaustive    *)
(* exploration by TLC: every sequence of <= MaxSteps OpenTracing / mixed API      *)
(* calls on <= MaxSpans spans over the configured alphabets.  Every explored      *)
(* edge is printed (EDGE json) and replayed on the real BridgeTracer with a       *)
(* recording SDK behind it (harness_x03).                                         *)
EXTENDS BridgeModel, TLC, Json

CONSTANTS Ops, MaxSpans, MaxSteps,
          Names,      \* span names; a root named "ns" is not sampled
          MaxRefs, RefTypes, Foreign,   \* Start: reference lists; Foreign = {-1} adds contexts of another tracer
          Kinds, Errs, TagLists,        \* Start: span.kind / error tag values, plain tag lists
          TagCls,                       \* SetTag value classes
          KvLists, LogVias,             \* LogFields / LogKV / Log(LogData)
          FinishLogs,                   \* FinishWithOptions: numbers of log records
          BagVals,                      \* baggage item values
          Fmts, Cars, ExCars            \* Inject / Extract formats and carriers

VARIABLES st, steps, act
vars == <<st, steps, act>>

N == Len(st.spans)
Tuples(S, lo, hi) == UNION {[1..m -> S] : m \in lo..hi}
RefTargets == (1..N) \cup (IF st.ext.ok THEN {0} ELSE {}) \cup Foreign
RefLists == Tuples({[t |-> t, to |-> x] : t \in RefTypes, x \in RefTargets}, 0, MaxRefs)
On(k) == k \in Ops

OpSet ==
  (IF On("Start") /\ N < MaxSpans THEN
      {o \in {[op |-> "Start", name |-> nm, refs |-> r, kind |-> k, err |-> e, tags |-> t] :
                 nm \in Names, r \in RefLists, k \in Kinds, e \in Errs, t \in TagLists} : ~BagConflict(st, o.refs)} ELSE {})
  \cup (IF On("OTelStart") /\ N < MaxSpans THEN {[op |-> "OTelStart", p |-> p, name |-> nm] : p \in 0..N, nm \in Names} ELSE {})
  \cup (IF On("CtxStart") /\ N < MaxSpans THEN {[op |-> "CtxStart", p |-> p, name |-> nm] : p \in 0..N, nm \in Names} ELSE {})
  \cup (IF On("Ctx") THEN {[op |-> "Ctx", i |-> i] : i \in 1..N} ELSE {})
  \cup (IF On("SetTag") THEN {[op |-> "SetTag", i |-> i, k |-> k, c |-> c] : i \in 1..N, k \in 1..NK, c \in TagCls} ELSE {})
  \cup (IF On("SetKind") THEN {[op |-> "SetKind", i |-> i, c |-> "client"] : i \in 1..N} ELSE {})
  \cup (IF On("SetErr") THEN {[op |-> "SetErr", i |-> i, c |-> c] : i \in 1..N, c \in {"true", "false"}} ELSE {})
  \cup (IF On("Log") THEN {[op |-> "Log", i |-> i, via |-> v, kvs |-> l] : i \in 1..N, v \in LogVias, l \in KvLists} ELSE {})
  \cup (IF On("SetName") THEN {[op |-> "SetName", i |-> i, name |-> nm] : i \in 1..N, nm \in Names \ {"ns"}} ELSE {})
  \cup (IF On("Finish") THEN {[op |-> "Finish", i |-> i, via |-> "plain", logs |-> 0] : i \in 1..N}
                              \cup {[op |-> "Finish", i |-> i, via |-> "opts", logs |-> n] : i \in 1..N, n \in FinishLogs} ELSE {})
  \cup (IF On("SetBag") THEN {[op |-> "SetBag", i |-> i, k |-> k, v |-> v] : i \in 1..N, k \in 1..NB, v \in BagVals} ELSE {})
  \cup (IF On("Inject") THEN
          {o \in {[op |-> "Inject", i |-> i, fmt |-> f, car |-> c] : i \in RefTargets, f \in Fmts, c \in Cars} :
              (* at most one fault per call (which error wins is not specified); TextMap over HTTP headers is a *)
              (* mismatch of the caller (key case)                                                              *)
              /\ Cardinality({x \in {"sc", "fmt", "car"} : (x = "sc" /\ o.i < 0) \/ (x = "fmt" /\ o.fmt = "binary") \/ (x = "car" /\ o.car = "bad")}) <= 1
              /\ ~(o.car = "http" /\ o.fmt = "textmap")} ELSE {})
  \cup (IF On("Extract") THEN
          {o \in {[op |-> "Extract", fmt |-> f, car |-> c] : f \in Fmts, c \in ExCars} :
              /\ ~(o.fmt = "binary" /\ o.car = "bad")
              /\ ~(o.car = "cur" /\ st.car.kind = "http" /\ o.fmt = "textmap")} ELSE {})

Init == st = Init0 /\ steps = 0 /\ act = [op |-> "Init"]
Step(o) == /\ steps < MaxSteps
           /\ st' = OTApply(st, o)
           /\ steps' = steps + 1
           /\ act' = o
Next == \E o \in OpSet : Step(o)
Spec == Init /\ [][Next]_vars

View == <<st, steps>>
EmitEdge == PrintT("EDGE " \o ToJson([from |-> st, act |-> act', to |-> st', out |-> OTOut(st, act')]))

Inv == WellFormed(st)
(* a finished span is frozen except for its baggage items; ended never decreases *)
Frozen == [][\A i \in 1..Len(st.spans) : st.spans[i].ended > 0 =>
               [st'.spans[i] EXCEPT !.bag = st.spans[i].bag] = st.spans[i]]_vars
(* OT6 as a theorem of the model: what Extract yields is what the last Inject carried *)
RoundTrip == st.ext.ok => st.ext.of \in 1..Len(st.spans)
=============================================================================
