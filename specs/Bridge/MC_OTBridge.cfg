SPECIFICATION Spec
CONSTANTS
  NK = @NK@
  NB = @NB@
  Ops <- MCOps
  MaxSpans = @MAXSPANS@
  MaxSteps = @MAXSTEPS@
  Names <- MCNames
  MaxRefs = @MAXREFS@
  RefTypes <- MCRefTypes
  Foreign <- MCForeign
  Kinds <- MCKinds
  Errs <- MCErrs
  TagLists <- MCTagLists
  TagCls <- MCTagCls
  KvLists <- MCKvLists
  LogVias <- MCLogVias
  FinishLogs <- MCFinishLogs
  BagVals <- MCBagVals
  Fmts <- MCFmts
  Cars <- MCCars
  ExCars <- MCExCars
VIEW View
ACTION_CONSTRAINT EmitEdge
INVARIANT Inv
INVARIANT RoundTrip
PROPERTIES Frozen
CHECK_DEADLOCK FALSE
