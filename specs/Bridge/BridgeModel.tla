----------------------------- MODULE BridgeModel -----------------------------
(* Reference model of the two API bridges of opentelemetry-go (growth X03):     *)
(*   A. bridge/opentracing  -- OpenTracing API calls on <= MaxSpans spans, as a  *)
(*      recording OpenTelemetry SDK sees them and as the OT API reads them back  *)
(*   B. bridge/opencensus   -- OpenCensus trace API calls, span context          *)
(*      conversions OC <-> OTel                                                 *)
(* Transcribed from the packages' godoc (doc.go, README.md, SetTag conversion    *)
(* table, "Limitations"), the OpenTracing API documentation (Inject / Extract    *)
(* errors, baggage) and the OpenTelemetry specification, "OpenTracing            *)
(* compatibility" and "OpenCensus compatibility":                                *)
(*   OT1 references: the first ChildOf reference is the parent, else (only       *)
(*       FollowsFrom references) the first reference is; every other reference   *)
(*       becomes a link that keeps its reference type (the compatibility text    *)
(*       has said both "the rest" and "all values" are links: the parent may or  *)
(*       may not be repeated as a link); references to contexts of another       *)
(*       tracer are ignored                                                      *)
(*   OT2 the initial baggage of a span is the union of the baggage of its        *)
(*       references; SetBaggageItem changes the span's own items only; children  *)
(*       started later inherit them; BaggageItem/ForeachBaggageItem read them    *)
(*   OT3 tags: `span.kind` selects the span kind at creation only; `error`       *)
(*       true -> status Error; false -> status Ok (compatibility text) or no     *)
(*       status at all (what the package's own tests pin down): both admitted;   *)
(*       every other tag becomes an attribute with the documented conversion     *)
(*   OT4 LogFields / LogKV / FinishOptions.LogRecords -> one event per record    *)
(*       whose attributes are the converted fields in the order given            *)
(*   OT5 SetOperationName -> name; Finish / FinishWithOptions end the span once  *)
(*   OT6 Inject writes what the configured propagator writes for the span's      *)
(*       context + baggage; Extract reads it back (same trace id, span id,       *)
(*       sampled flag, items); no context in the carrier -> ErrSpanContextNot-   *)
(*       Found; Binary -> ErrUnsupportedFormat; neither reader nor writer ->     *)
(*       ErrInvalidCarrier; a foreign span context -> ErrInvalidSpanContext      *)
(*   OT7 context mixing: the span active in a context is the same span for both  *)
(*       APIs; a child started through either API has it as its (local) parent   *)
(*       and inherits its baggage items                                          *)
(*   OT8 a parent given by a local span is a local parent (SpanContext.IsRemote  *)
(*       is for contexts "propagated from a remote parent"), an extracted one is *)
(*       remote                                                                 *)
(*   OC1 StartSpan: child of the span in the context; StartSpanWithRemoteParent: *)
(*       child of the given (remote) context whatever the context holds          *)
(*   OC2 span kind Client/Server map to Client/Server, Unspecified to the        *)
(*       default; a Sampler start option cannot be converted: the error handler  *)
(*       is told, the span is started anyway                                     *)
(*   OC3 attributes bool/int64/float64/string keep type and value; annotations   *)
(*       -> events named by the message; message events -> events "message       *)
(*       send"/"message receive" with the two sizes; links -> links              *)
(*   OC4 status: code 0 (OK) is not an error, every other code 1..16 is Error    *)
(*       with the message as description                                         *)
(*   OC5 span context conversion keeps trace id, span id, the sampled bit and    *)
(*       the tracestate entries in order; an entry the other format cannot hold  *)
(*       is an incompatibility told to the error handler                         *)
(* Exporter-visible fields of a span that is not sampled are not observable and  *)
(* stay at their defaults in the model.                                          *)
(* Fields whose name ends in "A" hold the SET of admissible values (the contract *)
(* leaves a choice); every other field is compared by equality.                  *)
EXTENDS Naturals, Integers, Sequences, FiniteSets

CONSTANTS NK,     \* attribute / tag / field keys are 1..NK
          NB      \* baggage keys are 1..NB

NoAttr == [t |-> "", v |-> ""]
Unset == [code |-> "Unset", desc |-> ""]
NoCar == [has |-> FALSE, kind |-> "", of |-> 0, smp |-> FALSE, bag |-> [k \in 1..NB |-> ""]]
NoExt == [ok |-> FALSE, of |-> 0, smp |-> FALSE, bag |-> [k \in 1..NB |-> ""]]
Init0 == [spans |-> <<>>, car |-> NoCar, ext |-> NoExt]

(* documented value conversions of SetTag / log fields (bridge.go, SetTag godoc) *)
Conv(c) == CASE c = "str"  -> [t |-> "STRING",  v |-> "sv"]
             [] c = "str2" -> [t |-> "STRING",  v |-> "sw"]
             [] c = "bool" -> [t |-> "BOOL",    v |-> "true"]
             [] c = "int"  -> [t |-> "INT64",   v |-> "-7"]
             [] c = "i32"  -> [t |-> "INT64",   v |-> "-2147483648"]
             [] c = "u32"  -> [t |-> "INT64",   v |-> "4294967295"]
             [] c = "uint" -> [t |-> "STRING",  v |-> "42"]
             [] c = "u64"  -> [t |-> "STRING",  v |-> "18446744073709551615"]
             [] c = "f32"  -> [t |-> "FLOAT64", v |-> "1.5"]
             [] c = "f64"  -> [t |-> "FLOAT64", v |-> "2.25"]
             [] c = "i64"  -> [t |-> "INT64",   v |-> "9007199254740993"]

Rank(c) == CASE c = "Unset" -> 0 [] c = "Error" -> 1 [] c = "Ok" -> 2
SetSt1(s, c, d) == IF Rank(s.code) > Rank(c) THEN s
                   ELSE [code |-> c, desc |-> IF c = "Error" THEN d ELSE ""]
SetSts(sts, codes, d) == {SetSt1(a, c, d) : a \in sts, c \in codes}

KindOf(k) == IF k \in {"client", "server", "producer", "consumer"} THEN k ELSE "internal"

RECURSIVE PutAll(_, _)
PutAll(attrs, kvs) == IF kvs = <<>> THEN attrs
                      ELSE PutAll([attrs EXCEPT ![Head(kvs).k] = Conv(Head(kvs).c)], Tail(kvs))
EvAttrs(kvs) == [j \in 1..Len(kvs) |-> [k |-> kvs[j].k, t |-> Conv(kvs[j].c).t, v |-> Conv(kvs[j].c).v]]

NewSpan(n, name, par, rem, tr, links, attrs, kinds, sts, bag, smp) ==
  [name |-> IF smp THEN name ELSE "", par |-> IF smp THEN par ELSE 0, rem |-> smp /\ rem, tr |-> tr,
   linksA |-> IF smp THEN links ELSE {[j \in 1..(n - 1) |-> [c |-> 0, f |-> 0]]},
   attrs |-> IF smp THEN attrs ELSE [k \in 1..NK |-> NoAttr],
   kindA |-> IF smp THEN kinds ELSE {"internal"}, stsA |-> IF smp THEN sts ELSE {Unset},
   events |-> <<>>, ended |-> 0, bag |-> bag, smp |-> smp]

(* update span i with f unless it is not sampled *)
Upd(st, i, F(_)) == IF st.spans[i].smp THEN [st EXCEPT !.spans[i] = F(@)] ELSE st

-----------------------------------------------------------------------------
(* A. OpenTracing bridge *)
Usable(refs) == SelectSeq(refs, LAMBDA r : r.to >= 0)
Tgt(st, r) == IF r.to = 0 THEN st.ext.of ELSE r.to
RBag(st, r) == IF r.to = 0 THEN st.ext.bag ELSE st.spans[r.to].bag
RSmp(st, r) == IF r.to = 0 THEN st.ext.smp ELSE st.spans[r.to].smp
FirstWith(st, us, k) == CHOOSE i \in 1..Len(us) : RBag(st, us[i])[k] # "" /\ \A j \in 1..(i - 1) : RBag(st, us[j])[k] = ""
UnionBag(st, us) == [k \in 1..NB |-> IF \E i \in 1..Len(us) : RBag(st, us[i])[k] # ""
                                    THEN RBag(st, us[FirstWith(st, us, k)])[k] ELSE ""]
(* two references that disagree on an item: the contract does not say which one wins *)
BagConflict(st, refs) == LET us == Usable(refs) IN
  \E k \in 1..NB : \E i, j \in 1..Len(us) : RBag(st, us[i])[k] # "" /\ RBag(st, us[j])[k] # "" /\ RBag(st, us[i])[k] # RBag(st, us[j])[k]

OTStart(st, o) ==
  LET n == Len(st.spans) + 1
      us == Usable(o.refs)
      hasP == us # <<>>
      pi == IF \E i \in 1..Len(us) : us[i].t = "c"
            THEN CHOOSE i \in 1..Len(us) : us[i].t = "c" /\ \A j \in 1..(i - 1) : us[j].t # "c" ELSE 1
      p == IF hasP THEN us[pi] ELSE [t |-> "c", to |-> 0]
      rest == IF hasP THEN SubSeq(us, 1, pi - 1) \o SubSeq(us, pi + 1, Len(us)) ELSE <<>>
      smp == IF hasP THEN RSmp(st, p) ELSE o.name # "ns"
      LinkVec(rs) == [j \in 1..(n - 1) |->
                  [c |-> Cardinality({i \in 1..Len(rs) : Tgt(st, rs[i]) = j /\ rs[i].t = "c"}),
                   f |-> Cardinality({i \in 1..Len(rs) : Tgt(st, rs[i]) = j /\ rs[i].t = "f"})]]
      links == {LinkVec(rest), LinkVec(us)}
      sts == IF o.err = "true" THEN {[code |-> "Error", desc |-> ""]}
             ELSE IF o.err = "false" THEN {[code |-> "Ok", desc |-> ""], Unset} ELSE {Unset}
      sp == NewSpan(n, o.name, IF hasP THEN Tgt(st, p) ELSE 0, hasP /\ p.to = 0,
                    IF hasP THEN st.spans[Tgt(st, p)].tr ELSE n, links,
                    PutAll([k \in 1..NK |-> NoAttr], o.tags), {KindOf(o.kind)}, sts, UnionBag(st, us), smp)
  IN [st EXCEPT !.spans = Append(@, sp)]

(* a span started through either API with span p active in the context (0: none) *)
CtxChild(st, p, name) ==
  LET n == Len(st.spans) + 1
      smp == IF p > 0 THEN st.spans[p].smp ELSE name # "ns"
      sp == NewSpan(n, name, p, FALSE, IF p > 0 THEN st.spans[p].tr ELSE n,
                    {[j \in 1..(n - 1) |-> [c |-> 0, f |-> 0]]}, [k \in 1..NK |-> NoAttr], {"internal"}, {Unset},
                    IF p > 0 THEN st.spans[p].bag ELSE [k \in 1..NB |-> ""], smp)
  IN [st EXCEPT !.spans = Append(@, sp)]

AddEv(s, e) == [s EXCEPT !.events = Append(@, e)]
RECURSIVE AddEvs(_, _, _)
AddEvs(s, n, e) == IF n = 0 THEN s ELSE AddEvs(AddEv(s, e), n - 1, e)
EndOnce(s) == [s EXCEPT !.ended = 1]

InjectErr(o) == IF o.i < 0 THEN "invalidsc" ELSE IF o.fmt = "binary" THEN "unsupported"
                ELSE IF o.car = "bad" THEN "invalidcarrier" ELSE ""
ExtractErr(st, o) == IF o.fmt = "binary" THEN "unsupported" ELSE IF o.car = "bad" THEN "invalidcarrier"
                     ELSE IF o.car = "empty" \/ ~st.car.has THEN "notfound" ELSE ""

OTApply(st, o) ==
  CASE o.op = "Start"    -> OTStart(st, o)
    [] o.op = "OTelStart" -> CtxChild(st, o.p, o.name)
    [] o.op = "CtxStart"  -> CtxChild(st, o.p, o.name)
    [] o.op = "Ctx"       -> st
    [] o.op = "SetTag"   -> Upd(st, o.i, LAMBDA s : IF s.ended > 0 THEN s ELSE [s EXCEPT !.attrs[o.k] = Conv(o.c)])
    [] o.op = "SetKind"  -> st                         \* the kind is fixed at creation
    [] o.op = "SetErr"   -> Upd(st, o.i, LAMBDA s : IF s.ended > 0 THEN s ELSE [s EXCEPT !.stsA =
                               SetSts(@, IF o.c = "true" THEN {"Error"} ELSE IF o.c = "false" THEN {"Ok", "Unset"} ELSE {"Unset"}, "")])
    [] o.op = "Log"      -> Upd(st, o.i, LAMBDA s : IF s.ended > 0 THEN s ELSE AddEv(s, [name |-> "", ts |-> "", ks |-> EvAttrs(o.kvs)]))
    [] o.op = "SetName"  -> Upd(st, o.i, LAMBDA s : IF s.ended > 0 THEN s ELSE [s EXCEPT !.name = o.name])
    [] o.op = "Finish"   -> Upd(st, o.i, LAMBDA s : IF s.ended > 0 THEN s
                                                   ELSE EndOnce(AddEvs(s, o.logs, [name |-> "", ts |-> "t1", ks |-> EvAttrs(<<[k |-> 1, c |-> "str"]>>)])))
    [] o.op = "SetBag"   -> [st EXCEPT !.spans[o.i].bag[o.k] = o.v]
    [] o.op = "Inject"   -> IF InjectErr(o) # "" THEN st
                            ELSE [st EXCEPT !.car = IF o.i = 0
                                    THEN [has |-> TRUE, kind |-> o.car, of |-> st.ext.of, smp |-> st.ext.smp, bag |-> st.ext.bag]
                                    ELSE [has |-> TRUE, kind |-> o.car, of |-> o.i, smp |-> st.spans[o.i].smp, bag |-> st.spans[o.i].bag]]
    [] o.op = "Extract"  -> IF ExtractErr(st, o) # "" THEN st
                            ELSE [st EXCEPT !.ext = [ok |-> TRUE, of |-> st.car.of, smp |-> st.car.smp, bag |-> st.car.bag]]

(* what the call itself returns / what the two APIs read from the span's context *)
OTOut(st, o) ==
  CASE o.op = "Inject"  -> [err |-> InjectErr(o)]
    [] o.op = "Extract" -> [err |-> ExtractErr(st, o)]
    [] o.op = "Ctx"     -> [ot |-> o.i, otel |-> o.i]
    [] OTHER            -> [err |-> ""]

(* calls on a finished span change nothing (C04) *)

-----------------------------------------------------------------------------
(* B. OpenCensus trace bridge *)
OCKinds(k) == CASE k = "client" -> {"client"} [] k = "server" -> {"server"} [] OTHER -> {"internal", "unspecified"}
OCCodes(c) == IF c = 0 THEN {"Unset", "Ok"} ELSE IF c > 0 THEN {"Error"} ELSE {"Unset", "Error"}
OCConv(c) == CASE c = "bool" -> [t |-> "BOOL", v |-> "true"] [] c = "i64" -> [t |-> "INT64", v |-> "9007199254740993"]
               [] c = "f64" -> [t |-> "FLOAT64", v |-> "2.25"] [] c = "str" -> [t |-> "STRING", v |-> "sv"]
               [] c = "str2" -> [t |-> "STRING", v |-> "sw"]
RECURSIVE OCPutAll(_, _)
OCPutAll(attrs, kvs) == IF kvs = <<>> THEN attrs
                        ELSE OCPutAll([attrs EXCEPT ![Head(kvs).k] = OCConv(Head(kvs).c)], Tail(kvs))
OCEvAttrs(kvs) == [j \in 1..Len(kvs) |-> [k |-> kvs[j].k, t |-> OCConv(kvs[j].c).t, v |-> OCConv(kvs[j].c).v]]
(* keys -1 / -2: "uncompressed byte size" / "compressed byte size" (values 11 / 7 in the harness) *)
MsgAttrs == <<[k |-> -1, t |-> "INT64", v |-> "11"], [k |-> -2, t |-> "INT64", v |-> "7"]>>

OCStart(st, o) ==
  LET n == Len(st.spans) + 1
      sp == NewSpan(n, o.name, o.p, o.p > 0 /\ o.via = "remote", IF o.p > 0 THEN st.spans[o.p].tr ELSE n,
                    {[j \in 1..(n - 1) |-> [c |-> 0, f |-> 0]]}, [k \in 1..NK |-> NoAttr], OCKinds(o.kind), {Unset},
                    [k \in 1..NB |-> ""], TRUE)
  IN [st EXCEPT !.spans = Append(@, sp)]

Live(s) == s.ended = 0
OCApply(st, o) ==
  CASE o.op = "Start"     -> OCStart(st, o)
    [] o.op = "AddAttrs"  -> Upd(st, o.i, LAMBDA s : IF Live(s) THEN [s EXCEPT !.attrs = OCPutAll(@, o.kvs)] ELSE s)
    [] o.op = "Annotate"  -> Upd(st, o.i, LAMBDA s : IF Live(s) THEN AddEv(s, [name |-> o.msg, ts |-> "", ks |-> OCEvAttrs(o.kvs)]) ELSE s)
    [] o.op = "MsgEvent"  -> Upd(st, o.i, LAMBDA s : IF Live(s) THEN AddEv(s, [name |-> o.dir, ts |-> "", ks |-> MsgAttrs]) ELSE s)
    [] o.op = "AddLink"   -> Upd(st, o.i, LAMBDA s : IF Live(s) THEN [s EXCEPT !.linksA = {[v EXCEPT ![o.to].c = @ + 1] : v \in @}] ELSE s)
    [] o.op = "SetStatus" -> Upd(st, o.i, LAMBDA s : IF Live(s) THEN [s EXCEPT !.stsA = SetSts(@, OCCodes(o.code), o.msg)] ELSE s)
    [] o.op = "SetName"   -> Upd(st, o.i, LAMBDA s : IF Live(s) THEN [s EXCEPT !.name = o.name] ELSE s)
    [] o.op = "End"       -> Upd(st, o.i, EndOnce)
    [] o.op = "Ctx"       -> st
    [] o.op \in {"ToOC", "ToOTel", "RoundOC", "RoundOTel"} -> st

(* tracestate entries: [k |-> key class, v |-> value]; key classes: "both" valid in both formats,  *)
(* "otel" valid only in W3C trace context (tenant id starting with a digit, "1x@sys")     *)
Keep(ts) == SelectSeq(ts, LAMBDA e : e.k # "otel")
HasOTelOnly(ts) == \E i \in 1..Len(ts) : ts[i].k = "otel"
OCOut(st, o) ==
  CASE o.op = "Start"  -> [handled |-> o.sampler]
    [] o.op = "Ctx"    -> [oc |-> o.i, otel |-> o.i]
    (* OTel -> OC: ids and the sampled bit are kept; entries OpenCensus cannot hold are dropped (or the *)
    (* whole list is), and the incompatibility is handled by the error handler                          *)
    [] o.op \in {"ToOC", "RoundOTel"} ->
         [ids |-> TRUE, smp |-> o.sc.smp, tsA |-> IF HasOTelOnly(o.sc.ts) THEN {Keep(o.sc.ts), <<>>} ELSE {o.sc.ts},
          handled |-> HasOTelOnly(o.sc.ts)]
    (* OC -> OTel (and back): nothing is lost *)
    [] o.op \in {"ToOTel", "RoundOC"} -> [ids |-> TRUE, smp |-> o.sc.smp, tsA |-> {o.sc.ts}, handled |-> FALSE]
    [] OTHER -> [err |-> ""]

-----------------------------------------------------------------------------
(* statement-level invariants of any reachable model state *)
WellFormed(st) ==
  \A i \in 1..Len(st.spans) : LET s == st.spans[i] IN
    /\ s.par < i /\ s.tr <= i /\ s.ended \in {0, 1}
    /\ (s.par > 0 => s.tr = st.spans[s.par].tr)          \* a child is in its parent's trace
    /\ (s.par = 0 /\ s.smp /\ ~s.rem => s.tr = i \/ s.tr < i)
    /\ \A a \in s.stsA : a.code # "Error" => a.desc = ""
=============================================================================
