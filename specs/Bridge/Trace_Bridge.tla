---------------------------- MODULE Trace_Bridge ----------------------------
(* code -> spec: judges seeded random histories recorded from the real bridges   *)
(* (harness_x03 random) against BridgeModel.  Lines:                             *)
(*   New{part, sc}           a fresh scenario (fresh SDK, fresh bridge)          *)
(*   Op{part, sc, op, obs, out}  one abstract operation, the projection of the   *)
(*                           real state after it and what the call returned      *)
(* The monitor is total: it applies the operation to its own model state,        *)
(* compares field by field (fields ending in "A": membership in the admissible   *)
(* set) and prints one VIOL line per step with the differences that are NEW in   *)
(* this scenario: a difference already reported (same span, same field) persists *)
(* in every later state and is not repeated, so that one deviation cannot hide   *)
(* another one later in the same history.  ACCEPTED n ends the run.              *)
EXTENDS BridgeModel, TraceKit

VARIABLES l, st, ok      \* ok: the differences already reported in this scenario
vars == <<l, st, ok>>

Plain == {"name", "par", "rem", "tr", "attrs", "events", "ended", "bag", "smp"}
Alts == {"kindA", "stsA", "linksA"}
DiffSpan(m, o) == {f \in Plain : f \in DOMAIN o /\ o[f] # m[f]}
                  \cup {f \in Alts : f \in DOMAIN o /\ o[f] \notin m[f]}
                  \cup (IF DOMAIN o = Plain \cup Alts THEN {} ELSE (DOMAIN o \ (Plain \cup Alts)) \cup ((Plain \cup Alts) \ DOMAIN o))
SpanDiffs(m, o) ==
  IF Len(m.spans) # Len(o.spans) THEN {[span |-> 0, field |-> "count"]}
  ELSE UNION {{[span |-> i, field |-> f] : f \in DiffSpan(m.spans[i], o.spans[i])} : i \in 1..Len(m.spans)}
RecDiffs(nm, m, o) == IF DOMAIN o # DOMAIN m THEN {[span |-> 0, field |-> nm]}
                      ELSE {[span |-> 0, field |-> nm \o "." \o f] : f \in {g \in DOMAIN m : o[g] # m[g]}}
StateDiffs(m, o) == SpanDiffs(m, o) \cup RecDiffs("car", m.car, o.car) \cup RecDiffs("ext", m.ext, o.ext)

(* what the call returned: plain fields by equality, tsA by membership *)
OutDiffs(m, o) == IF DOMAIN o # DOMAIN m THEN {[span |-> 0, field |-> "out"]}
                  ELSE {[span |-> 0, field |-> "out." \o f] :
                          f \in {g \in DOMAIN m : IF g = "tsA" THEN o[g] \notin m[g] ELSE o[g] # m[g]}}

Model(part, s, o) == IF part = "ot" THEN OTApply(s, o) ELSE OCApply(s, o)
Out(part, s, o) == IF part = "ot" THEN OTOut(s, o) ELSE OCOut(s, o)

Init == l = 1 /\ st = Init0 /\ ok = {}

TNew == /\ l <= Len(Trace) /\ Trace[l].ev = "New"
        /\ st' = Init0 /\ ok' = {} /\ l' = l + 1

TOp == /\ l <= Len(Trace) /\ Trace[l].ev = "Op"
       /\ LET e == Trace[l]
              m == Model(e.part, st, e.op)
              d == StateDiffs(m, e.obs) \cup OutDiffs(Out(e.part, st, e.op), e.out)
          IN /\ st' = m
             /\ ok' = ok \cup d
             /\ (d \ ok # {}) => Viol([line |-> l, sc |-> e.sc, part |-> e.part, diffs |-> d \ ok])
       /\ l' = l + 1

TDone == l = Len(Trace) + 1 /\ Accepted(l) /\ UNCHANGED vars

Next == TNew \/ TOp \/ TDone
Spec == Init /\ [][Next]_vars
Inv == WellFormed(st)
=============================================================================
