------------------------------ MODULE OCMetric ------------------------------
(* Part B (metrics) of growth X03: opencensus.NewMetricProducer().Produce -- the  *)
(* conversion of OpenCensus metric data to the OpenTelemetry data model.          *)
(* Contract (package godoc + "Limitations", metricdata godoc of both libraries,   *)
(* OTel "OpenCensus compatibility / Metrics"):                                    *)
(*   M1 each supported OpenCensus type maps to one aggregation with the same      *)
(*      points: GaugeInt64/GaugeFloat64 -> Gauge; CumulativeInt64/Float64 ->      *)
(*      monotonic cumulative Sum; CumulativeDistribution -> cumulative Histogram   *)
(*      (count, sum, bounds, bucket counts, exemplars); Summary -> Summary        *)
(*      (count, sum, quantiles = percentiles / 100)                               *)
(*   M2 label keys/values become attributes; a label value that is not Present    *)
(*      yields no attribute; start time = the series' start, time = the point's   *)
(*   M3 an exemplar keeps value and time; a SpanContext attachment becomes its    *)
(*      trace/span id, every other attachment a filtered attribute                *)
(*   M4 unsupported types (GaugeDistribution) and ill-formed input (label count   *)
(*      mismatch, value of the wrong type, negative counts, an attachment under   *)
(*      the span context key that is no SpanContext) make Produce return an error *)
(*      AND every well-formed metric converted (no loss); of an ill-formed metric *)
(*      only well-formed points may appear                                        *)
(*   M5 Produce never panics: nil metrics / series / values are skipped or        *)
(*      reported; a Distribution without BucketOptions "has no histogram"          *)
(*      (OpenCensus godoc) and converts to a point without buckets                *)
(* One-step machine: TLC picks every list of <= MaxList metric cases.             *)
EXTENDS Naturals, Sequences, FiniteSets, TLC, Json

CONSTANTS Metrics, MaxList

Supported == {"gi", "gf", "ci", "cf", "dist", "summary"}
WantKind(type) == CASE type \in {"gi", "ci"} -> "i" [] type \in {"gf", "cf"} -> "f"
                    [] type = "dist" -> "dist" [] type = "summary" -> "sum" [] OTHER -> "none"
PtOK(type, p) == /\ p.val.k = WantKind(type)
                 /\ p.val.nil \in {"", "opts"} /\ p.val.neg = "" /\ p.val.ex # "badsc"
(* a nil series carries nothing: it may be skipped silently (like a nil metric) or reported *)
TSOK(m, s) == s.nil \/ (Len(s.lvs) = m.keys /\ \A i \in 1..Len(s.pts) : PtOK(m.type, s.pts[i]))
MetricOK(m) == ~m.nil /\ m.type \in Supported /\ \A i \in 1..Len(m.ts) : TSOK(m, m.ts[i])
HasNilTS(m) == \E i \in 1..Len(m.ts) : m.ts[i].nil

Attrs(s) == SelectSeq([i \in 1..Len(s.lvs) |-> IF s.lvs[i] = "p" THEN i ELSE 0], LAMBDA x : x > 0)
ConvVal(v) ==
  CASE v.k = "i" -> [k |-> "i", count |-> 0, sum |-> "7", bounds |-> 0, buckets |-> 0, exs |-> <<>>, q |-> <<>>]
    [] v.k = "f" -> [k |-> "f", count |-> 0, sum |-> "2.5", bounds |-> 0, buckets |-> 0, exs |-> <<>>, q |-> <<>>]
    [] v.k = "dist" -> [k |-> "dist", count |-> 3, sum |-> "6.5", bounds |-> IF v.nil = "opts" THEN 0 ELSE 2,
                        buckets |-> IF v.nil = "opts" THEN 0 ELSE 3,
                        exs |-> IF v.ex = "" \/ v.nil = "opts" THEN <<>> ELSE <<v.ex>>, q |-> <<>>]
    [] v.k = "sum" -> [k |-> "sum", count |-> 4, sum |-> "10", bounds |-> 0, buckets |-> 0, exs |-> <<>>, q |-> <<"0.5:2", "0.99:9">>]
ConvPt(s, p) == [attrs |-> Attrs(s), start |-> "s1", t |-> p.t, v |-> ConvVal(p.val)]

RECURSIVE Flat(_)
Flat(ss) == IF ss = <<>> THEN <<>> ELSE Head(ss) \o Flat(Tail(ss))
(* the well-formed points of a metric, series by series *)
GoodPts(m) == Flat([i \in 1..Len(m.ts) |->
                 IF m.ts[i].nil \/ Len(m.ts[i].lvs) # m.keys THEN <<>>
                 ELSE [j \in 1..Len(SelectSeq(m.ts[i].pts, LAMBDA p : PtOK(m.type, p))) |->
                         ConvPt(m.ts[i], SelectSeq(m.ts[i].pts, LAMBDA p : PtOK(m.type, p))[j])]])
Agg(type) == CASE type \in {"gi", "gf"} -> [agg |-> "gauge", num |-> WantKind(type), temp |-> "", mono |-> FALSE]
               [] type \in {"ci", "cf"} -> [agg |-> "sum", num |-> WantKind(type), temp |-> "cumulative", mono |-> TRUE]
               [] type = "dist" -> [agg |-> "hist", num |-> "f", temp |-> "cumulative", mono |-> FALSE]
               [] type = "summary" -> [agg |-> "summary", num |-> "", temp |-> "", mono |-> FALSE]
Conv(m, pts) == [present |-> TRUE, agg |-> Agg(m.type), pts |-> pts]
Absent == [present |-> FALSE, agg |-> [agg |-> "", num |-> "", temp |-> "", mono |-> FALSE], pts |-> <<>>]

RECURSIVE SubSeqs(_)
SubSeqs(s) == IF s = <<>> THEN {<<>>}
              ELSE LET r == SubSeqs(Tail(s)) IN r \cup {<<Head(s)>> \o x : x \in r}
(* admissible results for one input metric *)
Admissible(m) == IF m.nil \/ m.type \notin Supported THEN {Absent}
                 ELSE IF MetricOK(m) /\ ~HasNilTS(m) THEN {Conv(m, GoodPts(m))}
                 ELSE {Absent} \cup {Conv(m, p) : p \in SubSeqs(GoodPts(m))}
ErrA(ms) == IF \E i \in 1..Len(ms) : ~ms[i].nil /\ ~MetricOK(ms[i]) THEN {TRUE}
            ELSE IF \E i \in 1..Len(ms) : ms[i].nil \/ HasNilTS(ms[i]) THEN {TRUE, FALSE} ELSE {FALSE}
Result(ms) == [errA |-> ErrA(ms), ms |-> [i \in 1..Len(ms) |-> [rA |-> Admissible(ms[i])]]]

Lists == UNION {[1..n -> Metrics] : n \in 0..MaxList}
VARIABLES done, res, act
vars == <<done, res, act>>
Init == done = FALSE /\ res = Result(<<>>) /\ act = [op |-> "Init"]
Step(ms) == ~done /\ done' = TRUE /\ res' = Result(ms) /\ act' = [op |-> "Metrics", ms |-> ms]
Next == \E ms \in Lists : Step(ms)
Spec == Init /\ [][Next]_vars
View == <<done, res>>
EmitEdge == PrintT("EDGE " \o ToJson([from |-> [done |-> done], act |-> act', to |-> [done |-> done'], out |-> res']))

(* no loss, as a theorem of the model: a well-formed metric has exactly one admissible result, with all its points *)
Inv == done => \A i \in 1..Len(act.ms) : MetricOK(act.ms[i]) /\ ~HasNilTS(act.ms[i]) =>
          res.ms[i].rA = {Conv(act.ms[i], GoodPts(act.ms[i]))}
=============================================================================
