------------------------------ MODULE OCBridge ------------------------------
(* State machine over BridgeModel (part B, OpenCensus trace bridge) for TLC:     *)
(* every sequence of <= MaxSteps OpenCensus trace API calls on <= MaxSpans spans  *)
(* created through the installed bridge (octrace.DefaultTracer), plus -- from the *)
(* initial state -- every span context conversion case.  Edges are replayed on    *)
(* the real bridge with a recording SDK behind it (harness_x03).                  *)
EXTENDS BridgeModel, TLC, Json

CONSTANTS Ops, MaxSpans, MaxSteps, Names, SKinds, Samplers, Vias,
          AttrLists,       \* AddAttributes / Annotate attribute lists
          Msgs,            \* annotation messages
          Codes, StMsgs,   \* SetStatus codes and messages
          SCs              \* span context conversion cases [smp, ts]

VARIABLES st, steps, act
vars == <<st, steps, act>>
N == Len(st.spans)
On(k) == k \in Ops

OpSet ==
  (IF On("Start") /\ N < MaxSpans THEN
      {[op |-> "Start", p |-> p, q |-> qq, via |-> v, kind |-> k, sampler |-> s, name |-> nm] :
         p \in 0..N, qq \in 0..N, v \in Vias, k \in SKinds, s \in Samplers, nm \in Names} ELSE {})
  \cup (IF On("AddAttrs") THEN {[op |-> "AddAttrs", i |-> i, kvs |-> l] : i \in 1..N, l \in AttrLists \ {<<>>}} ELSE {})
  \cup (IF On("Annotate") THEN {[op |-> "Annotate", i |-> i, kvs |-> l, msg |-> m] : i \in 1..N, l \in AttrLists, m \in Msgs} ELSE {})
  \cup (IF On("MsgEvent") THEN {[op |-> "MsgEvent", i |-> i, dir |-> d] : i \in 1..N, d \in {"send", "recv"}} ELSE {})
  \cup (IF On("AddLink") THEN {[op |-> "AddLink", i |-> i, to |-> j, typ |-> t] : i \in 1..N, j \in 1..(N - 1), t \in {"child", "parent"}} ELSE {})
  \cup (IF On("SetStatus") THEN {[op |-> "SetStatus", i |-> i, code |-> c, msg |-> m] : i \in 1..N, c \in Codes, m \in StMsgs} ELSE {})
  \cup (IF On("SetName") THEN {[op |-> "SetName", i |-> i, name |-> nm] : i \in 1..N, nm \in Names} ELSE {})
  \cup (IF On("End") THEN {[op |-> "End", i |-> i] : i \in 1..N} ELSE {})
  \cup (IF On("Ctx") THEN {[op |-> "Ctx", i |-> i] : i \in 1..N} ELSE {})
  \cup (IF On("Conv") /\ steps = 0 THEN {[op |-> o, sc |-> c] : o \in {"ToOC", "ToOTel", "RoundOC", "RoundOTel"}, c \in SCs} ELSE {})

(* a remote start ignores whatever span q is in the context; a local one has no q *)
Enabled(o) == /\ (o.op = "Start" => (o.via = "ctx" => o.q = 0) /\ (o.via = "remote" => o.p > 0))
              /\ (o.op = "AddLink" => o.to < o.i)
              /\ (o.op \in {"ToOTel", "RoundOC"} => ~HasOTelOnly(o.sc.ts))

Init == st = Init0 /\ steps = 0 /\ act = [op |-> "Init"]
Step(o) == /\ steps < MaxSteps /\ Enabled(o)
           /\ st' = OCApply(st, o)
           /\ steps' = steps + 1
           /\ act' = o
Next == \E o \in OpSet : Step(o)
Spec == Init /\ [][Next]_vars

View == <<st, steps>>
EmitEdge == PrintT("EDGE " \o ToJson([from |-> st, act |-> act', to |-> st', out |-> OCOut(st, act')]))
Inv == WellFormed(st)
Frozen == [][\A i \in 1..Len(st.spans) : st.spans[i].ended > 0 => st'.spans[i] = st.spans[i]]_vars
=============================================================================
