---------------------------- MODULE MC_Composite ----------------------------
EXTENDS Composite
SC(id, smp, ts) == [valid |-> TRUE, id |-> id, smp |-> smp, rem |-> FALSE, ts |-> ts]
Ctx(sc, bag, s1, s2) == [sc |-> sc, bag |-> bag, s1 |-> s1, s2 |-> s2, log |-> <<>>]
Car(tp, sc, bg, bag, m1, m2) == [tp |-> tp, tpsc |-> sc, bg |-> bg, bag |-> bag, m1 |-> m1, m2 |-> m2, shared |-> "", order |-> <<>>]
MCProps == @PROPS@
MCCtxs == @CTXS@
MCCars == @CARS@
MCCtx0s == @CTX0S@
=============================================================================
