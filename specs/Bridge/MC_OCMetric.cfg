SPECIFICATION Spec
CONSTANTS
  Metrics <- MCMetrics
  MaxList = @MAXLIST@
VIEW View
ACTION_CONSTRAINT EmitEdge
INVARIANT Inv
CHECK_DEADLOCK FALSE
