---------------------------- MODULE MC_OCMetric ----------------------------
EXTENDS OCMetric
V(k) == [k |-> k, nil |-> "", neg |-> "", ex |-> ""]
P(t, v) == [t |-> t, val |-> v]
TS(lvs, pts) == [nil |-> FALSE, lvs |-> lvs, pts |-> pts]
NilTS == [nil |-> TRUE, lvs |-> <<>>, pts |-> <<>>]
M(type, keys, ts) == [nil |-> FALSE, type |-> type, keys |-> keys, ts |-> ts]
NilM == [nil |-> TRUE, type |-> "gi", keys |-> 0, ts |-> <<>>]
MCMetrics == @METRICS@
=============================================================================
