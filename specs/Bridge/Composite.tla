------------------------------ MODULE Composite ------------------------------
(* Part C of growth X03: propagation.NewCompositeTextMapPropagator.              *)
(* Contract (godoc of NewCompositeTextMapPropagator, OpenTelemetry API            *)
(* "Composite Propagator"): Inject calls every propagator in the order given, on  *)
(* the same carrier; Extract threads the context through every propagator in the  *)
(* order given (each sees what the earlier ones extracted); Fields is the union   *)
(* of the propagators' fields without duplicates; an empty composite is a no-op;  *)
(* a propagator that finds nothing it can extract returns the context it was      *)
(* given, so earlier extractions stay intact.  With TraceContext + Baggage in     *)
(* the group a round trip is the identity on the span context (trace id, span id, *)
(* sampled flag, tracestate; remote afterwards) and on the baggage.               *)
(* The member propagators are modelled by their contracts only (their grammars    *)
(* are C03 / C11): "tc" TraceContext, "bg" Baggage, "m1"/"m2" two marker          *)
(* propagators of the harness that share the fields x-shared / x-order.           *)
(* One-step machine: TLC picks every case; the edge is replayed on the real code. *)
EXTENDS Naturals, Sequences, FiniteSets, TLC, Json

CONSTANTS NB, Props, MaxLen, Ctxs, Cars, Ctx0s

NoSC == [valid |-> FALSE, id |-> 0, smp |-> FALSE, rem |-> FALSE, ts |-> <<>>]
NoBag == [k \in 1..NB |-> ""]
EmptyCtx == [sc |-> NoSC, bag |-> NoBag, s1 |-> "", s2 |-> "", log |-> <<>>]
EmptyCar == [tp |-> "none", tpsc |-> NoSC, bg |-> "none", bag |-> NoBag, m1 |-> "", m2 |-> "", shared |-> "", order |-> <<>>]
HasBag(b) == \E k \in 1..NB : b[k] # ""

Inject1(p, ctx, car) ==
  CASE p = "tc" -> IF ctx.sc.valid THEN [car EXCEPT !.tp = "ok", !.tpsc = [ctx.sc EXCEPT !.rem = FALSE]] ELSE car
    [] p = "bg" -> IF HasBag(ctx.bag) THEN [car EXCEPT !.bg = "ok", !.bag = ctx.bag] ELSE car
    [] p = "m1" -> [car EXCEPT !.m1 = IF ctx.s1 # "" THEN ctx.s1 ELSE @, !.shared = "1", !.order = Append(@, 1)]
    [] p = "m2" -> [car EXCEPT !.m2 = IF ctx.s2 # "" THEN ctx.s2 ELSE @, !.shared = "2", !.order = Append(@, 2)]

(* a marker logs what it found in the context at its turn: that is the threading *)
Saw(n, ctx, car) == [p |-> n, sc |-> ctx.sc.valid, bag |-> HasBag(ctx.bag), s1 |-> ctx.s1, s2 |-> ctx.s2]
Extract1(p, ctx, car) ==
  CASE p = "tc" -> IF car.tp = "ok" THEN [ctx EXCEPT !.sc = [car.tpsc EXCEPT !.rem = TRUE]] ELSE ctx
    [] p = "bg" -> IF car.bg = "ok" THEN [ctx EXCEPT !.bag = car.bag] ELSE ctx
    [] p = "m1" -> [ctx EXCEPT !.s1 = IF car.m1 # "" THEN car.m1 ELSE @, !.log = Append(@, Saw(1, ctx, car))]
    [] p = "m2" -> [ctx EXCEPT !.s2 = IF car.m2 # "" THEN car.m2 ELSE @, !.log = Append(@, Saw(2, ctx, car))]

RECURSIVE InjectAll(_, _, _)
InjectAll(ps, ctx, car) == IF ps = <<>> THEN car ELSE InjectAll(Tail(ps), ctx, Inject1(Head(ps), ctx, car))
RECURSIVE ExtractAll(_, _, _)
ExtractAll(ps, ctx, car) == IF ps = <<>> THEN ctx ELSE ExtractAll(Tail(ps), Extract1(Head(ps), ctx, car), car)

FieldsOf(p) == CASE p = "tc" -> {"traceparent", "tracestate"} [] p = "bg" -> {"baggage"}
                 [] p = "m1" -> {"x-m1", "x-shared", "x-order"} [] p = "m2" -> {"x-m2", "x-shared", "x-order"}
Fields(ps) == UNION {FieldsOf(ps[i]) : i \in 1..Len(ps)}

PropSeqs == UNION {[1..n -> Props] : n \in 0..MaxLen}
CasesRT == {[op |-> "RT", ps |-> ps, ctx |-> c] : ps \in PropSeqs, c \in Ctxs}
CasesEX == {[op |-> "EX", ps |-> ps, car |-> c, ctx |-> c0] : ps \in PropSeqs, c \in Cars, c0 \in Ctx0s}
CasesF  == {[op |-> "Fields", ps |-> ps] : ps \in PropSeqs}

Result(c) ==
  CASE c.op = "RT" -> LET car == InjectAll(c.ps, c.ctx, EmptyCar)
                      IN [car |-> car, ctx |-> ExtractAll(c.ps, EmptyCtx, car), fieldsU |-> {}]
    [] c.op = "EX" -> [car |-> c.car, ctx |-> ExtractAll(c.ps, c.ctx, c.car), fieldsU |-> {}]
    [] c.op = "Fields" -> [car |-> EmptyCar, ctx |-> EmptyCtx, fieldsU |-> Fields(c.ps)]

VARIABLES done, res, act
vars == <<done, res, act>>
Init0 == [car |-> EmptyCar, ctx |-> EmptyCtx, fieldsU |-> {}]
Init == done = FALSE /\ res = Init0 /\ act = [op |-> "Init"]
Step(c) == ~done /\ done' = TRUE /\ res' = Result(c) /\ act' = c
Next == \E c \in CasesRT \cup CasesEX \cup CasesF : Step(c)
Spec == Init /\ [][Next]_vars
View == <<done, res>>
EmitEdge == PrintT("EDGE " \o ToJson([from |-> res, act |-> act', to |-> res']))

-----------------------------------------------------------------------------
Has(ps, p) == \E i \in 1..Len(ps) : ps[i] = p
Markers(ps) == SelectSeq(ps, LAMBDA p : p \in {"m1", "m2"})
MarkNum(p) == IF p = "m1" THEN 1 ELSE 2
(* the statement as theorems of the model, checked on every explored case *)
Inv == done =>
  /\ (act.op = "RT" /\ Has(act.ps, "tc") => res.ctx.sc = [act.ctx.sc EXCEPT !.rem = act.ctx.sc.valid])
  /\ (act.op = "RT" /\ Has(act.ps, "bg") => res.ctx.bag = act.ctx.bag)
  /\ (act.op = "RT" /\ act.ps = <<>> => res.car = EmptyCar /\ res.ctx = EmptyCtx)
  /\ (act.op = "EX" /\ act.ps = <<>> => res.ctx = act.ctx)
  /\ (act.op = "RT" => res.car.order = [i \in 1..Len(Markers(act.ps)) |-> MarkNum(Markers(act.ps)[i])])
  /\ (act.op \in {"RT", "EX"} => Len(res.ctx.log) = Len(Markers(act.ps)))
  (* a propagator that cannot extract leaves the earlier extractions (and the incoming context) intact *)
  /\ (act.op = "EX" /\ act.car.tp # "ok" => res.ctx.sc = act.ctx.sc)
  /\ (act.op = "EX" /\ act.car.bg # "ok" => res.ctx.bag = act.ctx.bag)
  /\ (act.op = "EX" /\ act.car.tp = "ok" /\ Has(act.ps, "tc") => res.ctx.sc.valid /\ res.ctx.sc.id = act.car.tpsc.id)
=============================================================================
