SPECIFICATION Spec
CONSTANTS
  NB = 2
  Props <- MCProps
  MaxLen = @MAXLEN@
  Ctxs <- MCCtxs
  Cars <- MCCars
  Ctx0s <- MCCtx0s
VIEW View
ACTION_CONSTRAINT EmitEdge
INVARIANT Inv
CHECK_DEADLOCK FALSE
