SPECIFICATION Spec
CONSTANTS
  NK = 3
  NB = 2
INVARIANT Inv
CHECK_DEADLOCK FALSE
