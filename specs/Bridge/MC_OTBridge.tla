---------------------------- MODULE MC_OTBridge ----------------------------
EXTENDS OTBridge
MCOps == @OPS@
MCNames == @NAMES@
MCRefTypes == @REFTYPES@
MCForeign == @FOREIGN@
MCKinds == @KINDS@
MCErrs == @ERRS@
MCTagLists == @TAGLISTS@
MCTagCls == @TAGCLS@
MCKvLists == @KVLISTS@
MCLogVias == @LOGVIAS@
MCFinishLogs == @FINISHLOGS@
MCBagVals == @BAGVALS@
MCFmts == @FMTS@
MCCars == @CARS@
MCExCars == @EXCARS@
=============================================================================
