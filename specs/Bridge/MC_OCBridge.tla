---------------------------- MODULE MC_OCBridge ----------------------------
EXTENDS OCBridge
E(k, v) == [k |-> k, v |-> v]
MCOps == @OPS@
MCNames == @NAMES@
MCSKinds == @SKINDS@
MCSamplers == @SAMPLERS@
MCVias == @VIAS@
MCAttrLists == @ATTRLISTS@
MCMsgs == @MSGS@
MCCodes == @CODES@
MCStMsgs == @STMSGS@
MCSCs == @SCS@
=============================================================================
