SPECIFICATION Spec
CONSTANTS
  NK = @NK@
  NB = 1
  Ops <- MCOps
  MaxSpans = @MAXSPANS@
  MaxSteps = @MAXSTEPS@
  Names <- MCNames
  SKinds <- MCSKinds
  Samplers <- MCSamplers
  Vias <- MCVias
  AttrLists <- MCAttrLists
  Msgs <- MCMsgs
  Codes <- MCCodes
  StMsgs <- MCStMsgs
  SCs <- MCSCs
VIEW View
ACTION_CONSTRAINT EmitEdge
INVARIANT Inv
PROPERTIES Frozen
CHECK_DEADLOCK FALSE
