--------------------------- MODULE SpanPanicContract ---------------------------
(* The C10 contract for executions in which USER CODE called by the SDK PANICS   *)
(* (err.Error() of RecordError, the recovered value's Error()/String() in End's  *)
(* recover branch, SpanProcessor.OnStart/OnEnd/Shutdown/ForceFlush, Sampler,     *)
(* IDGenerator) and the panic is recovered further up the caller's stack.  It    *)
(* wraps the total monitor SpanEndContract (every clause of it stays in force)   *)
(* and adds the events                                                           *)
(*   UPanic {proc, gate, p}          user code at `gate` is about to panic       *)
(*                                   (logged inside the user code)               *)
(*   Unwind {proc, op, span, arg, own}   the call ended by a panic propagating   *)
(*                                   to its caller; own = the value is the one   *)
(*                                   the user code of this goroutine raised      *)
(* Clauses:                                                                      *)
(*   panic        a call is left by a panic that is NOT the user's own           *)
(*   deadlock     (event Stuck, as before) some call never returns: in this      *)
(*                class because a lock stayed held when the panic unwound; the   *)
(*                violation carries `after` = the gates at which user code had   *)
(*                panicked before                                                *)
(*   not-delivered / delivered-twice / ... unchanged, with ONE relaxation the    *)
(*                statement leaves open: an End call aborted by a panic of       *)
(*                processor p's OnEnd owes nothing to the processors behind p    *)
(*                (`lapsed`), and an aborted call is not a call that "returned". *)
(* An End deferred during a panic that ends the span and continues THAT panic    *)
(* has done what End documents: the harness logs it as Ret End.                  *)
EXTENDS SpanEndContract

PFresh(cfg) == [m |-> Fresh(cfg), up |-> {}, lapsed |-> {}]

WithAfter(pm, v) == [x \in (DOMAIN v) \cup {"after"} |-> IF x = "after" THEN pm.up ELSE v[x]]
Keep(pm, v) == ~(v.kind = "not-delivered" /\ v.detail \subseteq pm.lapsed)

PStep(pm, e) ==
  CASE e.ev = "UPanic" ->
         <<[pm EXCEPT !.up = @ \cup {e.gate},
                      !.lapsed = IF e.gate = "proc.OnEnd" THEN @ \cup {q \in 1..99 : q > e.p} ELSE @], {}>>
    [] e.ev = "Unwind" ->
         LET m == pm.m
             r == Sp(m, e.span)
             foreign == IF e.own THEN {} ELSE {WithAfter(pm, V(m, e.span, "panic", e.proc))} IN
         IF e.op = "End"
           THEN LET missing == IF m.sd THEN {} ELSE {p \in (r.must \ m.unreg) \ pm.lapsed : Count(r, p) = 0} IN
                <<[pm EXCEPT !.m = With(m, e.span, [r EXCEPT !.endOpen = @ - 1])],
                  foreign \cup (IF r.endOpen = 1 /\ r.endRet /\ missing # {}
                                  THEN {WithAfter(pm, V(m, e.span, "not-delivered", missing))} ELSE {})>>
           ELSE <<pm, foreign>>
    [] OTHER ->
         LET b == Step(pm.m, e) IN
         <<[pm EXCEPT !.m = b[1]], {WithAfter(pm, v) : v \in {w \in b[2] : Keep(pm, w)}}>>
=============================================================================
