SPECIFICATION FairSpec
CONSTANTS
  Enders <- MCEnders
  Mutators <- MCMutators
  Children <- MCChildren
  Readers <- MCReaders
  Registrars <- MCRegistrars
  Processors <- MCProcessors
  Shared <- MCShared
  ExecTracer = @EXECTRACER@
  Shape = "@SHAPE@"
  AllowKnown = @ALLOWKNOWN@
PROPERTIES Termination
CHECK_DEADLOCK TRUE
