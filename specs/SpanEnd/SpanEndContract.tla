--------------------------- MODULE SpanEndContract ---------------------------
(* The C10 statement as a total monitor over API-observable events: calls and    *)
(* returns of End / mutators / child Start / IsRecording / EndTime logged by the *)
(* harness (Call before the call, Ret after the return, one atomic sequence      *)
(* number = sound real-time order), what recording processors are handed         *)
(* (OnEnd), what they read again later (Reread), plus the Hook events of the     *)
(* instrumentation points in End, which are used ONLY to tell whether two End    *)
(* calls were inside the unlock window at the same time (the signature of the    *)
(* known deviation D1) -- never to excuse a clause.                              *)
(* Every event is always accepted; broken clauses are collected by Step.         *)
(*                                                                               *)
(* Clauses (s = a span, all orderings are real-time orderings of Call/Ret):      *)
(*  delivered-twice        a processor is handed s more than once                *)
(*  not-delivered          every End call made on s has returned and a processor *)
(*                         registered before s started -- or whose registration  *)
(*                         returned before the first End call -- was not handed s*)
(*  delivered-without-end  s handed to a processor although End was never called *)
(*  end-time-differs       two observations of the end time of s differ          *)
(*  end-time-unknown/zero  the end time is not the one of any End call made      *)
(*  torn-mutation          a mutation call is partly in the snapshot (also: with *)
(*                         full event/link queues -- cfg.lim entries recorded    *)
(*                         beforehand -- the entries evicted from the FIFO and   *)
(*                         the dropped counter disagree: an add is in the queue  *)
(*                         but not in the counter, or vice versa)                *)
(*  mutation-lost          a mutation that returned before any End call is       *)
(*                         missing;  mutation-after-end: one called after an End *)
(*                         returned is present;  mutation-unknown: never called  *)
(*  child-count            not (children whose Start returned before any End     *)
(*                         call) <= count <= (children whose Start was called    *)
(*                         before any End returned)                              *)
(*  dropped-count          with every limit 0 the dropped counters of the        *)
(*                         snapshot are not the sums over an admissible set of   *)
(*                         mutations (torn / after End / lost update)            *)
(*  recording-after-end    IsRecording called after an End returned says true    *)
(*  not-recording-before-end   IsRecording returned false before any End call    *)
(*  snapshot-mutated       a kept snapshot reads differently later               *)
(*  panic / deadlock       a call panicked / calls never returned: every         *)
(*                         goroutine of the scenario parked, one on an SDK lock  *)
(*                         (also re-entrant calls made from processor callbacks) *)
(* The sampling decision of a span (Cfg.sampled: RecordAndSample / RecordOnly) is *)
(* recorded and deliberately used by NO clause: every recording span counts.     *)
EXTENDS Naturals, Sequences, FiniteSets, FiniteSetsExt, TLC

Put(f, k, v) == [x \in (DOMAIN f) \cup {k} |-> IF x = k THEN v ELSE f[x]]
SeqToSet(s) == {s[i] : i \in 1..Len(s)}

FreshSpan == [endCalled |-> FALSE, endOpen |-> 0, endRet |-> FALSE,
              overlap |-> FALSE,     \* two End calls were open at the same time
              ts |-> {},             \* explicit end timestamps of the End calls made (indices 1..99)
              implicit |-> FALSE,    \* some End call carried no timestamp (its end time is the time of the call)
              called |-> {}, mustIn |-> {}, mustOut |-> {},
              w |-> <<>>,            \* mutation token -> what it adds to the dropped <<attributes, events, links>> counters (limits 0)
              childMustIn |-> 0, childEligible |-> 0,
              rAfter |-> {},         \* procs whose pending IsRecording / EndTime call began after an End returned
              must |-> {},           \* processors registered when End was first called
              handed |-> <<>>,       \* processor -> number of OnEnd calls
              ets |-> {},            \* end times observed
              inWin |-> {},          \* procs whose End passed the recording check into the unlock window
              winOverlap |-> FALSE]  \* two of them did (the signature of D1)
Fresh(cfg) == [cfg |-> cfg, sp |-> <<>>,
               regRet |-> {},   \* processors whose RegisterSpanProcessor call has returned
               sd |-> FALSE,    \* a TracerProvider.Shutdown call has begun: who still gets what is C15's subject
               unreg |-> {}]    \* processors some UnregisterSpanProcessor call has named

Sp(m, s) == IF s \in DOMAIN m.sp THEN m.sp[s] ELSE FreshSpan
With(m, s, r) == [m EXCEPT !.sp = Put(@, s, r)]
Count(r, p) == IF p \in DOMAIN r.handed THEN r.handed[p] ELSE 0
(* the discriminating context of a violation: used by the known-finding matcher *)
V(m, s, kind, detail) == [kind |-> kind, span |-> s, rt |-> m.cfg.rt, hooks |-> m.cfg.hooks,
                          overlap |-> Sp(m, s).overlap, win |-> Sp(m, s).winOverlap, detail |-> detail]

Tot(r, S, i) == FoldSet(LAMBDA t, acc : acc + r.w[t][i], 0, S)
DroppedOK(r, got) == \E J \in SUBSET ((r.called \ r.mustOut) \ r.mustIn) :
                        \A i \in 1..3 : Tot(r, r.mustIn \cup J, i) = got[i]
QueueOK(lim, miss, drop) == IF miss < lim THEN drop = miss ELSE drop >= lim

(* Step(m, e) = <<next monitor state, set of violated clauses (records)>> *)
Step(m, e) ==
  CASE e.ev = "Call" /\ e.op = "End" ->
         LET r == Sp(m, e.span) IN
         <<With(m, e.span, [r EXCEPT !.endCalled = TRUE, !.endOpen = @ + 1,
                                     !.must = IF r.endCalled THEN @ ELSE (1..m.cfg.nprocs) \cup m.regRet,
                                     !.overlap = (@ \/ r.endOpen > 0),
                                     !.ts = IF e.arg > 0 THEN @ \cup {e.arg} ELSE @,
                                     !.implicit = (@ \/ e.arg = 0)]), {}>>
    [] e.ev = "Ret" /\ e.op = "End" ->
         LET r == Sp(m, e.span)
             missing == IF m.sd THEN {} ELSE {p \in r.must \ m.unreg : Count(r, p) = 0} IN
         <<With(m, e.span, [r EXCEPT !.endOpen = @ - 1, !.endRet = TRUE]),
           IF r.endOpen = 1 /\ missing # {} THEN {V(m, e.span, "not-delivered", missing)} ELSE {}>>
    [] e.ev = "Ret" /\ e.op = "Reg" -> <<[m EXCEPT !.regRet = @ \cup {e.arg}], {}>>
    [] e.ev = "Call" /\ e.op = "SD" -> <<[m EXCEPT !.sd = TRUE], {}>>
    [] e.ev = "Call" /\ e.op = "Unreg" -> <<[m EXCEPT !.unreg = @ \cup {e.arg}], {}>>
    [] e.ev = "Call" /\ e.op = "Mut" ->
         LET r == Sp(m, e.span) IN
         <<With(m, e.span, [r EXCEPT !.called = @ \cup {e.arg}, !.w = Put(@, e.arg, <<e.wa, e.we, e.wl>>),
                                     !.mustOut = IF r.endRet THEN @ \cup {e.arg} ELSE @]), {}>>
    [] e.ev = "Ret" /\ e.op = "Mut" ->
         LET r == Sp(m, e.span) IN
         <<With(m, e.span, [r EXCEPT !.mustIn = IF r.endCalled THEN @ ELSE @ \cup {e.arg}]), {}>>
    [] e.ev = "Call" /\ e.op = "Child" ->
         LET r == Sp(m, e.span) IN
         <<With(m, e.span, [r EXCEPT !.childEligible = IF r.endRet THEN @ ELSE @ + 1]), {}>>
    [] e.ev = "Ret" /\ e.op = "Child" ->
         LET r == Sp(m, e.span) IN
         <<With(m, e.span, [r EXCEPT !.childMustIn = IF r.endCalled THEN @ ELSE @ + 1]), {}>>
    [] e.ev = "Call" /\ e.op \in {"IsRec", "ETime"} ->
         LET r == Sp(m, e.span) IN
         <<With(m, e.span, [r EXCEPT !.rAfter = IF r.endRet THEN @ \cup {e.proc} ELSE @ \ {e.proc}]), {}>>
    [] e.ev = "Ret" /\ e.op = "IsRec" ->
         LET r == Sp(m, e.span) IN
         <<m, (IF e.proc \in r.rAfter /\ e.val THEN {V(m, e.span, "recording-after-end", e.proc)} ELSE {})
              \cup (IF ~r.endCalled /\ ~e.val THEN {V(m, e.span, "not-recording-before-end", e.proc)} ELSE {})>>
    [] e.ev = "Ret" /\ e.op = "ETime" ->     \* ReadWriteSpan.EndTime() read by a processor that kept the span
         LET r == Sp(m, e.span) IN
         IF e.proc \in r.rAfter
           THEN <<With(m, e.span, [r EXCEPT !.ets = @ \cup {e.arg}]),
                  (IF e.arg = 0 THEN {V(m, e.span, "end-time-zero", e.proc)} ELSE {})
                  \cup (IF r.ets \cup {e.arg} # {e.arg} THEN {V(m, e.span, "end-time-differs", r.ets \cup {e.arg})} ELSE {})>>
           ELSE <<m, {}>>
    [] e.ev = "OnEnd" ->
         LET r == Sp(m, e.span)
             full == SeqToSet(e.full) IN
         <<With(m, e.span, [r EXCEPT !.handed = Put(@, e.p, Count(r, e.p) + 1), !.ets = @ \cup {e.et}]),
           (IF Count(r, e.p) >= 1 THEN {V(m, e.span, "delivered-twice", e.p)} ELSE {})
           \cup (IF ~r.endCalled THEN {V(m, e.span, "delivered-without-end", e.p)} ELSE {})
           \cup (IF r.ets \cup {e.et} # {e.et} THEN {V(m, e.span, "end-time-differs", r.ets \cup {e.et})} ELSE {})
           \cup (IF e.et = 0 THEN {V(m, e.span, "end-time-zero", e.p)} ELSE {})
           \cup (IF e.et > 0 /\ e.et \notin r.ts /\ (e.et < 100 \/ ~r.implicit)
                   THEN {V(m, e.span, "end-time-unknown", e.et)} ELSE {})
           \cup (IF e.partial # <<>> THEN {V(m, e.span, "torn-mutation", e.partial)} ELSE {})
           \* with small limits a mutation that returned before End may have been evicted / dropped again
           \cup (IF m.cfg.lim = 0 /\ ~m.cfg.zero /\ ~(r.mustIn \subseteq full) THEN {V(m, e.span, "mutation-lost", r.mustIn \ full)} ELSE {})
           \* every limit 0: a mutation is observable ONLY through the dropped counters; "wholly in or wholly out" then reads:
           \* the counters are the sums over exactly the mutations of some admissible set (all that must be in, none that
           \* must be out, any of those that ran concurrently with End)
           \cup (IF m.cfg.zero /\ ~DroppedOK(r, <<e.datt, e.dev, e.dlk>>)
                   THEN {V(m, e.span, "dropped-count", <<e.datt, e.dev, e.dlk>>)} ELSE {})
           \* FIFO: the oldest entries go first, so while one of the lim initial entries is left exactly the missing
           \* ones were dropped; once all are gone at least lim were
           \cup (IF m.cfg.lim > 0 /\ ~QueueOK(m.cfg.lim, e.evmiss, e.evdrop)
                   THEN {V(m, e.span, "torn-mutation", <<"events", e.evmiss, e.evdrop>>)} ELSE {})
           \cup (IF m.cfg.lim > 0 /\ ~QueueOK(m.cfg.lim, e.lkmiss, e.lkdrop)
                   THEN {V(m, e.span, "torn-mutation", <<"links", e.lkmiss, e.lkdrop>>)} ELSE {})
           \cup (IF full \cap r.mustOut # {} THEN {V(m, e.span, "mutation-after-end", full \cap r.mustOut)} ELSE {})
           \cup (IF ~(full \subseteq r.called) THEN {V(m, e.span, "mutation-unknown", full \ r.called)} ELSE {})
           \cup (IF e.child < r.childMustIn \/ e.child > r.childEligible
                   THEN {V(m, e.span, "child-count", <<r.childMustIn, e.child, r.childEligible>>)} ELSE {})>>
    [] e.ev = "Reread" ->
         <<m, IF e.same THEN {} ELSE {V(m, e.span, "snapshot-mutated", e.p)}>>
    [] e.ev = "Hook" ->
         (* Two End calls that both reach span.end.checked both found the span recording, i.e. each passed   *)
         (* the check before the other one marked: their windows overlap whenever the hook events are logged. *)
         LET r == Sp(m, e.span) IN
         IF e.point = "span.end.checked"
           THEN <<With(m, e.span, [r EXCEPT !.inWin = @ \cup {e.proc}, !.winOverlap = (@ \/ r.inWin \ {e.proc} # {})]), {}>>
           ELSE <<m, {}>>
    [] e.ev = "Bulk" ->      \* volume stress: one summarised line per span that `enders` goroutines ended at once
         LET B(kind) == [kind |-> kind, span |-> e.span, rt |-> m.cfg.rt, hooks |-> m.cfg.hooks,
                         overlap |-> (e.enders > 1), win |-> FALSE, detail |-> e.handed] IN
         <<m, (IF \E i \in 1..Len(e.handed) : e.handed[i] > 1 THEN {B("delivered-twice")} ELSE {})
              \cup (IF \E i \in 1..m.cfg.nprocs : i > Len(e.handed) \/ e.handed[i] = 0 THEN {B("not-delivered")} ELSE {})
              \cup (IF e.nets > 1 THEN {B("end-time-differs")} ELSE {})
              \cup (IF e.rec THEN {B("recording-after-end")} ELSE {})
              \* children started (and ended) before End was called: exact, whatever the sampling decision of the parent
              \cup (IF e.child # e.children THEN {[B("child-count") EXCEPT !.detail = <<e.children, e.child, e.sampled>>]} ELSE {})>>
    [] e.ev = "Bulk2" ->     \* volume stress: one End and one call of each mutator at once on a span whose queues are full
         LET B(kind, d) == [kind |-> kind, span |-> e.span, rt |-> m.cfg.rt, hooks |-> m.cfg.hooks,
                            overlap |-> FALSE, win |-> FALSE, detail |-> d] IN
         <<m, (IF e.handed > 1 THEN {B("delivered-twice", e.handed)} ELSE {})
              \cup (IF e.handed = 0 THEN {B("not-delivered", 0)} ELSE {})
              \cup (IF ~e.same THEN {B("snapshot-mutated", 1)} ELSE {})
              \cup (IF e.handed > 0 /\ ~QueueOK(m.cfg.lim, e.evmiss, e.evdrop) THEN {B("torn-mutation", <<"events", e.evmiss, e.evdrop>>)} ELSE {})
              \cup (IF e.handed > 0 /\ ~QueueOK(m.cfg.lim, e.lkmiss, e.lkdrop) THEN {B("torn-mutation", <<"links", e.lkmiss, e.lkdrop>>)} ELSE {})>>
    [] e.ev = "Bulk3" ->     \* every limit 0, 20 mutator calls hammering one span; exact: all returned before End was called
         LET B(kind, d) == [kind |-> kind, span |-> e.span, rt |-> m.cfg.rt, hooks |-> m.cfg.hooks,
                            overlap |-> FALSE, win |-> FALSE, detail |-> d] IN
         <<m, (IF e.handed # 1 THEN {B(IF e.handed = 0 THEN "not-delivered" ELSE "delivered-twice", e.handed)} ELSE {})
              \cup (IF ~e.same THEN {B("snapshot-mutated", 1)} ELSE {})
              \cup (IF \E i \in 1..3 : (IF e.exact THEN e.got[i] # e.want[i] ELSE e.got[i] > e.want[i])
                      THEN {B("dropped-count", <<e.exact, e.want, e.got>>)} ELSE {})>>
    [] e.ev = "Panic" -> <<m, {V(m, e.span, "panic", e.proc)}>>
    [] e.ev = "Stuck" -> <<m, IF e.deadlock THEN {V(m, 0, "deadlock", e.where)} ELSE {}>>
    [] OTHER -> <<m, {}>>
=============================================================================
