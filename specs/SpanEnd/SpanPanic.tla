------------------------------ MODULE SpanPanic ------------------------------
(* C10, behaviour class "user code called by span / tracer / provider methods   *)
(* PANICS" (it does not merely block): every natural gate of SpanEnd.tla gets   *)
(* the second outcome `panic`, with the panic recovered further up the caller's *)
(* stack (recovery middleware).  The statement's clauses "concurrent use of     *)
(* provider, tracer and span methods causes no ... deadlock" and "delivered ... *)
(* exactly once" then demand that NO LOCK STAYS HELD: every later call of any   *)
(* goroutine -- including the handler's own deferred End, which runs while the  *)
(* panic unwinds -- returns, and the span is still delivered exactly once.      *)
(*                                                                              *)
(* Implementation-shaped: every method is a small PROGRAM of lock operations    *)
(* and steps (sdk/trace/span.go, tracer.go, provider.go); `lockd` = Lock with   *)
(* a deferred Unlock (released by the Go runtime while a panic unwinds), `lock` *)
(* = Lock with explicit Unlock calls on the return paths (NOT released by an    *)
(* unwinding panic).  The lock-release obligation is therefore not a rule of    *)
(* the model but a consequence of the program shape.                            *)
(*   gate                  method (lock held there in the pinned code)          *)
(*   err.Error             RecordError            span.mu, deferred             *)
(*   panic.Format          End, recover branch    span.mu, explicit; the value  *)
(*                         is formatted by fmt.Sprint, which catches a panic of *)
(*                         its Error()/String() ("caught")                      *)
(*   proc.OnEnd            End fan-out            none (after the unlock)       *)
(*   idgen, sampler,       tracer.Start           none (addChild has returned)  *)
(*   proc.OnStart                                                               *)
(*   proc.Shutdown         TracerProvider.Shutdown          p.mu, deferred      *)
(*   proc.Shutdown.unreg   UnregisterSpanProcessor          p.mu, deferred      *)
(*   proc.ForceFlush       TracerProvider.ForceFlush        none                *)
(* Named deviations (each must make TLC report a deadlock / LocksFree):         *)
(*   D8a RecErrRel = "explicit"  RecordError unlocks explicitly "as End does"   *)
(*   D8b PanicFmt  = "direct"    End calls the value's Error() itself           *)
(*   D8c SDRel     = "explicit"  Shutdown unlocks p.mu explicitly               *)
(*   D8d UnregRel  = "explicit"  Unregister unlocks p.mu explicitly             *)
(*                                                                              *)
(* Processes: the handler h (one call whose user code at `gate` returns or      *)
(* panics, optionally `defer span.End()`, the panic recovered by its caller),   *)
(* c1 (one call BEFORE the handler's, or WHILE the handler is inside the user   *)
(* code), c2 (one call AFTER the handler has finished).  The scenario (gate,    *)
(* outcome, hdefer, ops, phase) is chosen in Init, so one TLC run enumerates    *)
(* every scenario with every interleaving of the lock-level steps; every        *)
(* terminal state prints the scenario with the outcome the model predicts       *)
(* (BEHAVIOUR ...): that list is the test plan the harness executes.            *)
EXTENDS Naturals, Sequences, FiniteSets, TLC, Json

CONSTANTS RecErrRel,   \* "defer" | "explicit"
          PanicFmt,    \* "caught" | "direct"
          SDRel,       \* "defer" | "explicit"
          UnregRel,    \* "defer" | "explicit"
          Gates, Outs, Defers, Ops1, Phases1, Ops2     \* the scenario space

VARIABLES scn,      \* [gate, out, hdefer, op1, ph1, op2]
          smu, pmu, \* span lock / provider lock holder ("none" | process)
          ended,    \* endTime set
          down,     \* isShutdown
          plist,    \* registered processors (subset of {1, 2})
          handed,   \* processor -> OnEnd calls
          st,       \* process -> "idle" | "run" | "done"
          prog, pc, \* process -> its current program / index into it
          defs,     \* process -> locks with a pending deferred Unlock
          hold,     \* process -> locks taken with an explicit Unlock still to come
          todo,     \* process -> calls still to make
          pan,      \* process -> a panic is in flight in its goroutine
          eprocs,   \* process -> the processor list its End read
          cop,      \* process -> the method it is in ("" between calls)
          mon,      \* API-level facts
          fin
vars == <<scn, smu, pmu, ended, down, plist, handed, st, prog, pc, defs, hold, todo, pan, eprocs, cop, mon, fin>>

Procs == {"h", "c1", "c2"}
I(i, a, n) == [i |-> i, a |-> a, n |-> n]
Main(g) == CASE g = "err.Error" -> "RecErr" [] g = "panic.Format" -> "Raise" [] g = "proc.OnEnd" -> "End"
             [] g \in {"idgen", "sampler", "proc.OnStart"} -> "Child" [] g = "proc.Shutdown" -> "SD"
             [] g = "proc.Shutdown.unreg" -> "Unreg" [] OTHER -> "FF"
UserIf(s, x, g) == IF x = "h" /\ s.gate = g THEN <<I("user", g, 0)>> ELSE <<>>
LockI(rel, l) == I(IF rel = "defer" THEN "lockd" ELSE "lock", l, 0)
UnlockI(rel, l) == IF rel = "defer" THEN <<>> ELSE <<I("unlock", l, 0)>>
Ret == <<I("ret", "", 0)>>
(* the program of one call; p = it runs while a panic is in flight (End's recover branch) *)
Prog(s, x, op, p) ==
  CASE op = "Mut"    -> <<I("lockd", "span", 0), I("retIfEnded", "", 0), I("apply", "", 0)>> \o Ret
    [] op = "IsRec"  -> <<I("lockd", "span", 0), I("read", "", 0)>> \o Ret
    [] op = "RecErr" -> <<LockI(RecErrRel, "span"), I("retIfEnded", "", 0)>> \o UserIf(s, x, "err.Error")
                        \o <<I("apply", "", 0)>> \o UnlockI(RecErrRel, "span") \o Ret
    [] op = "Raise"  -> <<I("raise", "", 0)>>
    [] op = "End"    -> <<I("lock", "span", 0), I("retIfEnded", "", 0)>>
                        \o (IF p THEN UserIf(s, x, "panic.Format") \o <<I("apply", "", 0)>> ELSE <<>>)
                        \o <<I("mark", "", 0), I("unlock", "span", 0), I("procs", "", 0),
                             I("lock", "span", 0), I("snap", "", 0), I("unlock", "span", 0), I("onend", "", 1)>>
                        \o UserIf(s, x, "proc.OnEnd") \o <<I("onend", "", 2)>> \o Ret
    [] op = "Child"  -> <<I("lock", "span", 0), I("incr", "", 0), I("unlock", "span", 0)>> \o UserIf(s, x, "idgen")
                        \o UserIf(s, x, "sampler") \o <<I("getprocs", "", 0)>> \o UserIf(s, x, "proc.OnStart") \o Ret
    [] op = "Reg"    -> <<I("precheck", "", 0), I("lockd", "prov", 0), I("downcheck", "", 0), I("store", "", 0)>> \o Ret
    [] op = "SD"     -> <<I("precheck", "", 0), LockI(SDRel, "prov"), I("cas", "", 0)>> \o UserIf(s, x, "proc.Shutdown")
                        \o <<I("clear", "", 0)>> \o UnlockI(SDRel, "prov") \o Ret
    [] op = "Unreg"  -> <<I("precheck", "", 0), LockI(UnregRel, "prov"), I("downcheck", "", 0)>>
                        \o UserIf(s, x, "proc.Shutdown.unreg") \o <<I("remove", "", 0)>> \o UnlockI(UnregRel, "prov") \o Ret
    [] OTHER         -> <<I("getprocs", "", 0)>> \o UserIf(s, x, "proc.ForceFlush") \o Ret

Scenarios == {s \in [gate : Gates, out : Outs, hdefer : Defers, op1 : Ops1, ph1 : Phases1, op2 : Ops2] :
                s.gate = "panic.Format" => s.hdefer}
Calls(s, x) == IF x = "h" THEN <<Main(s.gate)>> \o (IF s.hdefer THEN <<"End">> ELSE <<>>)
               ELSE IF x = "c1" THEN <<s.op1>> ELSE <<s.op2>>

Init == /\ scn \in Scenarios
        /\ smu = "none" /\ pmu = "none" /\ ended = FALSE /\ down = FALSE /\ plist = {1, 2}
        /\ handed = [p \in {1, 2} |-> 0]
        /\ st = [x \in Procs |-> "idle"] /\ prog = [x \in Procs |-> <<>>] /\ pc = [x \in Procs |-> 0]
        /\ defs = [x \in Procs |-> {}] /\ hold = [x \in Procs |-> {}]
        /\ todo = [x \in Procs |-> Calls(scn, x)]
        /\ pan = [x \in Procs |-> FALSE] /\ eprocs = [x \in Procs |-> {}] /\ cop = [x \in Procs |-> ""]
        /\ mon = [used |-> FALSE,       \* the user code at the gate has run (it runs once)
                  upanic |-> FALSE,     \* ... and panicked
                  endDone |-> FALSE,    \* some End call ran to its end (returned / continued the panic it was deferred in)
                  lapsed |-> {},        \* processors behind one whose OnEnd panicked: that End call was aborted by user code
                  unwound |-> {},       \* calls ended by a panic propagating to the caller
                  bad |-> {}]
        /\ fin = FALSE

Cur(x) == prog[x][pc[x]]
AtGate == st["h"] = "run" /\ Cur("h").i = "user"
(* ---- phases: c1 before the handler's call or while the handler is inside the user code, c2 after the handler *)
CanBegin(x) == CASE x = "h"  -> (scn.ph1 = "before" /\ Len(todo["h"]) = Len(Calls(scn, "h"))) => st["c1"] = "done"
                 [] x = "c1" -> scn.ph1 = "before" \/ AtGate \/ st["h"] = "done"
                 [] OTHER    -> st["h"] = "done"
Begin(x) == /\ st[x] = "idle" /\ todo[x] # <<>> /\ CanBegin(x)
            /\ st' = [st EXCEPT ![x] = "run"]
            /\ prog' = [prog EXCEPT ![x] = Prog(scn, x, Head(todo[x]), pan[x])] /\ pc' = [pc EXCEPT ![x] = 1]
            /\ todo' = [todo EXCEPT ![x] = Tail(@)] /\ cop' = [cop EXCEPT ![x] = Head(todo[x])]
            /\ UNCHANGED <<scn, smu, pmu, ended, down, plist, handed, defs, hold, pan, eprocs, mon, fin>>

Free(l) == IF l = "span" THEN smu = "none" ELSE pmu = "none"
(* locks after x released the set L *)
Rel(x, L) == /\ smu' = IF "span" \in L /\ smu = x THEN "none" ELSE smu
             /\ pmu' = IF "prov" \in L /\ pmu = x THEN "none" ELSE pmu
(* the current call of x is over: by a return (its deferred unlocks run), or by a panic leaving it (its   *)
(* deferred unlocks run as well; locks that were to be released explicitly STAY HELD)                    *)
EndCall(x, panics, early) ==
  /\ Rel(x, defs[x] \cup (IF early THEN hold[x] ELSE {}))     \* an early return releases explicitly first (correct by construction)
  /\ defs' = [defs EXCEPT ![x] = {}] /\ hold' = [hold EXCEPT ![x] = IF early THEN {} ELSE @]
  /\ pan' = [pan EXCEPT ![x] = @ \/ panics]
  /\ st' = [st EXCEPT ![x] = IF todo[x] = <<>> THEN "done" ELSE "idle"]      \* the panic is recovered by the caller of the handler
  /\ pc' = [pc EXCEPT ![x] = 0] /\ prog' = [prog EXCEPT ![x] = <<>>]
Next1(x) == pc' = [pc EXCEPT ![x] = @ + 1] /\ UNCHANGED <<st, prog, defs, hold, pan, smu, pmu>>

Step(x) ==
  /\ st[x] = "run"
  /\ LET c == Cur(x) IN
     CASE c.i \in {"lock", "lockd"} ->
            /\ Free(c.a)
            /\ smu' = (IF c.a = "span" THEN x ELSE smu)
            /\ pmu' = (IF c.a = "prov" THEN x ELSE pmu)
            /\ defs' = [defs EXCEPT ![x] = IF c.i = "lockd" THEN @ \cup {c.a} ELSE @]
            /\ hold' = [hold EXCEPT ![x] = IF c.i = "lock" THEN @ \cup {c.a} ELSE @]
            /\ pc' = [pc EXCEPT ![x] = @ + 1]
            /\ UNCHANGED <<st, prog, pan, ended, down, plist, handed, eprocs, mon>>
       [] c.i = "unlock" ->
            /\ Rel(x, {c.a}) /\ hold' = [hold EXCEPT ![x] = @ \ {c.a}] /\ pc' = [pc EXCEPT ![x] = @ + 1]
            /\ UNCHANGED <<st, prog, defs, pan, ended, down, plist, handed, eprocs, mon>>
       [] c.i = "retIfEnded" ->
            IF ended THEN (/\ EndCall(x, FALSE, TRUE)
                           /\ mon' = [mon EXCEPT !.endDone = @ \/ (cop[x] = "End")]      \* only End is that long: an End that found the span ended
                           /\ UNCHANGED <<ended, down, plist, handed, eprocs>>)
                     ELSE (Next1(x) /\ UNCHANGED <<ended, down, plist, handed, eprocs, mon>>)
       [] c.i \in {"apply", "read", "incr", "snap", "store"} ->
            Next1(x) /\ UNCHANGED <<ended, down, plist, handed, eprocs, mon>>
       [] c.i = "mark" -> Next1(x) /\ ended' = TRUE /\ UNCHANGED <<down, plist, handed, eprocs, mon>>
       [] c.i = "getprocs" ->      \* Start / ForceFlush read the processor list (atomic pointer) before the fan-out
            Next1(x) /\ eprocs' = [eprocs EXCEPT ![x] = plist] /\ UNCHANGED <<ended, down, plist, handed, mon>>
       [] c.i = "procs" ->
            /\ eprocs' = [eprocs EXCEPT ![x] = plist]
            /\ IF plist = {} THEN (EndCall(x, FALSE, FALSE) /\ mon' = [mon EXCEPT !.endDone = TRUE])
                             ELSE (Next1(x) /\ UNCHANGED mon)
            /\ UNCHANGED <<ended, down, plist, handed>>
       [] c.i = "onend" ->
            /\ Next1(x)
            /\ IF c.n \in eprocs[x]
                 THEN (/\ handed' = [handed EXCEPT ![c.n] = @ + 1]
                       /\ mon' = [mon EXCEPT !.bad = @ \cup (IF handed[c.n] >= 1 THEN {"delivered-twice"} ELSE {})])
                 ELSE UNCHANGED <<handed, mon>>
            /\ UNCHANGED <<ended, down, plist, eprocs>>
       [] c.i = "user" ->
            (* the user code runs once; the driver lets it finish only after the "during" call has been made *)
            /\ (scn.ph1 = "during" /\ ~mon.used) => st["c1"] # "idle"
            /\ IF mon.used \/ (c.a \in {"proc.OnEnd", "proc.OnStart", "proc.ForceFlush"} /\ 1 \notin eprocs[x])
                 THEN (Next1(x) /\ UNCHANGED mon)
                 ELSE IF scn.out = "ok" \/ (c.a = "panic.Format" /\ PanicFmt = "caught")
                 THEN (Next1(x) /\ mon' = [mon EXCEPT !.used = TRUE, !.upanic = (scn.out = "panic")])
                 ELSE (/\ EndCall(x, TRUE, FALSE)
                       /\ mon' = [mon EXCEPT !.used = TRUE, !.upanic = TRUE, !.unwound = @ \cup {c.a},
                                             !.lapsed = IF c.a = "proc.OnEnd" THEN {2} ELSE @])
            /\ UNCHANGED <<ended, down, plist, handed, eprocs>>
       [] c.i = "raise" -> EndCall(x, TRUE, FALSE) /\ UNCHANGED <<ended, down, plist, handed, eprocs, mon>>
       [] c.i = "precheck" ->
            (IF down THEN EndCall(x, FALSE, TRUE) ELSE Next1(x)) /\ UNCHANGED <<ended, down, plist, handed, eprocs, mon>>
       [] c.i = "downcheck" ->
            (IF down THEN EndCall(x, FALSE, TRUE) ELSE Next1(x)) /\ UNCHANGED <<ended, down, plist, handed, eprocs, mon>>
       [] c.i = "cas" ->
            /\ IF down THEN (EndCall(x, FALSE, TRUE) /\ UNCHANGED down) ELSE (Next1(x) /\ down' = TRUE)
            /\ UNCHANGED <<ended, plist, handed, eprocs, mon>>
       [] c.i = "clear" -> Next1(x) /\ plist' = {} /\ UNCHANGED <<ended, down, handed, eprocs, mon>>
       [] c.i = "remove" -> Next1(x) /\ plist' = plist \ {1} /\ UNCHANGED <<ended, down, handed, eprocs, mon>>
       [] c.i = "ret" ->
            /\ EndCall(x, FALSE, FALSE)
            /\ mon' = [mon EXCEPT !.endDone = @ \/ (cop[x] = "End")]
            /\ UNCHANGED <<ended, down, plist, handed, eprocs>>
  /\ UNCHANGED <<scn, todo, cop, fin>>

AllDone == \A x \in Procs : st[x] = "done"
(* the scenario with what the model predicts for it: the test plan of the harness *)
Finish == /\ AllDone /\ ~fin /\ fin' = TRUE
          /\ PrintT("BEHAVIOUR " \o ToJson([sc |-> scn, handed |-> <<handed[1], handed[2]>>, ended |-> ended,
                                            upanic |-> mon.upanic, unwound |-> mon.unwound, down |-> down]))
          /\ UNCHANGED <<scn, smu, pmu, ended, down, plist, handed, st, prog, pc, defs, hold, todo, pan, eprocs, cop, mon>>
Terminated == AllDone /\ fin /\ UNCHANGED vars
Next == Terminated \/ Finish \/ \E x \in Procs : Begin(x) \/ Step(x)
Spec == Init /\ [][Next]_vars

(* ------------------------------------------------------------- properties *)
(* TLC's deadlock check = some call never returns although nobody is running.                           *)
HasOp(o) == Main(scn.gate) = o \/ scn.op1 = o \/ scn.op2 = o
Must == IF HasOp("SD") THEN {} ELSE (({1, 2} \ (IF HasOp("Unreg") THEN {1} ELSE {})) \ mon.lapsed)
Contract == mon.bad = {}
AtMostOnce == \A p \in {1, 2} : handed[p] <= 1
(* nobody holds a lock it will never release *)
LocksFree == \A x \in Procs : st[x] # "run" => (smu # x /\ pmu # x)
MutexOK == /\ smu \in Procs \cup {"none"} /\ pmu \in Procs \cup {"none"}
           /\ \A x \in Procs : ("span" \in defs[x] \cup hold[x]) => smu = x
           /\ \A x \in Procs : ("prov" \in defs[x] \cup hold[x]) => pmu = x
Delivered == AllDone => /\ (mon.endDone => (ended /\ \A p \in Must : handed[p] = 1))
                        /\ (~mon.endDone /\ ~mon.upanic) => \A p \in {1, 2} : handed[p] = 0
=============================================================================
