----------------------------- MODULE MC_SpanEnd -----------------------------
EXTENDS SpanEnd
MCEnders == @ENDERS@
MCMutators == @MUTATORS@
MCChildren == @CHILDREN@
MCReaders == @READERS@
MCRegistrars == @REGISTRARS@
MCProcessors == @PROCESSORS@
MCShared == @SHARED@
MCUserMut == @USERMUT@
MCEvMut == @EVMUT@
MCEvInit == @EVINIT@
MCPanickers == @PANICKERS@
MCStoppers == @STOPPERS@
MCUnregs == @UNREGS@
MCWaitFor == @WAITFOR@
MCZeroMut == @ZEROMUT@
=============================================================================
