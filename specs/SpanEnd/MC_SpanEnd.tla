----------------------------- MODULE MC_SpanEnd -----------------------------
EXTENDS SpanEnd
MCEnders == @ENDERS@
MCMutators == @MUTATORS@
MCChildren == @CHILDREN@
MCReaders == @READERS@
MCProcessors == @PROCESSORS@
MCShared == @SHARED@
=============================================================================
