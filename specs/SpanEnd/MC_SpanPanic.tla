----------------------------- MODULE MC_SpanPanic -----------------------------
EXTENDS SpanPanic
MCGates == @GATES@
MCOuts == @OUTS@
MCDefers == @DEFERS@
MCOps1 == @OPS1@
MCPhases1 == @PHASES1@
MCOps2 == @OPS2@
=============================================================================
