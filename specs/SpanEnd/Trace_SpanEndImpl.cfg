SPECIFICATION TSpec
CONSTANTS
  Enders <- TrEnders
  Mutators <- TrMutators
  Children <- TrChildren
  Readers <- TrReaders
  Registrars <- TrRegistrars
  Processors <- TrProcessors
  Shared <- TrShared
  UserMut <- TrUserMut
  EvMut <- TrEvMut
  EvInit <- TrEvInit
  Panickers <- TrPanickers
  EvLimit <- TrEvLimit
  SnapShares = TRUE
  MShape = "@MSHAPE@"
  PShape = "@PSHAPE@"
  Sampled <- TrSampled
  ChildGuard = "recording"
  Stoppers <- TrStoppers
  Unregs <- TrUnregs
  WaitFor <- TrWaitFor
  PreCheck = @PRECHECK@
  ReentReg <- TrReentReg
  UnregShape = "@UNREGSHAPE@"
  WithStart <- TrWithStart
  StartEnder <- TrStartEnder
  RTShape = "plain"
  ZeroMut <- TrZeroMut
  ZShape = "locked"
  ExecTracer <- TrExecTracer
  Shape = "@SHAPE@"
  AllowKnown = @ALLOWKNOWN@
INVARIANTS Contract OnEndAtMostOnce TaskEndedOnce SnapshotStable MutexOK EndedForGood
POSTCONDITION TPost
CHECK_DEADLOCK FALSE
