---------------------------- MODULE SpanEndSim ----------------------------
(* spec -> code: TLC -simulate over SpanEnd with a history of gate events.       *)
(* A real goroutine that has performed an action waits at the instrumentation    *)
(* point that follows it (a verif hook in End -- placed only where span.mu is    *)
(* NOT held --, the entry of a recording processor's OnEnd, or the harness gate  *)
(* before a call) until the scheduler lets it pass.  Two kinds of history entry: *)
(*   "<proc>@<gate>"    release <proc> from <gate> (it performs its next steps)  *)
(*   "<proc>@<gate>+"   <proc> has arrived at <gate> (or has returned: "@ret+")  *)
(* The arrival entries make the replay strict: vh.Sched lets nobody pass a later *)
(* entry before the arriving goroutine has really reached its gate, i.e. before  *)
(* the real counterpart of the simulated steps has happened.  Lock-held steps    *)
(* have no gate (a gate under span.mu would block everybody): they add nothing   *)
(* to the history and run when the goroutine is released from the gate before.   *)
(* A released goroutine really runs on until its next gate, so the simulation    *)
(* lets a process that is between two gates finish that stretch before anybody   *)
(* else is released (Allowed): the histories are exactly the gate-level          *)
(* interleavings, which the replay can follow step by step.  (The fine-grained   *)
(* interleavings of the lock-held steps are covered by the exhaustive runs of    *)
(* SpanEnd.tla; under span.mu they are equivalent to a gate-level one.)          *)
EXTENDS SpanEnd, Json

VARIABLES hist, last, fin
svars == <<vars, hist, last, fin>>

(* x performs a step: leaves the gate it waits at (if any), will wait at `after` ("" = keeps running) *)
(* the starter and the End a processor makes inside OnStart run in the goroutine that calls tracer.Start, before   *)
(* anybody else has the span: nothing to steer                                                                  *)
Quiet(x) == WithStart /\ x \in {"st", StartEnder}
Rel(x, after) == IF Quiet(x) THEN UNCHANGED <<hist, last, fin>> ELSE
                 (/\ hist' = hist \o (IF last[x] = "" THEN <<>> ELSE <<last[x]>>)
                               \o (IF after = "" THEN <<>> ELSE <<after \o "+">>)
                  /\ last' = [last EXCEPT ![x] = IF after = x \o "@ret" THEN "" ELSE after]
                  /\ UNCHANGED fin)
G(x, point) == x \o "@" \o point
OnEndGate(e, ps) == IF ps = <<>> THEN "" ELSE G(e, "onend:" \o Head(ps))

(* User code (err.Error(), the panic value's Error()/String()) is a NATURAL gate: the harness passes values  *)
(* whose methods wait for the scheduler.  In the "locked" shapes the process parked there holds span.mu, so  *)
(* a released process that needs the lock really blocks (Blocked) until the holder is released.             *)
LockWait == {"lock", "relock", "snaplock", "prelock", "precheck"}
Blocked(y) == \/ mu \notin {"none", y} /\ pc[y] \in LockWait
              \/ prov.mu \notin {"none", y} /\ pc[y] \in {"glock", "slock", "ulock", "reent"}
              \/ prov.mu = y /\ pc[y] = "reent"                                   \* blocked on itself for good
              \/ pc[y] = "swait" /\ \E g \in WaitFor : pc[g] # "done"
              \/ pc[y] = "idle" /\ ~CanCall(y)
              \/ y = "st" /\ pc[y] = "onstart" /\ StartEnder # "none" /\ pc[StartEnder] # "done"
Allowed(x) == \A y \in Procs : (last[y] = "" /\ pc[y] # "done" /\ ~Blocked(y)) => y = x

SimNext ==
  \/ Allowed("st") /\ StartNext /\ Rel("st", "")
  \/ \E e \in Enders : Allowed(e) /\
        \/ ECall(e) /\ Rel(e, "")
        \/ ELock(e) /\ Rel(e, "")
        \/ ECheck(e) /\ Rel(e, IF pc'[e] = "pfmt" THEN G(e, "panic.Format") ELSE "")
        \/ EPanicUnlock(e) /\ Rel(e, G(e, "panic.Format"))
        \/ (EPanicFormat(e) \/ EPanicRelock(e) \/ EPanicRecheck(e) \/ EPanicAddEvent(e)) /\ Rel(e, "")
        \* the return after a lost re-check has no instrumentation point of its own: the process runs on to @ret
        \/ EUnlockIgnored(e) /\ Rel(e, IF pc[e] = "unlockign" THEN G(e, "span.end.ignored") ELSE "")
        \/ EUnlockForTask(e) /\ Rel(e, G(e, "span.end.checked"))
        \/ ETaskEnd(e) /\ Rel(e, G(e, "span.end.taskended"))
        \/ ERelock(e) /\ Rel(e, "")
        \/ ERecheck(e) /\ Rel(e, "")
        \/ EMark(e) /\ Rel(e, "")
        \/ EUnlock(e) /\ Rel(e, G(e, "span.end.marked"))
        \/ EGetProcs(e) /\ Rel(e, "")
        \/ ESnapLock(e) /\ Rel(e, "")
        \/ ESnapCopy(e) /\ Rel(e, "")
        \/ ESnapUnlock(e) /\ Rel(e, OnEndGate(e, eprocs[e]))
        \/ EOnEnd(e) /\ Rel(e, OnEndGate(e, Tail(eprocs[e])))
        \/ ERet(e) /\ Rel(e, G(e, "ret"))
  \/ \E m \in Mutators : Allowed(m) /\
        \/ MCall(m) /\ Rel(m, "")
        \/ (MPreCheck(m) \/ MCheck(m)) /\ Rel(m, IF pc'[m] = "user" THEN G(m, "err.Error") ELSE "")
        \/ (MUser(m) \/ MLock(m) \/ MApply(m) \/ MApplyEv(m) \/ MUnlock(m)) /\ Rel(m, "")
        \/ MRet(m) /\ Rel(m, G(m, "ret"))
  \/ \E c \in Children : Allowed(c) /\
        \/ (CCall(c) \/ CLock(c) \/ CIncr(c) \/ CUnlock(c)) /\ Rel(c, "")
        \/ CRet(c) /\ Rel(c, G(c, "ret"))
  \/ \E r \in Readers : Allowed(r) /\
        \/ (RCall(r) \/ RLock(r) \/ RRead(r) \/ RUnlock(r)) /\ Rel(r, "")
        \/ RRet(r) /\ Rel(r, G(r, "ret"))
  \/ \E g \in RegSet : Allowed(g) /\
        \/ (GCall(g) \/ GLock(g) \/ GCheck(g) \/ GStore(g) \/ GUnlock(g)) /\ Rel(g, "")
        \/ GRet(g) /\ Rel(g, G(g, "ret"))
  \* the processors' Shutdown is user code: the natural gate x@proc.Shutdown (entered holding p.mu)
  \/ \E t \in Stoppers : Allowed(t) /\
        \/ (SCall(t) \/ SLock(t)) /\ Rel(t, "")
        \/ SSet(t) /\ Rel(t, IF pc'[t] = "sproc" THEN G(t, "proc.Shutdown") ELSE "")
        \/ (SProc(t) \/ Reent(t) \/ SWait(t) \/ SClear(t) \/ SUnlock(t)) /\ Rel(t, "")
        \/ SRet(t) /\ Rel(t, G(t, "ret"))
  \/ \E u \in Unregs : Allowed(u) /\
        \/ (UCall(u) \/ ULock(u) \/ URemove(u)) /\ Rel(u, "")
        \/ (UCheck(u) \/ UUnlock(u)) /\ Rel(u, IF pc'[u] = "ushut" THEN G(u, "proc.Shutdown") ELSE "")
        \/ (UShut(u) \/ Reent(u)) /\ Rel(u, "")
        \/ URet(u) /\ Rel(u, G(u, "ret"))

Finish == /\ ~fin /\ AllDone
          /\ PrintT("BEHAVIOUR " \o ToJson([script |-> hist, bad |-> mon.bad, overlap |-> winOverlap,
                                            onEnd |-> mon.onEnd, parts |-> Cardinality(parts), child |-> childCount,
                                            evq |-> evs.q, evdrop |-> evs.drop, stable |-> SnapshotStable]))
          /\ fin' = TRUE /\ UNCHANGED <<vars, hist, last>>

SimInit == /\ Init /\ hist = <<>> /\ fin = FALSE
           /\ last = [x \in Procs |-> IF Quiet(x) THEN "" ELSE G(x, "call")]
SimSpec == SimInit /\ [][(~fin /\ ~AllDone /\ SimNext) \/ Finish]_svars
=============================================================================
