SPECIFICATION SimSpec
CONSTANTS
  Enders <- MCEnders
  Mutators <- MCMutators
  Children <- MCChildren
  Readers <- MCReaders
  Registrars <- MCRegistrars
  Processors <- MCProcessors
  Shared <- MCShared
  UserMut <- MCUserMut
  EvMut <- MCEvMut
  EvInit <- MCEvInit
  Panickers <- MCPanickers
  EvLimit = @EVLIMIT@
  SnapShares = @SNAPSHARES@
  MShape = "@MSHAPE@"
  PShape = "@PSHAPE@"
  Sampled = @SAMPLED@
  ChildGuard = "@CHILDGUARD@"
  Stoppers <- MCStoppers
  Unregs <- MCUnregs
  WaitFor <- MCWaitFor
  PreCheck = @PRECHECK@
  ReentReg = @REENTREG@
  UnregShape = "@UNREGSHAPE@"
  WithStart = @WITHSTART@
  StartEnder = "@STARTENDER@"
  RTShape = "@RTSHAPE@"
  ZeroMut <- MCZeroMut
  ZShape = "@ZSHAPE@"
  ExecTracer = @EXECTRACER@
  Shape = "@SHAPE@"
  AllowKnown = TRUE
CHECK_DEADLOCK FALSE
