SPECIFICATION SimSpec
CONSTANTS
  Enders <- MCEnders
  Mutators <- MCMutators
  Children <- MCChildren
  Readers <- MCReaders
  Registrars <- MCRegistrars
  Processors <- MCProcessors
  Shared <- MCShared
  ExecTracer = @EXECTRACER@
  Shape = "@SHAPE@"
  AllowKnown = TRUE
CHECK_DEADLOCK FALSE
