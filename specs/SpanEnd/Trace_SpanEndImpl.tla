------------------------- MODULE Trace_SpanEndImpl -------------------------
(* code -> spec, second level: the recorded trace of a real execution (Call/Ret, *)
(* one Hook line per verif point of span.End passed, one Gate line per natural    *)
(* gate passed = user code the SDK calls, the OnEnd lines of the recording        *)
(* processors) must be explainable by the ACTIONS of the implementation-shaped    *)
(* spec SpanEnd.tla itself, not only by the contract monitor.  TLC searches for   *)
(* the unlogged internal steps (lock, check, apply, unlock, snapshot ...).        *)
(*                                                                                *)
(* A process of SpanEnd.tla makes ONE call; a goroutine of the harness makes      *)
(* several: every line carries `pid`, the id of the call it belongs to            *)
(* ("e2.1" = first End call of goroutine e2, "m1.3.event" = third call of m1, an  *)
(* AddEvent; the kind is part of the name so that one name means one kind in      *)
(* every scenario of a file).  The constants are read from the first Cfg line,    *)
(* into which the driver has merged the process names of all scenarios of the     *)
(* file (a process that is not called in a scenario stays idle).                  *)
(*                                                                                *)
(* Three kinds of lines:                                                          *)
(*  exact        consuming the line IS the step: Call (written before the call),  *)
(*               Ret (after the return, nothing of the protocol in between),      *)
(*               Gate (written by the calling goroutine inside the user code the  *)
(*               SDK runs: err.Error() and the panic value's Error()/String()     *)
(*               under span.mu, a processor's Shutdown under the provider's lock, *)
(*               OnStart), OnEnd (written inside the processor's OnEnd: the step  *)
(*               only moves the ender and the monitor).                           *)
(*  confirmation every verif point of span.End sits AFTER an unlock, with no lock *)
(*               held: other goroutines may have seen the step's effect and       *)
(*               logged their own lines first.  The step (EUnlockIgnored,         *)
(*               EUnlockForTask, ETaskEnd, EUnlock) is silent and leaves the line *)
(*               it owes in pend[p]; p does nothing else until it is consumed.    *)
(*  ignored      lines of other spans (children), of the final re-read process    *)
(*               "fin", Reread, ICfg.                                             *)
(* The data of an OnEnd line (child count, which calls' tokens are wholly in the  *)
(* snapshot, event FIFO evictions, dropped-attributes counter, whose timestamp)   *)
(* must be the data of the model's snapshot esnap[e].                             *)
(* Acceptance: the cursor reaches the end (ACCEPTED n, TLCSet("exit")); otherwise *)
(* TLC exhausts the search and the high-water mark TLCGet(1) is the first line no *)
(* explanation gets past: model drift (evidence, never a verdict).  Run with      *)
(* -workers 1 and the StateDeque queue.  Every invariant of SpanEnd.tla stays on. *)
EXTENDS SpanEnd, TraceKit

VARIABLES l,      \* cursor: next line of Trace
          pend    \* proc -> sequence of hook points whose lines it owes (confirmations), oldest first
tvars == <<vars, l, pend>>

C0 == Trace[1]
SetOf(q) == {q[i] : i \in 1..Len(q)}
TrEnders == SetOf(C0.enders)
TrMutators == SetOf(C0.mutators)
TrChildren == SetOf(C0.children)
TrReaders == SetOf(C0.readers)
TrRegistrars == C0.registrars
TrProcessors == [i \in 1..C0.nprocs |-> "p" \o ToString(i)]
TrShared == SetOf(C0.shared)
TrUserMut == SetOf(C0.usermut)
TrEvMut == SetOf(C0.evmut)
TrZeroMut == SetOf(C0.zeromut)
TrPanickers == SetOf(C0.panickers)
TrStoppers == SetOf(C0.stoppers)
TrUnregs == SetOf(C0.unregs)
TrWaitFor == SetOf(C0.waitfor)
TrExecTracer == C0.rt
TrEvLimit == C0.lim
TrEvInit == [i \in 1..C0.lim |-> "i" \o ToString(i)]
TrSampled == C0.sampled
TrReentReg == C0.reentreg
TrWithStart == C0.withstart
TrStartEnder == IF C0.withstart THEN "e0" ELSE "none"
Hooks == C0.hooks          \* the tree has the span.end.* points: their lines are owed

E == Trace[l]
NoPend == [p \in Procs |-> <<>>]
(* the End a processor makes inside OnStart runs before the harness installs its hook: it owes nothing *)
Owe(e, pt) == IF Hooks /\ e # StartEnder THEN <<pt>> ELSE <<>>

HW(n) == IF n > TLCGet(1) THEN TLCSet(1, n) ELSE TRUE
Adv == l' = l + 1 /\ HW(l + 1)
(* a silent step of p / a step of p that is the current line; `after` = the lines p owes afterwards *)
Sil(p, after) == pend[p] = <<>> /\ pend' = [pend EXCEPT ![p] = after] /\ l' = l
Lin(p, after) == pend[p] = <<>> /\ pend' = [pend EXCEPT ![p] = after] /\ Adv
Confirm(p, pt) == /\ pend[p] # <<>> /\ Head(pend[p]) = pt
                  /\ pend' = [pend EXCEPT ![p] = Tail(@)] /\ Adv /\ UNCHANGED vars
Skip == Adv /\ UNCHANGED <<vars, pend>>

(* ---------------------------------------------------------------- look-ahead *)
(* The OUTCOME of a check under span.mu is logged only later: by the process' own next line (which verif point  *)
(* an End call passes next, what IsRecording returned) or by the snapshot a processor is handed (which calls'   *)
(* tokens it holds).  A silent check step is therefore taken only in a state in which its outcome is the one   *)
(* the rest of the same trace shows; this is implied by the Confirm / LRet / DataOK conditions further down    *)
(* the trace and only spares TLC the exploration of guesses that are bound to fail there.                       *)
(* Ahead = FALSE switches the look-ahead off: the driver re-runs a scenario that drifted that way (bounded), so   *)
(* that the reported line is the one whose own conditions fail, not the check whose outcome it contradicts.     *)
Ahead == @AHEAD@
RECURSIVE NextHookOf(_, _), NextRetOf(_, _), NextSnap(_)
NextHookOf(p, i) == IF i > Len(Trace) \/ Trace[i].ev \in {"EndScenario", "Cfg"} THEN "none"
                    ELSE IF Trace[i].ev = "Hook" /\ Trace[i].span = 1 /\ Trace[i].pid = p THEN Trace[i].point
                    ELSE NextHookOf(p, i + 1)
NextRetOf(p, i) == IF i > Len(Trace) \/ Trace[i].ev \in {"EndScenario", "Cfg"} THEN 0
                   ELSE IF Trace[i].ev = "Ret" /\ Trace[i].proc # "fin" /\ Trace[i].op \in {"IsRec", "ETime"} /\ Trace[i].pid = p THEN i
                   ELSE NextRetOf(p, i + 1)
NextSnap(i) == IF i > Len(Trace) \/ Trace[i].ev \in {"EndScenario", "Cfg"} THEN 0
               ELSE IF Trace[i].ev = "OnEnd" /\ Trace[i].span = 1 THEN i
               ELSE NextSnap(i + 1)
(* End: the not-recording path is the one whose next point is span.end.ignored *)
ECheckAhead(e) == (Ahead /\ Hooks /\ e # StartEnder) => ((endTime # "none") = (NextHookOf(e, l) = "span.end.ignored"))
(* IsRecording / EndTime(): what the call returns is what it read *)
RReadAhead(r) == LET i == NextRetOf(r, l) IN
                 (Ahead /\ i > 0) => ((endTime = "none") = (IF Trace[i].op = "IsRec" THEN Trace[i].val ELSE Trace[i].arg = 0))
(* mutators: a call that finds the span recording is in every snapshot taken afterwards (default limits), a call *)
(* whose event is in a snapshot found the span recording (small limits: an event may have been evicted again)   *)
MCheckAhead(m) == LET i == NextSnap(l) IN
                  (Ahead /\ i > 0 /\ ~C0.zero /\ ~(m \in UserMut /\ MShape = "norecheck")) =>
                     IF C0.lim = 0 THEN (endTime = "none") = (m \in SetOf(Trace[i].fullp))
                     ELSE (m \in EvMut /\ m \in SetOf(Trace[i].fullp)) => endTime = "none"
(* the child count does not change once the span is marked ended: the count at the mark is the snapshot's *)
EMarkAhead == LET i == NextSnap(l) IN (Ahead /\ i > 0) => childCount = Trace[i].child

(* ---------------------------------------------------------------- exact lines *)
Mine == E.proc # "fin"          \* the final re-reads (after every call has returned) are the contract's business
LCall == /\ E.ev = "Call" /\ Mine
         /\ CASE E.op = "End" /\ E.span = 1 -> E.pid \in Enders /\ ECall(E.pid) /\ Lin(E.pid, <<>>)
              [] E.op = "Mut" -> E.pid \in Mutators /\ MCall(E.pid) /\ Lin(E.pid, <<>>)
              [] E.op = "Child" -> E.pid \in Children /\ CCall(E.pid) /\ Lin(E.pid, <<>>)
              [] E.op \in {"IsRec", "ETime"} -> E.pid \in Readers /\ RCall(E.pid) /\ Lin(E.pid, <<>>)
              [] E.op = "Reg" -> E.pid \in RegSet /\ GCall(E.pid) /\ Lin(E.pid, <<>>)
              [] E.op = "SD" -> E.pid \in Stoppers /\ SCall(E.pid) /\ Lin(E.pid, <<>>)
              [] E.op = "Unreg" -> E.pid \in Unregs /\ UCall(E.pid) /\ Lin(E.pid, <<>>)
              [] OTHER -> FALSE
LRet == /\ E.ev = "Ret" /\ Mine
        /\ CASE E.op = "End" /\ E.span = 1 -> E.pid \in Enders /\ ERet(E.pid) /\ Lin(E.pid, <<>>)
             [] E.op = "Mut" -> E.pid \in Mutators /\ MRet(E.pid) /\ Lin(E.pid, <<>>)
             [] E.op = "Child" -> E.pid \in Children /\ CRet(E.pid) /\ Lin(E.pid, <<>>)
             \* what IsRecording said / whether EndTime() was zero is what the model's reader read
             [] E.op = "IsRec" -> E.pid \in Readers /\ rval[E.pid] = E.val /\ RRet(E.pid) /\ Lin(E.pid, <<>>)
             [] E.op = "ETime" -> E.pid \in Readers /\ rval[E.pid] = (E.arg = 0) /\ RRet(E.pid) /\ Lin(E.pid, <<>>)
             [] E.op = "Reg" -> E.pid \in RegSet /\ GRet(E.pid) /\ Lin(E.pid, <<>>)
             [] E.op = "SD" -> E.pid \in Stoppers /\ SRet(E.pid) /\ Lin(E.pid, <<>>)
             [] E.op = "Unreg" -> E.pid \in Unregs /\ URet(E.pid) /\ Lin(E.pid, <<>>)
             [] OTHER -> FALSE
(* the snapshot the processor is handed is the model's snapshot *)
ModelFull(s) == {m \in Mutators : IF m \in EvMut THEN m \in SeqSet(s.evq) ELSE PartsOf(m) \subseteq View(s)}
DataOK(s) ==
  LET got == SetOf(E.fullp) IN
  /\ s.child = E.child
  /\ (E.etp = "" \/ s.et = E.etp)
  \* default limits: a call's token is wholly in the real snapshot iff the model's snapshot has the call
  /\ (C0.lim = 0 /\ ~C0.zero) => got = ModelFull(s)
  \* small limits, queues full beforehand: the event FIFO (entries, evictions, dropped counter); attributes over
  \* the limit are dropped and the link FIFO is not modelled: not compared
  /\ (C0.lim > 0) => /\ got \cap EvMut = ModelFull(s) \cap EvMut
                     /\ E.evdrop = s.evdrop
                     /\ E.evmiss = Cardinality({i \in 1..Len(EvInit) : EvInit[i] \notin SeqSet(s.evq)})
  \* every limit 0: the dropped-attributes counter
  /\ C0.zero => E.datt = s.datt
LOnEnd == /\ E.ev = "OnEnd" /\ E.span = 1
          /\ LET e == E.pid IN
             /\ e \in Enders /\ pc[e] = "onend"
             /\ Head(eprocs[e]) = "p" \o ToString(E.p)
             /\ DataOK(esnap[e])
             /\ EOnEnd(e) /\ Lin(e, <<>>)
LGate == /\ E.ev = "Gate"
         /\ CASE E.point = "err.Error" -> E.pid \in Mutators /\ MUser(E.pid) /\ Lin(E.pid, <<>>)
              [] E.point = "panic.Format" -> E.pid \in Enders /\ EPanicFormat(E.pid) /\ Lin(E.pid, <<>>)
              [] E.point = "proc.Shutdown" -> /\ \/ E.pid \in Stoppers /\ SProc(E.pid)
                                                 \/ E.pid \in Unregs /\ UShut(E.pid)
                                              /\ Lin(E.pid, <<>>)
              [] E.point = "proc.OnStart" -> IF WithStart THEN TCall /\ Lin("st", <<>>) ELSE Skip
              [] OTHER -> FALSE

(* ---------------------------------------------------------------- confirmation lines *)
LHook == E.ev = "Hook" /\ E.span = 1 /\ E.pid \in Enders /\ Confirm(E.pid, E.point)

(* ---------------------------------------------------------------- bookkeeping lines *)
LSkip == /\ \/ E.ev \in {"Reread", "ICfg"}
            \/ E.ev \in {"Call", "Ret"} /\ (~Mine \/ (E.op = "End" /\ E.span # 1))
            \/ E.ev \in {"Hook", "OnEnd"} /\ E.span # 1             \* a child span's own End
         /\ Skip
LEnd == /\ E.ev = "EndScenario"
        \* every call of the real run returned: so it has in the model, and nobody owes a line
        /\ E.quiescent => \A x \in Procs : pc[x] \in {"idle", "done"} /\ pend[x] = <<>>
        /\ PrintT("IMPLEND " \o ToJson([sc |-> E.sc, bad |-> mon.bad, line |-> l, states |-> TLCGet("distinct")]))
        /\ Skip
LCfg == /\ E.ev = "Cfg"
        /\ mu' = I0.mu /\ endTime' = I0.endTime /\ parts' = I0.parts /\ childCount' = I0.childCount
        /\ pc' = I0.pc /\ esnap' = I0.esnap /\ eprocs' = I0.eprocs /\ rval' = I0.rval /\ plist' = I0.plist
        /\ win' = I0.win /\ winOverlap' = I0.winOverlap /\ evs' = I0.evs /\ prov' = I0.prov /\ mon' = I0.mon
        /\ pend' = NoPend /\ Adv

(* ---------------------------------------------------------------- silent steps *)
SEnd(e) == \/ ELock(e) /\ Sil(e, <<>>)
           \/ ECheck(e) /\ ECheckAhead(e) /\ Sil(e, <<>>)
           \/ (EPanicUnlock(e) \/ EPanicRelock(e) \/ EPanicRecheck(e) \/ EPanicAddEvent(e)) /\ Sil(e, <<>>)
           \* the return after a lost re-check (recheck shapes) has no point of its own
           \/ EUnlockIgnored(e) /\ Sil(e, IF pc[e] = "unlockign" THEN Owe(e, "span.end.ignored") ELSE <<>>)
           \/ EUnlockForTask(e) /\ Sil(e, Owe(e, "span.end.checked"))
           \/ ETaskEnd(e) /\ Sil(e, Owe(e, "span.end.taskended"))
           \/ (ERelock(e) \/ ERecheck(e)) /\ Sil(e, <<>>)
           \/ EMark(e) /\ EMarkAhead /\ Sil(e, <<>>)
           \/ EUnlock(e) /\ Sil(e, Owe(e, "span.end.marked"))
           \/ (EGetProcs(e) \/ ESnapLock(e) \/ ESnapCopy(e) \/ ESnapUnlock(e)) /\ Sil(e, <<>>)
SMut(m) == \/ (MPreCheck(m) \/ MLock(m) \/ MApply(m) \/ MApplyEv(m) \/ MUnlock(m)) /\ Sil(m, <<>>)
           \/ MCheck(m) /\ MCheckAhead(m) /\ Sil(m, <<>>)
SChild(c) == (CLock(c) \/ CIncr(c) \/ CUnlock(c)) /\ Sil(c, <<>>)
SRead(r) == \/ (RLock(r) \/ RUnlock(r)) /\ Sil(r, <<>>)
            \/ RRead(r) /\ RReadAhead(r) /\ Sil(r, <<>>)
SReg(g) == (GLock(g) \/ GCheck(g) \/ GStore(g) \/ GUnlock(g)) /\ Sil(g, <<>>)
(* the harness' gate sits in the Shutdown of processor p1: a provider without it runs no user code there *)
NoP1 == Len(Processors) = 0 \/ Processors[1] \notin SeqSet(plist)
SStop(t) == \/ (SLock(t) \/ SSet(t) \/ Reent(t) \/ SWait(t) \/ SClear(t) \/ SUnlock(t)) /\ Sil(t, <<>>)
            \/ NoP1 /\ SProc(t) /\ Sil(t, <<>>)
SUnreg(u) == \/ (ULock(u) \/ UCheck(u) \/ Reent(u) \/ URemove(u) \/ UUnlock(u)) /\ Sil(u, <<>>)
             \/ NoP1 /\ UShut(u) /\ Sil(u, <<>>)
SStart == WithStart /\ (TOnStartDone \/ TRTLock \/ TRTCheck \/ TRTUnlock) /\ Sil("st", <<>>)
Silent == \/ \E e \in Enders : SEnd(e)
          \/ \E m \in Mutators : SMut(m)
          \/ \E c \in Children : SChild(c)
          \/ \E r \in Readers : SRead(r)
          \/ \E g \in RegSet : SReg(g)
          \/ \E t \in Stoppers : SStop(t)
          \/ \E u \in Unregs : SUnreg(u)
          \/ SStart

TInit == Init /\ l = 1 /\ pend = NoPend /\ TLCSet(1, 1)
TStep == /\ l <= Len(Trace)
         /\ \/ LCall \/ LRet \/ LOnEnd \/ LGate \/ LHook \/ LSkip \/ LEnd \/ LCfg
            \/ Silent
TDone == l = Len(Trace) + 1 /\ Accepted(l) /\ TLCSet("exit", TRUE) /\ UNCHANGED tvars
TSpec == TInit /\ [][TStep \/ TDone]_tvars
(* evaluated when TLC finished without reaching the end: the first line no explanation gets past *)
TPost == PrintT("HWM " \o ToString(TLCGet(1)))
=============================================================================
