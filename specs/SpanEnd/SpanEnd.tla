------------------------------ MODULE SpanEnd ------------------------------
(* Implementation-shaped specification of ending a recording span (C10).        *)
(* One action per lock operation / critical-section step of                     *)
(* sdk/trace/span.go: End (:448-508), the mutators (lock, isRecording, apply,   *)
(* unlock), addChild (:846-857), IsRecording (:170-178), snapshot (:814-844);   *)
(* see DESIGN.md Appendix A.2.                                                  *)
(*                                                                              *)
(* Processes: enders e (span.End), mutators m (one call that writes two parts:  *)
(* SetAttributes(k1,k2), AddEvent(name,attr), SetStatus(code,desc) ...), child  *)
(* starters c (tracer.Start with the span as parent -> addChild), readers r     *)
(* (IsRecording), registrars g (TracerProvider.RegisterSpanProcessor while the  *)
(* span is in use; End reads the list through an atomic pointer).  One span,    *)
(* the processors Processors registered beforehand.                             *)
(*                                                                              *)
(* Shape = "window"   : the code as pinned: with execution tracing on, End      *)
(*                      unlocks mu around executionTracerTaskEnd and relocks    *)
(*                      WITHOUT re-checking isRecording (:486-490).             *)
(* Shape = "recheck"  : the same window, but isRecording is checked again after *)
(*                      the relock and a call that lost the race returns.       *)
(* Shape = "markfirst": endTime is set in the critical section of the check,    *)
(*                      the task is ended after the unlock (the proposed fix).  *)
(* User code inside span methods is a window of its own: RecordError calls      *)
(* err.Error() (mutators in UserMut, MShape), End deferred during a panic       *)
(* formats the recovered value (enders in Panickers, PShape).  Shapes: "locked" *)
(* = the user code runs under span.mu (the pinned code), "recheck" = it runs    *)
(* without the lock and isRecording is checked again under the lock afterwards  *)
(* (a correct refactoring), "norecheck" = it runs without the lock and nothing  *)
(* is checked afterwards (named deviations D2 = panic format window, D3 = late  *)
(* RecordError; D3 is observable only if the snapshot aliases the event queue,  *)
(* SnapShares, and the queue is at its limit EvLimit).                          *)
(* Monitor variables (mon) observe API-level facts only (calls, returns, what   *)
(* a recording processor is handed) and carry the contract of the property.     *)
EXTENDS Naturals, Sequences, FiniteSets, TLC

CONSTANTS Enders, Mutators, Children, Readers,
          Registrars,   \* sequence of processes that each register one more processor while the span is in use
          Processors,   \* sequence of processor names registered before the span started
          Shared,       \* subset of Mutators whose parts live in storage the snapshot aliases (attributes)
          ExecTracer,   \* BOOLEAN: span started while runtime/trace was on (executionTracerTaskEnd # nil)
          Shape,        \* "window" | "recheck" | "markfirst"
          AllowKnown,   \* TRUE: admit the known deviation D1 (double End through the unlock window)
          UserMut,      \* subset of Mutators whose call runs user code (RecordError -> err.Error())
          MShape,       \* "locked" | "recheck" | "norecheck": where that user code runs
          EvMut,        \* subset of Mutators that append ONE event to the bounded FIFO (AddEvent, RecordError)
          EvLimit,      \* EventCountLimit (0 = never reached)
          EvInit,       \* events recorded before the processes start (sequence of names)
          SnapShares,   \* BOOLEAN: the snapshot aliases the event queue instead of copying it
          Panickers,    \* subset of Enders whose End runs deferred during a panic (recover branch)
          PShape,       \* "locked" | "recheck" | "norecheck": where the recovered value is formatted
          Sampled,      \* BOOLEAN: sampling decision of the span, RecordAndSample / RecordOnly. Every clause is independent
                        \* of it: a RecordOnly span is a recording span and goes through every processor.
          ChildGuard,   \* "recording" (addChild counts while the parent records) | "sampled" (named deviation D5: Start
                        \* skips addChild for a parent without the sampled flag)
          Stoppers,     \* processes calling TracerProvider.Shutdown
          Unregs,       \* processes calling TracerProvider.UnregisterSpanProcessor(Processors[1])
          PreCheck,     \* BOOLEAN: Register/UnregisterSpanProcessor test isShutdown before taking p.mu
          ReentReg,     \* BOOLEAN: the processors' Shutdown calls RegisterSpanProcessor (re-entrant use from a callback)
          WaitFor,      \* registrars started by a processor's Shutdown, which waits for them (reconfiguration worker)
          UnregShape,   \* "locked": Unregister runs the processor's Shutdown while holding p.mu | "unlocked": afterwards
          WithStart,    \* BOOLEAN: tracer.Start is a process of its own ("st"): OnStart fan-out, then runtimeTrace
          StartEnder,   \* "none" | the ender whose End is called by a processor INSIDE OnStart (the span is ended before
                        \* Start returns; executionTracerTaskEnd is still nil for that End)
          RTShape,      \* "plain": runtimeTrace = lock, store task end, unlock | "leak" (named deviation D6): returns
                        \* early when the span is already ended WITHOUT unlocking
          ZeroMut,      \* subset of Mutators: SetAttributes with AttributeCountLimit = 0, observable only through the
                        \* dropped-attributes counter (evs.datt), 2 attributes per call
          ZShape        \* "locked": counted under the lock after the recording check | "hoisted" (named deviation D7):
                        \* counted before the lock and the check

VARIABLES mu,        \* span lock holder: "none" | process
          endTime,   \* "none" (zero) | the ender whose end time is stored
          parts,     \* set of <<m, k>>: mutation parts applied to the span
          childCount,
          pc,        \* program counter of every process
          esnap,     \* ender -> the snapshot it built ("none" before)
          eprocs,    \* ender -> processors it still has to call
          rval,      \* reader -> what IsRecording read
          plist,     \* the provider's processor list (read through an atomic pointer)
          evs,       \* [q, drop]: the span's event FIFO and its dropped counter
          prov,      \* [mu, down]: the provider's lock holder and its isShutdown flag
          win,       \* enders between a passed recording check and their EMark (history, for D1)
          winOverlap,\* two enders were in `win` at the same time (history, for D1)
          mon
vars == <<mu, endTime, parts, childCount, pc, esnap, eprocs, rval, plist, evs, prov, win, winOverlap, mon>>

RegSet == {Registrars[i] : i \in 1..Len(Registrars)}
Procs == Enders \cup Mutators \cup Children \cup Readers \cup RegSet \cup Stoppers \cup Unregs \cup (IF WithStart THEN {"st"} ELSE {})
(* users get the span when Start returns; a processor may end it inside OnStart *)
CanCall(x) == IF ~WithStart THEN TRUE ELSE IF x = StartEnder THEN pc["st"] = "onstart" ELSE pc["st"] = "done"
ET(e) == ExecTracer /\ e # StartEnder
ProcSet == {Processors[i] : i \in 1..Len(Processors)}
(* the processor registered by the i-th registrar is named after its position in the final list *)
Late(g) == LET i == CHOOSE j \in 1..Len(Registrars) : Registrars[j] = g IN "p" \o ToString(Len(Processors) + i)
LateSet == {Late(g) : g \in RegSet}
PartsOf(m) == {<<m, 1>>, <<m, 2>>}
NoSnap == [et |-> "none", copied |-> {}, child |-> 0, evq |-> <<>>, evdrop |-> 0, datt |-> 0]
(* what a processor reads from a snapshot now: copied parts + the aliased storage *)
View(s) == s.copied \cup {x \in parts : x[1] \in Shared}
(* events: a copy, or -- aliased and full, so that a later add shifts the array in place -- the live queue *)
VEv(s) == IF SnapShares /\ EvLimit > 0 /\ Len(s.evq) = EvLimit THEN evs.q ELSE s.evq
Push(ev, x) == IF EvLimit > 0 /\ Len(ev.q) >= EvLimit THEN [ev EXCEPT !.q = Append(Tail(@), x), !.drop = @ + 1]
                                                      ELSE [ev EXCEPT !.q = Append(@, x)]
SeqSet(q) == {q[i] : i \in 1..Len(q)}

(* the initial values as one record: Init below, and the reset between two scenarios of Trace_SpanEndImpl.tla *)
I0 == [mu |-> "none", endTime |-> "none", parts |-> {}, childCount |-> 0,
       pc |-> [x \in Procs |-> "idle"],
       esnap |-> [e \in Enders |-> NoSnap], eprocs |-> [e \in Enders |-> <<>>],
       rval |-> [r \in Readers |-> FALSE], plist |-> Processors, win |-> {}, winOverlap |-> FALSE,
       evs |-> [q |-> EvInit, drop |-> 0, datt |-> 0], prov |-> [mu |-> "none", down |-> FALSE],
       mon |-> [endCalled |-> FALSE, endOpen |-> 0, endRet |-> FALSE,
                called |-> {}, mustIn |-> {}, mustOut |-> {},
                childMustIn |-> 0, childEligible |-> 0, rAfter |-> {},
                must |-> ProcSet,     \* processors whose registration returned before any End call
                sd |-> FALSE,         \* some TracerProvider.Shutdown call has begun (delivery is C15's subject from then on)
                onEnd |-> [p \in ProcSet \cup LateSet |-> 0], ets |-> {}, views |-> {}, taskEnds |-> 0, bad |-> {}]]
Init ==
  /\ mu = I0.mu /\ endTime = I0.endTime /\ parts = I0.parts /\ childCount = I0.childCount
  /\ pc = I0.pc /\ esnap = I0.esnap /\ eprocs = I0.eprocs
  /\ rval = I0.rval /\ plist = I0.plist /\ win = I0.win /\ winOverlap = I0.winOverlap
  /\ evs = I0.evs /\ prov = I0.prov /\ mon = I0.mon

Go(x, l) == pc' = [pc EXCEPT ![x] = l]
Lock(x) == mu = "none" /\ mu' = x
Unlock(x) == mu = x /\ mu' = "none"

(* ------------------------------------------------------------------ enders *)
AfterCheck(e) == IF ET(e) /\ Shape \in {"window", "recheck"} THEN "unlockT" ELSE "mark"
ECall(e) == /\ pc[e] = "idle" /\ CanCall(e) /\ Go(e, "lock")
            /\ mon' = [mon EXCEPT !.endCalled = TRUE, !.endOpen = @ + 1]
            /\ UNCHANGED <<prov, evs, plist, mu, endTime, parts, childCount, esnap, eprocs, rval, win, winOverlap>>
ELock(e) == /\ pc[e] = "lock" /\ Lock(e) /\ Go(e, "check")
            /\ UNCHANGED <<prov, evs, plist, endTime, parts, childCount, esnap, eprocs, rval, win, winOverlap, mon>>
ECheck(e) == /\ pc[e] = "check"
             /\ IF endTime # "none"
                  THEN Go(e, "unlockign") /\ UNCHANGED <<prov, evs, plist, win, winOverlap>>
                  ELSE /\ Go(e, IF e \in Panickers THEN (IF PShape = "locked" THEN "pfmt" ELSE "punlock") ELSE AfterCheck(e))
                       /\ win' = win \cup {e} /\ winOverlap' = (winOverlap \/ win # {})
             /\ UNCHANGED <<prov, evs, plist, mu, endTime, parts, childCount, esnap, eprocs, rval, mon>>
(* End deferred during a panic: recover(), describe the recovered value (user code: Error()/String(), stack
   capture), add an exception event, go on ending the span, re-panic afterwards *)
EPanicUnlock(e) == /\ pc[e] = "punlock" /\ Unlock(e) /\ Go(e, "pfmt")
                   /\ UNCHANGED <<prov, evs, plist, endTime, parts, childCount, esnap, eprocs, rval, win, winOverlap, mon>>
EPanicFormat(e) == /\ pc[e] = "pfmt" /\ Go(e, IF PShape = "locked" THEN "paddev" ELSE "prelock")
                   /\ UNCHANGED <<prov, evs, plist, mu, endTime, parts, childCount, esnap, eprocs, rval, win, winOverlap, mon>>
EPanicRelock(e) == /\ pc[e] = "prelock" /\ Lock(e) /\ Go(e, IF PShape = "recheck" THEN "precheck2" ELSE "paddev")
                   /\ UNCHANGED <<prov, evs, plist, endTime, parts, childCount, esnap, eprocs, rval, win, winOverlap, mon>>
EPanicRecheck(e) == /\ pc[e] = "precheck2"
                    /\ IF endTime # "none" THEN (Go(e, "unlockign2") /\ win' = win \ {e})
                                           ELSE (Go(e, "paddev") /\ UNCHANGED win)
                    /\ UNCHANGED <<prov, evs, plist, mu, endTime, parts, childCount, esnap, eprocs, rval, winOverlap, mon>>
EPanicAddEvent(e) == /\ pc[e] = "paddev" /\ evs' = Push(evs, e) /\ Go(e, AfterCheck(e))
                     /\ UNCHANGED <<prov, plist, mu, endTime, parts, childCount, esnap, eprocs, rval, win, winOverlap, mon>>
EUnlockIgnored(e) == /\ pc[e] \in {"unlockign", "unlockign2"} /\ Unlock(e) /\ Go(e, "ret")
                     /\ UNCHANGED <<prov, evs, plist, endTime, parts, childCount, esnap, eprocs, rval, win, winOverlap, mon>>
EUnlockForTask(e) == /\ pc[e] = "unlockT" /\ Unlock(e) /\ Go(e, "task")
                     /\ UNCHANGED <<prov, evs, plist, endTime, parts, childCount, esnap, eprocs, rval, win, winOverlap, mon>>
ETaskEnd(e) == /\ pc[e] \in {"task", "task2"}
               /\ Go(e, IF pc[e] = "task" THEN "relock" ELSE "procs")
               /\ mon' = [mon EXCEPT !.taskEnds = @ + 1]
               /\ UNCHANGED <<prov, evs, plist, mu, endTime, parts, childCount, esnap, eprocs, rval, win, winOverlap>>
ERelock(e) == /\ pc[e] = "relock" /\ Lock(e)
              /\ Go(e, IF Shape = "recheck" THEN "recheck" ELSE "mark")     \* "window": no re-check of isRecording
              /\ UNCHANGED <<prov, evs, plist, endTime, parts, childCount, esnap, eprocs, rval, win, winOverlap, mon>>
ERecheck(e) == /\ pc[e] = "recheck"
               /\ IF endTime # "none" THEN (Go(e, "unlockign2") /\ win' = win \ {e})     \* lost the race: End does nothing
                                      ELSE (Go(e, "mark") /\ UNCHANGED win)
               /\ UNCHANGED <<prov, evs, plist, mu, endTime, parts, childCount, esnap, eprocs, rval, winOverlap, mon>>
EMark(e) == /\ pc[e] = "mark" /\ endTime' = e /\ Go(e, "unlock") /\ win' = win \ {e}
            /\ UNCHANGED <<prov, evs, plist, mu, parts, childCount, esnap, eprocs, rval, winOverlap, mon>>
EUnlock(e) == /\ pc[e] = "unlock" /\ Unlock(e)
              /\ Go(e, IF ET(e) /\ Shape = "markfirst" THEN "task2" ELSE "procs")
              /\ UNCHANGED <<prov, evs, plist, endTime, parts, childCount, esnap, eprocs, rval, win, winOverlap, mon>>
EGetProcs(e) == /\ pc[e] = "procs" /\ eprocs' = [eprocs EXCEPT ![e] = plist]
                /\ Go(e, IF plist = <<>> THEN "ret" ELSE "snaplock")
                /\ UNCHANGED <<prov, evs, plist, mu, endTime, parts, childCount, esnap, rval, win, winOverlap, mon>>
ESnapLock(e) == /\ pc[e] = "snaplock" /\ Lock(e) /\ Go(e, "snapcopy")
                /\ UNCHANGED <<prov, evs, plist, endTime, parts, childCount, esnap, eprocs, rval, win, winOverlap, mon>>
ESnapCopy(e) == /\ pc[e] = "snapcopy" /\ Go(e, "snapunlock")
                /\ esnap' = [esnap EXCEPT ![e] = [et |-> endTime, copied |-> {x \in parts : x[1] \notin Shared},
                                                   child |-> childCount, evq |-> evs.q, evdrop |-> evs.drop,
                                                   datt |-> evs.datt]]
                /\ UNCHANGED <<prov, evs, plist, mu, endTime, parts, childCount, eprocs, rval, win, winOverlap, mon>>
ESnapUnlock(e) == /\ pc[e] = "snapunlock" /\ Unlock(e) /\ Go(e, "onend")
                  /\ UNCHANGED <<prov, evs, plist, endTime, parts, childCount, esnap, eprocs, rval, win, winOverlap, mon>>
(* the processor is handed the snapshot: this is what the contract judges *)
Torn(v) == \E m \in Mutators : PartsOf(m) \cap v # {} /\ ~(PartsOf(m) \subseteq v)
Judge(m, p, s) ==
  LET v == View(s) IN
     (IF m.onEnd[p] >= 1 THEN {"delivered-twice"} ELSE {})
     \cup (IF m.ets \cup {s.et} # {s.et} THEN {"end-time-differs"} ELSE {})
     \cup (IF Torn(v) THEN {"torn-mutation"} ELSE {})
     \cup (IF VEv(s) # s.evq THEN {"torn-mutation"} ELSE {})     \* events no longer match the counters copied with them
     \cup (IF \E x \in (m.mustIn \ EvMut) \ ZeroMut : ~(PartsOf(x) \subseteq v) THEN {"mutation-lost"} ELSE {})   \* (events may be evicted)
     \* limit 0: a mutation is observable only through the dropped counter: it counts exactly the mutations that are "in"
     \cup (IF s.datt % 2 # 0 \/ s.datt < 2 * Cardinality(m.mustIn \cap ZeroMut)
              \/ s.datt > 2 * Cardinality((m.called \ m.mustOut) \cap ZeroMut) THEN {"dropped-count"} ELSE {})
     \cup (IF \E x \in m.mustOut : PartsOf(x) \cap v # {} \/ x \in SeqSet(VEv(s)) THEN {"mutation-after-end"} ELSE {})
     \cup (IF s.child < m.childMustIn \/ s.child > m.childEligible THEN {"child-count"} ELSE {})
EOnEnd(e) == /\ pc[e] = "onend"
             /\ LET p == Head(eprocs[e]) IN
                mon' = [mon EXCEPT !.onEnd[p] = @ + 1, !.ets = @ \cup {esnap[e].et},
                                   !.views = @ \cup {[p |-> p, e |-> e, view |-> View(esnap[e]), ev |-> VEv(esnap[e])]},
                                   !.bad = @ \cup Judge(mon, p, esnap[e])]
             /\ eprocs' = [eprocs EXCEPT ![e] = Tail(@)]
             /\ Go(e, IF Len(eprocs[e]) = 1 THEN "ret" ELSE "onend")
             /\ UNCHANGED <<prov, evs, plist, mu, endTime, parts, childCount, esnap, rval, win, winOverlap>>
ERet(e) == /\ pc[e] = "ret" /\ Go(e, "done")
           /\ mon' = [mon EXCEPT !.endOpen = @ - 1, !.endRet = TRUE,
                        !.bad = @ \cup (IF mon.endOpen = 1 /\ \E p \in mon.must : mon.onEnd[p] = 0
                                          THEN {"not-delivered"} ELSE {})]
           /\ UNCHANGED <<prov, evs, plist, mu, endTime, parts, childCount, esnap, eprocs, rval, win, winOverlap>>

(* ---------------------------------------------------------------- mutators *)
ApplyPc(m) == IF m \in ZeroMut THEN "applyz" ELSE IF m \in EvMut THEN "applyev" ELSE "apply1"
Hoisted(m) == m \in ZeroMut /\ ZShape = "hoisted"      \* D7: limit-0 branch before the lock and the recording check
MCall(m) == /\ pc[m] = "idle" /\ CanCall(m)
            /\ Go(m, IF Hoisted(m) THEN "ret" ELSE IF m \in UserMut /\ MShape # "locked" THEN "precheck" ELSE "lock")
            /\ evs' = IF Hoisted(m) THEN [evs EXCEPT !.datt = @ + 2] ELSE evs
            /\ mon' = [mon EXCEPT !.called = @ \cup {m}, !.mustOut = IF mon.endRet THEN @ \cup {m} ELSE @]
            /\ UNCHANGED <<prov, plist, mu, endTime, parts, childCount, esnap, eprocs, rval, win, winOverlap>>
MLock(m) == /\ pc[m] = "lock" /\ Lock(m) /\ Go(m, "check")
            /\ UNCHANGED <<prov, evs, plist, endTime, parts, childCount, esnap, eprocs, rval, win, winOverlap, mon>>
(* unlocked shapes: `if !s.IsRecording() { return }` (takes and releases the lock), then the user code, then the lock *)
MPreCheck(m) == /\ pc[m] = "precheck" /\ mu = "none" /\ Go(m, IF endTime = "none" THEN "user" ELSE "ret")
                /\ UNCHANGED <<prov, evs, plist, mu, endTime, parts, childCount, esnap, eprocs, rval, win, winOverlap, mon>>
MUser(m) == /\ pc[m] = "user" /\ Go(m, IF MShape = "locked" THEN ApplyPc(m) ELSE "lock")      \* err.Error()
            /\ UNCHANGED <<prov, evs, plist, mu, endTime, parts, childCount, esnap, eprocs, rval, win, winOverlap, mon>>
MCheck(m) == /\ pc[m] = "check"
             /\ Go(m, IF m \in UserMut /\ MShape = "norecheck" THEN ApplyPc(m)       \* D3: no check under the lock
                       ELSE IF endTime # "none" THEN "unlock"
                       ELSE IF m \in UserMut /\ MShape = "locked" THEN "user" ELSE ApplyPc(m))
             /\ UNCHANGED <<prov, evs, plist, mu, endTime, parts, childCount, esnap, eprocs, rval, win, winOverlap, mon>>
MApply(m) == /\ pc[m] \in {"apply1", "apply2"}
             /\ parts' = parts \cup {<<m, IF pc[m] = "apply1" THEN 1 ELSE 2>>}
             /\ Go(m, IF pc[m] = "apply1" THEN "apply2" ELSE "unlock")
             /\ UNCHANGED <<prov, evs, plist, mu, endTime, childCount, esnap, eprocs, rval, win, winOverlap, mon>>
MApplyEv(m) == /\ pc[m] \in {"applyev", "applyz"} /\ Go(m, "unlock")
               /\ evs' = IF pc[m] = "applyz" THEN [evs EXCEPT !.datt = @ + 2] ELSE Push(evs, m)
               /\ UNCHANGED <<prov, plist, mu, endTime, parts, childCount, esnap, eprocs, rval, win, winOverlap, mon>>
MUnlock(m) == /\ pc[m] = "unlock" /\ Unlock(m) /\ Go(m, "ret")
              /\ UNCHANGED <<prov, evs, plist, endTime, parts, childCount, esnap, eprocs, rval, win, winOverlap, mon>>
MRet(m) == /\ pc[m] = "ret" /\ Go(m, "done")
           /\ mon' = [mon EXCEPT !.mustIn = IF mon.endCalled THEN @ ELSE @ \cup {m}]
           /\ UNCHANGED <<prov, evs, plist, mu, endTime, parts, childCount, esnap, eprocs, rval, win, winOverlap>>

(* ---------------------------------------------------------- child starters *)
CCall(c) == /\ pc[c] = "idle" /\ CanCall(c) /\ Go(c, IF ChildGuard = "sampled" /\ ~Sampled THEN "ret" ELSE "lock")    \* D5
            /\ mon' = [mon EXCEPT !.childEligible = IF mon.endRet THEN @ ELSE @ + 1]
            /\ UNCHANGED <<prov, evs, plist, mu, endTime, parts, childCount, esnap, eprocs, rval, win, winOverlap>>
CLock(c) == /\ pc[c] = "lock" /\ Lock(c) /\ Go(c, "incr")
            /\ UNCHANGED <<prov, evs, plist, endTime, parts, childCount, esnap, eprocs, rval, win, winOverlap, mon>>
CIncr(c) == /\ pc[c] = "incr" /\ Go(c, "unlock")
            /\ childCount' = IF endTime = "none" THEN childCount + 1 ELSE childCount
            /\ UNCHANGED <<prov, evs, plist, mu, endTime, parts, esnap, eprocs, rval, win, winOverlap, mon>>
CUnlock(c) == /\ pc[c] = "unlock" /\ Unlock(c) /\ Go(c, "ret")
              /\ UNCHANGED <<prov, evs, plist, endTime, parts, childCount, esnap, eprocs, rval, win, winOverlap, mon>>
CRet(c) == /\ pc[c] = "ret" /\ Go(c, "done")
           /\ mon' = [mon EXCEPT !.childMustIn = IF mon.endCalled THEN @ ELSE @ + 1]
           /\ UNCHANGED <<prov, evs, plist, mu, endTime, parts, childCount, esnap, eprocs, rval, win, winOverlap>>

(* ----------------------------------------------------------------- readers *)
RCall(r) == /\ pc[r] = "idle" /\ CanCall(r) /\ Go(r, "lock")
            /\ mon' = [mon EXCEPT !.rAfter = IF mon.endRet THEN @ \cup {r} ELSE @]
            /\ UNCHANGED <<prov, evs, plist, mu, endTime, parts, childCount, esnap, eprocs, rval, win, winOverlap>>
RLock(r) == /\ pc[r] = "lock" /\ Lock(r) /\ Go(r, "read")
            /\ UNCHANGED <<prov, evs, plist, endTime, parts, childCount, esnap, eprocs, rval, win, winOverlap, mon>>
RRead(r) == /\ pc[r] = "read" /\ rval' = [rval EXCEPT ![r] = (endTime = "none")] /\ Go(r, "unlock")
            /\ UNCHANGED <<prov, evs, plist, mu, endTime, parts, childCount, esnap, eprocs, win, winOverlap, mon>>
RUnlock(r) == /\ pc[r] = "unlock" /\ Unlock(r) /\ Go(r, "ret")
              /\ UNCHANGED <<prov, evs, plist, endTime, parts, childCount, esnap, eprocs, rval, win, winOverlap, mon>>
RRet(r) == /\ pc[r] = "ret" /\ Go(r, "done")
           /\ mon' = [mon EXCEPT !.bad = @ \cup (IF r \in mon.rAfter /\ rval[r] THEN {"recording-after-end"} ELSE {})
                                           \cup (IF ~mon.endCalled /\ ~rval[r] THEN {"not-recording-before-end"} ELSE {})]
           /\ UNCHANGED <<prov, evs, plist, mu, endTime, parts, childCount, esnap, eprocs, rval, win, winOverlap>>

(* -------------------------------------------------------------- registrars *)
(* TracerProvider.RegisterSpanProcessor: copy the list, append, store the pointer (one linearization point) *)
(* RegisterSpanProcessor: [isShutdown pre-check,] p.mu.Lock, isShutdown check, copy+append+store, unlock.  A worker *)
(* started by a processor's Shutdown (WaitFor) exists only while that Shutdown runs.                               *)
PLock(x) == prov.mu = "none" /\ prov' = [prov EXCEPT !.mu = x]
PUnlock(x) == prov.mu = x /\ prov' = [prov EXCEPT !.mu = "none"]
GCall(g) == /\ pc[g] = "idle" /\ CanCall(g) /\ (g \in WaitFor => \E t \in Stoppers : pc[t] = "swait")
            /\ Go(g, IF PreCheck /\ prov.down THEN "ret" ELSE "glock")
            /\ UNCHANGED <<prov, evs, mu, endTime, parts, childCount, esnap, eprocs, rval, plist, win, winOverlap, mon>>
GLock(g) == /\ pc[g] = "glock" /\ PLock(g) /\ Go(g, "gcheck")
            /\ UNCHANGED <<evs, mu, endTime, parts, childCount, esnap, eprocs, rval, plist, win, winOverlap, mon>>
GCheck(g) == /\ pc[g] = "gcheck" /\ Go(g, IF prov.down THEN "gunlock" ELSE "store")
             /\ UNCHANGED <<prov, evs, mu, endTime, parts, childCount, esnap, eprocs, rval, plist, win, winOverlap, mon>>
GStore(g) == /\ pc[g] = "store" /\ plist' = Append(plist, Late(g)) /\ Go(g, "gunlock")
             /\ UNCHANGED <<prov, evs, mu, endTime, parts, childCount, esnap, eprocs, rval, win, winOverlap, mon>>
GUnlock(g) == /\ pc[g] = "gunlock" /\ PUnlock(g) /\ Go(g, "ret")
              /\ UNCHANGED <<evs, mu, endTime, parts, childCount, esnap, eprocs, rval, plist, win, winOverlap, mon>>
GRet(g) == /\ pc[g] = "ret" /\ Go(g, "done")
           /\ mon' = [mon EXCEPT !.must = IF mon.endCalled \/ mon.sd \/ Late(g) \notin SeqSet(plist) THEN @ ELSE @ \cup {Late(g)}]
           /\ UNCHANGED <<prov, evs, mu, endTime, parts, childCount, esnap, eprocs, rval, plist, win, winOverlap>>

(* ---------------------------------------------------------------- stoppers *)
(* TracerProvider.Shutdown: recursion check, p.mu.Lock, CAS isShutdown, every processor's Shutdown (user code: it  *)
(* may call back into the provider, ReentReg, or wait for a worker that does, WaitFor) WHILE HOLDING p.mu, clear   *)
(* the list, unlock.  From the first Shutdown / Unregister call on, delivery is C15's subject (mon.must).          *)
Rest == <<evs, mu, endTime, parts, childCount, esnap, eprocs, rval, win, winOverlap>>
SCall(t) == /\ pc[t] = "idle" /\ CanCall(t) /\ Go(t, IF prov.down THEN "ret" ELSE "slock")
            /\ mon' = [mon EXCEPT !.must = {}, !.sd = TRUE] /\ UNCHANGED <<prov, plist, Rest>>
SLock(t) == /\ pc[t] = "slock" /\ PLock(t) /\ Go(t, "sset") /\ UNCHANGED <<plist, mon, Rest>>
SSet(t) == /\ pc[t] = "sset"
           /\ IF prov.down THEN (Go(t, "sunlock") /\ UNCHANGED prov)
                            ELSE (Go(t, "sproc") /\ prov' = [prov EXCEPT !.down = TRUE])
           /\ UNCHANGED <<plist, mon, Rest>>
(* inside the processors' Shutdown: a re-entrant RegisterSpanProcessor returns at its pre-check -- or queues up   *)
(* behind p.mu, which its own caller holds                                                                       *)
SProc(t) == /\ pc[t] = "sproc" /\ Go(t, IF ReentReg /\ ~PreCheck THEN "reent" ELSE "swait")
            /\ UNCHANGED <<prov, plist, mon, Rest>>
Reent(x) == /\ pc[x] = "reent" /\ prov.mu = "none"        \* p.mu is not re-entrant: never enabled for its holder
            /\ Go(x, IF x \in Stoppers THEN "swait" ELSE IF UnregShape = "locked" THEN "uremove" ELSE "ret")
            /\ UNCHANGED <<prov, plist, mon, Rest>>
SWait(t) == /\ pc[t] = "swait" /\ (\A g \in WaitFor : pc[g] = "done") /\ Go(t, "sclear")
            /\ UNCHANGED <<prov, plist, mon, Rest>>
SClear(t) == /\ pc[t] = "sclear" /\ plist' = <<>> /\ Go(t, "sunlock") /\ UNCHANGED <<prov, mon, Rest>>
SUnlock(t) == /\ pc[t] = "sunlock" /\ PUnlock(t) /\ Go(t, "ret") /\ UNCHANGED <<plist, mon, Rest>>
SRet(t) == /\ pc[t] = "ret" /\ Go(t, "done") /\ UNCHANGED <<prov, plist, mon, Rest>>
StopNext(t) == SCall(t) \/ SLock(t) \/ SSet(t) \/ SProc(t) \/ Reent(t) \/ SWait(t) \/ SClear(t) \/ SUnlock(t) \/ SRet(t)

(* ------------------------------------------------------------ unregistrars *)
(* UnregisterSpanProcessor(Processors[1]): pre-check, p.mu.Lock, check, the processor's Shutdown (once), remove.   *)
(* "locked" (the pinned code) runs that Shutdown under p.mu: a processor whose Shutdown calls Tracer() / Register  *)
(* (not shut down: no early return) blocks on the lock its own caller holds = deviation D4.                        *)
Without(q, x) == SelectSeq(q, LAMBDA y : y # x)
UCall(u) == /\ pc[u] = "idle" /\ CanCall(u) /\ Go(u, IF PreCheck /\ prov.down THEN "ret" ELSE "ulock")
            /\ mon' = [mon EXCEPT !.must = @ \ {Processors[1]}] /\ UNCHANGED <<prov, plist, Rest>>
ULock(u) == /\ pc[u] = "ulock" /\ PLock(u) /\ Go(u, "ucheck") /\ UNCHANGED <<plist, mon, Rest>>
UCheck(u) == /\ pc[u] = "ucheck"
             /\ Go(u, IF prov.down THEN "uunlock" ELSE IF UnregShape = "locked" THEN "ushut" ELSE "uremove")
             /\ UNCHANGED <<prov, plist, mon, Rest>>
UShut(u) == /\ pc[u] = "ushut"
            /\ Go(u, IF ReentReg THEN "reent" ELSE IF UnregShape = "locked" THEN "uremove" ELSE "ret")
            /\ UNCHANGED <<prov, plist, mon, Rest>>
URemove(u) == /\ pc[u] = "uremove" /\ plist' = Without(plist, Processors[1]) /\ Go(u, "uunlock")
              /\ UNCHANGED <<prov, mon, Rest>>
UUnlock(u) == /\ pc[u] = "uunlock" /\ PUnlock(u)
              /\ Go(u, IF UnregShape = "unlocked" /\ ~prov.down THEN "ushut" ELSE "ret") /\ UNCHANGED <<plist, mon, Rest>>
URet(u) == /\ pc[u] = "ret" /\ Go(u, "done") /\ UNCHANGED <<prov, plist, mon, Rest>>
UnregNext(u) == UCall(u) \/ ULock(u) \/ UCheck(u) \/ UShut(u) \/ Reent(u) \/ URemove(u) \/ UUnlock(u) \/ URet(u)

(* ------------------------------------------------------------------- start *)
(* tracer.Start: the processors' OnStart (user code: may end the span, StartEnder), then runtimeTrace: with the    *)
(* execution tracer on, create the task, lock, store its End, unlock.                                             *)
TCall == /\ pc["st"] = "idle" /\ Go("st", "onstart")
         /\ UNCHANGED <<prov, evs, plist, mu, endTime, parts, childCount, esnap, eprocs, rval, win, winOverlap, mon>>
TOnStartDone == /\ pc["st"] = "onstart" /\ (IF StartEnder = "none" THEN TRUE ELSE pc[StartEnder] = "done")
                /\ Go("st", IF ExecTracer THEN "rtlock" ELSE "done")
                /\ UNCHANGED <<prov, evs, plist, mu, endTime, parts, childCount, esnap, eprocs, rval, win, winOverlap, mon>>
TRTLock == /\ pc["st"] = "rtlock" /\ Lock("st") /\ Go("st", "rtcheck")
           /\ UNCHANGED <<prov, evs, plist, endTime, parts, childCount, esnap, eprocs, rval, win, winOverlap, mon>>
TRTCheck == /\ pc["st"] = "rtcheck"
            /\ Go("st", IF RTShape = "leak" /\ endTime # "none" THEN "done" ELSE "rtunlock")   \* D6: returns holding span.mu
            /\ UNCHANGED <<prov, evs, plist, mu, endTime, parts, childCount, esnap, eprocs, rval, win, winOverlap, mon>>
TRTUnlock == /\ pc["st"] = "rtunlock" /\ Unlock("st") /\ Go("st", "done")
             /\ UNCHANGED <<prov, evs, plist, endTime, parts, childCount, esnap, eprocs, rval, win, winOverlap, mon>>
StartNext == WithStart /\ (TCall \/ TOnStartDone \/ TRTLock \/ TRTCheck \/ TRTUnlock)

EnderNext(e) == \/ ECall(e) \/ ELock(e) \/ ECheck(e) \/ EUnlockIgnored(e) \/ EUnlockForTask(e) \/ ETaskEnd(e)
                \/ EPanicUnlock(e) \/ EPanicFormat(e) \/ EPanicRelock(e) \/ EPanicRecheck(e) \/ EPanicAddEvent(e)
                \/ ERelock(e) \/ ERecheck(e) \/ EMark(e) \/ EUnlock(e) \/ EGetProcs(e) \/ ESnapLock(e) \/ ESnapCopy(e)
                \/ ESnapUnlock(e) \/ EOnEnd(e) \/ ERet(e)
MutNext(m) == MCall(m) \/ MPreCheck(m) \/ MUser(m) \/ MLock(m) \/ MCheck(m) \/ MApply(m) \/ MApplyEv(m) \/ MUnlock(m) \/ MRet(m)
ChildNext(c) == CCall(c) \/ CLock(c) \/ CIncr(c) \/ CUnlock(c) \/ CRet(c)
ReadNext(r) == RCall(r) \/ RLock(r) \/ RRead(r) \/ RUnlock(r) \/ RRet(r)
RegNext(g) == GCall(g) \/ GLock(g) \/ GCheck(g) \/ GStore(g) \/ GUnlock(g) \/ GRet(g)
AllDone == \A x \in Procs : pc[x] = "done"
Terminated == AllDone /\ UNCHANGED vars      \* so that TLC's deadlock check means: somebody is stuck
Next == \/ Terminated
        \/ StartNext
        \/ \E e \in Enders : EnderNext(e)
        \/ \E m \in Mutators : MutNext(m)
        \/ \E c \in Children : ChildNext(c)
        \/ \E r \in Readers : ReadNext(r)
        \/ \E g \in RegSet : RegNext(g)
        \/ \E t \in Stoppers : StopNext(t)
        \/ \E u \in Unregs : UnregNext(u)

(* a call, once made, keeps running (the calls themselves are the environment's choice) *)
Running(x) == pc[x] \notin {"idle", "done"}
Fairness == /\ WF_vars(StartNext)
            /\ \A e \in Enders : WF_vars(Running(e) /\ EnderNext(e))
            /\ \A m \in Mutators : WF_vars(Running(m) /\ MutNext(m))
            /\ \A c \in Children : WF_vars(Running(c) /\ ChildNext(c))
            /\ \A r \in Readers : WF_vars(Running(r) /\ ReadNext(r))
            /\ \A g \in RegSet : WF_vars(Running(g) /\ RegNext(g))
            /\ \A t \in Stoppers : WF_vars(Running(t) /\ StopNext(t))
            /\ \A u \in Unregs : WF_vars(Running(u) /\ UnregNext(u))
Spec == Init /\ [][Next]_vars
FairSpec == Spec /\ Fairness

(* ------------------------------------------------------------- properties *)
(* D1 (known_findings/C10.json): with execution tracing on, two End calls that are both between the       *)
(* recording check and the marking (`winOverlap`) both mark, both snapshot, both call every processor,    *)
(* the second with the end time of its own call.  Admitted only when AllowKnown and only through that     *)
(* window; every other clause is unconditional.                                                           *)
Known == IF AllowKnown /\ winOverlap THEN {"delivered-twice", "end-time-differs"} ELSE {}
Contract == mon.bad \subseteq Known
OnEndAtMostOnce == (~winOverlap) => \A p \in ProcSet \cup LateSet : mon.onEnd[p] <= 1
TaskEndedOnce == (~winOverlap) => mon.taskEnds <= 1
(* what a processor was handed never changes afterwards *)
SnapshotStable == \A d \in mon.views : View(esnap[d.e]) = d.view /\ VEv(esnap[d.e]) = d.ev
MutexOK == /\ mu \in Procs \cup {"none"}
           /\ \A x \in Procs : (mu = x) <=> (pc[x] \in (IF PShape = "locked" /\ x \in Enders THEN {"pfmt"} ELSE {})
                                                        \cup (IF MShape = "locked" /\ x \in Mutators THEN {"user"} ELSE {})
                                                        \cup {"punlock", "paddev", "precheck2", "applyev", "applyz", "rtcheck", "rtunlock"}
                                                        \cup {"check", "unlockign", "unlockign2", "recheck", "unlockT", "mark", "unlock", "snapcopy",
                                                         "snapunlock", "apply1", "apply2", "incr", "read"})
(* once some End has returned the span is ended for good *)
EndedForGood == mon.endRet => endTime # "none"
Termination == \A x \in Procs : (pc[x] = "lock") ~> (pc[x] = "done")
=============================================================================
