---------------------------- MODULE Trace_SpanPanic ----------------------------
(* code -> spec for the panicking-user-code class: every recorded line is one   *)
(* step of the contract monitor SpanPanicContract (= SpanEndContract + panics). *)
EXTENDS SpanPanicContract, TraceKit, Integers
VARIABLES l, m, cur
vars == <<l, m, cur>>
NoCfg == [rt |-> FALSE, nprocs |-> 0, hooks |-> FALSE, lim |-> 0, sampled |-> TRUE, zero |-> FALSE]
Init == l = 1 /\ m = PFresh(NoCfg) /\ cur = -1
TStep == /\ l <= Len(Trace)
         /\ LET e == Trace[l] IN
            IF e.ev = "Cfg"
              THEN m' = PFresh([rt |-> e.rt, nprocs |-> e.nprocs, hooks |-> e.hooks, lim |-> e.lim, sampled |-> e.sampled, zero |-> e.zero]) /\ cur' = e.sc
              ELSE IF e.sc # cur   \* straggler of an earlier scenario that was abandoned as non-quiescent
              THEN UNCHANGED <<m, cur>>
              ELSE LET r == PStep(m, e) IN
                   /\ m' = r[1] /\ UNCHANGED cur
                   /\ \A v \in r[2] : Viol([line |-> l, sc |-> e.sc, v |-> v])
         /\ l' = l + 1
TDone == l = Len(Trace) + 1 /\ Accepted(l) /\ UNCHANGED vars
Next == TStep \/ TDone
Spec == Init /\ [][Next]_vars
=============================================================================
