SPECIFICATION Spec
CONSTANTS
  RecErrRel = "@RECERRREL@"
  PanicFmt = "@PANICFMT@"
  SDRel = "@SDREL@"
  UnregRel = "@UNREGREL@"
  Gates <- MCGates
  Outs <- MCOuts
  Defers <- MCDefers
  Ops1 <- MCOps1
  Phases1 <- MCPhases1
  Ops2 <- MCOps2
INVARIANTS Contract AtMostOnce LocksFree MutexOK Delivered
CHECK_DEADLOCK TRUE
