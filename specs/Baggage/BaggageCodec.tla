---------------------------- MODULE BaggageCodec ----------------------------
(* W3C Baggage header codec over symbol classes (property C11).                *)
(* Transcribed from the property statement and from the W3C Baggage header     *)
(* format (https://www.w3.org/TR/baggage/):                                    *)
(*   baggage-string = list-member 0*179( OWS "," OWS list-member )             *)
(*   list-member    = key OWS "=" OWS value *( OWS ";" OWS property )          *)
(*   property       = key OWS "=" OWS value  /  key OWS                        *)
(*   key = token (RFC 7230);  value = *baggage-octet, percent-encoded;         *)
(*   OWS = *( SP / HTAB ); "%" MUST be percent-encoded; octet sequences that   *)
(*   are not UTF-8 after decoding MUST be replaced by U+FFFD.                  *)
(* OpenTelemetry: duplicate keys resolve to the LAST one.  Limits: MaxMembers  *)
(* list-members, MaxBytes bytes in total, MaxMemberBytes bytes per member.     *)
(*                                                                             *)
(* A DECODED string (API side) is a sequence of runs [c, n, m]: n characters   *)
(* of class c (m = least admissible count, only differs from n for fffd).      *)
(*   safe      baggage-octet other than "%" and "=" (1 byte, travels as is)    *)
(*   eq        "="  (a baggage-octet: travels as is)                           *)
(*   pct space comma semi dquote bslash ctl   1-byte characters that MUST be   *)
(*             percent-encoded (3 bytes in the header)                         *)
(*   nonascii2 m3 nonbmp4    valid 2/3/4-byte UTF-8 characters (6/9/12 bytes)  *)
(*   fffd      U+FFFD (3 bytes, 9 in the header)                               *)
(*   bad       one byte that is not part of valid UTF-8 (constructors reject)  *)
(*                                                                             *)
(* A HEADER is a sequence of symbols [c, s, n, d] (s = literal ASCII text      *)
(* where identity matters, n = repeat count, d = decoded class for enc):       *)
(*   tok   n token characters other than "%" (text s)                          *)
(*   enc   n complete percent-encoded characters/bytes of decoded class d:     *)
(*         d in the 1-byte classes above, or u2 u3 u4 ufffd (a whole valid     *)
(*         2/3/4-byte character / U+FFFD), or x (ONE byte that is not part of  *)
(*         any valid UTF-8 sequence); text s = the triplets themselves         *)
(*   pc    a "%" that does not start a percent triplet                         *)
(*   v     n baggage-octets that are neither token characters nor "="          *)
(*   eq comma semi   one delimiter each;   sp   n SP/HTAB                      *)
(*   dq bs ctl hi    n bytes: DQUOTE, backslash, CTL/DEL, raw byte >= 0x80     *)
EXTENDS Naturals, Sequences, SequencesExt, FiniteSets

CONSTANTS MaxMembers, MaxBytes, MaxMemberBytes

-----------------------------------------------------------------------------
(* decoded strings *)
Run(c, n) == [c |-> c, n |-> n, m |-> n]
UBytes(c) == CASE c \in {"nonascii2", "u2"} -> 2
               [] c \in {"m3", "fffd", "u3", "ufffd"} -> 3
               [] c \in {"nonbmp4", "u4"} -> 4
               [] OTHER -> 1
TravelsRaw(c) == c \in {"safe", "eq"}
ValidUtf8(v) == \A i \in 1..Len(v) : v[i].c # "bad"

(* merge adjacent runs of one class, drop empty runs *)
Merge(v) ==
  FoldLeft(LAMBDA acc, r :
             IF r.n = 0 THEN acc
             ELSE IF acc # <<>> /\ acc[Len(acc)].c = r.c
                  THEN [acc EXCEPT ![Len(acc)] = [c |-> r.c, n |-> @.n + r.n, m |-> @.m + r.m]]
                  ELSE Append(acc, r),
           <<>>, v)

(* bytes of the canonical (minimal) percent-encoding of a decoded string *)
EscLen(v) == FoldLeft(LAMBDA a, r : a + (IF TravelsRaw(r.c) THEN r.n ELSE 3 * UBytes(r.c) * r.n), 0, v)
Utf8Len(v) == FoldLeft(LAMBDA a, r : a + UBytes(r.c) * r.n, 0, v)

(* two decoded strings agree: same classes and counts; a run of U+FFFD that stems from invalid *)
(* bytes may hold any number of U+FFFD between one per maximal invalid run and one per byte   *)
VMatch(got, want) ==
  LET g == Merge(got)  w == Merge(want) IN
  /\ Len(g) = Len(w)
  /\ \A i \in 1..Len(w) : /\ g[i].c = w[i].c
                          /\ g[i].n <= w[i].n /\ g[i].n >= w[i].m

-----------------------------------------------------------------------------
(* header symbols *)
Sym(c, s, n, d) == [c |-> c, s |-> s, n |-> n, d |-> d]
HBytes(x) == IF x.c = "enc" THEN 3 * UBytes(x.d) * x.n ELSE x.n
HLen(h) == FoldLeft(LAMBDA a, x : a + HBytes(x), 0, h)
SpLen(h) == FoldLeft(LAMBDA a, x : a + (IF x.c = "sp" THEN x.n ELSE 0), 0, h)
TokenSym(x) == x.c \in {"tok", "enc", "pc"}          \* "%" and hex digits are token characters
OctetSym(x) == x.c \in {"tok", "enc", "v", "eq"}     \* a bare "%" is not a valid percent-encoding
All(P(_), s) == \A i \in 1..Len(s) : P(s[i])
KeyStr(ks) == FoldLeft(LAMBDA a, x : a \o x.s, "", ks)

Split(h, sep) ==
  FoldLeft(LAMBDA acc, x :
             IF x.c = sep THEN Append(acc, <<>>)
             ELSE [acc EXCEPT ![Len(acc)] = Append(@, x)],
           <<<<>>>>, h)

RECURSIVE TrimL(_)
TrimL(s) == IF s # <<>> /\ s[1].c = "sp" THEN TrimL(Tail(s)) ELSE s
RECURSIVE TrimR(_)
TrimR(s) == IF s # <<>> /\ s[Len(s)].c = "sp" THEN TrimR(SubSeq(s, 1, Len(s) - 1)) ELSE s
Trim(s) == TrimR(TrimL(s))

FirstEq(s) == IF \E i \in 1..Len(s) : s[i].c = "eq"
              THEN CHOOSE i \in 1..Len(s) : s[i].c = "eq" /\ \A j \in 1..(i - 1) : s[j].c # "eq"
              ELSE 0

(* percent-decoding + UTF-8 repair of a value: invalid bytes become U+FFFD *)
DecodeSym(x) ==
  CASE x.c \in {"tok", "v"} -> Run("safe", x.n)
    [] x.c = "eq" -> Run("eq", x.n)
    [] x.c = "enc" /\ x.d = "u2" -> Run("nonascii2", x.n)
    [] x.c = "enc" /\ x.d = "u3" -> Run("m3", x.n)
    [] x.c = "enc" /\ x.d = "u4" -> Run("nonbmp4", x.n)
    [] x.c = "enc" /\ x.d = "ufffd" -> Run("fffd", x.n)
    [] x.c = "enc" /\ x.d = "x" -> Run("inv", x.n)
    [] x.c = "enc" -> Run(x.d, x.n)
    [] OTHER -> Run("bad", x.n)
Decode(s) ==
  LET a == Merge([i \in 1..Len(s) |-> DecodeSym(s[i])])
      b == [i \in 1..Len(a) |-> IF a[i].c = "inv" THEN [c |-> "fffd", n |-> a[i].n, m |-> 1] ELSE a[i]]
  IN Merge(b)

(* property / member / header.  ok = conforms to the grammar above *)
ParseProp(s) ==
  LET t == Trim(s)
      i == FirstEq(t)
      kp == IF i = 0 THEN t ELSE TrimR(SubSeq(t, 1, i - 1))
      vp == IF i = 0 THEN <<>> ELSE TrimL(SubSeq(t, i + 1, Len(t)))
  IN [ok |-> kp # <<>> /\ All(TokenSym, kp) /\ All(OctetSym, vp),
      p  |-> [k |-> KeyStr(kp), v |-> Decode(vp), hv |-> i # 0, tk |-> TRUE]]

ParseMember(s) ==
  LET parts == Split(s, "semi")
      kv == parts[1]
      i == FirstEq(kv)
      kp == IF i = 0 THEN <<>> ELSE Trim(SubSeq(kv, 1, i - 1))
      vp == IF i = 0 THEN <<>> ELSE Trim(SubSeq(kv, i + 1, Len(kv)))
      ps == [j \in 1..(Len(parts) - 1) |-> ParseProp(parts[j + 1])]
  IN [ok |-> i # 0 /\ kp # <<>> /\ All(TokenSym, kp) /\ All(OctetSym, vp)
             /\ \A j \in 1..Len(ps) : ps[j].ok,
      m  |-> [k |-> KeyStr(kp), v |-> Decode(vp), p |-> [j \in 1..Len(ps) |-> ps[j].p], tk |-> TRUE]]

(* last one wins: keep a member iff no later member has its key *)
LastWins(ms) == SelectSeq([i \in 1..Len(ms) |-> [i |-> i, m |-> ms[i]]],
                          LAMBDA e : \A j \in (e.i + 1)..Len(ms) : ms[j].k # e.m.k)
Members(es) == [i \in 1..Len(es) |-> es[i].m]

(* Verdict on a header.                                                        *)
(*   accept : grammatical and within every limit -> must parse to `b`          *)
(*   reject : exceeds a limit however optional white space is counted          *)
(*   either : grammatical; exceeds a limit only if optional white space /      *)
(*            duplicate members are counted -> may be refused, else `b`        *)
(*   free   : not grammatical; the statement only constrains a success         *)
ParseW3C(h) ==
  IF h = <<>> THEN [out |-> "accept", b |-> <<>>]
  ELSE
  LET pieces == Split(h, "comma")
      pm == [i \in 1..Len(pieces) |-> ParseMember(pieces[i])]
      wf == \A i \in 1..Len(pm) : pm[i].ok
      b == IF wf THEN Members(LastWins([i \in 1..Len(pm) |-> pm[i].m])) ELSE <<>>
      over == \/ HLen(h) - SpLen(h) > MaxBytes
              \/ \E i \in 1..Len(pieces) : HLen(pieces[i]) - SpLen(pieces[i]) > MaxMemberBytes
              \/ (wf /\ Len(b) > MaxMembers)
      within == /\ HLen(h) <= MaxBytes
                /\ \A i \in 1..Len(pieces) : HLen(pieces[i]) <= MaxMemberBytes
                /\ Len(pieces) <= MaxMembers
  IN [out |-> IF over THEN "reject" ELSE IF ~wf THEN "free" ELSE IF within THEN "accept" ELSE "either",
      b |-> b]

-----------------------------------------------------------------------------
(* serialising *)
(* canonical serialisation: only what MUST be percent-encoded is encoded *)
EncSym(r) == IF TravelsRaw(r.c) THEN (IF r.c = "eq" THEN Sym("eq", "=", r.n, "") ELSE Sym("v", "", r.n, ""))
             ELSE Sym("enc", "", r.n,
                      CASE r.c = "nonascii2" -> "u2" [] r.c = "m3" -> "u3" [] r.c = "nonbmp4" -> "u4"
                        [] r.c = "fffd" -> "ufffd" [] OTHER -> r.c)
(* "=" runs are expanded one symbol per character so the header stays in lexer normal form *)
Escape(v) == FoldLeft(LAMBDA a, r : IF r.c = "eq" THEN a \o [i \in 1..r.n |-> Sym("eq", "=", 1, "")]
                                    ELSE Append(a, EncSym(r)), <<>>, v)
KeySym(k) == Sym("tok", k, Len(k), "")
SerProp(p) == <<KeySym(p.k)>> \o (IF p.hv THEN <<Sym("eq", "=", 1, "")>> \o Escape(p.v) ELSE <<>>)
SerMember(m) == FoldLeft(LAMBDA a, p : a \o <<Sym("semi", ";", 1, "")>> \o SerProp(p),
                         <<KeySym(m.k), Sym("eq", "=", 1, "")>> \o Escape(m.v), m.p)
Serialize(b) == FoldLeft(LAMBDA a, m : (IF a = <<>> THEN a ELSE Append(a, Sym("comma", ",", 1, ""))) \o SerMember(m),
                         <<>>, b)
PropLen(p) == Len(p.k) + (IF p.hv THEN 1 + EscLen(p.v) ELSE 0)
MemberLen(m) == FoldLeft(LAMBDA a, p : a + 1 + PropLen(p), Len(m.k) + 1 + EscLen(m.v), m.p)

(* does a baggage fit the limits when serialised canonically? *)
SerLen(b) == FoldLeft(LAMBDA a, m : a + MemberLen(m), 0, b) + (IF Len(b) > 0 THEN Len(b) - 1 ELSE 0)
Fits(b) == /\ Len(b) <= MaxMembers /\ SerLen(b) <= MaxBytes
           /\ \A i \in 1..Len(b) : MemberLen(b[i]) <= MaxMemberBytes

(* The statement adds: a successful parse is stable under re-serialising and    *)
(* re-parsing and respects the limits.  Replacing invalid bytes by U+FFFD can    *)
(* make the decoded baggage larger than the header it came from; if it no longer *)
(* fits, returning it cannot satisfy the statement:                              *)
(*   nostable : grammatical and within the limits as received, but what it       *)
(*              decodes to does not fit -> any success is judged by the          *)
(*              stability / limit clauses alone                                  *)
ParseHeader(h) ==
  LET r == ParseW3C(h) IN
  IF r.out \in {"accept", "either"} /\ ~Fits(r.b) THEN [out |-> "nostable", b |-> r.b] ELSE r

-----------------------------------------------------------------------------
(* constructors *)
(* API-side member: [ks (key as header symbols), v, p (each [ks, v, hv])].     *)
(* "valid keys" are W3C tokens; the Raw constructors take any non-empty valid  *)
(* UTF-8 key (recorded, not judged).  Values/properties: arbitrary valid UTF-8 *)
KeyValidUtf8(ks) == \A i \in 1..Len(ks) : ~(ks[i].c = "hi" /\ ks[i].d = "x")
KeyIsToken(ks) == ks # <<>> /\ All(TokenSym, ks)
PropArgOK(p) == p.ks # <<>> /\ KeyValidUtf8(p.ks) /\ ValidUtf8(p.v)
MemberArgOK(a) == /\ a.ks # <<>> /\ KeyValidUtf8(a.ks) /\ ValidUtf8(a.v)
                  /\ \A i \in 1..Len(a.p) : PropArgOK(a.p[i])
AllTokenKeys(a) == KeyIsToken(a.ks) /\ \A i \in 1..Len(a.p) : KeyIsToken(a.p[i].ks)
(* tk = the key is a W3C token.  Members and properties whose key is valid UTF-8 but not a  *)
(* token live in the baggage like any other (Members / Member / SetMember / DeleteMember)   *)
(* but cannot travel in a header: serialising skips them (TokenPart).                       *)
ToMember(a) == [k |-> KeyStr(a.ks), v |-> Merge(a.v), tk |-> KeyIsToken(a.ks),
                p |-> [i \in 1..Len(a.p) |-> [k |-> KeyStr(a.p[i].ks), v |-> Merge(a.p[i].v), hv |-> a.p[i].hv,
                                              tk |-> KeyIsToken(a.p[i].ks)]]]
TokenPart(b) == LET tb == SelectSeq(b, LAMBDA m : m.tk) IN
                [i \in 1..Len(tb) |-> [tb[i] EXCEPT !.p = SelectSeq(@, LAMBDA q : q.tk)]]
WireLen(m) == IF m.tk THEN MemberLen([m EXCEPT !.p = SelectSeq(@, LAMBDA q : q.tk)]) ELSE 0

(* New(members...): last one wins, then the three limits, measured on the serialised form. *)
(* lens[i] = bytes of the serialisation of ms[i]                                            *)
NewVerdict(ms, lens) ==
  LET es == LastWins(ms)
      total == FoldLeft(LAMBDA a, e : a + lens[e.i], 0, es) + (IF Len(es) > 0 THEN Len(es) - 1 ELSE 0)
      okLim == /\ Len(es) <= MaxMembers
               /\ total <= MaxBytes
               /\ \A j \in 1..Len(es) : lens[es[j].i] <= MaxMemberBytes
  IN [out |-> IF okLim THEN "accept" ELSE "reject", b |-> Members(es),
      why |-> IF Len(es) > MaxMembers THEN "members"
              ELSE IF total > MaxBytes THEN "bytes"
              ELSE IF okLim THEN "" ELSE "memberbytes"]

-----------------------------------------------------------------------------
(* comparing baggages *)
PMatch(g, w) == g.k = w.k /\ g.hv = w.hv /\ VMatch(g.v, w.v)
MMatch(g, w) == /\ g.k = w.k /\ VMatch(g.v, w.v) /\ Len(g.p) = Len(w.p)
                /\ \A i \in 1..Len(w.p) : PMatch(g.p[i], w.p[i])
(* as maps: member order is not significant *)
BMatch(got, want) ==
  /\ Len(got) = Len(want)
  /\ \A i, j \in 1..Len(got) : got[i].k = got[j].k => i = j
  /\ \A i \in 1..Len(want) : \E j \in 1..Len(got) : MMatch(got[j], want[i])

BValidUtf8(b) == \A i \in 1..Len(b) : /\ ValidUtf8(b[i].v)
                                      /\ \A j \in 1..Len(b[i].p) : ValidUtf8(b[i].p[j].v)
=============================================================================
