SPECIFICATION Spec
CONSTANTS
  MaxMembers = @MAXMEMBERS@
  MaxBytes = @MAXBYTES@
  MaxMemberBytes = @MAXMEMBERBYTES@
CHECK_DEADLOCK FALSE
