-------------------------- MODULE MC_BaggageStore --------------------------
EXTENDS BaggageStore
MCMemberArgs == @MEMBERARGS@
MCNewLists == @NEWLISTS@
MCDelKeys == @DELKEYS@
MCHdrs == @HDRS@
MCOps == @OPS@
=============================================================================
