---------------------------- MODULE BaggageStore ----------------------------
(* Baggage as an immutable VALUE (C11): handles to baggage values, contexts     *)
(* carrying a baggage, and every way the API derives one from another.  Every   *)
(* operation creates a NEW handle / context; the statement "setting or deleting *)
(* a member returns a new value and never alters the receiver or its copies     *)
(* held in other contexts" is the action property Immutable.  TLC explores      *)
(* every edit sequence up to MaxSteps and prints every edge; the harness        *)
(* replays it on the real package and re-reads ALL live handles, contexts and   *)
(* previously returned Member/Property slices after every single step.          *)
EXTENDS BaggageEdit, TLC, Json

CONSTANTS MemberArgs,    \* member arguments for SetMember (token keys, valid UTF-8)
          NewLists,      \* argument lists for New
          DelKeys,       \* keys for DeleteMember
          Hdrs,          \* headers for Parse (grammatical, within limits)
          Ops,           \* enabled actions (names below without the leading A)
          MaxSteps

VARIABLES bags,   \* sequence of baggage values; handle = index; bags[1] is the zero Baggage
          ctxs,   \* sequence of contexts (each holds a baggage value); ctxs[1] is context.Background()
          steps, act
vars == <<bags, ctxs, steps, act>>

Init == /\ bags = << <<>> >> /\ ctxs = << <<>> >> /\ steps = 0 /\ act = [op |-> "Init"]

Do(a) == LET r == Eff(bags, ctxs, a) IN bags' = r.bags /\ ctxs' = r.ctxs /\ act' = a
Accepted(l) == (\A i \in 1..Len(l) : MemberArgOK(l[i]))
               /\ NewVerdict(AsMembers(l), [i \in 1..Len(l) |-> WireLen(ToMember(l[i]))]).out = "accept"

Tick == steps < MaxSteps /\ steps' = steps + 1
On(name) == name \in Ops
ANew == On("New") /\ Tick /\ \E l \in NewLists : Accepted(l) /\ Do([op |-> "New", args |-> l])
ASetMember == On("SetMember") /\ Tick /\ \E h \in 1..Len(bags), a \in MemberArgs : Do([op |-> "SetMember", h |-> h, arg |-> a])
ASetZero == On("SetZero") /\ Tick /\ \E h \in 1..Len(bags) : Do([op |-> "SetZero", h |-> h])
ADelete == On("DeleteMember") /\ Tick /\ \E h \in 1..Len(bags), k \in DelKeys : Do([op |-> "DeleteMember", h |-> h, k |-> k])
AToCtx == On("ToCtx") /\ Tick /\ \E h \in 1..Len(bags), c \in 1..Len(ctxs) : Do([op |-> "ToCtx", h |-> h, c |-> c])
AScribble == On("Scribble") /\ Tick /\ \E h \in 1..Len(bags) : Do([op |-> "Scribble", h |-> h])
AParse == On("Parse") /\ Tick /\ \E hd \in Hdrs : ParseHeader(hd).out = "accept" /\ Do([op |-> "Parse", hd |-> hd])
AFromCtx == On("FromCtx") /\ Tick /\ \E c \in 1..Len(ctxs) : Do([op |-> "FromCtx", c |-> c])
AClearCtx == On("ClearCtx") /\ Tick /\ \E c \in 1..Len(ctxs) : Do([op |-> "ClearCtx", c |-> c])
AChild == On("Child") /\ Tick /\ \E c \in 1..Len(ctxs) : Do([op |-> "Child", c |-> c])
APropagate == On("Propagate") /\ Tick /\ \E c \in 1..Len(ctxs), p \in 1..Len(ctxs) : Do([op |-> "Propagate", c |-> c, p |-> p])
Next == ANew \/ ASetMember \/ ASetZero \/ ADelete \/ AToCtx \/ AScribble \/ AParse \/ AFromCtx \/ AClearCtx
        \/ AChild \/ APropagate
Spec == Init /\ [][Next]_vars

View == <<bags, ctxs, steps>>
EmitEdge == PrintT("EDGE " \o ToJson([from |-> [bags |-> bags, ctxs |-> ctxs, steps |-> steps], act |-> act',
                                      to |-> [bags |-> bags', ctxs |-> ctxs', steps |-> steps']]))

-----------------------------------------------------------------------------
(* immutability: no step alters an existing handle or context *)
Immutable == [][/\ \A h \in 1..Len(bags) : bags'[h] = bags[h]
                /\ \A c \in 1..Len(ctxs) : ctxs'[c] = ctxs[c]]_vars
(* every value ever held is a well-formed baggage that survives the header round trip *)
Inv == /\ \A h \in 1..Len(bags) : /\ \A i, j \in 1..Len(bags[h]) : bags[h][i].k = bags[h][j].k => i = j
                                  /\ BValidUtf8(bags[h])
                                  /\ (Fits(TokenPart(bags[h])) => LET r == ParseHeader(Serialize(TokenPart(bags[h]))) IN
                                                        r.out = "accept" /\ BMatch(r.b, TokenPart(bags[h])))
(* documented semantics, for EVERY key the constructors accept (token or not): SetMember returns a copy *)
(* with the member included, an existing member for the key is overwritten; DeleteMember removes it     *)
SetHolds == [][(act'.op = "SetMember" /\ MemberArgOK(act'.arg)) =>
                 LET nb == bags'[Len(bags')]  m == ToMember(act'.arg) IN
                 /\ \E i \in 1..Len(nb) : nb[i] = m
                 /\ Without(nb, m.k) = Without(bags[act'.h], m.k)]_vars
DeleteHolds == [][act'.op = "DeleteMember" =>
                    LET nb == bags'[Len(bags')] IN
                    /\ \A i \in 1..Len(nb) : nb[i].k # act'.k
                    /\ nb = Without(bags[act'.h], act'.k)]_vars
=============================================================================
