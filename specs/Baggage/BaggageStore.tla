---------------------------- MODULE BaggageStore ----------------------------
(* Baggage as an immutable VALUE (C11): handles to baggage values, contexts     *)
(* carrying a baggage, and every way the API derives one from another.  Every   *)
(* operation creates a NEW handle / context; the statement "setting or deleting *)
(* a member returns a new value and never alters the receiver or its copies     *)
(* held in other contexts" is the action property Immutable.  TLC explores      *)
(* every edit sequence up to MaxSteps and prints every edge; the harness        *)
(* replays it on the real package and re-reads ALL live handles, contexts and   *)
(* previously returned Member/Property slices after every single step.          *)
EXTENDS BaggageEdit, TLC, Json

CONSTANTS MemberArgs,    \* member arguments for SetMember (token keys, valid UTF-8)
          NewLists,      \* argument lists for New
          DelKeys,       \* keys for DeleteMember
          Hdrs,          \* headers for Parse (grammatical, within limits)
          MaxSteps

VARIABLES bags,   \* sequence of baggage values; handle = index; bags[1] is the zero Baggage
          ctxs,   \* sequence of contexts (each holds a baggage value); ctxs[1] is context.Background()
          steps, act
vars == <<bags, ctxs, steps, act>>

Init == /\ bags = << <<>> >> /\ ctxs = << <<>> >> /\ steps = 0 /\ act = [op |-> "Init"]

Do(a) == LET r == Eff(bags, ctxs, a) IN bags' = r.bags /\ ctxs' = r.ctxs /\ act' = a
Accepted(l) == NewVerdict(AsMembers(l), [i \in 1..Len(l) |-> MemberLen(ToMember(l[i]))]).out = "accept"

Tick == steps < MaxSteps /\ steps' = steps + 1
ANew == Tick /\ \E l \in NewLists : Accepted(l) /\ Do([op |-> "New", args |-> l])
ASetMember == Tick /\ \E h \in 1..Len(bags), a \in MemberArgs : Do([op |-> "SetMember", h |-> h, arg |-> a])
ASetZero == Tick /\ \E h \in 1..Len(bags) : Do([op |-> "SetZero", h |-> h])
ADelete == Tick /\ \E h \in 1..Len(bags), k \in DelKeys : Do([op |-> "DeleteMember", h |-> h, k |-> k])
AToCtx == Tick /\ \E h \in 1..Len(bags), c \in 1..Len(ctxs) : Do([op |-> "ToCtx", h |-> h, c |-> c])
AScribble == Tick /\ \E h \in 1..Len(bags) : Do([op |-> "Scribble", h |-> h])
AParse == Tick /\ \E hd \in Hdrs : ParseHeader(hd).out = "accept" /\ Do([op |-> "Parse", hd |-> hd])
AFromCtx == Tick /\ \E c \in 1..Len(ctxs) : Do([op |-> "FromCtx", c |-> c])
AClearCtx == Tick /\ \E c \in 1..Len(ctxs) : Do([op |-> "ClearCtx", c |-> c])
AChild == Tick /\ \E c \in 1..Len(ctxs) : Do([op |-> "Child", c |-> c])
APropagate == Tick /\ \E c \in 1..Len(ctxs), p \in 1..Len(ctxs) : Do([op |-> "Propagate", c |-> c, p |-> p])
Next == ANew \/ ASetMember \/ ASetZero \/ ADelete \/ AToCtx \/ AScribble \/ AParse \/ AFromCtx \/ AClearCtx
        \/ AChild \/ APropagate
Spec == Init /\ [][Next]_vars

View == <<bags, ctxs, steps>>
EmitEdge == PrintT("EDGE " \o ToJson([from |-> [bags |-> bags, ctxs |-> ctxs, steps |-> steps], act |-> act',
                                      to |-> [bags |-> bags', ctxs |-> ctxs', steps |-> steps']]))

-----------------------------------------------------------------------------
(* immutability: no step alters an existing handle or context *)
Immutable == [][/\ \A h \in 1..Len(bags) : bags'[h] = bags[h]
                /\ \A c \in 1..Len(ctxs) : ctxs'[c] = ctxs[c]]_vars
(* every value ever held is a well-formed baggage that survives the header round trip *)
Inv == /\ \A h \in 1..Len(bags) : /\ \A i, j \in 1..Len(bags[h]) : bags[h][i].k = bags[h][j].k => i = j
                                  /\ BValidUtf8(bags[h])
                                  /\ (Fits(bags[h]) => LET r == ParseHeader(Serialize(bags[h])) IN
                                                        r.out = "accept" /\ BMatch(r.b, bags[h]))
=============================================================================
