---------------------------- MODULE BaggageStore ----------------------------
(* Baggage as an immutable VALUE (C11): handles to baggage values, contexts     *)
(* carrying a baggage, and every way the API derives one from another.  Every   *)
(* operation creates a NEW handle / context; the statement "setting or deleting *)
(* a member returns a new value and never alters the receiver or its copies     *)
(* held in other contexts" is the action property Immutable.  TLC explores      *)
(* every edit sequence up to MaxSteps and prints every edge; the harness        *)
(* replays it on the real package and re-reads ALL live handles, contexts and   *)
(* previously returned Member/Property slices after every single step.          *)
EXTENDS BaggageCodec, TLC, Json

CONSTANTS MemberArgs,    \* member arguments for SetMember (token keys, valid UTF-8)
          NewLists,      \* argument lists for New
          DelKeys,       \* keys for DeleteMember
          Hdrs,          \* headers for Parse (grammatical, within limits)
          MaxSteps

VARIABLES bags,   \* sequence of baggage values; handle = index; bags[1] is the zero Baggage
          ctxs,   \* sequence of contexts (each holds a baggage value); ctxs[1] is context.Background()
          steps, act
vars == <<bags, ctxs, steps, act>>

Without(b, k) == SelectSeq(b, LAMBDA m : m.k # k)
SetM(b, m) == Append(Without(b, m.k), m)
AsMembers(l) == [i \in 1..Len(l) |-> ToMember(l[i])]

Init == /\ bags = << <<>> >> /\ ctxs = << <<>> >> /\ steps = 0 /\ act = [op |-> "Init"]

(* effect of one API call on (bags, ctxs) as a pure function: shared with Trace_Baggage.tla.   *)
(* contexts: ContextWithBaggage(parent c, bags[h]), FromContext, ContextWithoutBaggage, a derived   *)
(* child; propagator: Inject(ctxs[c]) into a fresh carrier, Extract(parent p, carrier) -- an empty   *)
(* baggage injects nothing, and Extract without a (parseable) header returns the parent unchanged;  *)
(* the zero Member is refused by SetMember and the ORIGINAL baggage is returned;                     *)
(* Scribble: the caller overwrites every slice it was handed for handle h (Members(),               *)
(* Properties()) and the property slices it passed to the constructors: nothing may change.         *)
WithBag(bs, cs, b) == [bags |-> Append(bs, b), ctxs |-> cs]
WithCtx(bs, cs, b) == [bags |-> bs, ctxs |-> Append(cs, b)]
Eff(bs, cs, a) ==
  CASE a.op = "New" ->
         LET r == NewVerdict(AsMembers(a.args), [i \in 1..Len(a.args) |-> MemberLen(ToMember(a.args[i]))]) IN
         IF r.out = "accept" THEN WithBag(bs, cs, r.b) ELSE [bags |-> bs, ctxs |-> cs]
    [] a.op = "SetMember" -> WithBag(bs, cs, SetM(bs[a.h], ToMember(a.arg)))
    [] a.op = "SetZero" -> WithBag(bs, cs, bs[a.h])
    [] a.op = "DeleteMember" -> WithBag(bs, cs, Without(bs[a.h], a.k))
    [] a.op = "Parse" ->
         LET r == ParseHeader(a.hd) IN
         IF r.out = "accept" THEN WithBag(bs, cs, r.b) ELSE [bags |-> bs, ctxs |-> cs]
    [] a.op = "ToCtx" -> WithCtx(bs, cs, bs[a.h])
    [] a.op = "FromCtx" -> WithBag(bs, cs, cs[a.c])
    [] a.op = "ClearCtx" -> WithCtx(bs, cs, <<>>)
    [] a.op = "Child" -> WithCtx(bs, cs, cs[a.c])
    [] a.op = "Propagate" ->
         LET r == ParseHeader(Serialize(cs[a.c])) IN
         WithCtx(bs, cs, IF cs[a.c] = <<>> \/ r.out # "accept" THEN cs[a.p] ELSE r.b)
    [] a.op = "Scribble" -> [bags |-> bs, ctxs |-> cs]

Do(a) == LET r == Eff(bags, ctxs, a) IN bags' = r.bags /\ ctxs' = r.ctxs /\ act' = a
Accepted(l) == NewVerdict(AsMembers(l), [i \in 1..Len(l) |-> MemberLen(ToMember(l[i]))]).out = "accept"

Next == /\ steps < MaxSteps /\ steps' = steps + 1
        /\ \/ \E l \in NewLists : Accepted(l) /\ Do([op |-> "New", args |-> l])
           \/ \E h \in 1..Len(bags) : \/ \E a \in MemberArgs : Do([op |-> "SetMember", h |-> h, arg |-> a])
                                     \/ Do([op |-> "SetZero", h |-> h])
                                     \/ \E k \in DelKeys : Do([op |-> "DeleteMember", h |-> h, k |-> k])
                                     \/ \E c \in 1..Len(ctxs) : Do([op |-> "ToCtx", h |-> h, c |-> c])
                                     \/ Do([op |-> "Scribble", h |-> h])
           \/ \E hd \in Hdrs : ParseHeader(hd).out = "accept" /\ Do([op |-> "Parse", hd |-> hd])
           \/ \E c \in 1..Len(ctxs) : \/ Do([op |-> "FromCtx", c |-> c])
                                     \/ Do([op |-> "ClearCtx", c |-> c])
                                     \/ Do([op |-> "Child", c |-> c])
                                     \/ \E p \in 1..Len(ctxs) : Do([op |-> "Propagate", c |-> c, p |-> p])
Spec == Init /\ [][Next]_vars

View == <<bags, ctxs, steps>>
EmitEdge == PrintT("EDGE " \o ToJson([from |-> [bags |-> bags, ctxs |-> ctxs, steps |-> steps], act |-> act',
                                      to |-> [bags |-> bags', ctxs |-> ctxs', steps |-> steps']]))

-----------------------------------------------------------------------------
(* immutability: no step alters an existing handle or context *)
Immutable == [][/\ \A h \in 1..Len(bags) : bags'[h] = bags[h]
                /\ \A c \in 1..Len(ctxs) : ctxs'[c] = ctxs[c]]_vars
(* every value ever held is a well-formed baggage that survives the header round trip *)
Inv == /\ \A h \in 1..Len(bags) : /\ \A i, j \in 1..Len(bags[h]) : bags[h][i].k = bags[h][j].k => i = j
                                  /\ BValidUtf8(bags[h])
                                  /\ (Fits(bags[h]) => LET r == ParseHeader(Serialize(bags[h])) IN
                                                        r.out = "accept" /\ BMatch(r.b, bags[h]))
=============================================================================
