SPECIFICATION Spec
CONSTANTS
  MaxMembers = @MAXMEMBERS@
  MaxBytes = @MAXBYTES@
  MaxMemberBytes = @MAXMEMBERBYTES@
  HAlpha <- MCHAlpha
  HMaxLen = @HMAXLEN@
  HExtra <- MCHExtra
  HAlpha2 <- MCHAlpha2
  HMaxLen2 = @HMAXLEN2@
  GKeys <- MCGKeys
  GAlpha <- MCGAlpha
  GMaxLen = @GMAXLEN@
  GOdd <- MCGOdd
  GTails <- MCGTails
  GSmall <- MCGSmall
  GSeps <- MCGSeps
  ArgLists <- MCArgLists
  Dev <- MCDev
VIEW View
ACTION_CONSTRAINT EmitEdge
INVARIANT Inv
CHECK_DEADLOCK FALSE
