SPECIFICATION Spec
CONSTANTS
  MaxMembers = @MAXMEMBERS@
  MaxBytes = @MAXBYTES@
  MaxMemberBytes = @MAXMEMBERBYTES@
  HAlpha <- MCHAlpha
  HMaxLen = @HMAXLEN@
  HExtra <- MCHExtra
  ArgLists <- MCArgLists
  Dev <- MCDev
VIEW View
ACTION_CONSTRAINT EmitEdge
INVARIANT Inv
CHECK_DEADLOCK FALSE
