---------------------------- MODULE Trace_Baggage ----------------------------
(* code -> spec (C11): validates observations recorded from the real baggage     *)
(* package and the real baggage propagator (harness/c11 codec / random) against  *)
(* BaggageCodec / BaggageEdit at the REAL limits (cfg: 180 / 8192 / 4096).       *)
(* One line per step; every clause of the statement the REAL observation breaks  *)
(* is printed as VIOL{line, ev, kind, verdict, why}.  Lines:                     *)
(*  Parse{h header symbols, obs}       baggage.Parse(bytes of h)                 *)
(*  New  {args, obs}                   member constructors + baggage.New         *)
(*  Reset{}                            start of an edit scenario (zero Baggage,  *)
(*                                     context.Background())                     *)
(*  Op   {a action, obs [bags, ctxs, frozen, coh]}   one API call of BaggageEdit *)
(* obs of Parse / New:  ok, and for a returned baggage (`bag`):                  *)
(*   b      members as read back through Members()/Member()/Properties()         *)
(*   coh    Len(), Members() and Member(k) agree                                 *)
(*   ser    lexed b.String(), serlen its bytes, mlens bytes of every member      *)
(*   reok, reb, exact   baggage.Parse(b.String()): succeeded, its members, and   *)
(*          whether they are byte-for-byte the members of b                      *)
(*   pok, pb, pexact    the same through propagation.Baggage Inject -> Extract   *)
(* Parse additionally: xcoh = propagation.Baggage Extract of the same header     *)
(*   installed exactly the baggage Parse returned (or left the parent context     *)
(*   alone when Parse refused).                                                  *)
(* New additionally: argok[i] (the member/property constructors accepted arg i), *)
(*   alens[i] bytes of Member.String() of arg i (0 when refused).                *)
EXTENDS BaggageEdit, TraceKit

VARIABLES l, bags, ctxs
vars == <<l, bags, ctxs>>

V(kind, verdict, why) == Viol([line |-> l, ev |-> Trace[l].ev, kind |-> kind, verdict |-> verdict, why |-> why])
(* IF, not \/ : TLC would explore both disjuncts of an action-level disjunction *)
Check(cond, kind, verdict, why) == IF cond THEN TRUE ELSE V(kind, verdict, why)

UniqueKeys(b) == \A i, j \in 1..Len(b) : b[i].k = b[j].k => i = j

(* the clauses every RETURNED baggage must satisfy.  strict = it was made by the constructor or *)
(* parsed from a grammatical header: then its serialisation must be in the language of the    *)
(* header grammar and denote the same baggage.  For a baggage parsed from a header that is    *)
(* not in the grammar the statement only demands stability under the implementation's own     *)
(* re-serialising and re-parsing.                                                             *)
BagClauses(o, verdict, why, strict) ==
  /\ Check(o.coh, "incoherent", verdict, why)
  /\ Check(BValidUtf8(o.b), "utf8", verdict, why)
  /\ Check(UniqueKeys(o.b), "dupkeys", verdict, why)
  /\ Check(Len(o.b) <= MaxMembers, "limit-members", verdict, why)
  /\ Check(o.serlen <= MaxBytes, "limit-bytes", verdict, why)
  /\ Check(\A i \in 1..Len(o.mlens) : o.mlens[i] <= MaxMemberBytes, "limit-memberbytes", verdict, why)
  (* the serialisation is in the language of the header grammar and denotes the same baggage ... *)
  /\ Check(HLen(o.ser) = o.serlen, "lexer-drift", verdict, why)
  /\ strict => LET r == ParseW3C(o.ser) IN
                /\ Check(r.out # "free", "ser-grammar", verdict, why)
                /\ (r.out # "free") => Check(BMatch(r.b, o.b), "ser-members", verdict, why)
  (* ... and the implementation itself parses it back to the same members (stable / round trip) *)
  /\ Check(o.reok, "unstable-reparse-fails", verdict, why)
  /\ o.reok => Check(BMatch(o.reb, o.b) /\ o.exact, "unstable-members", verdict, why)

Init == l = 1 /\ bags = << <<>> >> /\ ctxs = << <<>> >>

TParse ==
  /\ Trace[l].ev = "Parse"
  /\ LET e == Trace[l]  o == e.obs  r == ParseHeader(e.h) IN
     /\ Check(HLen(e.h) = e.hlen, "lexer-drift", r.out, "")
     /\ Check(r.out = "accept" => o.ok, "parse-rejected-wellformed", r.out, "")
     /\ Check(r.out = "reject" => ~o.ok, "parse-accepted-over-limit", r.out, "")
     /\ (o.ok /\ r.out \in {"accept", "either"}) => Check(BMatch(o.b, r.b), "parse-members", r.out, "")
     /\ o.ok => BagClauses(o, r.out, "", r.out # "free")
     (* the propagator's Extract installs exactly what Parse returns / leaves the parent alone *)
     /\ Check(o.xcoh, "extract-differs-from-parse", r.out, "")
  /\ UNCHANGED <<bags, ctxs>>

TNew ==
  /\ Trace[l].ev = "New"
  /\ LET e == Trace[l]  o == e.obs  a == e.args
         n == Len(a)
         judged == \A i \in 1..n : MemberArgOK(a[i]) /\ AllTokenKeys(a[i])
     IN
     (* the member / property constructors: refuse what is not valid UTF-8 or has an empty key,  *)
     (* accept every valid (token) key with arbitrary UTF-8 values and properties                *)
     /\ \A i \in 1..n :
          /\ (~MemberArgOK(a[i])) => Check(~o.argok[i], "badarg-accepted", "badarg", "arg")
          /\ (MemberArgOK(a[i]) /\ AllTokenKeys(a[i])) => Check(o.argok[i], "arg-rejected", "accept", "arg")
     /\ (\E i \in 1..n : ~o.argok[i]) => Check(~o.ok, "zero-member-accepted", "badarg", "arg")
     /\ (judged /\ \A i \in 1..n : o.argok[i]) =>
          LET w == NewVerdict([i \in 1..n |-> ToMember(a[i])], o.alens) IN
          /\ Check(w.out = "accept" => o.ok, "new-rejected-within-limits", w.out, w.why)
          /\ Check(w.out = "reject" => ~o.ok, "new-accepted-over-limit", w.out, w.why)
          /\ (o.ok /\ w.out = "accept") => Check(BMatch(o.b, w.b), "new-members", w.out, w.why)
          /\ o.ok =>
               /\ BagClauses(o, w.out, w.why, TRUE)
               (* Inject followed by Extract with the baggage propagator is the identity *)
               /\ Check(o.pok, "propagate-lost", w.out, w.why)
               /\ o.pok => Check(BMatch(o.pb, o.b) /\ o.pexact, "propagate-members", w.out, w.why)
     (* non-token keys (Raw constructors): recorded, not judged -- but what was returned is a value *)
     /\ (o.ok /\ ~judged) => /\ Check(o.coh, "incoherent", "unjudged", "nontoken")
                             /\ Check(BValidUtf8(o.b), "utf8", "unjudged", "nontoken")
  /\ UNCHANGED <<bags, ctxs>>

TReset == /\ Trace[l].ev = "Reset"
          /\ bags' = << <<>> >> /\ ctxs' = << <<>> >>

SeqMatch(got, want) == Len(got) = Len(want) /\ \A i \in 1..Len(want) : BMatch(got[i], want[i])

(* every step is judged from the REAL predecessor state (re-synchronised), so one deviation is   *)
(* reported once; immutability = every earlier handle / context re-read after the call is what   *)
(* the model (which never changes an existing index) says                                        *)
TOp ==
  /\ Trace[l].ev = "Op"
  /\ LET e == Trace[l]  o == e.obs  r == Eff(bags, ctxs, e.a) IN
     /\ Check(Len(o.bags) >= Len(bags) /\ SeqMatch(SubSeq(o.bags, 1, Len(bags)), bags)
              /\ Len(o.ctxs) >= Len(ctxs) /\ SeqMatch(SubSeq(o.ctxs, 1, Len(ctxs)), ctxs),
              "receiver-or-copy-altered", e.a.op, "")
     /\ Check(Len(o.bags) = Len(r.bags) /\ Len(o.ctxs) = Len(r.ctxs), "op-verdict", e.a.op, "")
     /\ (Len(o.bags) = Len(r.bags) /\ Len(o.ctxs) = Len(r.ctxs)) =>
           Check(SeqMatch(o.bags, r.bags) /\ SeqMatch(o.ctxs, r.ctxs), "op-result", e.a.op, "")
     /\ Check(o.frozen, "returned-slice-altered", e.a.op, "")
     /\ Check(o.coh, "incoherent", e.a.op, "")
     /\ bags' = o.bags /\ ctxs' = o.ctxs

TDone == l = Len(Trace) + 1 /\ Accepted(l) /\ UNCHANGED vars

Next == \/ /\ l <= Len(Trace)
           /\ (TParse \/ TNew \/ TReset \/ TOp)
           /\ l' = l + 1
        \/ TDone
Spec == Init /\ [][Next]_vars
=============================================================================
