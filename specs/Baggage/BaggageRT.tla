----------------------------- MODULE BaggageRT -----------------------------
(* Codec state machine for TLC (C11): every constructor input and every header *)
(* of the configured families is one edge  init --New(ms)/Parse(h)--> verdict. *)
(* The edges are the test plan replayed on baggage.New / baggage.Parse /        *)
(* propagation.Baggage; the invariants are the statement's clauses as theorems *)
(* of the codec model (round trip, stability, limits, valid UTF-8, last wins). *)
EXTENDS BaggageCodec, TLC, Json

CONSTANTS HAlpha, HMaxLen, HExtra,     \* headers: all strings over HAlpha up to HMaxLen, plus HExtra
          HAlpha2, HMaxLen2,           \* ... all strings over the smaller HAlpha2 of lengths HMaxLen+1..HMaxLen2
          GKeys, GAlpha, GMaxLen, GOdd, GTails,   \* grammar-directed: key "=" value-word property-tail
          GSmall, GSeps,               \* ... and every pair of the members GSmall joined by a separator of GSeps
          ArgLists,                    \* constructor inputs: set of sequences of member arguments
          Dev                          \* deviations switched on (oracle: {}); see DevParse / DevNew

VARIABLES st, act
vars == <<st, act>>

Words(alpha, lo, hi) == UNION {[1..n -> alpha] : n \in lo..hi}
Headers == Words(HAlpha, 0, HMaxLen) \cup Words(HAlpha2, HMaxLen + 1, HMaxLen2)
           \cup {k \o <<Sym("eq", "=", 1, "")>> \o w \o t : k \in GKeys, w \in Words(GAlpha, 0, GMaxLen) \cup GOdd, t \in GTails}
           \cup {a \o c \o b : a \in GSmall, b \in GSmall, c \in GSeps}
           \cup HExtra

(* the code's known deviations from the statement, only used to demonstrate that TLC finds them *)
DevParse(h) == IF "parse-no-refit" \in Dev THEN ParseW3C(h) ELSE ParseHeader(h)
CanonLens(ms) == [i \in 1..Len(ms) |-> MemberLen(ms[i])]
DevNew(ms) ==
  LET w == NewVerdict(ms, CanonLens(ms)) IN
  IF "new-no-member-limit" \in Dev /\ w.why = "memberbytes" THEN [w EXCEPT !.out = "accept", !.why = ""] ELSE w

(* verdict on a constructor call: arguments the member constructors must refuse, arguments with  *)
(* non-token keys (accepted by the Raw constructors, serialise to nothing: recorded, not judged) *)
NewResult(args) ==
  IF \E i \in 1..Len(args) : ~MemberArgOK(args[i]) THEN [out |-> "badarg", b |-> <<>>, why |-> "arg"]
  ELSE IF \E i \in 1..Len(args) : ~AllTokenKeys(args[i]) THEN [out |-> "unjudged", b |-> <<>>, why |-> "nontoken"]
  ELSE DevNew([i \in 1..Len(args) |-> ToMember(args[i])])

Init == st = [phase |-> "init", out |-> "", b |-> <<>>, why |-> ""] /\ act = [op |-> "Init"]
DoNew(args) == /\ st.phase = "init"
               /\ LET r == NewResult(args) IN st' = [phase |-> "new", out |-> r.out, b |-> r.b, why |-> r.why]
               /\ act' = [op |-> "New", args |-> args, lens |-> [i \in 1..Len(args) |-> IF AllTokenKeys(args[i]) /\ MemberArgOK(args[i]) THEN MemberLen(ToMember(args[i])) ELSE 0]]
DoParse(h) == /\ st.phase = "init"
              /\ LET r == DevParse(h) IN st' = [phase |-> "parse", out |-> r.out, b |-> r.b, why |-> ""]
              /\ act' = [op |-> "Parse", h |-> h, hlen |-> HLen(h)]
Next == (\E a \in ArgLists : DoNew(a)) \/ (\E h \in Headers : DoParse(h))
Spec == Init /\ [][Next]_vars

View == st
EmitEdge == PrintT("EDGE " \o ToJson([from |-> st, act |-> act', to |-> st']))

-----------------------------------------------------------------------------
Returned == st.out \in {"accept", "either"}
(* a returned baggage serialises to a header that parses back to it (round trip / stability) *)
RoundTrip == Returned => LET r == ParseHeader(Serialize(st.b)) IN r.out = "accept" /\ BMatch(r.b, st.b)
(* ... and respects the limits, holds valid UTF-8, has no duplicate key *)
Limits == Returned => /\ Fits(st.b) /\ HLen(Serialize(st.b)) = SerLen(st.b)
                      /\ BValidUtf8(st.b)
                      /\ \A i, j \in 1..Len(st.b) : st.b[i].k = st.b[j].k => i = j
(* every verdict class is one of the known ones *)
TypeOK == st.out \in {"", "accept", "either", "reject", "free", "nostable", "badarg", "unjudged"}
Inv == TypeOK /\ RoundTrip /\ Limits
=============================================================================
