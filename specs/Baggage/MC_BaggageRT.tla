--------------------------- MODULE MC_BaggageRT ---------------------------
EXTENDS BaggageRT
MCHAlpha == @HALPHA@
MCHExtra == @HEXTRA@
MCHAlpha2 == @HALPHA2@
MCGKeys == @GKEYS@
MCGAlpha == @GALPHA@
MCGOdd == @GODD@
MCGTails == @GTAILS@
MCGSmall == @GSMALL@
MCGSeps == @GSEPS@
MCArgLists == @ARGLISTS@
MCDev == @DEV@
=============================================================================
