--------------------------- MODULE MC_BaggageRT ---------------------------
EXTENDS BaggageRT
MCHAlpha == @HALPHA@
MCHExtra == @HEXTRA@
MCArgLists == @ARGLISTS@
MCDev == @DEV@
=============================================================================
