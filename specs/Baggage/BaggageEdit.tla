---------------------------- MODULE BaggageEdit ----------------------------
(* Baggage as an immutable VALUE (C11): the effect of every API call that       *)
(* derives a baggage value or a context from existing ones, as a PURE function  *)
(* over (bags, ctxs).  Shared by the explorer BaggageStore.tla (spec -> code)   *)
(* and by Trace_Baggage.tla (code -> spec).  bags = sequence of baggage values, *)
(* handle = index, bags[1] is the zero Baggage; ctxs = sequence of contexts     *)
(* (each holds a baggage value), ctxs[1] is context.Background().                *)
EXTENDS BaggageCodec

Without(b, k) == SelectSeq(b, LAMBDA m : m.k # k)
SetM(b, m) == Append(Without(b, m.k), m)
AsMembers(l) == [i \in 1..Len(l) |-> ToMember(l[i])]

(* effect of one API call on (bags, ctxs) as a pure function: shared with Trace_Baggage.tla.   *)
(* contexts: ContextWithBaggage(parent c, bags[h]), FromContext, ContextWithoutBaggage, a derived   *)
(* child; propagator: Inject(ctxs[c]) into a fresh carrier, Extract(parent p, carrier) -- an empty   *)
(* baggage injects nothing, and Extract without a (parseable) header returns the parent unchanged;  *)
(* the zero Member is refused by SetMember and the ORIGINAL baggage is returned;                     *)
(* Scribble: the caller overwrites every slice it was handed for handle h (Members(),               *)
(* Properties()) and the property slices it passed to the constructors: nothing may change.         *)
WithBag(bs, cs, b) == [bags |-> Append(bs, b), ctxs |-> cs]
WithCtx(bs, cs, b) == [bags |-> bs, ctxs |-> Append(cs, b)]
Eff(bs, cs, a) ==
  CASE a.op = "New" ->
         (* an argument the member constructors refuse yields the zero Member, which New refuses *)
         IF \E i \in 1..Len(a.args) : ~MemberArgOK(a.args[i]) THEN [bags |-> bs, ctxs |-> cs]
         ELSE LET r == NewVerdict(AsMembers(a.args), [i \in 1..Len(a.args) |-> WireLen(ToMember(a.args[i]))]) IN
              IF r.out = "accept" THEN WithBag(bs, cs, r.b) ELSE [bags |-> bs, ctxs |-> cs]
    [] a.op = "SetMember" ->
         (* ... and SetMember refuses it as well and returns the ORIGINAL baggage *)
         WithBag(bs, cs, IF MemberArgOK(a.arg) THEN SetM(bs[a.h], ToMember(a.arg)) ELSE bs[a.h])
    [] a.op = "SetZero" -> WithBag(bs, cs, bs[a.h])
    [] a.op = "DeleteMember" -> WithBag(bs, cs, Without(bs[a.h], a.k))
    [] a.op = "Parse" ->
         LET r == ParseHeader(a.hd) IN
         IF r.out = "accept" THEN WithBag(bs, cs, r.b) ELSE [bags |-> bs, ctxs |-> cs]
    [] a.op = "ToCtx" -> WithCtx(bs, cs, bs[a.h])
    [] a.op = "FromCtx" -> WithBag(bs, cs, cs[a.c])
    [] a.op = "ClearCtx" -> WithCtx(bs, cs, <<>>)
    [] a.op = "Child" -> WithCtx(bs, cs, cs[a.c])
    [] a.op = "Propagate" ->
         (* only members (and properties) with token keys travel; nothing to send = no header = parent *)
         LET w == TokenPart(cs[a.c])
             r == ParseHeader(Serialize(w)) IN
         WithCtx(bs, cs, IF w = <<>> \/ r.out # "accept" THEN cs[a.p] ELSE r.b)
    [] a.op = "Scribble" -> [bags |-> bs, ctxs |-> cs]
=============================================================================
