SPECIFICATION Spec
CONSTANTS
  MaxMembers = @MAXMEMBERS@
  MaxBytes = @MAXBYTES@
  MaxMemberBytes = @MAXMEMBERBYTES@
  MemberArgs <- MCMemberArgs
  NewLists <- MCNewLists
  DelKeys <- MCDelKeys
  Hdrs <- MCHdrs
  Ops <- MCOps
  MaxSteps = @MAXSTEPS@
VIEW View
ACTION_CONSTRAINT EmitEdge
INVARIANT Inv
PROPERTIES Immutable SetHolds DeleteHolds
CHECK_DEADLOCK FALSE
