SPECIFICATION Spec
CONSTANTS
  MaxMembers = @MAXMEMBERS@
  MaxBytes = @MAXBYTES@
  MaxMemberBytes = @MAXMEMBERBYTES@
  MemberArgs <- MCMemberArgs
  NewLists <- MCNewLists
  DelKeys <- MCDelKeys
  Hdrs <- MCHdrs
  MaxSteps = @MAXSTEPS@
VIEW View
ACTION_CONSTRAINT EmitEdge
INVARIANT Inv
PROPERTIES Immutable
CHECK_DEADLOCK FALSE
