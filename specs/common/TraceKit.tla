------------------------------ MODULE TraceKit ------------------------------
(* Shared by every Trace_<Sub>.tla: the recorded ndjson trace, the cursor, and  *)
(* reporting.  A trace spec consumes exactly one line per step.  Contract      *)
(* clauses broken by the REAL trace are reported with Viol(...) (printed as     *)
(* `VIOL {json}`), the run ends with `ACCEPTED <n>` once every line has been    *)
(* consumed; the python driver requires n = number of lines (otherwise the      *)
(* trace spec could not explain the trace: drift, exit 2, never a verdict).     *)
EXTENDS Naturals, Sequences, TLC, Json

Trace == ndJsonDeserialize("trace.ndjson")

Viol(rec) == PrintT("VIOL " \o ToJson(rec))
Accepted(l) == PrintT("ACCEPTED " \o ToString(l - 1))
=============================================================================
